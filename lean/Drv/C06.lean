import PV.Common.Proto
import PV.C06.Model
import PV.C06.Spec
import PV.C17.Dec
/-! Driver for C06: answers the same request lines as `harness/src/bin/pvh_c06.rs` with the model. -/
open PV PV.C06

def showCps (cs : List Nat) : String :=
  if cs.isEmpty then "-" else joinSep "," (cs.map toString)

def hex16 (n : Nat) : String :=
  String.ofList ((List.range 16).reverse.map fun i => hexDigit ((n / 16 ^ i) % 16))

def errKindName : ErrKind → String
  | .stringError => "StringError"
  | .unicodeError => "UnicodeError"
  | .eof => "Eof"
  | .otherError => "OtherError"
  | .fstring _ => "FStringError"
  | .panic => "(panic)"

def showErr (e : Err) : String :=
  match e.kind with
  | .panic => "(panic)"
  | k => s!"err {errKindName k} {e.loc}"

/-- split a cleaned float numeral into (all mantissa digits, decimal exponent of the last digit) -/
def floatDecimal (t : List Nat) : List Nat × Int :=
  let isD := fun (c : Nat) => decide (48 ≤ c ∧ c ≤ 57)
  let ip := t.takeWhile isD
  let r := t.dropWhile isD
  let (fp, r) := match r with
    | 46 :: r' => (r'.takeWhile isD, r'.dropWhile isD)
    | _ => ([], r)
  let e : Int := match r with
    | 101 :: 45 :: ds => - (Int.ofNat (PV.Dec.ofDigits (ds.map (· - 48))))
    | 101 :: 43 :: ds => Int.ofNat (PV.Dec.ofDigits (ds.map (· - 48)))
    | 101 :: ds => Int.ofNat (PV.Dec.ofDigits (ds.map (· - 48)))
    | _ => 0
  ((ip ++ fp).map (· - 48), e - Int.ofNat fp.length)

def floatBits (t : List Nat) : Nat :=
  let (ds, e) := floatDecimal t
  PV.Dec.ofDecimal false ds e

def showNum : NumTok → String
  | .int v => s!"int {v}"
  | .float t => s!"float {hex16 (floatBits t)}"
  | .complex t => s!"complex {hex16 0} {hex16 (floatBits t)}"

def showValue : Value → String
  | .str s u => s!"str {if u then "u" else "-"} {showCps s}"
  | .bytes b => s!"bytes {hex b}"

/-- `n=<hexname>:<cp>,<hexname>:-,…` → lookup function -/
def parseNames (arg : String) : List Nat → Option Nat :=
  let body := (arg.drop 2).toString
  let entries := (body.splitOn ",").filterMap fun e =>
    match e.splitOn ":" with
    | [n, v] =>
      match unhex n with
      | some bs =>
        match utf8Decode bs with
        | some cs => some (cs, v.toNat?)
        | none => none
      | none => none
    | _ => none
  fun name => match entries.find? (fun p => p.1 == name) with
    | some (_, v) => v
    | none => none

def handleLit (lookup : List Nat → Option Nat) (src : List Nat) : String :=
  match parseLit lookup src with
  | none => "unsupported"
  | some (.error e) => showErr e
  | some (.ok (.num n)) => showNum n
  | some (.ok (.value v)) => showValue v
  | some (.ok (.fstring _)) => "joined"

def kindName : Kind → String
  | .str => "s" | .fstr => "f" | .bytes => "b" | .rawStr => "r"
  | .rawFStr => "rf" | .rawBytes => "rb" | .unicode => "u"

def showTok : LitTok → String
  | .string t => s!"S:{kindName t.kind}:{if t.triple then 3 else 1}:{showCps t.body}"
  | .num (.int v) => s!"I:{v}"
  | .num (.float t) => s!"F:{hex16 (floatBits t)}"
  | .num (.complex t) => s!"C:{hex16 0}:{hex16 (floatBits t)}"

/-- `lexLits` but keeping the tokens lexed before an error (the real lexer yields them) -/
def lexLitsPrefix : Nat → List Nat → Nat → Option (List LitTok × Option Err)
  | 0, _, _ => none
  | _ + 1, [], _ => some ([], none)
  | fuel + 1, c :: cs, loc =>
    if c = 32 ∨ c = 9 then lexLitsPrefix fuel cs (loc + 1)
    else if startsNumber (c :: cs) then
      match lexNumber (c :: cs) loc with
      | .error e => some ([], some e)
      | .ok (n, rest) =>
        match lexLitsPrefix fuel rest (loc + ((c :: cs).length - rest.length)) with
        | some (ts, e) => some (.num n :: ts, e)
        | none => none
    else
      match detectString (c :: cs) with
      | none => none
      | some kind =>
        match lexString kind (c :: cs) loc with
        | .error e => some ([], some e)
        | .ok (t, rest) =>
          match lexLitsPrefix fuel rest t.stop with
          | some (ts, e) => some (.string t :: ts, e)
          | none => none

def handleTok (src : List Nat) : String :=
  match lexLitsPrefix (src.length + 1) src 0 with
  | none => "unsupported"
  | some (ts, e) =>
    let items := ts.map showTok ++ (match e with
      | some e => [match e.kind with
        | .panic => "(panic)"
        | k => s!"E:{errKindName k}:{e.loc}"]
      | none => [])
    if items.isEmpty then "-" else joinSep ";" items

def decodeSrc (s : String) : Option (List Nat) :=
  match unhex s with
  | some bs => utf8Decode bs
  | none => none

def handle : List String → String
  | ["lit", s] => match decodeSrc s with
    | some cs => handleLit (fun _ => none) cs
    | none => "bad-request"
  | ["lit", s, n] => match decodeSrc s with
    | some cs => handleLit (parseNames n) cs
    | none => "bad-request"
  | ["tok", s] => match decodeSrc s with
    | some cs => handleTok cs
    | none => "bad-request"
  | _ => "bad-request"

def main : IO Unit := protoLoop handle
