import PV.Common.Proto
import PV.Prog.Parse
import PV.Prog.Render
/-! Driver for PROG (the statement level of the grammar): answers the same request lines as
  `harness/src/bin/pvh_prog.rs`.

  `prog <mode> <hex src> <attachment>`: the attachment is the REAL token stream (lexer + soft-keyword pass,
  ranges dropped, produced by the harness op `toks`); it is decoded into `List PTok`, string tokens are
  decoded to their values with the string model of `PV.C11.Lexer` (`string.rs`), and
  `PV.Prog.parseProgram` is run.  Answer: the canonical range-erased tree, byte-identical to the harness's, or
  `parse-error`.  The source text itself is not used on this side.

  `render <mode> <hex src> <attachment>`: the tree is parsed as above; if it lies in the fragment of the proved round
  trip (`PV.Prog.inFragM`) it is printed by `PV.Prog.render` and the TEXT of the token list (tokens separated by one
  space, four spaces per indentation level) is answered as `R <k> <hex text>` (`k`: how many NAME tokens of the
  rendering are spelled like a soft keyword); otherwise `outside` / `parse-error`.

  `rt <mode> <hex src> <attachment> <hex rendered> <attachment of the rendered text>`: the printer against the real
  lexer and parser (stream `render-roundtrip`): `text=` the text this driver renders for the tree of the first
  attachment is the one in the request, `toks=` the REAL token stream of that text is exactly `PV.Prog.render tree`,
  `eq=` parsing that stream gives the original tree back; then the tree read off the rendered text.
-/
open PV PV.Expr PV.C11 PV.Prog

def hexU (cs : List Nat) : String := hex (utf8Encode cs)

def hex16 (n : Nat) : String :=
  String.ofList ((List.range 16).map fun i => hexDigit ((n / 16 ^ (15 - i)) % 16))

def optS {α} (f : α → String) : Option α → String
  | none => "~"
  | some a => f a

def boolOpName : BoolOp → String
  | .and => "And" | .or => "Or"

def binOpName : BinOp → String
  | .add => "Add" | .sub => "Sub" | .mult => "Mult" | .matMult => "MatMult" | .div => "Div"
  | .mod => "Mod" | .pow => "Pow" | .lShift => "LShift" | .rShift => "RShift" | .bitOr => "BitOr"
  | .bitXor => "BitXor" | .bitAnd => "BitAnd" | .floorDiv => "FloorDiv"

def unaryOpName : UnaryOp → String
  | .invert => "Invert" | .not => "Not" | .uAdd => "UAdd" | .uSub => "USub"

def cmpOpName : CmpOp → String
  | .eq => "Eq" | .notEq => "NotEq" | .lt => "Lt" | .ltE => "LtE" | .gt => "Gt" | .gtE => "GtE"
  | .is => "Is" | .isNot => "IsNot" | .in => "In" | .notIn => "NotIn"

def dumpConst : Const → String
  | .none => "(Const none)"
  | .bool true => "(Const true)"
  | .bool false => "(Const false)"
  | .ellipsis => "(Const ellipsis)"
  | .int n => s!"(Const int {n})"
  | .float b => s!"(Const float {hex16 b})"
  | .imag b => s!"(Const imag {hex16 b})"
  | .str s u => s!"(Const str {hexU s} {if u then "u" else "~"})"
  | .bytes b => s!"(Const bytes {hex b})"

/-! expressions: exactly `Drv/C11.lean` -/
mutual
partial def dump : Expr → String
  | .name id => s!"(Name {hexU id})"
  | .const c => dumpConst c
  | .boolOp o vs => s!"(BoolOp {boolOpName o}{dumpList vs})"
  | .namedExpr t v => s!"(NamedExpr {dump t} {dump v})"
  | .binOp l o r => s!"(BinOp {binOpName o} {dump l} {dump r})"
  | .unaryOp o e => s!"(UnaryOp {unaryOpName o} {dump e})"
  | .lambda po ar va ko kw b =>
    s!"(Lambda (posonly{dumpParams po}) (args{dumpParams ar}) (vararg {optS hexU va}) (kwonly{dumpParams ko}) (kwarg {optS hexU kw}) {dump b})"
  | .ifExp t b o => s!"(IfExp {dump t} {dump b} {dump o})"
  | .dict items =>
    "(Dict" ++ String.join (items.map fun | .mk k v => s!" ({optS dump k} {dump v})") ++ ")"
  | .set es => s!"(Set{dumpList es})"
  | .listComp e gs => s!"(ListComp {dump e}{dumpComps gs})"
  | .setComp e gs => s!"(SetComp {dump e}{dumpComps gs})"
  | .dictComp k v gs => s!"(DictComp {dump k} {dump v}{dumpComps gs})"
  | .genExp e gs => s!"(GeneratorExp {dump e}{dumpComps gs})"
  | .await e => s!"(Await {dump e})"
  | .yield e => s!"(Yield {optS dump e})"
  | .yieldFrom e => s!"(YieldFrom {dump e})"
  | .compare l ops cs =>
    "(Compare " ++ dump l ++
      String.join ((ops.zip cs).map fun (o, c) => s!" ({cmpOpName o} {dump c})") ++ ")"
  | .call f as ks => s!"(Call {dump f} (args{dumpList as}) (kws{dumpKeywords ks}))"
  | .formattedValue v c spec => s!"(FormattedValue {dump v} {c} {optS dump spec})"
  | .joinedStr vs => s!"(JoinedStr{dumpList vs})"
  | .attribute e a => s!"(Attribute {dump e} {hexU a})"
  | .subscript e s => s!"(Subscript {dump e} {dump s})"
  | .starred e => s!"(Starred {dump e})"
  | .list es => s!"(List{dumpList es})"
  | .tuple es => s!"(Tuple{dumpList es})"
  | .slice a b c => s!"(Slice {optS dump a} {optS dump b} {optS dump c})"
partial def dumpList (es : List Expr) : String := String.join (es.map fun e => " " ++ dump e)
partial def dumpParams (ps : List Param) : String :=
  String.join (ps.map fun | .mk n d => s!" (P {hexU n} {optS dump d})")
partial def dumpComps (gs : List Comp) : String :=
  String.join (gs.map fun | .mk t i ifs a => s!" (Comp {dump t} {dump i} {if a then 1 else 0}{dumpList ifs})")
partial def dumpKeywords (ks : List Keyword) : String :=
  String.join (ks.map fun | .mk a v => s!" ({optS hexU a} {dump v})")
end

/-! statements -/

def dumpExprs (tag : String) (es : List Expr) : String := s!" ({tag}{dumpList es})"

def dumpTypedParams (tag : String) (ps : List ArgWithDefault) : String :=
  s!" ({tag}" ++ String.join (ps.map fun p => s!" (P {hexU p.arg.name} {optS dump p.arg.annotation} {optS dump p.default})") ++ ")"

def dumpOptArg (tag : String) (a : Option Arg) : String :=
  s!" ({tag} " ++ (match a with
    | some a => s!"(A {hexU a.name} {optS dump a.annotation})"
    | none => "~") ++ ")"

def dumpArguments (a : Arguments) : String :=
  "(Args" ++ dumpTypedParams "posonly" a.posonly ++ dumpTypedParams "args" a.args ++ dumpOptArg "vararg" a.vararg ++
    dumpTypedParams "kwonly" a.kwonly ++ dumpOptArg "kwarg" a.kwarg ++ ")"

def dumpTParams (tps : List TypeParam) : String :=
  " (tparams" ++ String.join (tps.map fun
    | .typeVar n b => s!" (TypeVar {hexU n} {optS dump b})"
    | .paramSpec n => s!" (ParamSpec {hexU n})"
    | .typeVarTuple n => s!" (TypeVarTuple {hexU n})") ++ ")"

mutual
partial def dumpPattern : Pattern → String
  | .matchValue e => s!"(MatchValue {dump e})"
  | .matchSingleton c => s!"(MatchSingleton {dumpConst c})"
  | .matchSequence ps => s!"(MatchSequence{dumpPatternList ps})"
  | .matchMapping ks ps rest => s!"(MatchMapping{dumpExprs "keys" ks} (pats{dumpPatternList ps}) {optS hexU rest})"
  | .matchClass cls ps ka kp =>
    s!"(MatchClass {dump cls} (pats{dumpPatternList ps}) (kwa{String.join (ka.map fun n => " " ++ hexU n)}) (kwp{dumpPatternList kp}))"
  | .matchStar n => s!"(MatchStar {optS hexU n})"
  | .matchAs p n => s!"(MatchAs {optS dumpPattern p} {optS hexU n})"
  | .matchOr ps => s!"(MatchOr{dumpPatternList ps})"
partial def dumpPatternList (ps : List Pattern) : String := String.join (ps.map fun p => " " ++ dumpPattern p)
end

def dumpAliases (as : List Alias) : String :=
  String.join (as.map fun a => s!" (A {hexU a.name} {optS hexU a.asname})")

def dumpNames (tag : String) (ns : List Ident) : String :=
  s!"({tag}" ++ String.join (ns.map fun n => " " ++ hexU n) ++ ")"

mutual
partial def dumpStmt : Stmt → String
  | .functionDef n a b d r tp => dumpFuncDef "FunctionDef" n a b d r tp
  | .asyncFunctionDef n a b d r tp => dumpFuncDef "AsyncFunctionDef" n a b d r tp
  | .classDef n bases kws body decos tps =>
    s!"(ClassDef {hexU n}{dumpExprs "bases" bases} (kws{dumpKeywords kws}){dumpBody "body" body}{dumpExprs "decos" decos}{dumpTParams tps})"
  | .return v => s!"(Return {optS dump v})"
  | .delete ts => s!"(Delete{dumpList ts})"
  | .assign ts v => s!"(Assign{dumpExprs "targets" ts} {dump v})"
  | .typeAlias n tps v => s!"(TypeAlias {dump n}{dumpTParams tps} {dump v})"
  | .augAssign t o v => s!"(AugAssign {dump t} {binOpName o} {dump v})"
  | .annAssign t a v s => s!"(AnnAssign {dump t} {dump a} {optS dump v} {if s then 1 else 0})"
  | .for t i b o => dumpFor "For" t i b o
  | .asyncFor t i b o => dumpFor "AsyncFor" t i b o
  | .while t b o => s!"(While {dump t}{dumpBody "body" b}{dumpBody "orelse" o})"
  | .if t b o => s!"(If {dump t}{dumpBody "body" b}{dumpBody "orelse" o})"
  | .with items b => dumpWith "With" items b
  | .asyncWith items b => dumpWith "AsyncWith" items b
  | .match subj cases =>
    s!"(Match {dump subj}" ++ String.join (cases.map fun
      | .mk p g b => s!" (case {dumpPattern p} {optS dump g}{dumpBody "body" b})") ++ ")"
  | .raise e c => s!"(Raise {optS dump e} {optS dump c})"
  | .try b h o f => dumpTry "Try" b h o f
  | .tryStar b h o f => dumpTry "TryStar" b h o f
  | .assert t m => s!"(Assert {dump t} {optS dump m})"
  | .import ns => s!"(Import{dumpAliases ns})"
  | .importFrom m ns l => s!"(ImportFrom {optS hexU m} (names{dumpAliases ns}) {optS toString l})"
  | .global ns => dumpNames "Global" ns
  | .nonlocal ns => dumpNames "Nonlocal" ns
  | .expr e => s!"(Expr {dump e})"
  | .pass => "(Pass)"
  | .break => "(Break)"
  | .continue => "(Continue)"
partial def dumpBody (tag : String) (ss : List Stmt) : String :=
  s!" ({tag}" ++ String.join (ss.map fun s => " " ++ dumpStmt s) ++ ")"
partial def dumpFuncDef (tag : String) (n : Ident) (a : Arguments) (b : List Stmt) (d : List Expr)
    (r : Option Expr) (tp : List TypeParam) : String :=
  s!"({tag} {hexU n} {dumpArguments a}{dumpBody "body" b}{dumpExprs "decos" d} {optS dump r}{dumpTParams tp})"
partial def dumpFor (tag : String) (t i : Expr) (b o : List Stmt) : String :=
  s!"({tag} {dump t} {dump i}{dumpBody "body" b}{dumpBody "orelse" o})"
partial def dumpWith (tag : String) (items : List WithItem) (b : List Stmt) : String :=
  s!"({tag} (items" ++ String.join (items.map fun it => s!" ({dump it.contextExpr} {optS dump it.optionalVars})") ++
    ")" ++ dumpBody "body" b ++ ")"
partial def dumpTry (tag : String) (b : List Stmt) (hs : List ExceptHandler) (o f : List Stmt) : String :=
  s!"({tag}{dumpBody "body" b} (handlers" ++ String.join (hs.map fun
    | .mk ty nm hb => s!" (H {optS dump ty} {optS hexU nm}{dumpBody "body" hb})") ++
    ")" ++ dumpBody "orelse" o ++ dumpBody "finalbody" f ++ ")"
end

def dumpMod : Mod → String
  | .module b => "(Module" ++ String.join (b.map fun s => " " ++ dumpStmt s) ++ ")"
  | .interactive b => "(Interactive" ++ String.join (b.map fun s => " " ++ dumpStmt s) ++ ")"
  | .expression e => s!"(Expression {dump e})"

/-! decoding the attachment -/

def hexNat (s : String) : Option Nat :=
  s.toList.foldl (fun acc c => match acc, PV.hexVal c with
    | some a, some d => some (16 * a + d)
    | _, _ => none) (some 0)

def unhexText (s : String) : Option (List Nat) :=
  match unhex s with
  | some bs => utf8Decode bs
  | none => none

/-- a `Tok::String { value, kind, triple_quoted }`: the value is the source text between the quotes;
    non-f-strings are decoded here (`string.rs` does it inside `parse_strings`) -/
def stringTok (kind : Char) (triple : Bool) (body : List Nat) : Option Tok :=
  let plain (raw isBytes isU : Bool) : Option Tok :=
    let decoded : Option (List Nat) :=
      if raw then (if isBytes ∧ body.any (· ≥ 128) then none else some body)
      else decodeEscapes isBytes (body.length + 1) body
    match decoded with
    | none => none
    | some v => if isBytes then some (.bytes v) else some (.str v isU)
  match kind with
  | 's' => plain false false false
  | 'u' => plain false false true
  | 'r' => plain true false false
  | 'b' => plain false true false
  | 'B' => plain true true false
  | 'f' => some (.fstr 39 triple false body)
  | 'R' => some (.fstr 39 triple true body)
  | _ => none

/-- one item of the attachment; `none`: not a token the model can take (lexical error marker, undecodable
    string literal, malformed item) — the answer is then `parse-error` -/
def decodeTok (s : String) : Option PTok :=
  match s.toList with
  | ['N'] => some .newline
  | ['I'] => some .indent
  | ['D'] => some .dedent
  | 'n' :: h => (unhexText (String.ofList h)).map fun cs => .e (.name cs)
  | 'i' :: d => (String.ofList d).toNat?.map fun n => .e (.int n)
  | 'f' :: h => (hexNat (String.ofList h)).map fun b => .e (.float b)
  | 'c' :: h => (hexNat (String.ofList h)).map fun b => .e (.imag b)
  | 's' :: k :: t :: h =>
    (match unhexText (String.ofList h) with
     | some body => (stringTok k (t == '1') body).map PTok.e
     | none => none)
  | 'k' :: w =>
    let cs := w.map Char.toNat
    (match keywordOf cs with
     | some k => some (.e (.kw k))
     | none => some (.e (.kw (.other cs))))
  | 'o' :: h =>
    (match unhexText (String.ofList h) with
     | some cs =>
       (match lexOp cs with
        | some (o, []) => some (.e (.op o))
        | _ => none)
     | none => none)
  | _ => none

def decodeToks (att : String) : Option (List PTok) :=
  if att == "-" then some [] else
  (att.splitOn ",").foldr (fun s acc => match decodeTok s, acc with
    | some t, some ts => some (t :: ts)
    | _, _ => none) (some [])

def modeOfStr : String → Option Mode
  | "m" => some .module
  | "i" => some .interactive
  | "e" => some .expression
  | _ => none

/-! the printer as text -/

/-- every non-ASCII character of a string literal is written as an escape -/
def noPrintable : Nat → Bool := fun _ => false

/-- tokens separated by one space; NEWLINE ends the line; four spaces per open INDENT -/
def textGo : List Tok → Nat → Bool → List Nat
  | [], _, _ => []
  | t :: r, ind, lineStart =>
    if t = tNewline then 10 :: textGo r ind true
    else if t = tIndent then textGo r (ind + 1) lineStart
    else if t = tDedent then textGo r (ind - 1) lineStart
    else (if lineStart then List.replicate (4 * ind) 32 else [32]) ++ Tok.text noPrintable t ++ textGo r ind false

def renderText (m : Mod) : List Nat := textGo ((render m).map PTok.toTok) 0 true

/-- number of NAME tokens spelled `match` / `case` / `type` (soft keywords used as identifiers) -/
def softNames (ts : List PTok) : Nat :=
  (ts.filter fun
    | .e (.name n) => n == HK.text .match || n == HK.text .case || n == HK.text .type
    | _ => false).length

def b01 (b : Bool) : String := if b then "1" else "0"

def handle : List String → String
  | ["render", m, _src, att] =>
    (match modeOfStr m with
     | none => "bad-request"
     | some mode =>
       match decodeToks att with
       | none => "parse-error"
       | some ts =>
         match parseProgram mode ts with
         | some t =>
           if inFragM t then s!"R {softNames (render t)} " ++ hex (utf8Encode (renderText t)) else "outside"
         | none => "parse-error")
  | ["rt", m, _src, att, rsrc, ratt] =>
    (match modeOfStr m with
     | none => "bad-request"
     | some mode =>
       match decodeToks att, decodeToks ratt with
       | some ts, some rts =>
         (match parseProgram mode ts with
          | none => "orig-parse-error"
          | some t =>
            let okText := hex (utf8Encode (renderText t)) == rsrc
            let okToks := decide (render t = rts)
            match parseProgram mode rts with
            | none => s!"eq=0 text={b01 okText} toks={b01 okToks} infrag={b01 (inFragM t)} tree=parse-error"
            | some t' =>
              let d := dumpMod t'
              s!"eq={b01 (d == dumpMod t)} text={b01 okText} toks={b01 okToks} infrag={b01 (inFragM t)} tree={d}")
       | _, _ => "orig-parse-error")
  | ["prog", m, _src, att] =>
    (match modeOfStr m with
     | none => "bad-request"
     | some mode =>
       match decodeToks att with
       | none => "parse-error"
       | some ts =>
         match parseProgram mode ts with
         | some t => dumpMod t
         | none => "parse-error")
  | _ => "bad-request"

def main : IO Unit := protoLoop handle
