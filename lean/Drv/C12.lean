import PV.Common.Proto
import PV.C12.Model
import PV.Gen.C12Schema
import PV.Gen.C12FoldProg
import PV.Gen.C12VisitProg
/-! Driver for C12: answers the same request lines as `harness/src/bin/pvh_c12.rs`, running the generic
    interpreters of `PV/C12/Model.lean` over the programs regenerated from the Rust sources.

    Request: `<op> <src-hex> [<visit kinds csv>, for op visit] <tree words…>`; the source text is ignored here, the tree is
      tree ::= N <kind id> <a..b | -> <n> tree^n | L <n> tree^n | S tree | O | A <hex of leaf text> -/
open PV PV.C12

def parseRange (s : String) : Option (Option Range) :=
  if s == "-" then some none else
  match s.splitOn ".." with
  | [a, b] => match a.toNat?, b.toNat? with
    | some a, some b => some (some (a, b))
    | _, _ => none
  | _ => none

mutual
partial def parseTree : List String → Option (Tree × List String)
  | "O" :: rest => some (.none, rest)
  | "S" :: rest => match parseTree rest with
    | some (t, rest) => some (.some t, rest)
    | none => none
  | "A" :: h :: rest => match unhex h with
    | some bs => some (.leaf bs, rest)
    | none => none
  | "L" :: n :: rest => match n.toNat? with
    | some n => match parseTrees n rest [] with
      | some (ts, rest) => some (.list ts, rest)
      | none => none
    | none => none
  | "N" :: k :: r :: n :: rest => match k.toNat?, parseRange r, n.toNat? with
    | some k, some r, some n => match parseTrees n rest [] with
      | some (ts, rest) => some (.node k r ts, rest)
      | none => none
    | _, _, _ => none
  | _ => none
partial def parseTrees : Nat → List String → List Tree → Option (List Tree × List String)
  | 0, rest, acc => some (acc.reverse, rest)
  | n + 1, rest, acc => match parseTree rest with
    | some (t, rest) => parseTrees n rest (t :: acc)
    | none => none
end

def showRange : Option Range → String
  | some (a, b) => s!"{a}..{b}"
  | none => "-"

def kindName (k : Nat) : String := (Gen.kindNames[k]?).getD s!"kind{k}"

def showFEv : FEv → Option String
  | .enter _ => none
  | .will r => some s!"W:{showRange (some r)}"
  | .map r => some s!"M:{showRange (some r)}"

def showVEv (e : VEv) : String := s!"{kindName e.kind}@{showRange e.range}"

def leafText (bs : List Nat) : String :=
  match utf8Decode bs with
  | some cs => String.ofList (cs.map Char.ofNat)
  | none => "?"

/-- Rust `{:?}` rendering of a generic tree -/
partial def dump : Tree → String
  | .leaf a => leafText a
  | .none => "None"
  | .some t => s!"Some({dump t})"
  | .list xs => "[" ++ joinSep ", " (xs.map dump) ++ "]"
  | .node k r fs =>
    let names := (Gen.fieldNames[k]?).getD []
    let rs := match r with | some (a, b) => s!"{a}..{b}" | none => "()"
    let parts := s!"range: {rs}" :: (List.zipWith (fun n t => s!"{n}: {dump t}") names fs)
    let body := kindName k ++ " { " ++ joinSep ", " parts ++ " }"
    match Gen.variantNames[k]? with
    | some v => if v == "" then body else s!"{v}({body})"
    | none => body

/-- the statements of a `Mod::Module` -/
def moduleBody (t : Tree) : Tree :=
  match t with
  | .node k _ fs =>
    let names := (Gen.fieldNames[k]?).getD []
    match names.idxOf? "body" with
    | some i => (fs[i]?).getD (.list [])
    | none => .list []
  | _ => .list []

def answer (op : String) (vkinds : List String) (t : Tree) : String :=
  if !(decide (Conforms Gen.schema t)) then "nonconforming-tree" else
  match op with
  | "fold" =>
    let r := foldWith Gen.foldProg id t
    s!"eq={r.1.beq t} ev={joinSep "," (r.2.filterMap showFEv)}"
  | "visit" =>
    -- only the kinds whose visit methods the harness overrides are reported (list sent with the request)
    let evs := (visitWith Gen.visitProg Gen.schema (moduleBody t)).filter fun e => vkinds.contains (kindName e.kind)
    s!"ev={joinSep "," (evs.map showVEv)}"
  | "walk" =>
    s!"ev={joinSep "," ((interestingNodes Gen.schema (moduleBody t)).map showVEv)}"
  | "ranges" =>
    s!"ranges={joinSep "," ((rangesOf t).map fun r => showRange (some r))}"
  | "opt" =>
    let once := Opt.constTuple Gen.optCfg t
    let twice := Opt.constTuple Gen.optCfg once
    s!"idem={once.beq twice} once={dump once}"
  | _ => "bad-request"

def handle : List String → String
  | op :: _src :: rest =>
    let base := (op.splitOn ":").headD op
    let (vkinds, rest) := if base == "visit" then (rest.headD "" |>.splitOn ",", rest.drop 1) else ([], rest)
    match parseTree rest with
    | some (t, []) => answer base vkinds t
    | _ => "bad-tree"
  | _ => "bad-request"

def main : IO Unit := protoLoop handle
