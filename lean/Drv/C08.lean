import PV.Common.Proto
import PV.Lexer.SoftKw
/-!
  Driver for C08: the range-erased token streams of (original, layout variant) computed by the Lean lexer
  model (`PV.Lexer.lex`, default build = no `full-lexer`), the model `PV.C08.Thm` is about.

    lexpair <mode m|i|e> <hex a> <hex b> <xid_start> <xid_continue> <emoji>

  The three class arguments instantiate the Unicode parameters of the model for the non-ASCII characters of
  both texts (see tools/lexcommon.py).  Answer, identical to `pvh_c08 lexpair`:
    eq=<0|1> a=<tok,tok,..> b=<tok,tok,..>      (`ERR` ends a stream that stopped at a lexical error)
-/
open PV PV.Lexer

def parseNats (s : String) : Option (List Nat) :=
  if s == "-" then some [] else (s.splitOn ",").mapM String.toNat?

def mkParams (xs xc em : List Nat) : UParams where
  xidStart c := if c < 128 then isAsciiLetter c else xs.contains c
  xidContinue c := if c < 128 then (isAsciiLetter c || isDigit c || c == 95) else xc.contains c
  emoji c := if c < 128 then false else em.contains c

def hexText (cs : List Nat) : String := hex (utf8Encode cs)

def showTok : Tok → String
  | .name n => s!"Name:{hexText n}"
  | .int v => s!"Int:{v}"
  | .float t => s!"Float:t{hexText t}"
  | .complex t => s!"Complex:t{hexText t}"
  | .string v k tr => s!"String:{k.rustName}:{if tr then 1 else 0}:{hexText v}"
  | .comment t => s!"Comment:{hexText t}"
  | t => t.rustName

def showErased : Option LexOut → String
  | none => "(panic)"
  | some o =>
    let items := o.toks.map (fun t => showTok t.tok) ++
      (match o.fin with
       | .eof => []
       | .err _ _ _ => ["ERR"]
       | .outOfFuel => ["OUT-OF-FUEL"])
    if items.isEmpty then "-" else joinSep "," items

def parseMode : String → Option Mode
  | "m" => some .module
  | "i" => some .interactive
  | "e" => some .expression
  | _ => none

def handle : List String → String
  | ["lexpair", mode, a, b, xs, xc, em] =>
    match parseMode mode, (unhex a).bind utf8Decode, (unhex b).bind utf8Decode, parseNats xs, parseNats xc, parseNats em with
    | some m, some ca, some cb, some xs, some xc, some em =>
      let cfg : Cfg := ⟨false, mkParams xs xc em⟩
      let x := showErased (lex cfg m 0 ca)
      let y := showErased (lex cfg m 0 cb)
      s!"eq={if x == y then 1 else 0} a={x} b={y}"
    | _, _, _, _, _, _ => "bad-request"
  | _ => "bad-request"

def main : IO Unit := protoLoop handle
