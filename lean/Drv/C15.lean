import PV.Common.Proto
import PV.C15.Model
import PV.C15.Spec
/-! Driver for C15: answers the same request lines as `harness/src/bin/pvh_c15.rs`. -/
open PV PV.C15

def showOptNat : Option Nat → String := optStr toString
def showPair : Option (Nat × Nat) → String := optStr (fun p => s!"{p.1},{p.2}")
def showRange : Option Range → String := optStr (fun r => s!"{r.start}..{r.stop}")
def showStr : Option (List Nat) → String := optStr hex
def showBool (b : Bool) : String := if b then "true" else "false"

/-- offset:full text:text without terminator:end:full_end:range:full_range:full_text_len -/
def showLine (l : Line) : String :=
  s!"{l.start}:{hex l.text}:{hex l.asStr}:{showOptNat l.end'}:{showOptNat l.fullEnd}:{showRange l.range}:{showRange l.fullRange}:{l.fullTextLen}"

/-- all boundary offsets of a text, in order -/
def boundaries (bs : List Nat) : List Nat := (List.range (bs.length + 1)).filter (isBoundary bs)

/-- what the harness prints for one `SourceFile` (they all carry the same index) -/
def describeFile (bs : List Nat) : String :=
  let n := lineCount bs
  let st := (List.range n).map fun r => showOptNat (lineStart bs r)
  let first := match lineRange bs 0 with
    | some (a, b) => SourceCode.slice bs ⟨a, b⟩
    | none => none
  s!"{n}:{joinSep "," st}:{showStr first}:{hex bs}:662e7079"

def handleLineIdx (bs : List Nat) : String :=
  let starts := lineStarts bs
  let n := lineCount bs
  let locs := (boundaries bs).map fun o =>
    s!"{o}={showPair (sourceLocation bs o)}/{lineIndex bs o}"
  let lines := (List.range (n + 1)).map fun r =>
    s!"{showOptNat (lineStart bs r)},{showOptNat (lineEnd bs r)},{showPair (lineRange bs r)},{optStr hex (lineText bs r)}"
  let cuts := (List.range (bs.length + 2)).map fun o =>
    s!"{showStr (SourceCode.upTo bs o)}/{showStr (SourceCode.after bs o)}"
  let f := describeFile bs
  s!"starts={starts} count={n} locs={joinSep ";" locs} lines={joinSep ";" lines} cuts={joinSep ";" cuts} text={hex bs} dlen={starts.length} file={f}|{f}|{f}|true"

def endingName : LineEnding → String
  | .lf => "Lf"
  | .cr => "Cr"
  | .crlf => "CrLf"

def showEnding (e : LineEnding) : String :=
  s!"{endingName e},{hex e.asStr},{e.len},{e.textLen},{hex e.asStr}"

/-- run the operations and return the iterator that is left -/
def runKeep : Iter → List Bool → List (Option Line) × Iter
  | it, [] => ([], it)
  | it, op :: ops =>
    let (r, it') := if op then it.next else it.nextBack
    let (rs, it'') := runKeep it' ops
    (r :: rs, it'')

def handleNlIter (bs : List Nat) (off : Nat) (ops : String) : String :=
  match Iter.withOffset? bs off with
  | none => "overflow"
  | some it =>
    let (res, rest) := runKeep it (ops.toList.map (· == 'f'))
    let items := res.map (optStr showLine)
    let tl := (trailingLines bs off).map showLine
    let ext := (universalNewlines bs).collect.map showLine
    let frm := (trailingLinesFrom bs).map showLine
    let find := optStr (fun (pe : Nat × LineEnding) => s!"{pe.1},{showEnding pe.2}") (findNewlineE bs)
    s!"{joinSep ";" items} last={optStr showLine rest.last} trailing={joinSep ";" tl} ext={joinSep ";" ext} from={joinSep ";" frm} find={find}"

def handleLine (bs : List Nat) (off : Nat) (cmp : List Nat) : String :=
  let l : Line := ⟨bs, off⟩
  s!"{showLine l} deref={hex l.asStr} eq={showBool (l.eqStr cmp)},{showBool (l.eqStr cmp)},{showBool (l.eqStr bs)},{showBool (l.eqStr l.asStr)} same=true"

def showBound : Bound → String
  | .included x => s!"I{x}"
  | .excluded x => s!"E{x}"
  | .unbounded => "U"

def rep (n : Nat) (s : String) : String := joinSep "|" (List.replicate n s)

def rangeOps (a b c d : Nat) (text : List Nat) : String :=
  match Range.new? a b, Range.new? c d with
  | some r, some o =>
    let fields : List String := [
      s!"len={r.len}", s!"empty={r.isEmpty}",
      s!"contains={r.contains c}", s!"containsI={r.containsInclusive c}",
      s!"containsR={r.containsRange o}",
      s!"intersect={showRange (r.intersect o)}",
      s!"cover={showRange (some (r.cover o))}",
      s!"coverOff={showRange (some (r.coverOffset c))}",
      s!"add={showRange (r.checkedAdd c)}", s!"sub={showRange (r.checkedSub c)}",
      s!"ord={r.ordering o}",
      s!"at={showRange (Range.at? a c)}",
      s!"upto={showRange (some (Range.upTo b))}",
      s!"substart={showRange (r.subStart c)}",
      s!"addstart={showRange (r.addStart c)}",
      s!"subend={showRange (r.subEnd c)}",
      s!"addend={showRange (r.addEnd c)}",
      s!"addop={rep 4 (showRange (r.addOp c))}",
      s!"subop={rep 4 (showRange (r.subOp c))}",
      s!"bounds={showBound r.startBound},{showBound r.endBound}",
      s!"rbcontains={r.boundsContains c}",
      s!"index={showStr (r.index text)}",
      s!"sindex={showStr (r.index text)}",
      s!"imut={showStr (r.indexMutUpper text)}",
      s!"simut={showStr (r.indexMutUpper text)}"]
    joinSep " " fields
  | none, _ => "new=none"
  | _, none => "other=none"

def sizeOps (a b : Nat) (text : List Nat) : String :=
  let chars := (utf8Decode text).getD []
  let ofc := if chars.isEmpty then "-" else joinSep "," (chars.map fun c => toString (Size.ofChar c))
  let sums := [Size.sum [a, b], Size.sum [a, b, a], Size.sum (chars.map Size.ofChar), Size.sum []]
  let n := Size.ofStr text
  let tryFrom := if a + b ≤ u32Max then toString (a + b) else "none"
  s!"add={rep 6 (showOptNat (Size.add a b))} sub={rep 6 (showOptNat (Size.sub a b))} cadd={showOptNat (Size.checkedAdd a b)} csub={showOptNat (Size.checkedSub a b)} of={n},{n},{n} ofc={ofc} sum={joinSep "|" (sums.map showOptNat)} u32={a},{a} try={tryFrom}"

def oneIdx (v rhs : Nat) : String :=
  let try_ := match OneIndexed.tryFromZeroIndexed v with
    | some x => toString x
    | none => s!"err{v}"
  let head := s!"try={try_} min=1 max={u32Max} dflt={SourceLocation.default.1},{SourceLocation.default.2}"
  if v > u32Max then head else
  let new := OneIndexed.new? v
  let fzi := OneIndexed.fromZeroIndexed v
  let one := optStr (fun (o : Nat) =>
    let z := OneIndexed.toZeroIndexed o
    s!"{z},{z},{OneIndexed.toUsize o},{OneIndexed.saturatingAdd o rhs},{OneIndexed.saturatingSub o rhs},{OneIndexed.fromZeroIndexed z}") new
  s!"{head} new={showOptNat new} fzi={fzi} back={OneIndexed.toZeroIndexed fzi} one={one}"

def handleSlices (bs : List Nat) : String :=
  let n := bs.length + 1
  let pts := List.range (n + 1)
  let items := pts.flatMap fun a => pts.map fun b =>
    match Range.new? a b with
    | some r => showStr (SourceCode.slice bs r)
    | none => "none"
  joinSep ";" items

def handle : List String → String
  | ["lineidx", t] => match unhex t with
    | some bs => handleLineIdx bs
    | none => "bad-request"
  | ["nliter", t, off, ops] => match unhex t, off.toNat? with
    | some bs, some o => handleNlIter bs o (if ops == "-" then "" else ops)
    | _, _ => "bad-request"
  | ["line", t, off, c] => match unhex t, off.toNat?, unhex c with
    | some bs, some o, some c => handleLine bs o c
    | _, _, _ => "bad-request"
  | ["range", a, b, c, d, t] => match a.toNat?, b.toNat?, c.toNat?, d.toNat?, unhex t with
    | some a, some b, some c, some d, some t => rangeOps a b c d t
    | _, _, _, _, _ => "bad-request"
  | ["size", a, b, t] => match a.toNat?, b.toNat?, unhex t with
    | some a, some b, some t => sizeOps a b t
    | _, _, _ => "bad-request"
  | ["oneidx", v, rhs] => match v.toNat?, rhs.toNat? with
    | some v, some r => oneIdx v r
    | _, _ => "bad-request"
  | ["slices", t] => match unhex t with
    | some bs => handleSlices bs
    | none => "bad-request"
  | _ => "bad-request"

def main : IO Unit := protoLoop handle
