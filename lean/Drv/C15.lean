import PV.Common.Proto
import PV.C15.Model
import PV.C15.Spec
/-! Driver for C15: answers the same request lines as `harness/src/bin/pvh_c15.rs`. -/
open PV PV.C15

def showLine (l : Line) : String := s!"{l.offset}:{hex l.text}:{hex l.asStr}"

def showOptNat : Option Nat → String := optStr toString
def showPair : Option (Nat × Nat) → String := optStr (fun p => s!"{p.1},{p.2}")
def showRange : Option Range → String := optStr (fun r => s!"{r.start}..{r.stop}")

/-- all boundary offsets of a text, in order -/
def boundaries (bs : List Nat) : List Nat := (List.range (bs.length + 1)).filter (isBoundary bs)

def handleLineIdx (bs : List Nat) : String :=
  let starts := lineStarts bs
  let n := lineCount bs
  let locs := (boundaries bs).map fun o =>
    s!"{o}={showPair (sourceLocation bs o)}/{lineIndex bs o}"
  let lines := (List.range (n + 1)).map fun r =>
    s!"{showOptNat (lineStart bs r)},{showOptNat (lineEnd bs r)},{showPair (lineRange bs r)},{optStr hex (lineText bs r)}"
  s!"starts={starts} count={n} locs={joinSep ";" locs} lines={joinSep ";" lines}"

def handleNlIter (bs : List Nat) (off : Nat) (ops : String) : String :=
  let it := Iter.withOffset bs off
  let res := it.run (ops.toList.map (· == 'f'))
  let items := res.map fun (_, r) => optStr showLine r
  let tl := (trailingLines bs off).map showLine
  s!"{joinSep ";" items} trailing={joinSep ";" tl}"

def rangeOps (a b c d : Nat) (text : List Nat) : String :=
  match Range.new? a b, Range.new? c d with
  | some r, some o =>
    let fields : List String := [
      s!"len={r.len}", s!"empty={r.isEmpty}",
      s!"contains={r.contains c}", s!"containsI={r.containsInclusive c}",
      s!"containsR={r.containsRange o}",
      s!"intersect={showRange (r.intersect o)}",
      s!"cover={showRange (some (r.cover o))}",
      s!"coverOff={showRange (some (r.coverOffset c))}",
      s!"add={showRange (r.checkedAdd c)}", s!"sub={showRange (r.checkedSub c)}",
      s!"ord={r.ordering o}",
      s!"at={showRange (Range.at? a c)}",
      s!"upto={showRange (some (Range.upTo b))}",
      s!"index={optStr hex (r.index text)}"]
    joinSep " " fields
  | none, _ => "new=none"
  | _, none => "other=none"

def handle : List String → String
  | ["lineidx", t] => match unhex t with
    | some bs => handleLineIdx bs
    | none => "bad-request"
  | ["nliter", t, off, ops] => match unhex t, off.toNat? with
    | some bs, some o => handleNlIter bs o (if ops == "-" then "" else ops)
    | _, _ => "bad-request"
  | ["range", a, b, c, d, t] => match a.toNat?, b.toNat?, c.toNat?, d.toNat?, unhex t with
    | some a, some b, some c, some d, some t => rangeOps a b c d t
    | _, _, _, _, _ => "bad-request"
  | _ => "bad-request"

def main : IO Unit := protoLoop handle
