import PV.Common.Proto
import PV.Prog.Parse
/-! Decoding of the token attachment of the C02 program-level requests (`rprog`): the REAL token stream after lexing and
  the soft-keyword pass, as `harness/src/bin/pvh_c01.rs` op `rtoks` prints it (same item syntax as `pvh_prog toks`,
  `lean/Drv/Prog.lean`): string tokens are decoded to their values with the string model of `PV.C11.Lexer`. -/
open PV PV.Expr PV.C11 PV.Prog
namespace C02Prog

def hexNat (s : String) : Option Nat :=
  s.toList.foldl (fun acc c => match acc, PV.hexVal c with
    | some a, some d => some (16 * a + d)
    | _, _ => none) (some 0)

def unhexText (s : String) : Option (List Nat) :=
  match unhex s with
  | some bs => utf8Decode bs
  | none => none

/-- a `Tok::String { value, kind, triple_quoted }`: the value is the source text between the quotes -/
def stringTok (kind : Char) (triple : Bool) (body : List Nat) : Option Tok :=
  let plain (raw isBytes isU : Bool) : Option Tok :=
    let decoded : Option (List Nat) :=
      if raw then (if isBytes ∧ body.any (· ≥ 128) then none else some body)
      else decodeEscapes isBytes (body.length + 1) body
    match decoded with
    | none => none
    | some v => if isBytes then some (.bytes v) else some (.str v isU)
  match kind with
  | 's' => plain false false false
  | 'u' => plain false false true
  | 'r' => plain true false false
  | 'b' => plain false true false
  | 'B' => plain true true false
  | 'f' => some (.fstr 39 triple false body)
  | 'R' => some (.fstr 39 triple true body)
  | _ => none

def decodeTok (s : String) : Option PTok :=
  match s.toList with
  | ['N'] => some .newline
  | ['I'] => some .indent
  | ['D'] => some .dedent
  | 'n' :: h => (unhexText (String.ofList h)).map fun cs => .e (.name cs)
  | 'i' :: d => (String.ofList d).toNat?.map fun n => .e (.int n)
  | 'f' :: h => (hexNat (String.ofList h)).map fun b => .e (.float b)
  | 'c' :: h => (hexNat (String.ofList h)).map fun b => .e (.imag b)
  | 's' :: k :: t :: h =>
    (match unhexText (String.ofList h) with
     | some body => (stringTok k (t == '1') body).map PTok.e
     | none => none)
  | 'k' :: w =>
    let cs := w.map Char.toNat
    (match keywordOf cs with
     | some k => some (.e (.kw k))
     | none => some (.e (.kw (.other cs))))
  | 'o' :: h =>
    (match unhexText (String.ofList h) with
     | some cs =>
       (match lexOp cs with
        | some (o, []) => some (.e (.op o))
        | _ => none)
     | none => none)
  | _ => none

def decodeToks (att : String) : Option (List PTok) :=
  if att == "-" then some [] else
  (att.splitOn ",").foldr (fun s acc => match decodeTok s, acc with
    | some t, some ts => some (t :: ts)
    | _, _ => none) (some [])

def modeOfStr : String → Option Mode
  | "m" => some .module
  | "i" => some .interactive
  | "e" => some .expression
  | _ => none

end C02Prog
