import PV.Common.Proto
import PV.C01.Model
/-!
  Driver for C01: answers the mechanism request lines of `harness/src/bin/pvh_c01.rs` with the MODEL.

  request:  `<op> <path> <how> <hex src> <model args…>`
  The harness parses `src` with the real parser and prints the canonical subtree at `path`; the driver never
  sees Python text: it computes the same canonical text from the model arguments (canonical S-expressions of
  the pieces as CPython parses them in isolation, see tools/props/c01.py).
-/
open PV PV.C01

/-- generic canonical tree -/
inductive Raw where
  | atom (s : String)
  | list (xs : Array Raw)
  | node (kind : String) (range : String) (fields : Array (String × Raw))   -- field "" = positional
  deriving Inhabited

partial def Raw.print : Raw → String
  | .atom s => s
  | .list xs => "[" ++ joinSep " " (xs.toList.map Raw.print) ++ "]"
  | .node k r fs =>
    "(" ++ k ++ (if r == "" then "" else " " ++ r) ++
      String.join (fs.toList.map fun (f, v) => if f == "" then " " ++ v.print else " (" ++ f ++ " " ++ v.print ++ ")") ++ ")"

def tokenize (s : String) : Array String := Id.run do
  let mut out : Array String := #[]
  let mut cur := ""
  for c in s.toList do
    if c == '(' || c == ')' || c == '[' || c == ']' then
      if cur != "" then out := out.push cur; cur := ""
      out := out.push (String.singleton c)
    else if c == ' ' then
      if cur != "" then out := out.push cur; cur := ""
    else cur := cur.push c
  if cur != "" then out := out.push cur
  return out

def isFieldName (s : String) : Bool := s != "" && s.all (fun c => c.isLower || c == '_')

partial def parseVal (toks : Array String) (pos : Nat) : Option (Raw × Nat) :=
  match toks[pos]? with
  | none => none
  | some "[" =>
    let rec items (p : Nat) (acc : Array Raw) : Option (Raw × Nat) :=
      match toks[p]? with
      | some "]" => some (.list acc, p + 1)
      | none => none
      | _ => match parseVal toks p with
        | some (v, p') => items p' (acc.push v)
        | none => none
    items (pos + 1) #[]
  | some "(" =>
    match toks[pos + 1]? with
    | none => none
    | some kind =>
      let (rng, p0) := match toks[pos + 2]? with
        | some t => if t.startsWith "@" then (t, pos + 3) else ("", pos + 2)
        | none => ("", pos + 2)
      let rec fields (p : Nat) (acc : Array (String × Raw)) : Option (Raw × Nat) :=
        match toks[p]? with
        | some ")" => some (.node kind rng acc, p + 1)
        | none => none
        | some "(" =>
          match toks[p + 1]? with
          | some f =>
            if isFieldName f then
              match parseVal toks (p + 2) with
              | some (v, p') => if toks[p']? == some ")" then fields (p' + 1) (acc.push (f, v)) else none
              | none => none
            else
              match parseVal toks p with
              | some (v, p') => fields p' (acc.push ("", v))
              | none => none
          | none => none
        | _ => match parseVal toks p with
          | some (v, p') => fields p' (acc.push ("", v))
          | none => none
      fields p0 #[]
  | some t => some (.atom t, pos + 1)

def parseSexp (s : String) : Option Raw :=
  let toks := tokenize s
  match parseVal toks 0 with
  | some (v, p) => if p == toks.size then some v else none
  | none => none

def hexArg (s : String) : Option String :=
  (unhex s).bind fun bs => (utf8Decode bs).map fun cs => String.ofList (cs.map Char.ofNat)

def Raw.field (r : Raw) (f : String) : Option Raw :=
  match r with
  | .node _ _ fs => (fs.toList.find? (·.1 == f)).map (·.2)
  | _ => none

def ctxOfAtom : Raw → Option Ctx
  | .atom "Load" => some .load
  | .atom "Store" => some .store
  | .atom "Del" => some .del
  | _ => none

def ctxAtom : Ctx → String
  | .load => "Load" | .store => "Store" | .del => "Del"

partial def toE (r : Raw) : E :=
  let other := E.other r.print
  match r with
  | .node "ExprName" _ _ =>
    match r.field "id", (r.field "ctx").bind ctxOfAtom with
    | some (.atom id), some c => .name id c
    | _, _ => other
  | .node "ExprTuple" _ _ =>
    match r.field "elts", (r.field "ctx").bind ctxOfAtom with
    | some (.list es), some c => .tuple (es.toList.map toE) c
    | _, _ => other
  | .node "ExprList" _ _ =>
    match r.field "elts", (r.field "ctx").bind ctxOfAtom with
    | some (.list es), some c => .list (es.toList.map toE) c
    | _, _ => other
  | .node "ExprAttribute" _ _ =>
    match r.field "value", r.field "attr", (r.field "ctx").bind ctxOfAtom with
    | some v, some (.atom a), some c => .attrib (toE v) a c
    | _, _, _ => other
  | .node "ExprSubscript" _ _ =>
    match r.field "value", r.field "slice", (r.field "ctx").bind ctxOfAtom with
    | some v, some s, some c => .subscript (toE v) (toE s) c
    | _, _, _ => other
  | .node "ExprStarred" _ _ =>
    match r.field "value", (r.field "ctx").bind ctxOfAtom with
    | some v, some c => .starred (toE v) c
    | _, _ => other
  | _ => other

partial def printE : E → String
  | .name id c => s!"(ExprName (id {id}) (ctx {ctxAtom c}))"
  | .tuple es c => s!"(ExprTuple (elts [{joinSep " " (es.map printE)}]) (ctx {ctxAtom c}))"
  | .list es c => s!"(ExprList (elts [{joinSep " " (es.map printE)}]) (ctx {ctxAtom c}))"
  | .attrib v a c => s!"(ExprAttribute (value {printE v}) (attr {a}) (ctx {ctxAtom c}))"
  | .subscript v s c => s!"(ExprSubscript (value {printE v}) (slice {printE s}) (ctx {ctxAtom c}))"
  | .starred v c => s!"(ExprStarred (value {printE v}) (ctx {ctxAtom c}))"
  | .other t => t

def splitOn1 (s : String) (c : Char) : List String := s.splitOn (String.singleton c)

/-- `p:-:start:vstart:hexcanon` items separated by `,` -/
def parseItems (s : String) : Option (List ArgItem) :=
  if s == "-" then some [] else
  (splitOn1 s ',').mapM fun it =>
    match splitOn1 it ':' with
    | [k, n, st, vs, v] =>
      match st.toNat?, vs.toNat?, hexArg v, hexArg n with
      | some st, some vs, some v, some n =>
        let kind := match k with
          | "p" => some ArgKind.pos | "s" => some ArgKind.star | "k" => some (ArgKind.kw n) | "d" => some ArgKind.dstar
          | _ => none
        kind.map fun kind => { kind := kind, start := st, vstart := vs, value := v }
      | _, _, _, _ => none
    | _ => none

def hexOfString (s : String) : String := hex (s.toUTF8.toList.map (·.toNat))

def printKw (a : ArgItem) : String :=
  match a.kind with
  | .kw n => s!"(Keyword (arg s:{hexOfString n}) (value {a.value}))"
  | _ => s!"(Keyword (arg None) (value {a.value}))"

def handleArgs (func : String) (items : List ArgItem) : String :=
  match parseArgs items with
  | .ok (a, k) =>
    s!"(ExprCall (func {func}) (args [{joinSep " " (a.map (·.value))}]) (keywords [{joinSep " " (k.map printKw)}]))"
  | .error (.duplicateKeyword _ loc) => s!"(err Lexical.DuplicateKeywordArgumentError {loc})"
  | .error (.positional loc) => s!"(err Lexical.PositionalArgumentError {loc})"
  | .error (.unpacked loc) => s!"(err Lexical.UnpackedArgumentError {loc})"

partial def printStmt : Stmt → String
  | .ifS a b t body orelse =>
    s!"(StmtIf @{a}..{b} (test {t}) (body [{joinSep " " (body.map printStmt)}]) (orelse [{joinSep " " (orelse.map printStmt)}]))"
  | .other t _ => t

/-- `stop:hexcanon` statements separated by `,` (`-` = empty list) -/
def parseStmts (s : String) : Option (List Stmt) :=
  if s == "-" then some [] else
  (splitOn1 s ',').mapM fun it =>
    match splitOn1 it ':' with
    | [e, t] => match e.toNat?, hexArg t with
      | some e, some t => some (Stmt.other t e)
      | _, _ => none
    | _ => none

/-- clause = `start/hex test/stmts`, clauses separated by `;` -/
def parseClauses (s : String) : Option (List Clause) :=
  if s == "-" then some [] else
  (splitOn1 s ';').mapM fun c =>
    match splitOn1 c '/' with
    | [st, t, b] => match st.toNat?, hexArg t, parseStmts b with
      | some st, some t, some b => some { start := st, test := t, body := b }
      | _, _, _ => none
    | _ => none

def parseNats (s : String) : Option (List Nat) :=
  if s == "-" then some [] else (splitOn1 s ',').mapM (·.toNat?)

def handle : List String → String
  | ["setctx", _path, _how, _src, c, t] =>
    match hexArg t with
    | some t => match parseSexp t with
      | some r =>
        let ctx := if c == "S" then Ctx.store else if c == "D" then Ctx.del else Ctx.load
        printE (setContext ctx (toE r))
      | none => "bad-sexp"
    | none => "bad-request"
  | ["args", _path, _how, _src, f, items] =>
    match hexArg f, parseItems items with
    | some f, some items => handleArgs f items
    | _, _ => "bad-request"
  | ["args", _path, _how, _src, f, items, _] =>
    match hexArg f, parseItems items with
    | some f, some items => handleArgs f items
    | _, _ => "bad-request"
  | ["elif", _path, _how, _src, start, test, body, clauses, els] =>
    match start.toNat?, hexArg test, parseStmts body, parseClauses clauses with
    | some start, some test, some body, some cl =>
      let s3 : Option (Option (List Stmt)) := if els == "none" then some none else (parseStmts els).map some
      match s3 with
      | some s3 => match elifChain start test body cl s3 with
        | some s => printStmt s
        | none => "(panic)"
      | none => "bad-request"
    | _, _, _, _ => "bad-request"
  | ["tryend", _path, _how, _src, start, hs, oe, fb] =>
    match start.toNat?, parseNats hs, parseNats oe, parseNats fb with
    | some start, some hs, some oe, some fb =>
      match tryEnd hs (oe.map (Stmt.other "")) (fb.map (Stmt.other "")) with
      | some e => s!"@{start}..{e}"
      | none => "(panic)"
    | _, _, _, _ => "bad-request"
  | ["implvl", _path, _how, _src, runs, parts, names] =>
    match parseNats runs, hexArg names with
    | some runs, some names =>
      let ps := if parts == "-" then [] else (splitOn1 parts ',').filterMap hexArg
      let module := match ps with
        | [] => "None"
        | f :: rest => "s:" ++ hexOfString (dottedName f rest)
      s!"(StmtImportFrom (module {module}) (names {names}) (level (Int i:{importLevel runs})))"
    | _, _ => "bad-request"
  | ["glist", _path, _how, _src, tc, elts] =>
    match hexArg elts with
    | some t => match parseSexp t with
      | some (.list es) => printE (genericList (es.toList.map toE) (tc == "1"))
      | _ => "bad-sexp"
    | none => "bad-request"
  | _ => "bad-request"

def main : IO Unit := protoLoop handle
