import PV.Common.Proto
import PV.C13.Model
import PV.C13.Spec
import PV.C13.Domain
/-! Driver for C13: answers the same request lines as `harness/src/bin/pvh_c13.rs` with the model.

  `locseq <d|r> <text> <op>…`        ops `l<off>` locate, `o<off>` locate_only, `e<off>` locate_error
  `trace <d|r> <mode> <src> <op>…`   ops `l<off>=<r>,<c>` … as recorded from the real fold; they are
                                     replayed through the model and every result compared
  `d` = build with debug assertions and overflow checks, `r` = without.
-/
open PV PV.C13

def showRC : Option (Nat × Nat) → String := optStr (fun p => s!"{p.1},{p.2}")

def parseOp (s : String) : Option (Char × Nat × Option String) :=
  match s.toList with
  | k :: rest =>
    let body := String.ofList rest
    match body.splitOn "=" with
    | [o] => match o.toNat? with
      | some n => some (k, n, none)
      | none => none
    | [o, r] => match o.toNat? with
      | some n => some (k, n, some r)
      | none => none
    | _ => none
  | [] => none

def toOp (k : Char) (off : Nat) : Option Op :=
  if k == 'l' || k == 'e' then some (.locate off)
  else if k == 'o' then some (.locateOnly off)
  else none

def parseOps : List String → Option (List (Op × Option String))
  | [] => some []
  | s :: rest =>
    match parseOp s, parseOps rest with
    | some (k, off, r), some tl =>
      match toOp k off with
      | some op => some ((op, r) :: tl)
      | none => none
    | _, _ => none

def flavour (s : String) : Option Bool :=
  if s == "d" then some true else if s == "r" then some false else none

def handleLocseq (dbg : Bool) (src : List Nat) (ops : List Op) : String :=
  let lin := (run dbg src ops).map showRC
  let rnd := ops.map fun op => showRC (randomLocate src op.off)
  s!"lin={joinSep ";" lin} rnd={joinSep ";" rnd}"

def showOp : Op → String
  | .locate o => s!"l{o}"
  | .locateOnly o => s!"o{o}"

/-- replay; first index where the model's result differs from the recorded one.  `fwd` says whether
    the recorded history satisfies the hypothesis of `linear_eq_spec` (`Forward`). -/
def replayGo (dbg : Bool) (src : List Nat) (fwd : Bool) : St → Nat → List (Op × Option String) → String
  | _, i, [] => s!"ok {i} fwd={fwd}"
  | st, i, (op, want) :: rest =>
    let (r, st') := step dbg src st op
    if some (showRC r) == want then replayGo dbg src fwd st' (i + 1) rest
    else s!"diff@{i}:{showOp op}={showRC r}"

def handle : List String → String
  | "locseq" :: f :: t :: ops =>
    match flavour f, unhex t, parseOps ops with
    | some dbg, some src, some ops => handleLocseq dbg src (ops.map (·.1))
    | _, _, _ => "bad-request"
  | "trace" :: f :: _mode :: t :: ops =>
    match flavour f, unhex t, parseOps ops with
    | some dbg, some src, some ops =>
      replayGo dbg src (decide (Forward src (initCursor src) (ops.map (·.1)))) (St.init src) 0 ops
    | _, _, _ => "bad-request"
  | "spec" :: t :: offs =>
    match unhex t with
    | some src => joinSep ";" (offs.map fun o => match o.toNat? with
        | some o => let p := Spec.rowCol src o; s!"{p.1},{p.2}"
        | none => "bad")
    | none => "bad-request"
  | _ => "bad-request"

def main : IO Unit := protoLoop handle
