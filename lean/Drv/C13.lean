import PV.Common.Proto
import PV.C13.Model
import PV.C13.Spec
import PV.C13.Domain
import PV.C13.Fold
import PV.C13.Overrides
import PV.Gen.C12Schema
import PV.C13.Parsed
import PV.C13.Spans
import PV.C02.RProgPlain
import Drv.C02Prog
/-! Driver for C13: answers the same request lines as `harness/src/bin/pvh_c13.rs` with the model.

  `locseq <d|r> <text> <op>…`        ops `l<off>` locate, `o<off>` locate_only, `e<off>` locate_error
  `trace <d|r> <mode> <src> <op>…`   ops `l<off>=<r>,<c>` … as recorded from the real fold; they are
                                     replayed through the model and every result compared
  `fold <d|r> <mode> <src> <tree>`    the fold-order model on the tree the real parser produced (attached by
                                     tools/props/c13.py in the encoding of the C12 driver):
                                     `ops=` the call history `locHistory` (cut after the first call that
                                     panics), `fwd=` Forward of it, `ordered=` SrcOrdered of the tree,
                                     `lin=`/`nodes=`/`rnd=` the located trees `foldLocated` of both locators
  `pfold <d|r> <mode> <src> <tokens> <spans> <tree>`
                                     the program-parser MODEL `PV.C02.parseRProgram` run on the real tokens and spans:
                                     its tree `toTree false m` must be the attached real tree up to leaf payloads
                                     (`skel`; else `tree-mismatch`); then the `fold` answer computed on THE MODEL'S
                                     tree, and `chk=ok` iff what the parser-level theorems say holds on this input
                                     (`plainM m → ordM m`, `ordM m ∧ OffsOk → SrcOrdered`, `Conforms`,
                                     `plainM m ∧ spans tiled ∧ SpansOk ∧ NotBomTokenless → OffsOk` in both builds) and
                                     the real token spans are `SpansOk` (the hypothesis of `parsed_tree_*'` about
                                     the lexer's output, evaluated on every input)
  `pord <mode> <src> <tokens> <spans>`  (not sent to the harness: statistics for the evidence file) the same parse:
                                     `plainM`, `ordM`, `OffsOk`, `SrcOrdered` (default build / all-nodes-with-ranges),
                                     `tiled=` / `sp=` the spans tile the source / are `SpansOk`, `nbt1=` `NotBomTokenless true`
  `d` = build with debug assertions and overflow checks, `r` = without.
-/
open PV PV.C13

def showRC : Option (Nat × Nat) → String := optStr (fun p => s!"{p.1},{p.2}")

def parseOp (s : String) : Option (Char × Nat × Option String) :=
  match s.toList with
  | k :: rest =>
    let body := String.ofList rest
    match body.splitOn "=" with
    | [o] => match o.toNat? with
      | some n => some (k, n, none)
      | none => none
    | [o, r] => match o.toNat? with
      | some n => some (k, n, some r)
      | none => none
    | _ => none
  | [] => none

def toOp (k : Char) (off : Nat) : Option Op :=
  if k == 'l' || k == 'e' then some (.locate off)
  else if k == 'o' then some (.locateOnly off)
  else none

def parseOps : List String → Option (List (Op × Option String))
  | [] => some []
  | s :: rest =>
    match parseOp s, parseOps rest with
    | some (k, off, r), some tl =>
      match toOp k off with
      | some op => some ((op, r) :: tl)
      | none => none
    | _, _ => none

def flavour (s : String) : Option Bool :=
  if s == "d" then some true else if s == "r" then some false else none

def handleLocseq (dbg : Bool) (src : List Nat) (ops : List Op) : String :=
  let lin := (run dbg src ops).map showRC
  let rnd := ops.map fun op => showRC (randomLocate src op.off)
  s!"lin={joinSep ";" lin} rnd={joinSep ";" rnd}"

def showOp : Op → String
  | .locate o => s!"l{o}"
  | .locateOnly o => s!"o{o}"

/-- replay; first index where the model's result differs from the recorded one.  `fwd` says whether
    the recorded history satisfies the hypothesis of `linear_eq_spec` (`Forward`). -/
def replayGo (dbg : Bool) (src : List Nat) (fwd : Bool) : St → Nat → List (Op × Option String) → String
  | _, i, [] => s!"ok {i} fwd={fwd}"
  | st, i, (op, want) :: rest =>
    let (r, st') := step dbg src st op
    if some (showRC r) == want then replayGo dbg src fwd st' (i + 1) rest
    else s!"diff@{i}:{showOp op}={showRC r}"

/-! #### the generic tree attached to `fold` requests (same encoding as `Drv/C12.lean`)
      tree ::= N <kind id> <a..b | -> <n> tree^n | L <n> tree^n | S tree | O | A <hex of leaf text> -/

def parseRange (s : String) : Option (Option C12.Range) :=
  if s == "-" then some none else
  match s.splitOn ".." with
  | [a, b] => match a.toNat?, b.toNat? with
    | some a, some b => some (some (a, b))
    | _, _ => none
  | _ => none

mutual
partial def parseTree : List String → Option (C12.Tree × List String)
  | "O" :: rest => some (.none, rest)
  | "S" :: rest => match parseTree rest with
    | some (t, rest) => some (.some t, rest)
    | none => none
  | "A" :: h :: rest => match unhex h with
    | some bs => some (.leaf bs, rest)
    | none => none
  | "L" :: n :: rest => match n.toNat? with
    | some n => match parseTrees n rest [] with
      | some (ts, rest) => some (.list ts, rest)
      | none => none
    | none => none
  | "N" :: k :: r :: n :: rest => match k.toNat?, parseRange r, n.toNat? with
    | some k, some r, some n => match parseTrees n rest [] with
      | some (ts, rest) => some (.node k r ts, rest)
      | none => none
    | _, _, _ => none
  | _ => none
partial def parseTrees : Nat → List String → List C12.Tree → Option (List C12.Tree × List String)
  | 0, rest, acc => some (acc.reverse, rest)
  | n + 1, rest, acc => match parseTree rest with
    | some (t, rest) => parseTrees n rest (t :: acc)
    | none => none
end

/-- the history up to and including the first call whose result is `none` (a panic ends the fold) -/
def cutAtPanic : List Op → List (Option (Nat × Nat)) → List Op
  | op :: ops, some _ :: rs => op :: cutAtPanic ops rs
  | op :: _, none :: _ => [op]
  | _, _ => []

/-- (kind, range) of every range-carrying node, pre-order in struct order (= `derive(Debug)` order) -/
partial def rangedNodes : C12.Tree → List (Nat × C12.Range)
  | .leaf _ => []
  | .none => []
  | .some t => rangedNodes t
  | .list xs => xs.flatMap rangedNodes
  | .node k r fs => (match r with | some x => [(k, x)] | none => []) ++ fs.flatMap rangedNodes

def kindName (k : Nat) : String := (C12.Gen.kindNames[k]?).getD s!"kind{k}"

def showLRange (r : LRange) : String := s!"{r.1.1},{r.1.2}-{r.2.1},{r.2.2}"

def orDash (xs : List String) : String := if xs.isEmpty then "-" else joinSep ";" xs

def handleFold (dbg : Bool) (src : List Nat) (t : C12.Tree) : String :=
  if !(decide (C12.Conforms C12.Gen.schema t)) then "nonconforming-tree" else
  match locHistory realCfg t with
  | none => "shape-panic"
  | some hist =>
    let seen := cutAtPanic hist (run dbg src hist)
    let fwd := decide (Forward src (initCursor src) seen)
    let ordered := decide (SrcOrdered realCfg src t)
    let plain := rangedNodes t
    let lin := foldLocated realCfg (.linear dbg) src t
    let rnd := foldLocated realCfg .random src t
    let nodes := match lin with
      | some lt => orDash (List.zipWith (fun (p : Nat × C12.Range) l => s!"{kindName p.1}:{p.2.1}-{p.2.2}:{showLRange l}") plain lt.ranges)
      | none => "-"
    let rnds := match rnd with
      | some lt => orDash (lt.ranges.map showLRange)
      | none => "panic"
    s!"ops={orDash (seen.map showOp)} fwd={fwd} ordered={ordered} lin={if lin.isSome then "ok" else "panic"} nodes={nodes} rnd={rnds}"


/-! #### `pfold` / `pord`: the tree the program-parser MODEL `PV.C02.parseRProgram` builds from the real tokens and spans -/

def parseSpans (s : String) : Option (List (Nat × Nat)) :=
  if s == "-" then some [] else
  (s.splitOn ",").mapM fun w =>
    match w.splitOn "-" with
    | [a, b] => match a.toNat?, b.toNat? with
      | some a, some b => some (a, b)
      | _, _ => none
    | _ => none

/-- the spanned token list of a request and its parse by the model -/
def modelParse (mode toks att : String) : Option (List C02.RPTok × C02.RMod) :=
  match C02Prog.modeOfStr mode, C02Prog.decodeToks toks, parseSpans att with
  | some md, some tks, some spans =>
    if tks.length != spans.length then none
    else
      let rt : List C02.RPTok := (tks.zip spans).map fun (t, (a, b)) => ⟨t, a, b⟩
      (C02.parseRProgramA md rt).map fun m => (rt, m)
  | _, _, _ => none

/-- `PV.C02.TiledP` evaluated (every span a slice of the source on character boundaries, tokens in source order) -/
def tiledB (src : List Nat) : List C02.RPTok → Bool
  | [] => true
  | t :: ts =>
    decide (t.s ≤ t.e) && decide (t.e ≤ src.length) && C02.isBoundary src t.s && C02.isBoundary src t.e &&
      (match ts with | [] => true | u :: _ => decide (t.e ≤ u.s)) && tiledB src ts

/-- what `offsOk_of_spansOk` (SpansThm.lean) says, evaluated for one build -/
def spansChk (ar : Bool) (src : List Nat) (rt : List C02.RPTok) (m : C02.RMod) : Bool :=
  !(C02.plainM m && tiledB src rt && decide (SpansOk src rt) && decide (NotBomTokenless ar src rt)) ||
    decide (OffsOk src (toTree ar m))

def handlePord (mode : String) (src : List Nat) (toks att : String) : String :=
  match modelParse mode toks att with
  | none => "parse-none"
  | some (rt, m) =>
    let t0 := toTree false m
    let t1 := toTree true m
    s!"plain={C02.plainM m} ordm={ordM m} ok0={decide (OffsOk src t0)} ok1={decide (OffsOk src t1)} so0={decide (SrcOrdered realCfg src t0)} so1={decide (SrcOrdered realCfg src t1)} conf0={decide (C12.Conforms C12.Gen.schema t0)} conf1={decide (C12.Conforms C12.Gen.schema t1)} tiled={tiledB src rt} sp={decide (SpansOk src rt)} nbt1={decide (NotBomTokenless true src rt)} spchk={spansChk false src rt m && spansChk true src rt m}"

def handlePfold (dbg : Bool) (mode : String) (src : List Nat) (toks att : String) (real : C12.Tree) : String :=
  match modelParse mode toks att with
  | none => "parse-none"
  | some (rt, m) =>
    let t := toTree false m
    if !(C12.Tree.beq (skel t) (skel real)) then "tree-mismatch" else
    let so := decide (SrcOrdered realCfg src t)
    let c1 := !(C02.plainM m) || ordM m
    let c2 := !(ordM m && decide (OffsOk src t)) || so
    let c3 := decide (C12.Conforms C12.Gen.schema t)
    let c4 := spansChk false src rt m && spansChk true src rt m
    let c5 := tiledB src rt && decide (SpansOk src rt)
    let chk := if c1 && c2 && c3 && c4 && c5 then "ok"
      else s!"BAD:plain→ordM={c1},ordM∧OffsOk→SrcOrdered={c2},conforms={c3},plain∧SpansOk→OffsOk={c4},tiled∧SpansOk={c5}"
    s!"{handleFold dbg src t} chk={chk}"

def handle : List String → String
  | "pfold" :: f :: mode :: t :: toks :: att :: tree =>
    match flavour f, unhex t, parseTree tree with
    | some dbg, some src, some (tr, []) => handlePfold dbg mode src toks att tr
    | _, _, _ => "bad-request"
  | ["pord", mode, t, toks, att] =>
    match unhex t with
    | some src => handlePord mode src toks att
    | none => "bad-request"
  | "fold" :: f :: _mode :: t :: tree =>
    match flavour f, unhex t, parseTree tree with
    | some dbg, some src, some (tr, []) => handleFold dbg src tr
    | _, _, _ => "bad-request"
  | "locseq" :: f :: t :: ops =>
    match flavour f, unhex t, parseOps ops with
    | some dbg, some src, some ops => handleLocseq dbg src (ops.map (·.1))
    | _, _, _ => "bad-request"
  | "trace" :: f :: _mode :: t :: ops =>
    match flavour f, unhex t, parseOps ops with
    | some dbg, some src, some ops =>
      replayGo dbg src (decide (Forward src (initCursor src) (ops.map (·.1)))) (St.init src) 0 ops
    | _, _, _ => "bad-request"
  | "spec" :: t :: offs =>
    match unhex t with
    | some src => joinSep ";" (offs.map fun o => match o.toNat? with
        | some o => let p := Spec.rowCol src o; s!"{p.1},{p.2}"
        | none => "bad")
    | none => "bad-request"
  | _ => "bad-request"

def main : IO Unit := protoLoop handle
