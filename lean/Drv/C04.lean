import PV.Common.Proto
import PV.C04.Model
/-! Driver for C04: answers the same request lines as `harness/src/bin/pvh_c04.rs` with the model. -/
open PV PV.C04

def showRes (okWord : String) : Res → String
  | none => okWord
  | some (k, off) => s!"(err {k.wire} {off})"

def nameId (c : Char) : Option Nat :=
  if c.isDigit then some (c.toNat - 48) else if c == '_' then some 100 else none

def parseSig (enc : String) : Option Sig :=
  if enc == "-" then some [] else
  (enc.splitOn ".").mapM fun it =>
    match it.toList with
    | [k, n, d] =>
      match nameId n with
      | none => none
      | some n =>
        let dflt := d == '1'
        match k with
        | 'p' => some ⟨.posonly, n, dflt⟩
        | 'n' => some ⟨.normal, n, dflt⟩
        | 'v' => some ⟨.vararg, n, false⟩
        | 's' => some ⟨.star, n, false⟩
        | 'k' => some ⟨.kwonly, n, dflt⟩
        | 'w' => some ⟨.kwarg, n, false⟩
        | _ => none
    | _ => none

def parseCall (enc : String) : Option (List AItem) :=
  if enc == "-" then some [] else
  (enc.splitOn ".").mapM fun it =>
    match it.toList with
    | ['p'] => some .pos
    | ['s'] => some .star
    | ['d'] => some .dstar
    | ['k', n] => (nameId n).map .kw
    | _ => none

def parseParen (enc : String) : Option (List PElem × Bool) :=
  let cs := if enc == "-" then [] else enc.toList
  let trailing := cs.getLast? == some 'c'
  let body := if trailing then cs.dropLast else cs
  (body.mapM fun c => match c with
    | 'e' => some PElem.e
    | 's' => some PElem.s
    | 'd' => some PElem.d
    | _ => none).map (·, trailing)

def parseWord (bs : List Nat) : Option (List Sym) :=
  bs.mapM fun b => match b with
    | 40 => some (.op .paren)
    | 91 => some (.op .sq)
    | 123 => some (.op .brace)
    | 41 => some (.cl .paren)
    | 93 => some (.cl .sq)
    | 125 => some (.cl .brace)
    | 10 => some .nl
    | _ => none

def parseIndent (enc : String) : Option (List ILine × Bool) :=
  let parts := enc.splitOn ","
  match parts.getLast? with
  | none => none
  | some last =>
    let lines := parts.dropLast
    (lines.mapM fun (l : String) =>
      match l.splitOn ":" with
      | [ws, kind] =>
        let wsl := if ws == "-" then [] else ws.toList
        if wsl.all (fun c => c == 't' || c == 's') then
          let k : Option LKind := match kind with
            | "o" => some .opener | "p" => some .simple | "b" => some .blank | "c" => some .comment
            | _ => none
          k.map fun k => ({ ws := wsl.map (· == 't'), kind := k } : ILine)
        else none
      | _ => none).map (·, last == "n")

def strsKinds (enc : String) : Option (List Bool) :=
  enc.toList.mapM fun c => match c with
    | 'b' | 'R' | 'B' => some true
    | 's' | 'f' | 'u' | 'r' | 'F' | 'e' | 'E' | 'G' | 'T' => some false
    | _ => none

def handle : List String → String
  | ["sig", enc, _, _] => match parseSig enc with
    | some ps => if wellOrdered ps then showRes "ok" (checkSig ps) else "bad-request"
    | none => "bad-request"
  | ["call", enc, _, _] => match parseCall enc with
    | some items => showRes "ok" (parseArgs items)
    | none => "bad-request"
  | ["paren", enc, _, _] => match parseParen enc with
    | some (es, tr) => showRes "ok" (parenCheck es tr)
    | none => "bad-request"
  | ["aspat", _, t, _, _] => match t.toNat? with
    | some t => showRes "ok" (asUnderscore t)
    | none => "bad-request"
  | ["brackets", mode, w] => match (unhex w).bind parseWord with
    | some syms =>
      if mode == "raw" then showRes "ok" (rawGo [] .start 0 syms)
      else if syms.contains .nl then "bad-request"
      else showRes "ok" (matchGo [] 0 syms)
    | none => "bad-request"
  | ["indent", enc] => match parseIndent enc with
    | some (ls, nl) => showRes "ok" (indentCheck ls nl)
    | none => "bad-request"
  | ["num", t] => match (unhex t).bind utf8Decode with
    | some cs => showRes "ok" (numCheck cs)
    | none => "bad-request"
  | ["chr", cp, eq] => match cp.toNat? with
    | some c => showRes "nolex" (chrCheck c (eq == "1"))
    | none => "bad-request"
  | ["cont", t] => match (unhex t).bind utf8Decode with
    | some cs => showRes "nolex" (contScan 0 ("x = 1 + \\".toList.map Char.toNat ++ cs))
    | none => "bad-request"
  | ["strlex", t] => match (unhex t).bind utf8Decode with
    | some cs => showRes "ok" (strCheck cs)
    | none => "bad-request"
  | ["strs", enc, _, _] => match strsKinds enc with
    | some ks => showRes "ok" (mixCheck ks)
    | none => "bad-request"
  | ["bytes", body, _, _] => match (unhex body).bind utf8Decode with
    | some cs => showRes "ok" (bytesCheck 0 cs)
    | none => "bad-request"
  | ["byteslit", pfx, _, body, _, _] => match (unhex body).bind utf8Decode with
    | some cs =>
      if oddTrailingBackslash cs then "bad-request"
      else showRes "ok" (bytesLit (pfx.toList.any (fun c => c == 'r' || c == 'R')) cs)
    | none => "bad-request"
  | ["fstr", body] => match (unhex body).bind utf8Decode with
    | some cs => showRes "ok" (fstrCheck cs)
    | none => "bad-request"
  | ["softkw", t] => match (unhex t).bind utf8Decode with
    | some cs => if headIsKeyword (lineToks 0 cs) then "keyword" else "name"
    | none => "bad-request"
  | _ => "bad-request"

def main : IO Unit := protoLoop handle
