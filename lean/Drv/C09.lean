import PV.Common.Proto
import PV.C09.Model
import PV.Gen.C09TypedParsers
/-!
  Driver for C09: answers the same request lines as `harness/src/bin/pvh_c09.rs`, by running the
  MODEL of the entry points (`PV/C09/Model.lean` + the regenerated table of generated parsers) over
  the results of the one parser that the request carries as attachments:

    entries <k> <hex src> <full-lexer 0/1> <hex A0> <hex Ak>
    lexes   <k> <hex src> <full-lexer 0/1> <hex A0> <hex Ak>

  `A0`/`Ak` are the real code's answers to `top 0 src` / `top k src` (fields `m e i` = the public
  `parse_tokens` on the lexer's stream per mode, i.e. `parse_filtered_tokens` — what the LALRPOP parser
  answers to marker + filtered stream, WITHOUT the `not_before` clamp; `lex.m lex.e lex.i` =
  `lexer::lex_starts_at`), i.e. the values of the model's parameters `parseTop` and `lexTop` at this
  source.  Trees travel as Rust `{:?}` text.

  What the model computes itself and the driver therefore checks against the code: the trivia filter
  (a comment token reaching `parseTop` is answered with `model-unfiltered-trivia`), the position of the
  start marker (answered with `model-marker-mismatch` when the real result shows another one: the
  `Mod*` range start with all-nodes-with-ranges, the `Eof` offset of an empty stream), the clamp
  `not_before`, every projection of the typed parsers.
-/
open PV PV.C09

/-! ### Rust `{:?}` text as a generic tree -/

inductive Dbg where
  | atom (s : String)
  | list (items : List Dbg)
  | tuple (head : String) (items : List Dbg)
  | struct (head : String) (fields : List (String × Dbg))
  deriving Inhabited

partial def Dbg.print : Dbg → String
  | .atom s => s
  | .list xs => "[" ++ joinSep ", " (xs.map Dbg.print) ++ "]"
  | .tuple h xs => h ++ "(" ++ joinSep ", " (xs.map Dbg.print) ++ ")"
  | .struct h fs => h ++ " { " ++ joinSep ", " (fs.map fun (f, v) => f ++ ": " ++ v.print) ++ " }"

def isAtomChar (c : Char) : Bool :=
  !(c == ' ' || c == ',' || c == '(' || c == ')' || c == '{' || c == '}' || c == '[' || c == ']' || c == ':'
    || c == '"' || c == '\'')

/-- quoted literal starting after the opening quote `q`; returns (text incl. closing quote, rest) -/
partial def takeQuoted (q : Char) : List Char → List Char → Option (List Char × List Char)
  | [], _ => none
  | '\\' :: c :: rest, acc => takeQuoted q rest (c :: '\\' :: acc)
  | c :: rest, acc => if c == q then some ((c :: acc).reverse, rest) else takeQuoted q rest (c :: acc)

mutual
partial def parseVal : List Char → Option (Dbg × List Char)
  | '[' :: rest => do
    let (xs, rest) ← parseItems ']' rest []
    pure (.list xs, rest)
  | '(' :: rest => do
    let (xs, rest) ← parseItems ')' rest []
    pure (.tuple "" xs, rest)
  | '"' :: rest => do
    let (s, rest) ← takeQuoted '"' rest ['"']
    pure (.atom (String.ofList s), rest)
  | '\'' :: rest => do
    let (s, rest) ← takeQuoted '\'' rest ['\'']
    pure (.atom (String.ofList s), rest)
  | cs =>
    let head := cs.takeWhile isAtomChar
    let rest := cs.dropWhile isAtomChar
    if head.isEmpty then none else
    match rest with
    | '(' :: r => do
      let (xs, r) ← parseItems ')' r []
      pure (.tuple (String.ofList head) xs, r)
    | ' ' :: '{' :: ' ' :: r => do
      let (fs, r) ← parseFields r []
      pure (.struct (String.ofList head) fs, r)
    | _ => pure (.atom (String.ofList head), rest)

partial def parseItems (close : Char) : List Char → List Dbg → Option (List Dbg × List Char)
  | c :: rest, acc =>
    if c == close then some (acc.reverse, rest) else do
    let (v, r) ← parseVal (c :: rest)
    match r with
    | ',' :: ' ' :: r' => parseItems close r' (v :: acc)
    | c' :: r' => if c' == close then some ((v :: acc).reverse, r') else none
    | [] => none
  | [], _ => none

partial def parseFields : List Char → List (String × Dbg) → Option (List (String × Dbg) × List Char)
  | cs, acc =>
    let name := cs.takeWhile isAtomChar
    match cs.dropWhile isAtomChar with
    | ':' :: ' ' :: r => do
      let (v, r) ← parseVal r
      match r with
      | ',' :: ' ' :: r' => parseFields r' ((String.ofList name, v) :: acc)
      | ' ' :: '}' :: r' => some (((String.ofList name, v) :: acc).reverse, r')
      | _ => none
    | _ => none
end

def parseDbg (s : String) : Option Dbg :=
  match parseVal s.toList with
  | some (v, []) => some v
  | _ => none

/-! ### the model instantiated on `{:?}` trees -/

/-- one item of a token stream as far as `parse_filtered_tokens` looks at it -/
structure DTok where
  trivia : Bool                 -- `Ok((Comment(..) | NonLogicalNewline, _))`
  start : Option Nat            -- `Ok((_, range))` ↦ `range.start()`; `Err(_)` ↦ none
  mark : Option (Nat × Nat)     -- the start marker with its range (never produced by the lexer)
  deriving Inhabited

abbrev σD : Sig := ⟨Unit, DTok, Dbg, Dbg, Dbg, Dbg, Dbg, Dbg, Dbg⟩

def field (fs : List (String × Dbg)) (name : String) : Option Dbg :=
  (fs.find? (·.1 == name)).map (·.2)

def idxOf (names : List String) (h : String) : Nat :=
  match names.findIdx? (· == h) with
  | some i => i
  | none => 100000

/-- `(start, end)` of the `range` field of the struct inside a variant -/
def rangeOf : Dbg → Nat × Nat
  | .tuple _ [.struct _ fs] =>
    match field fs "range" with
    | some (.atom r) =>
      match r.splitOn ".." with
      | [a, b] => (a.toNat?.getD 0, b.toNat?.getD 0)
      | _ => (0, 0)
    | _ => (0, 0)
  | _ => (0, 0)

def payloadOf : Dbg → Dbg
  | .tuple _ [p] => p
  | d => d

def headOf : Dbg → String
  | .tuple h _ => h
  | .struct h _ => h
  | .atom s => s
  | .list _ => ""

def viewD : View σD where
  stmtKind := fun s => idxOf Gen.stmtVariants (headOf s)
  stmtStart := fun s => (rangeOf s).1
  stmtEnd := fun s => (rangeOf s).2
  stmtPayload := payloadOf
  exprKind := fun e => idxOf Gen.exprVariants (headOf e)
  exprStart := fun e => (rangeOf e).1
  exprEnd := fun e => (rangeOf e).2
  exprPayload := payloadOf
  nameId := fun e => match e with
    | .tuple "Name" [.struct _ fs] => field fs "id"
    | _ => none
  constValue := fun e => match e with
    | .tuple "Constant" [.struct _ fs] => field fs "value"
    | _ => none

def modOfDbg : Dbg → Mod σD
  | .tuple "Module" [.struct "ModModule" [("range", r), ("body", .list b), ("type_ignores", ti)]] =>
    .module ⟨r, b, ti⟩
  | .tuple "Interactive" [.struct "ModInteractive" [("range", r), ("body", .list b)]] => .interactive ⟨r, b⟩
  | .tuple "Expression" [.struct "ModExpression" [("range", r), ("body", e)]] => .expression ⟨r, e⟩
  | _ => .other

def dbgModModule (m : ModModule σD) : Dbg :=
  .struct "ModModule" [("range", m.range), ("body", .list m.body), ("type_ignores", m.typeIgnores)]
def dbgModInteractive (m : ModInteractive σD) : Dbg :=
  .struct "ModInteractive" [("range", m.range), ("body", .list m.body)]
def dbgModExpression (m : ModExpression σD) : Dbg :=
  .struct "ModExpression" [("range", m.range), ("body", m.body)]

def dbgMod : Mod σD → Dbg
  | .module m => .tuple "Module" [dbgModModule m]
  | .interactive m => .tuple "Interactive" [dbgModInteractive m]
  | .expression m => .tuple "Expression" [dbgModExpression m]
  | .other => .atom "?"

def dbgOut : Out σD → Dbg
  | .mod m => dbgMod m
  | .modModule m => dbgModModule m
  | .modExpression m => dbgModExpression m
  | .modInteractive m => dbgModInteractive m
  | .suite b => .list b
  | .stmt s => s
  | .expr e => e
  | .ident i => i
  | .const c => c
  | .payload p => p

def showRes {α} (f : α → Dbg) : Res α → String
  | .ok a => "(ok " ++ (f a).print ++ ")"
  | .err k o => s!"(err {k} {o})"
  | .panic => "(panic)"

/-- `(ok <dbg>)` / `(err <kind> <offset>)` / `(panic)` as sent by the harness -/
def parseAnswer (s : String) : Res (Mod σD) :=
  if s.startsWith "(ok " then
    match parseDbg ((s.drop 4).dropEnd 1).toString with
    | some d => .ok (modOfDbg d)
    | none => .err "unparsable" 0
  else if s.startsWith "(err " then
    match ((s.drop 5).dropEnd 1).toString.splitOn " " with
    | [k, o] => .err k (o.toNat?.getD 0)
    | _ => .err "unparsable" 0
  else .panic

/-- attachments of one offset: field name ↦ answer text -/
def parseAttach (bs : List Nat) : List (String × String) :=
  match utf8Decode bs with
  | none => []
  | some cs =>
    let s := String.ofList (cs.map Char.ofNat)
    (s.splitOn "\t").filterMap fun item =>
      match item.splitOn "=" with
      | k :: rest => some (k, joinSep "=" rest)
      | [] => none

def att (a : List (String × String)) (k : String) : String :=
  match a.find? (·.1 == k) with
  | some (_, v) => v
  | none => "(missing)"

def modeKey : Mode → String
  | .module => "m"
  | .expression => "e"
  | .interactive => "i"

/-- `(toks <Debug of Tok>@a..b<US>…[<US>(err kind offset)])` as sent by the harness (`show_lex`) -/
def parseToks (s : String) : List DTok :=
  if !(s.startsWith "(toks ") || s == "(toks )" then [] else
  let body := ((s.drop 6).dropEnd 1).toString
  (body.splitOn "\x1f").map fun item =>
    if item.startsWith "(err " then { trivia := false, start := none, mark := none } else
    let r := (item.splitOn "@").getLast?.getD ""
    let a := ((r.splitOn "..").head?.getD "").toNat?
    { trivia := item.startsWith "Comment(" || item.startsWith "NonLogicalNewline@", start := a, mark := none }

/-- where the real result shows the marker to have been: the start of the `Mod*` range (when the node
    carries one) and, for a stream without tokens, the offset of the end-of-input error (the marker's end) -/
def markerSeen (real : Res (Mod σD)) (rest : List DTok) : Option Nat × Option Nat :=
  let startOf (r : Dbg) : Option Nat :=
    match r with
    | .atom t => match t.splitOn ".." with
      | [a, _] => a.toNat?
      | _ => none
    | _ => none
  match real with
  | .ok (.module m) => (startOf m.range, none)
  | .ok (.interactive m) => (startOf m.range, none)
  | .ok (.expression m) => (startOf m.range, none)
  | .err "Eof" o => if rest.isEmpty then (none, some o) else (none, none)
  | _ => (none, none)

/-- the model's environment at one offset.  `lexTop` is the attached token stream; `parseTop` answers
    with the attached result of the real parser, provided the model hands it what the real code handed
    the real parser: the marker first, at the position the real result shows, and no trivia token. -/
def envOf (full : Bool) (a : List (String × String)) : Env σD where
  fullLexer := full
  isTrivia := fun t => t.trivia
  tokStart := fun t => t.start
  marker := fun _ x y => { trivia := false, start := some x, mark := some (x, y) }
  lexTop := fun mode _ _ => parseToks (att a ("lex." ++ modeKey mode))
  parseTop := fun mode toks =>
    match toks with
    | [] => .err "model-no-marker" 0
    | mk :: rest =>
      match mk.mark with
      | none => .err "model-no-marker" 0
      | some (x, y) =>
        if rest.any (fun t => t.trivia || t.mark.isSome) then .err "model-unfiltered-trivia" 0 else
        let real := parseAnswer (att a (modeKey mode))
        match markerSeen real rest with
        | (some x', _) => if x == x' then real else .err "model-marker-mismatch" x
        | (none, some y') => if y == y' then real else .err "model-marker-mismatch" y
        | (none, none) => real
  view := viewD

def handTypes : List (String × Ty) :=
  [("ModModule", .modModule), ("ModExpression", .modExpression), ("ModInteractive", .modInteractive),
   ("Suite", .suite), ("Stmt", .stmt), ("Expr", .expr), ("Identifier", .identifier), ("Constant", .constant)]

def allTypes : List (String × Ty) :=
  handTypes ++ (Gen.typedNames.zip Gen.typedParsers).map fun (n, p) => (n, Ty.typed p)

def modes : List Mode := [.module, .expression, .interactive]

def block (env : Env σD) (k : Nat) (with0 : Bool) : List String :=
  let sm := showRes dbgMod
  let so := showRes dbgOut
  (if with0 then modes.map fun m => s!"parse.{modeKey m}={sm (freeParse env m ())}" else [])
  ++ modes.map (fun m => s!"parse_starts_at.{modeKey m}={sm (freeParseStartsAt env m () k)}")
  ++ modes.map (fun m => s!"parse_tokens.{modeKey m}={sm (freeParseTokens env m (env.lexTop m k ()))}")
  ++ (if with0 then [s!"parse_program={so (parseProgram env ())}", s!"parse_expression={so (parseExpression env ())}"] else [])
  ++ [s!"parse_expression_starts_at={so (parseExpressionStartsAt env () k)}"]
  ++ allTypes.flatMap fun (n, ty) =>
    (if with0 then [s!"{n}.parse={so (ty.parse env ())}", s!"{n}.parse_without_path={so (ty.parse env ())}"] else [])
    ++ [s!"{n}.parse_starts_at={so (ty.parseStartsAt env () k)}",
        s!"{n}.parse_tokens={so (ty.parseTokens env (ty.lexStartsAt env () k))}"]

def lexBlock (a : List (String × String)) (with0 : Bool) : List String :=
  let lx := fun (m : Mode) => att a ("lex." ++ modeKey m)
  (if with0 then modes.map fun m => s!"lex.{modeKey m}={lx m}" else [])
  ++ modes.map (fun m => s!"lex_starts_at.{modeKey m}={lx m}")
  ++ allTypes.map fun (n, ty) => s!"{n}.lex_starts_at={lx ty.lexMode}"

def handle : List String → String
  | [op, k, _src, full, a0, ak] =>
    match k.toNat?, unhex a0, unhex ak with
    | some k, some a0, some ak =>
      let full := full == "1"
      let a0 := parseAttach a0
      let ak := parseAttach ak
      if op == "entries" then
        joinSep "\t" (["@0"] ++ block (envOf full a0) 0 true
          ++ (if k != 0 then [s!"@{k}"] ++ block (envOf full ak) k false else []))
      else if op == "lexes" then
        joinSep "\t" (["@0"] ++ lexBlock a0 true ++ (if k != 0 then [s!"@{k}"] ++ lexBlock ak false else []))
      else "bad-request"
    | _, _, _ => "bad-request"
  | _ => "bad-request"

def main : IO Unit := protoLoop handle
