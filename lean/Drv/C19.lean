import PV.Common.Proto
import PV.C19.Model
import PV.C19.Spec
/-! Driver for C19: answers the request lines of `harness/src/bin/pvh_c19.rs` with the model
    (`csplit`, `cspec`, `cfmt`, `crender`) and, for spec validation against CPython, the same
    questions with the reference definitions (`pysplit`, `pyfmt`, `pyrender`). -/
open PV PV.C19

def kindStr : ErrKind → String
  | .unmatchedKey => "key"
  | .missingModulo => "modulo"
  | .unsupported c => s!"unsupported:{c}"
  | .incomplete => "incomplete"
  | .intTooBig => "toobig"

def typeTag : FType → String
  | .number .dec => "dec"
  | .number .oct => "oct"
  | .number .hexL => "hexl"
  | .number .hexU => "hexu"
  | .float .exp false => "expl"
  | .float .exp true => "expu"
  | .float .fix false => "fixl"
  | .float .fix true => "fixu"
  | .float .gen false => "genl"
  | .float .gen true => "genu"
  | .char => "chr"
  | .string .str => "str"
  | .string .repr => "repr"
  | .string .ascii => "ascii"
  | .string .bytes => "bytes"

def quantityStr : Quantity → String
  | .amount n => toString n
  | .star => "*"

def keyStr : Option (List Nat) → String
  | none => "~"
  | some k => "k" ++ hex (utf8Encode k)

def showSpec (s : Spec) : String :=
  let width := match s.width with
    | none => "~"
    | some q => quantityStr q
  let prec := match s.prec with
    | none => "~"
    | some .dot => "."
    | some (.quantity q) => quantityStr q
  s!"{keyStr s.key}:{s.flags.bits}:{width}:{prec}:{typeTag s.ftype}:{s.fchar}"

def showCheck : Option (Nat × Bool) → String
  | none => "none"
  | some (n, m) => s!"{n},{if m then 1 else 0}"

/-- decode the template argument: scalar values in text mode, bytes in bytes mode -/
def decodeTemplate (mode : String) (h : String) : Option (List Nat) :=
  match unhex h with
  | none => none
  | some bs => if mode == "t" then utf8Decode bs else some bs

/-- encode model output: UTF-8 in text mode, the values themselves in bytes mode -/
def encodeOut (mode : String) (cs : List Nat) : List Nat := if mode == "t" then utf8Encode cs else cs

def csplit (mode : String) (t : List Nat) : String :=
  match parseTemplate (mode == "t") t with
  | .panic => "panic"
  | .err k i => s!"err {kindStr k} {i}"
  | .ok parts =>
    let ps := parts.map fun (i, p) =>
      match p with
      | .literal l => s!"L{i}:{hex (encodeOut mode l)}"
      | .spec s => s!"S{i}:{showSpec s}"
    s!"ok {joinSep ";" ps} chk={showCheck (checkSpecifiers parts)}"

def parseHex64 (s : String) : Option Nat :=
  s.toList.foldl (fun acc c => match acc, hexVal c with
    | some a, some v => some (16 * a + v)
    | _, _ => none) (some 0)

def isScalar (n : Nat) : Bool := n < 0xD800 || (0xE000 ≤ n && n < 0x110000)

def cfmt (spec : List Nat) (k v : String) : String :=
  match specFromStr spec with
  | .panic => "panic"
  | .err e i => s!"err {kindStr e} {i}"
  | .ok s =>
    let isNumber := match s.ftype with | .number _ => true | _ => false
    let isFloat := match s.ftype with | .float _ _ => true | _ => false
    let isString := match s.ftype with | .string _ => true | _ => false
    let isChar := match s.ftype with | .char => true | _ => false
    let out : Option (Option (Option (List Nat))) :=     -- bad request / mismatch / panic
      if k == "i" then
        match v.toInt? with
        | none => none
        | some n => if isNumber then some (some (formatNumber s n)) else some none
      else if k == "f" then
        match parseHex64 v with
        | none => none
        | some b => if isFloat then some (some (formatFloat s b)) else some none
      else if k == "s" then
        match (unhex v).bind utf8Decode with
        | none => none
        | some t => if isString then some (some (some (utf8Encode (formatString s t)))) else some none
      else if k == "c" then
        match v.toNat? with
        | none => none
        | some c =>
          if !isScalar c then none
          else if isChar then some (some (some (utf8Encode (formatChar s c)))) else some none
      else if k == "y" then
        match unhex v with
        | none => none
        | some b => if isString then some (some (some (formatBytes s b))) else some none
      else none
    match out with
    | none => "bad-request"
    | some none => "mismatch"
    | some (some none) => "panic"
    | some (some (some r)) => s!"ok {hex r}"

structure Views where
  int : Int
  float : Nat
  s : List Nat
  repr : List Nat
  ascii : List Nat
  bytes : List Nat

inductive Rendered where
  | ok (bs : List Nat)
  | skip (why : String)
  | panic

def hasStar (s : Spec) : Bool :=
  s.width == some .star || s.prec == some (.quantity .star)

def optR : Option (List Nat) → Rendered
  | some r => .ok r
  | none => .panic

def renderSpec (s : Spec) (bytesMode : Bool) (v : Views) : Rendered :=
  if hasStar s then .skip "star" else
  match s.ftype with
  | .number _ => optR (formatNumber s v.int)
  | .float _ _ => optR (formatFloat s v.float)
  | .char =>
    if v.int < 0 then .skip "char" else
    let n := v.int.toNat
    if bytesMode then (if n < 256 then .ok (formatChar s n) else .skip "char")
    else (if isScalar n then .ok (utf8Encode (formatChar s n)) else .skip "char")
  | .string conv =>
    if bytesMode then
      match conv with
      | .str | .bytes => .ok (formatBytes s v.bytes)
      | _ => .ok (formatBytes s (utf8Encode v.ascii))
    else
      match conv with
      | .str => .ok (utf8Encode (formatString s v.s))
      | .repr => .ok (utf8Encode (formatString s v.repr))
      | .ascii => .ok (utf8Encode (formatString s v.ascii))
      | .bytes => .skip "text-b"

def renderParts (mode : String) (v : Views) : List (Nat × Part) → List Nat → List String → String
  | [], out, keys => s!"ok {hex out} keys={joinSep "," keys.reverse}"
  | (_, .literal l) :: ps, out, keys => renderParts mode v ps (out ++ encodeOut mode l) keys
  | (_, .spec s) :: ps, out, keys =>
    let keys := match s.key with
      | some k => hex (utf8Encode k) :: keys
      | none => keys
    match renderSpec s (mode == "b") v with
    | .ok bs => renderParts mode v ps (out ++ bs) keys
    | .skip why => s!"skip {why}"
    | .panic => "panic"

def crender (mode : String) (t : List Nat) (v : Views) : String :=
  match parseTemplate (mode == "t") t with
  | .panic => "panic"
  | .err k i => s!"err {kindStr k} {i}"
  | .ok parts =>
    if (checkSpecifiers parts).isNone then "skip mixed" else renderParts mode v parts [] []

/-! ### the reference side (`Spec.lean`), for validation against CPython -/
open PV.C19.Spec

def modeOf (mode : String) : Mode := if mode == "t" then .text else .bytes

def pyErrStr : PyErr → String
  | .incompleteKey => "err key -"
  | .incomplete => "err incomplete -"
  | .unsupported c i => s!"err unsupported:{c} {i}"
  | .tooBig => "err toobig -"

def showConv (s : PyConv) : String :=
  let q : Option Quantity → String := fun o => match o with
    | none => "~"
    | some x => quantityStr x
  s!"{keyStr s.key}:{s.flags.bits}:{q s.width}:{q s.prec}:py:{s.type}"

def pysplit (mode : String) (t : List Nat) : String :=
  match pySplit (modeOf mode) t with
  | .err e => pyErrStr e
  | .ok ps =>
    let xs := ps.map fun p => match p with
      | .lit l => s!"L:{hex (encodeOut mode l)}"
      | .conv s => s!"S:{showConv s}"
    s!"ok {joinSep ";" xs}"

def resolveQ : Option Quantity → Option Nat
  | some (.amount n) => some n
  | _ => none

def numTypeOf (c : Nat) : Option NumType :=
  if c = 100 ∨ c = 105 ∨ c = 117 then some .dec
  else if c = 111 then some .oct
  else if c = 120 then some .hexL
  else if c = 88 then some .hexU
  else none

def floatTypeOf (c : Nat) : Option (FloatKind × Bool) :=
  if c = 101 then some (.exp, false) else if c = 69 then some (.exp, true)
  else if c = 102 then some (.fix, false) else if c = 70 then some (.fix, true)
  else if c = 103 then some (.gen, false) else if c = 71 then some (.gen, true)
  else none

def pyHasStar (s : PyConv) : Bool := s.width == some .star || s.prec == some .star

/-- Python's text for one conversion and the views of one value -/
def pyRenderConv (s : PyConv) (bytesMode : Bool) (v : Views) : Rendered :=
  if pyHasStar s then .skip "star" else
  let w := resolveQ s.width
  let p := resolveQ s.prec
  match numTypeOf s.type, floatTypeOf s.type with
  | some t, _ => .ok (pyFormatInt s.flags w p t v.int)
  | _, some (k, up) => .ok (pyFormatFloat s.flags w p k up v.float)
  | none, none =>
    if s.type = 99 then
      if v.int < 0 then .skip "char" else
      let n := v.int.toNat
      if bytesMode then (if n < 256 then .ok (pyFormatChar s.flags w n) else .skip "char")
      else (if isScalar n then .ok (utf8Encode (pyFormatChar s.flags w n)) else .skip "char")
    else if bytesMode then
      if s.type = 115 ∨ s.type = 98 then .ok (pyFormatBytes s.flags w p v.bytes)
      else .ok (pyFormatBytes s.flags w p (utf8Encode v.ascii))
    else
      if s.type = 115 then .ok (utf8Encode (pyFormatStr s.flags w p v.s))
      else if s.type = 114 then .ok (utf8Encode (pyFormatStr s.flags w p v.repr))
      else .ok (utf8Encode (pyFormatStr s.flags w p v.ascii))

def pyRenderPieces (mode : String) (v : Views) : List Piece → List Nat → List String → String
  | [], out, keys => s!"ok {hex out} keys={joinSep "," keys.reverse}"
  | .lit l :: ps, out, keys => pyRenderPieces mode v ps (out ++ encodeOut mode l) keys
  | .conv s :: ps, out, keys =>
    let keys := match s.key with
      | some k => hex (utf8Encode k) :: keys
      | none => keys
    match pyRenderConv s (mode == "b") v with
    | .ok bs => pyRenderPieces mode v ps (out ++ bs) keys
    | .skip why => s!"skip {why}"
    | .panic => "panic"

def pyMixed (ps : List Piece) : Bool :=
  let ks := ps.filterMap fun p => match p with
    | .conv s => some s.key.isSome
    | _ => none
  ks.any (· == true) && ks.any (· == false)

def pyrender (mode : String) (t : List Nat) (v : Views) : String :=
  match pySplit (modeOf mode) t with
  | .err e => pyErrStr e
  | .ok ps => if pyMixed ps then "skip mixed" else pyRenderPieces mode v ps [] []

/-- `pyfmt <spec> <kind> <value>`: one conversion (text after it ignored) applied to one value -/
def pyfmt (spec : List Nat) (k v : String) : String :=
  match spec with
  | 37 :: rest =>
    match pyConv (if k == "y" then .bytes else .text) spec.length rest with
    | .err e => pyErrStr e
    | .ok (s, _) =>
      let w := resolveQ s.width
      let p := resolveQ s.prec
      let r : Option (List Nat) :=
        if k == "i" then
          match v.toInt?, numTypeOf s.type with
          | some n, some t => some (pyFormatInt s.flags w p t n)
          | _, _ => none
        else if k == "f" then
          match parseHex64 v, floatTypeOf s.type with
          | some b, some (fk, up) => some (pyFormatFloat s.flags w p fk up b)
          | _, _ => none
        else if k == "s" then
          match (unhex v).bind utf8Decode with
          | some t => some (utf8Encode (pyFormatStr s.flags w p t))
          | none => none
        else if k == "c" then
          match v.toNat? with
          | some c => some (utf8Encode (pyFormatChar s.flags w c))
          | none => none
        else if k == "y" then
          match unhex v with
          | some b => some (pyFormatBytes s.flags w p b)
          | none => none
        else none
      match r with
      | some r => s!"ok {hex r}"
      | none => "mismatch"
  | _ => "err modulo -"

def mkViews (int fl s r a y : String) : Option Views :=
  match int.toInt?, parseHex64 fl, (unhex s).bind utf8Decode, (unhex r).bind utf8Decode,
        (unhex a).bind utf8Decode, unhex y with
  | some int, some float, some s, some repr, some ascii, some bytes =>
    some { int, float, s, repr, ascii, bytes }
  | _, _, _, _, _, _ => none

def handle : List String → String
  | ["csplit", mode, t] =>
    match decodeTemplate mode t with
    | some cs => csplit mode cs
    | none => "bad-request"
  | ["cspec", t] =>
    match (unhex t).bind utf8Decode with
    | some cs =>
      match specFromStr cs with
      | .ok s => s!"ok {showSpec s}"
      | .err k i => s!"err {kindStr k} {i}"
      | .panic => "panic"
    | none => "bad-request"
  | ["cfmt", spec, k, v] =>
    match (unhex spec).bind utf8Decode with
    | some cs => cfmt cs k v
    | none => "bad-request"
  | ["crender", mode, t, int, fl, s, r, a, y] =>
    match decodeTemplate mode t, mkViews int fl s r a y with
    | some cs, some v => crender mode cs v
    | _, _ => "bad-request"
  | ["pysplit", mode, t] =>
    match decodeTemplate mode t with
    | some cs => pysplit mode cs
    | none => "bad-request"
  | ["pyfmt", spec, k, v] =>
    match (unhex spec).bind utf8Decode with
    | some cs => pyfmt cs k v
    | none => "bad-request"
  | ["pyrender", mode, t, int, fl, s, r, a, y] =>
    match decodeTemplate mode t, mkViews int fl s r a y with
    | some cs, some v => pyrender mode cs v
    | _, _ => "bad-request"
  | _ => "bad-request"

def main : IO Unit := protoLoop handle
