import PV.Common.Proto
/-! Canonical S-expression reader shared by drivers (format: design/REFTOOLS.md). -/
open PV
namespace SexpC

/-- generic canonical tree -/
inductive Raw where
  | atom (s : String)
  | list (xs : Array Raw)
  | node (kind : String) (range : String) (fields : Array (String × Raw))   -- field "" = positional
  deriving Inhabited

partial def Raw.print : Raw → String
  | .atom s => s
  | .list xs => "[" ++ joinSep " " (xs.toList.map Raw.print) ++ "]"
  | .node k r fs =>
    "(" ++ k ++ (if r == "" then "" else " " ++ r) ++
      String.join (fs.toList.map fun (f, v) => if f == "" then " " ++ v.print else " (" ++ f ++ " " ++ v.print ++ ")") ++ ")"

def tokenize (s : String) : Array String := Id.run do
  let mut out : Array String := #[]
  let mut cur := ""
  for c in s.toList do
    if c == '(' || c == ')' || c == '[' || c == ']' then
      if cur != "" then out := out.push cur; cur := ""
      out := out.push (String.singleton c)
    else if c == ' ' then
      if cur != "" then out := out.push cur; cur := ""
    else cur := cur.push c
  if cur != "" then out := out.push cur
  return out

def isFieldName (s : String) : Bool := s != "" && s.all (fun c => c.isLower || c == '_')

partial def parseVal (toks : Array String) (pos : Nat) : Option (Raw × Nat) :=
  match toks[pos]? with
  | none => none
  | some "[" =>
    let rec items (p : Nat) (acc : Array Raw) : Option (Raw × Nat) :=
      match toks[p]? with
      | some "]" => some (.list acc, p + 1)
      | none => none
      | _ => match parseVal toks p with
        | some (v, p') => items p' (acc.push v)
        | none => none
    items (pos + 1) #[]
  | some "(" =>
    match toks[pos + 1]? with
    | none => none
    | some kind =>
      let (rng, p0) := match toks[pos + 2]? with
        | some t => if t.startsWith "@" then (t, pos + 3) else ("", pos + 2)
        | none => ("", pos + 2)
      let rec fields (p : Nat) (acc : Array (String × Raw)) : Option (Raw × Nat) :=
        match toks[p]? with
        | some ")" => some (.node kind rng acc, p + 1)
        | none => none
        | some "(" =>
          match toks[p + 1]? with
          | some f =>
            if isFieldName f then
              match parseVal toks (p + 2) with
              | some (v, p') => if toks[p']? == some ")" then fields (p' + 1) (acc.push (f, v)) else none
              | none => none
            else
              match parseVal toks p with
              | some (v, p') => fields p' (acc.push ("", v))
              | none => none
          | none => none
        | _ => match parseVal toks p with
          | some (v, p') => fields p' (acc.push ("", v))
          | none => none
      fields p0 #[]
  | some t => some (.atom t, pos + 1)

def parseSexp (s : String) : Option Raw :=
  let toks := tokenize s
  match parseVal toks 0 with
  | some (v, p) => if p == toks.size then some v else none
  | none => none


end SexpC
