import PV.Common.Proto
import PV.C03.Escapes
/-! Driver for C03: answers the kernel requests of `harness/src/bin/pvh_c03.rs` with the models of
    `PV/C03/Escapes.lean`.  The glue below (`decodeBody`) is the plain-character loop of
    `parse_string` / `parse_bytes` and the escape dispatch of `parse_escaped_char`, only as far as
    the request alphabets need it; the kernels themselves live in `PV.C03`. -/
open PV PV.C03

/-- the few names the generator uses with an existing character (everything else is unknown) -/
def lookName (nm : List Nat) : Option Nat :=
  let s := String.ofList (nm.map Char.ofNat)
  if s == "EN SPACE" then some 0x2002
  else if s == "LATIN SMALL LETTER A" then some 0x61
  else if s == "GREEK SMALL LETTER ALPHA" then some 0x3B1
  else if s == "en space" then some 0x2002
  else none

def simpleEscape (c : Nat) : Option Nat :=
  if c = 92 then some 92 else if c = 39 then some 39 else if c = 34 then some 34
  else if c = 97 then some 7 else if c = 98 then some 8 else if c = 102 then some 12
  else if c = 110 then some 10 else if c = 114 then some 13 else if c = 116 then some 9
  else if c = 118 then some 11 else none

/-- `parse_string` (`bytes = false`) / `parse_bytes` (`bytes = true`) on a non-raw literal body -/
def decodeBody (bytes : Bool) : (fuel pos : Nat) → (acc : List Nat) → List Nat → Outcome (List Nat)
  | 0, _, _, _ => .panic
  | _ + 1, _, acc, [] => .ok acc.reverse
  | fuel + 1, pos, acc, c :: cs =>
    if c = 92 then
      match cs with
      | [] => .err (pos + 1)
      | e :: r =>
        let p := pos + 1 + csize e
        match simpleEscape e with
        | some v => decodeBody bytes fuel p (v :: acc) r
        | none =>
          if isOct e then
            match parseOctet e r with
            | none => .panic
            | some (v, r') => decodeBody bytes fuel (p + (r.length - r'.length)) (v :: acc) r'
          else if e = 120 then
            match parseUnicodeLiteral 2 p r with
            | .ok (v, p', r') => decodeBody bytes fuel p' (v :: acc) r'
            | .err o => .err o
            | .panic => .panic
          else if e = 117 ∧ !bytes then
            match parseUnicodeLiteral 4 p r with
            | .ok (v, p', r') => decodeBody bytes fuel p' (v :: acc) r'
            | .err o => .err o
            | .panic => .panic
          else if e = 85 ∧ !bytes then
            match parseUnicodeLiteral 8 p r with
            | .ok (v, p', r') => decodeBody bytes fuel p' (v :: acc) r'
            | .err o => .err o
            | .panic => .panic
          else if e = 78 ∧ !bytes then
            match parseUnicodeName lookName p r with
            | .ok (v, p', r') => decodeBody bytes fuel p' (v :: acc) r'
            | .err o => .err o
            | .panic => .panic
          else if e = 10 then decodeBody bytes fuel p acc r
          else if bytes ∧ 128 ≤ e then .err p
          else decodeBody bytes fuel p (e :: 92 :: acc) r
    else if bytes ∧ 128 ≤ c then .err (pos + csize c)
    else decodeBody bytes fuel (pos + csize c) (c :: acc) cs

def showOutcome (bytes : Bool) : Outcome (List Nat) → String
  | .ok cs =>
    let cs := if bytes then cs.map (· % 256) else cs
    if cs.isEmpty then "ok -" else "ok " ++ joinSep "," (cs.map toString)
  | .err o => s!"err@{o}"
  | .panic => "panic"

/-- the literal `"\<text>"` / `b"\<text>"`: body starts after the (prefix and) quote -/
def runLiteral (bytes : Bool) (body : List Nat) : String :=
  let start := if bytes then 2 else 1
  showOutcome bytes (decodeBody bytes (body.length + 1) start [] body)

def symOf (b : Nat) : Option Sym :=
  if b = 123 then some .lb else if b = 125 then some .rb else if b = 58 then some .colon
  else if b = 120 then some .x else none

def showFOut : FOut → String
  | .ok _ _ _ => "ok"
  | .err o _ => s!"err@{o}"
  | .oof _ => "out-of-fuel"

def handle : List String → String
  | ["oct", kind, t] => match (unhex t).bind utf8Decode with
    | some cs => runLiteral (kind == "b") (92 :: cs)
    | none => "bad-request"
  | ["uni", which, kind, t] => match (unhex t).bind utf8Decode, which.toList with
    | some cs, [w] => runLiteral (kind == "b") (92 :: w.toNat :: cs)
    | _, _ => "bad-request"
  | ["name", t] => match (unhex t).bind utf8Decode with
    | some cs => runLiteral false (92 :: 78 :: cs)
    | none => "bad-request"
  | ["fnest", t] => match unhex t with
    | some bs => match bs.mapM symOf with
      | some s => showFOut (parseFstringBody 2 s)
      | none => "bad-request"
    | none => "bad-request"
  | _ => "bad-request"

def main : IO Unit := protoLoop handle
