import PV.Common.Proto
import PV.C03.Escapes
import PV.C07.Model
import PV.C03.ErrConv
/-! Driver for C03: answers the kernel requests of `harness/src/bin/pvh_c03.rs` with the models of
    `PV/C03/Escapes.lean`, the `fscan` requests with the full-alphabet f-string scanner model of C07
    (`PV.C07.Model`, the model the theorems `fstring_*` of `PV/C03/Thm.lean` are about) and the
    `errconv` requests with `PV.C03.ErrConv`.  The glue below (`decodeBody`) is the plain-character loop of
    `parse_string` / `parse_bytes` and the escape dispatch of `parse_escaped_char`, only as far as
    the request alphabets need it; the kernels themselves live in `PV.C03`. -/
open PV PV.C03

/-- the few names the generator uses with an existing character (everything else is unknown) -/
def lookName (nm : List Nat) : Option Nat :=
  let s := String.ofList (nm.map Char.ofNat)
  if s == "EN SPACE" then some 0x2002
  else if s == "LATIN SMALL LETTER A" then some 0x61
  else if s == "GREEK SMALL LETTER ALPHA" then some 0x3B1
  else if s == "en space" then some 0x2002
  else none

def simpleEscape (c : Nat) : Option Nat :=
  if c = 92 then some 92 else if c = 39 then some 39 else if c = 34 then some 34
  else if c = 97 then some 7 else if c = 98 then some 8 else if c = 102 then some 12
  else if c = 110 then some 10 else if c = 114 then some 13 else if c = 116 then some 9
  else if c = 118 then some 11 else none

/-- `parse_string` (`bytes = false`) / `parse_bytes` (`bytes = true`) on a non-raw literal body -/
def decodeBody (bytes : Bool) : (fuel pos : Nat) → (acc : List Nat) → List Nat → Outcome (List Nat)
  | 0, _, _, _ => .panic
  | _ + 1, _, acc, [] => .ok acc.reverse
  | fuel + 1, pos, acc, c :: cs =>
    if c = 92 then
      match cs with
      | [] => .err (pos + 1)
      | e :: r =>
        let p := pos + 1 + csize e
        match simpleEscape e with
        | some v => decodeBody bytes fuel p (v :: acc) r
        | none =>
          if isOct e then
            match parseOctet e r with
            | none => .panic
            | some (v, r') => decodeBody bytes fuel (p + (r.length - r'.length)) (v :: acc) r'
          else if e = 120 then
            match parseUnicodeLiteral 2 p r with
            | .ok (v, p', r') => decodeBody bytes fuel p' (v :: acc) r'
            | .err o => .err o
            | .panic => .panic
          else if e = 117 ∧ !bytes then
            match parseUnicodeLiteral 4 p r with
            | .ok (v, p', r') => decodeBody bytes fuel p' (v :: acc) r'
            | .err o => .err o
            | .panic => .panic
          else if e = 85 ∧ !bytes then
            match parseUnicodeLiteral 8 p r with
            | .ok (v, p', r') => decodeBody bytes fuel p' (v :: acc) r'
            | .err o => .err o
            | .panic => .panic
          else if e = 78 ∧ !bytes then
            match parseUnicodeName lookName p r with
            | .ok (v, p', r') => decodeBody bytes fuel p' (v :: acc) r'
            | .err o => .err o
            | .panic => .panic
          else if e = 10 then decodeBody bytes fuel p acc r
          else if bytes ∧ 128 ≤ e then .err p
          else decodeBody bytes fuel p (e :: 92 :: acc) r
    else if bytes ∧ 128 ≤ c then .err (pos + csize c)
    else decodeBody bytes fuel (pos + csize c) (c :: acc) cs

def showOutcome (bytes : Bool) : Outcome (List Nat) → String
  | .ok cs =>
    let cs := if bytes then cs.map (· % 256) else cs
    if cs.isEmpty then "ok -" else "ok " ++ joinSep "," (cs.map toString)
  | .err o => s!"err@{o}"
  | .panic => "panic"

/-- the literal `"\<text>"` / `b"\<text>"`: body starts after the (prefix and) quote -/
def runLiteral (bytes : Bool) (body : List Nat) : String :=
  let start := if bytes then 2 else 1
  showOutcome bytes (decodeBody bytes (body.length + 1) start [] body)

def symOf (b : Nat) : Option Sym :=
  if b = 123 then some .lb else if b = 125 then some .rb else if b = 58 then some .colon
  else if b = 120 then some .x else none

def showFOut : FOut → String
  | .ok _ _ _ => "ok"
  | .err o _ => s!"err@{o}"
  | .oof _ => "out-of-fuel"

/-- `fscan <source>`: a source made of adjacent string literals, at least one of them an f-string,
    through the C06 literal lexer (`lexLits`) and the FULL-alphabet scanner model of C07
    (`parseStringsF` = `parse_strings` → `StringParser::parse` → `parse_fstring`); only `ok` / the error
    offset / `panic` are printed, as the real parser's answer is projected by the harness. -/
def fscan (src : List Nat) : String :=
  let showE (e : PV.C06.Err) : String :=
    match e.kind with
    | .panic => "panic"
    | _ => s!"err@{e.loc}"
  match PV.C06.lexLits (src.length + 1) src 0 with
  | none => "unsupported"
  | some (.error e) => showE e
  | some (.ok toks) =>
    match PV.C06.allStrings toks with
    | none => "unsupported"
    | some [] => "unsupported"
    | some sts =>
      match PV.C06.parseStrings lookName sts with
      | some (.error e) => showE e
      | some (.ok _) => "ok"
      | none =>
        match PV.C07.parseStringsF lookName sts with
        | .error e => showE e
        | .ok _ => "ok"

/-! ### `errconv`: the public `ParseError` recomputed from the reconstructed LALRPOP error -/

open PV.C03.ErrConv in
/-- `v=` argument: `I:<loc>` | `E:<loc>:<expected>` | `T:<l>:<Tok>:<r>:<expected>` | `X:<l>:<Tok>:<r>` |
    `U:<Kind>:<loc>`; `<expected>` = names separated by `,`, `-` for the empty list -/
def parseVariant (a : String) : Option Lalr :=
  let exp (x : String) : List String := if x == "-" then [] else x.splitOn ","
  match a.splitOn ":" with
  | ["I", loc] => loc.toNat?.map .invalidToken
  | ["E", loc, ex] => loc.toNat?.map (fun l => .unrecognizedEof l (exp ex))
  | ["T", l, tok, r, ex] =>
    match l.toNat?, r.toNat? with
    | some l, some r => some (.unrecognizedToken l tok r (exp ex))
    | _, _ => none
  | ["X", l, tok, r] =>
    match l.toNat?, r.toNat? with
    | some l, some r => some (.extraToken l tok r)
    | _, _ => none
  | ["U", kind, loc] => loc.toNat?.map (.user kind)
  | _ => none

open PV.C03.ErrConv in
/-- `t=` argument: `l:Tok:r;…` or `-` -/
def parseTriples (a : String) : Option (List Triple) :=
  if a == "-" then some []
  else (a.splitOn ";").mapM fun it =>
    match it.splitOn ":" with
    | [l, tok, r] =>
      match l.toNat?, r.toNat? with
      | some l, some r => some (l, tok, r)
      | _, _ => none
    | _ => none

/-- `x=` argument: `Kind@loc` or `-` -/
def parseLexErr (a : String) : Option (Option (String × Nat)) :=
  if a == "-" then some none
  else match a.splitOn "@" with
    | [kind, loc] => loc.toNat?.map (fun l => some (kind, l))
    | _ => none

open PV.C03.ErrConv in
def showPErr (e : PErr) : String :=
  let k := match e.error with
    | .eof => "Eof"
    | .extraToken t => s!"ExtraToken:{t}"
    | .invalidToken => "InvalidToken"
    | .unrecognizedToken t ex => s!"UnrecognizedToken:{t}:{ex.getD "-"}"
    | .lexical kind => s!"Lexical:{kind}"
  s!"{k}@{e.offset}"

open PV.C03.ErrConv in
def errconv (start : Nat) (args : List String) : String :=
  let arg (p : String) : Option String := (args.find? (·.startsWith p)).map (fun a => (a.drop p.length).toString)
  match (arg "v=").bind parseVariant, (arg "t=").bind parseTriples, (arg "x=").bind parseLexErr with
  | some v, some toks, some lexErr =>
    let e := parseStartsAtErr start v
    let ind := if isIndentationError e.error then 1 else 0
    let rep := if reports toks lexErr v then "ok" else "BAD"
    s!"{showPErr e} indent={ind} reports={rep}"
  | _, _, _ => "bad-request"

def handle : List String → String
  | "errconv" :: _ :: start :: _ :: args => match start.toNat? with
    | some k => errconv k args
    | none => "bad-request"
  | ["fscan", t] => match (unhex t).bind utf8Decode with
    | some cs => fscan cs
    | none => "bad-request"
  | ["oct", kind, t] => match (unhex t).bind utf8Decode with
    | some cs => runLiteral (kind == "b") (92 :: cs)
    | none => "bad-request"
  | ["uni", which, kind, t] => match (unhex t).bind utf8Decode, which.toList with
    | some cs, [w] => runLiteral (kind == "b") (92 :: w.toNat :: cs)
    | _, _ => "bad-request"
  | ["name", t] => match (unhex t).bind utf8Decode with
    | some cs => runLiteral false (92 :: 78 :: cs)
    | none => "bad-request"
  | ["fnest", t] => match unhex t with
    | some bs => match bs.mapM symOf with
      | some s => showFOut (parseFstringBody 2 s)
      | none => "bad-request"
    | none => "bad-request"
  | _ => "bad-request"

def main : IO Unit := protoLoop handle
