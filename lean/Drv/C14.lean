import PV.Common.Proto
import PV.C14.Model
import PV.C14.Fixed
/-! Driver for C14: answers the same request lines as `harness/src/bin/pvh_c14.rs` with the model.
    Signature syntax: see the header of that file.
    With `PV_C14_MODEL=fixed` in the environment the repaired functions of `PV/C14/Fixed.lean` answer
    (used once fixes/C14-kwonly-defaults.diff is applied; see `FIX_APPLIED` in tools/props/c14.py). -/
open PV PV.C14

def parseParamD (s : String) : Option ParamD :=
  let (head, default) : String × Option String := match s.splitOn "=" with
    | [h, d] => (h, some d)
    | _ => (s, none)
  let (name, ann) : String × Option String := match head.splitOn ":" with
    | [n, a] => (n, some a)
    | _ => (head, none)
  match name.toNat? with
  | none => none
  | some n =>
    let annV : Option (Option Nat) := match ann with
      | none => some none
      | some a => a.toNat?.map some
    let defV : Option (Option Nat) := match default with
      | none => some none
      | some d => d.toNat?.map some
    match annV, defV with
    | some a, some d => some ⟨⟨n, a⟩, d⟩
    | _, _ => none

def parsePlain (s : String) : Option Param :=
  match parseParamD s with
  | some ⟨p, none⟩ => some p
  | _ => none

def parseList {α} (f : String → Option α) (s : String) : Option (List α) :=
  if s == "-" then some [] else (s.splitOn ",").mapM f

def parseOpt (s : String) : Option (Option Param) :=
  if s == "-" then some none else (parsePlain s).map some

def parseSig (s : String) : Option Arguments :=
  match s.splitOn ";" with
  | [po, ar, va, kw, kk] =>
    match parseList parseParamD po, parseList parseParamD ar, parseOpt va, parseList parseParamD kw, parseOpt kk with
    | some po, some ar, some va, some kw, some kk => some ⟨po, ar, va, kw, kk⟩
    | _, _, _, _, _ => none
  | _ => none

def parsePySig (s : String) : Option PyArguments :=
  match s.splitOn ";" with
  | [po, ar, ds, va, kw, kd, kk] =>
    match parseList parsePlain po, parseList parsePlain ar, parseList String.toNat? ds, parseOpt va,
          parseList parsePlain kw, parseList String.toNat? kd, parseOpt kk with
    | some po, some ar, some ds, some va, some kw, some kd, some kk =>
      some { posonly := po, args := ar, defaults := ds, vararg := va, kwonly := kw, kwDefaults := kd, kwarg := kk }
    | _, _, _, _, _, _, _ => none
  | _ => none

def showParam (p : Param) : String :=
  match p.ann with
  | none => toString p.name
  | some a => s!"{p.name}:{a}"

def showParamD (p : ParamD) : String :=
  match p.default with
  | none => showParam p.arg
  | some d => s!"{showParam p.arg}={d}"

def showList (l : List String) : String := if l.isEmpty then "-" else joinSep "," l

def showOptParam : Option Param → String
  | none => "-"
  | some p => showParam p

def showArguments (a : Arguments) : String :=
  joinSep ";" [showList (a.posonly.map showParamD), showList (a.args.map showParamD), showOptParam a.vararg,
               showList (a.kwonly.map showParamD), showOptParam a.kwarg]

def showPy (p : PyArguments) : String :=
  joinSep ";" [showList (p.posonly.map showParam), showList (p.args.map showParam),
               showList (p.defaults.map toString), showOptParam p.vararg,
               showList (p.kwonly.map showParam), showList (p.kwDefaults.map toString), showOptParam p.kwarg]

/-- the conversion functions under test: the model of the code as it is, or of the repaired code -/
structure Impl where
  toPy : Arguments → PyArguments
  intoPy : Arguments → PyArguments
  fromArgs : Arguments → PyArguments
  intoArgs : PyArguments → Option Arguments

def implCurrent : Impl := ⟨toPython, intoPython, fromArguments, intoArguments⟩
def implFixed : Impl := ⟨Fixed.toPython, Fixed.toPython, Fixed.toPython, Fixed.intoArguments⟩

def handleRt (m : Impl) (a : Arguments) : String :=
  let back (p : PyArguments) : String := optStr showArguments (m.intoArgs p)
  s!"in={showArguments a} to={back (m.toPy a)} into={back (m.intoPy a)} from={back (m.fromArgs a)}"

def handleToPy (m : Impl) (a : Arguments) : String :=
  let (nd, wd) := splitKwonly a
  let split := showList (nd.map showParam) ++ "/" ++ showList (wd.map fun (p, d) => s!"{showParam p}={d}")
  s!"in={showArguments a} to={showPy (m.toPy a)} into={showPy (m.intoPy a)} from={showPy (m.fromArgs a)} split={split} defs={showList ((defaults a).map toString)}"

def handle (m : Impl) : List String → String
  | ["rt", mode, sig] =>
    if mode == "b" || mode == "p" then
      match parseSig sig with
      | some a => handleRt m a
      | none => "bad-request"
    else "bad-request"
  | ["topy", mode, sig] =>
    if mode == "b" || mode == "p" then
      match parseSig sig with
      | some a => handleToPy m a
      | none => "bad-request"
    else "bad-request"
  | ["intoargs", pysig] =>
    match parsePySig pysig with
    | some p => s!"in={showPy p} back={optStr showArguments (m.intoArgs p)}"
    | none => "bad-request"
  | _ => "bad-request"

def main : IO Unit := do
  let fixed := (← IO.getEnv "PV_C14_MODEL") == some "fixed"
  protoLoop (handle (if fixed then implFixed else implCurrent))
