import PV.Common.Proto
import PV.C11.Model
import PV.C11.Spec
/-! Driver for C11: answers the same request lines as `harness/src/bin/pvh_c11.rs`.

  `unparse <hex src>`:  source → `lex` → `parseExpression` (the reference parser) → tree → model
  unparser → text → `lex` → `parseExpression` → compare → model unparser again.
  Answer: `ok tree=<canonical tree> text=<hex> reparse=<0|1> equal=<0|1> fix=<0|1>` or `parse-error`.

  (The harness additionally answers `paren <hex with> <hex without>`, used only by `pre_build` of
  tools/props/c11.py to extract the real unparser's parenthesisation table into
  lean/PV/Gen/C11Tables.lean; the model side of that tie is the theorem `PV.C11.gen_parenTable_eq`.)
-/
open PV PV.Expr PV.C11

/-- `rustpython_literal::char::is_printable` on the non-ASCII characters the generators use
    (tools/props/c11.py keeps every other non-ASCII character out of the streams). -/
def printableTable : List Nat :=
  [0xE9, 0xDF, 0xF1, 0xFC, 0xA1, 0x3A9, 0x20AC, 0x65E5, 0x672C, 0x1F600, 0xFFFD]

def isPrintable (c : Nat) : Bool := printableTable.contains c

def hexU (cs : List Nat) : String := hex (utf8Encode cs)

def hex16 (n : Nat) : String :=
  String.ofList ((List.range 16).map fun i => hexDigit ((n / 16 ^ (15 - i)) % 16))

def optS {α} (f : α → String) : Option α → String
  | none => "~"
  | some a => f a

def boolOpName : BoolOp → String
  | .and => "And" | .or => "Or"

def binOpName : BinOp → String
  | .add => "Add" | .sub => "Sub" | .mult => "Mult" | .matMult => "MatMult" | .div => "Div"
  | .mod => "Mod" | .pow => "Pow" | .lShift => "LShift" | .rShift => "RShift" | .bitOr => "BitOr"
  | .bitXor => "BitXor" | .bitAnd => "BitAnd" | .floorDiv => "FloorDiv"

def unaryOpName : UnaryOp → String
  | .invert => "Invert" | .not => "Not" | .uAdd => "UAdd" | .uSub => "USub"

def cmpOpName : CmpOp → String
  | .eq => "Eq" | .notEq => "NotEq" | .lt => "Lt" | .ltE => "LtE" | .gt => "Gt" | .gtE => "GtE"
  | .is => "Is" | .isNot => "IsNot" | .in => "In" | .notIn => "NotIn"

def dumpConst : Const → String
  | .none => "(Const none)"
  | .bool true => "(Const true)"
  | .bool false => "(Const false)"
  | .ellipsis => "(Const ellipsis)"
  | .int n => s!"(Const int {n})"
  | .float b => s!"(Const float {hex16 b})"
  | .imag b => s!"(Const imag {hex16 b})"
  | .str s u => s!"(Const str {hexU s} {if u then "u" else "~"})"
  | .bytes b => s!"(Const bytes {hex b})"

mutual
partial def dump : Expr → String
  | .name id => s!"(Name {hexU id})"
  | .const c => dumpConst c
  | .boolOp o vs => s!"(BoolOp {boolOpName o}{dumpList vs})"
  | .namedExpr t v => s!"(NamedExpr {dump t} {dump v})"
  | .binOp l o r => s!"(BinOp {binOpName o} {dump l} {dump r})"
  | .unaryOp o e => s!"(UnaryOp {unaryOpName o} {dump e})"
  | .lambda po ar va ko kw b =>
    s!"(Lambda (posonly{dumpParams po}) (args{dumpParams ar}) (vararg {optS hexU va}) (kwonly{dumpParams ko}) (kwarg {optS hexU kw}) {dump b})"
  | .ifExp t b o => s!"(IfExp {dump t} {dump b} {dump o})"
  | .dict items =>
    "(Dict" ++ String.join (items.map fun | .mk k v => s!" ({optS dump k} {dump v})") ++ ")"
  | .set es => s!"(Set{dumpList es})"
  | .listComp e gs => s!"(ListComp {dump e}{dumpComps gs})"
  | .setComp e gs => s!"(SetComp {dump e}{dumpComps gs})"
  | .dictComp k v gs => s!"(DictComp {dump k} {dump v}{dumpComps gs})"
  | .genExp e gs => s!"(GeneratorExp {dump e}{dumpComps gs})"
  | .await e => s!"(Await {dump e})"
  | .yield e => s!"(Yield {optS dump e})"
  | .yieldFrom e => s!"(YieldFrom {dump e})"
  | .compare l ops cs =>
    "(Compare " ++ dump l ++
      String.join ((ops.zip cs).map fun (o, c) => s!" ({cmpOpName o} {dump c})") ++ ")"
  | .call f as ks =>
    s!"(Call {dump f} (args{dumpList as}) (kws" ++
      String.join (ks.map fun | .mk a v => s!" ({optS hexU a} {dump v})") ++ "))"
  | .formattedValue v c spec => s!"(FormattedValue {dump v} {c} {optS dump spec})"
  | .joinedStr vs => s!"(JoinedStr{dumpList vs})"
  | .attribute e a => s!"(Attribute {dump e} {hexU a})"
  | .subscript e s => s!"(Subscript {dump e} {dump s})"
  | .starred e => s!"(Starred {dump e})"
  | .list es => s!"(List{dumpList es})"
  | .tuple es => s!"(Tuple{dumpList es})"
  | .slice a b c => s!"(Slice {optS dump a} {optS dump b} {optS dump c})"
partial def dumpList (es : List Expr) : String := String.join (es.map fun e => " " ++ dump e)
partial def dumpParams (ps : List Param) : String :=
  String.join (ps.map fun | .mk n d => s!" (P {hexU n} {optS dump d})")
partial def dumpComps (gs : List Comp) : String :=
  String.join (gs.map fun | .mk t i ifs a => s!" (Comp {dump t} {dump i} {if a then 1 else 0}{dumpList ifs})")
end

def parseSrc (cs : List Nat) : Option Expr :=
  match lex cs with
  | some ts => parseExpression ts
  | none => none

def b01 (b : Bool) : String := if b then "1" else "0"

def handleUnparse (bs : List Nat) : String :=
  match utf8Decode bs with
  | none => "bad-request"
  | some cs =>
    match parseSrc cs with
    | none => "parse-error"
    | some e =>
      let tree := dump e
      let t1 := displayText isPrintable e
      match parseSrc t1 with
      | none => s!"ok tree={tree} text={hexU t1} reparse=0 equal=0 fix=0"
      | some e2 =>
        let t2 := displayText isPrintable e2
        s!"ok tree={tree} text={hexU t1} reparse=1 equal={b01 (dump e2 == tree)} fix={b01 (t2 == t1)}"

def handle : List String → String
  | ["unparse", t] => match unhex t with
    | some bs => handleUnparse bs
    | none => "bad-request"
  | _ => "bad-request"

def main : IO Unit := protoLoop handle
