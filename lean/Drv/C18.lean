import PV.Common.Proto
import PV.C18.Model
import PV.C18.Spec
import PV.C18.Thm
/-! Driver for C18: answers the same request lines as `harness/src/bin/pvh_c18.rs`.

    request : `fmt <hex spec> <kind i|f|s|b> <value> [<kind> <value>]...`
    answer  : `<spec> <result>...` | `perr`           (see the harness for the field syntax) -/
open PV PV.C18

def showConv : Option Conv → String
  | none => "-" | some .str => "s" | some .repr => "r" | some .ascii => "a" | some .bytes => "b"

def showAlign : Option Align → String
  | none => "-" | some .left => "L" | some .right => "R" | some .afterSign => "S" | some .center => "C"

def showSign : Option Sign → String
  | none => "-" | some .plus => "P" | some .minus => "M" | some .minusOrSpace => "B"

def showGrouping : Option Grouping → String
  | none => "-" | some .comma => "C" | some .underscore => "U"

def showType : Option FType → String
  | none => "-"
  | some .string => "s" | some .binary => "b" | some .character => "c" | some .decimal => "d"
  | some .octal => "o"
  | some (.number false) => "n" | some (.number true) => "N"
  | some (.hex false) => "x" | some (.hex true) => "X"
  | some (.exponent false) => "e" | some (.exponent true) => "E"
  | some (.general false) => "g" | some (.general true) => "G"
  | some (.fixed false) => "f" | some (.fixed true) => "F"
  | some .percentage => "%"

def showOptNat : Option Nat → String
  | none => "-" | some n => toString n

def showSpec (r : FormatSpec) : String :=
  s!"c={showConv r.conversion},f={showOptNat r.fill},a={showAlign r.align},s={showSign r.sign}," ++
  s!"alt={if r.alt then 1 else 0},w={showOptNat r.width},g={showGrouping r.grouping}," ++
  s!"p={showOptNat r.precision},t={showType r.ftype}"

def showRes : Res (List Nat) → String
  | .panic => "panic"
  | .err _ => "err"
  | .ok t => "ok:" ++ hex (utf8Encode t)

def hexNat? (s : String) : Option Nat :=
  s.toList.foldl (fun acc c => match acc, hexVal c with
    | some a, some d => some (16 * a + d)
    | _, _ => none) (some 0)

def parseVal (kind v : String) : Option Value :=
  match kind with
  | "i" => v.toInt?.map Value.int
  | "f" => if v.length = 16 then (hexNat? v).map Value.float else none
  | "s" => match unhex v with
    | some bs => (utf8Decode bs).map Value.str
    | none => none
  | "b" => if v == "0" then some (.bool false) else if v == "1" then some (.bool true) else none
  | _ => none

def parseVals : List String → Option (List Value)
  | [] => some []
  | [_] => none
  | k :: v :: rest =>
    match parseVal k v, parseVals rest with
    | some x, some xs => some (x :: xs)
    | _, _ => none

def handleFmt (spec : List Nat) (vals : List Value) : String :=
  match parseSpec spec with
  | .error _ => "perr"
  | .ok r => joinSep " " (showSpec r :: vals.map (fun v => showRes (formatValue r v)))

def toPyValue : Value → Spec.PyValue
  | .int n => .int n | .float b => .float b | .str s => .str s | .bool b => .bool b

/-- `pyfmt`: the reference `Spec.pyFormat` on the same request syntax (spec validation against
    CPython, see tools/props/c18.py) -/
def handlePyFmt (spec : List Nat) (vals : List Value) : String :=
  joinSep " " (vals.map fun v => match Spec.pyFormat spec (toPyValue v) with
    | none => "err"
    | some t => "ok:" ++ hex (utf8Encode t))

/-- `dom`: the decidable domain `InDomain` of the theorems in `PV/C18/Thm.lean`, per value -/
def handleDom (spec : List Nat) (vals : List Value) : String :=
  joinSep " " (vals.map fun v => if InDomain spec v then "1" else "0")

/-- `ffacts`: the digit-generation hypotheses `FloatDigitFacts` of `format_float_eq_partial`, per
    float value (`-` for the other kinds) -/
def handleFacts (spec : List Nat) (vals : List Value) : String :=
  joinSep " " (vals.map fun v => match v with
    | .float b => if FloatDigitFacts spec b then "1" else "0"
    | _ => "-")

def handle : List String → String
  | "ffacts" :: spec :: rest =>
    if rest.isEmpty then "bad-request" else
    match unhex spec, parseVals rest with
    | some bs, some vals =>
      match utf8Decode bs with
      | some cs => handleFacts cs vals
      | none => "bad-request"
    | _, _ => "bad-request"
  | "dom" :: spec :: rest =>
    if rest.isEmpty then "bad-request" else
    match unhex spec, parseVals rest with
    | some bs, some vals =>
      match utf8Decode bs with
      | some cs => handleDom cs vals
      | none => "bad-request"
    | _, _ => "bad-request"
  | "pyfmt" :: spec :: rest =>
    if rest.isEmpty then "bad-request" else
    match unhex spec, parseVals rest with
    | some bs, some vals =>
      match utf8Decode bs with
      | some cs => handlePyFmt cs vals
      | none => "bad-request"
    | _, _ => "bad-request"
  | "fmt" :: spec :: rest =>
    if rest.isEmpty then "bad-request" else
    match unhex spec, parseVals rest with
    | some bs, some vals =>
      match utf8Decode bs with
      | some cs => handleFmt cs vals
      | none => "bad-request"
    | _, _ => "bad-request"
  | _ => "bad-request"

def main : IO Unit := protoLoop handle
