import PV.Common.Proto
import PV.C02.Model
import Drv.SexpC
/-!
  Driver for C02: `rangesok <mode> <hex src> <hex canonical tree with ranges>` -> `ok` or `bad <violated checks>`
  computed by the Lean model `PV.C02.viol` (= [] iff `rangesOk`).  The harness answers `ok` when the tree in
  the request is what the real parser produces for the source (so a disagreement means: the real tree fails
  the structural property).
-/
open PV PV.C02 SexpC

def parseRange (s : String) : Option (Nat × Nat) :=
  if s.startsWith "@" then
    match (s.drop 1).toString.splitOn ".." with
    | [a, b] => match a.toNat?, b.toNat? with
      | some a, some b => some (a, b)
      | _, _ => none
    | _ => none
  else none

partial def toTree (slot : String) (inList : Bool) : Raw → Option Tree
  | .node k r fs =>
    match parseRange r with
    | none => none                      -- constants / wrappers without a range are not nodes of the property
    | some rg =>
      let cs := fs.toList.flatMap fun (f, v) =>
        match v with
        | .node .. => (toTree f false v).toList
        | .list xs => xs.toList.filterMap (toTree f true)
        | .atom _ => []
      some (.node k slot inList (some rg) cs)
  | _ => none

def insertSorted (x : String) : List String → List String
  | [] => [x]
  | y :: ys => if x == y then y :: ys else if x < y then x :: y :: ys else y :: insertSorted x ys

def handle : List String → String
  | ["rangesok", _mode, src, tree] =>
    match unhex src, (unhex tree).bind utf8Decode with
    | some bs, some cs =>
      match parseSexp (String.ofList (cs.map Char.ofNat)) with
      | some r =>
        match toTree "root" false r with
        | some t =>
          let v := (viol bs none "root" t).foldl (fun acc x => insertSorted x acc) []
          if v.isEmpty then "ok" else "bad " ++ joinSep "," v
        | none => "bad-tree"
      | none => "bad-sexp"
    | _, _ => "bad-request"
  | _ => "bad-request"

def main : IO Unit := protoLoop handle
