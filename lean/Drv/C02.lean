import PV.Common.Proto
import PV.C02.Model
import PV.C02.RParse
import PV.C02.RProg
import Drv.SexpC
import Drv.C02Prog
/-!
  Driver for C02: `rangesok <mode> <hex src> <hex canonical tree with ranges>` -> `ok` or `bad <violated checks>`
  computed by the Lean model `PV.C02.viol` (= [] iff `rangesOk`).  The harness answers `ok` when the tree in
  the request is what the real parser produces for the source (so a disagreement means: the real tree fails
  the structural property).
-/
open PV PV.C02 SexpC PV.Expr PV.C11 PV.Prog

def parseRange (s : String) : Option (Nat × Nat) :=
  if s.startsWith "@" then
    match (s.drop 1).toString.splitOn ".." with
    | [a, b] => match a.toNat?, b.toNat? with
      | some a, some b => some (a, b)
      | _, _ => none
    | _ => none
  else none

partial def toTree (slot : String) (inList : Bool) : Raw → Option Tree
  | .node k r fs =>
    match parseRange r with
    | none => none                      -- constants / wrappers without a range are not nodes of the property
    | some rg =>
      let cs := fs.toList.flatMap fun (f, v) =>
        match v with
        | .node .. => (toTree f false v).toList
        | .list xs => xs.toList.filterMap (toTree f true)
        | .atom _ => []
      some (.node k slot inList (some rg) cs)
  | _ => none

def insertSorted (x : String) : List String → List String
  | [] => [x]
  | y :: ys => if x == y then y :: ys else if x < y then x :: y :: ys else y :: insertSorted x ys

/-! ### `rexpr <hex src> <spans>`: the ranged canonical tree computed by the model `PV.C02.parseRExpression`
  from the tokens of the source (`PV.C11.lex`) and the REAL byte spans of the attachment. -/

def hexU (cs : List Nat) : String := hex (utf8Encode cs)

def hex16 (n : Nat) : String :=
  String.ofList ((List.range 16).map fun i => hexDigit ((n / 16 ^ (15 - i)) % 16))

def rgS (r : Rg) : String := s!"@{r.1}..{r.2}"

def boolOpName : BoolOp → String
  | .and => "And" | .or => "Or"

def binOpName : BinOp → String
  | .add => "Add" | .sub => "Sub" | .mult => "Mult" | .matMult => "MatMult" | .div => "Div"
  | .mod => "Mod" | .pow => "Pow" | .lShift => "LShift" | .rShift => "RShift" | .bitOr => "BitOr"
  | .bitXor => "BitXor" | .bitAnd => "BitAnd" | .floorDiv => "FloorDiv"

def unaryOpName : UnaryOp → String
  | .invert => "Invert" | .not => "Not" | .uAdd => "UAdd" | .uSub => "USub"

def cmpOpName : CmpOp → String
  | .eq => "Eq" | .notEq => "NotEq" | .lt => "Lt" | .ltE => "LtE" | .gt => "Gt" | .gtE => "GtE"
  | .is => "Is" | .isNot => "IsNot" | .in => "In" | .notIn => "NotIn"

def constS : Const → String
  | .none => "(value None) (kind None)"
  | .bool true => "(value (Bool true)) (kind None)"
  | .bool false => "(value (Bool false)) (kind None)"
  | .ellipsis => "(value Ellipsis) (kind None)"
  | .int n => s!"(value (Int i:{n})) (kind None)"
  | .float b => s!"(value (Float f:{hex16 b})) (kind None)"
  | .imag b => s!"(value (Complex (real f:0000000000000000) (imag f:{hex16 b}))) (kind None)"
  | .str s u => s!"(value (Str s:{hexU s})) (kind {if u then "s:75" else "None"})"
  | .bytes b => s!"(value (Bytes b:{hex b})) (kind None)"

def listS (xs : List String) : String := "[" ++ joinSep " " xs ++ "]"

def argS (a : Rg × Ident) : String := s!"(Arg {rgS a.1} (arg s:{hexU a.2}) (annotation None) (type_comment None))"

mutual
partial def dumpR : RExpr → String
  | .name rg id => s!"(ExprName {rgS rg} (id s:{hexU id}))"
  | .const rg c => s!"(ExprConstant {rgS rg} {constS c})"
  | .boolOp rg o vs => s!"(ExprBoolOp {rgS rg} (op {boolOpName o}) (values {listS (vs.map dumpR)}))"
  | .namedExpr rg t v => s!"(ExprNamedExpr {rgS rg} (target {dumpR t}) (value {dumpR v}))"
  | .binOp rg l o r => s!"(ExprBinOp {rgS rg} (left {dumpR l}) (op {binOpName o}) (right {dumpR r}))"
  | .unaryOp rg o e => s!"(ExprUnaryOp {rgS rg} (op {unaryOpName o}) (operand {dumpR e}))"
  | .lambda rg arg po ar va ko kw b =>
    s!"(ExprLambda {rgS rg} (args (Arguments {rgS arg} (posonlyargs {listS (po.map dumpParam)}) (args {listS (ar.map dumpParam)}) (vararg {optS argS va}) (kwonlyargs {listS (ko.map dumpParam)}) (kwarg {optS argS kw}))) (body {dumpR b}))"
  | .ifExp rg t b o => s!"(ExprIfExp {rgS rg} (test {dumpR t}) (body {dumpR b}) (orelse {dumpR o}))"
  | .dict rg items =>
    s!"(ExprDict {rgS rg} (keys {listS (items.map fun | .mk k _ => optS dumpR k)}) (values {listS (items.map fun | .mk _ v => dumpR v)}))"
  | .set rg es => s!"(ExprSet {rgS rg} (elts {listS (es.map dumpR)}))"
  | .listComp rg e gs => s!"(ExprListComp {rgS rg} (elt {dumpR e}) (generators {listS (gs.map dumpComp)}))"
  | .setComp rg e gs => s!"(ExprSetComp {rgS rg} (elt {dumpR e}) (generators {listS (gs.map dumpComp)}))"
  | .dictComp rg k v gs =>
    s!"(ExprDictComp {rgS rg} (key {dumpR k}) (value {dumpR v}) (generators {listS (gs.map dumpComp)}))"
  | .genExp rg e gs => s!"(ExprGeneratorExp {rgS rg} (elt {dumpR e}) (generators {listS (gs.map dumpComp)}))"
  | .await rg e => s!"(ExprAwait {rgS rg} (value {dumpR e}))"
  | .yield rg e => s!"(ExprYield {rgS rg} (value {optS dumpR e}))"
  | .yieldFrom rg e => s!"(ExprYieldFrom {rgS rg} (value {dumpR e}))"
  | .compare rg l ops cs =>
    s!"(ExprCompare {rgS rg} (left {dumpR l}) (ops {listS (ops.map cmpOpName)}) (comparators {listS (cs.map dumpR)}))"
  | .call rg f as ks =>
    s!"(ExprCall {rgS rg} (func {dumpR f}) (args {listS (as.map dumpR)}) (keywords {listS (ks.map dumpKw)}))"
  | .formattedValue rg v c spec =>
    s!"(ExprFormattedValue {rgS rg} (value {dumpR v}) (conversion i:{if c = 0 then "-1" else toString c}) (format_spec {optS dumpR spec}))"
  | .joinedStr rg vs => s!"(ExprJoinedStr {rgS rg} (values {listS (vs.map dumpR)}))"
  | .attribute rg e a => s!"(ExprAttribute {rgS rg} (value {dumpR e}) (attr s:{hexU a}))"
  | .subscript rg e sl => s!"(ExprSubscript {rgS rg} (value {dumpR e}) (slice {dumpR sl}))"
  | .starred rg e => s!"(ExprStarred {rgS rg} (value {dumpR e}))"
  | .list rg es => s!"(ExprList {rgS rg} (elts {listS (es.map dumpR)}))"
  | .tuple rg es => s!"(ExprTuple {rgS rg} (elts {listS (es.map dumpR)}))"
  | .slice rg a b c => s!"(ExprSlice {rgS rg} (lower {optS dumpR a}) (upper {optS dumpR b}) (step {optS dumpR c}))"
partial def optS {α} (f : α → String) : Option α → String
  | none => "None"
  | some a => f a
partial def dumpParam : RParam → String
  | .mk rg drg n d =>
    s!"(ArgWithDefault {rgS rg} (def (Arg {rgS drg} (arg s:{hexU n}) (annotation None) (type_comment None))) (default {optS dumpR d}))"
partial def dumpComp : RComp → String
  | .mk rg t i ifs a =>
    s!"(Comprehension {rgS rg} (target {dumpR t}) (iter {dumpR i}) (ifs {listS (ifs.map dumpR)}) (is_async {if a then "true" else "false"}))"
partial def dumpKw : RKeyword → String
  | .mk rg a v => s!"(Keyword {rgS rg} (arg {match a with | some n => "s:" ++ hexU n | none => "None"}) (value {dumpR v}))"
end

partial def treeEq : Tree → Tree → Bool
  | .node k s l r cs, .node k' s' l' r' cs' =>
    k == k' && s == s' && l == l' && r == r' && cs.length == cs'.length &&
      (cs.zip cs').all fun (a, b) => treeEq a b

def parseSpans (s : String) : Option (List Rg) :=
  if s == "-" then some [] else
  (s.splitOn ",").mapM fun w =>
    match w.splitOn "-" with
    | [a, b] => match a.toNat?, b.toNat? with
      | some a, some b => some (a, b)
      | _, _ => none
    | _ => none

/-- the answer for a ranged tree: its canonical text, after checking that the generic tree the theorems talk
    about (`RExpr.toTree`) is the one the canonical text denotes -/
def answerTree (e : RExpr) : String :=
  let text := dumpR e
  match parseSexp text with
  | some raw =>
    match toTree "root" false raw with
    | some t => if treeEq t (e.toTree "root" false) then text else "toTree-mismatch " ++ text
    | none => "toTree-unreadable " ++ text
  | none => "sexp-unreadable " ++ text

def handleRExpr (src att : String) : String :=
  match (unhex src).bind utf8Decode, parseSpans att with
  | some cs, some spans =>
    match lex cs with
    | none => "lex-none"
    | some tks =>
      if tks.length != spans.length then s!"lex-count-mismatch {tks.length} {spans.length}"
      else if lexSpans 0 cs != spans then "lex-span-mismatch"
      else
        let toks : List RTok := (tks.zip spans).map fun (t, (a, b)) => ⟨t, a, b⟩
        match parseRExpression toks with
        | none => "parse-none"
        | some e => answerTree e
  | _, _ => "bad-request"


/-! ### `rprog <mode> <hex src> <tokens> <spans>`: the ranged canonical tree of a whole PROGRAM computed by the model
  `PV.C02.parseRProgram` (lean/PV/C02/RProg.lean, ranged twin of `PV.Prog.parseProgram`) from the REAL token stream
  (after the soft-keyword pass, `pvh_c01 rtoks`) and the real byte spans of those tokens. -/

def identS (n : Ident) : String := "s:" ++ hexU n
def optIdentS : Option Ident → String
  | none => "None"
  | some n => identS n

def dumpArg (a : RArg) : String :=
  s!"(Arg {rgS a.rg} (arg {identS a.name}) (annotation {optS dumpR a.annotation}) (type_comment None))"

def dumpArgD (p : RArgD) : String :=
  s!"(ArgWithDefault {rgS p.rg} (def {dumpArg p.arg}) (default {optS dumpR p.default}))"

def dumpArguments (a : RArguments) : String :=
  s!"(Arguments {rgS a.rg} (posonlyargs {listS (a.posonly.map dumpArgD)}) (args {listS (a.args.map dumpArgD)}) (vararg {optS dumpArg a.vararg}) (kwonlyargs {listS (a.kwonly.map dumpArgD)}) (kwarg {optS dumpArg a.kwarg}))"

def dumpTypeParam : RTypeParam → String
  | .typeVar rg n b => s!"(TypeParamTypeVar {rgS rg} (name {identS n}) (bound {optS dumpR b}))"
  | .paramSpec rg n => s!"(TypeParamParamSpec {rgS rg} (name {identS n}))"
  | .typeVarTuple rg n => s!"(TypeParamTypeVarTuple {rgS rg} (name {identS n}))"

def dumpAlias (a : RAlias) : String := s!"(Alias {rgS a.rg} (name {identS a.name}) (asname {optIdentS a.asname}))"

def dumpWithItem (w : RWithItem) : String :=
  s!"(WithItem {rgS w.rg} (context_expr {dumpR w.contextExpr}) (optional_vars {optS dumpR w.optionalVars}))"

def singletonS : Const → String
  | .none => "None"
  | .bool true => "(Bool true)"
  | .bool false => "(Bool false)"
  | _ => "?"

partial def dumpPat : RPattern → String
  | .matchValue rg v => s!"(PatternMatchValue {rgS rg} (value {dumpR v}))"
  | .matchSingleton rg c => s!"(PatternMatchSingleton {rgS rg} (value {singletonS c}))"
  | .matchSequence rg ps => s!"(PatternMatchSequence {rgS rg} (patterns {listS (ps.map dumpPat)}))"
  | .matchMapping rg ks ps r =>
    s!"(PatternMatchMapping {rgS rg} (keys {listS (ks.map dumpR)}) (patterns {listS (ps.map dumpPat)}) (rest {optIdentS r}))"
  | .matchClass rg c ps ka kp =>
    s!"(PatternMatchClass {rgS rg} (cls {dumpR c}) (patterns {listS (ps.map dumpPat)}) (kwd_attrs {listS (ka.map identS)}) (kwd_patterns {listS (kp.map dumpPat)}))"
  | .matchStar rg n => s!"(PatternMatchStar {rgS rg} (name {optIdentS n}))"
  | .matchAs rg p n => s!"(PatternMatchAs {rgS rg} (pattern {optS dumpPat p}) (name {optIdentS n}))"
  | .matchOr rg ps => s!"(PatternMatchOr {rgS rg} (patterns {listS (ps.map dumpPat)}))"

def boolS (b : Bool) : String := if b then "true" else "false"

mutual
partial def dumpStmtR : RStmt → String
  | .functionDef rg n a b d r tp => dumpDefR "StmtFunctionDef" rg n a b d r tp
  | .asyncFunctionDef rg n a b d r tp => dumpDefR "StmtAsyncFunctionDef" rg n a b d r tp
  | .classDef rg n bs ks b d tp =>
    s!"(StmtClassDef {rgS rg} (name {identS n}) (bases {listS (bs.map dumpR)}) (keywords {listS (ks.map dumpKw)}) (body {dumpBodyR b}) (decorator_list {listS (d.map dumpR)}) (type_params {listS (tp.map dumpTypeParam)}))"
  | .return rg v => s!"(StmtReturn {rgS rg} (value {optS dumpR v}))"
  | .delete rg ts => s!"(StmtDelete {rgS rg} (targets {listS (ts.map dumpR)}))"
  | .assign rg ts v => s!"(StmtAssign {rgS rg} (targets {listS (ts.map dumpR)}) (value {dumpR v}) (type_comment None))"
  | .typeAlias rg n tp v =>
    s!"(StmtTypeAlias {rgS rg} (name {dumpR n}) (type_params {listS (tp.map dumpTypeParam)}) (value {dumpR v}))"
  | .augAssign rg t o v => s!"(StmtAugAssign {rgS rg} (target {dumpR t}) (op {binOpName o}) (value {dumpR v}))"
  | .annAssign rg t a v s =>
    s!"(StmtAnnAssign {rgS rg} (target {dumpR t}) (annotation {dumpR a}) (value {optS dumpR v}) (simple {boolS s}))"
  | .for rg t i b o => dumpForR "StmtFor" rg t i b o
  | .asyncFor rg t i b o => dumpForR "StmtAsyncFor" rg t i b o
  | .while rg t b o => s!"(StmtWhile {rgS rg} (test {dumpR t}) (body {dumpBodyR b}) (orelse {dumpBodyR o}))"
  | .if rg t b o => s!"(StmtIf {rgS rg} (test {dumpR t}) (body {dumpBodyR b}) (orelse {dumpBodyR o}))"
  | .with rg items b =>
    s!"(StmtWith {rgS rg} (items {listS (items.map dumpWithItem)}) (body {dumpBodyR b}) (type_comment None))"
  | .asyncWith rg items b =>
    s!"(StmtAsyncWith {rgS rg} (items {listS (items.map dumpWithItem)}) (body {dumpBodyR b}) (type_comment None))"
  | .match rg s cs =>
    s!"(StmtMatch {rgS rg} (subject {dumpR s}) (cases {listS (cs.map fun
      | .mk crg p g b => s!"(MatchCase {rgS crg} (pattern {dumpPat p}) (guard {optS dumpR g}) (body {dumpBodyR b}))")}))"
  | .raise rg e c => s!"(StmtRaise {rgS rg} (exc {optS dumpR e}) (cause {optS dumpR c}))"
  | .try rg b hs o f => dumpTryR "StmtTry" rg b hs o f
  | .tryStar rg b hs o f => dumpTryR "StmtTryStar" rg b hs o f
  | .assert rg t m => s!"(StmtAssert {rgS rg} (test {dumpR t}) (msg {optS dumpR m}))"
  | .import rg ns => s!"(StmtImport {rgS rg} (names {listS (ns.map dumpAlias)}))"
  | .importFrom rg m ns l =>
    s!"(StmtImportFrom {rgS rg} (module {optIdentS m}) (names {listS (ns.map dumpAlias)}) (level {match l with | some k => s!"(Int i:{k})" | none => "None"}))"
  | .global rg ns => s!"(StmtGlobal {rgS rg} (names {listS (ns.map identS)}))"
  | .nonlocal rg ns => s!"(StmtNonlocal {rgS rg} (names {listS (ns.map identS)}))"
  | .expr rg e => s!"(StmtExpr {rgS rg} (value {dumpR e}))"
  | .pass rg => s!"(StmtPass {rgS rg})"
  | .break rg => s!"(StmtBreak {rgS rg})"
  | .continue rg => s!"(StmtContinue {rgS rg})"
partial def dumpBodyR (ss : List RStmt) : String := listS (ss.map dumpStmtR)
partial def dumpDefR (tag : String) (rg : Rg) (n : Ident) (a : RArguments) (b : List RStmt) (d : List RExpr)
    (r : Option RExpr) (tp : List RTypeParam) : String :=
  s!"({tag} {rgS rg} (name {identS n}) (args {dumpArguments a}) (body {dumpBodyR b}) (decorator_list {listS (d.map dumpR)}) (returns {optS dumpR r}) (type_comment None) (type_params {listS (tp.map dumpTypeParam)}))"
partial def dumpForR (tag : String) (rg : Rg) (t i : RExpr) (b o : List RStmt) : String :=
  s!"({tag} {rgS rg} (target {dumpR t}) (iter {dumpR i}) (body {dumpBodyR b}) (orelse {dumpBodyR o}) (type_comment None))"
partial def dumpTryR (tag : String) (rg : Rg) (b : List RStmt) (hs : List RHandler) (o f : List RStmt) : String :=
  s!"({tag} {rgS rg} (body {dumpBodyR b}) (handlers {listS (hs.map fun
    | .mk hrg ty nm hb => s!"(ExceptHandlerExceptHandler {rgS hrg} (type_ {optS dumpR ty}) (name {optIdentS nm}) (body {dumpBodyR hb}))")}) (orelse {dumpBodyR o}) (finalbody {dumpBodyR f}))"
end

def dumpRMod : RMod → String
  | .module rg b => s!"(ModModule {rgS rg} (body {dumpBodyR b}) (type_ignores []))"
  | .interactive rg b => s!"(ModInteractive {rgS rg} (body {dumpBodyR b}))"
  | .expression rg e => s!"(ModExpression {rgS rg} (body {dumpR e}))"

/-- the answer for a ranged program tree: its canonical text, after checking that the generic tree the theorems talk
    about (`RMod.tree`) is the one the canonical text denotes -/
def answerMod (m : RMod) : String :=
  let text := dumpRMod m
  match parseSexp text with
  | some raw =>
    match toTree "root" false raw with
    | some t => if treeEq t m.tree then text else "toTree-mismatch " ++ text
    | none => "toTree-unreadable " ++ text
  | none => "sexp-unreadable " ++ text

def handleRProg (mode toks att : String) : String :=
  match C02Prog.modeOfStr mode, C02Prog.decodeToks toks, parseSpans att with
  | some md, some tks, some spans =>
    if tks.length != spans.length then s!"tok-count-mismatch {tks.length} {spans.length}"
    else
      let rtoks : List RPTok := (tks.zip spans).map fun (t, (a, b)) => ⟨t, a, b⟩
      match parseRProgramA md rtoks with
      | none => "parse-none"
      | some m => answerMod m
  | _, none, _ => "parse-none"
  | _, _, _ => "bad-request"

def handle : List String → String
  | ["rangesok", _mode, src, tree] =>
    match unhex src, (unhex tree).bind utf8Decode with
    | some bs, some cs =>
      match parseSexp (String.ofList (cs.map Char.ofNat)) with
      | some r =>
        match toTree "root" false r with
        | some t =>
          let v := (viol bs none "root" t).foldl (fun acc x => insertSorted x acc) []
          if v.isEmpty then "ok" else "bad " ++ joinSep "," v
        | none => "bad-tree"
      | none => "bad-sexp"
    | _, _ => "bad-request"
  | ["rexpr", src, att] => handleRExpr src att
  | ["rprog", mode, _src, toks, att] => handleRProg mode toks att
  | _ => "bad-request"

def main : IO Unit := protoLoop handle
