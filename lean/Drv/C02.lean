import PV.Common.Proto
import PV.C02.Model
import PV.C02.RParse
import Drv.SexpC
/-!
  Driver for C02: `rangesok <mode> <hex src> <hex canonical tree with ranges>` -> `ok` or `bad <violated checks>`
  computed by the Lean model `PV.C02.viol` (= [] iff `rangesOk`).  The harness answers `ok` when the tree in
  the request is what the real parser produces for the source (so a disagreement means: the real tree fails
  the structural property).
-/
open PV PV.C02 SexpC PV.Expr PV.C11

def parseRange (s : String) : Option (Nat × Nat) :=
  if s.startsWith "@" then
    match (s.drop 1).toString.splitOn ".." with
    | [a, b] => match a.toNat?, b.toNat? with
      | some a, some b => some (a, b)
      | _, _ => none
    | _ => none
  else none

partial def toTree (slot : String) (inList : Bool) : Raw → Option Tree
  | .node k r fs =>
    match parseRange r with
    | none => none                      -- constants / wrappers without a range are not nodes of the property
    | some rg =>
      let cs := fs.toList.flatMap fun (f, v) =>
        match v with
        | .node .. => (toTree f false v).toList
        | .list xs => xs.toList.filterMap (toTree f true)
        | .atom _ => []
      some (.node k slot inList (some rg) cs)
  | _ => none

def insertSorted (x : String) : List String → List String
  | [] => [x]
  | y :: ys => if x == y then y :: ys else if x < y then x :: y :: ys else y :: insertSorted x ys

/-! ### `rexpr <hex src> <spans>`: the ranged canonical tree computed by the model `PV.C02.parseRExpression`
  from the tokens of the source (`PV.C11.lex`) and the REAL byte spans of the attachment. -/

def hexU (cs : List Nat) : String := hex (utf8Encode cs)

def hex16 (n : Nat) : String :=
  String.ofList ((List.range 16).map fun i => hexDigit ((n / 16 ^ (15 - i)) % 16))

def rgS (r : Rg) : String := s!"@{r.1}..{r.2}"

def boolOpName : BoolOp → String
  | .and => "And" | .or => "Or"

def binOpName : BinOp → String
  | .add => "Add" | .sub => "Sub" | .mult => "Mult" | .matMult => "MatMult" | .div => "Div"
  | .mod => "Mod" | .pow => "Pow" | .lShift => "LShift" | .rShift => "RShift" | .bitOr => "BitOr"
  | .bitXor => "BitXor" | .bitAnd => "BitAnd" | .floorDiv => "FloorDiv"

def unaryOpName : UnaryOp → String
  | .invert => "Invert" | .not => "Not" | .uAdd => "UAdd" | .uSub => "USub"

def cmpOpName : CmpOp → String
  | .eq => "Eq" | .notEq => "NotEq" | .lt => "Lt" | .ltE => "LtE" | .gt => "Gt" | .gtE => "GtE"
  | .is => "Is" | .isNot => "IsNot" | .in => "In" | .notIn => "NotIn"

def constS : Const → String
  | .none => "(value None) (kind None)"
  | .bool true => "(value (Bool true)) (kind None)"
  | .bool false => "(value (Bool false)) (kind None)"
  | .ellipsis => "(value Ellipsis) (kind None)"
  | .int n => s!"(value (Int i:{n})) (kind None)"
  | .float b => s!"(value (Float f:{hex16 b})) (kind None)"
  | .imag b => s!"(value (Complex (real f:0000000000000000) (imag f:{hex16 b}))) (kind None)"
  | .str s u => s!"(value (Str s:{hexU s})) (kind {if u then "s:75" else "None"})"
  | .bytes b => s!"(value (Bytes b:{hex b})) (kind None)"

def listS (xs : List String) : String := "[" ++ joinSep " " xs ++ "]"

def argS (a : Rg × Ident) : String := s!"(Arg {rgS a.1} (arg s:{hexU a.2}) (annotation None) (type_comment None))"

mutual
partial def dumpR : RExpr → String
  | .name rg id => s!"(ExprName {rgS rg} (id s:{hexU id}))"
  | .const rg c => s!"(ExprConstant {rgS rg} {constS c})"
  | .boolOp rg o vs => s!"(ExprBoolOp {rgS rg} (op {boolOpName o}) (values {listS (vs.map dumpR)}))"
  | .namedExpr rg t v => s!"(ExprNamedExpr {rgS rg} (target {dumpR t}) (value {dumpR v}))"
  | .binOp rg l o r => s!"(ExprBinOp {rgS rg} (left {dumpR l}) (op {binOpName o}) (right {dumpR r}))"
  | .unaryOp rg o e => s!"(ExprUnaryOp {rgS rg} (op {unaryOpName o}) (operand {dumpR e}))"
  | .lambda rg arg po ar va ko kw b =>
    s!"(ExprLambda {rgS rg} (args (Arguments {rgS arg} (posonlyargs {listS (po.map dumpParam)}) (args {listS (ar.map dumpParam)}) (vararg {optS argS va}) (kwonlyargs {listS (ko.map dumpParam)}) (kwarg {optS argS kw}))) (body {dumpR b}))"
  | .ifExp rg t b o => s!"(ExprIfExp {rgS rg} (test {dumpR t}) (body {dumpR b}) (orelse {dumpR o}))"
  | .dict rg items =>
    s!"(ExprDict {rgS rg} (keys {listS (items.map fun | .mk k _ => optS dumpR k)}) (values {listS (items.map fun | .mk _ v => dumpR v)}))"
  | .set rg es => s!"(ExprSet {rgS rg} (elts {listS (es.map dumpR)}))"
  | .listComp rg e gs => s!"(ExprListComp {rgS rg} (elt {dumpR e}) (generators {listS (gs.map dumpComp)}))"
  | .setComp rg e gs => s!"(ExprSetComp {rgS rg} (elt {dumpR e}) (generators {listS (gs.map dumpComp)}))"
  | .dictComp rg k v gs =>
    s!"(ExprDictComp {rgS rg} (key {dumpR k}) (value {dumpR v}) (generators {listS (gs.map dumpComp)}))"
  | .genExp rg e gs => s!"(ExprGeneratorExp {rgS rg} (elt {dumpR e}) (generators {listS (gs.map dumpComp)}))"
  | .await rg e => s!"(ExprAwait {rgS rg} (value {dumpR e}))"
  | .yield rg e => s!"(ExprYield {rgS rg} (value {optS dumpR e}))"
  | .yieldFrom rg e => s!"(ExprYieldFrom {rgS rg} (value {dumpR e}))"
  | .compare rg l ops cs =>
    s!"(ExprCompare {rgS rg} (left {dumpR l}) (ops {listS (ops.map cmpOpName)}) (comparators {listS (cs.map dumpR)}))"
  | .call rg f as ks =>
    s!"(ExprCall {rgS rg} (func {dumpR f}) (args {listS (as.map dumpR)}) (keywords {listS (ks.map dumpKw)}))"
  | .formattedValue rg v c spec =>
    s!"(ExprFormattedValue {rgS rg} (value {dumpR v}) (conversion i:{if c = 0 then "-1" else toString c}) (format_spec {optS dumpR spec}))"
  | .joinedStr rg vs => s!"(ExprJoinedStr {rgS rg} (values {listS (vs.map dumpR)}))"
  | .attribute rg e a => s!"(ExprAttribute {rgS rg} (value {dumpR e}) (attr s:{hexU a}))"
  | .subscript rg e sl => s!"(ExprSubscript {rgS rg} (value {dumpR e}) (slice {dumpR sl}))"
  | .starred rg e => s!"(ExprStarred {rgS rg} (value {dumpR e}))"
  | .list rg es => s!"(ExprList {rgS rg} (elts {listS (es.map dumpR)}))"
  | .tuple rg es => s!"(ExprTuple {rgS rg} (elts {listS (es.map dumpR)}))"
  | .slice rg a b c => s!"(ExprSlice {rgS rg} (lower {optS dumpR a}) (upper {optS dumpR b}) (step {optS dumpR c}))"
partial def optS {α} (f : α → String) : Option α → String
  | none => "None"
  | some a => f a
partial def dumpParam : RParam → String
  | .mk rg drg n d =>
    s!"(ArgWithDefault {rgS rg} (def (Arg {rgS drg} (arg s:{hexU n}) (annotation None) (type_comment None))) (default {optS dumpR d}))"
partial def dumpComp : RComp → String
  | .mk rg t i ifs a =>
    s!"(Comprehension {rgS rg} (target {dumpR t}) (iter {dumpR i}) (ifs {listS (ifs.map dumpR)}) (is_async {if a then "true" else "false"}))"
partial def dumpKw : RKeyword → String
  | .mk rg a v => s!"(Keyword {rgS rg} (arg {match a with | some n => "s:" ++ hexU n | none => "None"}) (value {dumpR v}))"
end

partial def treeEq : Tree → Tree → Bool
  | .node k s l r cs, .node k' s' l' r' cs' =>
    k == k' && s == s' && l == l' && r == r' && cs.length == cs'.length &&
      (cs.zip cs').all fun (a, b) => treeEq a b

def parseSpans (s : String) : Option (List Rg) :=
  if s == "-" then some [] else
  (s.splitOn ",").mapM fun w =>
    match w.splitOn "-" with
    | [a, b] => match a.toNat?, b.toNat? with
      | some a, some b => some (a, b)
      | _, _ => none
    | _ => none

/-- the answer for a ranged tree: its canonical text, after checking that the generic tree the theorems talk
    about (`RExpr.toTree`) is the one the canonical text denotes -/
def answerTree (e : RExpr) : String :=
  let text := dumpR e
  match parseSexp text with
  | some raw =>
    match toTree "root" false raw with
    | some t => if treeEq t (e.toTree "root" false) then text else "toTree-mismatch " ++ text
    | none => "toTree-unreadable " ++ text
  | none => "sexp-unreadable " ++ text

def handleRExpr (src att : String) : String :=
  match (unhex src).bind utf8Decode, parseSpans att with
  | some cs, some spans =>
    match lex cs with
    | none => "lex-none"
    | some tks =>
      if tks.length != spans.length then s!"lex-count-mismatch {tks.length} {spans.length}"
      else if lexSpans 0 cs != spans then "lex-span-mismatch"
      else
        let toks : List RTok := (tks.zip spans).map fun (t, (a, b)) => ⟨t, a, b⟩
        match parseRExpression toks with
        | none => "parse-none"
        | some e => answerTree e
  | _, _ => "bad-request"

def handle : List String → String
  | ["rangesok", _mode, src, tree] =>
    match unhex src, (unhex tree).bind utf8Decode with
    | some bs, some cs =>
      match parseSexp (String.ofList (cs.map Char.ofNat)) with
      | some r =>
        match toTree "root" false r with
        | some t =>
          let v := (viol bs none "root" t).foldl (fun acc x => insertSorted x acc) []
          if v.isEmpty then "ok" else "bad " ++ joinSep "," v
        | none => "bad-tree"
      | none => "bad-sexp"
    | _, _ => "bad-request"
  | ["rexpr", src, att] => handleRExpr src att
  | _ => "bad-request"

def main : IO Unit := protoLoop handle
