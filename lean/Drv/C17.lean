import PV.Common.Proto
import PV.C17.Dec
import PV.C17.Model
import PV.C17.Spec
/-! Driver for C17: answers the same request lines as `harness/src/bin/pvh_c17.rs`, plus the
    `py*` ops that run the Spec definitions (validated against CPython by tools/props/c17.py). -/
open PV PV.Dec PV.C17

def showExp (p : List Nat × Int) : String := s!"{str p.1}e{p.2}"

def txt (l : List Nat) : String := "=" ++ str l

/-- a float result: bit pattern, every NaN as `nan` -/
def showF : Option Nat → String
  | none => "none"
  | some b => if isNan b then "nan" else toString b

def flag (s : String) : Bool := s == "1"

def handle : List String → String
  | ["rfix", b, p] => match b.toNat?, p.toNat? with
    | some b, some p => toFixed b p
    | _, _ => "bad-request"
  | ["rexp", b, p] => match b.toNat?, p.toNat? with
    | some b, some p => showExp (toExpL b p)
    | _, _ => "bad-request"
  | ["rsci", b] => match b.toNat? with
    | some b => showExp (shortestExpL b)
    | _ => "bad-request"
  | ["rdisp", b] => match b.toNat? with
    | some b => str (shortestFixedL b)
    | _ => "bad-request"
  | ["rdec", neg, ds, e] => match e.toInt? with
    | some e => toString (ofDecimal (neg == "1") (ds.toList.map (fun c => c.toNat - 48)) e)
    | _ => "bad-request"
  | ["ftoa", b] => match b.toNat? with
    | some b => txt (C17.toString b)
    | _ => "bad-request"
  | ["ftoart", b] => match b.toNat? with
    | some b => showF (match utf8Decode (C17.toString b) with
      | some cs => parseStr cs
      | none => none)
    | _ => "bad-request"
  | ["fhexrt", b] => match b.toNat? with
    | some b => showF (fromHex (toHex b))
    | _ => "bad-request"
  | ["ffmts", kind, b, case, alt, asf, lo, hi] => match b.toNat?, lo.toNat?, hi.toNat? with
    | some b, some lo, some hi =>
      let upper := case == "u"
      let one (p : Nat) : String :=
        if kind == "f" then txt (formatFixed p b upper (flag alt))
        else if kind == "e" then txt (formatExponent p b upper (flag alt))
        else txt (formatGeneral p b upper (flag alt) (flag asf))
      if kind == "f" || kind == "e" || kind == "g" then
        joinSep ";" ((List.range (hi + 1 - lo)).map (fun i => one (lo + i)))
      else "bad-request"
    | _, _, _ => "bad-request"
  | ["isint", b] => match b.toNat? with
    | some b => toString (isInteger b)
    | _ => "bad-request"
  | ["atof", t] => match unhex t with
    | some bs => match utf8Decode bs with
      | some cs => showF (parseStr cs)
      | none => "bad-request"
    | none => "bad-request"
  | ["atofb", t] => match unhex t with
    | some bs => showF (parseBytes bs)
    | none => "bad-request"
  | ["fhex", b] => match b.toNat? with
    | some b => txt (toHex b)
    | _ => "bad-request"
  | ["fromhex", t] => match unhex t with
    | some bs => showF (fromHex bs)
    | none => "bad-request"
  | ["ffmt", kind, b, p, case, alt, asf] => match b.toNat?, p.toNat? with
    | some b, some p =>
      let upper := case == "u"
      if kind == "f" then txt (formatFixed p b upper (flag alt))
      else if kind == "e" then txt (formatExponent p b upper (flag alt))
      else if kind == "g" then txt (formatGeneral p b upper (flag alt) (flag asf))
      else "bad-request"
    | _, _ => "bad-request"
  | ["decfacts", b] => match b.toNat? with
    | some b => if decide (DecFacts b) then "ok" else "fail"
    | _ => "bad-request"
  | ["hexfacts", b] => match b.toNat? with
    | some b => if decide (HexFacts b) then "ok" else "fail"
    | _ => "bad-request"
  -- reference definitions (Spec), validated against CPython
  | ["pyrepr", b] => match b.toNat? with
    | some b => txt (Spec.pyRepr b)
    | _ => "bad-request"
  | ["pyfloat", t] => match unhex t with
    | some bs => showF (Spec.pyFloat bs)
    | none => "bad-request"
  | ["pyhex", b] => match b.toNat? with
    | some b => txt (Spec.pyHex b)
    | _ => "bad-request"
  | ["pyfmt", kind, b, p, case, alt] => match b.toNat?, p.toNat? with
    | some b, some p =>
      let upper := case == "u"
      if kind == "f" then txt (Spec.cPrintfF p b upper (flag alt))
      else if kind == "e" then txt (Spec.cPrintfE p b upper (flag alt))
      else if kind == "g" then txt (Spec.cPrintfG p b upper (flag alt))
      else "bad-request"
    | _, _ => "bad-request"
  | _ => "bad-request"

def main : IO Unit := protoLoop handle
