import PV.Common.Proto
import PV.C06.Model
import PV.C07.Model
import PV.C07.Spec
/-! Driver for C07: answers the same request lines as `harness/src/bin/pvh_c07.rs` with the model. -/
open PV PV.C06 PV.C07

def showCps (cs : List Nat) : String :=
  if cs.isEmpty then "-" else joinSep "," (cs.map toString)

def ferrName : FErr → String
  | .unclosedLbrace => "UnclosedLbrace"
  | .unopenedRbrace => "UnopenedRbrace"
  | .expectedRbrace => "ExpectedRbrace"
  | .invalidExpression => "InvalidExpression"
  | .invalidConversionFlag => "InvalidConversionFlag"
  | .emptyExpression => "EmptyExpression"
  | .mismatchedDelimiter a b => s!"MismatchedDelimiter{a}_{b}"
  | .expressionNestedTooDeeply => "ExpressionNestedTooDeeply"
  | .expressionCannotInclude => "ExpressionCannotInclude"
  | .singleRbrace => "SingleRbrace"
  | .unmatched c => s!"Unmatched{c}"
  | .unterminatedString => "UnterminatedString"

def showErr (e : Err) : String :=
  match e.kind with
  | .panic => "(panic)"
  | .stringError => s!"err StringError {e.loc}"
  | .unicodeError => s!"err UnicodeError {e.loc}"
  | .eof => s!"err Eof {e.loc}"
  | .otherError => s!"err OtherError {e.loc}"
  | .fstring f => s!"err F:{ferrName f} {e.loc}"

def convName : Conv → String
  | .none => "-" | .str => "s" | .ascii => "a" | .repr => "r"

mutual
partial def showPiece (u : String) : Piece → String
  | .lit s => s!"L:{u}:{showCps s}"
  | .field t o c sp =>
    let spec := match sp with
      | none => "-"
      | some ps => "[" ++ showPieces "-" ps ++ "]"
    s!"F:{o}:{hex (utf8Encode t)}:ok:{convName c}:{spec}"
partial def showPieces (u : String) (ps : List Piece) : String :=
  joinSep "|" (ps.map (showPiece u))
end

/-- `n=<hexname>:<cp>,<hexname>:-,…` → lookup function -/
def parseNames (arg : String) : List Nat → Option Nat :=
  let body := (arg.drop 2).toString
  let entries := (body.splitOn ",").filterMap fun e =>
    match e.splitOn ":" with
    | [n, v] =>
      match unhex n with
      | some bs =>
        match utf8Decode bs with
        | some cs => some (cs, v.toNat?)
        | none => none
      | none => none
    | _ => none
  fun name => match entries.find? (fun p => p.1 == name) with
    | some (_, v) => v
    | none => none

def handleFs (lookup : List Nat → Option Nat) (src : List Nat) : String :=
  match lexLits (src.length + 1) src 0 with
  | none => "unsupported"
  | some (.error e) => showErr e
  | some (.ok toks) =>
    match allStrings toks with
    | none => "unsupported"
    | some [] => "unsupported"
    | some sts =>
      match PV.C06.parseStrings lookup sts with
      | some (.error e) => showErr e
      | some (.ok (.str s u)) => s!"const {if u then "u" else "-"} {showCps s}"
      | some (.ok (.bytes b)) => s!"bytes {hex b}"
      | none =>
        match parseStringsF lookup sts with
        | .error e => showErr e
        | .ok (u, ps) =>
          if ps.isEmpty then "joined -" else "joined " ++ showPieces (if u then "u" else "-") ps

/-- the REFERENCE decomposition (`PV.C07.Spec`) of the same source, printed in the same form;
    used for spec validation against CPython and for sampling the partial theorem -/
def specPieces (lookup : List Nat → Option Nat) (strict : Bool) : List StrTok → Option (List Piece)
  | [] => some []
  | t :: ts =>
    let here : Option (List Piece) :=
      if t.kind.isAnyFString then Spec.split lookup strict t.kind.isRaw t.body t.bodyLoc
      else match PV.C06.Spec.decode lookup false t.kind.isRaw t.body with
        | some s => some [.lit (s.map PV.C06.Spec.fffd)]
        | none => none
    match here, specPieces lookup strict ts with
    | some a, some b => some (a ++ b)
    | _, _ => none

def handleSpec (lookup : List Nat → Option Nat) (strict : Bool) (src : List Nat) : String :=
  match lexLits (src.length + 1) src 0 with
  | some (.ok toks) =>
    match allStrings toks with
    | some (t0 :: ts) =>
      if (t0 :: ts).any (·.kind.isAnyBytes) then "unsupported"
      else match specPieces lookup strict (t0 :: ts) with
        | none => "reject"
        | some ps =>
          let ps := Spec.merge ps
          if ps.isEmpty then "joined -" else "joined " ++ showPieces (if t0.kind.isUnicode then "u" else "-") ps
    | _ => "unsupported"
  | _ => "unsupported"

def decodeSrc (s : String) : Option (List Nat) :=
  match unhex s with
  | some bs => utf8Decode bs
  | none => none

def handle : List String → String
  | "fs" :: s :: args =>
    match decodeSrc s with
    | some cs =>
      let lookup := match args.find? (fun a => a.startsWith "n=") with
        | some a => parseNames a
        | none => fun _ => none
      handleFs lookup cs
    | none => "bad-request"
  | op :: s :: args =>
    if op == "spec" || op == "specd" then
      match decodeSrc s with
      | some cs =>
        let lookup := match args.find? (fun a => a.startsWith "n=") with
          | some a => parseNames a
          | none => fun _ => none
        handleSpec lookup (op == "specd") cs
      | none => "bad-request"
    else "bad-request"
  | _ => "bad-request"

def main : IO Unit := protoLoop handle
