import PV.Common.Proto
import PV.C20.Model
import PV.C20.Spec
import PV.C20.Domain
/-! Driver for C20: answers the same request lines as `harness/src/bin/pvh_c20.rs` with the model
    (`tmpl`, `fname`), and evaluates the reference definition for the spec-validation run
    (`stmpl` raw CPython tuples, `ctmpl` canonical parts, `sfname` with a decimal-digit table) and the
    domain predicate of `fieldname_eq_partial` (`fdom`). -/
open PV PV.C20

def hx (cs : List Nat) : String := hex (utf8Encode cs)

def showField (f : Field) : String :=
  s!"{hx f.name}:{optStr (fun c => hx [c]) f.conv}:{hx f.spec}"

def showPart : Part → String
  | .literal s => s!" L:{hx s}"
  | .field f => s!" F:{showField f}"

def showParts (ps : List Part) : String := "ok" ++ String.join (ps.map showPart)

def showHead : Head → String
  | .auto => "auto"
  | .index n => s!"idx:{n}"
  | .keyword s => s!"kw:{hx s}"

def showAccessor : Accessor → String
  | .attribute s => s!" A:{hx s}"
  | .index n => s!" I:{n}"
  | .stringIndex s => s!" S:{hx s}"

def showFieldName (r : Head × List Accessor) : String :=
  "ok " ++ showHead r.1 ++ String.join (r.2.map showAccessor)

def showTuple : List Nat × Option Field → String
  | (l, none) => s!" T:{hx l}:none"
  | (l, some f) => s!" T:{hx l}:{showField f}"

/-- `cp=digit,cp=digit` table for non-ASCII decimal digits (`-` = none) on top of the ASCII one. -/
def parseTable (s : String) : List (Nat × Nat) :=
  if s == "-" then [] else
  (s.splitOn ",").filterMap fun kv =>
    match kv.splitOn "=" with
    | [k, v] => match k.toNat?, v.toNat? with
      | some k, some v => some (k, v)
      | _, _ => none
    | _ => none

def decValOf (tbl : List (Nat × Nat)) (c : Nat) : Option Nat :=
  match Spec.asciiDecVal c with
  | some d => some d
  | none => (tbl.find? (·.1 == c)).map (·.2)

def withText (t : String) (f : List Nat → String) : String :=
  match unhex t with
  | some bs => match utf8Decode bs with
    | some cs => f cs
    | none => "bad-request"
  | none => "bad-request"

def handle : List String → String
  | ["tmpl", t] => withText t fun cs =>
    match Model.fromStr cs with
    | .ok ps => showParts ps
    | .error _ => "err"
  | ["fname", t] => withText t fun cs =>
    match Model.parseFieldName cs with
    | .ok r => showFieldName r
    | .error _ => "err"
  | ["stmpl", t] => withText t fun cs =>
    match Spec.formatterParser cs with
    | .ok items => "ok" ++ String.join (items.map showTuple)
    | .error _ => "err"
  | ["ctmpl", t] => withText t fun cs =>
    match Spec.formatterParser cs with
    | .ok items => showParts (Spec.canon items)
    | .error _ => "err"
  | ["sfname", t, tbl] => withText t fun cs =>
    match Spec.fieldNameSplit (decValOf (parseTable tbl)) cs with
    | .ok r => showFieldName r
    | .error _ => "err"
  | ["fdom", t, tbl] => withText t fun cs => toString (fieldNameInDomain (decValOf (parseTable tbl)) cs)
  | _ => "bad-request"

def main : IO Unit := protoLoop handle
