import PV.Common.Proto
import PV.C10.Model
/-!
  Driver for C10: the model side of the two correspondence operations of `harness/src/bin/pvh_c10.rs`
  that have a Lean model here (`int`: integer literal value with the reference backend; `optr`:
  `OptionalRange::new` in either configuration).  `parse` requests are compared BETWEEN BUILDS by
  tools/props/c10.py (streams with compare = false), never with this driver, which answers `-`.
-/
open PV PV.C10

def handle : List String → String
  | ["int", t] =>
    match unhex t with
    | some bs =>
      match intLit refBackend bs with
      | some v => toString v
      | none => "none"
    | none => "bad-request"
  | ["optr", all, a, b] =>
    match a.toNat?, b.toNat? with
    | some a, some b =>
      match optionalRange (all == "1") a b with
      | some .empty => "()"
      | some (.range x y) => s!"{x}..{y}"
      | none => "none"
    | _, _ => "bad-request"
  | _ => "-"

def main : IO Unit := protoLoop handle
