import PV.Common.Proto
import PV.Lexer.SoftKw
/-!
  Driver for the lexer model (C05; also used by C03 / C04 / C08 / C09 / C10 streams).
  Answers the same request lines as `harness/src/bin/pvh_c05.rs`.

    lex  <mode m|i|e> <start> <hex src> <xid_start> <xid_continue> <emoji>     default build
    lexf <mode m|i|e> <start> <hex src> <xid_start> <xid_continue> <emoji>     `full-lexer` build
    asciicls                                                                   ASCII classification

  The three class arguments are comma separated decimal code points (`-` = none): the NON-ASCII
  characters of the source for which the real `unic` crates answer `true`.  They instantiate the
  `UParams` of the model; for ASCII the instantiation below is fixed (letters / letters, digits
  and `_` / nothing) and `asciicls` compares the resulting `isIdStart` / `isIdCont` / emoji
  classification of the 128 ASCII characters with the behaviour of the real lexer.

  Answer: tokens `Kind[:payload]@start..end` separated by blanks, then `(end)` or
  `(err <Kind> <offset>)`; `(panic)` if the model says the Rust code panics.
-/
open PV PV.Lexer

def parseNats (s : String) : Option (List Nat) :=
  if s == "-" then some [] else (s.splitOn ",").mapM String.toNat?

def asciiStart (c : Nat) : Bool := isAsciiLetter c
def asciiContinue (c : Nat) : Bool := isAsciiLetter c || isDigit c || c == 95

def mkParams (xs xc em : List Nat) : UParams where
  xidStart c := if c < 128 then asciiStart c else xs.contains c
  xidContinue c := if c < 128 then asciiContinue c else xc.contains c
  emoji c := if c < 128 then false else em.contains c

def hexText (cs : List Nat) : String := hex (utf8Encode cs)

def showTok : Tok → String
  | .name n => s!"Name:{hexText n}"
  | .int v => s!"Int:{v}"
  | .float t => s!"Float:t{hexText t}"
  | .complex t => s!"Complex:t{hexText t}"
  | .string v k tr => s!"String:{k.rustName}:{if tr then 1 else 0}:{hexText v}"
  | .comment t => s!"Comment:{hexText t}"
  | t => t.rustName

def showSpanned (t : Spanned) : String := s!"{showTok t.tok}@{t.bs}..{t.be}"

def showOut : Option LexOut → String
  | none => "(panic)"
  | some o =>
    let fin := match o.fin with
      | .eof => "(end)"
      | .err k _ b => s!"(err {k.rustName} {b})"
      | .outOfFuel => "(out-of-fuel)"
    joinSep " " (o.toks.map showSpanned ++ [fin])

def parseMode : String → Option Mode
  | "m" => some .module
  | "i" => some .interactive
  | "e" => some .expression
  | _ => none

def handleLex (full : Bool) (mode start src xs xc em : String) : String :=
  match parseMode mode, start.toNat?, (unhex src).bind utf8Decode, parseNats xs, parseNats xc, parseNats em with
  | some m, some k, some cs, some xs, some xc, some em =>
    showOut (lex ⟨full, mkParams xs xc em⟩ m k cs)
  | _, _, _, _, _, _ => "bad-request"

def bits (p : Nat → Bool) : String := String.ofList ((List.range 128).map fun c => if p c then '1' else '0')

def handle : List String → String
  | ["lex", mode, start, src, xs, xc, em] => handleLex false mode start src xs xc em
  | ["lexf", mode, start, src, xs, xc, em] => handleLex true mode start src xs xc em
  | ["asciicls"] =>
    let p := mkParams [] [] []
    s!"start={bits (isIdStart p)} continue={bits (isIdCont p)} emoji={bits fun c => !isIdStart p c && p.emoji c}"
  | _ => "bad-request"

def main : IO Unit := protoLoop handle
