import PV.Common.Proto
import PV.C16.Model
import PV.C16.Spec
/-! Driver for C16: answers the same request lines as `harness/src/bin/pvh_c16.rs`.

  reprs  <hex text> <printable>            UnicodeEscape::new_repr
  reprq  <ps|pd|fs|fd> <hex text> <printable>   with_preferred_quote / with_forced_quote
  reprb  <hex bytes>                       AsciiEscape::new_repr
  reprbq <ps|pd|fs|fd> <hex bytes>
  named  <hex bytes> <name length>         AsciiEscape::new(b, AsciiEscape::named_repr_layout(b, name))

  `<printable>` lists (decimal, comma separated, `-` for none) the non-ASCII code points of the
  text that the REAL `rustpython_literal::char::is_printable` classifies as printable; it
  instantiates the model's printability parameter.
  (`cls`, `printable` are answered by the harness only.)
-/
open PV PV.C16

def qName : Quote → String
  | .single => "s"
  | .double => "d"

def parseList (s : String) : Option (List Nat) :=
  if s == "-" then some [] else (s.splitOn ",").mapM String.toNat?

def showText (cs : List Nat) : String := hex (utf8Encode cs)

/-- round trip through the reference decoder -/
def rtStr (r s : List Nat) : String :=
  if Spec.pyLiteralDecode r == some (.str s) then "ok" else "bad"
def rtBytes (r b : List Nat) : String :=
  if Spec.pyLiteralDecode r == some (.bytes b) then "ok" else "bad"

def showLayout (l : Layout) (changed : Bool) : String :=
  s!"q={qName l.quote} len={optStr toString l.len} changed={changed}"

/-- `same`, or the hex of the differing text -/
def sameOrHex (got want : List Nat) : String := if got == want then "same" else showText got

def handleReprs (s pl : List Nat) : String :=
  let p : Nat → Bool := fun c => pl.contains c
  let l := uReprLayout p .single s
  let r := strRepr p s
  let tostr := match strReprToString p s with
    | none => "none"
    | some t => if t == r then "same" else "diff"
  s!"{showLayout l (uChanged s l)} repr={showText r} tostr={tostr} rt={rtStr r s} disp=eq cls=ok fmt={sameOrHex (strReprFmt p s l) r}"

def layoutFor (mode : String) (pref : Quote → Layout) : Option Layout :=
  match mode with
  | "ps" => some (pref .single)
  | "pd" => some (pref .double)
  | "fs" => some { quote := .single, len := none }
  | "fd" => some { quote := .double, len := none }
  | _ => none

def handleReprq (mode : String) (s pl : List Nat) : String :=
  let p : Nat → Bool := fun c => pl.contains c
  match layoutFor mode (fun q => uReprLayout p q s) with
  | none => "bad-request"
  | some l =>
    let r := uWrite p s l
    s!"{showLayout l (uChanged s l)} repr={showText r} rt={rtStr r s} cls=ok fmt={sameOrHex (strReprFmt p s l) r}"

def handleReprb (b : List Nat) : String :=
  let l := aReprLayout .single b
  let r := bytesRepr b
  let tostr := match bytesReprToString b with
    | none => "none"
    | some t => if t == r then "same" else "diff"
  let disp := match bytesReprToString b with
    | none => "panic"
    | some t => if t == r then "eq" else showText t
  s!"{showLayout l (aChanged b l)} repr={showText r} tostr={tostr} rt={rtBytes r b} disp={disp} fmt={sameOrHex (bytesReprFmt b l) r} new={sameOrHex (bytesReprNew b (aReprLayout .single b)) r}"

def handleReprbq (mode : String) (b : List Nat) : String :=
  match layoutFor mode (fun q => aReprLayout q b) with
  | none => "bad-request"
  | some l =>
    let r := aWrite b l
    s!"{showLayout l (aChanged b l)} repr={showText r} rt={rtBytes r b} fmt={sameOrHex (bytesReprFmt b l) r}"

/-- `named <hex bytes> <name length>` -/
def handleNamed (b : List Nat) (nameLen : Nat) : String :=
  let l := aNamedReprLayout nameLen b
  let r := bytesReprNamed nameLen b
  s!"{showLayout l (aChanged b l)} repr={showText r} rt={rtBytes r b} fmt={sameOrHex (bytesReprFmt b l) r}"

/-- spec side only (used for validating the reference definitions against CPython):
    `specdecode <hex literal>`, `specrepr <hex text> <python-printable list>`, `specreprb <hex>` -/
def showVal : Option Spec.PyVal → String
  | none => "none"
  | some (.str cs) => s!"str:{showText cs}"
  | some (.bytes bs) => s!"bytes:{hex bs}"

def handle : List String → String
  | ["reprs", t, pl] => match (unhex t).bind utf8Decode, parseList pl with
    | some s, some pl => handleReprs s pl
    | _, _ => "bad-request"
  | ["reprq", mode, t, pl] => match (unhex t).bind utf8Decode, parseList pl with
    | some s, some pl => handleReprq mode s pl
    | _, _ => "bad-request"
  | ["reprb", t] => match unhex t with
    | some b => handleReprb b
    | none => "bad-request"
  | ["reprbq", mode, t] => match unhex t with
    | some b => handleReprbq mode b
    | none => "bad-request"
  | ["named", t, n] => match unhex t, n.toNat? with
    | some b, some n => if n + 5 ≤ isizeMax then handleNamed b n else "bad-request"
    | _, _ => "bad-request"
  | ["specdecode", t] => match (unhex t).bind utf8Decode with
    | some l => showVal (Spec.pyLiteralDecode l)
    | none => "bad-request"
  | ["specrepr", t, pl] => match (unhex t).bind utf8Decode, parseList pl with
    | some s, some pl => showText (Spec.pyRepr (fun c => pl.contains c) s)
    | _, _ => "bad-request"
  | ["specreprb", t] => match unhex t with
    | some b => showText (Spec.pyBytesRepr b)
    | none => "bad-request"
  | _ => "bad-request"

def main : IO Unit := protoLoop handle
