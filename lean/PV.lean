import PV.Common.Proto
