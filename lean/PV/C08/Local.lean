import PV.C08.Fold
/-
  PV.C08.Local — three locality facts about one iteration of the lexer loop (`PV.Lexer.step`), default build.

    * L1 `step_brk_local`   a step that ends in front of a line break does not depend on what follows the
                            line break (`step cfg st (y ++ d :: r) = .ok o`, `o.consumed ≤ |y|`  ⇒  same result on
                            `y ++ d :: r'`).  Per sub-lexer: `*_brk_local`.  The string body loop even satisfies plain
                            locality (`strLoop_take`: it reads nothing behind the closing quotes).
    * L2 `step_to_bol`      a non-final step after which `at_begin_of_line` is set is exactly the NEWLINE step
                            (from `atBol = false`, `nesting = 0`, in front of one line end).
    * L3 `step_mid_indents` a step taken with `atBol = false` carries the indentation stack along without reading
                            it; at the end of the input the stack only matters through its height
                            (`consumeEof_indents`).
-/
namespace PV.C08
open PV.Lexer

/-! ## a concrete configuration for the non-vacuity examples (ASCII identifiers, as in the drivers) -/

def localUp : UParams where
  xidStart c := isAsciiLetter c
  xidContinue c := isAsciiLetter c || isDigit c || c == 95
  emoji _ := false

def localCfg : Cfg := ⟨false, localUp⟩

theorem localUp_ok : UpOk localUp := by
  refine ⟨⟨?_, by decide, by decide⟩, ?_⟩
  · intro c h; simp [localUp] at h ⊢; simp [h]
  · intro c h
    rcases h with h | h | h | h
    · rcases isBlank_cases h with rfl | rfl | rfl <;> decide
    · rcases isLineBreak_cases h with rfl | rfl <;> decide
    · subst h; decide
    · subst h; decide

/-! ## L1: sub-lexers in front of a line break -/


theorem spanLen_brk_local {p : Nat → Bool} (y : List Nat) {d : Nat} (hd : p d = false) (r r' : List Nat) :
    spanLen p (y ++ d :: r) = spanLen p (y ++ d :: r') := by
  induction y with
  | nil => simp [spanLen, hd]
  | cons c y ih => simp [spanLen, ih]

theorem scanFold_cons_ne {p : Nat → Bool} {c : Nat} (hc : c ≠ 13) (t : List Nat) :
    scanFold p (c :: t) = if p c then (((if c = 13 then 10 else c) :: (scanFold p t).1), (scanFold p t).2 + 1) else ([], 0) := by
  rw [scanFold.eq_def]; split <;> simp_all

theorem scanFold_cr {p : Nat → Bool} (h13 : p 13 = false) (t : List Nat) : scanFold p (13 :: t) = ([], 0) := by
  rw [scanFold.eq_def]; split <;> simp_all

theorem scanFold_brk_local {p : Nat → Bool} (h10 : p 10 = false) (h13 : p 13 = false) (y : List Nat) {d : Nat}
    (hd : isLineBreak d = true) (r r' : List Nat) : scanFold p (y ++ d :: r) = scanFold p (y ++ d :: r') := by
  induction y with
  | nil =>
    rcases isLineBreak_cases hd with rfl | rfl
    · simp [scanFold_cons_ne, h10]
    · simp [scanFold_cr h13]
  | cons c y ih =>
    by_cases hc : c = 13
    · subst hc; simp [scanFold_cr h13]
    · simp only [List.cons_append, scanFold_cons_ne hc, ih]

theorem lexName_brk_local {up : UParams} (hs : up.Sane) (y : List Nat) {d : Nat} (hd : isLineBreak d = true)
    (r r' : List Nat) : lexName up (y ++ d :: r) = lexName up (y ++ d :: r') := by
  unfold lexName
  rw [scanFold_brk_local (isIdCont_break hs (by decide)) (isIdCont_break hs (by decide)) y hd r r']

theorem lexNumber_brk_local (y : List Nat) {d : Nat} (hd : isLineBreak d = true) (r r' : List Nat) :
    lexNumber (y ++ d :: r) = lexNumber (y ++ d :: r') := by
  rw [(lexNumber_brk y hd r).1, (lexNumber_brk y hd r').1]

theorem headIsDigit_brk_local (y : List Nat) {d : Nat} (hd : isLineBreak d = true) (r r' : List Nat) :
    headIsDigit (y ++ d :: r) = headIsDigit (y ++ d :: r') := by
  cases y with
  | nil => simp [headIsDigit, isDigit_break hd]
  | cons c y => rfl


/-! ### operators -/

set_option maxHeartbeats 1000000 in
/-- an operator followed by a line break: only the operator's own characters matter -/
theorem lexOp_take {l : List Nat} {o : Op} {n : Nat} (h : lexOp l = some (o, n)) {d : Nat}
    (hd : isLineBreak d = true) (b : List Nat) : lexOp (l.take n ++ d :: b) = some (o, n) := by
  revert h
  fun_cases lexOp l <;> intro h <;> simp at h
  all_goals (obtain ⟨rfl, rfl⟩ := h; rcases isLineBreak_cases hd with rfl | rfl <;> simp [lexOp])


/-- no operator: the first character is none of the operator characters -/
theorem lexOp_none_head {l : List Nat} (h : lexOp l = none) {a : Nat} {t : List Nat} (hl : l = a :: t) :
    a ≠ 61 ∧ a ≠ 43 ∧ a ≠ 42 ∧ a ≠ 47 ∧ a ≠ 37 ∧ a ≠ 124 ∧ a ≠ 94 ∧ a ≠ 38 ∧ a ≠ 45 ∧ a ≠ 64 ∧ a ≠ 126 ∧
    a ≠ 58 ∧ a ≠ 59 ∧ a ≠ 60 ∧ a ≠ 62 ∧ a ≠ 44 ∧ a ≠ 46 := by
  revert h
  fun_cases lexOp l
  case case42 =>
    rename_i a40 a39 a38 a37 a36 a35 a34 a33 a32 a31 a30 a29 a28 a27 a26 a25 a24 a23 a22 a21 a20 a19 a18 a17 a16 a15 a14 a13 a12 a11 a10 a9 a8 a7 a6 a5 a4 a3 a2 a1 a0
    intro _
    have e := fun (k : Nat) (h : ∀ t', l = k :: t' → False) => (fun (hk : a = k) => h t (by rw [hl, hk]) : a ≠ k)
    exact ⟨e _ a39, e _ a37, e _ a33, e _ a29, e _ a27, e _ a25, e _ a23, e _ a21, e _ a18, e _ a16, e _ a14,
      e _ a12, e _ a11, e _ a7, e _ a3, e _ a2, e _ a0⟩
  all_goals (intro h; simp at h)


set_option maxHeartbeats 1000000 in
/-- operators read at most three characters -/
theorem lexOp_three_some {a b c : Nat} {t : List Nat} {o : Op} {n : Nat} (h : lexOp (a :: b :: c :: t) = some (o, n))
    (t' : List Nat) : lexOp (a :: b :: c :: t') = some (o, n) := by
  generalize hl : a :: b :: c :: t = l at h
  revert h hl
  fun_cases lexOp l <;> intro hl h <;> simp at h
  all_goals (obtain ⟨rfl, rfl⟩ := h; simp at hl)
  all_goals first
    | (obtain ⟨rfl, rfl, rfl, rfl⟩ := hl; simp [lexOp]; done)
    | (obtain ⟨rfl, rfl, rfl⟩ := hl; simp_all [lexOp]; done)
    | (obtain ⟨rfl, rfl⟩ := hl; simp_all [lexOp]; done)



/-- operators: `c` is not `!` (the caller has its own arm for it) -/
theorem lexOp_brk_local {c : Nat} (h33 : c ≠ 33) (y : List Nat) {d : Nat} (hd : isLineBreak d = true)
    (r r' : List Nat) : lexOp (c :: (y ++ d :: r)) = lexOp (c :: (y ++ d :: r')) := by
  cases h : lexOp (c :: (y ++ d :: r)) with
  | none =>
    obtain ⟨h1, h2, h3, h4, h5, h6, h7, h8, h9, h10, h11, h12, h13, h14, h15, h16, h17⟩ := lexOp_none_head h rfl
    exact (lexOp_none c _ h1 h2 h3 h4 h5 h6 h7 h8 h9 h10 h11 h12 h13 h14 h15 h16 h17
      (fun x hx => h33 (by simpa using (List.cons.inj hx).1))).symm
  | some p =>
    obtain ⟨o, n⟩ := p
    symm
    rcases y with _ | ⟨a, _ | ⟨b, y⟩⟩
    · have hn : n = 1 := by
        have h1 := (lexOp_ok h).1
        have h2 := lexOp_noBreak h
        rcases n with _ | _ | n
        · omega
        · rfl
        · have := h2 d (by simp)
          simp [hd] at this
      subst hn
      simpa using lexOp_take h hd r'
    · exact lexOp_three_some h r'
    · simp only [List.cons_append] at h ⊢
      exact lexOp_three_some h _


/-! ### strings, identifiers -/

theorem strLoop_three {q : Nat} {l v : List Nat} {n : Nat} (h : strLoop q true l = .ok (v, n)) : 3 ≤ n := by
  fun_induction strLoop q true l generalizing v n
  all_goals first
    | (simp at h; done)
    | grind [bump_ok]

theorem head?_take_append {l : List Nat} {n : Nat} (hn : 1 ≤ n) (hl : n ≤ l.length) (b : List Nat) :
    (l.take n ++ b).head? = l.head? := by
  cases l with
  | nil => simp at hl; omega
  | cons c l => cases n with
    | zero => omega
    | succ n => simp

theorem strLoop_bs_cr {q : Nat} {tr : Bool} {r : List Nat} (h : r.head? ≠ some 10) :
    strLoop q tr (92 :: 13 :: r) = bump 2 [92, 10] (strLoop q tr r) := by
  cases r with
  | nil => simp [strLoop]
  | cons x r => simp at h; simp [strLoop, h]

theorem strLoop_cr {q : Nat} {r : List Nat} (h : r.head? ≠ some 10) :
    strLoop q true (13 :: r) = bump 1 [10] (strLoop q true r) := by
  cases r with
  | nil => simp [strLoop]
  | cons x r => simp at h; simp [strLoop, h]

theorem head?_ne_of_not_cons {r : List Nat} {k : Nat} (hx : ∀ t, r = k :: t → False) : r.head? ≠ some k := by
  intro h; cases r with
  | nil => simp at h
  | cons d t => simp at h; exact hx t (by rw [h])

/-- the string body loop reads nothing behind the closing quote(s) -/
theorem strLoop_take {q : Nat} (hq : isQuote q = true) (tr : Bool) (l : List Nat) {v : List Nat} {n : Nat}
    (h : strLoop q tr l = .ok (v, n)) (b : List Nat) : strLoop q tr (l.take n ++ b) = .ok (v, n) := by
  obtain ⟨hq92, hq13, hq10⟩ := isQuote_ne hq
  fun_induction strLoop q tr l generalizing v n
  case case1 => simp at h
  case case2 => simp at h
  case case3 r ih =>
    obtain ⟨v', n', hr, rfl, rfl⟩ := bump_ok h
    simp [List.take_succ_cons, strLoop, ih hr, bump]
  case case4 r hx ih =>
    obtain ⟨v', n', hr, rfl, rfl⟩ := bump_ok h
    have hb := strLoop_ok _ _ _ _ _ hr
    have hh : (r.take n' ++ b).head? ≠ some 10 := by
      rw [head?_take_append hb.1 hb.2]; exact head?_ne_of_not_cons hx
    simp only [List.take_succ_cons, List.cons_append]
    rw [strLoop_bs_cr hh, ih hr]; simp [bump]
  case case5 c r _ hc ih =>
    obtain ⟨v', n', hr, rfl, rfl⟩ := bump_ok h
    have hc' : c ≠ 13 := fun h => hc h
    simp only [List.take_succ_cons, List.cons_append]
    rw [strLoop_bs hc', ih hr]; simp [bump]
  case case6 r htr ih =>
    subst htr
    obtain ⟨v', n', hr, rfl, rfl⟩ := bump_ok h
    simp [List.take_succ_cons, strLoop, ih hr, bump]
  case case7 r htr => simp at h
  case case8 r hx htr ih =>
    subst htr
    obtain ⟨v', n', hr, rfl, rfl⟩ := bump_ok h
    have hb := strLoop_ok _ _ _ _ _ hr
    have hh : (r.take n' ++ b).head? ≠ some 10 := by
      rw [head?_take_append hb.1 hb.2]; exact head?_ne_of_not_cons hx
    simp only [List.take_succ_cons, List.cons_append]
    rw [strLoop_cr hh, ih hr]; simp [bump]
  case case9 r hx htr => simp at h
  case case10 r htr ih =>
    subst htr
    obtain ⟨v', n', hr, rfl, rfl⟩ := bump_ok h
    simp only [List.take_succ_cons, List.cons_append]
    rw [strLoop_lf, ih hr]; simp [bump]
  case case11 r htr => simp at h
  case case12 htr a b' tail hab _ _ _ _ _ _ _ =>
    subst htr
    have ha : a = q := by simp at hab; exact hab.1
    have hb : b' = q := by simp at hab; exact hab.2
    subst ha; subst hb
    simp at h; obtain ⟨rfl, rfl⟩ := h
    simp only [List.take_succ_cons, List.take_zero, List.cons_append, List.nil_append]
    exact strLoop_close3 hq92 hq13 hq10 _
  case case13 htr a b' tail hab _ _ _ _ _ _ _ ih =>
    subst htr
    obtain ⟨v', n', hr, rfl, rfl⟩ := bump_ok h
    have h3 := strLoop_three hr
    obtain ⟨m, rfl⟩ : ∃ m, n' = m + 2 := ⟨n' - 2, by omega⟩
    have hne : ∀ t, (a :: b' :: tail).take (m + 2) ++ b ≠ q :: q :: t := by
      intro t ht
      simp [List.take_succ_cons] at ht
      simp [ht.1, ht.2.1] at hab
    rw [List.take_succ_cons, List.cons_append, strLoop_quote hq92 hq13 hq10 _ hne, ih hr]; simp [bump]
  case case14 r htr hshort _ _ _ _ _ _ _ ih =>
    subst htr
    obtain ⟨v', n', hr, rfl, rfl⟩ := bump_ok h
    have h3 := strLoop_three hr
    have hb := strLoop_ok _ _ _ _ _ hr
    rcases r with _ | ⟨a, _ | ⟨b', t⟩⟩
    · simp at hb; omega
    · simp at hb; omega
    · exact absurd rfl (hshort a b' t)
  case case15 r htr _ _ _ _ _ _ _ =>
    have : tr = false := by simpa using htr
    subst this
    simp at h; obtain ⟨rfl, rfl⟩ := h
    simp only [List.take_succ_cons, List.take_zero, List.cons_append, List.nil_append]
    exact strLoop_close1 hq92 hq13 hq10 _
  case case16 c r h1 _ _ h4 _ h13 h10 hcq ih =>
    obtain ⟨v', n', hr, rfl, rfl⟩ := bump_ok h
    have hc13 : c ≠ 13 := fun h => h13 h
    have hc10 : c ≠ 10 := fun h => h10 h
    have hc92 : c ≠ 92 := by
      intro h'
      cases r with
      | nil => exact h1 h' rfl
      | cons d t => exact h4 d t h' rfl
    simp only [List.take_succ_cons, List.cons_append]
    rw [strLoop_plain hc92 hc13 hc10 hcq, ih hr]; simp [bump]



/-- prefix form of `strLoop_take` -/
theorem strLoop_prefix {q : Nat} (hq : isQuote q = true) (tr : Bool) {a b : List Nat} {v : List Nat} {n : Nat}
    (h : strLoop q tr (a ++ b) = .ok (v, n)) (hn : n ≤ a.length) (b' : List Nat) :
    strLoop q tr (a ++ b') = .ok (v, n) := by
  have := strLoop_take hq tr _ h (a.drop n ++ b')
  rwa [List.take_append_of_le_length hn, ← List.append_assoc, List.take_append_drop] at this

theorem isTripleOpen_brk_local {q : Nat} (hq : isQuote q = true) (y : List Nat) {d : Nat} (hd : isLineBreak d = true)
    (r r' : List Nat) : isTripleOpen q (y ++ d :: r) = isTripleOpen q (y ++ d :: r') := by
  have hdq : d ≠ q := by
    intro h; subst h; have := quote_noBreak hq; simp [hd] at this
  rcases y with _ | ⟨a, _ | ⟨b, y⟩⟩
  · rcases r with _ | ⟨x, r⟩ <;> rcases r' with _ | ⟨x', r'⟩ <;> simp [isTripleOpen, hdq]
  · simp [isTripleOpen, hdq]
  · simp [isTripleOpen]

/-- a string literal that ends in front of a line break does not depend on what follows the line break -/
theorem lexString_brk_local (kind : StringKind) {p : List Nat} (hp : p.length = kind.prefixLen) {q : Nat}
    (hq : isQuote q = true) (y : List Nat) {d : Nat} (hd : isLineBreak d = true) (r r' : List Nat) {tok : Tok} {n : Nat}
    (h : lexString kind (p ++ q :: (y ++ d :: r)) = .ok (tok, n)) (hn : n ≤ p.length + 1 + y.length) :
    lexString kind (p ++ q :: (y ++ d :: r')) = .ok (tok, n) := by
  unfold lexString at h ⊢
  rw [← hp, List.drop_left] at h ⊢
  simp only [] at h ⊢
  rw [← isTripleOpen_brk_local hq y hd r r']
  by_cases ht : isTripleOpen q (y ++ d :: r) = true
  · simp only [ht, ↓reduceIte] at h ⊢
    have hdq : d ≠ q := by
      intro h; subst h; have := quote_noBreak hq; simp [hd] at this
    obtain ⟨y3, rfl⟩ : ∃ y3, y = q :: q :: y3 := by
      rcases y with _ | ⟨a, _ | ⟨b, t⟩⟩
      · rcases r with _ | ⟨x, r⟩ <;> simp [isTripleOpen, hdq] at ht
      · simp [isTripleOpen, hdq] at ht
      · simp [isTripleOpen] at ht; obtain ⟨rfl, rfl⟩ := ht; exact ⟨t, rfl⟩
    simp only [List.cons_append, List.drop_succ_cons, List.drop_zero] at h ⊢
    cases hs : strLoop q true (y3 ++ d :: r) with
    | error e => obtain ⟨k, off⟩ := e; simp [hs] at h
    | ok pr =>
      obtain ⟨v, m⟩ := pr
      simp only [hs, Except.ok.injEq, Prod.mk.injEq] at h
      obtain ⟨rfl, rfl⟩ := h
      rw [strLoop_prefix hq true hs (by simp at hn; omega) (d :: r')]
  · simp only [ht, Bool.false_eq_true, ↓reduceIte] at h ⊢
    cases hs : strLoop q false (y ++ d :: r) with
    | error e => obtain ⟨k, off⟩ := e; simp [hs] at h
    | ok pr =>
      obtain ⟨v, m⟩ := pr
      simp only [hs, Except.ok.injEq, Prod.mk.injEq] at h
      obtain ⟨rfl, rfl⟩ := h
      rw [strLoop_prefix hq false hs (by omega) (d :: r')]

theorem lexIdentifier_brk2 (up : UParams) (c : Nat) {d : Nat} (hd : isLineBreak d = true) (r : List Nat) :
    lexIdentifier up (c :: d :: r) = .ok (lexName up (c :: d :: r)) := by
  unfold lexIdentifier
  simp only [isQuote_break hd, Bool.false_eq_true, ↓reduceIte]
  cases r with
  | nil => rfl
  | cons q2 t => simp only [ofChars_break (c := c) hd]; split <;> rfl

/-- an identifier, keyword or prefixed string that ends in front of a line break -/
theorem lexIdentifier_brk_local {up : UParams} (hs : up.Sane) (c : Nat) (y : List Nat) {d : Nat}
    (hd : isLineBreak d = true) (r r' : List Nat) {tok : Tok} {n : Nat}
    (h : lexIdentifier up (c :: (y ++ d :: r)) = .ok (tok, n)) (hn : n ≤ 1 + y.length) :
    lexIdentifier up (c :: (y ++ d :: r')) = .ok (tok, n) := by
  have hN := lexName_brk_local hs (c :: y) hd r r'
  simp only [List.cons_append] at hN
  rcases y with _ | ⟨q, _ | ⟨q2, y⟩⟩
  · simp only [List.nil_append] at h hN ⊢
    rw [lexIdentifier_brk2 up c hd] at h ⊢
    rw [← hN]; exact h
  · simp only [List.cons_append, List.nil_append] at h hN ⊢
    unfold lexIdentifier at h ⊢
    by_cases hq : isQuote q = true
    · simp only [hq, ↓reduceIte] at h ⊢
      cases hk : StringKind.ofChar c with
      | none => simp only [hk] at h ⊢; rw [← hN]; exact h
      | some kind =>
        simp only [hk] at h ⊢
        exact lexString_brk_local kind (p := [c]) (by simp [ofChar_prefixLen hk]) hq [] hd r r' h (by simp at hn ⊢; omega)
    · simp only [hq, isQuote_break hd, Bool.false_eq_true, ↓reduceIte] at h ⊢
      rw [← hN]; exact h
  · simp only [List.cons_append] at h hN ⊢
    unfold lexIdentifier at h ⊢
    by_cases hq : isQuote q = true
    · simp only [hq, ↓reduceIte] at h ⊢
      cases hk : StringKind.ofChar c with
      | none => simp only [hk] at h ⊢; rw [← hN]; exact h
      | some kind =>
        simp only [hk] at h ⊢
        exact lexString_brk_local kind (p := [c]) (by simp [ofChar_prefixLen hk]) hq (q2 :: y) hd r r' h
          (by simp at hn ⊢; omega)
    · simp only [hq, Bool.false_eq_true, ↓reduceIte] at h ⊢
      by_cases hq2 : isQuote q2 = true
      · simp only [hq2, ↓reduceIte] at h ⊢
        cases hk : StringKind.ofChars c q with
        | none => simp only [hk] at h ⊢; rw [← hN]; exact h
        | some kind =>
          simp only [hk] at h ⊢
          exact lexString_brk_local kind (p := [c, q]) (by simp [ofChars_prefixLen hk]) hq2 y hd r r' h
            (by simp at hn ⊢; omega)
      · simp only [hq2, Bool.false_eq_true, ↓reduceIte] at h ⊢
        rw [← hN]; exact h

/-! ### `consume_character` -/


theorem ofSub_inv {st : LexState} {s : Sub} {o : StepOut} (h : ofSub st s = .ok o) :
    ∃ tok n, s = .ok (tok, n) ∧ o = one tok n st := by
  cases s with
  | ok p => obtain ⟨t, n⟩ := p; simp [ofSub] at h; exact ⟨t, n, rfl, h.symm⟩
  | error e => simp [ofSub] at h

/-- `next_char` in front of `y ++ d :: r`, when it takes at most `y` -/
theorem nextChar_brk_local (c : Nat) (y : List Nat) {d : Nat} (hd : isLineBreak d = true) (r r' : List Nat)
    {x n : Nat} {rest : List Nat} (h : nextChar (c :: (y ++ d :: r)) = some (x, n, rest)) (hn : n ≤ 1 + y.length) :
    ∃ rest', nextChar (c :: (y ++ d :: r')) = some (x, n, rest') ∧ rest.isEmpty = false ∧ rest'.isEmpty = false := by
  by_cases hc : c = 13
  · subst hc
    rcases y with _ | ⟨a, y⟩
    · rcases isLineBreak_cases hd with rfl | rfl
      · simp [nextChar] at h; simp at hn; omega
      · simp [nextChar] at h ⊢; obtain ⟨rfl, rfl, rfl⟩ := h; simp
    · by_cases ha : a = 10
      · subst ha; simp [nextChar] at h ⊢; obtain ⟨rfl, rfl, rfl⟩ := h; simp
      · simp [nextChar, ha] at h ⊢; obtain ⟨rfl, rfl, rfl⟩ := h; simp
  · have e : ∀ t, nextChar (c :: t) = some (c, 1, t) := by
      intro t; rw [nextChar.eq_def]; split <;> simp_all
    rw [e] at h ⊢
    simp at h; obtain ⟨rfl, rfl, rfl⟩ := h; simp

/-- `consume_character` that ends in front of a line break does not depend on what follows the line break -/
theorem consumeCharacter_brk_local {cfg : Cfg} (hf : cfg.fullLexer = false) (st : LexState) (c : Nat) (y : List Nat)
    {d : Nat} (hd : isLineBreak d = true) (r r' : List Nat) {o : StepOut}
    (h : consumeCharacter cfg st c (y ++ d :: r) = .ok o) (hc : o.consumed ≤ 1 + y.length) :
    consumeCharacter cfg st c (y ++ d :: r') = .ok o := by
  have hNum := lexNumber_brk_local (c :: y) hd r r'
  simp only [List.cons_append] at hNum
  unfold consumeCharacter at h ⊢
  rw [← hNum, ← headIsDigit_brk_local y hd r r']
  by_cases h1 : isDigit c = true
  · simpa only [h1, ↓reduceIte] using h
  simp only [h1, Bool.false_eq_true, ↓reduceIte] at h ⊢
  by_cases h2 : c = 35
  · have := spanLen_brk_local (p := fun c => !isLineBreak c) (c :: y) (d := d) (by simp [hd]) r r'
    simp only [List.cons_append] at this
    simp only [h2, ↓reduceIte, commentLen, hf, Bool.false_eq_true] at h ⊢
    rw [← h2, ← this]; rw [← h2] at h; exact h
  simp only [h2, ↓reduceIte] at h ⊢
  by_cases h3 : isQuote c = true
  · simp only [h3, ↓reduceIte] at h ⊢
    obtain ⟨tok, n, hs, rfl⟩ := ofSub_inv h
    have := lexString_brk_local .string (p := []) (by simp [StringKind.prefixLen]) h3 y hd r r' (tok := tok) (n := n)
      (by simpa using hs) (by simpa [one] using hc)
    simp only [List.nil_append] at this
    rw [this]; rfl
  simp only [h3, Bool.false_eq_true, ↓reduceIte] at h ⊢
  by_cases h4 : c = 33
  · simp only [h4, ↓reduceIte] at h ⊢
    rcases y with _ | ⟨a, y⟩
    · have : d ≠ 61 := by rcases isLineBreak_cases hd with rfl | rfl <;> decide
      split at h
      · rename_i heq; simp at heq; exact absurd heq.1 this
      · simp at h
    · simp only [List.cons_append] at h ⊢
      by_cases ha : a = 61
      · subst ha; exact h
      · split at h
        · rename_i heq; simp at heq; exact absurd heq.1 ha
        · simp at h
  simp only [h4, ↓reduceIte] at h ⊢
  by_cases h5 : (c = 46 && headIsDigit (y ++ d :: r)) = true
  · simpa only [h5, ↓reduceIte] using h
  simp only [h5, Bool.false_eq_true, ↓reduceIte] at h ⊢
  rw [← lexOp_brk_local h4 y hd r r']
  cases hO : lexOp (c :: (y ++ d :: r)) with
  | some p => simpa only [hO] using h
  | none =>
    simp only [hO] at h ⊢
    cases hob : openBracket c with
    | some ob => simpa only [hob] using h
    | none =>
      simp only [hob] at h ⊢
      cases hcb : closeBracket c with
      | some cb => simpa only [hcb] using h
      | none =>
        simp only [hcb] at h ⊢
        by_cases h6 : isLineBreak c = true
        · simp only [h6, ↓reduceIte] at h ⊢
          cases hnc : nextChar (c :: (y ++ d :: r)) with
          | none => simp [hnc] at h
          | some q =>
            obtain ⟨x, n, rest⟩ := q
            have hn : n ≤ 1 + y.length := by
              simp only [hnc] at h
              split at h
              · simp at h; subst h; simpa [one] using hc
              · simp only [hf, Bool.false_eq_true, ↓reduceIte] at h
                simp at h; subst h; simpa [skip] using hc
            obtain ⟨rest', hnc', _, _⟩ := nextChar_brk_local c y hd r r' hnc hn
            simpa only [hnc, hnc'] using h
        simp only [h6, Bool.false_eq_true, ↓reduceIte] at h ⊢
        by_cases h7 : isBlank c = true
        · have hbd : isBlank d = false := by rcases isLineBreak_cases hd with rfl | rfl <;> decide
          have := spanLen_brk_local (p := isBlank) (c :: y) hbd r r'
          simp only [List.cons_append] at this
          simp only [h7, ↓reduceIte] at h ⊢
          rw [← this]; exact h
        simp only [h7, Bool.false_eq_true, ↓reduceIte] at h ⊢
        by_cases h8 : c = 92
        · simp only [h8, ↓reduceIte] at h ⊢
          rcases y with _ | ⟨a, y⟩
          · simp only [List.nil_append, hd, ↓reduceIte] at h ⊢
            cases hnc : nextChar (d :: r) with
            | none => simp [hnc] at h
            | some q =>
              obtain ⟨x, n, rest⟩ := q
              have := (nextChar_ok hnc).1
              simp only [hnc] at h
              split at h
              · simp at h
              · simp at h; subst h; simp [skip] at hc; omega
          · simp only [List.cons_append] at h ⊢
            by_cases ha : isLineBreak a = true
            · simp only [ha, ↓reduceIte] at h ⊢
              cases hnc : nextChar (a :: (y ++ d :: r)) with
              | none => simp [hnc] at h
              | some q =>
                obtain ⟨x, n, rest⟩ := q
                simp only [hnc] at h
                split at h
                · simp at h
                · simp at h; subst h
                  obtain ⟨rest', hnc', _, hr'⟩ := nextChar_brk_local a y hd r r' hnc (by simp [skip] at hc; omega)
                  simp [hnc', hr']
            · simp only [ha, Bool.false_eq_true, ↓reduceIte] at h ⊢
              exact h
        simp only [h8, ↓reduceIte] at h ⊢
        exact h

/-! ### `eat_indentation`, `handle_indentations`, the step -/

theorem spanLen_brk_le {p : Nat → Bool} (y : List Nat) {d : Nat} (hd : p d = false) (r : List Nat) :
    spanLen p (y ++ d :: r) ≤ y.length := by
  induction y with
  | nil => simp [spanLen, hd]
  | cons c y ih => simp only [List.cons_append, spanLen]; split <;> simp <;> omega

/-- `eat_indentation` only moves forward -/
theorem eatIndent_pos_le {full : Bool} {l : List Nat} {k pos s t : Nat} {o : EatOut}
    (h : eatIndent full l k pos s t = .ok o) : pos ≤ o.pos := by
  fun_induction eatIndent full l k pos s t generalizing o
  all_goals first
    | (simp at h; done)
    | (simp at h; subst h; simp; done)
    | (rename_i ih; obtain ⟨o', hr, h1, _⟩ := addTok_ok h; have := ih hr; omega)
    | (rename_i ih; have := ih h; omega)

theorem eatIndent_stop {c : Nat} (cs : List Nat) (pos s t : Nat) (h32 : c ≠ 32) (h9 : c ≠ 9) (h35 : c ≠ 35)
    (h12 : c ≠ 12) (h13 : c ≠ 13) (h10 : c ≠ 10) :
    eatIndent false (c :: cs) 0 pos s t = .ok ⟨[], pos, s, t, false⟩ := by
  rw [eatIndent.eq_def]; split <;> simp_all

/-- `eat_indentation` that stops inside `y`, in front of the line break `d`, does not depend on what follows `d` -/
theorem eatIndent_brk_local {d : Nat} (hd : isLineBreak d = true) (r r' : List Nat) :
    ∀ (n : Nat) (y : List Nat), y.length ≤ n → ∀ (pos s t : Nat) (o : EatOut),
    eatIndent false (y ++ d :: r) 0 pos s t = .ok o → o.pos ≤ pos + y.length →
    eatIndent false (y ++ d :: r') 0 pos s t = .ok o := by
  intro n
  induction n with
  | zero =>
    intro y hy pos s t o h hp
    have : y = [] := List.eq_nil_of_length_eq_zero (by omega)
    subst this
    obtain ⟨e, post, hsplit, he, hn, _⟩ := eol_split hd r
    simp only [List.nil_append] at h
    rw [hsplit, eatIndent_eol he hn] at h
    have := eatIndent_pos_le h
    have : 1 ≤ e.length := by cases he <;> simp
    simp at hp; omega
  | succ n ih =>
    intro y hy pos s t o h hp
    cases y with
    | nil => exact ih [] (by simp) pos s t o h hp
    | cons c y =>
      have hy' : y.length ≤ n := by simp at hy; omega
      simp only [List.cons_append, List.length_cons] at h hp ⊢
      by_cases h32 : c = 32
      · subst h32
        simp only [eatIndent] at h ⊢
        exact ih y hy' _ _ _ o h (by omega)
      by_cases h9 : c = 9
      · subst h9
        simp only [eatIndent] at h ⊢
        by_cases hs : s ≠ 0
        · simp [hs] at h
        · simp only [hs, ↓reduceIte] at h ⊢
          exact ih y hy' _ _ _ o h (by omega)
      by_cases h12 : c = 12
      · subst h12
        simp only [eatIndent] at h ⊢
        exact ih y hy' _ _ _ o h (by omega)
      by_cases h35 : c = 35
      · subst h35
        have hm := spanLen_brk_local (p := fun c => !isLineBreak c) y (d := d) (by simp [hd]) r r'
        simp only [eatIndent, addTok_false] at h ⊢
        rw [← hm]
        generalize hmm : spanLen (fun c => !isLineBreak c) (y ++ d :: r) = m at h
        have hmy : m ≤ y.length := by
          rw [← hmm]; exact spanLen_brk_le y (by simp [hd]) r
        rw [eatIndent_skip _ m _ _ _ (by simp; omega), drop_brk hmy] at h ⊢
        exact ih (y.drop m) (by simp; omega) _ _ _ o h (by simp; omega)
      by_cases h10 : c = 10
      · subst h10
        simp only [eatIndent, addTok_false] at h ⊢
        exact ih y hy' _ _ _ o h (by omega)
      by_cases h13 : c = 13
      · subst h13
        cases y with
        | nil =>
          rcases isLineBreak_cases hd with rfl | rfl
          · simp only [List.nil_append, eatIndent, addTok_false] at h
            have := eatIndent_pos_le h
            simp at hp; omega
          · simp only [List.nil_append] at h ⊢
            have e1 := eatIndent_eol (e := [13]) (post := 13 :: r) .cr (fun _ => by simp) pos s t
            have e2 := eatIndent_eol (e := [13]) (post := 13 :: r') .cr (fun _ => by simp) pos s t
            simp only [List.singleton_append, List.length_singleton] at e1 e2
            rw [e1] at h; rw [e2]
            exact ih [] (by simp) _ _ _ o h (by simpa using hp)
        | cons a y =>
          by_cases ha : a = 10
          · subst ha
            simp only [List.cons_append, eatIndent, addTok_false] at h ⊢
            exact ih y (by simp at hy'; omega) _ _ _ o h (by simp at hp; omega)
          · have e1 := eatIndent_eol (e := [13]) (post := a :: y ++ d :: r) .cr (fun _ => by simpa using ha) pos s t
            have e2 := eatIndent_eol (e := [13]) (post := a :: y ++ d :: r') .cr (fun _ => by simpa using ha) pos s t
            simp only [List.singleton_append, List.length_singleton] at e1 e2
            rw [e1] at h; rw [e2]
            exact ih (a :: y) hy' _ _ _ o h (by omega)
      · rw [eatIndent_stop _ _ _ _ h32 h9 h35 h12 h13 h10] at h ⊢
        exact h

theorem handleIndentations_pos {cfg : Cfg} {st : LexState} {inp : List Nat} {toks : List RelTok} {p : Nat}
    {st1 : LexState} (h : handleIndentations cfg st inp = .ok (toks, p, st1)) :
    ∃ o, eatIndent cfg.fullLexer inp 0 0 0 0 = .ok o ∧ p = o.pos ∧ st1.atBol = o.atBol ∧ st1.nesting = st.nesting := by
  unfold handleIndentations at h
  cases ho : eatIndent cfg.fullLexer inp 0 0 0 0 with
  | error e => rw [ho] at h; simp at h
  | ok o =>
    refine ⟨o, rfl, ?_⟩
    rw [ho] at h; simp only [] at h
    split at h
    · simp at h; obtain ⟨_, rfl, rfl⟩ := h; simp
    split at h
    · simp at h
    split at h
    · simp at h
    · simp at h; obtain ⟨_, rfl, rfl⟩ := h; simp
    · split at h
      · simp at h; obtain ⟨_, rfl, rfl⟩ := h; simp
      · simp at h
    · split at h
      · simp at h
      · simp at h; obtain ⟨_, rfl, rfl⟩ := h; simp

/-- `handle_indentations` that stops inside `y`, in front of the line break `d` -/
theorem handleIndentations_brk_local {cfg : Cfg} (hf : cfg.fullLexer = false) (st : LexState) (y : List Nat)
    {d : Nat} (hd : isLineBreak d = true) (r r' : List Nat) {toks : List RelTok} {p : Nat} {st1 : LexState}
    (h : handleIndentations cfg st (y ++ d :: r) = .ok (toks, p, st1)) (hp : p ≤ y.length) :
    handleIndentations cfg st (y ++ d :: r') = .ok (toks, p, st1) := by
  obtain ⟨o, ho, rfl, _⟩ := handleIndentations_pos h
  rw [hf] at ho
  have ho' := eatIndent_brk_local hd r r' y.length y (Nat.le_refl _) 0 0 0 o ho (by omega)
  unfold handleIndentations at h ⊢
  rw [hf, ho] at h
  rw [hf, ho']
  exact h

/-- `consume_normal` that ends in front of a line break does not depend on what follows the line break -/
theorem consumeNormal_brk_local {cfg : Cfg} (hup : UpOk cfg.up) (hf : cfg.fullLexer = false) (st : LexState)
    (y : List Nat) {d : Nat} (hd : isLineBreak d = true) (r r' : List Nat) {o : StepOut}
    (h : consumeNormal cfg st (y ++ d :: r) = .ok o) (hc : o.consumed ≤ y.length) :
    consumeNormal cfg st (y ++ d :: r') = .ok o := by
  cases y with
  | nil =>
    simp only [List.nil_append, consumeNormal, isIdStart_break hup hd, Bool.false_eq_true, ↓reduceIte] at h
    have := (consumeCharacter_ok h).pos
    simp at hc; omega
  | cons c y =>
    simp only [List.cons_append, consumeNormal] at h ⊢
    by_cases hid : isIdStart cfg.up c = true
    · simp only [hid, ↓reduceIte] at h ⊢
      obtain ⟨tok, n, hs, rfl⟩ := ofSub_inv h
      rw [lexIdentifier_brk_local hup.sane c y hd r r' hs (by simp [one] at hc; omega)]
      rfl
    · simp only [hid, Bool.false_eq_true, ↓reduceIte] at h ⊢
      exact consumeCharacter_brk_local hf st c y hd r r' h (by simp at hc; omega)

/-- **L1**: a step that ends in front of a line break does not depend on what follows the line break -/
theorem step_brk_local {cfg : Cfg} (hup : UpOk cfg.up) (hf : cfg.fullLexer = false) {st : LexState}
    {y : List Nat} {d : Nat} (hd : isLineBreak d = true) {r : List Nat} {o : StepOut}
    (h : step cfg st (y ++ d :: r) = .ok o) (hc : o.consumed ≤ y.length) (r' : List Nat) :
    step cfg st (y ++ d :: r') = .ok o := by
  unfold step at h ⊢
  by_cases hb : st.atBol = true
  · simp only [hb, ↓reduceIte] at h ⊢
    cases hh : handleIndentations cfg st (y ++ d :: r) with
    | error e => simp [hh] at h
    | ok q =>
      obtain ⟨toks1, p, st1⟩ := q
      simp only [hh] at h
      cases hn : consumeNormal cfg st1 ((y ++ d :: r).drop p) with
      | error e => simp [hn] at h
      | ok o' =>
        simp only [hn, Except.ok.injEq] at h
        subst h
        simp only [] at hc
        have hp : p ≤ y.length := by omega
        rw [handleIndentations_brk_local hf st y hd r r' hh hp]
        simp only []
        rw [drop_brk hp] at hn ⊢
        rw [consumeNormal_brk_local hup hf st1 (y.drop p) hd r r' hn (by simp; omega)]
  · simp only [hb, Bool.false_eq_true, ↓reduceIte] at h ⊢
    exact consumeNormal_brk_local hup hf st y hd r r' h hc

/-- `x=1⏎y` at the start: the first step (`x`, 1 character of `y = x=1`) is the same in `x=1⏎zz` -/
example : step localCfg .init ([120, 61, 49] ++ 10 :: [122, 122]) =
    .ok ⟨[⟨.name [120], 0, 1⟩], 1, ⟨false, 0, [⟨0, 0⟩]⟩, false⟩ :=
  step_brk_local localUp_ok rfl (y := [120, 61, 49]) (d := 10) (by decide) (r := [121]) (by rfl) (by decide) [122, 122]

/-- the step that ends exactly in front of the line break: the number `1` of `x=1⏎y`, also with CR LF behind -/
example : step localCfg ⟨false, 0, [⟨0, 0⟩]⟩ ([49] ++ 13 :: [10, 122]) =
    .ok ⟨[⟨.int 1, 0, 1⟩], 1, ⟨false, 0, [⟨0, 0⟩]⟩, false⟩ :=
  step_brk_local localUp_ok rfl (y := [49]) (d := 13) (by decide) (r := [121]) (by rfl) (by decide) [10, 122]

/-- at the beginning of a line: blank line, comment line, indentation, then `y` — `y` may contain line breaks -/
example : step localCfg .init ([10, 35, 99, 13, 10, 32, 32, 121] ++ 10 :: []) =
    step localCfg .init ([10, 35, 99, 13, 10, 32, 32, 121] ++ 10 :: [122]) := by
  have h : step localCfg .init ([10, 35, 99, 13, 10, 32, 32, 121] ++ 10 :: [122]) =
      .ok ⟨[⟨.indent, 5, 7⟩, ⟨.name [121], 7, 8⟩], 8, ⟨false, 0, [⟨0, 2⟩, ⟨0, 0⟩]⟩, false⟩ := by rfl
  rw [h]
  exact step_brk_local localUp_ok rfl (by decide) h (by decide) []

/-! ## L2: the NEWLINE step -/


/-- only the line-break arm of `consume_character` touches `at_begin_of_line` -/
theorem consumeCharacter_atBol {cfg : Cfg} {st : LexState} {c : Nat} {cs : List Nat} {o : StepOut}
    (hc : isLineBreak c = false) (h : consumeCharacter cfg st c cs = .ok o) : o.st.atBol = st.atBol := by
  unfold consumeCharacter at h
  split at h
  · obtain ⟨_, _, _, rfl⟩ := ofSub_inv h; rfl
  split at h
  · split at h <;> (simp at h; subst h; rfl)
  split at h
  · obtain ⟨_, _, _, rfl⟩ := ofSub_inv h; rfl
  split at h
  · split at h
    · simp at h; subst h; rfl
    · simp at h
  split at h
  · obtain ⟨_, _, _, rfl⟩ := ofSub_inv h; rfl
  split at h
  · simp at h; subst h; rfl
  split at h
  · simp at h; subst h; rfl
  split at h
  · split at h
    · simp at h
    · simp at h; subst h; rfl
  simp only [hc, Bool.false_eq_true, ↓reduceIte] at h
  split at h
  · simp at h; subst h; rfl
  split at h
  · split at h
    · split at h
      · split at h
        · simp at h
        · split at h
          · simp at h
          · simp at h; subst h; rfl
      · simp at h
    · simp at h
  split at h
  · simp at h; subst h; rfl
  · simp at h

/-- where `eat_indentation` stops: at the end of the input (`at_begin_of_line` stays set), or in front of a
    character that is not a line break (cleared) -/
theorem eatIndent_stops {l : List Nat} {k pos s t : Nat} {o : EatOut} (h : eatIndent false l k pos s t = .ok o) :
    ∃ i, o.pos = pos + i ∧ ((l.drop i = [] ∧ o.atBol = true) ∨
      (∃ c rest, l.drop i = c :: rest ∧ isLineBreak c = false ∧ o.atBol = false)) := by
  fun_induction eatIndent false l k pos s t generalizing o
  case case1 => simp at h; subst h; exact ⟨0, rfl, Or.inl ⟨rfl, rfl⟩⟩
  case case11 c cs pos s t _ _ _ _ _ _ _ =>
    simp at h; subst h
    refine ⟨0, rfl, Or.inr ⟨c, cs, rfl, ?_, rfl⟩⟩
    cases hlb : isLineBreak c with
    | false => rfl
    | true => rcases isLineBreak_cases hlb with rfl | rfl <;> simp_all
  case case4 => simp at h
  all_goals
    try simp only [addTok_false] at h
    rename_i ih
    obtain ⟨i, h1, h2⟩ := ih h
    first
      | exact ⟨i + 1, by omega, by simpa using h2⟩
      | exact ⟨i + 2, by omega, by simpa using h2⟩



/-- `consume_normal` sets `at_begin_of_line` only in the NEWLINE arm -/
theorem consumeNormal_to_bol {cfg : Cfg} (hf : cfg.fullLexer = false) {st : LexState} {inp : List Nat}
    {o : StepOut} (h : consumeNormal cfg st inp = .ok o) (hd : o.done = false) (hst : st.atBol = false)
    (hb : o.st.atBol = true) :
    st.nesting = 0 ∧ ∃ e rest, inp = e ++ rest ∧ IsEol e ∧ NoFuse e rest ∧
      o = ⟨[⟨.newline, 0, e.length⟩], e.length, { st with atBol := true }, false⟩ := by
  cases inp with
  | nil =>
    simp only [consumeNormal, consumeEof] at h
    split at h
    · simp at h
    · simp at h; subst h; simp at hd
  | cons c cs =>
    simp only [consumeNormal] at h
    split at h
    · obtain ⟨_, _, _, rfl⟩ := ofSub_inv h
      simp [one, hst] at hb
    · by_cases hlb : isLineBreak c = true
      · obtain ⟨e, post, hsplit, he, hn, _⟩ := eol_split hlb cs
        rw [consumeCharacter_eol hf st he hn hsplit.symm] at h
        by_cases hnest : st.nesting = 0
        · rw [if_pos hnest] at h
          exact ⟨hnest, e, post, hsplit, he, hn, (Except.ok.inj h).symm⟩
        · simp only [hnest, ↓reduceIte, Except.ok.injEq] at h
          subst h; simp [skip, hst] at hb
      · have := consumeCharacter_atBol (by simpa using hlb) h
        rw [this, hst] at hb; simp at hb

/-- **L2**: a step after which the lexer is at the beginning of a line is exactly the NEWLINE step -/
theorem step_to_bol {cfg : Cfg} (hf : cfg.fullLexer = false) {st : LexState} {inp : List Nat} {o : StepOut}
    (h : step cfg st inp = .ok o) (hd : o.done = false) (hb : o.st.atBol = true) :
    st.atBol = false ∧ st.nesting = 0 ∧ ∃ e rest, inp = e ++ rest ∧ IsEol e ∧ NoFuse e rest ∧
      o = ⟨[⟨.newline, 0, e.length⟩], e.length, { st with atBol := true }, false⟩ := by
  unfold step at h
  by_cases hst : st.atBol = true
  · exfalso
    simp only [hst, ↓reduceIte] at h
    cases hh : handleIndentations cfg st inp with
    | error e => simp [hh] at h
    | ok q =>
      obtain ⟨toks1, p, st1⟩ := q
      simp only [hh] at h
      cases hn : consumeNormal cfg st1 (inp.drop p) with
      | error e => simp [hn] at h
      | ok o' =>
        simp only [hn, Except.ok.injEq] at h
        subst h
        simp only [] at hd hb
        obtain ⟨eo, heo, rfl, hbol, _⟩ := handleIndentations_pos hh
        rw [hf] at heo
        obtain ⟨i, hi, hcase⟩ := eatIndent_stops heo
        simp only [Nat.zero_add] at hi
        rw [hi] at hn
        rcases hcase with ⟨hnil, _⟩ | ⟨c, rest, hcons, hc, hfalse⟩
        · rw [hnil] at hn
          simp only [consumeNormal, consumeEof] at hn
          split at hn
          · simp at hn
          · simp at hn; subst hn; simp at hd
        · rw [hcons] at hn
          obtain ⟨_, e, rest', hsplit, he, _, _⟩ := consumeNormal_to_bol hf hn hd (by rw [hbol, hfalse]) hb
          obtain ⟨c', r', rfl, hc'⟩ := eol_cons he
          simp at hsplit
          rw [hsplit.1, hc'] at hc; simp at hc
  · have hst' : st.atBol = false := by simpa using hst
    simp only [hst', Bool.false_eq_true, ↓reduceIte] at h
    exact ⟨hst', consumeNormal_to_bol hf h hd hst' hb⟩

/-- `x=1⏎y`: the fourth step (state after `1`, in front of `⏎y`) is the NEWLINE step, and `step_to_bol` says so -/
example : ∃ e rest, [10, 121] = e ++ rest ∧ IsEol e ∧
    step localCfg ⟨false, 0, [⟨0, 0⟩]⟩ [10, 121] = .ok ⟨[⟨.newline, 0, e.length⟩], e.length, ⟨true, 0, [⟨0, 0⟩]⟩, false⟩ := by
  have h : step localCfg ⟨false, 0, [⟨0, 0⟩]⟩ [10, 121] = .ok ⟨[⟨.newline, 0, 1⟩], 1, ⟨true, 0, [⟨0, 0⟩]⟩, false⟩ := by
    rfl
  obtain ⟨_, _, e, rest, h1, h2, _, h4⟩ := step_to_bol (cfg := localCfg) rfl h rfl rfl
  exact ⟨e, rest, h1, h2, by rw [h, h4]⟩


/-! ## L3: the indentation stack is not read in the middle of a line -/

/-- replace the indentation stack in the state of a step result -/
def setIndents (stk : List IndentLevel) (o : StepOut) : StepOut := { o with st := { o.st with indents := stk } }

/-- the same on results -/
def withIndents (stk : List IndentLevel) : Except ErrRel StepOut → Except ErrRel StepOut
  | .ok o => .ok (setIndents stk o)
  | .error e => .error e

theorem ofSub_setIndents (st : LexState) (stk : List IndentLevel) (s : Sub) :
    ofSub { st with indents := stk } s = withIndents stk (ofSub st s) := by
  cases s with
  | ok p => rfl
  | error e => rfl

/-- `consume_character` carries the indentation stack along without looking at it -/
theorem consumeCharacter_setIndents (cfg : Cfg) (st : LexState) (stk : List IndentLevel) (c : Nat) (cs : List Nat) :
    consumeCharacter cfg { st with indents := stk } c cs = withIndents stk (consumeCharacter cfg st c cs) := by
  unfold consumeCharacter
  simp only [ofSub_setIndents]
  by_cases h1 : isDigit c = true
  · simp only [h1, ↓reduceIte]
  simp only [h1, Bool.false_eq_true, ↓reduceIte]
  by_cases h2 : c = 35
  · simp only [h2, ↓reduceIte]; split <;> rfl
  simp only [h2, ↓reduceIte]
  by_cases h3 : isQuote c = true
  · simp only [h3, ↓reduceIte]
  simp only [h3, Bool.false_eq_true, ↓reduceIte]
  by_cases h4 : c = 33
  · simp only [h4, ↓reduceIte]; split <;> rfl
  simp only [h4, ↓reduceIte]
  by_cases h5 : (c = 46 && headIsDigit cs) = true
  · simp only [h5, ↓reduceIte]
  simp only [h5, Bool.false_eq_true, ↓reduceIte]
  cases lexOp (c :: cs) with
  | some p => rfl
  | none =>
  simp only []
  cases openBracket c with
  | some ob => rfl
  | none =>
  simp only []
  cases closeBracket c with
  | some cb => simp only []; split <;> rfl
  | none =>
  simp only []
  by_cases h6 : isLineBreak c = true
  · simp only [h6, ↓reduceIte]
    cases nextChar (c :: cs) with
    | none => rfl
    | some q => simp only []; split <;> (try split) <;> rfl
  simp only [h6, Bool.false_eq_true, ↓reduceIte]
  by_cases h7 : isBlank c = true
  · simp only [h7, ↓reduceIte]; rfl
  simp only [h7, Bool.false_eq_true, ↓reduceIte]
  by_cases h8 : c = 92
  · simp only [h8, ↓reduceIte]
    cases cs with
    | nil => rfl
    | cons d t =>
      simp only []
      by_cases hd : isLineBreak d = true
      · simp only [hd, ↓reduceIte]
        cases nextChar (d :: t) with
        | none => rfl
        | some q => simp only []; split <;> rfl
      · simp only [hd, Bool.false_eq_true, ↓reduceIte]; rfl
  simp only [h8, ↓reduceIte]
  split <;> rfl

theorem flushIndents_fst (stk : List IndentLevel) : (flushIndents stk).1 = stk.length - 1 := by
  fun_induction flushIndents stk <;> simp_all
  rename_i r hr _
  cases r with
  | nil => simp at hr
  | cons a r => simp

/-- the end-of-input step for two indentation stacks of the same height: same tokens (as many `Dedent`s as there
    are levels above the base), same end state up to the stack that is left -/
theorem consumeEof_indents (st : LexState) {stk stk' : List IndentLevel} (hl : stk.length = stk'.length)
    {o : StepOut} (h : consumeEof { st with indents := stk } = .ok o) :
    o.toks = (if st.atBol then [] else [⟨.newline, 0, 0⟩]) ++ List.replicate (stk.length - 1) ⟨.dedent, 0, 0⟩ ∧
    o.st.indents = (flushIndents stk).2 ∧
    consumeEof { st with indents := stk' } = .ok (setIndents (flushIndents stk').2 o) := by
  unfold consumeEof at h ⊢
  by_cases hn : st.nesting > 0
  · simp [hn] at h
  · simp only [hn, ↓reduceIte, Except.ok.injEq] at h ⊢
    subst h
    simp [setIndents, flushIndents_fst, hl]

/-- the errors of the end-of-input step do not depend on the indentation stack -/
theorem consumeEof_indents_err (st : LexState) (stk stk' : List IndentLevel) {e : ErrRel}
    (h : consumeEof { st with indents := stk } = .error e) : consumeEof { st with indents := stk' } = .error e := by
  unfold consumeEof at h ⊢
  by_cases hn : st.nesting > 0
  · simpa [hn] using h
  · simp [hn] at h

/-- **L3**: a step taken not at the beginning of a line does not read the indentation stack: on a non-empty
    input the stack is carried along; at the end of the input the step is `consumeEof` -/
theorem step_mid_indents {cfg : Cfg} {st : LexState} (hb : st.atBol = false) (inp : List Nat)
    (stk : List IndentLevel) :
    step cfg { st with indents := stk } inp =
      match step cfg st inp with
      | .ok o => if o.done then consumeEof { st with indents := stk } else .ok (setIndents stk o)
      | .error e => .error e := by
  have e1 : ∀ s : LexState, s.atBol = false → step cfg s inp = consumeNormal cfg s inp := by
    intro s hs; simp [step, hs]
  rw [e1 _ hb, e1 { st with indents := stk } hb]
  cases inp with
  | nil =>
    simp only [consumeNormal]
    cases h : consumeEof st with
    | error e => exact consumeEof_indents_err st st.indents stk h
    | ok o =>
      have : o.done = true := by
        unfold consumeEof at h; split at h
        · simp at h
        · simp at h; subst h; rfl
      simp [this]
  | cons c cs =>
    simp only [consumeNormal]
    have key : ∀ r : Except ErrRel StepOut, (∀ o, r = .ok o → o.done = false) →
        withIndents stk r = match r with
          | .ok o => if o.done then consumeEof { st with indents := stk } else .ok (setIndents stk o)
          | .error e => .error e := by
      intro r hr
      cases r with
      | error e => rfl
      | ok o => simp [withIndents, hr o rfl]
    by_cases hid : isIdStart cfg.up c = true
    · simp only [hid, ↓reduceIte]
      rw [ofSub_setIndents st stk]
      apply key
      intro o ho
      obtain ⟨_, _, _, rfl⟩ := ofSub_inv ho
      rfl
    · simp only [hid, Bool.false_eq_true, ↓reduceIte]
      rw [consumeCharacter_setIndents cfg st stk]
      exact key _ (fun o ho => (consumeCharacter_ok ho).notDone)

/-- L3, success on a non-final step -/
theorem step_mid_indents_ok {cfg : Cfg} {st : LexState} (hb : st.atBol = false) {inp : List Nat} {o : StepOut}
    (h : step cfg st inp = .ok o) (hd : o.done = false) (stk : List IndentLevel) :
    step cfg { st with indents := stk } inp = .ok (setIndents stk o) := by
  rw [step_mid_indents hb, h]; simp [hd]

/-- L3, errors -/
theorem step_mid_indents_err {cfg : Cfg} {st : LexState} (hb : st.atBol = false) {inp : List Nat} {e : ErrRel}
    (h : step cfg st inp = .error e) (stk : List IndentLevel) :
    step cfg { st with indents := stk } inp = .error e := by
  rw [step_mid_indents hb, h]


/-- `=1⏎` behind `x`, with the stack of an indented block instead of the base stack -/
example : step localCfg ⟨false, 0, [⟨0, 4⟩, ⟨0, 0⟩]⟩ [61, 49, 10] =
    .ok ⟨[⟨.op .Equal, 0, 1⟩], 1, ⟨false, 0, [⟨0, 4⟩, ⟨0, 0⟩]⟩, false⟩ :=
  step_mid_indents_ok (cfg := localCfg) (st := ⟨false, 0, [⟨0, 0⟩]⟩) rfl (inp := [61, 49, 10])
    (o := ⟨[⟨.op .Equal, 0, 1⟩], 1, ⟨false, 0, [⟨0, 0⟩]⟩, false⟩) (by rfl) rfl [⟨0, 4⟩, ⟨0, 0⟩]

/-- end of input inside a block indented by four spaces / by one tab: NEWLINE and one DEDENT either way -/
example : consumeEof ⟨false, 0, [⟨1, 0⟩, ⟨0, 0⟩]⟩ =
    .ok ⟨[⟨.newline, 0, 0⟩, ⟨.dedent, 0, 0⟩], 0, ⟨true, 0, [⟨0, 0⟩]⟩, true⟩ :=
  (consumeEof_indents ⟨false, 0, []⟩ (stk := [⟨0, 4⟩, ⟨0, 0⟩]) (stk' := [⟨1, 0⟩, ⟨0, 0⟩]) rfl
    (o := ⟨[⟨.newline, 0, 0⟩, ⟨.dedent, 0, 0⟩], 0, ⟨true, 0, [⟨0, 0⟩]⟩, true⟩) (by rfl)).2.2

end PV.C08
