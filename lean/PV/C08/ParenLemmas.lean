import PV.C11.Lemmas
import PV.C11.Thm
import PV.Prog.MonoC11
/-
  C08 — "redundant parentheses around expressions never change the tree", helper lemmas for `PV/C08/Paren.lean`
  (all about the reference expression parser `PV.C11.parseRef` and its mutual family in `PV/C11/Spec.lean`):

  * fuel monotonicity in usable form (`mono_add`, `mono_le`, `mono_det`, from `PV.Prog.c11Mono`);
  * `ns_*`  : no function of the chain NamedTest → … → Atom ever returns a `Starred` node;
  * `so_*`  : how the input must start if the parser function of a level succeeds (`startOk`);
  * `lift'` : lifting an operand through the precedence chain WITHOUT a hypothesis on its first token;
  * `parses_det`, `namedTest_of_test'`;
  * `EqLarge g X X'` ("for every sufficiently large fuel `g` answers the same on `X` and `X'`"), `Reads`, and one
    closure lemma `pos_<name>` per operand position of the grammar: if the parser function called at the hole
    answers the same on `X` and `X'`, so does the enclosing function on `pre ++ X` and `pre ++ X'`.  Lemmas whose
    hole comes after an operand that is already read take that read as a hypothesis (`Parses … (u ++ Z) e Z` for
    both continuations `Z`, `Z'`).  A concrete instance of every `pos_<name>` lemma (non-vacuity) is in the
    `Example` section of `PV/C08/Paren.lean`, as a `ParenCtx` derivation using the rule of the same name.
-/
namespace PV.C08.Paren
open PV.Expr PV.C11

theorem mono_add {α : Type} {g : Nat → Option α} (hm : ∀ f, (g f).isSome = true → g (f + 1) = g f)
    {f : Nat} {v : α} (h : g f = some v) (c : Nat) : g (f + c) = some v := by
  induction c with
  | zero => exact h
  | succ c ih => rw [← Nat.add_assoc, hm _ (by rw [ih]; rfl), ih]

theorem mono_le {α : Type} {g : Nat → Option α} (hm : ∀ f, (g f).isSome = true → g (f + 1) = g f)
    {f f' : Nat} {v : α} (h : g f = some v) (hle : f ≤ f') : g f' = some v := by
  obtain ⟨c, rfl⟩ : ∃ c, f' = f + c := ⟨f' - f, by omega⟩
  exact mono_add hm h c


/-- repeat splitting in hypothesis then close by simp -/
macro "crack" h:ident : tactic => `(tactic|
  (repeat' (first | split_any | (simp only [] at $h:ident))
   all_goals (try (simp only [Nat.succ_eq_add_one, Nat.add_right_cancel_iff] at *))
   all_goals (try subst_vars)
   all_goals (try (cases $h:ident; rfl))
   all_goals (try (simp_all [isStarred]; done))))

theorem ns_strings {f ts e r} (h : parseStrings f ts = some (e, r)) : isStarred e = false := by
  unfold parseStrings at h
  crack h

theorem ns_yield {f ts e r} (h : parseYieldAtom f ts = some (e, r)) : isStarred e = false := by
  unfold parseYieldAtom at h
  crack h

theorem ns_list {f ts e r} (h : parseListAtom f ts = some (e, r)) : isStarred e = false := by
  unfold parseListAtom at h
  crack h

theorem ns_brace {f ts e r} (h : parseBraceAtom f ts = some (e, r)) : isStarred e = false := by
  unfold parseBraceAtom at h
  crack h

theorem ns_paren {f ts e r} (h : parseParenAtom f ts = some (e, r)) : isStarred e = false := by
  unfold parseParenAtom at h
  crack h
  all_goals first | exact ns_yield h | (rename_i h1 _ _ _; cases h; simpa using h1)

theorem ns_atom {f ts e r} (h : parseAtom f ts = some (e, r)) : isStarred e = false := by
  unfold parseAtom at h
  crack h
  all_goals first | exact ns_strings h | exact ns_list h | exact ns_paren h | exact ns_brace h

theorem ns_trailers : ∀ (f : Nat) {acc ts e r}, parseTrailers f acc ts = some (e, r) →
    isStarred acc = false → isStarred e = false := by
  intro f
  induction f with
  | zero => intro acc ts e r h; simp [parseTrailers] at h
  | succ f ih =>
    intro acc ts e r h ha
    unfold parseTrailers at h
    crack h
    all_goals exact ih h rfl

theorem ns_atomExpr2 {f ts e r} (h : parseAtomExpr2 f ts = some (e, r)) : isStarred e = false := by
  unfold parseAtomExpr2 at h
  crack h
  rename_i h1
  exact ns_trailers _ h (ns_atom h1)

theorem ns_atomExpr {f ts e r} (h : parseAtomExpr f ts = some (e, r)) : isStarred e = false := by
  unfold parseAtomExpr at h
  crack h
  exact ns_atomExpr2 h

theorem ns_power {f ts e r} (h : parsePower f ts = some (e, r)) : isStarred e = false := by
  unfold parsePower at h
  crack h
  exact ns_atomExpr h

theorem ns_factor {f ts e r} (h : parseFactor f ts = some (e, r)) : isStarred e = false := by
  unfold parseFactor at h
  crack h
  exact ns_power h

theorem ns_binLoop (k : Nat) : ∀ (f : Nat) {acc ts e r}, parseBinLoop k f acc ts = some (e, r) →
    isStarred acc = false → isStarred e = false := by
  intro f
  induction f with
  | zero => intro acc ts e r h; simp [parseBinLoop] at h
  | succ f ih =>
    intro acc ts e r h ha
    unfold parseBinLoop at h
    crack h
    all_goals exact ih h rfl

theorem ns_bin : ∀ (f k : Nat) {ts e r}, parseBin k f ts = some (e, r) → isStarred e = false := by
  intro f
  induction f with
  | zero => intro k ts e r h; simp [parseBin] at h
  | succ f ih =>
    intro k ts e r h
    unfold parseBin at h
    by_cases hk : k ≥ 5
    · simp only [hk, if_true] at h
      crack h
      rename_i h1
      exact ns_binLoop _ _ h (ns_factor h1)
    · simp only [hk, if_false] at h
      crack h
      rename_i h1
      exact ns_binLoop _ _ h (ih _ h1)

theorem ns_cmp {f ts e r} (h : parseCmp f ts = some (e, r)) : isStarred e = false := by
  unfold parseCmp at h
  crack h
  rename_i h1 _ _
  cases h
  exact ns_bin _ _ h1

theorem ns_notTest {f ts e r} (h : parseNotTest f ts = some (e, r)) : isStarred e = false := by
  unfold parseNotTest at h
  crack h
  exact ns_cmp h

theorem ns_andTest {f ts e r} (h : parseAndTest f ts = some (e, r)) : isStarred e = false := by
  unfold parseAndTest at h
  crack h
  exact ns_notTest h

theorem ns_orTest {f ts e r} (h : parseOrTest f ts = some (e, r)) : isStarred e = false := by
  unfold parseOrTest at h
  crack h
  exact ns_andTest h

theorem ns_lambda {f ts e r} (h : parseLambda f ts = some (e, r)) : isStarred e = false := by
  unfold parseLambda at h
  crack h

theorem ns_test {f ts e r} (h : parseTest f ts = some (e, r)) : isStarred e = false := by
  unfold parseTest at h
  crack h
  · exact ns_lambda h
  · exact ns_orTest h

theorem ns_namedTest {f ts e r} (h : parseNamedTest f ts = some (e, r)) : isStarred e = false := by
  unfold parseNamedTest at h
  crack h
  exact ns_test h



/-- first tokens of an atom -/
def atomHead : Tok → Bool
  | .name _ | .int _ | .float _ | .imag _ | .str _ _ | .bytes _ | .fstr .. => true
  | .kw .true | .kw .false | .kw .none => true
  | .op .ellipsis | .op .lpar | .op .lsqb | .op .lbrace => true
  | _ => false

/-- the token lists on which the parser function of level `lvl` can succeed at all start like this -/
def startOk (lvl : Nat) : List Tok → Bool
  | [] => false
  | t :: _ =>
    atomHead t || (decide (lvl ≤ 14) && t == .kw .await)
    || (decide (lvl ≤ 12) && (t == .op .plus || t == .op .minus || t == .op .tilde))
    || (decide (lvl ≤ 4) && t == .kw .not) || (decide (lvl ≤ 1) && t == .kw .lambda)

theorem startOk_anti {l l' : Nat} {ts : List Tok} (h : l ≤ l') (hs : startOk l' ts = true) : startOk l ts = true := by
  cases ts with
  | nil => simp [startOk] at hs
  | cons t r =>
    simp only [startOk, Bool.or_eq_true, Bool.and_eq_true, decide_eq_true_eq] at hs ⊢
    grind

theorem so_atom {f ts v} (h : parseAtom f ts = some v) : startOk 15 ts = true := by
  unfold parseAtom at h
  split at h <;> first | rfl | cases h

theorem so_atomExpr2 {f ts v} (h : parseAtomExpr2 f ts = some v) : startOk 15 ts = true := by
  unfold parseAtomExpr2 at h
  split at h
  · cases h
  · split at h
    · rename_i h1; exact so_atom h1
    · cases h

theorem so_atomExpr {f ts v} (h : parseAtomExpr f ts = some v) : startOk 14 ts = true := by
  unfold parseAtomExpr at h
  split at h
  · cases h
  · rfl
  · exact startOk_anti (by omega) (so_atomExpr2 h)

theorem so_power {f ts v} (h : parsePower f ts = some v) : startOk 14 ts = true := by
  unfold parsePower at h
  split at h
  · cases h
  · split at h
    · rename_i h1; exact so_atomExpr h1
    · rename_i h1; exact so_atomExpr h

theorem so_factor {f ts v} (h : parseFactor f ts = some v) : startOk 12 ts = true := by
  unfold parseFactor at h
  split at h
  · cases h
  · split at h
    · rename_i h1; unfold unaryOpAt at h1; split at h1 <;> first | rfl | cases h1
    · exact startOk_anti (by omega) (so_power h)

theorem so_bin : ∀ (f k : Nat) {ts v}, parseBin k f ts = some v → startOk 12 ts = true := by
  intro f
  induction f with
  | zero => intro k ts v h; simp [parseBin] at h
  | succ f ih =>
    intro k ts v h
    unfold parseBin at h
    by_cases hk : k ≥ 5
    · simp only [hk, if_true] at h
      split at h
      · rename_i h1; exact so_factor h1
      · cases h
    · simp only [hk, if_false] at h
      split at h
      · rename_i h1; exact ih _ h1
      · cases h

theorem so_cmp {f ts v} (h : parseCmp f ts = some v) : startOk 12 ts = true := by
  unfold parseCmp at h
  split at h
  · cases h
  · split at h
    · rename_i h1; exact so_bin _ _ h1
    · cases h

theorem so_notTest {f ts v} (h : parseNotTest f ts = some v) : startOk 4 ts = true := by
  unfold parseNotTest at h
  split at h
  · cases h
  · rfl
  · exact startOk_anti (by omega) (so_cmp h)

theorem so_andTest {f ts v} (h : parseAndTest f ts = some v) : startOk 4 ts = true := by
  unfold parseAndTest at h
  split at h
  · cases h
  · split at h
    · rename_i h1; exact so_notTest h1
    · exact so_notTest h

theorem so_orTest {f ts v} (h : parseOrTest f ts = some v) : startOk 4 ts = true := by
  unfold parseOrTest at h
  split at h
  · cases h
  · split at h
    · rename_i h1; exact so_andTest h1
    · exact so_andTest h

theorem so_test {f ts v} (h : parseTest f ts = some v) : startOk 1 ts = true := by
  unfold parseTest at h
  split at h
  · cases h
  · rfl
  · split at h
    · rename_i h1; exact startOk_anti (by omega) (so_orTest h1)
    · exact startOk_anti (by omega) (so_orTest h)

theorem so_namedTest {f ts v} (h : parseNamedTest f ts = some v) : startOk 1 ts = true := by
  unfold parseNamedTest at h
  split at h
  · cases h
  · rfl
  · exact so_test h

/-- the success of the parser function of level `lvl` says how the input starts -/
theorem so_parseAt {lvl f ts v} (h1 : 1 ≤ lvl) (h15 : lvl ≤ 15) (h : parseAt lvl f ts = some v) :
    startOk lvl ts = true := by
  have hl : lvl = 1 ∨ lvl = 2 ∨ lvl = 3 ∨ lvl = 4 ∨ lvl = 5 ∨ lvl = 6 ∨ lvl = 7 ∨ lvl = 8 ∨ lvl = 9 ∨
      lvl = 10 ∨ lvl = 11 ∨ lvl = 12 ∨ lvl = 13 ∨ lvl = 14 ∨ lvl = 15 := by omega
  rcases hl with rfl | rfl | rfl | rfl | rfl | rfl | rfl | rfl | rfl | rfl | rfl | rfl | rfl | rfl | rfl
  · rw [parseAt_1] at h; exact so_test h
  · rw [parseAt_2] at h; exact startOk_anti (by omega) (so_orTest h)
  · rw [parseAt_3] at h; exact startOk_anti (by omega) (so_andTest h)
  · rw [parseAt_4] at h; exact so_notTest h
  · rw [parseAt_5] at h; exact startOk_anti (by omega) (so_cmp h)
  · rw [parseAt_bin (k := 0) (by omega)] at h; exact startOk_anti (by omega) (so_bin _ _ h)
  · rw [parseAt_bin (k := 1) (by omega)] at h; exact startOk_anti (by omega) (so_bin _ _ h)
  · rw [parseAt_bin (k := 2) (by omega)] at h; exact startOk_anti (by omega) (so_bin _ _ h)
  · rw [parseAt_bin (k := 3) (by omega)] at h; exact startOk_anti (by omega) (so_bin _ _ h)
  · rw [parseAt_bin (k := 4) (by omega)] at h; exact startOk_anti (by omega) (so_bin _ _ h)
  · rw [parseAt_bin (k := 5) (by omega)] at h; exact startOk_anti (by omega) (so_bin _ _ h)
  · rw [parseAt_12] at h; exact so_factor h
  · rw [parseAt_13] at h; exact startOk_anti (by omega) (so_power h)
  · rw [parseAt_14] at h; exact so_atomExpr h
  · rw [parseAt_15] at h; exact so_atomExpr2 h


theorem mono_det {α : Type} {g : Nat → Option α} (hm : ∀ f, (g f).isSome = true → g (f + 1) = g f)
    {f f' : Nat} {v v' : α} (h : g f = some v) (h' : g f' = some v') : v = v' := by
  have a := mono_le hm h (Nat.le_max_left f f')
  have b := mono_le hm h' (Nat.le_max_right f f')
  rw [a] at b
  exact Option.some.inj b

theorem startOk_cons {lvl : Nat} {ts : List Tok} (h : startOk lvl ts = true) : ∃ t r, ts = t :: r := by
  cases ts with
  | nil => simp [startOk] at h
  | cons t r => exact ⟨t, r, rfl⟩


/-! ## head-free lifting through the precedence chain -/

theorem lift_one' {lvl : Nat} {ts : List Tok} {e rest} (h1 : 1 ≤ lvl) (h15 : lvl < 15)
    (h : Parses (parseAt (lvl + 1)) ts e rest) (hs : Stop lvl rest) : Parses (parseAt lvl) ts e rest := by
  have hso : startOk (lvl + 1) ts = true := by
    obtain ⟨n, hn⟩ := h
    exact so_parseAt (by omega) (by omega) (hn n (Nat.le_refl _))
  have hl : lvl = 1 ∨ lvl = 2 ∨ lvl = 3 ∨ lvl = 4 ∨ lvl = 5 ∨ lvl = 6 ∨ lvl = 7 ∨ lvl = 8 ∨ lvl = 9 ∨
      lvl = 10 ∨ lvl = 11 ∨ lvl = 12 ∨ lvl = 13 ∨ lvl = 14 := by omega
  rcases hl with rfl | rfl | rfl | rfl | rfl | rfl | rfl | rfl | rfl | rfl | rfl | rfl | rfl | rfl
  · exact step_test h (by intro r' h'; subst h'; simp [startOk, atomHead] at hso) hs.not_if
  · exact step_orTest h hs.not_or
  · exact step_andTest h hs.not_and
  · exact step_notTest h (by intro r' h'; subst h'; simp [startOk, atomHead] at hso)
  · exact step_cmp h hs.cmpOpAt
  · exact step_bin (k := 0) (by rw [binOperand_eq_parseAt (by omega)]; exact h) (Stop.binOpAt (by omega) hs)
  · exact step_bin (k := 1) (by rw [binOperand_eq_parseAt (by omega)]; exact h) (Stop.binOpAt (by omega) hs)
  · exact step_bin (k := 2) (by rw [binOperand_eq_parseAt (by omega)]; exact h) (Stop.binOpAt (by omega) hs)
  · exact step_bin (k := 3) (by rw [binOperand_eq_parseAt (by omega)]; exact h) (Stop.binOpAt (by omega) hs)
  · exact step_bin (k := 4) (by rw [binOperand_eq_parseAt (by omega)]; exact h) (Stop.binOpAt (by omega) hs)
  · exact step_bin (k := 5) (by rw [binOperand_eq_parseAt (by omega)]; exact h) (Stop.binOpAt (by omega) hs)
  · refine step_factor h ?_
    unfold unaryOpAt
    split <;> first | rfl | simp [startOk, atomHead] at hso
  · exact step_power h hs.not_dstar
  · exact step_atomExpr h (by intro r' h'; subst h'; simp [startOk, atomHead] at hso)

theorem lift_aux' {ts : List Tok} {e rest} (d : Nat) : ∀ lvl : Nat, 1 ≤ lvl → lvl + d ≤ 15 →
    Parses (parseAt (lvl + d)) ts e rest → Stop lvl rest → Parses (parseAt lvl) ts e rest := by
  induction d with
  | zero => intro lvl _ _ h _; exact h
  | succ d ih =>
    intro lvl h1 h15 h hs
    have e1 : lvl + (d + 1) = lvl + 1 + d := by omega
    rw [e1] at h
    exact lift_one' h1 (by omega) (ih (lvl + 1) (by omega) (by omega) h (hs.mono (by omega))) hs

/-- several levels up, no hypothesis on the first token: what is read as an operand of a tighter level is read
    as the same operand at every looser level, if the follower does not continue it there -/
theorem lift' {lvl lvl' : Nat} {ts : List Tok} {e rest} (h1 : 1 ≤ lvl) (hle : lvl ≤ lvl')
    (h15 : lvl' ≤ 15) (h : Parses (parseAt lvl') ts e rest) (hs : Stop lvl rest) :
    Parses (parseAt lvl) ts e rest := by
  obtain ⟨d, rfl⟩ : ∃ d, lvl' = lvl + d := ⟨lvl' - lvl, by omega⟩
  exact lift_aux' d lvl h1 h15 h hs

theorem parses_det {pf : Nat → List Tok → PR Expr} {ts e rest e' rest'} (h : Parses pf ts e rest)
    (h' : Parses pf ts e' rest') : e = e' ∧ rest = rest' := by
  obtain ⟨n, hn⟩ := h
  obtain ⟨m, hm⟩ := h'
  have a := hn (max n m) (Nat.le_max_left _ _)
  rw [hm (max n m) (Nat.le_max_right _ _)] at a
  cases a
  exact ⟨rfl, rfl⟩

/-- a test that ends in front of `)` is a named test -/
theorem namedTest_of_test' {ts e rest} (h : Parses parseTest ts e (.op .rpar :: rest)) :
    Parses parseNamedTest ts e (.op .rpar :: rest) := by
  by_cases hw : ∃ nm r, ts = .name nm :: .op .walrus :: r
  · obtain ⟨nm, r, rfl⟩ := hw
    exfalso
    have hw : Parses (parseAt 1) (.name nm :: .op .walrus :: r) (.name nm) (.op .walrus :: r) :=
      parses_atom (fun rest _ => atom_name nm rest) rfl (Nat.le_refl _) (by omega)
        (Stop.cons (by simp [contTok, isTrailerStart, isStringTok, binLevelOf, binOpOf, isCmpStart]))
    rw [parseAt_1] at hw
    have := (parses_det h hw).2
    cases this
  · obtain ⟨n, hn⟩ := h
    refine ⟨n + 1, fun fuel hf => ?_⟩
    obtain ⟨f, rfl⟩ : ∃ f, fuel = f + 1 := ⟨fuel - 1, by omega⟩
    rw [parseNamedTest.eq_3 _ _ (by intro nm r h'; exact hw ⟨nm, r, h'⟩)]
    exact hn f (by omega)


/-! ### non-vacuity of the helper lemmas, on `a + 1 )` -/

/-- `a + 1` read by `parseBin 4` (level 10) in front of `)`, for every fuel ≥ 20 -/
theorem ex_parses10 : Parses (parseAt 10) [.name [97], .op .plus, .int 1, .op .rpar]
    (.binOp (.name [97]) .add (.const (.int 1))) [.op .rpar] := by
  rw [parseAt_bin (k := 4) (by omega)]
  exact ⟨20, fun _ hf => mono_le (fun f => (PV.Prog.c11Mono f).parseBin 4 _) (by rfl) hf⟩

example : isStarred (.binOp (.name [97]) .add (.const (.int 1))) = false :=
  ns_namedTest (f := 20) (ts := [.name [97], .op .plus, .int 1, .op .rpar]) (r := [.op .rpar]) (by rfl)

example : startOk 12 [.name [97], .op .plus, .int 1, .op .rpar] = true :=
  so_bin 20 4 (ts := [.name [97], .op .plus, .int 1, .op .rpar])
    (v := (.binOp (.name [97]) .add (.const (.int 1)), [.op .rpar])) (by rfl)

/-- lifted to `parseTest` without any hypothesis on the first token, then read as a named test -/
example : Parses parseNamedTest [.name [97], .op .plus, .int 1, .op .rpar]
    (.binOp (.name [97]) .add (.const (.int 1))) [.op .rpar] :=
  namedTest_of_test' (by
    have := lift' (lvl := 1) (by omega) (by omega) (by omega) ex_parses10 (Stop.cons (contTok_rpar _))
    rw [parseAt_1] at this
    exact this)

example : (.binOp (.name [97]) .add (.const (.int 1)) : Expr) = .binOp (.name [97]) .add (.const (.int 1)) ∧
    [Tok.op .rpar] = [.op .rpar] := parses_det ex_parses10 ex_parses10

/-! ## operand positions: closure of `EqLarge` under every context of the grammar -/

/-- for every sufficiently large fuel the two inputs give the same answer: same acceptance, same tree, same rest -/
def EqLarge {α : Type} (g : Nat → List Tok → Option α) (X X' : List Tok) : Prop :=
  ∃ n, ∀ fuel, n ≤ fuel → g fuel X = g fuel X'

theorem EqLarge.refl {α : Type} (g : Nat → List Tok → Option α) (X : List Tok) : EqLarge g X X :=
  ⟨0, fun _ _ => rfl⟩

theorem EqLarge.symm {α : Type} {g : Nat → List Tok → Option α} {X X' : List Tok} (h : EqLarge g X X') :
    EqLarge g X' X := by
  obtain ⟨n, hn⟩ := h
  exact ⟨n, fun fuel hf => (hn fuel hf).symm⟩

theorem EqLarge.trans {α : Type} {g : Nat → List Tok → Option α} {X Y Z : List Tok} (h : EqLarge g X Y)
    (h' : EqLarge g Y Z) : EqLarge g X Z := by
  obtain ⟨n, hn⟩ := h
  obtain ⟨m, hm⟩ := h'
  exact ⟨max n m, fun fuel hf => (hn fuel (by omega)).trans (hm fuel (by omega))⟩

/-- `g` reads the value `v` off `X` for every sufficiently large fuel (`Parses` for any result type) -/
def Reads {α : Type} (g : Nat → List Tok → Option α) (X : List Tok) (v : α) : Prop :=
  ∃ n, ∀ fuel, n ≤ fuel → g fuel X = some v

theorem reads_of_parses {pf : Nat → List Tok → PR Expr} {ts e rest} (h : Parses pf ts e rest) :
    Reads pf ts (e, rest) := h

theorem EqLarge.of_reads {α : Type} {g : Nat → List Tok → Option α} {X X' : List Tok} {v : α}
    (h : Reads g X v) (h' : Reads g X' v) : EqLarge g X X' := by
  obtain ⟨n, hn⟩ := h
  obtain ⟨m, hm⟩ := h'
  exact ⟨max n m, fun fuel hf => by rw [hn fuel (by omega), hm fuel (by omega)]⟩

/-- the other input is read with the same result -/
theorem EqLarge.reads {α : Type} {g : Nat → List Tok → Option α} {X X' : List Tok} {v : α}
    (h : EqLarge g X X') (h' : Reads g X' v) : Reads g X v := by
  obtain ⟨n, hn⟩ := h
  obtain ⟨m, hm⟩ := h'
  exact ⟨max n m, fun fuel hf => by rw [hn fuel (by omega), hm fuel (by omega)]⟩

/-! ### chain pass-through: the first operand of every level -/

theorem pos_test_first {X X' : List Tok} (h : EqLarge parseOrTest X X')
    (hX : ∀ r, X ≠ .kw .lambda :: r) (hX' : ∀ r, X' ≠ .kw .lambda :: r) : EqLarge parseTest X X' := by
  obtain ⟨n, hn⟩ := h
  refine ⟨n + 1, fun fuel hf => ?_⟩
  obtain ⟨f, rfl, hf'⟩ := fuel_succ hf
  rw [parseTest.eq_3 _ _ hX, parseTest.eq_3 _ _ hX', hn f hf']

theorem pos_orTest_first {X X' : List Tok} (h : EqLarge parseAndTest X X') : EqLarge parseOrTest X X' := by
  obtain ⟨n, hn⟩ := h
  refine ⟨n + 1, fun fuel hf => ?_⟩
  obtain ⟨f, rfl, hf'⟩ := fuel_succ hf
  simp only [parseOrTest, hn f hf']

theorem pos_andTest_first {X X' : List Tok} (h : EqLarge parseNotTest X X') : EqLarge parseAndTest X X' := by
  obtain ⟨n, hn⟩ := h
  refine ⟨n + 1, fun fuel hf => ?_⟩
  obtain ⟨f, rfl, hf'⟩ := fuel_succ hf
  simp only [parseAndTest, hn f hf']

theorem pos_notTest_first {X X' : List Tok} (h : EqLarge parseCmp X X')
    (hX : ∀ r, X ≠ .kw .not :: r) (hX' : ∀ r, X' ≠ .kw .not :: r) : EqLarge parseNotTest X X' := by
  obtain ⟨n, hn⟩ := h
  refine ⟨n + 1, fun fuel hf => ?_⟩
  obtain ⟨f, rfl, hf'⟩ := fuel_succ hf
  rw [parseNotTest.eq_3 _ _ hX, parseNotTest.eq_3 _ _ hX', hn f hf']

theorem pos_cmp_first {X X' : List Tok} (h : EqLarge (parseBin 0) X X') : EqLarge parseCmp X X' := by
  obtain ⟨n, hn⟩ := h
  refine ⟨n + 1, fun fuel hf => ?_⟩
  obtain ⟨f, rfl, hf'⟩ := fuel_succ hf
  simp only [parseCmp, hn f hf']

theorem pos_bin_first {k : Nat} {X X' : List Tok} (h : EqLarge (binOperand k) X X') :
    EqLarge (parseBin k) X X' := by
  obtain ⟨n, hn⟩ := h
  refine ⟨n + 1, fun fuel hf => ?_⟩
  obtain ⟨f, rfl, hf'⟩ := fuel_succ hf
  have := hn f hf'
  simp only [binOperand] at this
  simp only [parseBin, this]

theorem pos_factor_first {X X' : List Tok} (h : EqLarge parsePower X X')
    (hX : unaryOpAt X = none) (hX' : unaryOpAt X' = none) : EqLarge parseFactor X X' := by
  obtain ⟨n, hn⟩ := h
  refine ⟨n + 1, fun fuel hf => ?_⟩
  obtain ⟨f, rfl, hf'⟩ := fuel_succ hf
  simp only [parseFactor, hX, hX', hn f hf']

theorem pos_power_first {X X' : List Tok} (h : EqLarge parseAtomExpr X X') : EqLarge parsePower X X' := by
  obtain ⟨n, hn⟩ := h
  refine ⟨n + 1, fun fuel hf => ?_⟩
  obtain ⟨f, rfl, hf'⟩ := fuel_succ hf
  simp only [parsePower, hn f hf']

theorem pos_atomExpr_first {X X' : List Tok} (h : EqLarge parseAtomExpr2 X X')
    (hX : ∀ r, X ≠ .kw .await :: r) (hX' : ∀ r, X' ≠ .kw .await :: r) : EqLarge parseAtomExpr X X' := by
  obtain ⟨n, hn⟩ := h
  refine ⟨n + 1, fun fuel hf => ?_⟩
  obtain ⟨f, rfl, hf'⟩ := fuel_succ hf
  rw [parseAtomExpr.eq_3 _ _ hX, parseAtomExpr.eq_3 _ _ hX', hn f hf']


/-- all levels at once: from `parseAt (l+1)` to `parseAt l`; the side condition says that neither input starts
    with a token on which the function of level `l` dispatches (`lambda`, `not`, a unary operator, `await`) -/
theorem pos_chain {l : Nat} {X X' : List Tok} (h1 : 1 ≤ l) (h15 : l < 15) (h : EqLarge (parseAt (l + 1)) X X')
    (hX : startOk (l + 1) X = true) (hX' : startOk (l + 1) X' = true) : EqLarge (parseAt l) X X' := by
  have hl : l = 1 ∨ l = 2 ∨ l = 3 ∨ l = 4 ∨ l = 5 ∨ l = 6 ∨ l = 7 ∨ l = 8 ∨ l = 9 ∨
      l = 10 ∨ l = 11 ∨ l = 12 ∨ l = 13 ∨ l = 14 := by omega
  rcases hl with rfl | rfl | rfl | rfl | rfl | rfl | rfl | rfl | rfl | rfl | rfl | rfl | rfl | rfl
  · rw [parseAt_1]; rw [parseAt_2] at h
    exact pos_test_first h (by intro r h'; subst h'; simp [startOk, atomHead] at hX)
      (by intro r h'; subst h'; simp [startOk, atomHead] at hX')
  · rw [parseAt_2]; rw [parseAt_3] at h; exact pos_orTest_first h
  · rw [parseAt_3]; rw [parseAt_4] at h; exact pos_andTest_first h
  · rw [parseAt_4]; rw [parseAt_5] at h
    exact pos_notTest_first h (by intro r h'; subst h'; simp [startOk, atomHead] at hX)
      (by intro r h'; subst h'; simp [startOk, atomHead] at hX')
  · rw [parseAt_5]; rw [parseAt_bin (k := 0) (by omega)] at h; exact pos_cmp_first h
  · rw [parseAt_bin (k := 0) (by omega)]; rw [← binOperand_eq_parseAt (k := 0) (by omega)] at h; exact pos_bin_first h
  · rw [parseAt_bin (k := 1) (by omega)]; rw [← binOperand_eq_parseAt (k := 1) (by omega)] at h; exact pos_bin_first h
  · rw [parseAt_bin (k := 2) (by omega)]; rw [← binOperand_eq_parseAt (k := 2) (by omega)] at h; exact pos_bin_first h
  · rw [parseAt_bin (k := 3) (by omega)]; rw [← binOperand_eq_parseAt (k := 3) (by omega)] at h; exact pos_bin_first h
  · rw [parseAt_bin (k := 4) (by omega)]; rw [← binOperand_eq_parseAt (k := 4) (by omega)] at h; exact pos_bin_first h
  · rw [parseAt_bin (k := 5) (by omega)]; rw [← binOperand_eq_parseAt (k := 5) (by omega)] at h; exact pos_bin_first h
  · rw [parseAt_12]; rw [parseAt_13] at h
    refine pos_factor_first h ?_ ?_
    · unfold unaryOpAt; split <;> first | rfl | simp [startOk, atomHead] at hX
    · unfold unaryOpAt; split <;> first | rfl | simp [startOk, atomHead] at hX'
  · rw [parseAt_13]; rw [parseAt_14] at h; exact pos_power_first h
  · rw [parseAt_14]; rw [parseAt_15] at h
    exact pos_atomExpr_first h (by intro r h'; subst h'; simp [startOk, atomHead] at hX)
      (by intro r h'; subst h'; simp [startOk, atomHead] at hX')

/-- several levels: an operand position of level `l'` seen from a looser level `l` -/
theorem pos_chain_le {l l' : Nat} {X X' : List Tok} (h1 : 1 ≤ l) (hle : l ≤ l') (h15 : l' ≤ 15)
    (h : EqLarge (parseAt l') X X') (hX : startOk l' X = true) (hX' : startOk l' X' = true) :
    EqLarge (parseAt l) X X' := by
  obtain ⟨d, rfl⟩ : ∃ d, l' = l + d := ⟨l' - l, by omega⟩
  clear hle
  induction d with
  | zero => exact h
  | succ d ih =>
    refine ih (by omega) (pos_chain (by omega) (by omega) h hX hX') (startOk_anti (by omega) hX)
      (startOk_anti (by omega) hX')

theorem pos_namedTest {X X' : List Tok} (h : EqLarge parseTest X X')
    (hX : ∀ n r, X ≠ .name n :: .op .walrus :: r) (hX' : ∀ n r, X' ≠ .name n :: .op .walrus :: r) :
    EqLarge parseNamedTest X X' := by
  obtain ⟨n, hn⟩ := h
  refine ⟨n + 1, fun fuel hf => ?_⟩
  obtain ⟨f, rfl, hf'⟩ := fuel_succ hf
  rw [parseNamedTest.eq_3 _ _ hX, parseNamedTest.eq_3 _ _ hX', hn f hf']

theorem pos_starOrNamed {X X' : List Tok} (h : EqLarge parseNamedTest X X')
    (hX : ∀ r, X ≠ .op .star :: r) (hX' : ∀ r, X' ≠ .op .star :: r) : EqLarge parseStarOrNamed X X' := by
  obtain ⟨n, hn⟩ := h
  refine ⟨n + 1, fun fuel hf => ?_⟩
  obtain ⟨f, rfl, hf'⟩ := fuel_succ hf
  rw [parseStarOrNamed.eq_3 _ _ hX, parseStarOrNamed.eq_3 _ _ hX', hn f hf']

theorem pos_testOrStar {X X' : List Tok} (h : EqLarge parseTest X X')
    (hX : ∀ r, X ≠ .op .star :: r) (hX' : ∀ r, X' ≠ .op .star :: r) : EqLarge parseTestOrStar X X' := by
  obtain ⟨n, hn⟩ := h
  refine ⟨n + 1, fun fuel hf => ?_⟩
  obtain ⟨f, rfl, hf'⟩ := fuel_succ hf
  rw [parseTestOrStar.eq_3 _ _ hX, parseTestOrStar.eq_3 _ _ hX', hn f hf']

theorem pos_exprOrStar {X X' : List Tok} (h : EqLarge (parseBin 0) X X')
    (hX : ∀ r, X ≠ .op .star :: r) (hX' : ∀ r, X' ≠ .op .star :: r) : EqLarge parseExprOrStar X X' := by
  obtain ⟨n, hn⟩ := h
  refine ⟨n + 1, fun fuel hf => ?_⟩
  obtain ⟨f, rfl, hf'⟩ := fuel_succ hf
  rw [parseExprOrStar.eq_3 _ _ hX, parseExprOrStar.eq_3 _ _ hX', hn f hf']

/-- the value of a starred element `*x` of a list / tuple / set display or a subscript -/
theorem pos_star_value_starOrNamed {X X' : List Tok} (h : EqLarge (parseBin 0) X X') :
    EqLarge parseStarOrNamed (.op .star :: X) (.op .star :: X') := by
  obtain ⟨n, hn⟩ := h
  refine ⟨n + 1, fun fuel hf => ?_⟩
  obtain ⟨f, rfl, hf'⟩ := fuel_succ hf
  simp only [parseStarOrNamed, hn f hf']

/-- the value of a starred element `*x` of a test list -/
theorem pos_star_value_testOrStar {X X' : List Tok} (h : EqLarge (parseBin 0) X X') :
    EqLarge parseTestOrStar (.op .star :: X) (.op .star :: X') := by
  obtain ⟨n, hn⟩ := h
  refine ⟨n + 1, fun fuel hf => ?_⟩
  obtain ⟨f, rfl, hf'⟩ := fuel_succ hf
  simp only [parseTestOrStar, hn f hf']

/-- the value of a starred element `*x` of a target list -/
theorem pos_star_value_exprOrStar {X X' : List Tok} (h : EqLarge (parseBin 0) X X') :
    EqLarge parseExprOrStar (.op .star :: X) (.op .star :: X') := by
  obtain ⟨n, hn⟩ := h
  refine ⟨n + 1, fun fuel hf => ?_⟩
  obtain ⟨f, rfl, hf'⟩ := fuel_succ hf
  simp only [parseExprOrStar, hn f hf']

/-- the value of `name := value` -/
theorem pos_walrus_value {nm : Ident} {X X' : List Tok} (h : EqLarge parseTest X X') :
    EqLarge parseNamedTest (.name nm :: .op .walrus :: X) (.name nm :: .op .walrus :: X') := by
  obtain ⟨n, hn⟩ := h
  refine ⟨n + 1, fun fuel hf => ?_⟩
  obtain ⟨f, rfl, hf'⟩ := fuel_succ hf
  simp only [parseNamedTest, hn f hf']

/-! ### operands of prefix operators -/

theorem pos_unary {t : Tok} {o : UnaryOp} (ht : ∀ Y, unaryOpAt (t :: Y) = some (o, Y)) {X X' : List Tok}
    (h : EqLarge parseFactor X X') : EqLarge parseFactor (t :: X) (t :: X') := by
  obtain ⟨n, hn⟩ := h
  refine ⟨n + 1, fun fuel hf => ?_⟩
  obtain ⟨f, rfl, hf'⟩ := fuel_succ hf
  simp only [parseFactor, ht, hn f hf']

theorem pos_not {X X' : List Tok} (h : EqLarge parseNotTest X X') :
    EqLarge parseNotTest (.kw .not :: X) (.kw .not :: X') := by
  obtain ⟨n, hn⟩ := h
  refine ⟨n + 1, fun fuel hf => ?_⟩
  obtain ⟨f, rfl, hf'⟩ := fuel_succ hf
  simp only [parseNotTest, hn f hf']

theorem pos_await {X X' : List Tok} (h : EqLarge parseAtomExpr2 X X') :
    EqLarge parseAtomExpr (.kw .await :: X) (.kw .await :: X') := by
  obtain ⟨n, hn⟩ := h
  refine ⟨n + 1, fun fuel hf => ?_⟩
  obtain ⟨f, rfl, hf'⟩ := fuel_succ hf
  simp only [parseAtomExpr, hn f hf']


/-! ### right operands of binary operators; skipping an operand that is already read -/

set_option hygiene false in
/-- common prologue of the closure lemmas: `h` is the hole hypothesis (`el_intro2`: plus two reads of the
    skipped prefix); leaves `hn` (`ha`, `hb`) at the fuel `f` of the inner calls -/
macro "el_intro" h:ident : tactic => `(tactic|
  (obtain ⟨n, hn⟩ := $h:ident
   refine ⟨n + 1, fun fuel hf => ?_⟩
   obtain ⟨f, rfl, hf'⟩ := fuel_succ hf
   have hn := hn f hf'))

set_option hygiene false in
macro "el_intro2" h:ident a:ident b:ident : tactic => `(tactic|
  (obtain ⟨n, hn⟩ := $h:ident
   obtain ⟨na, ha⟩ := $a:ident
   obtain ⟨nb, hb⟩ := $b:ident
   refine ⟨max n (max na nb) + 1, fun fuel hf => ?_⟩
   obtain ⟨f, rfl, hf'⟩ := fuel_succ hf
   have hn := hn f (by omega)
   have ha := ha f (by omega)
   have hb := hb f (by omega)))

/-- right operand of a binary operator of level `k`, seen from the loop that has just read the left operand -/
theorem pos_bin_right {k : Nat} {t : Tok} {o : BinOp} (ht : ∀ Y, binOpAt k (t :: Y) = some (o, Y))
    {X X' : List Tok} (h : EqLarge (binOperand k) X X') (acc : Expr) :
    EqLarge (fun f ts => parseBinLoop k f acc ts) (t :: X) (t :: X') := by
  el_intro h
  simp only [binOperand] at hn
  simp only [parseBinLoop, ht, hn]

/-- the loop after the (skipped) first operand -/
theorem pos_bin_loop {k : Nat} {ul : List Tok} {l : Expr} {Z Z' : List Tok}
    (hZ : Parses (binOperand k) (ul ++ Z) l Z) (hZ' : Parses (binOperand k) (ul ++ Z') l Z')
    (h : EqLarge (fun f ts => parseBinLoop k f l ts) Z Z') : EqLarge (parseBin k) (ul ++ Z) (ul ++ Z') := by
  el_intro2 h hZ hZ'
  simp only [binOperand] at ha hb
  simp only [parseBin, ha, hb, hn]

/-- the loop after a further (skipped) `op operand` -/
theorem pos_binLoop_skip {k : Nat} {t : Tok} {o : BinOp} (ht : ∀ Y, binOpAt k (t :: Y) = some (o, Y))
    {ur : List Tok} {r : Expr} {Z Z' : List Tok}
    (hZ : Parses (binOperand k) (ur ++ Z) r Z) (hZ' : Parses (binOperand k) (ur ++ Z') r Z') (acc : Expr)
    (h : EqLarge (fun f ts => parseBinLoop k f (.binOp acc o r) ts) Z Z') :
    EqLarge (fun f ts => parseBinLoop k f acc ts) (t :: (ur ++ Z)) (t :: (ur ++ Z')) := by
  el_intro2 h hZ hZ'
  simp only [binOperand] at ha hb
  simp only [parseBinLoop, ht, ha, hb, hn]

/-- exponent of `**` (after the skipped base) -/
theorem pos_pow_exponent {ub : List Tok} {b : Expr} {X X' : List Tok}
    (hb : Parses parseAtomExpr (ub ++ .op .dstar :: X) b (.op .dstar :: X))
    (hb' : Parses parseAtomExpr (ub ++ .op .dstar :: X') b (.op .dstar :: X'))
    (h : EqLarge parseFactor X X') :
    EqLarge parsePower (ub ++ .op .dstar :: X) (ub ++ .op .dstar :: X') := by
  el_intro2 h hb hb'
  simp only [parsePower, ha, hb, hn]

/-! ### comparison chains, `and` / `or` chains -/

/-- the `(CompOp Expression)*` part after the (skipped) left operand -/
theorem pos_cmp_rest {ul : List Tok} {l : Expr} {Z Z' : List Tok}
    (hZ : Parses (parseBin 0) (ul ++ Z) l Z) (hZ' : Parses (parseBin 0) (ul ++ Z') l Z')
    (hc : (cmpOpAt Z).isSome = true) (hc' : (cmpOpAt Z').isSome = true)
    (h : EqLarge parseCmpRest Z Z') : EqLarge parseCmp (ul ++ Z) (ul ++ Z') := by
  el_intro2 h hZ hZ'
  obtain ⟨c, hc⟩ := Option.isSome_iff_exists.mp hc
  obtain ⟨c', hc'⟩ := Option.isSome_iff_exists.mp hc'
  simp only [parseCmp, ha, hb, hc, hc', hn]

/-- right operand of a comparison operator -/
theorem pos_cmpRest_operand {W W' X X' : List Tok} {o : CmpOp} (hp : cmpOpAt W = some (o, X))
    (hp' : cmpOpAt W' = some (o, X')) (h : EqLarge (parseBin 0) X X') : EqLarge parseCmpRest W W' := by
  el_intro h
  simp only [parseCmpRest, hp, hp', hn]

/-- the further comparisons after a (skipped) `op operand` -/
theorem pos_cmpRest_skip {W W' ur Z Z' : List Tok} {o : CmpOp} {r : Expr} (hp : cmpOpAt W = some (o, ur ++ Z))
    (hp' : cmpOpAt W' = some (o, ur ++ Z'))
    (hZ : Parses (parseBin 0) (ur ++ Z) r Z) (hZ' : Parses (parseBin 0) (ur ++ Z') r Z')
    (h : EqLarge parseCmpRest Z Z') : EqLarge parseCmpRest W W' := by
  el_intro2 h hZ hZ'
  simp only [parseCmpRest, hp, hp', ha, hb, hn]

/-- the operands after `or`, after the (skipped) first operand -/
theorem pos_or_rest {ul : List Tok} {l : Expr} {Z Z' : List Tok}
    (hZ : Parses parseAndTest (ul ++ .kw .or :: Z) l (.kw .or :: Z))
    (hZ' : Parses parseAndTest (ul ++ .kw .or :: Z') l (.kw .or :: Z'))
    (h : EqLarge parseOrRest Z Z') : EqLarge parseOrTest (ul ++ .kw .or :: Z) (ul ++ .kw .or :: Z') := by
  el_intro2 h hZ hZ'
  simp only [parseOrTest, ha, hb, hn]

/-- an operand after `or` -/
theorem pos_orRest_operand {X X' : List Tok} (h : EqLarge parseAndTest X X') : EqLarge parseOrRest X X' := by
  el_intro h
  simp only [parseOrRest, hn]

theorem pos_orRest_skip {u : List Tok} {e : Expr} {Z Z' : List Tok}
    (hZ : Parses parseAndTest (u ++ .kw .or :: Z) e (.kw .or :: Z))
    (hZ' : Parses parseAndTest (u ++ .kw .or :: Z') e (.kw .or :: Z'))
    (h : EqLarge parseOrRest Z Z') : EqLarge parseOrRest (u ++ .kw .or :: Z) (u ++ .kw .or :: Z') := by
  el_intro2 h hZ hZ'
  simp only [parseOrRest, ha, hb, hn]

theorem pos_and_rest {ul : List Tok} {l : Expr} {Z Z' : List Tok}
    (hZ : Parses parseNotTest (ul ++ .kw .and :: Z) l (.kw .and :: Z))
    (hZ' : Parses parseNotTest (ul ++ .kw .and :: Z') l (.kw .and :: Z'))
    (h : EqLarge parseAndRest Z Z') : EqLarge parseAndTest (ul ++ .kw .and :: Z) (ul ++ .kw .and :: Z') := by
  el_intro2 h hZ hZ'
  simp only [parseAndTest, ha, hb, hn]

theorem pos_andRest_operand {X X' : List Tok} (h : EqLarge parseNotTest X X') : EqLarge parseAndRest X X' := by
  el_intro h
  simp only [parseAndRest, hn]

theorem pos_andRest_skip {u : List Tok} {e : Expr} {Z Z' : List Tok}
    (hZ : Parses parseNotTest (u ++ .kw .and :: Z) e (.kw .and :: Z))
    (hZ' : Parses parseNotTest (u ++ .kw .and :: Z') e (.kw .and :: Z'))
    (h : EqLarge parseAndRest Z Z') : EqLarge parseAndRest (u ++ .kw .and :: Z) (u ++ .kw .and :: Z') := by
  el_intro2 h hZ hZ'
  simp only [parseAndRest, ha, hb, hn]


/-! ### conditional expression, lambda -/

theorem not_lambda_of_orTest {ts e rest} (h : Parses parseOrTest ts e rest) : ∀ r, ts ≠ .kw .lambda :: r := by
  obtain ⟨n, hn⟩ := h
  have := so_orTest (hn n (Nat.le_refl _))
  intro r h'; subst h'; simp [startOk, atomHead] at this

/-- the condition of `body if test else orelse` (after the skipped body) -/
theorem pos_if_test {ub : List Tok} {body : Expr} {X X' : List Tok}
    (hb : Parses parseOrTest (ub ++ .kw .if :: X) body (.kw .if :: X))
    (hb' : Parses parseOrTest (ub ++ .kw .if :: X') body (.kw .if :: X'))
    (h : EqLarge parseOrTest X X') : EqLarge parseTest (ub ++ .kw .if :: X) (ub ++ .kw .if :: X') := by
  have l1 := not_lambda_of_orTest hb
  have l2 := not_lambda_of_orTest hb'
  el_intro2 h hb hb'
  rw [parseTest.eq_3 _ _ l1, parseTest.eq_3 _ _ l2]
  simp only [ha, hb, hn]

/-- the `else` part (after the skipped body and condition) -/
theorem pos_if_orelse {ub ut : List Tok} {body test : Expr} {X X' : List Tok}
    (hb : Parses parseOrTest (ub ++ .kw .if :: (ut ++ .kw .else :: X)) body (.kw .if :: (ut ++ .kw .else :: X)))
    (hb' : Parses parseOrTest (ub ++ .kw .if :: (ut ++ .kw .else :: X')) body (.kw .if :: (ut ++ .kw .else :: X')))
    (ht : Parses parseOrTest (ut ++ .kw .else :: X) test (.kw .else :: X))
    (ht' : Parses parseOrTest (ut ++ .kw .else :: X') test (.kw .else :: X'))
    (h : EqLarge parseTest X X') :
    EqLarge parseTest (ub ++ .kw .if :: (ut ++ .kw .else :: X)) (ub ++ .kw .if :: (ut ++ .kw .else :: X')) := by
  have l1 := not_lambda_of_orTest hb
  have l2 := not_lambda_of_orTest hb'
  obtain ⟨nt, ht⟩ := ht
  obtain ⟨nt', ht'⟩ := ht'
  obtain ⟨n, hn⟩ := h
  obtain ⟨na, ha⟩ := hb
  obtain ⟨nb, hb⟩ := hb'
  refine ⟨max (max n nt) (max nt' (max na nb)) + 1, fun fuel hf => ?_⟩
  obtain ⟨f, rfl, hf'⟩ := fuel_succ hf
  rw [parseTest.eq_3 _ _ l1, parseTest.eq_3 _ _ l2]
  simp only [ha f (by omega), hb f (by omega), ht f (by omega), ht' f (by omega), hn f (by omega)]

theorem pos_lambda {X X' : List Tok} (h : EqLarge parseLambda X X') :
    EqLarge parseTest (.kw .lambda :: X) (.kw .lambda :: X') := by
  el_intro h
  simp only [parseTest, hn]

/-- lambda body, after the (skipped) parameter list -/
theorem pos_lambda_body {up : List Tok} {ps : Params} {X X' : List Tok}
    (hp : Reads (fun f ts => parseParams f ts {} 0) (up ++ .op .colon :: X) (ps, .op .colon :: X))
    (hp' : Reads (fun f ts => parseParams f ts {} 0) (up ++ .op .colon :: X') (ps, .op .colon :: X'))
    (h : EqLarge parseTest X X') : EqLarge parseLambda (up ++ .op .colon :: X) (up ++ .op .colon :: X') := by
  el_intro2 h hp hp'
  simp only at ha hb
  simp only [parseLambda, ha, hb, hn]

/-- body of a lambda without parameters: `lambda: X` -/
theorem pos_lambda_body0 {X X' : List Tok} (h : EqLarge parseTest X X') :
    EqLarge parseTest (.kw .lambda :: .op .colon :: X) (.kw .lambda :: .op .colon :: X') := by
  refine pos_lambda (pos_lambda_body (up := []) (ps := {}) ?_ ?_ h) <;>
  · refine ⟨1, fun fuel hf => ?_⟩
    obtain ⟨f, rfl, _⟩ := fuel_succ hf
    simp [parseParams]

/-- default value of a lambda parameter -/
theorem pos_param_default {nm : Ident} {ps : Params} {ph : Nat} {X X' : List Tok} (h : EqLarge parseTest X X') :
    EqLarge (fun f ts => parseParams f ts ps ph) (.name nm :: .op .assign :: X) (.name nm :: .op .assign :: X') := by
  el_intro h
  simp only [parseParams, hn]


/-! ### calls: argument values, argument lists, the call trailer -/

/-- positional argument (or the element of a sole generator argument) -/
theorem pos_arg_positional {X X' : List Tok} {as : List Expr} {ks : List Keyword} {d : Bool}
    (h : EqLarge parseNamedTest X X')
    (hX : (∀ n r, X ≠ .name n :: .op .assign :: r) ∧ (∀ r, X ≠ .op .star :: r) ∧ (∀ r, X ≠ .op .dstar :: r))
    (hX' : (∀ n r, X' ≠ .name n :: .op .assign :: r) ∧ (∀ r, X' ≠ .op .star :: r) ∧ (∀ r, X' ≠ .op .dstar :: r)) :
    EqLarge (fun f ts => parseArg f ts as ks d) X X' := by
  el_intro h
  simp only
  rw [parseArg.eq_5 _ _ _ _ _ hX.1 hX.2.1 hX.2.2, parseArg.eq_5 _ _ _ _ _ hX'.1 hX'.2.1 hX'.2.2, hn]

/-- keyword argument value `name=X` -/
theorem pos_arg_kw {nm : Ident} {X X' : List Tok} {as : List Expr} {ks : List Keyword} {d : Bool}
    (h : EqLarge parseTest X X') :
    EqLarge (fun f ts => parseArg f ts as ks d) (.name nm :: .op .assign :: X) (.name nm :: .op .assign :: X') := by
  el_intro h
  simp only [parseArg, hn]

/-- `*X` argument -/
theorem pos_arg_star {X X' : List Tok} {as : List Expr} {ks : List Keyword} {d : Bool}
    (h : EqLarge parseTest X X') :
    EqLarge (fun f ts => parseArg f ts as ks d) (.op .star :: X) (.op .star :: X') := by
  el_intro h
  simp only [parseArg, hn]

/-- `**X` argument -/
theorem pos_arg_dstar {X X' : List Tok} {as : List Expr} {ks : List Keyword} {d : Bool}
    (h : EqLarge parseTest X X') :
    EqLarge (fun f ts => parseArg f ts as ks d) (.op .dstar :: X) (.op .dstar :: X') := by
  el_intro h
  simp only [parseArg, hn]

/-- how the input of a named test that ends in front of a comprehension clause can NOT start -/
theorem namedTest_head_comp {ts e Z} (h : Parses parseNamedTest ts e Z) (hc : atCompFor Z = true) :
    (∀ n r, ts ≠ .name n :: .op .assign :: r) ∧ (∀ r, ts ≠ .op .star :: r) ∧ (∀ r, ts ≠ .op .dstar :: r) := by
  have hso : startOk 1 ts = true := by
    obtain ⟨n, hn⟩ := h
    exact so_namedTest (hn n (Nat.le_refl _))
  refine ⟨?_, ?_, ?_⟩
  · intro nm r hts
    subst hts
    have hw : Parses (parseAt 1) (.name nm :: .op .assign :: r) (.name nm) (.op .assign :: r) :=
      parses_atom (fun rest _ => atom_name nm rest) rfl (Nat.le_refl _) (by omega)
        (Stop.cons (by simp [contTok, isTrailerStart, isStringTok, binLevelOf, binOpOf, isCmpStart]))
    rw [parseAt_1] at hw
    have hw' : Parses parseNamedTest (.name nm :: .op .assign :: r) (.name nm) (.op .assign :: r) := by
      obtain ⟨n, hn⟩ := hw
      refine ⟨n + 1, fun fuel hf => ?_⟩
      obtain ⟨f, rfl, hf'⟩ := fuel_succ hf
      rw [parseNamedTest.eq_3 _ _ (by intro n r h; cases h), hn f hf']
    have := (parses_det h hw').2
    subst this
    simp [atCompFor] at hc
  · intro r h'; subst h'; simp [startOk, atomHead] at hso
  · intro r h'; subst h'; simp [startOk, atomHead] at hso

/-- the clauses of a sole generator argument `f(x for …)`, after the (skipped) element -/
theorem pos_arg_comp {u : List Tok} {e : Expr} {Z Z' : List Tok} {as : List Expr} {ks : List Keyword} {d : Bool}
    (he : Parses parseNamedTest (u ++ Z) e Z) (he' : Parses parseNamedTest (u ++ Z') e Z')
    (hc : atCompFor Z = true) (hc' : atCompFor Z' = true) (h : EqLarge parseCompFor Z Z') :
    EqLarge (fun f ts => parseArg f ts as ks d) (u ++ Z) (u ++ Z') := by
  have a1 := namedTest_head_comp he hc
  have a2 := namedTest_head_comp he' hc'
  el_intro2 h he he'
  simp only
  rw [parseArg.eq_5 _ _ _ _ _ a1.1 a1.2.1 a1.2.2, parseArg.eq_5 _ _ _ _ _ a2.1 a2.2.1 a2.2.2, ha, hb]
  simp only [hc, hc', hn, if_true]

/-- the next argument of an argument list -/
theorem pos_args_first {X X' : List Tok} {as : List Expr} {ks : List Keyword} {d : Bool}
    (h : EqLarge (fun f ts => parseArg f ts as ks d) X X')
    (hX : ∀ r, X ≠ .op .rpar :: r) (hX' : ∀ r, X' ≠ .op .rpar :: r) :
    EqLarge (fun f ts => parseArgs f ts as ks d) X X' := by
  el_intro h
  simp only at hn ⊢
  rw [parseArgs.eq_3 _ _ _ _ _ hX, parseArgs.eq_3 _ _ _ _ _ hX', hn]

theorem parseArg_rpar (f : Nat) (r : List Tok) (as : List Expr) (ks : List Keyword) (d : Bool) :
    parseArg f (.op .rpar :: r) as ks d = none := by
  cases f with
  | zero => rfl
  | succ f =>
    rw [parseArg.eq_5 _ _ _ _ _ (by intro n r h; cases h) (by intro r h; cases h) (by intro r h; cases h)]
    cases h : parseNamedTest f (.op .rpar :: r) with
    | none => rfl
    | some v => have := so_namedTest h; simp [startOk, atomHead] at this

/-- the arguments after a (skipped) argument and its comma -/
theorem pos_args_skip {ua : List Tok} {as as' : List Expr} {ks ks' : List Keyword} {d d' : Bool} {Z Z' : List Tok}
    (hA : Reads (fun f ts => parseArg f ts as ks d) (ua ++ .op .comma :: Z) (as', ks', d', .op .comma :: Z))
    (hA' : Reads (fun f ts => parseArg f ts as ks d) (ua ++ .op .comma :: Z') (as', ks', d', .op .comma :: Z'))
    (h : EqLarge (fun f ts => parseArgs f ts as' ks' d') Z Z') :
    EqLarge (fun f ts => parseArgs f ts as ks d) (ua ++ .op .comma :: Z) (ua ++ .op .comma :: Z') := by
  have l1 : ∀ r, ua ++ .op .comma :: Z ≠ .op .rpar :: r := by
    intro r hr
    obtain ⟨n, hn⟩ := hA
    have := hn n (Nat.le_refl _)
    simp only [hr, parseArg_rpar] at this
    cases this
  have l2 : ∀ r, ua ++ .op .comma :: Z' ≠ .op .rpar :: r := by
    intro r hr
    obtain ⟨n, hn⟩ := hA'
    have := hn n (Nat.le_refl _)
    simp only [hr, parseArg_rpar] at this
    cases this
  el_intro2 h hA hA'
  simp only at hn ha hb ⊢
  rw [parseArgs.eq_3 _ _ _ _ _ l1, parseArgs.eq_3 _ _ _ _ _ l2, ha, hb]
  simp only [hn]

/-- `acc ( … )`: the argument list of a call trailer -/
theorem pos_trailer_call {X X' : List Tok} (h : EqLarge (fun f ts => parseArgs f ts [] [] false) X X')
    (acc : Expr) : EqLarge (fun f ts => parseTrailers f acc ts) (.op .lpar :: X) (.op .lpar :: X') := by
  el_intro h
  simp only at hn ⊢
  simp only [parseTrailers, hn]

/-- `acc [ … ]`: the subscript list of an index trailer -/
theorem pos_trailer_index {X X' : List Tok} (h : EqLarge parseSubscriptList X X') (acc : Expr) :
    EqLarge (fun f ts => parseTrailers f acc ts) (.op .lsqb :: X) (.op .lsqb :: X') := by
  el_intro h
  simp only [parseTrailers, hn]

/-- the trailers after a (skipped) call trailer -/
theorem pos_trailer_call_skip {ua : List Tok} {as : List Expr} {ks : List Keyword} {Z Z' : List Tok}
    (hA : Reads (fun f ts => parseArgs f ts [] [] false) (ua ++ Z) ((as, ks), Z))
    (hA' : Reads (fun f ts => parseArgs f ts [] [] false) (ua ++ Z') ((as, ks), Z')) (acc : Expr)
    (h : EqLarge (fun f ts => parseTrailers f (.call acc as ks) ts) Z Z') :
    EqLarge (fun f ts => parseTrailers f acc ts) (.op .lpar :: (ua ++ Z)) (.op .lpar :: (ua ++ Z')) := by
  el_intro2 h hA hA'
  simp only at hn ha hb ⊢
  simp only [parseTrailers, ha, hb, hn]

/-- the trailers after a (skipped) index trailer -/
theorem pos_trailer_index_skip {us : List Tok} {s : Expr} {Z Z' : List Tok}
    (hS : Parses parseSubscriptList (us ++ Z) s Z) (hS' : Parses parseSubscriptList (us ++ Z') s Z') (acc : Expr)
    (h : EqLarge (fun f ts => parseTrailers f (.subscript acc s) ts) Z Z') :
    EqLarge (fun f ts => parseTrailers f acc ts) (.op .lsqb :: (us ++ Z)) (.op .lsqb :: (us ++ Z')) := by
  el_intro2 h hS hS'
  simp only at hn ⊢
  simp only [parseTrailers, ha, hb, hn]

/-- the trailers after a (skipped) attribute trailer -/
theorem pos_trailer_attr_skip {nm : Ident} {Z Z' : List Tok} (acc : Expr)
    (h : EqLarge (fun f ts => parseTrailers f (.attribute acc nm) ts) Z Z') :
    EqLarge (fun f ts => parseTrailers f acc ts) (.op .dot :: .name nm :: Z) (.op .dot :: .name nm :: Z') := by
  el_intro h
  simp only at hn ⊢
  simp only [parseTrailers, hn]

/-- the trailers after the (skipped) atom -/
theorem pos_atomExpr2_trailers {ua : List Tok} {a : Expr} {Z Z' : List Tok}
    (hZ : Parses parseAtom (ua ++ Z) a Z) (hZ' : Parses parseAtom (ua ++ Z') a Z')
    (h : EqLarge (fun f ts => parseTrailers f a ts) Z Z') : EqLarge parseAtomExpr2 (ua ++ Z) (ua ++ Z') := by
  el_intro2 h hZ hZ'
  simp only at hn
  simp only [parseAtomExpr2, ha, hb, hn]


/-! ### subscripts and slices -/

/-- how the input of a successful `parseTest` can NOT start -/
theorem test_head {ts e rest} (h : Parses parseTest ts e rest) :
    (∀ r, ts ≠ .op .colon :: r) ∧ (∀ r, ts ≠ .op .star :: r) ∧ (∀ r, ts ≠ .op .rsqb :: r) ∧
    (∀ r, ts ≠ .op .comma :: r) ∧ (∀ r, ts ≠ .op .rpar :: r) ∧ (∀ r, ts ≠ .op .dstar :: r) ∧
    (∀ r, ts ≠ .op .rbrace :: r) ∧ (∀ r, ts ≠ .kw .yield :: r) ∧ (∀ r, ts ≠ .kw .from :: r) := by
  obtain ⟨n, hn⟩ := h
  have := so_test (hn n (Nat.le_refl _))
  refine ⟨?_, ?_, ?_, ?_, ?_, ?_, ?_, ?_, ?_⟩ <;> (intro r h'; subst h'; simp [startOk, atomHead] at this)

/-- a test that does not end in front of `:=` does not start with `name :=` -/
theorem test_not_walrus2 {ts e t rest} (h : Parses parseTest ts e (t :: rest)) (ht : t ≠ .op .walrus) :
    ∀ nm r, ts ≠ .name nm :: .op .walrus :: r := by
  intro nm r hts
  subst hts
  have hw : Parses (parseAt 1) (.name nm :: .op .walrus :: r) (.name nm) (.op .walrus :: r) :=
    parses_atom (fun rest _ => atom_name nm rest) rfl (Nat.le_refl _) (by omega)
      (Stop.cons (by simp [contTok, isTrailerStart, isStringTok, binLevelOf, binOpOf, isCmpStart]))
  rw [parseAt_1] at hw
  have := (parses_det h hw).2
  cases this
  exact ht rfl

/-- a plain index (or the lower bound of a slice) -/
theorem pos_subscript_index {X X' : List Tok} (h : EqLarge parseTest X X')
    (hX : (∀ r, X ≠ .op .colon :: r) ∧ (∀ r, X ≠ .op .star :: r) ∧ (∀ n r, X ≠ .name n :: .op .walrus :: r))
    (hX' : (∀ r, X' ≠ .op .colon :: r) ∧ (∀ r, X' ≠ .op .star :: r) ∧ (∀ n r, X' ≠ .name n :: .op .walrus :: r)) :
    EqLarge parseSubscript X X' := by
  el_intro h
  rw [parseSubscript.eq_5 _ _ hX.1 hX.2.1 hX.2.2, parseSubscript.eq_5 _ _ hX'.1 hX'.2.1 hX'.2.2, hn]

/-- `*X` as a subscript -/
theorem pos_subscript_star {X X' : List Tok} (h : EqLarge parseStarOrNamed (.op .star :: X) (.op .star :: X')) :
    EqLarge parseSubscript (.op .star :: X) (.op .star :: X') := by
  el_intro h
  simp only [parseSubscript, hn]

/-- `name := X` as a subscript -/
theorem pos_subscript_walrus {nm : Ident} {X X' : List Tok}
    (h : EqLarge parseNamedTest (.name nm :: .op .walrus :: X) (.name nm :: .op .walrus :: X')) :
    EqLarge parseSubscript (.name nm :: .op .walrus :: X) (.name nm :: .op .walrus :: X') := by
  el_intro h
  simp only [parseSubscript, hn]

/-- a slice without lower bound -/
theorem pos_subscript_slice0 {X X' : List Tok}
    (h : EqLarge (fun f ts => parseSliceRest f none ts) (.op .colon :: X) (.op .colon :: X')) :
    EqLarge parseSubscript (.op .colon :: X) (.op .colon :: X') := by
  el_intro h
  simp only at hn
  simp only [parseSubscript, hn]

/-- the rest of a slice after its (skipped) lower bound -/
theorem pos_subscript_slice {ul : List Tok} {l : Expr} {Z Z' : List Tok}
    (hl : Parses parseTest (ul ++ .op .colon :: Z) l (.op .colon :: Z))
    (hl' : Parses parseTest (ul ++ .op .colon :: Z') l (.op .colon :: Z'))
    (h : EqLarge (fun f ts => parseSliceRest f (some l) ts) (.op .colon :: Z) (.op .colon :: Z')) :
    EqLarge parseSubscript (ul ++ .op .colon :: Z) (ul ++ .op .colon :: Z') := by
  have a1 := test_head hl
  have a2 := test_head hl'
  have w1 := test_not_walrus2 hl (by decide)
  have w2 := test_not_walrus2 hl' (by decide)
  el_intro2 h hl hl'
  simp only at hn
  rw [parseSubscript.eq_5 _ _ a1.1 a1.2.1 w1, parseSubscript.eq_5 _ _ a2.1 a2.2.1 w2]
  simp only [ha, hb, hn]

/-- upper bound of a slice -/
theorem pos_slice_upper {lower : Option Expr} {X X' : List Tok} (h : EqLarge parseTest X X')
    (hX : (∀ r, X ≠ .op .colon :: r) ∧ (∀ r, X ≠ .op .rsqb :: r) ∧ (∀ r, X ≠ .op .comma :: r))
    (hX' : (∀ r, X' ≠ .op .colon :: r) ∧ (∀ r, X' ≠ .op .rsqb :: r) ∧ (∀ r, X' ≠ .op .comma :: r)) :
    EqLarge (fun f ts => parseSliceRest f lower ts) (.op .colon :: X) (.op .colon :: X') := by
  el_intro h
  simp only
  rw [parseSliceRest.eq_7 _ _ _ hX.1 hX.2.1 hX.2.2, parseSliceRest.eq_7 _ _ _ hX'.1 hX'.2.1 hX'.2.2, hn]

/-- step of a slice without upper bound: `: : X` -/
theorem pos_slice_step0 {lower : Option Expr} {X X' : List Tok} (h : EqLarge parseTest X X')
    (hX : (∀ r, X ≠ .op .rsqb :: r) ∧ (∀ r, X ≠ .op .comma :: r))
    (hX' : (∀ r, X' ≠ .op .rsqb :: r) ∧ (∀ r, X' ≠ .op .comma :: r)) :
    EqLarge (fun f ts => parseSliceRest f lower ts) (.op .colon :: .op .colon :: X)
      (.op .colon :: .op .colon :: X') := by
  el_intro h
  simp only
  rw [parseSliceRest.eq_4 _ _ _ hX.1 hX.2, parseSliceRest.eq_4 _ _ _ hX'.1 hX'.2, hn]

theorem sliceRest_after_upper {lower : Option Expr} {f : Nat} {W : List Tok} {up : Expr} {X : List Tok}
    (hu : parseTest f W = some (up, .op .colon :: X))
    (hW : (∀ r, W ≠ .op .colon :: r) ∧ (∀ r, W ≠ .op .rsqb :: r) ∧ (∀ r, W ≠ .op .comma :: r))
    (hX : (∀ r, X ≠ .op .rsqb :: r) ∧ (∀ r, X ≠ .op .comma :: r)) :
    parseSliceRest (f + 1) lower (.op .colon :: W) =
      match parseTest f X with
      | some (st, r3) => some (.slice lower (some up) (some st), r3)
      | none => none := by
  rw [parseSliceRest.eq_7 _ _ _ hW.1 hW.2.1 hW.2.2, hu]
  simp only
  split
  · exact absurd rfl (hX.1 _)
  · exact absurd rfl (hX.2 _)
  · rfl

/-- step of a slice after its (skipped) upper bound: `: upper : X` -/
theorem pos_slice_step {lower : Option Expr} {uu : List Tok} {up : Expr} {X X' : List Tok}
    (hu : Parses parseTest (uu ++ .op .colon :: X) up (.op .colon :: X))
    (hu' : Parses parseTest (uu ++ .op .colon :: X') up (.op .colon :: X'))
    (h : EqLarge parseTest X X')
    (hX : (∀ r, X ≠ .op .rsqb :: r) ∧ (∀ r, X ≠ .op .comma :: r))
    (hX' : (∀ r, X' ≠ .op .rsqb :: r) ∧ (∀ r, X' ≠ .op .comma :: r)) :
    EqLarge (fun f ts => parseSliceRest f lower ts) (.op .colon :: (uu ++ .op .colon :: X))
      (.op .colon :: (uu ++ .op .colon :: X')) := by
  have a1 := test_head hu
  have a2 := test_head hu'
  el_intro2 h hu hu'
  simp only
  rw [sliceRest_after_upper ha ⟨a1.1, a1.2.2.1, a1.2.2.2.1⟩ hX,
    sliceRest_after_upper hb ⟨a2.1, a2.2.2.1, a2.2.2.2.1⟩ hX', hn]

/-- the first subscript of a subscript list -/
theorem pos_subscriptList_first {X X' : List Tok} (h : EqLarge parseSubscript X X') :
    EqLarge parseSubscriptList X X' := by
  el_intro h
  simp only [parseSubscriptList, hn]

/-- the further subscripts after a (skipped) first one -/
theorem pos_subscriptList_rest {us : List Tok} {s : Expr} {Z Z' : List Tok}
    (hs : Parses parseSubscript (us ++ .op .comma :: Z) s (.op .comma :: Z))
    (hs' : Parses parseSubscript (us ++ .op .comma :: Z') s (.op .comma :: Z'))
    (hZ : ∀ r, Z ≠ .op .rsqb :: r) (hZ' : ∀ r, Z' ≠ .op .rsqb :: r)
    (h : EqLarge parseSubscripts Z Z') :
    EqLarge parseSubscriptList (us ++ .op .comma :: Z) (us ++ .op .comma :: Z') := by
  el_intro2 h hs hs'
  simp only [parseSubscriptList, ha, hb]
  rw [hn]

theorem pos_subscripts_first {X X' : List Tok} (h : EqLarge parseSubscript X X') :
    EqLarge parseSubscripts X X' := by
  el_intro h
  simp only [parseSubscripts, hn]

theorem pos_subscripts_skip {us : List Tok} {s : Expr} {Z Z' : List Tok}
    (hs : Parses parseSubscript (us ++ .op .comma :: Z) s (.op .comma :: Z))
    (hs' : Parses parseSubscript (us ++ .op .comma :: Z') s (.op .comma :: Z'))
    (hZ : ∀ r, Z ≠ .op .rsqb :: r) (hZ' : ∀ r, Z' ≠ .op .rsqb :: r)
    (h : EqLarge parseSubscripts Z Z') :
    EqLarge parseSubscripts (us ++ .op .comma :: Z) (us ++ .op .comma :: Z') := by
  el_intro2 h hs hs'
  simp only [parseSubscripts, ha, hb]
  rw [hn]


/-! ### the value position of a trailer: `(f)(x)`, `(x).y`, `(x)[i]` -/

/-- the atom in front of ARBITRARY trailers: equal atoms (same rest) give equal trailer chains -/
theorem pos_atom_value {X X' : List Tok} (h : EqLarge parseAtom X X') : EqLarge parseAtomExpr2 X X' := by
  el_intro h
  simp only [parseAtomExpr2, hn]

/-! ### displays: list, parenthesised / tuple, set, dict -/

theorem pos_atom_list {X X' : List Tok} (h : EqLarge parseListAtom X X') :
    EqLarge parseAtom (.op .lsqb :: X) (.op .lsqb :: X') := by
  el_intro h
  simp only [parseAtom, hn]

theorem pos_atom_paren {X X' : List Tok} (h : EqLarge parseParenAtom X X') :
    EqLarge parseAtom (.op .lpar :: X) (.op .lpar :: X') := by
  el_intro h
  simp only [parseAtom, hn]

theorem pos_atom_brace {X X' : List Tok} (h : EqLarge parseBraceAtom X X') :
    EqLarge parseAtom (.op .lbrace :: X) (.op .lbrace :: X') := by
  el_intro h
  simp only [parseAtom, hn]

/-- how the input of a successful `parseStarOrNamed` can NOT start -/
theorem starOrNamed_head {ts e rest} (h : Parses parseStarOrNamed ts e rest) :
    (∀ r, ts ≠ .op .rsqb :: r) ∧ (∀ r, ts ≠ .op .rpar :: r) ∧ (∀ r, ts ≠ .op .rbrace :: r) ∧
    (∀ r, ts ≠ .kw .yield :: r) ∧ (∀ r, ts ≠ .op .comma :: r) := by
  obtain ⟨n, hn⟩ := h
  have hn := hn n (Nat.le_refl _)
  have key : startOk 1 ts = true ∨ ∃ r, ts = .op .star :: r := by
    unfold parseStarOrNamed at hn
    split at hn
    · cases hn
    · exact Or.inr ⟨_, rfl⟩
    · exact Or.inl (so_namedTest hn)
  refine ⟨?_, ?_, ?_, ?_, ?_⟩ <;>
  · intro r h'
    subst h'
    rcases key with k | ⟨r', k⟩
    · simp [startOk, atomHead] at k
    · cases k

/-- first element of a list display / the element of a list comprehension -/
theorem pos_list_first {X X' : List Tok} (h : EqLarge parseStarOrNamed X X')
    (hX : ∀ r, X ≠ .op .rsqb :: r) (hX' : ∀ r, X' ≠ .op .rsqb :: r) : EqLarge parseListAtom X X' := by
  el_intro h
  rw [parseListAtom.eq_3 _ _ hX, parseListAtom.eq_3 _ _ hX', hn]

/-- the further elements of a list display, after the (skipped) first one -/
theorem pos_list_elems {u : List Tok} {e : Expr} {Z Z' : List Tok}
    (he : Parses parseStarOrNamed (u ++ Z) e Z) (he' : Parses parseStarOrNamed (u ++ Z') e Z')
    (hc : atCompFor Z = false) (hc' : atCompFor Z' = false)
    (h : EqLarge (fun f ts => parseElems f .rsqb ts) Z Z') : EqLarge parseListAtom (u ++ Z) (u ++ Z') := by
  have a1 := (starOrNamed_head he).1
  have a2 := (starOrNamed_head he').1
  el_intro2 h he he'
  simp only at hn
  rw [parseListAtom.eq_3 _ _ a1, parseListAtom.eq_3 _ _ a2]
  simp only [ha, hb, hc, hc', hn, Bool.false_eq_true, if_false]

/-- the generators of a list comprehension, after the (skipped) element -/
theorem pos_list_comp {u : List Tok} {e : Expr} {Z Z' : List Tok}
    (he : Parses parseStarOrNamed (u ++ Z) e Z) (he' : Parses parseStarOrNamed (u ++ Z') e Z')
    (hc : atCompFor Z = true) (hc' : atCompFor Z' = true)
    (h : EqLarge parseCompFor Z Z') : EqLarge parseListAtom (u ++ Z) (u ++ Z') := by
  have a1 := (starOrNamed_head he).1
  have a2 := (starOrNamed_head he').1
  el_intro2 h he he'
  rw [parseListAtom.eq_3 _ _ a1, parseListAtom.eq_3 _ _ a2]
  simp only [ha, hb, hc, hc', hn, if_true]

/-- first element of a tuple display / the parenthesised expression itself / the element of a generator
    expression -/
theorem pos_paren_first {X X' : List Tok} (h : EqLarge parseStarOrNamed X X')
    (hX : (∀ r, X ≠ .op .rpar :: r) ∧ (∀ r, X ≠ .kw .yield :: r))
    (hX' : (∀ r, X' ≠ .op .rpar :: r) ∧ (∀ r, X' ≠ .kw .yield :: r)) : EqLarge parseParenAtom X X' := by
  el_intro h
  rw [parseParenAtom.eq_4 _ _ hX.1 hX.2, parseParenAtom.eq_4 _ _ hX'.1 hX'.2, hn]

theorem pos_paren_elems {u : List Tok} {e : Expr} {Z Z' : List Tok}
    (he : Parses parseStarOrNamed (u ++ Z) e Z) (he' : Parses parseStarOrNamed (u ++ Z') e Z')
    (hc : atCompFor Z = false) (hc' : atCompFor Z' = false)
    (h : EqLarge (fun f ts => parseElems f .rpar ts) Z Z') : EqLarge parseParenAtom (u ++ Z) (u ++ Z') := by
  have a1 := starOrNamed_head he
  have a2 := starOrNamed_head he'
  el_intro2 h he he'
  simp only at hn
  rw [parseParenAtom.eq_4 _ _ a1.2.1 a1.2.2.2.1, parseParenAtom.eq_4 _ _ a2.2.1 a2.2.2.2.1]
  simp only [ha, hb, hc, hc', hn, Bool.false_eq_true, if_false]

theorem pos_paren_comp {u : List Tok} {e : Expr} {Z Z' : List Tok}
    (he : Parses parseStarOrNamed (u ++ Z) e Z) (he' : Parses parseStarOrNamed (u ++ Z') e Z')
    (hc : atCompFor Z = true) (hc' : atCompFor Z' = true)
    (h : EqLarge parseCompFor Z Z') : EqLarge parseParenAtom (u ++ Z) (u ++ Z') := by
  have a1 := starOrNamed_head he
  have a2 := starOrNamed_head he'
  el_intro2 h he he'
  rw [parseParenAtom.eq_4 _ _ a1.2.1 a1.2.2.2.1, parseParenAtom.eq_4 _ _ a2.2.1 a2.2.2.2.1]
  simp only [ha, hb, hc, hc', hn, if_true]

theorem pos_paren_yield {X X' : List Tok} (h : EqLarge parseYieldAtom X X') :
    EqLarge parseParenAtom (.kw .yield :: X) (.kw .yield :: X') := by
  el_intro h
  simp only [parseParenAtom, hn]


/-- first element of a set display / first key of a dict display / element or key of a comprehension -/
theorem pos_brace_first {X X' : List Tok} (h : EqLarge parseBraceFirst X X')
    (hX : (∀ r, X ≠ .op .rbrace :: r) ∧ (∀ r, X ≠ .op .dstar :: r))
    (hX' : (∀ r, X' ≠ .op .rbrace :: r) ∧ (∀ r, X' ≠ .op .dstar :: r)) : EqLarge parseBraceAtom X X' := by
  el_intro h
  rw [parseBraceAtom.eq_4 _ _ hX.1 hX.2, parseBraceAtom.eq_4 _ _ hX'.1 hX'.2, hn]

theorem pos_braceFirst {X X' : List Tok} (h : EqLarge parseTest X X')
    (hX : (∀ r, X ≠ .op .star :: r) ∧ (∀ n r, X ≠ .name n :: .op .walrus :: r))
    (hX' : (∀ r, X' ≠ .op .star :: r) ∧ (∀ n r, X' ≠ .name n :: .op .walrus :: r)) :
    EqLarge parseBraceFirst X X' := by
  el_intro h
  rw [parseBraceFirst.eq_4 _ _ hX.1 hX.2, parseBraceFirst.eq_4 _ _ hX'.1 hX'.2, hn]

theorem pos_braceFirst_star {X X' : List Tok}
    (h : EqLarge parseStarOrNamed (.op .star :: X) (.op .star :: X')) :
    EqLarge parseBraceFirst (.op .star :: X) (.op .star :: X') := by
  el_intro h
  simp only [parseBraceFirst, hn]

theorem pos_braceFirst_walrus {nm : Ident} {X X' : List Tok}
    (h : EqLarge parseNamedTest (.name nm :: .op .walrus :: X) (.name nm :: .op .walrus :: X')) :
    EqLarge parseBraceFirst (.name nm :: .op .walrus :: X) (.name nm :: .op .walrus :: X') := by
  el_intro h
  simp only [parseBraceFirst, hn]

/-- `{ ** X`: the first unpacked mapping of a dict display -/
theorem pos_brace_dstar {X X' : List Tok} (h : EqLarge (parseBin 0) X X') :
    EqLarge parseBraceAtom (.op .dstar :: X) (.op .dstar :: X') := by
  el_intro h
  simp only [parseBraceAtom, hn]

theorem pos_brace_dstar_rest {uv : List Tok} {v : Expr} {Z Z' : List Tok}
    (hv : Parses (parseBin 0) (uv ++ Z) v Z) (hv' : Parses (parseBin 0) (uv ++ Z') v Z')
    (h : EqLarge parseDictRest Z Z') :
    EqLarge parseBraceAtom (.op .dstar :: (uv ++ Z)) (.op .dstar :: (uv ++ Z')) := by
  el_intro2 h hv hv'
  simp only [parseBraceAtom, ha, hb, hn]

theorem braceFirst_head {ts v} (h : Reads parseBraceFirst ts v) :
    (∀ r, ts ≠ .op .rbrace :: r) ∧ (∀ r, ts ≠ .op .dstar :: r) := by
  obtain ⟨n, hn⟩ := h
  have hn := hn n (Nat.le_refl _)
  constructor <;>
  · intro r h'
    subst h'
    cases n with
    | zero => cases hn
    | succ n =>
      rw [parseBraceFirst.eq_4 _ _ (by intro r h; cases h) (by intro nm r h; cases h)] at hn
      split at hn
      · rename_i h1; have := so_test h1; simp [startOk, atomHead] at this
      · cases hn

/-- the value of the first `key: value` of a dict display / dict comprehension (after the skipped key) -/
theorem pos_brace_value {uk : List Tok} {k : Expr} {X X' : List Tok}
    (hk : Reads parseBraceFirst (uk ++ .op .colon :: X) (k, true, .op .colon :: X))
    (hk' : Reads parseBraceFirst (uk ++ .op .colon :: X') (k, true, .op .colon :: X'))
    (h : EqLarge parseTest X X') :
    EqLarge parseBraceAtom (uk ++ .op .colon :: X) (uk ++ .op .colon :: X') := by
  have a1 := braceFirst_head hk
  have a2 := braceFirst_head hk'
  el_intro2 h hk hk'
  rw [parseBraceAtom.eq_4 _ _ a1.1 a1.2, parseBraceAtom.eq_4 _ _ a2.1 a2.2]
  simp only [ha, hb, hn]

/-- the further entries of a dict display, after the (skipped) first `key: value` -/
theorem pos_brace_dictRest {uk uv : List Tok} {k v : Expr} {Z Z' : List Tok}
    (hk : Reads parseBraceFirst (uk ++ .op .colon :: (uv ++ Z)) (k, true, .op .colon :: (uv ++ Z)))
    (hk' : Reads parseBraceFirst (uk ++ .op .colon :: (uv ++ Z')) (k, true, .op .colon :: (uv ++ Z')))
    (hv : Parses parseTest (uv ++ Z) v Z) (hv' : Parses parseTest (uv ++ Z') v Z')
    (hc : atCompFor Z = false) (hc' : atCompFor Z' = false)
    (h : EqLarge parseDictRest Z Z') :
    EqLarge parseBraceAtom (uk ++ .op .colon :: (uv ++ Z)) (uk ++ .op .colon :: (uv ++ Z')) := by
  have a1 := braceFirst_head hk
  have a2 := braceFirst_head hk'
  obtain ⟨nv, hv⟩ := hv
  obtain ⟨nv', hv'⟩ := hv'
  obtain ⟨n, hn⟩ := h
  obtain ⟨na, ha⟩ := hk
  obtain ⟨nb, hb⟩ := hk'
  refine ⟨max (max n nv) (max nv' (max na nb)) + 1, fun fuel hf => ?_⟩
  obtain ⟨f, rfl, hf'⟩ := fuel_succ hf
  rw [parseBraceAtom.eq_4 _ _ a1.1 a1.2, parseBraceAtom.eq_4 _ _ a2.1 a2.2]
  simp only [ha f (by omega), hb f (by omega), hv f (by omega), hv' f (by omega), hn f (by omega), hc, hc',
    Bool.false_eq_true, if_false]

/-- the generators of a dict comprehension -/
theorem pos_brace_dictComp {uk uv : List Tok} {k v : Expr} {Z Z' : List Tok}
    (hk : Reads parseBraceFirst (uk ++ .op .colon :: (uv ++ Z)) (k, true, .op .colon :: (uv ++ Z)))
    (hk' : Reads parseBraceFirst (uk ++ .op .colon :: (uv ++ Z')) (k, true, .op .colon :: (uv ++ Z')))
    (hv : Parses parseTest (uv ++ Z) v Z) (hv' : Parses parseTest (uv ++ Z') v Z')
    (hc : atCompFor Z = true) (hc' : atCompFor Z' = true)
    (h : EqLarge parseCompFor Z Z') :
    EqLarge parseBraceAtom (uk ++ .op .colon :: (uv ++ Z)) (uk ++ .op .colon :: (uv ++ Z')) := by
  have a1 := braceFirst_head hk
  have a2 := braceFirst_head hk'
  obtain ⟨nv, hv⟩ := hv
  obtain ⟨nv', hv'⟩ := hv'
  obtain ⟨n, hn⟩ := h
  obtain ⟨na, ha⟩ := hk
  obtain ⟨nb, hb⟩ := hk'
  refine ⟨max (max n nv) (max nv' (max na nb)) + 1, fun fuel hf => ?_⟩
  obtain ⟨f, rfl, hf'⟩ := fuel_succ hf
  rw [parseBraceAtom.eq_4 _ _ a1.1 a1.2, parseBraceAtom.eq_4 _ _ a2.1 a2.2]
  simp only [ha f (by omega), hb f (by omega), hv f (by omega), hv' f (by omega), hn f (by omega), hc, hc',
    if_true]

theorem braceAtom_after_first {f : Nat} {W : List Tok} {e : Expr} {b : Bool} {Z : List Tok}
    (hf : parseBraceFirst f W = some (e, b, Z))
    (hW : (∀ r, W ≠ .op .rbrace :: r) ∧ (∀ r, W ≠ .op .dstar :: r)) (hZ : ∀ r, Z ≠ .op .colon :: r) :
    parseBraceAtom (f + 1) W =
      if atCompFor Z = true then
        if isStarred e = true then none
        else
          match parseCompFor f Z with
          | some (gs, .op .rbrace :: r2) => some (.setComp e gs, r2)
          | _ => none
      else
        match parseElems f .rbrace Z with
        | some ((es, _), r2) => some (.set (e :: es), r2)
        | none => none := by
  rw [parseBraceAtom.eq_4 _ _ hW.1 hW.2, hf]
  split
  · rename_i heq
    simp only [Option.some.injEq, Prod.mk.injEq] at heq
    exact absurd heq.2.2 (hZ _)
  · rename_i heq
    simp only [Option.some.injEq, Prod.mk.injEq] at heq
    obtain ⟨rfl, rfl, rfl⟩ := heq
    rfl
  · rename_i heq; cases heq

/-- the further elements of a set display, after the (skipped) first one -/
theorem pos_brace_elems {u : List Tok} {e : Expr} {b : Bool} {Z Z' : List Tok}
    (he : Reads parseBraceFirst (u ++ Z) (e, b, Z)) (he' : Reads parseBraceFirst (u ++ Z') (e, b, Z'))
    (hZ : ∀ r, Z ≠ .op .colon :: r) (hZ' : ∀ r, Z' ≠ .op .colon :: r)
    (hc : atCompFor Z = false) (hc' : atCompFor Z' = false)
    (h : EqLarge (fun f ts => parseElems f .rbrace ts) Z Z') : EqLarge parseBraceAtom (u ++ Z) (u ++ Z') := by
  have a1 := braceFirst_head he
  have a2 := braceFirst_head he'
  el_intro2 h he he'
  simp only at hn
  rw [braceAtom_after_first ha a1 hZ, braceAtom_after_first hb a2 hZ']
  simp only [hc, hc', hn, Bool.false_eq_true, if_false]

/-- the generators of a set comprehension, after the (skipped) element -/
theorem pos_brace_setComp {u : List Tok} {e : Expr} {b : Bool} {Z Z' : List Tok}
    (he : Reads parseBraceFirst (u ++ Z) (e, b, Z)) (he' : Reads parseBraceFirst (u ++ Z') (e, b, Z'))
    (hZ : ∀ r, Z ≠ .op .colon :: r) (hZ' : ∀ r, Z' ≠ .op .colon :: r)
    (hc : atCompFor Z = true) (hc' : atCompFor Z' = true)
    (h : EqLarge parseCompFor Z Z') : EqLarge parseBraceAtom (u ++ Z) (u ++ Z') := by
  have a1 := braceFirst_head he
  have a2 := braceFirst_head he'
  el_intro2 h he he'
  rw [braceAtom_after_first ha a1 hZ, braceAtom_after_first hb a2 hZ']
  simp only [hc, hc', hn, if_true]

/-! ### element lists and dict entries after the first -/

theorem elems_comma {f : Nat} {close : Op} {X : List Tok} (hX : ∀ r, X ≠ .op close :: r) :
    parseElems (f + 1) close (.op .comma :: X) =
      match parseStarOrNamed f X with
      | some (e, r1) =>
        (match parseElems f close r1 with
         | some ((es, _), r2) => some ((e :: es, true), r2)
         | none => none)
      | none => none := by
  by_cases ho : ∃ o r, X = .op o :: r
  · obtain ⟨o, r, rfl⟩ := ho
    have : o ≠ close := by intro h; subst h; exact hX _ rfl
    rw [parseElems.eq_2, if_neg this]
    rfl
  · rw [parseElems.eq_3 _ _ _ (by intro o r h; exact ho ⟨o, r, h⟩)]
    rfl

/-- a later element of a list / tuple / set display -/
theorem pos_elems_next {close : Op} {X X' : List Tok} (h : EqLarge parseStarOrNamed X X')
    (hX : ∀ r, X ≠ .op close :: r) (hX' : ∀ r, X' ≠ .op close :: r) :
    EqLarge (fun f ts => parseElems f close ts) (.op .comma :: X) (.op .comma :: X') := by
  el_intro h
  simp only
  rw [elems_comma hX, elems_comma hX', hn]

/-- the elements after a (skipped) later element -/
theorem pos_elems_skip {close : Op} (hcl : isClose close = true) {u : List Tok} {e : Expr} {Z Z' : List Tok}
    (he : Parses parseStarOrNamed (u ++ Z) e Z) (he' : Parses parseStarOrNamed (u ++ Z') e Z')
    (h : EqLarge (fun f ts => parseElems f close ts) Z Z') :
    EqLarge (fun f ts => parseElems f close ts) (.op .comma :: (u ++ Z)) (.op .comma :: (u ++ Z')) := by
  have a1 := starOrNamed_head he
  have a2 := starOrNamed_head he'
  have c1 : ∀ r, u ++ Z ≠ .op close :: r := by
    intro r hr
    cases close <;> first | (simp [isClose] at hcl; done) | exact a1.1 _ hr | exact a1.2.1 _ hr | exact a1.2.2.1 _ hr
  have c2 : ∀ r, u ++ Z' ≠ .op close :: r := by
    intro r hr
    cases close <;> first | (simp [isClose] at hcl; done) | exact a2.1 _ hr | exact a2.2.1 _ hr | exact a2.2.2.1 _ hr
  el_intro2 h he he'
  simp only at hn ⊢
  rw [elems_comma c1, elems_comma c2, ha, hb]
  simp only [hn]

/-- a later key of a dict display -/
theorem pos_dictRest_key {X X' : List Tok} (h : EqLarge parseTest X X')
    (hX : (∀ r, X ≠ .op .rbrace :: r) ∧ (∀ r, X ≠ .op .dstar :: r))
    (hX' : (∀ r, X' ≠ .op .rbrace :: r) ∧ (∀ r, X' ≠ .op .dstar :: r)) :
    EqLarge parseDictRest (.op .comma :: X) (.op .comma :: X') := by
  el_intro h
  rw [parseDictRest.eq_5 _ _ hX.1 hX.2, parseDictRest.eq_5 _ _ hX'.1 hX'.2, hn]

/-- a later value of a dict display (after the skipped key) -/
theorem pos_dictRest_value {uk : List Tok} {k : Expr} {X X' : List Tok}
    (hk : Parses parseTest (uk ++ .op .colon :: X) k (.op .colon :: X))
    (hk' : Parses parseTest (uk ++ .op .colon :: X') k (.op .colon :: X'))
    (h : EqLarge parseTest X X') :
    EqLarge parseDictRest (.op .comma :: (uk ++ .op .colon :: X)) (.op .comma :: (uk ++ .op .colon :: X')) := by
  have a1 := test_head hk
  have a2 := test_head hk'
  el_intro2 h hk hk'
  rw [parseDictRest.eq_5 _ _ a1.2.2.2.2.2.2.1 a1.2.2.2.2.2.1, parseDictRest.eq_5 _ _ a2.2.2.2.2.2.2.1 a2.2.2.2.2.2.1]
  simp only [ha, hb, hn]

/-- a later `**X` of a dict display -/
theorem pos_dictRest_dstar {X X' : List Tok} (h : EqLarge (parseBin 0) X X') :
    EqLarge parseDictRest (.op .comma :: .op .dstar :: X) (.op .comma :: .op .dstar :: X') := by
  el_intro h
  simp only [parseDictRest, hn]

/-- the entries after a (skipped) later `key: value` -/
theorem pos_dictRest_skip {uk uv : List Tok} {k v : Expr} {Z Z' : List Tok}
    (hk : Parses parseTest (uk ++ .op .colon :: (uv ++ Z)) k (.op .colon :: (uv ++ Z)))
    (hk' : Parses parseTest (uk ++ .op .colon :: (uv ++ Z')) k (.op .colon :: (uv ++ Z')))
    (hv : Parses parseTest (uv ++ Z) v Z) (hv' : Parses parseTest (uv ++ Z') v Z')
    (h : EqLarge parseDictRest Z Z') :
    EqLarge parseDictRest (.op .comma :: (uk ++ .op .colon :: (uv ++ Z)))
      (.op .comma :: (uk ++ .op .colon :: (uv ++ Z'))) := by
  have a1 := test_head hk
  have a2 := test_head hk'
  obtain ⟨nv, hv⟩ := hv
  obtain ⟨nv', hv'⟩ := hv'
  obtain ⟨n, hn⟩ := h
  obtain ⟨na, ha⟩ := hk
  obtain ⟨nb, hb⟩ := hk'
  refine ⟨max (max n nv) (max nv' (max na nb)) + 1, fun fuel hf => ?_⟩
  obtain ⟨f, rfl, hf'⟩ := fuel_succ hf
  rw [parseDictRest.eq_5 _ _ a1.2.2.2.2.2.2.1 a1.2.2.2.2.2.1, parseDictRest.eq_5 _ _ a2.2.2.2.2.2.2.1 a2.2.2.2.2.2.1]
  simp only [ha f (by omega), hb f (by omega), hv f (by omega), hv' f (by omega), hn f (by omega)]

/-- the entries after a (skipped) later `**value` -/
theorem pos_dictRest_skip_dstar {uv : List Tok} {v : Expr} {Z Z' : List Tok}
    (hv : Parses (parseBin 0) (uv ++ Z) v Z) (hv' : Parses (parseBin 0) (uv ++ Z') v Z')
    (h : EqLarge parseDictRest Z Z') :
    EqLarge parseDictRest (.op .comma :: .op .dstar :: (uv ++ Z)) (.op .comma :: .op .dstar :: (uv ++ Z')) := by
  el_intro2 h hv hv'
  simp only [parseDictRest, ha, hb, hn]


/-! ### comprehension parts -/

/-- the two ways a comprehension clause starts -/
def compHead (isAsync : Bool) : List Tok := if isAsync then [.kw .async, .kw .for] else [.kw .for]

/-- target of a comprehension clause -/
theorem pos_comp_target (a : Bool) {X X' : List Tok} (h : EqLarge parseTargetList X X') :
    EqLarge parseCompFor (compHead a ++ X) (compHead a ++ X') := by
  el_intro h
  cases a <;> simp only [compHead, if_true, Bool.false_eq_true, if_false, List.cons_append, List.nil_append,
    parseCompFor, hn]

/-- iterable after `in` (after the skipped target) -/
theorem pos_comp_iter (a : Bool) {ut : List Tok} {t : Expr} {X X' : List Tok}
    (ht : Parses parseTargetList (ut ++ .kw .in :: X) t (.kw .in :: X))
    (ht' : Parses parseTargetList (ut ++ .kw .in :: X') t (.kw .in :: X'))
    (h : EqLarge parseOrTest X X') :
    EqLarge parseCompFor (compHead a ++ (ut ++ .kw .in :: X)) (compHead a ++ (ut ++ .kw .in :: X')) := by
  el_intro2 h ht ht'
  cases a <;> simp only [compHead, if_true, Bool.false_eq_true, if_false, List.cons_append, List.nil_append,
    parseCompFor, ha, hb, hn]

/-- the conditions of a clause (after the skipped target and iterable) -/
theorem pos_comp_ifs (a : Bool) {ut ui : List Tok} {t i : Expr} {Z Z' : List Tok}
    (ht : Parses parseTargetList (ut ++ .kw .in :: (ui ++ Z)) t (.kw .in :: (ui ++ Z)))
    (ht' : Parses parseTargetList (ut ++ .kw .in :: (ui ++ Z')) t (.kw .in :: (ui ++ Z')))
    (hi : Parses parseOrTest (ui ++ Z) i Z) (hi' : Parses parseOrTest (ui ++ Z') i Z')
    (h : EqLarge parseCompIfs Z Z') :
    EqLarge parseCompFor (compHead a ++ (ut ++ .kw .in :: (ui ++ Z))) (compHead a ++ (ut ++ .kw .in :: (ui ++ Z'))) := by
  obtain ⟨ni, hi⟩ := hi
  obtain ⟨ni', hi'⟩ := hi'
  obtain ⟨n, hn⟩ := h
  obtain ⟨na, ha⟩ := ht
  obtain ⟨nb, hb⟩ := ht'
  refine ⟨max (max n ni) (max ni' (max na nb)) + 1, fun fuel hf => ?_⟩
  obtain ⟨f, rfl, hf'⟩ := fuel_succ hf
  cases a <;> simp only [compHead, if_true, Bool.false_eq_true, if_false, List.cons_append, List.nil_append,
    parseCompFor, ha f (by omega), hb f (by omega), hi f (by omega), hi' f (by omega), hn f (by omega)]

/-- the following clauses (after a skipped whole clause) -/
theorem pos_comp_next (a : Bool) {ut ui uc : List Tok} {t i : Expr} {ifs : List Expr} {Z Z' : List Tok}
    (ht : Parses parseTargetList (ut ++ .kw .in :: (ui ++ (uc ++ Z))) t (.kw .in :: (ui ++ (uc ++ Z))))
    (ht' : Parses parseTargetList (ut ++ .kw .in :: (ui ++ (uc ++ Z'))) t (.kw .in :: (ui ++ (uc ++ Z'))))
    (hi : Parses parseOrTest (ui ++ (uc ++ Z)) i (uc ++ Z)) (hi' : Parses parseOrTest (ui ++ (uc ++ Z')) i (uc ++ Z'))
    (hc : Reads parseCompIfs (uc ++ Z) (ifs, Z)) (hc' : Reads parseCompIfs (uc ++ Z') (ifs, Z'))
    (hZ : atCompFor Z = true) (hZ' : atCompFor Z' = true)
    (h : EqLarge parseCompFor Z Z') :
    EqLarge parseCompFor (compHead a ++ (ut ++ .kw .in :: (ui ++ (uc ++ Z))))
      (compHead a ++ (ut ++ .kw .in :: (ui ++ (uc ++ Z')))) := by
  obtain ⟨ni, hi⟩ := hi
  obtain ⟨ni', hi'⟩ := hi'
  obtain ⟨nc, hc⟩ := hc
  obtain ⟨nc', hc'⟩ := hc'
  obtain ⟨n, hn⟩ := h
  obtain ⟨na, ha⟩ := ht
  obtain ⟨nb, hb⟩ := ht'
  refine ⟨max (max (max n ni) (max nc nc')) (max ni' (max na nb)) + 1, fun fuel hf => ?_⟩
  obtain ⟨f, rfl, hf'⟩ := fuel_succ hf
  cases a <;> simp only [compHead, if_true, Bool.false_eq_true, if_false, List.cons_append, List.nil_append,
    parseCompFor, ha f (by omega), hb f (by omega), hi f (by omega), hi' f (by omega), hc f (by omega),
    hc' f (by omega), hZ, hZ', hn f (by omega)]

/-- a condition `if X` of a comprehension clause -/
theorem pos_compIfs_cond {X X' : List Tok} (h : EqLarge parseOrTest X X') :
    EqLarge parseCompIfs (.kw .if :: X) (.kw .if :: X') := by
  el_intro h
  simp only [parseCompIfs, hn]

theorem pos_compIfs_skip {uc : List Tok} {c : Expr} {Z Z' : List Tok}
    (hc : Parses parseOrTest (uc ++ Z) c Z) (hc' : Parses parseOrTest (uc ++ Z') c Z')
    (h : EqLarge parseCompIfs Z Z') : EqLarge parseCompIfs (.kw .if :: (uc ++ Z)) (.kw .if :: (uc ++ Z')) := by
  el_intro2 h hc hc'
  simp only [parseCompIfs, ha, hb, hn]

/-- first (or only) element of a target list -/
theorem pos_targetList_first {X X' : List Tok} (h : EqLarge parseExprOrStar X X') :
    EqLarge parseTargetList X X' := by
  el_intro h
  simp only [parseTargetList, hn]

theorem pos_targetList_rest {u : List Tok} {e : Expr} {Z Z' : List Tok}
    (he : Parses parseExprOrStar (u ++ .op .comma :: Z) e (.op .comma :: Z))
    (he' : Parses parseExprOrStar (u ++ .op .comma :: Z') e (.op .comma :: Z'))
    (h : EqLarge parseTargetRest Z Z') :
    EqLarge parseTargetList (u ++ .op .comma :: Z) (u ++ .op .comma :: Z') := by
  el_intro2 h he he'
  simp only [parseTargetList, ha, hb, hn]

theorem pos_targetRest_first {X X' : List Tok} (h : EqLarge parseExprOrStar X X')
    (hX : ∀ r, X ≠ .kw .in :: r) (hX' : ∀ r, X' ≠ .kw .in :: r) : EqLarge parseTargetRest X X' := by
  el_intro h
  rw [parseTargetRest.eq_3 _ _ hX, parseTargetRest.eq_3 _ _ hX', hn]

theorem exprOrStar_not_in {ts e rest} (h : Parses parseExprOrStar ts e rest) : ∀ r, ts ≠ .kw .in :: r := by
  obtain ⟨n, hn⟩ := h
  have hn := hn n (Nat.le_refl _)
  intro r h'
  subst h'
  cases n with
  | zero => cases hn
  | succ n =>
    rw [parseExprOrStar.eq_3 _ _ (by intro r h; cases h)] at hn
    have := so_bin _ _ hn
    simp [startOk, atomHead] at this

theorem pos_targetRest_skip {u : List Tok} {e : Expr} {Z Z' : List Tok}
    (he : Parses parseExprOrStar (u ++ .op .comma :: Z) e (.op .comma :: Z))
    (he' : Parses parseExprOrStar (u ++ .op .comma :: Z') e (.op .comma :: Z'))
    (h : EqLarge parseTargetRest Z Z') :
    EqLarge parseTargetRest (u ++ .op .comma :: Z) (u ++ .op .comma :: Z') := by
  have a1 := exprOrStar_not_in he
  have a2 := exprOrStar_not_in he'
  el_intro2 h he he'
  rw [parseTargetRest.eq_3 _ _ a1, parseTargetRest.eq_3 _ _ a2]
  simp only [ha, hb, hn]

/-! ### `yield` inside parentheses, test lists, the top -/

theorem pos_yield_from {X X' : List Tok} (h : EqLarge parseTest X X') :
    EqLarge parseYieldAtom (.kw .from :: X) (.kw .from :: X') := by
  el_intro h
  simp only [parseYieldAtom, hn]

theorem pos_yield_value {X X' : List Tok} (h : EqLarge parseTestList X X')
    (hX : (∀ r, X ≠ .kw .from :: r) ∧ (∀ r, X ≠ .op .rpar :: r))
    (hX' : (∀ r, X' ≠ .kw .from :: r) ∧ (∀ r, X' ≠ .op .rpar :: r)) : EqLarge parseYieldAtom X X' := by
  el_intro h
  rw [parseYieldAtom.eq_4 _ _ hX.1 hX.2, parseYieldAtom.eq_4 _ _ hX'.1 hX'.2, hn]

theorem pos_testList_first {X X' : List Tok} (h : EqLarge parseTestOrStar X X') : EqLarge parseTestList X X' := by
  el_intro h
  simp only [parseTestList, hn]

theorem pos_testList_rest {u : List Tok} {e : Expr} {Z Z' : List Tok}
    (he : Parses parseTestOrStar (u ++ .op .comma :: Z) e (.op .comma :: Z))
    (he' : Parses parseTestOrStar (u ++ .op .comma :: Z') e (.op .comma :: Z'))
    (h : EqLarge parseTestListRest Z Z') :
    EqLarge parseTestList (u ++ .op .comma :: Z) (u ++ .op .comma :: Z') := by
  el_intro2 h he he'
  simp only [parseTestList, ha, hb, hn]

theorem pos_testListRest_first {X X' : List Tok} (h : EqLarge parseTestOrStar X X')
    (hX : X ≠ [] ∧ ∀ r, X ≠ .op .rpar :: r) (hX' : X' ≠ [] ∧ ∀ r, X' ≠ .op .rpar :: r) :
    EqLarge parseTestListRest X X' := by
  el_intro h
  rw [parseTestListRest.eq_4 _ _ hX.1 hX.2, parseTestListRest.eq_4 _ _ hX'.1 hX'.2, hn]

theorem testOrStar_head {ts e rest} (h : Parses parseTestOrStar ts e rest) :
    ts ≠ [] ∧ ∀ r, ts ≠ .op .rpar :: r := by
  obtain ⟨n, hn⟩ := h
  have hn := hn n (Nat.le_refl _)
  have key : startOk 1 ts = true ∨ ∃ r, ts = .op .star :: r := by
    unfold parseTestOrStar at hn
    split at hn
    · cases hn
    · exact Or.inr ⟨_, rfl⟩
    · exact Or.inl (so_test hn)
  constructor
  · intro h'; subst h'
    rcases key with k | ⟨r', k⟩
    · simp [startOk] at k
    · cases k
  · intro r h'; subst h'
    rcases key with k | ⟨r', k⟩
    · simp [startOk, atomHead] at k
    · cases k

theorem pos_testListRest_skip {u : List Tok} {e : Expr} {Z Z' : List Tok}
    (he : Parses parseTestOrStar (u ++ .op .comma :: Z) e (.op .comma :: Z))
    (he' : Parses parseTestOrStar (u ++ .op .comma :: Z') e (.op .comma :: Z'))
    (h : EqLarge parseTestListRest Z Z') :
    EqLarge parseTestListRest (u ++ .op .comma :: Z) (u ++ .op .comma :: Z') := by
  have a1 := testOrStar_head he
  have a2 := testOrStar_head he'
  el_intro2 h he he'
  rw [parseTestListRest.eq_4 _ _ a1.1 a1.2, parseTestListRest.eq_4 _ _ a2.1 a2.2]
  simp only [ha, hb, hn]

/-- whole-input parse -/
theorem pos_top {X X' : List Tok} (h : EqLarge parseTestList X X') :
    EqLarge (fun f ts => parseTop f ts) X X' := by
  el_intro h
  simp only [parseTop, hn]


end PV.C08.Paren
