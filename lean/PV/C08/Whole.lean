import PV.C08.Fold
import PV.C08.AtBol
/-
  PV.C08.Whole — one layout rule instance gives the same whole-text runs (`layoutStep_run`).

  For the rules at the start of a line the hypothesis "the lexer reaches the place in the rewritten text in the same
  state after the same tokens" is derived here from the hypothesis about the ORIGINAL text (`at_bol_extend`); for the
  rules behind a token it is a hypothesis of the rule (and cannot be derived: `at_rewritten_not_derivable`).
-/
namespace PV.C08
open PV.Lexer

/-! ## the first character of the inserted layout text -/

theorem bolBlank_head {a : Nat} {w : List Nat} (h : BolBlank (a :: w)) : a = 32 ∨ a = 9 ∨ a = 12 := by
  unfold BolBlank at h
  unfold measure at h
  split at h <;> simp_all

theorem head_append_ne_bom {pre post x : List Nat} (h : (pre ++ post).head? ≠ some 0xFEFF)
    (hx : x.head? ≠ some 0xFEFF) : (pre ++ x).head? ≠ some 0xFEFF := by
  cases pre with
  | nil => simpa using hx
  | cons a p => simpa using h

/-- a blank or comment-only line starts with a blank, `#` or a line break: never with LF unless it is the bare line
    end, never with a byte order mark -/
theorem head_blankLine {w c e : List Nat} (hw : BolBlank w) (hc : c = [] ∨ IsComment c) (he : IsEol e) :
    ∃ a r, w ++ c ++ e = a :: r ∧ True ∧ a ≠ 0xFEFF := by
  cases w with
  | cons a w2 =>
    refine ⟨a, w2 ++ c ++ e, by simp, trivial, ?_⟩
    rcases bolBlank_head hw with rfl | rfl | rfl <;> decide
  | nil =>
    rcases hc with rfl | ⟨t, rfl, _⟩
    · obtain ⟨d, r, rfl, hd⟩ := eol_cons he
      refine ⟨d, r, by simp, trivial, ?_⟩
      rcases isLineBreak_cases hd with rfl | rfl <;> decide
    · exact ⟨35, t ++ e, by simp, trivial, by decide⟩

theorem head_blankTail {w c : List Nat} (hw : BolBlank w) (hc : c = [] ∨ IsComment c) :
    (w ++ c).head? ≠ some 10 ∧ (w ++ c).head? ≠ some 0xFEFF := by
  cases w with
  | cons a w2 => rcases bolBlank_head hw with rfl | rfl | rfl <;> simp
  | nil =>
    rcases hc with rfl | ⟨t, rfl, _⟩
    · simp
    · simp

theorem head_formFeed {w : List Nat} (hw : BolBlank w) (post : List Nat) :
    (w ++ 12 :: post).head? ≠ some 10 ∧ (w ++ 12 :: post).head? ≠ some 0xFEFF := by
  cases w with
  | cons a w2 => rcases bolBlank_head hw with rfl | rfl | rfl <;> simp
  | nil => simp

theorem layoutStep_run {cfg : Cfg} (hup : UpOk cfg.up) (hf : cfg.fullLexer = false) (heol : EolInv cfg)
    {a b : List Nat} (h : LayoutStep cfg a b) (ts : List Tok) (e : EndK) :
    LexRun cfg a ts e ↔ LexRun cfg b ts e := by
  cases h with
  | eol hab =>
    by_cases hb : a.head? = some 0xFEFF
    · obtain ⟨ra, rfl⟩ : ∃ r, a = 0xFEFF :: r := by
        cases a with
        | nil => simp at hb
        | cons c r => exact ⟨r, by simp at hb; rw [hb]⟩
      rw [foldEol_bom] at hab
      obtain ⟨rb, rfl⟩ := foldEol_head_bom (a := b) (by rw [← hab]; rfl)
      rw [foldEol_bom] at hab
      have hab' : foldEol ra = foldEol rb := by simpa using hab
      show RunsTo cfg .init ra ts e ↔ RunsTo cfg .init rb ts e
      rw [heol _ ra, heol _ rb, hab']
    · have hb' : b.head? ≠ some 0xFEFF := by
        intro hbb
        obtain ⟨rb, rfl⟩ : ∃ r, b = 0xFEFF :: r := by
          cases b with
          | nil => simp at hbb
          | cons c r => exact ⟨r, by simp at hbb; rw [hbb]⟩
        rw [foldEol_bom] at hab
        obtain ⟨ra, rfl⟩ := foldEol_head_bom (a := a) (by rw [hab]; rfl)
        simp at hb
      rw [LexRun_noBom hb, LexRun_noBom hb', heol _ a, heol _ b, hab]
  | bom hne =>
    rw [LexRun_noBom hne]
    rfl
  | blankLine ha hbol hw hc he hn hfuse =>
    rename_i pre post w c e' st ts'
    obtain ⟨a0, r0, hins, hne10, hbom0⟩ := head_blankLine hw hc he
    have hxh : (w ++ c ++ e' ++ post).head? = some a0 := by rw [hins]; rfl
    have hb : At cfg (pre ++ (w ++ c ++ e' ++ post)) pre.length st ts' :=
      at_bol_extend hup hf ha hbol
        (by intro h13; have := hfuse h13; rw [hins] at this; rw [hxh]; simpa using this)
        (head_append_ne_bom ha.1 (by rw [hxh]; simpa using hbom0))
    rw [LexRun_noBom ha.1, LexRun_noBom hb.1]
    have key := rule_linePrefix hf hbol (w ++ c ++ e') post (eatIndent_blankLine hw hc he hn)
    have hb2 : Runs cfg .init (pre ++ ((w ++ c ++ e') ++ post)) ts' pre.length st := by
      simpa [List.append_assoc] using hb.2
    have := splice ha.2 hb2 key ts e
    simpa [List.append_assoc] using this
  | blankTail ha hbol hw hc =>
    rename_i w c st ts'
    have ha' : At cfg (a ++ []) a.length st ts' := by simpa using ha
    have hb : At cfg (a ++ (w ++ c)) a.length st ts' :=
      at_bol_extend hup hf ha' hbol (fun _ => (head_blankTail hw hc).1)
        (head_append_ne_bom (post := []) (by simpa using ha.1) (head_blankTail hw hc).2)
    rw [LexRun_noBom ha.1, LexRun_noBom hb.1]
    have key := rule_linePrefix hf hbol (w ++ c) [] (eatIndent_blankTail hw hc)
    have ha2 : Runs cfg .init (a ++ []) ts' a.length st := by simpa using ha.2
    have hb2 : Runs cfg .init (a ++ ((w ++ c) ++ [])) ts' a.length st := by simpa using hb.2
    have := splice ha2 hb2 key ts e
    simpa using this
  | formFeed ha hbol hw =>
    rename_i pre post w st ts'
    have hb : At cfg (pre ++ (w ++ 12 :: post)) pre.length st ts' :=
      at_bol_extend hup hf ha hbol (fun _ => (head_formFeed hw post).1)
        (head_append_ne_bom ha.1 (head_formFeed hw post).2)
    rw [LexRun_noBom ha.1, LexRun_noBom hb.1]
    have key := rule_linePrefix hf hbol (w ++ [12]) post (eatIndent_formFeed hw)
    have hb2 : Runs cfg .init (pre ++ ((w ++ [12]) ++ post)) ts' pre.length st := by
      simpa [List.append_assoc] using hb.2
    have := splice ha.2 hb2 key ts e
    simpa [List.append_assoc] using this
  | blanks ha hb hbol hw =>
    rw [LexRun_noBom ha.1, LexRun_noBom hb.1]
    exact splice ha.2 hb.2 (rule_blanks hup hbol hw _) ts e
  | commentAfter ha hb hbol hc hp =>
    rw [LexRun_noBom ha.1, LexRun_noBom hb.1]
    exact splice ha.2 hb.2 (rule_commentAfter hup hf hbol hc hp) ts e
  | backslashJoin ha hb hbol he hn hp =>
    rw [LexRun_noBom ha.1, LexRun_noBom hb.1]
    rename_i pre post e' st ts'
    have hb2 : Runs cfg .init (pre ++ ((92 :: e') ++ post)) ts' pre.length st := by simpa using hb.2
    have := splice ha.2 hb2 (fun t k => by simpa using rule_backslashJoin hup hbol he hn hp t k) ts e
    simpa using this
  | bracketBreak ha hb hbol hnest he hn =>
    rw [LexRun_noBom ha.1, LexRun_noBom hb.1]
    exact splice ha.2 hb.2 (rule_bracketBreak hup hf hbol hnest he hn) ts e



/-! ## why the rules behind a token keep their hypothesis about the rewritten text -/

/-- **`At` for the rewritten text cannot be derived for the rules behind a token.**  Witness `x#c⏎` → `x#c␠⏎` (rule
    `blanks` with `pre = x#c`, `w = ␠`): in the original the lexer is at a step boundary behind the comment, not at the
    beginning of a line; all side conditions of the rule hold; in the rewritten text the comment swallows the blank, so
    position 3 is NOT a step boundary there (in no state, after no tokens).  The conclusion of the layout theorem
    nevertheless holds for this pair (last component): the hypothesis is sufficient, not necessary. -/
theorem at_rewritten_not_derivable :
    At localCfg ([120, 35, 99] ++ [10]) 3 ⟨false, 0, [⟨0, 0⟩]⟩ [.name [120]] ∧ AllBlank [32] ∧
    (¬ ∃ st ts, Runs localCfg .init ([120, 35, 99] ++ ([32] ++ [10])) ts 3 st) ∧
    eraseRanges (lex localCfg .module 0 [120, 35, 99, 10]) = eraseRanges (lex localCfg .module 0 [120, 35, 99, 32, 10]) := by
  have s1 : step localCfg .init [120, 35, 99, 10] = .ok ⟨[⟨.name [120], 0, 1⟩], 1, ⟨false, 0, [⟨0, 0⟩]⟩, false⟩ := rfl
  have s2 : step localCfg ⟨false, 0, [⟨0, 0⟩]⟩ [35, 99, 10] = .ok ⟨[], 2, ⟨false, 0, [⟨0, 0⟩]⟩, false⟩ := rfl
  refine ⟨⟨by decide, Runs.cons s1 rfl (Runs.cons s2 rfl (Runs.nil _ _))⟩, ?_, ?_, by decide⟩
  · intro c hc; simp at hc; subst hc; decide
  · rintro ⟨st, ts, h⟩
    have t1 : step localCfg .init [120, 35, 99, 32, 10] = .ok ⟨[⟨.name [120], 0, 1⟩], 1, ⟨false, 0, [⟨0, 0⟩]⟩, false⟩ := rfl
    have t2 : step localCfg ⟨false, 0, [⟨0, 0⟩]⟩ [35, 99, 32, 10] = .ok ⟨[], 3, ⟨false, 0, [⟨0, 0⟩]⟩, false⟩ := rfl
    generalize hn : (3 : Nat) = n at h
    cases h with
    | nil => cases hn
    | cons h1 hd h2 =>
      simp only [List.cons_append, List.nil_append] at h1
      rw [t1] at h1; cases h1
      simp only [List.cons_append, List.nil_append, List.drop_succ_cons, List.drop_zero] at h2
      cases h2 with
      | nil => dsimp only at hn; omega
      | cons g1 gd g2 => rw [t2] at g1; cases g1; dsimp only at hn; omega

end PV.C08
