import PV.C08.Reindent
import PV.C08.Local
/-
  PV.C08.AtBol — the hypothesis "`At` for the rewritten text" of the line-start rules is derivable.

  `runs_bol_extend` / `at_bol_extend`: if the lexer, run on `pre ++ post`, is at a step boundary behind `pre` at the
  beginning of a line, then it is so on `pre ++ x` for EVERY `x` (same state, same tokens) — unless `pre` ends with a CR
  that an LF at the head of `x` would complete to one CRLF.  Proof: the run up to there ends with the NEWLINE step
  (`step_to_bol`), and no earlier step looks behind that line end (`step_brk_local`).
-/
namespace PV.C08
open PV.Lexer

theorem isEol_ne_nil' {e : List Nat} (he : IsEol e) : e ≠ [] := by cases he <;> simp

/-- a run that consumes nothing is empty (every step that is not the last consumes something) -/
theorem runs_zero {cfg : Cfg} (hs : cfg.up.Sane) {st : LexState} {inp : List Nat} {ts : List Tok} {n : Nat}
    {st' : LexState} (h : Runs cfg st inp ts n st') (hi : StInv st) (hn : n = 0) : ts = [] ∧ st' = st := by
  cases h with
  | nil => exact ⟨rfl, rfl⟩
  | cons h1 hd _ =>
    have := (step_ok hs hi h1).2.1 hd
    omega

theorem Runs.stInv {cfg : Cfg} (hs : cfg.up.Sane) {st : LexState} {inp : List Nat} {ts : List Tok} {n : Nat}
    {st' : LexState} (h : Runs cfg st inp ts n st') (hi : StInv st) : StInv st' := by
  induction h with
  | nil => exact hi
  | cons h1 _ _ ih => exact ih (step_ok hs hi h1).2.2.2.1

/-- a non-empty run that ends at the beginning of a line ends with the NEWLINE step -/
theorem runs_ends_eol {cfg : Cfg} (hup : UpOk cfg.up) (hf : cfg.fullLexer = false) {st : LexState} {inp : List Nat}
    {ts : List Tok} {n : Nat} {st2 : LexState} (h : Runs cfg st inp ts n st2) :
    StInv st → 0 < n → st2.atBol = true →
      ∃ y e rest, inp = y ++ e ++ rest ∧ n = y.length + e.length ∧ IsEol e ∧ NoFuse e rest := by
  induction h with
  | nil st inp => intro _ h; omega
  | @cons st inp o ts n st' ho hd hrest ih =>
    intro hi _ hb2
    have hok := step_ok hup.sane hi ho
    by_cases hn0 : n = 0
    · obtain ⟨_, rfl⟩ := runs_zero hup.sane hrest hok.2.2.2.1 hn0
      obtain ⟨_, _, e, rest, hinp, he, hnf, rfl⟩ := step_to_bol hf ho hd hb2
      exact ⟨[], e, rest, by simpa using hinp, by simp [hn0], he, hnf⟩
    · obtain ⟨y, e, rest, hdrop, hn, he, hnf⟩ := ih hok.2.2.2.1 (by omega) hb2
      have hne : inp.drop o.consumed ≠ [] := by
        rw [hdrop]; intro h0
        simp at h0
        exact isEol_ne_nil' he h0.2.1
      have hlt : o.consumed < inp.length := by
        rcases Nat.lt_or_ge o.consumed inp.length with h | h
        · exact h
        · exact absurd (List.drop_eq_nil_of_le h) hne
      refine ⟨inp.take o.consumed ++ y, e, rest, ?_, ?_, he, hnf⟩
      · conv => lhs; rw [← List.take_append_drop o.consumed inp, hdrop]
        simp [List.append_assoc]
      · simp [List.length_take]; omega

/-- **The run up to the beginning of a line does not depend on the text behind it.**  If the lexer, run on `s ++ post`,
    is at a step boundary behind `s`, at the beginning of a line, then so it is on `s ++ x` for every `x` — in the same
    state, after the same tokens — unless `s` ends with a CR that an LF at the head of `x` would complete to CRLF. -/
theorem runs_bol_extend {cfg : Cfg} (hup : UpOk cfg.up) (hf : cfg.fullLexer = false) {st0 : LexState} {inp : List Nat}
    {ts : List Tok} {n : Nat} {st : LexState} (h : Runs cfg st0 inp ts n st) :
    ∀ {s post x : List Nat}, inp = s ++ post → n = s.length → StInv st0 → st.atBol = true →
      (s.getLast? = some 13 → x.head? ≠ some 10) → Runs cfg st0 (s ++ x) ts s.length st := by
  induction h with
  | nil st inp =>
    intro s post x _ hn _ _ _
    have : s = [] := List.eq_nil_of_length_eq_zero hn.symm
    subst this; exact Runs.nil _ _
  | @cons st0 inp o ts n st ho hd hrest ih =>
    intro s post x hinp hn hi hb hfuse
    have hok := step_ok hup.sane hi ho
    by_cases hn0 : n = 0
    · obtain ⟨rfl, rfl⟩ := runs_zero hup.sane hrest hok.2.2.2.1 hn0
      obtain ⟨hb0, hnest, e, rest0, hinp0, he, hnf, rfl⟩ := step_to_bol hf ho hd hb
      dsimp only at hn
      have hl : s.length = e.length := by omega
      obtain ⟨rfl, rfl⟩ := List.append_inj (hinp.symm.trans hinp0) hl
      have hnf' : NoFuse s x := by intro hu; exact hfuse (by rw [hu]; rfl)
      have hstep := step_eol hup hf hb0 hnest he hnf'
      have := Runs.cons hstep rfl (Runs.nil _ _)
      simpa using this
    · obtain ⟨y, e, rest0, hdrop, hn', he, hnf⟩ := runs_ends_eol hup hf hrest hok.2.2.2.1 (by omega) hb
      have hne : inp.drop o.consumed ≠ [] := by
        rw [hdrop]; intro h0
        simp at h0
        exact isEol_ne_nil' he h0.2.1
      have hlt : o.consumed < inp.length := by
        rcases Nat.lt_or_ge o.consumed inp.length with h | h
        · exact h
        · exact absurd (List.drop_eq_nil_of_le h) hne
      obtain ⟨tk, htk1, htl⟩ : ∃ tk, inp = tk ++ inp.drop o.consumed ∧ tk.length = o.consumed :=
        ⟨inp.take o.consumed, (List.take_append_drop _ _).symm, by simp [List.length_take]; omega⟩
      rw [hdrop] at htk1
      have hinp2 : inp = (tk ++ y ++ e) ++ rest0 := by rw [htk1]; simp [List.append_assoc]
      have hl : s.length = (tk ++ y ++ e).length := by simp [htl]; omega
      obtain ⟨hu, hr⟩ := List.append_inj (hinp.symm.trans hinp2) hl
      subst hr
      obtain ⟨d, et, hde, hdb⟩ := eol_cons he
      have e1 : (tk ++ y) ++ d :: (et ++ post) = inp := by rw [hinp2, hde]; simp [List.append_assoc]
      have ho1 : step cfg st0 ((tk ++ y) ++ d :: (et ++ post)) = .ok o := by rw [e1]; exact ho
      have ho2 := step_brk_local hup hf hdb ho1 (by simp [htl]) (et ++ x)
      have hu' : s ++ x = (tk ++ y) ++ d :: (et ++ x) := by rw [hu, hde]; simp [List.append_assoc]
      rw [← hu'] at ho2
      have hdrop_u : s = tk ++ (y ++ e) := by rw [hu]; simp [List.append_assoc]
      have hd1 : inp.drop o.consumed = (y ++ e) ++ post := by rw [hdrop]
      have hruns := ih (s := y ++ e) (post := post) (x := x) hd1 (by simp; omega) hok.2.2.2.1 hb (by
        intro hl13; apply hfuse
        rw [hdrop_u, List.getLast?_append, hl13]; rfl)
      have hd2 : (s ++ x).drop o.consumed = (y ++ e) ++ x := by
        rw [hdrop_u, List.append_assoc, ← htl]; exact List.drop_left
      have := Runs.cons ho2 hd (by rw [hd2]; exact hruns)
      have hlen : s.length = o.consumed + (y ++ e).length := by rw [hdrop_u]; simp [htl]
      rw [hlen]; exact this

/-- `At` for the text with different content behind a place at the beginning of a line -/
theorem at_bol_extend {cfg : Cfg} (hup : UpOk cfg.up) (hf : cfg.fullLexer = false) {pre post x : List Nat}
    {st : LexState} {ts : List Tok} (h : At cfg (pre ++ post) pre.length st ts) (hb : st.atBol = true)
    (hfuse : pre.getLast? = some 13 → x.head? ≠ some 10) (hbom : (pre ++ x).head? ≠ some 0xFEFF) :
    At cfg (pre ++ x) pre.length st ts :=
  ⟨hbom, runs_bol_extend hup hf h.2 rfl rfl stInv_init hb hfuse⟩


/-- `At` behind `x⏎` in `x⏎y` gives `At` behind `x⏎` in `x⏎␠␠#c␍⏎y` -/
example : At localCfg ([120, 10] ++ [32, 32, 35, 99, 13, 10, 121]) 2 ⟨true, 0, [⟨0, 0⟩]⟩ [.name [120], .newline] := by
  have h1 : step localCfg .init [120, 10, 121] = .ok ⟨[⟨.name [120], 0, 1⟩], 1, ⟨false, 0, [⟨0, 0⟩]⟩, false⟩ := by rfl
  have h2 : step localCfg ⟨false, 0, [⟨0, 0⟩]⟩ [10, 121] = .ok ⟨[⟨.newline, 0, 1⟩], 1, ⟨true, 0, [⟨0, 0⟩]⟩, false⟩ := by rfl
  have ha : At localCfg ([120, 10] ++ [121]) 2 ⟨true, 0, [⟨0, 0⟩]⟩ [.name [120], .newline] :=
    ⟨by decide, Runs.cons h1 rfl (Runs.cons h2 rfl (Runs.nil _ _))⟩
  exact at_bol_extend localUp_ok rfl (pre := [120, 10]) ha rfl (by decide) (by decide)


end PV.C08
