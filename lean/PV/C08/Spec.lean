import PV.Lexer.SoftKw
/-
  PV.C08.Spec — "layout never changes the tree": what a layout-only rewrite of a source text is.

  Texts are `List Nat` of Unicode scalar values, as in the lexer model.  `layoutEq` is the equivalence generated
  by the rewrite rules of the property, stated at the CHARACTER level.  A rule that is only valid in certain
  places (outside strings and comments, at the start of a line, inside / outside brackets) carries that side
  condition as a statement about the lexer state reached in front of the place (`At`): "at a step boundary of
  the lexer, `p` characters into the text, in state `st`".  That is the honest formulation of "at a token gap
  at depth 0 outside a string": whether a position is inside a string is not a property of the characters
  around it but of the whole text before it, and the definition of that is the lexer.

  What the rules do NOT mention: tokens.  The theorem (`Thm.lean`) is that rule-related texts have the same
  range-erased token stream.

  Consistent re-indentation (other width, tabs for spaces) is not a single-place rewrite; its relation between texts
  is `PV.C08.Reindent` (`ReindentText.lean`).  Redundant parentheses are not a lexer matter: `Paren.lean`.

  Core Lean only.
-/
namespace PV.C08
open PV.Lexer

/-! ## the observable: the token stream with ranges erased -/

/-- how the token stream ends, positions erased (`err` = the first lexical error: the text is rejected) -/
inductive EndK
  | eof
  | err (k : ErrKind)
  | outOfFuel
  deriving DecidableEq, Repr, Inhabited

def eraseEnd : LexEnd → EndK
  | .eof => .eof
  | .err k _ _ => .err k
  | .outOfFuel => .outOfFuel

/-- a token stream without its ranges -/
def eraseOut (o : LexOut) : List Tok × EndK := (o.toks.map (·.tok), eraseEnd o.fin)

/-- `lex` with ranges erased; `none` = the Rust code would panic -/
def eraseRanges (r : Option LexOut) : Option (List Tok × EndK) := r.map eraseOut

/-! ## line ends -/

/-- universal-newline normal form: CRLF and lone CR become LF (Python's definition of a physical line end) -/
def foldEol : List Nat → List Nat
  | [] => []
  | 13 :: 10 :: r => 10 :: foldEol r
  | 13 :: r => 10 :: foldEol r
  | c :: r => c :: foldEol r

/-- one line end, as it may be written -/
inductive IsEol : List Nat → Prop
  | lf : IsEol [10]
  | crlf : IsEol [13, 10]
  | cr : IsEol [13]

/-- a lone CR directly in front of an LF would read as one CRLF -/
def NoFuse (e post : List Nat) : Prop := e = [13] → post.head? ≠ some 10

/-! ## blanks -/

/-- spaces, tabs and form feeds -/
def AllBlank (w : List Nat) : Prop := ∀ c ∈ w, isBlank c = true

/-- no line break -/
def NoBreak (w : List Nat) : Prop := ∀ c ∈ w, isLineBreak c = false

/-- The indentation measure of a run of blanks at the start of a line, continued from `(spaces, tabs)`:
    a space counts one space, a tab one tab, a form feed resets both (Python: "a formfeed character …
    will reset the space count to zero").  `none`: a tab after a space — this parser rejects that on purpose
    (`TabsAfterSpaces`, documented in lexer.rs as stricter than Python), so such blanks are outside the domain
    of the line-start rules. -/
def measure : (spaces tabs : Nat) → List Nat → Option (Nat × Nat)
  | s, t, [] => some (s, t)
  | s, t, 32 :: w => measure (s + 1) t w
  | s, t, 9 :: w => if s ≠ 0 then none else measure s (t + 1) w
  | _, _, 12 :: w => measure 0 0 w
  | _, _, _ :: _ => none

/-- blanks allowed in front of a blank or comment-only line (any indentation the parser accepts) -/
def BolBlank (w : List Nat) : Prop := (measure 0 0 w).isSome

/-- a comment: `#` up to, not including, the line end -/
def IsComment (c : List Nat) : Prop := ∃ t, c = 35 :: t ∧ NoBreak t

/-! ## positions: the lexer state in front of a place -/

/-- `Runs cfg st inp ts n st'`: from state `st` the lexer performs some steps on `inp` without meeting an error
    or the end of input, thereby emitting the tokens `ts` (ranges erased), consuming exactly `n` characters
    and arriving in state `st'`. -/
inductive Runs (cfg : Cfg) : LexState → List Nat → List Tok → Nat → LexState → Prop
  | nil (st inp) : Runs cfg st inp [] 0 st
  | cons {st inp o ts n st'} :
      step cfg st inp = .ok o → o.done = false → Runs cfg o.st (inp.drop o.consumed) ts n st' →
      Runs cfg st inp (o.toks.map (·.tok) ++ ts) (o.consumed + n) st'

/-- "`p` characters into `src` (a text without byte order mark) the lexer is at a step boundary, in state `st`,
    having emitted `ts`" -/
def At (cfg : Cfg) (src : List Nat) (p : Nat) (st : LexState) (ts : List Tok) : Prop :=
  src.head? ≠ some 0xFEFF ∧ Runs cfg .init src ts p st

/-! ## the rewrite rules -/

/-- One layout-only rewrite `a ↦ b`.

    The place-dependent rules say `a = pre ++ post`, `b = pre ++ ins ++ post` and require that in the ORIGINAL text
    `a` the lexer is at a step boundary in front of `post`, in state `st` after the tokens `ts` (`At` for `a`).
    The side condition proper is on `st`:
      `st.atBol = true`   at the start of a (logical or blank) line,
      `st.atBol = false`  behind some token of the current line,
      `st.nesting`        bracket depth.

    For the three rules at the start of a line (`blankLine`, `blankTail`, `formFeed`) nothing is assumed about the
    rewritten text `b`: that the lexer reaches the place in `b` in the same state after the same tokens is DERIVED
    (`PV.C08.at_bol_extend`).  The four rules behind a token (`blanks`, `commentAfter`, `backslashJoin`,
    `bracketBreak`) additionally carry `At` for `b`: there it cannot be derived in general — the token in front of the
    place may swallow the inserted text (`x #c` + blank: the comment grows; `PV.C08.at_rewritten_not_derivable`). -/
inductive LayoutStep (cfg : Cfg) : List Nat → List Nat → Prop
  /-- LF ↔ CRLF ↔ CR, anywhere: also inside strings, after a backslash, in comments -/
  | eol {a b} : foldEol a = foldEol b → LayoutStep cfg a b
  /-- a leading byte order mark -/
  | bom {a} : a.head? ≠ some 0xFEFF → LayoutStep cfg a (0xFEFF :: a)
  /-- a blank or comment-only line, with any indentation, inserted at the start of a line -/
  | blankLine {pre post w c e st ts} :
      At cfg (pre ++ post) pre.length st ts →
      st.atBol = true → BolBlank w → (c = [] ∨ IsComment c) → IsEol e → NoFuse e post →
      /- a bare LF behind a line that ends in a lone CR would read as the second half of one CRLF -/
      (pre.getLast? = some 13 → (w ++ c ++ e).head? ≠ some 10) →
      LayoutStep cfg (pre ++ post) (pre ++ (w ++ c ++ e ++ post))
  /-- the same at the very end of the text, without a line end of its own -/
  | blankTail {pre w c st ts} :
      At cfg pre pre.length st ts →
      st.atBol = true → BolBlank w → (c = [] ∨ IsComment c) →
      LayoutStep cfg pre (pre ++ (w ++ c))
  /-- a form feed, possibly preceded by blanks, in front of the indentation of a line -/
  | formFeed {pre post w st ts} :
      At cfg (pre ++ post) pre.length st ts →
      st.atBol = true → BolBlank w →
      LayoutStep cfg (pre ++ post) (pre ++ (w ++ 12 :: post))
  /-- blanks between tokens; in front of a line end this is trailing whitespace -/
  | blanks {pre post w st ts} :
      At cfg (pre ++ post) pre.length st ts → At cfg (pre ++ (w ++ post)) pre.length st ts →
      st.atBol = false → AllBlank w →
      LayoutStep cfg (pre ++ post) (pre ++ (w ++ post))
  /-- a comment after code (in front of a line end or the end of the text) -/
  | commentAfter {pre post c st ts} :
      At cfg (pre ++ post) pre.length st ts → At cfg (pre ++ (c ++ post)) pre.length st ts →
      st.atBol = false → IsComment c → (post = [] ∨ ∃ d r, post = d :: r ∧ isLineBreak d = true) →
      LayoutStep cfg (pre ++ post) (pre ++ (c ++ post))
  /-- explicit line joining: backslash + line end at a token gap, not at the end of the text -/
  | backslashJoin {pre post e st ts} :
      At cfg (pre ++ post) pre.length st ts → At cfg (pre ++ (92 :: e ++ post)) pre.length st ts →
      st.atBol = false → IsEol e → NoFuse e post → post ≠ [] →
      LayoutStep cfg (pre ++ post) (pre ++ (92 :: e ++ post))
  /-- a line break at a token gap inside brackets -/
  | bracketBreak {pre post e st ts} :
      At cfg (pre ++ post) pre.length st ts → At cfg (pre ++ (e ++ post)) pre.length st ts →
      st.atBol = false → 0 < st.nesting → IsEol e → NoFuse e post →
      LayoutStep cfg (pre ++ post) (pre ++ (e ++ post))

/-- layout equivalence: the equivalence relation generated by the rules (compositions, in both directions) -/
inductive LayoutEq (cfg : Cfg) : List Nat → List Nat → Prop
  | refl (a) : LayoutEq cfg a a
  | step {a b} : LayoutStep cfg a b → LayoutEq cfg a b
  | symm {a b} : LayoutEq cfg a b → LayoutEq cfg b a
  | trans {a b c} : LayoutEq cfg a b → LayoutEq cfg b c → LayoutEq cfg a c

end PV.C08
