import PV.C08.Reindent
import PV.C08.Local
/-
  PV.C08.ReindentText — consistent re-indentation, text level.

  Part 2: from the step-level simulation (`PV.C08.Reindent`) and the look-ahead lemmas (`PV.C08.Local`:
  `step_brk_local`, a step that ends in front of a line break does not depend on what follows the line break;
  `step_to_bol`, the lexer gets to the beginning of a line only by the NEWLINE step) to whole texts:
    * `midRuns_transfer`   a logical line depends neither on the text behind its line end nor on the indentation stack;
    * `Reindent`           the relation between texts (hypotheses about the run on the ORIGINAL text only);
    * `reindent_runs`      related texts have the same runs (tokens incl. INDENT / DEDENT, same kind of first error).
-/
namespace PV.C08
open PV.Lexer

theorem isEol_ne_nil {e : List Nat} (he : IsEol e) : e ≠ [] := by cases he <;> simp

/-- a stretch of such steps that ends at the beginning of a line ends with the NEWLINE step: the text it consumed
    ends with a line end -/
theorem midRuns_ends_eol {cfg : Cfg} (hf : cfg.fullLexer = false) {st : LexState} {inp : List Nat}
    {ts : List Tok} {n : Nat} {st2 : LexState} (h : MidRuns cfg st inp ts n st2) :
    st.atBol = false → st2.atBol = true →
      ∃ y e rest, inp = y ++ e ++ rest ∧ n = y.length + e.length ∧ IsEol e ∧ NoFuse e rest := by
  induction h with
  | nil st inp => intro h1 h2; rw [h1] at h2; cases h2
  | @cons st inp o ts n st' hb ho hd hrest ih =>
    intro _ hb2
    by_cases hob : o.st.atBol = true
    · obtain ⟨_, _, e, rest, hinp, he, hnf, rfl⟩ := step_to_bol hf ho hd hob
      cases hrest with
      | nil => exact ⟨[], e, rest, by simpa using hinp, by simp, he, hnf⟩
      | cons hb' _ _ _ => simp at hb'
    · have hob' : o.st.atBol = false := by simpa using hob
      obtain ⟨y, e, rest, hdrop, hn, he, hnf⟩ := ih hob' hb2
      have hne : inp.drop o.consumed ≠ [] := by
        rw [hdrop]; intro h0
        simp at h0
        exact isEol_ne_nil he h0.2.1
      have hlt : o.consumed < inp.length := by
        rcases Nat.lt_or_ge o.consumed inp.length with h | h
        · exact h
        · exact absurd (List.drop_eq_nil_of_le h) hne
      refine ⟨inp.take o.consumed ++ y, e, rest, ?_, ?_, he, hnf⟩
      · conv => lhs; rw [← List.take_append_drop o.consumed inp, hdrop]
        simp [List.append_assoc]
      · simp [List.length_take]; omega

theorem step_mid_keeps {cfg : Cfg} {st : LexState} (hb : st.atBol = false) {c : Nat} {cs : List Nat} {o : StepOut}
    (h : step cfg st (c :: cs) = .ok o) : o.st.indents = st.indents := by
  unfold step at h
  simp only [hb, Bool.false_eq_true, ↓reduceIte] at h
  exact consumeNormal_keeps h

theorem stepRel_ok_left {L L' : Nat} {r r' : Except ErrRel StepOut} {o : StepOut} (h : StepRel L L' r r')
    (h1 : r = .ok o) : ∃ o', r' = .ok o' ∧ o.toks.map (·.tok) = o'.toks.map (·.tok) ∧ o.done = o'.done ∧
      SimSt o.st o'.st ∧ ∃ j, o.consumed = L + j ∧ o'.consumed = L' + j := by
  subst h1
  cases r' with
  | error e => exact absurd h (by simp [StepRel])
  | ok o' => exact ⟨o', rfl, h⟩

/-- **A logical line does not depend on what follows its line end, nor on the indentation stack.**  If from `st1` (not
    at the beginning of a line) the lexer runs over exactly `u` in front of `rest` and is then at the beginning of a
    line, it does the same from a similar state in front of any other `rest'` (that does not start with the LF of
    a CRLF whose CR ends `u`).  Uses the look-ahead lemma `step_brk_local`. -/
theorem midRuns_transfer {cfg : Cfg} (hup : UpOk cfg.up) (hf : cfg.fullLexer = false) {st1 : LexState} {inp : List Nat}
    {ts : List Tok} {n : Nat} {st2 : LexState} (h : MidRuns cfg st1 inp ts n st2) :
    ∀ {u rest rest' : List Nat} {st1' : LexState}, inp = u ++ rest → n = u.length → st1.atBol = false →
      st2.atBol = true → SimSt st1 st1' → (u.getLast? = some 13 → rest'.head? ≠ some 10) →
      ∃ st2', Runs cfg st1' (u ++ rest') ts u.length st2' ∧ SimSt st2 st2' ∧ st2'.indents = st1'.indents := by
  induction h with
  | nil st inp => intro u rest rest' st1' _ _ h1 h2; rw [h1] at h2; cases h2
  | @cons st inp o ts n st2 hb ho hd hrest ih =>
    intro u rest rest' st1' hinp hn _ hb2 hs hfuse
    have hb' : st1'.atBol = false := by rw [← hs.atBol]; exact hb
    by_cases hob : o.st.atBol = true
    · obtain ⟨_, hn0, e, rest0, hinp0, he, hnf, rfl⟩ := step_to_bol hf ho hd hob
      cases hrest with
      | cons hbx _ _ _ => simp at hbx
      | nil =>
        dsimp only at hn ⊢
        have hl : u.length = e.length := by omega
        have hsplit : u ++ rest = e ++ rest0 := by rw [← hinp, hinp0]
        obtain ⟨rfl, rfl⟩ := List.append_inj hsplit hl
        have hnf' : NoFuse u rest' := by
          intro hu; exact hfuse (by rw [hu]; rfl)
        have hn0' : st1'.nesting = 0 := by rw [← hs.nesting]; exact hn0
        have hstep := step_eol hup hf hb' hn0' he hnf'
        refine ⟨{ st1' with atBol := true }, ?_, ⟨rfl, hs.nesting, hs.stack⟩, rfl⟩
        have := Runs.cons hstep rfl (Runs.nil _ _)
        simpa using this
    · have hob' : o.st.atBol = false := by simpa using hob
      obtain ⟨y, e, rest0, hdrop, hn', he, hnf⟩ := midRuns_ends_eol hf hrest hob' hb2
      have hne : inp.drop o.consumed ≠ [] := by
        rw [hdrop]; intro h0
        simp at h0
        exact isEol_ne_nil he h0.2.1
      have hlt : o.consumed < inp.length := by
        rcases Nat.lt_or_ge o.consumed inp.length with h | h
        · exact h
        · exact absurd (List.drop_eq_nil_of_le h) hne
      obtain ⟨tk, htk1, htl⟩ : ∃ tk, inp = tk ++ inp.drop o.consumed ∧ tk.length = o.consumed :=
        ⟨inp.take o.consumed, (List.take_append_drop _ _).symm, by simp [List.length_take]; omega⟩
      rw [hdrop] at htk1
      have hinp2 : inp = (tk ++ y ++ e) ++ rest0 := by rw [htk1]; simp [List.append_assoc]
      have hl : u.length = (tk ++ y ++ e).length := by simp [htl]; omega
      obtain ⟨hu, hr⟩ := List.append_inj (hinp.symm.trans hinp2) hl
      subst hr
      obtain ⟨d, et, hde, hdb⟩ := eol_cons he
      -- the step does not look behind the line end
      have e1 : (tk ++ y) ++ d :: (et ++ rest) = inp := by rw [hinp2, hde]; simp [List.append_assoc]
      have ho1 : step cfg st ((tk ++ y) ++ d :: (et ++ rest)) = .ok o := by rw [e1]; exact ho
      have ho2 := step_brk_local hup hf hdb ho1 (by simp [htl]) (et ++ rest')
      have hu' : u ++ rest' = (tk ++ y) ++ d :: (et ++ rest') := by
        rw [hu, hde]; simp [List.append_assoc]
      rw [← hu'] at ho2
      -- the same step from the similar state
      have hrel := step_sim_mid' (cfg := cfg) hs hb (u ++ rest')
      obtain ⟨o', ho', htk, hdn, hso, j, hj, hj'⟩ := stepRel_ok_left hrel ho2
      have hc : o'.consumed = o.consumed := by omega
      have hune : ∃ c0 cs0, u ++ rest' = c0 :: cs0 := by
        cases hux : u ++ rest' with
        | nil =>
          rw [hu'] at hux; simp at hux
        | cons c0 cs0 => exact ⟨c0, cs0, rfl⟩
      obtain ⟨c0, cs0, hcc⟩ := hune
      have hkeep : o'.st.indents = st1'.indents := by
        rw [hcc] at ho'; exact step_mid_keeps hb' ho'
      have hdrop_u : u = tk ++ (y ++ e) := by rw [hu]; simp [List.append_assoc]
      have hd1 : inp.drop o.consumed = (y ++ e) ++ rest := by rw [hdrop]
      obtain ⟨st2', hruns, hs2, hi2⟩ := ih (u := y ++ e) (rest := rest) (rest' := rest') (st1' := o'.st) hd1
        (by simp; omega) hob' hb2 hso (by
          intro hl13
          apply hfuse
          rw [hdrop_u, List.getLast?_append, hl13]; rfl)
      refine ⟨st2', ?_, hs2, by rw [hi2, hkeep]⟩
      have hd2 : (u ++ rest').drop o'.consumed = (y ++ e) ++ rest' := by
        rw [hc, hdrop_u, List.append_assoc, ← htl]
        exact List.drop_left
      have := Runs.cons ho' (by rw [← hdn]; exact hd) (by rw [hd2]; exact hruns)
      rw [← htk, hc] at this
      have hlen : u.length = o.consumed + (y ++ e).length := by rw [hdrop_u]; simp [htl]
      rw [hlen]; exact this

/-! ## the relation between texts -/

/-- One logical line of the ORIGINAL text: from `st` (at the beginning of a line) the lexer runs over `pre ++ body` in
    front of `rest` — its first step at the beginning of the line, all further steps inside the line — and is then at
    the beginning of the next line, in state `st2`. -/
def LineOf (cfg : Cfg) (st : LexState) (pre body rest : List Nat) (st2 : LexState) : Prop :=
  ∃ o ts n, step cfg st (pre ++ (body ++ rest)) = .ok o ∧ o.done = false ∧
    MidRuns cfg o.st ((pre ++ (body ++ rest)).drop o.consumed) ts n st2 ∧
    o.consumed + n = pre.length + body.length ∧ st2.atBol = true

/-- **Consistent re-indentation.**  `Reindent cfg st st' a b`: from the similar states `st` / `st'` (both at the
    beginning of a line) the remaining texts `a` / `b` consist of the same logical lines; the run of blanks in front of
    each line's content may differ (`w` / `w'`, both free of "tab after space", measured `(t, s)` / `(t', s')`) as long
    as the new level stands in the same `compare_strict` relations to the open blocks of its own text (`SimLevel`).
    Where the logical lines are (outside brackets, strings, continuation lines) is read off the lexer's run on the
    ORIGINAL text `a` only (`LineOf`, `NoBol`); nothing is assumed about the run on `b`. -/
inductive Reindent (cfg : Cfg) : LexState → LexState → List Nat → List Nat → Prop
  /-- nothing but blank / comment-only lines is left: the step at the beginning of the line is the last one -/
  | tail {st st' : LexState} {z : List Nat} {p : Nat} : SimSt st st' → st.atBol = true →
      eatIndent false z 0 0 0 0 = .ok ⟨[], p, 0, 0, true⟩ → (∀ o, step cfg st z = .ok o → o.done = true) →
      Reindent cfg st st' z z
  /-- the last logical line (no further line starts behind it: end of input or first error inside this line) -/
  | last {st st' : LexState} {bl w w' : List Nat} {s t s' t' c : Nat} {r : List Nat} :
      SimSt st st' → st.atBol = true → st.nesting = 0 → Transparent bl →
      measure 0 0 w = some (s, t) → measure 0 0 w' = some (s', t') → Sig c →
      SimLevel ⟨t, s⟩ ⟨t', s'⟩ st.indents st'.indents →
      (∀ o, step cfg st (bl ++ (w ++ c :: r)) = .ok o → o.done = false →
        NoBol cfg o.st ((bl ++ (w ++ c :: r)).drop o.consumed)) →
      Reindent cfg st st' (bl ++ (w ++ c :: r)) (bl ++ (w' ++ c :: r))
  /-- one logical line, re-indented, followed by re-indented text -/
  | line {st st' : LexState} {bl w w' : List Nat} {s t s' t' c : Nat} {r rest rest' : List Nat} {st2 : LexState} :
      SimSt st st' → st.atBol = true → st.nesting = 0 → Transparent bl →
      measure 0 0 w = some (s, t) → measure 0 0 w' = some (s', t') → Sig c →
      SimLevel ⟨t, s⟩ ⟨t', s'⟩ st.indents st'.indents →
      LineOf cfg st (bl ++ w) (c :: r) rest st2 →
      ((c :: r).getLast? = some 13 → rest'.head? ≠ some 10) →
      Reindent cfg st2 { st2 with indents := nextStack ⟨t', s'⟩ st'.indents } rest rest' →
      Reindent cfg st st' (bl ++ (w ++ (c :: r ++ rest))) (bl ++ (w' ++ (c :: r ++ rest')))

theorem drop_prefix3 (bl w x : List Nat) (j : Nat) : (bl ++ (w ++ x)).drop (bl.length + w.length + j) = x.drop j := by
  rw [← List.drop_drop, drop_prefix2]

theorem reindent_runs {cfg : Cfg} (hup : UpOk cfg.up) (hf : cfg.fullLexer = false) {st st' : LexState}
    {a b : List Nat} (h : Reindent cfg st st' a b) : ∀ ts e, RunsTo cfg st a ts e ↔ RunsTo cfg st' b ts e := by
  induction h with
  | @tail st st' z p hst hb hE hdone =>
    have hh := handleIndentations_sim_core (cfg := cfg) hf hst hE hE (by omega) (by omega)
      (fun _ => simLevel_zero hst.stack.1 hst.stack.2.1 hst.stack.2.2)
    have hrel := step_of_hiRel hst hb hh rfl rfl
    intro ts e
    exact runsTo_of_stepRel hrel (fun o o' h1 _ hd => by rw [hdone o h1] at hd; cases hd) ts e
  | @last st st' bl w w' s t s' t' c r hst hb hn0 hbl hw hw' hc hlv hnb =>
    have hrel := step_sim_bol hf hst hb hbl hw hw' hc r (fun _ => hlv)
    intro ts e
    refine runsTo_of_stepRel hrel (fun o o' h1 h2 hd => ?_) ts e
    obtain ⟨o2, ho2, _, _, hso, j, hj, hj'⟩ := stepRel_ok_left hrel h1
    rw [h2] at ho2; cases ho2
    have hnb' := hnb o h1 hd
    rw [hj, drop_prefix3] at hnb' ⊢
    rw [hj', drop_prefix3]
    exact noBol_sim hnb' hso
  | @line st st' bl w w' s t s' t' c r rest rest' st2 hst hb hn0 hbl hw hw' hc hlv hline hfuse _ ih =>
    obtain ⟨o, tsm, n, ho, hd, hmid, hsum, hb2⟩ := hline
    have hb' : st'.atBol = true := by rw [← hst.atBol]; exact hb
    have hn0' : st'.nesting = 0 := by rw [← hst.nesting]; exact hn0
    -- the first step never ends at the beginning of a line
    have hob : o.st.atBol = false := by
      cases hx : o.st.atBol with
      | false => rfl
      | true => have := (step_to_bol hf ho hd hx).1; rw [hb] at this; cases this
    -- the text of `a`, regrouped
    have ha : (bl ++ w) ++ (c :: r ++ rest) = bl ++ (w ++ (c :: r ++ rest)) := by simp [List.append_assoc]
    rw [ha] at ho hmid
    -- first step on `b` with the original rest
    have hrel := step_sim_bol hf hst hb hbl hw hw' hc (r ++ rest) (fun _ => hlv)
    obtain ⟨o', ho', htk, hdn, hso, j, hj, hj'⟩ := stepRel_ok_left hrel ho
    -- the line ends with a line end
    obtain ⟨y, e, rest0, hdrop, hn, he, hnf⟩ := midRuns_ends_eol hf hmid hob hb2
    rw [hj, drop_prefix3] at hdrop hmid
    have hlen : (bl ++ w).length = bl.length + w.length := by simp
    have hjl : j + (y.length + e.length) = r.length + 1 := by rw [hlen] at hsum; simp at hsum; omega
    -- (c :: r ++ rest).drop j = y ++ e ++ rest0
    obtain ⟨tk, htk1, htl⟩ : ∃ tk, (c :: r) = tk ++ (c :: r).drop j ∧ tk.length = j :=
      ⟨(c :: r).take j, (List.take_append_drop _ _).symm, by simp [List.length_take]; omega⟩
    have hdj : (c :: r ++ rest).drop j = (c :: r).drop j ++ rest := by
      rw [List.drop_append_of_le_length (by omega)]
    have hcr' : (c :: r).drop j ++ rest = (y ++ e) ++ rest0 := by rw [← hdj, hdrop]
    obtain ⟨hye, hr0⟩ := List.append_inj hcr' (by simp [List.length_drop]; omega)
    subst hr0
    obtain ⟨d, et, hde, hdb⟩ := eol_cons he
    -- the first step of `b` does not look behind the line end
    have hbody : c :: r = tk ++ y ++ d :: et := by rw [htk1, hye, hde]; simp [List.append_assoc]
    have e1 : bl ++ (w' ++ (c :: (r ++ rest))) = (bl ++ w' ++ tk ++ y) ++ d :: (et ++ rest) := by
      rw [show c :: (r ++ rest) = (c :: r) ++ rest from rfl, hbody]; simp [List.append_assoc]
    have e2 : bl ++ (w' ++ (c :: r ++ rest')) = (bl ++ w' ++ tk ++ y) ++ d :: (et ++ rest') := by
      rw [hbody]; simp [List.append_assoc]
    rw [e1] at ho'
    have ho'' := step_brk_local hup hf hdb ho' (by simp [htl]; omega) (et ++ rest')
    rw [← e2] at ho''
    -- the stack of `b` after its first step
    have hstack' : o'.st.indents = nextStack ⟨t', s'⟩ st'.indents :=
      step_bol_stack hf hb' hn0' hbl hw' hc (r ++ rest') ho''
    -- the rest of the line on `b`
    have hmid' : MidRuns cfg o.st ((y ++ e) ++ rest) tsm n st2 := by rw [← hdrop]; exact hmid
    obtain ⟨st2', hruns', hs2, hi2⟩ := midRuns_transfer hup hf hmid' (rest' := rest') rfl (by simp; omega) hob hb2 hso
      (by
        intro h13; apply hfuse
        rw [htk1, hye, List.getLast?_append, h13]; rfl)
    have hst2' : st2' = { st2 with indents := nextStack ⟨t', s'⟩ st'.indents } := by
      rw [simSt_eq hs2, hi2, hstack']
    subst hst2'
    -- runs over the line in both texts
    have hRa : Runs cfg st (bl ++ (w ++ (c :: r ++ rest))) (o.toks.map (·.tok) ++ tsm) (o.consumed + n) st2 :=
      Runs.cons ho hd (by rw [hj, drop_prefix3, hdrop]; exact hmid'.toRuns)
    have hdb' : (bl ++ (w' ++ (c :: r ++ rest'))).drop o'.consumed = (y ++ e) ++ rest' := by
      rw [hj', drop_prefix3, List.drop_append_of_le_length (by omega), hye]
    have hRb := Runs.cons ho'' (by rw [← hdn]; exact hd) (by rw [hdb']; exact hruns')
    rw [← htk] at hRb
    have hda : (bl ++ (w ++ (c :: r ++ rest))).drop (o.consumed + n) = rest := by
      rw [hsum, hlen, drop_prefix3]; simp
    have hdbb : (bl ++ (w' ++ (c :: r ++ rest'))).drop (o'.consumed + (y ++ e).length) = rest' := by
      rw [hj', Nat.add_assoc, drop_prefix3]
      have : j + (y ++ e).length = (c :: r).length := by simp; omega
      rw [this]; simp
    intro ts e
    constructor
    · intro hr
      obtain ⟨ts2, rfl, h2⟩ := hRa.split hr
      rw [hda] at h2
      exact hRb.append (by rw [hdbb]; exact (ih ts2 e).1 h2)
    · intro hr
      obtain ⟨ts2, rfl, h2⟩ := hRb.split hr
      rw [hdbb] at h2
      exact hRa.append (by rw [hda]; exact (ih ts2 e).2 h2)


/-! ## whole texts -/

/-- **Consistent re-indentation never changes the token stream.**  Texts related by `Reindent` (from the initial
    state) lex — including the soft-keyword pass — to the same tokens (names, operators, NEWLINE, and the same INDENT /
    DEDENT tokens in the same places) and the same kind of end: end of input, or the same kind of first lexical error
    (`TabError` / `IndentationError` included: `SimLevel` keeps the tab/space consistency facts of every line, and the
    "tab after space" error is excluded on both sides by `measure … = some _`). -/
theorem lex_reindent_invariant {cfg : Cfg} (hup : UpOk cfg.up) (hf : cfg.fullLexer = false) {a b : List Nat}
    (h : Reindent cfg .init .init a b) (ha0 : a.head? ≠ some 0xFEFF) (hb0 : b.head? ≠ some 0xFEFF)
    (mode : Mode) (start : Nat) (ha : start + utf8Len a ≤ u32Max) (hb : start + utf8Len b ≤ u32Max) :
    eraseRanges (lex cfg mode start a) = eraseRanges (lex cfg mode start b) :=
  lex_eq_of_runs hup.sane
    (fun ts e => by rw [LexRun_noBom ha0, LexRun_noBom hb0]; exact reindent_runs hup hf h ts e) mode start ha hb

/-- the same behind a byte order mark -/
theorem lex_reindent_invariant_bom {cfg : Cfg} (hup : UpOk cfg.up) (hf : cfg.fullLexer = false) {a b : List Nat}
    (h : Reindent cfg .init .init a b) (mode : Mode) (start : Nat)
    (ha : start + utf8Len (0xFEFF :: a) ≤ u32Max) (hb : start + utf8Len (0xFEFF :: b) ≤ u32Max) :
    eraseRanges (lex cfg mode start (0xFEFF :: a)) = eraseRanges (lex cfg mode start (0xFEFF :: b)) :=
  lex_eq_of_runs (a := 0xFEFF :: a) (b := 0xFEFF :: b) hup.sane
    (fun ts e => show RunsTo cfg .init a ts e ↔ RunsTo cfg .init b ts e from reindent_runs hup hf h ts e) mode start ha hb

/-! ## the relation is inhabited, the theorem applies (tokens and errors) -/

/-- `if x:⏎␠␠y⏎`  ~  `if x:⏎⇥y⏎` -/
theorem reindent_example : Reindent localCfg .init .init
    [105, 102, 32, 120, 58, 10, 32, 32, 121, 10] [105, 102, 32, 120, 58, 10, 9, 121, 10] := by
  have hI0 : Increasing [(⟨0, 0⟩ : IndentLevel)] := by simp [Increasing]
  -- after line 2: nothing left
  have h3 : Reindent localCfg ⟨true, 0, [⟨0, 2⟩, ⟨0, 0⟩]⟩ ⟨true, 0, [⟨1, 0⟩, ⟨0, 0⟩]⟩ [] [] :=
    Reindent.tail (p := 0) ⟨rfl, rfl, ⟨by decide, by simp [Increasing]⟩, ⟨by decide, by simp [Increasing]⟩, rfl⟩ rfl rfl
      (by intro o h; cases h; rfl)
  -- line 2: two spaces / one tab in front of `y⏎`
  have h2 : Reindent localCfg ⟨true, 0, [⟨0, 0⟩]⟩ ⟨true, 0, [⟨0, 0⟩]⟩ [32, 32, 121, 10] [9, 121, 10] := by
    refine Reindent.line (bl := []) (w := [32, 32]) (w' := [9]) (s := 2) (t := 0) (s' := 0) (t' := 1) (c := 121)
      (r := [10]) (rest := []) (rest' := []) (st2 := ⟨true, 0, [⟨0, 2⟩, ⟨0, 0⟩]⟩)
      (SimSt.refl hI0) rfl rfl transparent_nil rfl rfl (by decide) ⟨by decide, trivial⟩ ?_ (by decide) h3
    refine ⟨⟨[⟨.indent, 0, 2⟩, ⟨.name [121], 2, 3⟩], 3, ⟨false, 0, [⟨0, 2⟩, ⟨0, 0⟩]⟩, false⟩, [.newline], 1, rfl, rfl, ?_, rfl, rfl⟩
    exact MidRuns.cons (o := ⟨[⟨.newline, 0, 1⟩], 1, ⟨true, 0, [⟨0, 2⟩, ⟨0, 0⟩]⟩, false⟩) rfl rfl rfl (MidRuns.nil _ _)
  -- line 1: `if x:⏎`, not indented
  refine Reindent.line (bl := []) (w := []) (w' := []) (s := 0) (t := 0) (s' := 0) (t' := 0) (c := 105)
    (r := [102, 32, 120, 58, 10]) (rest := [32, 32, 121, 10]) (rest' := [9, 121, 10]) (st2 := ⟨true, 0, [⟨0, 0⟩]⟩)
    simSt_init rfl rfl transparent_nil rfl rfl (by decide) ⟨by decide, trivial⟩ ?_ (by decide) h2
  refine ⟨⟨[⟨.kw .If, 0, 2⟩], 2, ⟨false, 0, [⟨0, 0⟩]⟩, false⟩, [.name [120], .op .Colon, .newline], 4, rfl, rfl, ?_, rfl, rfl⟩
  exact MidRuns.cons (o := ⟨[], 1, ⟨false, 0, [⟨0, 0⟩]⟩, false⟩) rfl rfl rfl
    (MidRuns.cons (o := ⟨[⟨.name [120], 0, 1⟩], 1, ⟨false, 0, [⟨0, 0⟩]⟩, false⟩) rfl rfl rfl
      (MidRuns.cons (o := ⟨[⟨.op .Colon, 0, 1⟩], 1, ⟨false, 0, [⟨0, 0⟩]⟩, false⟩) rfl rfl rfl
        (MidRuns.cons (o := ⟨[⟨.newline, 0, 1⟩], 1, ⟨true, 0, [⟨0, 0⟩]⟩, false⟩) rfl rfl rfl (MidRuns.nil _ _))))


/-- an instance of the theorem: two spaces / one tab give the same tokens, `Indent` and `Dedent` included -/
example : eraseRanges (lex localCfg .module 0 [105, 102, 32, 120, 58, 10, 32, 32, 121, 10]) =
    eraseRanges (lex localCfg .module 0 [105, 102, 32, 120, 58, 10, 9, 121, 10]) :=
  lex_reindent_invariant localUp_ok rfl reindent_example (by decide) (by decide) .module 0 (by decide) (by decide)

example : eraseRanges (lex localCfg .module 0 [105, 102, 32, 120, 58, 10, 9, 121, 10]) =
    some ([.kw .If, .name [120], .op .Colon, .newline, .indent, .name [121], .newline, .dedent], .eof) := by decide

/-- `if x:⏎␠␠␠␠y⏎␠␠z⏎`  ~  `if x:⏎⇥⇥y⏎⇥z⏎`: a dedent to a level that is not on the stack, in both texts -/
theorem reindent_error_example : Reindent localCfg .init .init
    [105, 102, 32, 120, 58, 10, 32, 32, 32, 32, 121, 10, 32, 32, 122, 10]
    [105, 102, 32, 120, 58, 10, 9, 9, 121, 10, 9, 122, 10] := by
  have hI0 : Increasing [(⟨0, 0⟩ : IndentLevel)] := by simp [Increasing]
  -- line 3: the step at the beginning of the line fails (`IndentationError`), in both texts
  have h3 : Reindent localCfg ⟨true, 0, [⟨0, 4⟩, ⟨0, 0⟩]⟩ ⟨true, 0, [⟨2, 0⟩, ⟨0, 0⟩]⟩ [32, 32, 122, 10] [9, 122, 10] :=
    Reindent.last (bl := []) (w := [32, 32]) (w' := [9]) (s := 2) (t := 0) (s' := 0) (t' := 1) (c := 122) (r := [10])
      ⟨rfl, rfl, ⟨by decide, by simp [Increasing]⟩, ⟨by decide, by simp [Increasing]⟩, rfl⟩ rfl rfl transparent_nil
      rfl rfl (by decide) ⟨by decide, by decide, trivial⟩ (by intro o h; cases h)
  have h2 : Reindent localCfg ⟨true, 0, [⟨0, 0⟩]⟩ ⟨true, 0, [⟨0, 0⟩]⟩
      [32, 32, 32, 32, 121, 10, 32, 32, 122, 10] [9, 9, 121, 10, 9, 122, 10] := by
    refine Reindent.line (bl := []) (w := [32, 32, 32, 32]) (w' := [9, 9]) (s := 4) (t := 0) (s' := 0) (t' := 2)
      (c := 121) (r := [10]) (rest := [32, 32, 122, 10]) (rest' := [9, 122, 10])
      (st2 := ⟨true, 0, [⟨0, 4⟩, ⟨0, 0⟩]⟩)
      (SimSt.refl hI0) rfl rfl transparent_nil rfl rfl (by decide) ⟨by decide, trivial⟩ ?_ (by decide) h3
    refine ⟨⟨[⟨.indent, 0, 4⟩, ⟨.name [121], 4, 5⟩], 5, ⟨false, 0, [⟨0, 4⟩, ⟨0, 0⟩]⟩, false⟩, [.newline], 1, rfl, rfl, ?_, rfl, rfl⟩
    exact MidRuns.cons (o := ⟨[⟨.newline, 0, 1⟩], 1, ⟨true, 0, [⟨0, 4⟩, ⟨0, 0⟩]⟩, false⟩) rfl rfl rfl (MidRuns.nil _ _)
  refine Reindent.line (bl := []) (w := []) (w' := []) (s := 0) (t := 0) (s' := 0) (t' := 0) (c := 105)
    (r := [102, 32, 120, 58, 10]) (rest := [32, 32, 32, 32, 121, 10, 32, 32, 122, 10])
    (rest' := [9, 9, 121, 10, 9, 122, 10]) (st2 := ⟨true, 0, [⟨0, 0⟩]⟩)
    simSt_init rfl rfl transparent_nil rfl rfl (by decide) ⟨by decide, trivial⟩ ?_ (by decide) h2
  refine ⟨⟨[⟨.kw .If, 0, 2⟩], 2, ⟨false, 0, [⟨0, 0⟩]⟩, false⟩, [.name [120], .op .Colon, .newline], 4, rfl, rfl, ?_, rfl, rfl⟩
  exact MidRuns.cons (o := ⟨[], 1, ⟨false, 0, [⟨0, 0⟩]⟩, false⟩) rfl rfl rfl
    (MidRuns.cons (o := ⟨[⟨.name [120], 0, 1⟩], 1, ⟨false, 0, [⟨0, 0⟩]⟩, false⟩) rfl rfl rfl
      (MidRuns.cons (o := ⟨[⟨.op .Colon, 0, 1⟩], 1, ⟨false, 0, [⟨0, 0⟩]⟩, false⟩) rfl rfl rfl
        (MidRuns.cons (o := ⟨[⟨.newline, 0, 1⟩], 1, ⟨true, 0, [⟨0, 0⟩]⟩, false⟩) rfl rfl rfl (MidRuns.nil _ _))))

/-- … and both are rejected with the same kind of error -/
example : eraseRanges (lex localCfg .module 0 [105, 102, 32, 120, 58, 10, 9, 9, 121, 10, 9, 122, 10]) =
    some ([.kw .If, .name [120], .op .Colon, .newline, .indent, .name [121], .newline], .err .indentationError) := by
  rw [← lex_reindent_invariant localUp_ok rfl reindent_error_example (by decide) (by decide) .module 0 (by decide) (by decide)]
  decide

/-- what `SimLevel` rules out: one tab against eight spaces is a `TabError` in this lexer, four spaces are not -/
example : ¬ SimLevel ⟨0, 4⟩ ⟨1, 0⟩ [⟨0, 8⟩, ⟨0, 0⟩] [⟨0, 8⟩, ⟨0, 0⟩] := by
  intro h; exact absurd h.1 (by decide)

/-! non-vacuity of the stack- and step-level lemmas: two spaces vs one tab under `[(0,4),(0,0)]` / `[(2,0),(0,0)]` -/

example : DedentSim [⟨0, 4⟩, ⟨0, 2⟩, ⟨0, 0⟩] [⟨2, 0⟩, ⟨1, 0⟩, ⟨0, 0⟩]
    (dedentLoop ⟨0, 2⟩ 7 [⟨0, 4⟩, ⟨0, 2⟩, ⟨0, 0⟩]) (dedentLoop ⟨1, 0⟩ 3 [⟨2, 0⟩, ⟨1, 0⟩, ⟨0, 0⟩]) :=
  dedentLoop_sim 7 3 ⟨by decide, by decide, by decide, trivial⟩

/-- … and it pops one level in both -/
example : dedentLoop ⟨1, 0⟩ 3 [⟨2, 0⟩, ⟨1, 0⟩, ⟨0, 0⟩] = .ok (1, [⟨1, 0⟩, ⟨0, 0⟩]) := by rfl

private theorem exSt : SimSt ⟨true, 0, [⟨0, 4⟩, ⟨0, 0⟩]⟩ ⟨true, 0, [⟨2, 0⟩, ⟨0, 0⟩]⟩ :=
  ⟨rfl, rfl, ⟨by decide, by simp [Increasing]⟩, ⟨by decide, by simp [Increasing]⟩, rfl⟩

/-- `␠␠z⏎` / `⇥z⏎` under similar stacks: a dedent to a level that is on neither stack (`IndentationError` in both) -/
example : HiRel 2 1 false
    (handleIndentations localCfg ⟨true, 0, [⟨0, 4⟩, ⟨0, 0⟩]⟩ ([] ++ ([32, 32] ++ 122 :: [10])))
    (handleIndentations localCfg ⟨true, 0, [⟨2, 0⟩, ⟨0, 0⟩]⟩ ([] ++ ([9] ++ 122 :: [10]))) :=
  handleIndentations_sim (cfg := localCfg) (bl := []) (w := [32, 32]) (w' := [9]) (c := 122) rfl exSt transparent_nil
    (s := 2) (t := 0) (s' := 0) (t' := 1) rfl rfl
    (by decide) [10] (fun _ => ⟨by decide, by decide, trivial⟩)

/-- `␠␠␠␠␠␠z⏎` / `⇥⇥⇥z⏎`: a deeper level, INDENT in both; the step also reads the first token `z` -/
example : StepRel 6 3
    (step localCfg ⟨true, 0, [⟨0, 4⟩, ⟨0, 0⟩]⟩ ([] ++ ([32, 32, 32, 32, 32, 32] ++ 122 :: [10])))
    (step localCfg ⟨true, 0, [⟨2, 0⟩, ⟨0, 0⟩]⟩ ([] ++ ([9, 9, 9] ++ 122 :: [10]))) :=
  step_sim_bol (cfg := localCfg) (bl := []) (w := [32, 32, 32, 32, 32, 32]) (w' := [9, 9, 9]) (c := 122) rfl exSt rfl
    transparent_nil (s := 6) (t := 0) (s' := 0) (t' := 3) rfl rfl
    (by decide) [10] (fun _ => ⟨by decide, by decide, trivial⟩)

example : step localCfg ⟨true, 0, [⟨2, 0⟩, ⟨0, 0⟩]⟩ [9, 9, 9, 122, 10] =
    .ok ⟨[⟨.indent, 0, 3⟩, ⟨.name [122], 3, 4⟩], 4, ⟨false, 0, [⟨3, 0⟩, ⟨2, 0⟩, ⟨0, 0⟩]⟩, false⟩ := by rfl

/-- inside a line the stack is not looked at: `=1⏎` from the two states -/
example : StepRel 0 0 (step localCfg ⟨false, 0, [⟨0, 4⟩, ⟨0, 0⟩]⟩ (61 :: [49, 10]))
    (step localCfg ⟨false, 0, [⟨2, 0⟩, ⟨0, 0⟩]⟩ (61 :: [49, 10])) :=
  step_sim_mid (cfg := localCfg) (st := ⟨false, 0, [⟨0, 4⟩, ⟨0, 0⟩]⟩) (st' := ⟨false, 0, [⟨2, 0⟩, ⟨0, 0⟩]⟩)
    ⟨rfl, rfl, exSt.stack⟩ rfl 61 [49, 10]

/-- the rest of the line `x=1⏎` behind `x`, in front of `y` and in front of `⇥z`, from the two states -/
example : ∃ st2', Runs localCfg ⟨false, 0, [⟨2, 0⟩, ⟨0, 0⟩]⟩ ([61, 49, 10] ++ [9, 122]) [.op .Equal, .int 1, .newline] 3 st2' ∧
    SimSt ⟨true, 0, [⟨0, 4⟩, ⟨0, 0⟩]⟩ st2' ∧ st2'.indents = [⟨2, 0⟩, ⟨0, 0⟩] := by
  have hm : MidRuns localCfg ⟨false, 0, [⟨0, 4⟩, ⟨0, 0⟩]⟩ ([61, 49, 10] ++ [121]) [.op .Equal, .int 1, .newline] 3
      ⟨true, 0, [⟨0, 4⟩, ⟨0, 0⟩]⟩ :=
    MidRuns.cons (o := ⟨[⟨.op .Equal, 0, 1⟩], 1, ⟨false, 0, [⟨0, 4⟩, ⟨0, 0⟩]⟩, false⟩) rfl rfl rfl
      (MidRuns.cons (o := ⟨[⟨.int 1, 0, 1⟩], 1, ⟨false, 0, [⟨0, 4⟩, ⟨0, 0⟩]⟩, false⟩) rfl rfl rfl
        (MidRuns.cons (o := ⟨[⟨.newline, 0, 1⟩], 1, ⟨true, 0, [⟨0, 4⟩, ⟨0, 0⟩]⟩, false⟩) rfl rfl rfl (MidRuns.nil _ _)))
  exact midRuns_transfer localUp_ok rfl hm (u := [61, 49, 10]) (rest := [121]) (rest' := [9, 122])
    (st1' := ⟨false, 0, [⟨2, 0⟩, ⟨0, 0⟩]⟩) rfl rfl rfl rfl ⟨rfl, rfl, exSt.stack⟩ (by decide)


end PV.C08
