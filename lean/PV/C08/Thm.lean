import PV.Lexer.SoftKw
namespace PV.C08
end PV.C08
