import PV.C08.Fold
import PV.C08.Whole
import PV.C08.ReindentText
import PV.C08.Paren
import PV.Prog.Thm
/-
  PV.C08.Thm — "layout never changes the tree".

  The parser consumes only the token stream.  The theorems say: texts related by the layout rules of
  `Spec.LayoutEq` have the same token stream once ranges are erased (same tokens with the same payloads, same
  way of ending: end of input or the same kind of lexical error).  That equal range-erased token streams give
  equal range-erased trees is proved on the REFERENCE parser `PV.Prog.parseProgram` (last section); the LALRPOP
  automaton itself is not modelled — it is tied to the reference parser by the PROG correspondence, and judged
  directly on every run by the differential on the real parser (tools/props/c08.py, stream family `layout`).

  Reading guide (second pass: see also `ReindentText.lean` — consistent re-indentation, `lex_reindent_invariant`;
  `AtBol.lean` / `Whole.lean` — the line-start rules need the lexer-position hypothesis for the ORIGINAL text only;
  `Paren.lean` — redundant parentheses on the expression reference parser; the end of this file — from tokens to trees)
    * `rule_*`                 one theorem per place-dependent rule, in SUFFIX form and unconditional: in a lexer
                               state satisfying the rule's side condition, the inserted layout text in front of
                               the remaining input does not change the remaining run.  Each is a statement about
                               one arm of the lexer model (blank arm, `#` arm, backslash arm, line-break arm with
                               `nesting > 0`, `eat_indentation`).
    * `lex_layout_invariant`   the whole-text theorem, closed under composition (induction on `LayoutEq`).
    * `lexCore_regular`        the run neither exhausts its fuel nor reports a position beyond the text, so the
                               fuel-free reading `LexRun` IS what `lex` computes.
-/
namespace PV.C08
open PV.Lexer

/-! ## per-rule theorems (suffix form) -/

/-- blanks at a token gap (trailing whitespace): the blank arm emits nothing -/
theorem rule_blanks_thm {cfg : Cfg} (hup : UpOk cfg.up) {st : LexState} (hb : st.atBol = false) {w : List Nat}
    (hw : AllBlank w) (post : List Nat) (ts : List Tok) (e : EndK) :
    RunsTo cfg st (w ++ post) ts e ↔ RunsTo cfg st post ts e := rule_blanks hup hb hw post ts e

/-- a comment after code: the `#` arm emits nothing (default build) and stops in front of the line end -/
theorem rule_commentAfter_thm {cfg : Cfg} (hup : UpOk cfg.up) (hf : cfg.fullLexer = false) {st : LexState}
    (hb : st.atBol = false) {c : List Nat} (hc : IsComment c) {post : List Nat}
    (hp : post = [] ∨ ∃ d r, post = d :: r ∧ isLineBreak d = true) (ts : List Tok) (e : EndK) :
    RunsTo cfg st (c ++ post) ts e ↔ RunsTo cfg st post ts e := rule_commentAfter hup hf hb hc hp ts e

/-- backslash + LF / CRLF / CR, not at the end of the text, produces no token and leaves the state alone -/
theorem rule_backslashJoin_thm {cfg : Cfg} (hup : UpOk cfg.up) {st : LexState} (hb : st.atBol = false)
    {e post : List Nat} (he : IsEol e) (hn : NoFuse e post) (hp : post ≠ []) (ts : List Tok) (k : EndK) :
    RunsTo cfg st (92 :: e ++ post) ts k ↔ RunsTo cfg st post ts k := rule_backslashJoin hup hb he hn hp ts k

/-- inside brackets (`nesting > 0`) a line end produces neither NEWLINE nor INDENT/DEDENT -/
theorem rule_bracketBreak_thm {cfg : Cfg} (hup : UpOk cfg.up) (hf : cfg.fullLexer = false) {st : LexState}
    (hb : st.atBol = false) (hnest : 0 < st.nesting) {e post : List Nat} (he : IsEol e) (hn : NoFuse e post)
    (ts : List Tok) (k : EndK) :
    RunsTo cfg st (e ++ post) ts k ↔ RunsTo cfg st post ts k := rule_bracketBreak hup hf hb hnest he hn ts k

/-- at the start of a line, a blank or comment-only line with any (accepted) indentation is invisible:
    `eat_indentation` resets its count at the line end -/
theorem rule_blankLine_thm {cfg : Cfg} (hf : cfg.fullLexer = false) {st : LexState} (hb : st.atBol = true)
    {w c e post : List Nat} (hw : BolBlank w) (hc : c = [] ∨ IsComment c) (he : IsEol e) (hn : NoFuse e post)
    (ts : List Tok) (k : EndK) :
    RunsTo cfg st ((w ++ c ++ e) ++ post) ts k ↔ RunsTo cfg st post ts k :=
  rule_linePrefix hf hb (w ++ c ++ e) post (eatIndent_blankLine hw hc he hn) ts k

/-- at the start of a line, blanks + form feed in front of the line's own indentation are invisible:
    the form feed resets the count -/
theorem rule_formFeed_thm {cfg : Cfg} (hf : cfg.fullLexer = false) {st : LexState} (hb : st.atBol = true)
    {w post : List Nat} (hw : BolBlank w) (ts : List Tok) (k : EndK) :
    RunsTo cfg st ((w ++ [12]) ++ post) ts k ↔ RunsTo cfg st post ts k :=
  rule_linePrefix hf hb (w ++ [12]) post (eatIndent_formFeed hw) ts k

/-- `next_char` folds LF, CRLF and CR to one LF -/
theorem nextChar_folds {e post : List Nat} (he : IsEol e) (hn : NoFuse e post) :
    nextChar (e ++ post) = some (10, e.length, post) := nextChar_eol he hn

/-! ## whole texts -/

/-- the lexer run of the model terminates within its fuel and stays inside the text (uses the step contract
    proved by the C05 builder) -/
theorem lexCore_regular_thm {cfg : Cfg} (hs : cfg.up.Sane) (start : Nat) (src : List Nat) :
    (lexCore cfg (src.length + 1) start src).fin ≠ .outOfFuel ∧
    (lexCore cfg (src.length + 1) start src).reachedB ≤ start + utf8Len src := lexCore_regular hs start src

/-- the line-end rule, unconditional and global: the run on a text and the run on its universal-newline normal
    form (`foldEol`: CRLF and lone CR read as LF) emit the same tokens and end the same way — in every lexer
    state, so also inside strings, comments, after a backslash, inside brackets.  Proved by walking every
    function of the model (`PV/C08/Fold.lean`). -/
theorem rule_eol_thm {cfg : Cfg} (hup : UpOk cfg.up) (hf : cfg.fullLexer = false) (st : LexState) (x : List Nat)
    (ts : List Tok) (e : EndK) : RunsTo cfg st x ts e ↔ RunsTo cfg st (foldEol x) ts e :=
  eolInv hup hf st x ts e

/-- layout-equivalent texts have the same lexer runs (fuel-free reading), rule by rule and closed under
    composition -/
theorem lex_layout_invariant_runs {cfg : Cfg} (hup : UpOk cfg.up) (hf : cfg.fullLexer = false)
    {a b : List Nat} (h : LayoutEq cfg a b) : ∀ ts e, LexRun cfg a ts e ↔ LexRun cfg b ts e := by
  induction h with
  | refl => intro ts e; rfl
  | step h => exact layoutStep_run hup hf (eolInv hup hf) h
  | symm _ ih => intro ts e; exact (ih ts e).symm
  | trans _ _ ih1 ih2 => intro ts e; exact (ih1 ts e).trans (ih2 ts e)

/-- **Layout never changes the token stream.**  For texts whose end offset fits `u32` (the Rust `TextSize`),
    in every mode and from every start offset: layout-equivalent texts lex (including the soft-keyword pass) to
    the same tokens and the same kind of end, ranges erased. -/
theorem lex_layout_invariant {cfg : Cfg} (hup : UpOk cfg.up) (hf : cfg.fullLexer = false)
    {a b : List Nat} (h : LayoutEq cfg a b) (mode : Mode) (start : Nat)
    (ha : start + utf8Len a ≤ u32Max) (hb : start + utf8Len b ≤ u32Max) :
    eraseRanges (lex cfg mode start a) = eraseRanges (lex cfg mode start b) :=
  lex_eq_of_runs hup.sane (lex_layout_invariant_runs hup hf h) mode start ha hb

/-! ## the hypotheses are satisfiable, the relation is not trivial -/

/-- the ASCII instantiation of the Unicode parameters used by the drivers (non-ASCII: nothing) -/
def asciiUp : UParams where
  xidStart c := isAsciiLetter c
  xidContinue c := isAsciiLetter c || isDigit c || c == 95
  emoji _ := false

def asciiCfg : Cfg := ⟨false, asciiUp⟩

theorem asciiUp_ok : UpOk asciiUp := by
  refine ⟨⟨?_, by decide, by decide⟩, ?_⟩
  · intro c h; simp [asciiUp] at h ⊢; simp [h]
  · intro c h
    rcases h with h | h | h | h
    · rcases isBlank_cases h with rfl | rfl | rfl <;> decide
    · rcases isLineBreak_cases h with rfl | rfl <;> decide
    · subst h; decide
    · subst h; decide

/-- `x⏎`  ~  `x␠⇥⏎`  (trailing blanks) -/
example : LayoutEq asciiCfg [120, 10] [120, 32, 9, 10] := by
  refine .step (LayoutStep.blanks (pre := [120]) (post := [10]) (w := [32, 9])
    (st := ⟨false, 0, [⟨0, 0⟩]⟩) (ts := [.name [120]]) ⟨by decide, ?_⟩ ⟨by decide, ?_⟩ rfl ?_)
  · exact Runs.cons (o := ⟨[⟨.name [120], 0, 1⟩], 1, ⟨false, 0, [⟨0, 0⟩]⟩, false⟩) (by rfl) rfl (Runs.nil _ _)
  · exact Runs.cons (o := ⟨[⟨.name [120], 0, 1⟩], 1, ⟨false, 0, [⟨0, 0⟩]⟩, false⟩) (by rfl) rfl (Runs.nil _ _)
  · intro c hc; simp at hc; rcases hc with rfl | rfl <;> decide

/-- `x⏎y`  ~  `x⏎␠␠#c␍⏎y`  (a comment-only line, indented, ended by CRLF, at the start of line 2): only the run on
    the ORIGINAL text is given -/
theorem layoutEq_blankLine_example : LayoutEq asciiCfg [120, 10, 121] [120, 10, 32, 32, 35, 99, 13, 10, 121] := by
  have h1 : step asciiCfg .init [120, 10, 121] = .ok ⟨[⟨.name [120], 0, 1⟩], 1, ⟨false, 0, [⟨0, 0⟩]⟩, false⟩ := by rfl
  have h2 : step asciiCfg ⟨false, 0, [⟨0, 0⟩]⟩ [10, 121] = .ok ⟨[⟨.newline, 0, 1⟩], 1, ⟨true, 0, [⟨0, 0⟩]⟩, false⟩ := by rfl
  refine .step (LayoutStep.blankLine (pre := [120, 10]) (post := [121]) (w := [32, 32]) (c := [35, 99])
    (e := [13, 10]) (st := ⟨true, 0, [⟨0, 0⟩]⟩) (ts := [.name [120], .newline])
    ⟨by decide, ?_⟩ rfl (by simp [BolBlank, measure]) (Or.inr ⟨[99], rfl, ?_⟩) .crlf (by intro h; cases h)
    (by intro h; simp at h))
  · exact Runs.cons h1 rfl (Runs.cons h2 rfl (Runs.nil _ _))
  · intro c hc; simp at hc; subst hc; decide

/-- … and the theorem applies to it -/
example : eraseRanges (lex asciiCfg .module 0 [120, 10, 121]) =
    eraseRanges (lex asciiCfg .module 0 [120, 10, 32, 32, 35, 99, 13, 10, 121]) :=
  lex_layout_invariant asciiUp_ok rfl layoutEq_blankLine_example .module 0 (by decide) (by decide)

/-- `f(a)` ~ `f(⏎a)`  (a line break inside brackets) -/
example : LayoutEq asciiCfg [102, 40, 97, 41] [102, 40, 10, 97, 41] := by
  have h1 : step asciiCfg .init [102, 40, 97, 41] = .ok ⟨[⟨.name [102], 0, 1⟩], 1, ⟨false, 0, [⟨0, 0⟩]⟩, false⟩ := by rfl
  have h2 : step asciiCfg ⟨false, 0, [⟨0, 0⟩]⟩ [40, 97, 41] = .ok ⟨[⟨.op .Lpar, 0, 1⟩], 1, ⟨false, 1, [⟨0, 0⟩]⟩, false⟩ := by rfl
  have h1' : step asciiCfg .init [102, 40, 10, 97, 41] = .ok ⟨[⟨.name [102], 0, 1⟩], 1, ⟨false, 0, [⟨0, 0⟩]⟩, false⟩ := by rfl
  have h2' : step asciiCfg ⟨false, 0, [⟨0, 0⟩]⟩ [40, 10, 97, 41] = .ok ⟨[⟨.op .Lpar, 0, 1⟩], 1, ⟨false, 1, [⟨0, 0⟩]⟩, false⟩ := by rfl
  refine .step (LayoutStep.bracketBreak (pre := [102, 40]) (post := [97, 41]) (e := [10])
    (st := ⟨false, 1, [⟨0, 0⟩]⟩) (ts := [.name [102], .op .Lpar])
    ⟨by decide, ?_⟩ ⟨by decide, ?_⟩ rfl (by decide) .lf (by intro h; cases h))
  · exact Runs.cons h1 rfl (Runs.cons h2 rfl (Runs.nil _ _))
  · exact Runs.cons h1' rfl (Runs.cons h2' rfl (Runs.nil _ _))

/-- line ends and BOM: `a⏎b` ~ `a␍⏎b` ~ `a␍b` ~ BOM `a␍b` -/
example : LayoutEq asciiCfg [97, 10, 98] [0xFEFF, 97, 13, 98] :=
  .trans (.step (.eol (a := [97, 10, 98]) (b := [97, 13, 98]) (by decide))) (.step (.bom (by decide)))

/-- an instance of the theorem on concrete texts: `x = 'a⏎b'⏎` with LF and with CR / CRLF (line ends inside a
    string and at the end of the logical line) -/
example : eraseRanges (lex asciiCfg .module 0 [120, 61, 39, 39, 39, 97, 10, 98, 39, 39, 39, 10]) =
    eraseRanges (lex asciiCfg .module 0 [120, 61, 39, 39, 39, 97, 13, 98, 39, 39, 39, 13, 10]) :=
  lex_layout_invariant asciiUp_ok rfl (.step (.eol (by decide))) .module 0 (by decide) (by decide)

/-- the relation does not relate everything: texts with different tokens are not layout-equivalent (so the
    theorem is not vacuous in the other direction either) — an instance of the theorem -/
example : eraseRanges (lex asciiCfg .module 0 [120, 10]) ≠ eraseRanges (lex asciiCfg .module 0 [121, 10]) := by
  decide

/-! ## from tokens to trees

  The reference parser for whole programs `PV.Prog.parseProgram` (written from `python.lalrpop`, tied to the generated
  LR parser by the PROG correspondence streams) consumes the range-erased token stream only
  (`PV.Prog.parseProgram_layout_free`: positions never matter).  Hence equal erased token streams give equal trees.
  `conv` is the map from the lexer model's tokens to the parser's alphabet (string literals decoded, float numerals
  converted; the one the PROG correspondence uses is `decodeTok` of `lean/Drv/Prog.lean` on the harness's token dump);
  the corollaries hold for EVERY such map. -/

/-- the parser's input for a lexed text: defined when the lexer accepted the text and every token converts -/
def parserInput (conv : Tok → Option PV.Prog.PTok) : Option (List Tok × EndK) → Option (List PV.Prog.PTok)
  | some (ts, .eof) => ts.mapM conv
  | _ => none

/-- text → tree on the models: lexer model (incl. the soft-keyword pass), token conversion, reference parser;
    `none` = rejected -/
def parseText (conv : Tok → Option PV.Prog.PTok) (cfg : Cfg) (pmode : PV.Prog.Mode) (mode : Mode) (start : Nat)
    (src : List Nat) : Option PV.Prog.Mod :=
  (parserInput conv (eraseRanges (lex cfg mode start src))).bind (PV.Prog.parseProgram pmode)

/-- **Layout never changes the tree** (on the models): layout-equivalent texts are accepted alike and give the same
    range-free tree. -/
theorem layout_tree_invariant (conv : Tok → Option PV.Prog.PTok) {cfg : Cfg} (hup : UpOk cfg.up)
    (hf : cfg.fullLexer = false) {a b : List Nat} (h : LayoutEq cfg a b) (pmode : PV.Prog.Mode) (mode : Mode)
    (start : Nat) (ha : start + utf8Len a ≤ u32Max) (hb : start + utf8Len b ≤ u32Max) :
    parseText conv cfg pmode mode start a = parseText conv cfg pmode mode start b := by
  unfold parseText
  rw [lex_layout_invariant hup hf h mode start ha hb]

/-- the same for consistent re-indentation -/
theorem reindent_tree_invariant (conv : Tok → Option PV.Prog.PTok) {cfg : Cfg} (hup : UpOk cfg.up)
    (hf : cfg.fullLexer = false) {a b : List Nat} (h : Reindent cfg .init .init a b)
    (ha0 : a.head? ≠ some 0xFEFF) (hb0 : b.head? ≠ some 0xFEFF) (pmode : PV.Prog.Mode) (mode : Mode)
    (start : Nat) (ha : start + utf8Len a ≤ u32Max) (hb : start + utf8Len b ≤ u32Max) :
    parseText conv cfg pmode mode start a = parseText conv cfg pmode mode start b := by
  unfold parseText
  rw [lex_reindent_invariant hup hf h ha0 hb0 mode start ha hb]

/-- a conversion for the tokens of the examples: names, the keyword `if`, `:`, and the layout tokens -/
def sampleConv : Tok → Option PV.Prog.PTok
  | .name n => some (.e (.name n))
  | .kw .If => some (.e (.kw .if))
  | .op .Colon => some (.e (.op .colon))
  | .newline => some .newline
  | .indent => some .indent
  | .dedent => some .dedent
  | _ => none

/-- `if x:⏎␠␠y⏎` and `if x:⏎⇥y⏎` give the same tree, and it is the `If` statement -/
example : parseText sampleConv localCfg .module .module 0 [105, 102, 32, 120, 58, 10, 32, 32, 121, 10] =
    parseText sampleConv localCfg .module .module 0 [105, 102, 32, 120, 58, 10, 9, 121, 10] :=
  reindent_tree_invariant sampleConv localUp_ok rfl reindent_example (by decide) (by decide) .module .module 0
    (by decide) (by decide)

example : parseText sampleConv localCfg .module .module 0 [105, 102, 32, 120, 58, 10, 9, 121, 10] =
    some (.module [.if (.name [120]) [.expr (.name [121])] []]) := by rfl

/-- `x⏎` and `x␠⇥⏎` (trailing blanks) give the same tree -/
example : parseText sampleConv asciiCfg .module .module 0 [120, 10] =
    parseText sampleConv asciiCfg .module .module 0 [120, 32, 9, 10] := by
  refine layout_tree_invariant sampleConv asciiUp_ok rfl ?_ .module .module 0 (by decide) (by decide)
  refine .step (LayoutStep.blanks (pre := [120]) (post := [10]) (w := [32, 9])
    (st := ⟨false, 0, [⟨0, 0⟩]⟩) (ts := [.name [120]]) ⟨by decide, ?_⟩ ⟨by decide, ?_⟩ rfl ?_)
  · exact Runs.cons (o := ⟨[⟨.name [120], 0, 1⟩], 1, ⟨false, 0, [⟨0, 0⟩]⟩, false⟩) (by rfl) rfl (Runs.nil _ _)
  · exact Runs.cons (o := ⟨[⟨.name [120], 0, 1⟩], 1, ⟨false, 0, [⟨0, 0⟩]⟩, false⟩) (by rfl) rfl (Runs.nil _ _)
  · intro c hc; simp at hc; rcases hc with rfl | rfl <;> decide

end PV.C08
