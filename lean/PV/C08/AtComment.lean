import PV.C08.AtAny
/-
  PV.C08.AtComment — the one place `LayoutEq''` leaves out: text inserted BEHIND A COMMENT (inside it, as the lexer sees
  it): `x#c⏎` ~ `x#c␠⏎` ~ `x#c #d⏎`.  The comment step itself grows, so this is no splice at a step boundary; it is
  proved directly for the default build: the comment arm consumes everything up to the line end and emits no token.

  `comment_grow_runs`: the lexer at a step boundary in front of `#c` (not at the beginning of a line), `c` and `w` free
  of line breaks, `post` empty or starting with a line break  ⟹  `pre ++ #c ++ post` and `pre ++ #c ++ w ++ post` have
  the same runs.  `LayoutEq'''` = `LayoutEq''` + this rule; main theorems `*_all`.
-/
namespace PV.C08
open PV.Lexer

theorem noBreak_append {a b : List Nat} (ha : NoBreak a) (hb : NoBreak b) : NoBreak (a ++ b) := by
  intro x hx
  rcases List.mem_append.1 hx with h | h
  · exact ha x h
  · exact hb x h

/-- two runs on the same text from the same state: the longer one passes through the end of the shorter one and goes on
    with a step from there -/
theorem runs_next {cfg : Cfg} {st0 : LexState} {inp : List Nat} {ts1 : List Tok} {a1 : Nat} {st1 : LexState}
    (h1 : Runs cfg st0 inp ts1 a1 st1) :
    ∀ {ts : List Tok} {a : Nat} {st : LexState}, Runs cfg st0 inp ts a st → a1 < a →
      ∃ o, step cfg st1 (inp.drop a1) = .ok o ∧ a1 + o.consumed ≤ a := by
  induction h1 with
  | nil st0 inp =>
    intro ts a st h2 hlt
    cases h2 with
    | nil => omega
    | cons g1 _ _ => exact ⟨_, by simpa using g1, by omega⟩
  | @cons st0 inp o ts1 n1 st1 ho hd hrest ih =>
    intro ts a st h2 hlt
    cases h2 with
    | nil => omega
    | @cons _ _ o2 ts2 n2 _ g1 gd g2 =>
      rw [ho] at g1; cases g1
      obtain ⟨o', ho', hle⟩ := ih g2 (by omega)
      exact ⟨o', by rw [← List.drop_drop]; exact ho', by omega⟩

/-- **a step boundary in front of a `#` is never behind a comment**: the earlier comment would have swallowed it -/
theorem not_behindComment_at_hash {cfg : Cfg} (hup : UpOk cfg.up) (hf : cfg.fullLexer = false) {src : List Nat}
    {a : Nat} {st : LexState} {ts : List Tok} (h : At cfg src a st ts) (h35 : (src.drop a).head? = some 35) :
    ¬ BehindComment cfg src a := by
  rintro ⟨a', st', ts', hat', hlt, hb', hh', hnb⟩
  obtain ⟨o, ho, hle⟩ := runs_next hat'.2 h.2 hlt
  obtain ⟨t, ht⟩ : ∃ t, src.drop a' = 35 :: t := by
    cases hd : src.drop a' with
    | nil => rw [hd] at hh'; cases hh'
    | cons x t => rw [hd] at hh'; simp at hh'; exact ⟨t, by rw [hh']⟩
  rw [ht, step_comment hup hf hb' t] at ho
  have hc : o.consumed = commentLen (35 :: t) := by
    have := congrArg (fun x => match x with | Except.ok o => o.consumed | _ => 0) ho
    simpa [skip] using this.symm
  -- the comment runs at least to `a`, and `src[a] = #` is no line break either
  have hsplit : src.drop a' = (src.drop a').take (a - a') ++ src.drop a := by
    conv => lhs; rw [← List.take_append_drop (a - a') (src.drop a')]
    rw [List.drop_drop]
    congr 2; omega
  obtain ⟨t2, ht2⟩ : ∃ t2, src.drop a = 35 :: t2 := by
    cases hd : src.drop a with
    | nil => rw [hd] at h35; cases h35
    | cons x t => rw [hd] at h35; simp at h35; exact ⟨t, by rw [h35]⟩
  have hlen : ((src.drop a').take (a - a')).length = a - a' := by
    have : a ≤ src.length := by
      have := congrArg List.length ht2; simp at this; omega
    simp [List.length_take]; omega
  have hsp : commentLen (src.drop a') = (a - a') + spanLen (fun c => !isLineBreak c) (src.drop a) := by
    unfold commentLen
    conv => lhs; rw [hsplit]
    rw [spanLen_append_all (fun c hc => by simp [hnb c hc]), hlen]
  rw [ht] at hsp
  rw [ht2] at hsp
  simp [spanLen, isLineBreak] at hsp
  omega

/-- **A comment may grow.**  Hypotheses on the ORIGINAL text only: the lexer is at a step boundary in front of the `#`,
    not at the beginning of a line (so the `#` starts a comment after code). -/
theorem comment_grow_runs {cfg : Cfg} (hup : UpOk cfg.up) (hl : UpLay cfg.up) (hf : cfg.fullLexer = false)
    {pre c w post : List Nat} {st : LexState} {ts : List Tok}
    (ha : At cfg (pre ++ 35 :: (c ++ post)) pre.length st ts) (hb : st.atBol = false)
    (hc : NoBreak c) (hw : NoBreak w) (hp : post = [] ∨ ∃ d r, post = d :: r ∧ isLineBreak d = true)
    (tsAll : List Tok) (e : EndK) :
    LexRun cfg (pre ++ 35 :: (c ++ post)) tsAll e ↔ LexRun cfg (pre ++ 35 :: (c ++ w ++ post)) tsAll e := by
  have hnc : ¬ BehindComment cfg (pre ++ 35 :: (c ++ post)) pre.length :=
    not_behindComment_at_hash hup hf ha (by simp)
  have hb' : At cfg (pre ++ 35 :: (c ++ w ++ post)) pre.length st ts :=
    at_tok_extend hup hl hf ha (d := 35) (by decide) (d' := 35) (by decide) (r' := c ++ w ++ post)
      (fun _ => by decide) (fun _ _ _ => by decide) (fun hbc => absurd hbc hnc)
  have r1 := rule_commentAfter hup hf hb (c := 35 :: c) ⟨c, rfl, hc⟩ hp
  have r2 := rule_commentAfter hup hf hb (c := 35 :: (c ++ w)) ⟨c ++ w, rfl, noBreak_append hc hw⟩ hp
  rw [LexRun_noBom ha.1, LexRun_noBom hb'.1]
  constructor
  · intro h
    obtain ⟨ts2, rfl, h2⟩ := ha.2.split h
    refine hb'.2.append ?_
    have h3 : RunsTo cfg st (35 :: c ++ post) ts2 e := by simpa using h2
    have h4 := (r2 ts2 e).2 ((r1 ts2 e).1 h3)
    simpa using h4
  · intro h
    obtain ⟨ts2, rfl, h2⟩ := hb'.2.split h
    refine ha.2.append ?_
    have h3 : RunsTo cfg st (35 :: (c ++ w) ++ post) ts2 e := by simpa using h2
    have h4 := (r1 ts2 e).2 ((r2 ts2 e).1 h3)
    simpa using h4

/-! ## the relation with this rule added -/

/-- `LayoutEq''` plus growing comments -/
inductive LayoutEq''' (cfg : Cfg) : List Nat → List Nat → Prop
  | base {a b} : LayoutEq'' cfg a b → LayoutEq''' cfg a b
  /-- blanks, or any further text without a line break, appended to a comment after code -/
  | commentGrow {pre c w post st ts} :
      At cfg (pre ++ 35 :: (c ++ post)) pre.length st ts → st.atBol = false →
      NoBreak c → NoBreak w → (post = [] ∨ ∃ d r, post = d :: r ∧ isLineBreak d = true) →
      LayoutEq''' cfg (pre ++ 35 :: (c ++ post)) (pre ++ 35 :: (c ++ w ++ post))
  | symm {a b} : LayoutEq''' cfg a b → LayoutEq''' cfg b a
  | trans {a b c} : LayoutEq''' cfg a b → LayoutEq''' cfg b c → LayoutEq''' cfg a c

theorem lex_layout_invariant_runs_all {cfg : Cfg} (hup : UpOk cfg.up) (hl : UpLay cfg.up) (hf : cfg.fullLexer = false)
    {a b : List Nat} (h : LayoutEq''' cfg a b) : ∀ ts e, LexRun cfg a ts e ↔ LexRun cfg b ts e := by
  induction h with
  | base h => exact lex_layout_invariant_runs_any hup hl hf h
  | commentGrow ha hb hc hw hp => exact comment_grow_runs hup hl hf ha hb hc hw hp
  | symm _ ih => intro ts e; exact (ih ts e).symm
  | trans _ _ ih1 ih2 => intro ts e; exact (ih1 ts e).trans (ih2 ts e)

/-- **Layout never changes the token stream** (`LayoutEq'''`: all rules, hypotheses on the original texts only) -/
theorem lex_layout_invariant_all {cfg : Cfg} (hup : UpOk cfg.up) (hl : UpLay cfg.up) (hf : cfg.fullLexer = false)
    {a b : List Nat} (h : LayoutEq''' cfg a b) (mode : Mode) (start : Nat)
    (ha : start + utf8Len a ≤ u32Max) (hb : start + utf8Len b ≤ u32Max) :
    eraseRanges (lex cfg mode start a) = eraseRanges (lex cfg mode start b) :=
  lex_eq_of_runs hup.sane (lex_layout_invariant_runs_all hup hl hf h) mode start ha hb

/-- **Layout never changes the tree** (on the models; `LayoutEq'''`) -/
theorem layout_tree_invariant_all (conv : Tok → Option PV.Prog.PTok) {cfg : Cfg} (hup : UpOk cfg.up)
    (hl : UpLay cfg.up) (hf : cfg.fullLexer = false) {a b : List Nat} (h : LayoutEq''' cfg a b) (pmode : PV.Prog.Mode)
    (mode : Mode) (start : Nat) (ha : start + utf8Len a ≤ u32Max) (hb : start + utf8Len b ≤ u32Max) :
    parseText conv cfg pmode mode start a = parseText conv cfg pmode mode start b := by
  unfold parseText
  rw [lex_layout_invariant_all hup hl hf h mode start ha hb]

/-! ## non-vacuity: the witness pair of `at_rewritten_not_derivable` -/

/-- `x#c⏎` ~ `x#c␠⏎` ~ `x#c␠#d⏎`: only the run on the ORIGINAL text (up to the `#`) is given -/
theorem layoutEq_all_comment_example : LayoutEq''' asciiCfg [120, 35, 99, 10] [120, 35, 99, 32, 35, 100, 10] := by
  have h1 : step asciiCfg .init [120, 35, 99, 10] = .ok ⟨[⟨.name [120], 0, 1⟩], 1, ⟨false, 0, [⟨0, 0⟩]⟩, false⟩ := by rfl
  exact LayoutEq'''.commentGrow (pre := [120]) (c := [99]) (w := [32, 35, 100]) (post := [10])
    (st := ⟨false, 0, [⟨0, 0⟩]⟩) (ts := [.name [120]]) ⟨by decide, Runs.cons h1 rfl (Runs.nil _ _)⟩ rfl
    (by intro x hx; simp at hx; subst hx; decide)
    (by intro x hx; simp at hx; rcases hx with rfl | rfl | rfl <;> decide)
    (Or.inr ⟨10, [], rfl, by decide⟩)

example : eraseRanges (lex asciiCfg .module 0 [120, 35, 99, 10]) =
    eraseRanges (lex asciiCfg .module 0 [120, 35, 99, 32, 35, 100, 10]) :=
  lex_layout_invariant_all asciiUp_ok asciiUp_lay rfl layoutEq_all_comment_example .module 0 (by decide) (by decide)

end PV.C08
