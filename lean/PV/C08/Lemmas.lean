import PV.C08.Spec
import PV.Lexer.Lemmas
/-
  PV.C08.Lemmas — helper lemmas for PV.C08.Thm: fuel-free reading of the lexer run, splicing of runs,
  one lemma per lexer arm that a layout rule touches, the CR/CRLF folding walk.
-/
namespace PV.C08
open PV.Lexer

/-! ## fuel-free big-step reading of `lexAll`, ranges erased -/

inductive RunsTo (cfg : Cfg) : LexState → List Nat → List Tok → EndK → Prop
  | err {st inp e} : step cfg st inp = .error e → RunsTo cfg st inp [] (.err e.kind)
  | done {st inp o} : step cfg st inp = .ok o → o.done = true → RunsTo cfg st inp (o.toks.map (·.tok)) .eof
  | more {st inp o ts e} : step cfg st inp = .ok o → o.done = false →
      RunsTo cfg o.st (inp.drop o.consumed) ts e → RunsTo cfg st inp (o.toks.map (·.tok) ++ ts) e

theorem RunsTo.det {cfg st inp ts e ts' e'} (h : RunsTo cfg st inp ts e) (h' : RunsTo cfg st inp ts' e') :
    ts = ts' ∧ e = e' := by
  induction h generalizing ts' e' with
  | err h1 => cases h' <;> simp_all
  | done h1 h2 => cases h' <;> simp_all
  | more h1 h2 _ ih =>
    cases h' with
    | err g1 => simp_all
    | done g1 g2 => simp_all
    | more g1 g2 g3 =>
      rw [h1] at g1; cases g1
      have := ih g3
      simp_all

@[simp] theorem tok_comp_absTok (inp : List Nat) (cb bb : Nat) :
    ((fun x : Spanned => x.tok) ∘ absTok inp cb bb) = fun x : RelTok => x.tok := by
  funext x; simp [absTok]

/-- `lexAll` that does not run out of fuel computes the big-step result -/
theorem lexAll_runsTo (cfg : Cfg) : ∀ (fuel : Nat) (st : LexState) (inp : List Nat) (cb bb : Nat),
    (lexAll cfg fuel st inp cb bb).fin ≠ .outOfFuel →
    RunsTo cfg st inp (eraseOut (lexAll cfg fuel st inp cb bb)).1 (eraseOut (lexAll cfg fuel st inp cb bb)).2 := by
  intro fuel
  induction fuel with
  | zero => intro st inp cb bb h; simp [lexAll] at h
  | succ f ih =>
    intro st inp cb bb h
    unfold lexAll at h ⊢
    split at h
    · rename_i e he
      simpa [eraseOut, eraseEnd] using RunsTo.err he
    · rename_i o ho
      by_cases hd : o.done = true
      · simp [hd] at h ⊢
        simpa [eraseOut, eraseEnd] using RunsTo.done ho hd
      · simp [hd] at h ⊢
        have hd' : o.done = false := by simpa using hd
        have := ih o.st (inp.drop o.consumed) (cb + o.consumed) (bb + utf8Len (inp.take o.consumed)) h
        simpa [eraseOut] using RunsTo.more ho hd' this


/-! ## splicing runs -/

/-- a prefix run followed by the run of the rest -/
theorem Runs.append {cfg st inp ts n st' ts2 e} (h : Runs cfg st inp ts n st')
    (h2 : RunsTo cfg st' (inp.drop n) ts2 e) : RunsTo cfg st inp (ts ++ ts2) e := by
  induction h with
  | nil => simpa using h2
  | cons h1 hd _ ih =>
    rw [List.append_assoc]
    refine RunsTo.more h1 hd (ih ?_)
    simpa [List.drop_drop, Nat.add_comm] using h2

/-- a prefix run splits the run of the whole -/
theorem Runs.split {cfg st inp ts n st' tsAll e} (h : Runs cfg st inp ts n st')
    (hall : RunsTo cfg st inp tsAll e) : ∃ ts2, tsAll = ts ++ ts2 ∧ RunsTo cfg st' (inp.drop n) ts2 e := by
  induction h generalizing tsAll with
  | nil => exact ⟨tsAll, by simp, by simpa using hall⟩
  | cons h1 hd _ ih =>
    cases hall with
    | err g => simp_all
    | done g gd => simp_all
    | more g gd g3 =>
      rw [h1] at g; cases g
      obtain ⟨ts2, rfl, h3⟩ := ih g3
      exact ⟨ts2, by simp, by simpa [List.drop_drop, Nat.add_comm] using h3⟩

/-- The splice principle behind every place-dependent rule: if the lexer is at a step boundary in front of
    `post` in `pre ++ post` and in front of `ins ++ post` in `pre ++ ins ++ post`, in the same state after the
    same tokens, and `ins` in front of `post` does not change the run from that state, then the two texts have
    the same runs. -/
theorem splice {cfg pre post ins st ts}
    (ha : Runs cfg .init (pre ++ post) ts pre.length st)
    (hb : Runs cfg .init (pre ++ (ins ++ post)) ts pre.length st)
    (hrule : ∀ ts2 e, RunsTo cfg st (ins ++ post) ts2 e ↔ RunsTo cfg st post ts2 e) (tsAll e) :
    RunsTo cfg .init (pre ++ post) tsAll e ↔ RunsTo cfg .init (pre ++ (ins ++ post)) tsAll e := by
  constructor
  · intro h
    obtain ⟨ts2, rfl, h2⟩ := ha.split h
    refine hb.append ?_
    have : RunsTo cfg st post ts2 e := by simpa using h2
    simpa using (hrule ts2 e).2 this
  · intro h
    obtain ⟨ts2, rfl, h2⟩ := hb.split h
    refine ha.append ?_
    have : RunsTo cfg st (ins ++ post) ts2 e := by simpa using h2
    simpa using (hrule ts2 e).1 this

/-- a step that emits nothing and leaves the state alone can be skipped -/
theorem silent_step {cfg st inp n} (h : step cfg st inp = .ok ⟨[], n, st, false⟩) (ts e) :
    RunsTo cfg st inp ts e ↔ RunsTo cfg st (inp.drop n) ts e := by
  constructor
  · intro r
    cases r with
    | err g => simp_all
    | done g gd => rw [h] at g; cases g; simp at gd
    | more g gd g3 => rw [h] at g; cases g; simpa using g3
  · intro r
    simpa using RunsTo.more h rfl r


/-- what the layout lemmas need of the Unicode tables (true of the real ones: none of these ASCII characters is
    `XID_Start`; the driver instantiates the ASCII part of the parameters with exactly the ASCII letters) -/
structure UpOk (up : UParams) : Prop where
  sane : up.Sane
  layoutChars : ∀ c, (isBlank c = true ∨ isLineBreak c = true ∨ c = 35 ∨ c = 92) → up.xidStart c = false

theorem isBlank_cases {c : Nat} (h : isBlank c = true) : c = 32 ∨ c = 9 ∨ c = 12 := by
  simpa [isBlank, or_assoc] using h

theorem isLineBreak_cases {c : Nat} (h : isLineBreak c = true) : c = 10 ∨ c = 13 := by
  simpa [isLineBreak] using h

theorem lexOp_32 (cs : List Nat) : lexOp (32 :: cs) = none := by simp [lexOp]
theorem lexOp_9 (cs : List Nat) : lexOp (9 :: cs) = none := by simp [lexOp]
theorem lexOp_12 (cs : List Nat) : lexOp (12 :: cs) = none := by simp [lexOp]
theorem lexOp_10 (cs : List Nat) : lexOp (10 :: cs) = none := by simp [lexOp]
theorem lexOp_13 (cs : List Nat) : lexOp (13 :: cs) = none := by simp [lexOp]
theorem lexOp_35 (cs : List Nat) : lexOp (35 :: cs) = none := by simp [lexOp]
theorem lexOp_92 (cs : List Nat) : lexOp (92 :: cs) = none := by simp [lexOp]

/-- not at the beginning of a line, in front of a character that does not start an identifier, a step is
    `consume_character` -/
theorem step_consumeCharacter {cfg : Cfg} {st : LexState} (hb : st.atBol = false) {c : Nat} (cs : List Nat)
    (hx : cfg.up.xidStart c = false) (hl : isAsciiLetter c = false) (h95 : c ≠ 95) :
    step cfg st (c :: cs) = consumeCharacter cfg st c cs := by
  simp [step, hb, consumeNormal, isIdStart, hx, hl, h95]

/-- the blank arm of `consume_character`: a run of blanks is skipped, no token, state unchanged -/
theorem consumeCharacter_blank (cfg : Cfg) (st : LexState) {c : Nat} (cs : List Nat) (hc : isBlank c = true) :
    consumeCharacter cfg st c cs = .ok (skip (spanLen isBlank (c :: cs)) st) := by
  rcases isBlank_cases hc with rfl | rfl | rfl <;>
    simp [consumeCharacter, isDigit, isQuote, lexOp_32, lexOp_9, lexOp_12, openBracket, closeBracket, isLineBreak, isBlank]

/-- the `#` arm without `full-lexer`: the comment is skipped up to the line end -/
theorem consumeCharacter_comment {cfg : Cfg} (hf : cfg.fullLexer = false) (st : LexState) (cs : List Nat) :
    consumeCharacter cfg st 35 cs = .ok (skip (commentLen (35 :: cs)) st) := by
  simp [consumeCharacter, isDigit, hf]

/-- `next_char` folds every spelling of a line end to LF and consumes it as one character -/
theorem nextChar_eol {e post : List Nat} (he : IsEol e) (hn : NoFuse e post) :
    nextChar (e ++ post) = some (10, e.length, post) := by
  cases he with
  | lf => simp [nextChar]
  | crlf => simp [nextChar]
  | cr =>
    have := hn rfl
    cases post with
    | nil => simp [nextChar]
    | cons d r =>
      have hd : d ≠ 10 := by simpa using this
      simp [nextChar, hd]

theorem eol_cons {e : List Nat} (he : IsEol e) : ∃ c r, e = c :: r ∧ isLineBreak c = true := by
  cases he <;> simp [isLineBreak]

/-- the line-break arm of `consume_character` (default build) -/
theorem consumeCharacter_eol {cfg : Cfg} (hf : cfg.fullLexer = false) (st : LexState) {e post : List Nat}
    (he : IsEol e) (hn : NoFuse e post) {c : Nat} {cs : List Nat} (hcs : e ++ post = c :: cs) :
    consumeCharacter cfg st c cs =
      if st.nesting = 0 then .ok (one .newline e.length { st with atBol := true }) else .ok (skip e.length st) := by
  have hnc := nextChar_eol he hn
  rw [hcs] at hnc
  obtain ⟨c', r, rfl, hc⟩ := eol_cons he
  have : c' = c := by simpa using congrArg List.head? hcs
  subst this
  rcases isLineBreak_cases hc with rfl | rfl <;>
    simp [consumeCharacter, isDigit, isQuote, lexOp_10, lexOp_13, openBracket, closeBracket, isLineBreak, hf, hnc]

/-- the backslash arm of `consume_character`: backslash + line end, not at the end of the text, is skipped -/
theorem consumeCharacter_backslash_eol (cfg : Cfg) (st : LexState) {e post : List Nat}
    (he : IsEol e) (hn : NoFuse e post) (hp : post ≠ []) :
    consumeCharacter cfg st 92 (e ++ post) = .ok (skip (1 + e.length) st) := by
  have hnc := nextChar_eol he hn
  obtain ⟨c', r, rfl, hc⟩ := eol_cons he
  have hp' : post.isEmpty = false := by cases post <;> simp_all
  rw [List.cons_append] at hnc ⊢
  simp [consumeCharacter, isDigit, isQuote, lexOp_92, openBracket, closeBracket, isLineBreak, isBlank, hnc, hp']
  rcases isLineBreak_cases hc with h | h <;> simp [h]


theorem spanLen_append_all {p : Nat → Bool} {w : List Nat} (hw : ∀ c ∈ w, p c = true) (r : List Nat) :
    spanLen p (w ++ r) = w.length + spanLen p r := by
  induction w with
  | nil => simp
  | cons c w ih =>
    have hc : p c = true := hw c (by simp)
    have := ih (fun d hd => hw d (by simp [hd]))
    simp [spanLen, hc, this]; omega

theorem spanLen_le (p : Nat → Bool) (l : List Nat) : spanLen p l ≤ l.length := by
  induction l with
  | nil => simp [spanLen]
  | cons c l ih => simp [spanLen]; split <;> omega

/-! ## the place-dependent rules, suffix form: in state `st`, `ins` in front of `post` does not change the run -/

/-- blanks between tokens (trailing whitespace when `post` starts with a line end) -/
theorem rule_blanks {cfg : Cfg} (hup : UpOk cfg.up) {st : LexState} (hb : st.atBol = false) {w : List Nat}
    (hw : AllBlank w) (post : List Nat) (ts : List Tok) (e : EndK) :
    RunsTo cfg st (w ++ post) ts e ↔ RunsTo cfg st post ts e := by
  cases w with
  | nil => simp
  | cons c w' =>
    have hc : isBlank c = true := hw c (by simp)
    have hx := hup.layoutChars c (Or.inl hc)
    have hl : isAsciiLetter c = false := by rcases isBlank_cases hc with rfl | rfl | rfl <;> simp [isAsciiLetter]
    have h95 : c ≠ 95 := by rcases isBlank_cases hc with rfl | rfl | rfl <;> simp
    have hstep : step cfg st (c :: w' ++ post) = .ok ⟨[], spanLen isBlank (c :: w' ++ post), st, false⟩ := by
      rw [List.cons_append, step_consumeCharacter hb _ hx hl h95, consumeCharacter_blank cfg st _ hc]; rfl
    rw [silent_step hstep]
    have hlen : spanLen isBlank (c :: w' ++ post) = (c :: w').length + spanLen isBlank post :=
      spanLen_append_all (p := isBlank) (w := c :: w') hw post
    rw [hlen, ← List.drop_drop, List.drop_left]
    -- now: the run of `post` without its own leading blanks vs the run of `post`
    cases post with
    | nil => simp [spanLen]
    | cons d r =>
      by_cases hd : isBlank d = true
      · have hx' := hup.layoutChars d (Or.inl hd)
        have hl' : isAsciiLetter d = false := by rcases isBlank_cases hd with rfl | rfl | rfl <;> simp [isAsciiLetter]
        have h95' : d ≠ 95 := by rcases isBlank_cases hd with rfl | rfl | rfl <;> simp
        have hstep' : step cfg st (d :: r) = .ok ⟨[], spanLen isBlank (d :: r), st, false⟩ := by
          rw [step_consumeCharacter hb _ hx' hl' h95', consumeCharacter_blank cfg st _ hd]; rfl
        rw [silent_step hstep']
      · simp [spanLen, hd]

/-- a comment in front of a line end or the end of the text -/
theorem rule_commentAfter {cfg : Cfg} (hup : UpOk cfg.up) (hf : cfg.fullLexer = false) {st : LexState}
    (hb : st.atBol = false) {c : List Nat} (hc : IsComment c) {post : List Nat}
    (hp : post = [] ∨ ∃ d r, post = d :: r ∧ isLineBreak d = true) (ts : List Tok) (e : EndK) :
    RunsTo cfg st (c ++ post) ts e ↔ RunsTo cfg st post ts e := by
  obtain ⟨t, rfl, ht⟩ := hc
  have hx := hup.layoutChars 35 (by simp)
  have hlen : commentLen (35 :: t ++ post) = (35 :: t).length := by
    have h1 : ∀ c ∈ (35 :: t), (fun c => !isLineBreak c) c = true := by
      intro c hc
      rcases List.mem_cons.1 hc with rfl | h
      · simp [isLineBreak]
      · simp [ht c h]
    have h2 : spanLen (fun c => !isLineBreak c) post = 0 := by
      rcases hp with rfl | ⟨d, r, rfl, hd⟩ <;> simp [spanLen, *]
    unfold commentLen
    rw [spanLen_append_all h1, h2]; simp
  have hstep : step cfg st (35 :: t ++ post) = .ok ⟨[], (35 :: t).length, st, false⟩ := by
    rw [List.cons_append, step_consumeCharacter hb _ hx (by simp [isAsciiLetter]) (by simp),
      consumeCharacter_comment hf, ← List.cons_append, hlen]; rfl
  rw [silent_step hstep, List.drop_left]

/-- backslash + line end at a token gap, not at the end of the text -/
theorem rule_backslashJoin {cfg : Cfg} (hup : UpOk cfg.up) {st : LexState} (hb : st.atBol = false)
    {e post : List Nat} (he : IsEol e) (hn : NoFuse e post) (hp : post ≠ []) (ts : List Tok) (k : EndK) :
    RunsTo cfg st (92 :: e ++ post) ts k ↔ RunsTo cfg st post ts k := by
  have hx := hup.layoutChars 92 (by simp)
  have hstep : step cfg st (92 :: (e ++ post)) = .ok ⟨[], 1 + e.length, st, false⟩ := by
    rw [step_consumeCharacter hb _ hx (by simp [isAsciiLetter]) (by simp),
      consumeCharacter_backslash_eol cfg st he hn hp]; rfl
  rw [List.cons_append, silent_step hstep]
  have : List.drop (1 + e.length) (92 :: (e ++ post)) = post := by
    rw [Nat.add_comm]; simp
  rw [this]

/-- a line end inside brackets (default build: no `NonLogicalNewline` token) -/
theorem rule_bracketBreak {cfg : Cfg} (hup : UpOk cfg.up) (hf : cfg.fullLexer = false) {st : LexState}
    (hb : st.atBol = false) (hnest : 0 < st.nesting) {e post : List Nat} (he : IsEol e) (hn : NoFuse e post)
    (ts : List Tok) (k : EndK) :
    RunsTo cfg st (e ++ post) ts k ↔ RunsTo cfg st post ts k := by
  obtain ⟨c, r, hcr, hc⟩ := eol_cons he
  have hx := hup.layoutChars c (Or.inr (Or.inl hc))
  have hl : isAsciiLetter c = false := by rcases isLineBreak_cases hc with rfl | rfl <;> simp [isAsciiLetter]
  have h95 : c ≠ 95 := by rcases isLineBreak_cases hc with rfl | rfl <;> simp
  have hcs : e ++ post = c :: (r ++ post) := by simp [hcr]
  have hstep : step cfg st (e ++ post) = .ok ⟨[], e.length, st, false⟩ := by
    rw [hcs, step_consumeCharacter hb _ hx hl h95, consumeCharacter_eol hf st he hn hcs]
    have : st.nesting ≠ 0 := by omega
    simp [this, skip]
  rw [silent_step hstep, List.drop_left]


/-! ## `eat_indentation` -/

@[simp] theorem addTok_false (t : RelTok) (r : Except ErrRel EatOut) : EatOut.addTok false t r = r := by
  cases r <;> simp [EatOut.addTok]

def eatShift (p : Nat) : Except ErrRel EatOut → Except ErrRel EatOut
  | .ok o => .ok { o with pos := o.pos + p }
  | .error e => .error (e.shift p)

/-- the position argument of `eatIndent` is only added to positions (default build: no trivia tokens) -/
theorem eatIndent_shift (p : Nat) (l : List Nat) (k pos s t : Nat) :
    eatIndent false l k (pos + p) s t = eatShift p (eatIndent false l k pos s t) := by
  fun_induction eatIndent false l k pos s t <;>
    simp_all [eatIndent, eatShift, ErrRel.shift, Nat.add_right_comm]
  all_goals assumption

/-- skipping `k` characters of a comment already measured -/
theorem eatIndent_skip (l : List Nat) (k pos s t : Nat) (hk : k ≤ l.length) :
    eatIndent false l k pos s t = eatIndent false (l.drop k) 0 (pos + k) s t := by
  induction k generalizing l pos with
  | zero => simp
  | succ k ih =>
    cases l with
    | nil => simp at hk
    | cons c cs =>
      simp at hk
      rw [eatIndent, ih cs (pos + 1) hk]
      simp [Nat.add_assoc, Nat.add_comm 1 k]

/-- blanks in front of the rest of a line only change the indentation count (`Spec.measure`) -/
theorem eatIndent_measure (w rest : List Nat) (pos s t s' t' : Nat) (h : measure s t w = some (s', t')) :
    eatIndent false (w ++ rest) 0 pos s t = eatIndent false rest 0 (pos + w.length) s' t' := by
  fun_induction measure s t w generalizing pos <;> simp_all [eatIndent, Nat.add_assoc, Nat.add_comm 1]

/-- a comment-only remainder of a line: skipped, the count is reset -/
theorem eatIndent_comment {c : List Nat} (hc : IsComment c) {rest : List Nat}
    (hr : rest = [] ∨ ∃ d r, rest = d :: r ∧ isLineBreak d = true) (pos s t : Nat) :
    eatIndent false (c ++ rest) 0 pos s t = eatIndent false rest 0 (pos + c.length) 0 0 := by
  obtain ⟨tc, rfl, ht⟩ := hc
  have h1 : ∀ c ∈ tc, (fun c => !isLineBreak c) c = true := fun c hc => by simp [ht c hc]
  have h2 : spanLen (fun c => !isLineBreak c) rest = 0 := by
    rcases hr with rfl | ⟨d, r, rfl, hd⟩ <;> simp [spanLen, *]
  have hm : spanLen (fun c => !isLineBreak c) (tc ++ rest) = tc.length := by
    rw [spanLen_append_all h1, h2]; simp
  rw [List.cons_append, eatIndent]
  simp only [addTok_false, hm]
  rw [eatIndent_skip _ _ _ _ _ (by simp), List.drop_left]
  simp [Nat.add_assoc, Nat.add_comm 1]

/-- a line end: consumed as one, the count is reset -/
theorem eatIndent_eol {e post : List Nat} (he : IsEol e) (hn : NoFuse e post) (pos s t : Nat) :
    eatIndent false (e ++ post) 0 pos s t = eatIndent false post 0 (pos + e.length) 0 0 := by
  cases he with
  | lf => simp [eatIndent]
  | crlf => simp [eatIndent]
  | cr =>
    have := hn rfl
    cases post with
    | nil => simp [eatIndent]
    | cons d r =>
      have hd : d ≠ 10 := by simpa using this
      simp [eatIndent, hd]


/-- `eat_indentation` never counts more blanks than it has consumed -/
theorem eatIndent_bound (l : List Nat) (k pos s t : Nat) (o : EatOut)
    (h : eatIndent false l k pos s t = .ok o) (hb : s + t ≤ pos) : o.spaces + o.tabs ≤ o.pos := by
  fun_induction eatIndent false l k pos s t <;> simp_all
  all_goals (try subst h)
  all_goals (try simp)
  all_goals omega

/-- default build: `eat_indentation` emits no token -/
theorem eatIndent_toks (l : List Nat) (k pos s t : Nat) (o : EatOut)
    (h : eatIndent false l k pos s t = .ok o) : o.toks = [] := by
  fun_induction eatIndent false l k pos s t <;> simp_all
  all_goals (try subst h)
  all_goals (try simp)

def errShift (L : Nat) {α} : Except ErrRel α → Except ErrRel α
  | .ok a => .ok a
  | .error e => .error (e.shift L)

theorem dedentLoop_shift (L : Nat) (level : IndentLevel) (pos : Nat) (stack : List IndentLevel) :
    dedentLoop level (pos + L) stack = errShift L (dedentLoop level pos stack) := by
  fun_induction dedentLoop level pos stack <;> simp_all [dedentLoop, errShift, ErrRel.shift, panicErr]
  all_goals (split <;> simp_all [errShift, ErrRel.shift])

def hiShift (L : Nat) : Except ErrRel (List RelTok × Nat × LexState) → Except ErrRel (List RelTok × Nat × LexState)
  | .ok (toks, p, st) => .ok (toks.map (·.shift L), p + L, st)
  | .error e => .error (e.shift L)

/-- `handle_indentations` in front of a line whose blank prefix `line` is transparent to `eat_indentation` -/
theorem handleIndentations_prefix {cfg : Cfg} (hf : cfg.fullLexer = false) (st : LexState) (line post : List Nat)
    (h : eatIndent false (line ++ post) 0 0 0 0 = eatIndent false post 0 line.length 0 0) :
    handleIndentations cfg st (line ++ post) = hiShift line.length (handleIndentations cfg st post) := by
  have hs := eatIndent_shift line.length post 0 0 0 0
  rw [Nat.zero_add] at hs
  unfold handleIndentations
  rw [hf, h, hs]
  cases hE : eatIndent false post 0 0 0 0 with
  | error e => simp [eatShift, hiShift]
  | ok o =>
    have hbnd := eatIndent_bound post 0 0 0 0 o hE (by simp)
    have htk := eatIndent_toks post 0 0 0 0 o hE
    simp only [eatShift]
    by_cases hn : st.nesting ≠ 0
    · simp [hn, hiShift, htk]
    · have hn0 : st.nesting = 0 := by omega
      simp only [hn0, ne_eq, not_true_eq_false, ↓reduceIte]
      cases hst : st.indents with
      | nil => simp [hiShift, panicErr, ErrRel.shift]
      | cons cur rest =>
        simp only []
        cases hcmp : compareStrict ⟨o.tabs, o.spaces⟩ cur with
        | none => simp [hiShift, ErrRel.shift]
        | some ord =>
          cases ord with
          | eq => simp [hiShift, htk]
          | gt =>
            have h1 : o.spaces + o.tabs ≤ o.pos + line.length := by omega
            simp [hiShift, hbnd, h1, RelTok.shift, htk]
            omega
          | lt =>
            rw [dedentLoop_shift]
            cases dedentLoop ⟨o.tabs, o.spaces⟩ o.pos (cur :: rest) with
            | error e => simp [errShift, hiShift]
            | ok r => simp [errShift, hiShift, RelTok.shift, htk]


def stepShift (L : Nat) : Except ErrRel StepOut → Except ErrRel StepOut
  | .ok o => .ok { o with toks := o.toks.map (·.shift L), consumed := o.consumed + L }
  | .error e => .error (e.shift L)

theorem drop_add_append (p : Nat) (line post : List Nat) :
    (line ++ post).drop (p + line.length) = post.drop p := by
  rw [Nat.add_comm, ← List.drop_drop, List.drop_left]

/-- at the beginning of a line, a prefix that `eat_indentation` sees through only shifts the step -/
theorem step_prefix {cfg : Cfg} (hf : cfg.fullLexer = false) {st : LexState} (hb : st.atBol = true)
    (line post : List Nat)
    (h : eatIndent false (line ++ post) 0 0 0 0 = eatIndent false post 0 line.length 0 0) :
    step cfg st (line ++ post) = stepShift line.length (step cfg st post) := by
  have hh := handleIndentations_prefix hf st line post h
  unfold step
  simp only [hb, ↓reduceIte, hh]
  cases handleIndentations cfg st post with
  | error e => simp [hiShift, stepShift]
  | ok r =>
    obtain ⟨toks1, p, st1⟩ := r
    simp only [hiShift, drop_add_append]
    cases consumeNormal cfg st1 (post.drop p) with
    | error e => simp [stepShift, ErrRel.shift, Nat.add_assoc]
    | ok o =>
      simp [stepShift, RelTok.shift, Nat.add_assoc, Nat.add_comm, Nat.add_left_comm, Function.comp_def]

/-- a shifted step gives the same run -/
theorem runsTo_of_stepShift {cfg : Cfg} {st : LexState} {x y : List Nat} {L : Nat}
    (h : step cfg st x = stepShift L (step cfg st y)) (hd : ∀ n, x.drop (n + L) = y.drop n)
    (ts : List Tok) (e : EndK) : RunsTo cfg st x ts e ↔ RunsTo cfg st y ts e := by
  cases hy : step cfg st y with
  | error er =>
    have hx : step cfg st x = .error (er.shift L) := by rw [h, hy]; rfl
    constructor
    · intro r; cases r with
      | err g => rw [hx] at g; cases g; simpa [ErrRel.shift] using RunsTo.err hy
      | done g _ => rw [hx] at g; cases g
      | more g _ _ => rw [hx] at g; cases g
    · intro r; cases r with
      | err g => rw [hy] at g; cases g; simpa [ErrRel.shift] using RunsTo.err hx
      | done g _ => rw [hy] at g; cases g
      | more g _ _ => rw [hy] at g; cases g
  | ok o =>
    have hx : step cfg st x = .ok { o with toks := o.toks.map (·.shift L), consumed := o.consumed + L } := by
      rw [h, hy]; rfl
    have htoks : (o.toks.map (·.shift L)).map (·.tok) = o.toks.map (·.tok) := by
      simp [Function.comp_def, RelTok.shift]
    constructor
    · intro r; cases r with
      | err g => rw [hx] at g; cases g
      | done g gd => rw [hx] at g; cases g; rw [htoks]; exact RunsTo.done hy gd
      | more g gd g3 =>
        rw [hx] at g; cases g; rw [htoks]
        refine RunsTo.more hy gd ?_
        simpa [hd] using g3
    · intro r; cases r with
      | err g => rw [hy] at g; cases g
      | done g gd =>
        rw [hy] at g; cases g
        have := RunsTo.done hx gd
        simpa [htoks] using this
      | more g gd g3 =>
        rw [hy] at g; cases g
        have := RunsTo.more hx gd (by simpa [hd] using g3)
        simpa [htoks] using this

/-- suffix form of the line-start rules -/
theorem rule_linePrefix {cfg : Cfg} (hf : cfg.fullLexer = false) {st : LexState} (hb : st.atBol = true)
    (line post : List Nat)
    (h : eatIndent false (line ++ post) 0 0 0 0 = eatIndent false post 0 line.length 0 0)
    (ts : List Tok) (e : EndK) : RunsTo cfg st (line ++ post) ts e ↔ RunsTo cfg st post ts e :=
  runsTo_of_stepShift (step_prefix hf hb line post h) (fun n => drop_add_append n line post) ts e

/-- a blank or comment-only line in front of the rest is invisible to `eat_indentation` -/
theorem eatIndent_blankLine {w c e post : List Nat} (hw : BolBlank w) (hc : c = [] ∨ IsComment c)
    (he : IsEol e) (hn : NoFuse e post) :
    eatIndent false ((w ++ c ++ e) ++ post) 0 0 0 0 = eatIndent false post 0 (w ++ c ++ e).length 0 0 := by
  obtain ⟨⟨s', t'⟩, hm⟩ := Option.isSome_iff_exists.1 hw
  obtain ⟨d, r, hdr, hd⟩ := eol_cons he
  rw [List.append_assoc, List.append_assoc, eatIndent_measure w _ 0 0 0 s' t' hm]
  rcases hc with rfl | hc
  · rw [List.nil_append, eatIndent_eol he hn]; simp [Nat.add_assoc]
  · rw [eatIndent_comment hc (Or.inr ⟨d, r ++ post, by simp [hdr], hd⟩), eatIndent_eol he hn]
    simp [Nat.add_assoc]


theorem measure_snoc_ff (w : List Nat) (s t : Nat) (h : (measure s t w).isSome) :
    measure s t (w ++ [12]) = some (0, 0) := by
  fun_induction measure s t w <;> simp_all [measure]

/-- blanks + form feed in front of a line's own indentation -/
theorem eatIndent_formFeed {w post : List Nat} (hw : BolBlank w) :
    eatIndent false ((w ++ [12]) ++ post) 0 0 0 0 = eatIndent false post 0 (w ++ [12]).length 0 0 := by
  have := eatIndent_measure (w ++ [12]) post 0 0 0 0 0 (measure_snoc_ff w 0 0 hw)
  simpa using this

/-- a last line of blanks and possibly a comment, without line end -/
theorem eatIndent_blankTail {w c : List Nat} (hw : BolBlank w) (hc : c = [] ∨ IsComment c) :
    eatIndent false ((w ++ c) ++ []) 0 0 0 0 = eatIndent false [] 0 (w ++ c).length 0 0 := by
  obtain ⟨⟨s', t'⟩, hm⟩ := Option.isSome_iff_exists.1 hw
  rw [List.append_assoc, eatIndent_measure w _ 0 0 0 s' t' hm]
  rcases hc with rfl | hc
  · simp [eatIndent]
  · rw [eatIndent_comment hc (Or.inl rfl)]; simp

/-! ## the soft-keyword pass reads tokens only -/

def zeroSpan (t : Spanned) : Spanned := ⟨t.tok, 0, 0, 0, 0⟩

theorem matchCaseLook_zero (l : List Spanned) (n : Int) (f sc sl : Bool) :
    matchCaseLook (l.map zeroSpan) n f sc sl = matchCaseLook l n f sc sl := by
  fun_induction matchCaseLook l n f sc sl <;> simp_all [matchCaseLook, zeroSpan]

theorem typeLoop_zero (l : List Spanned) (n : Int) : typeLoop (l.map zeroSpan) n = typeLoop l n := by
  fun_induction typeLoop l n <;> simp_all [typeLoop, zeroSpan]
  all_goals (intro h; omega)

theorem typeLook_zero (l : List Spanned) : typeLook (l.map zeroSpan) = typeLook l := by
  cases l with
  | nil => simp [typeLook]
  | cons t ts =>
    have := typeLoop_zero ts 0
    simp only [List.map_cons, typeLook]
    cases ht : t.tok <;> simp_all [zeroSpan]

theorem softTok_zero (sol sos : Bool) (t : Spanned) (ts : List Spanned) :
    softTok sol sos (zeroSpan t) (ts.map zeroSpan) = softTok sol sos t ts := by
  have h1 := matchCaseLook_zero ts 0 true false false
  have h2 := typeLook_zero ts
  simp only [softTok]
  simp [zeroSpan] at h1 h2 ⊢
  split <;> simp_all

theorem softKwGo_zero (l : List Spanned) (st : SoftSt) :
    (softKwGo (l.map zeroSpan) st).map (·.tok) = (softKwGo l st).map (·.tok) := by
  induction l generalizing st with
  | nil => simp [softKwGo]
  | cons t ts ih =>
    simp only [List.map_cons, softKwGo, softTok_zero]
    simp [ih]

/-- the soft-keyword pass, ranges erased, is a function of the range-erased input -/
theorem softKw_erased (mode : Mode) {l l' : List Spanned} (h : l.map (·.tok) = l'.map (·.tok)) :
    (softKw mode l).map (·.tok) = (softKw mode l').map (·.tok) := by
  have hz : l.map zeroSpan = l'.map zeroSpan := by
    have : ∀ m : List Spanned, m.map zeroSpan = (m.map (·.tok)).map (fun t => ⟨t, 0, 0, 0, 0⟩) := by
      intro m; simp [zeroSpan, Function.comp_def]
    rw [this l, this l', h]
  unfold softKw
  rw [← softKwGo_zero l, ← softKwGo_zero l', hz]


/-! ## whole texts -/

/-- the run of the lexer on a whole text (after the BOM skip of `Lexer::new`), fuel-free, ranges erased -/
def LexRun (cfg : Cfg) (src : List Nat) (ts : List Tok) (e : EndK) : Prop :=
  match src with
  | 0xFEFF :: rest => RunsTo cfg .init rest ts e
  | _ => RunsTo cfg .init src ts e

theorem LexRun_noBom {cfg : Cfg} {src : List Nat} (h : src.head? ≠ some 0xFEFF) (ts e) :
    LexRun cfg src ts e ↔ RunsTo cfg .init src ts e := by
  unfold LexRun
  split
  · simp at h
  · rfl

/-- `lexRawFuel` before its overflow / panic filter -/
def lexCore (cfg : Cfg) (fuel start : Nat) (src : List Nat) : LexOut :=
  match src with
  | 0xFEFF :: rest => lexAll cfg fuel .init rest 1 (start + 3)
  | _ => lexAll cfg fuel .init src 0 start

theorem lexCore_bom (cfg : Cfg) (fuel start : Nat) (rest : List Nat) :
    lexCore cfg fuel start (0xFEFF :: rest) = lexAll cfg fuel .init rest 1 (start + 3) := rfl

theorem lexCore_noBom (cfg : Cfg) (fuel start : Nat) {src : List Nat} (h : src.head? ≠ some 0xFEFF) :
    lexCore cfg fuel start src = lexAll cfg fuel .init src 0 start := by
  unfold lexCore
  split
  · simp at h
  · rfl

theorem panicFilter (A : LexOut) :
    (if A.reachedB > u32Max then none
      else match A.fin with
        | .err .panic _ _ => none
        | _ => some A) =
    if A.reachedB > u32Max then none else if eraseEnd A.fin = .err .panic then none else some A := by
  by_cases ho : A.reachedB > u32Max
  · simp [ho]
  · simp only [ho, ↓reduceIte]
    cases hA : A.fin with
    | eof => simp [eraseEnd]
    | outOfFuel => simp [eraseEnd]
    | err k c b => cases k <;> simp [eraseEnd]

theorem lexRawFuel_eq (cfg : Cfg) (fuel start : Nat) (src : List Nat) :
    lexRawFuel cfg fuel start src =
      (if (lexCore cfg fuel start src).reachedB > u32Max then none
       else if eraseEnd (lexCore cfg fuel start src).fin = .err .panic then none
       else some (lexCore cfg fuel start src)) := by
  by_cases h : src.head? = some 0xFEFF
  · obtain ⟨rest, rfl⟩ : ∃ rest, src = 0xFEFF :: rest := by
      cases src with
      | nil => simp at h
      | cons c r => exact ⟨r, by simp at h; rw [h]⟩
    rw [lexCore_bom, ← panicFilter]
    rfl
  · rw [lexCore_noBom cfg fuel start h, ← panicFilter]
    unfold lexRawFuel
    split
    · simp at h
    · rfl

theorem lexCore_run (cfg : Cfg) (fuel start : Nat) (src : List Nat)
    (h : (lexCore cfg fuel start src).fin ≠ .outOfFuel) :
    LexRun cfg src (eraseOut (lexCore cfg fuel start src)).1 (eraseOut (lexCore cfg fuel start src)).2 := by
  by_cases hb : src.head? = some 0xFEFF
  · obtain ⟨rest, rfl⟩ : ∃ rest, src = 0xFEFF :: rest := by
      cases src with
      | nil => simp at hb
      | cons c r => exact ⟨r, by simp at hb; rw [hb]⟩
    exact lexAll_runsTo cfg fuel _ _ _ _ h
  · rw [LexRun_noBom hb]
    rw [lexCore_noBom cfg fuel start hb] at h ⊢
    exact lexAll_runsTo cfg fuel _ _ _ _ h


/-! ## termination and size (from the step contract `PV.Lexer.step_ok` of the C05 builder) -/

theorem lexAll_fuel {cfg : Cfg} (hs : cfg.up.Sane) : ∀ (fuel : Nat) (st : LexState) (inp : List Nat) (cb bb : Nat),
    StInv st → inp.length < fuel → (lexAll cfg fuel st inp cb bb).fin ≠ .outOfFuel := by
  intro fuel
  induction fuel with
  | zero => intro st inp cb bb _ h; omega
  | succ f ih =>
    intro st inp cb bb hi hl
    unfold lexAll
    split
    · simp
    · rename_i o ho
      obtain ⟨h1, h2, _, h4, _⟩ := step_ok hs hi ho
      by_cases hd : o.done = true
      · simp [hd]
      · have hd' : o.done = false := by simpa using hd
        have := h2 hd'
        simp only [hd, Bool.false_eq_true, ↓reduceIte]
        exact ih _ _ _ _ h4 (by simp; omega)

theorem utf8Len_append (a b : List Nat) : utf8Len (a ++ b) = utf8Len a + utf8Len b := by
  induction a with
  | nil => simp [utf8Len]
  | cons c a ih => simp [utf8Len, ih, Nat.add_assoc]

theorem utf8Len_take_add_drop (n : Nat) (l : List Nat) : utf8Len (l.take n) + utf8Len (l.drop n) = utf8Len l := by
  rw [← utf8Len_append, List.take_append_drop]

theorem lexAll_reached {cfg : Cfg} (hs : cfg.up.Sane) : ∀ (fuel : Nat) (st : LexState) (inp : List Nat) (cb bb : Nat),
    StInv st → (lexAll cfg fuel st inp cb bb).reachedB ≤ bb + utf8Len inp := by
  intro fuel
  induction fuel with
  | zero => intro st inp cb bb _; simp [lexAll]
  | succ f ih =>
    intro st inp cb bb hi
    unfold lexAll
    split
    · rename_i e he
      have := utf8Len_take_add_drop e.reached inp
      simp; omega
    · rename_i o ho
      obtain ⟨h1, h2, _, h4, _⟩ := step_ok hs hi ho
      have hh := utf8Len_take_add_drop o.consumed inp
      by_cases hd : o.done = true
      · simp [hd]; omega
      · simp only [hd, Bool.false_eq_true, ↓reduceIte]
        have := ih o.st (inp.drop o.consumed) (cb + o.consumed) (bb + utf8Len (inp.take o.consumed)) h4
        omega

/-- the lexer terminates within `length + 1` steps and never reports a position beyond the text -/
theorem lexCore_regular {cfg : Cfg} (hs : cfg.up.Sane) (start : Nat) (src : List Nat) :
    (lexCore cfg (src.length + 1) start src).fin ≠ .outOfFuel ∧
    (lexCore cfg (src.length + 1) start src).reachedB ≤ start + utf8Len src := by
  by_cases hb : src.head? = some 0xFEFF
  · obtain ⟨rest, rfl⟩ : ∃ rest, src = 0xFEFF :: rest := by
      cases src with
      | nil => simp at hb
      | cons c r => exact ⟨r, by simp at hb; rw [hb]⟩
    rw [lexCore_bom]
    refine ⟨lexAll_fuel hs _ _ _ _ _ stInv_init (by simp; omega), ?_⟩
    have := lexAll_reached hs (rest.length + 1 + 1) .init rest 1 (start + 3) stInv_init
    simp [utf8Len, csize] at this ⊢
    omega
  · rw [lexCore_noBom cfg _ start hb]
    exact ⟨lexAll_fuel hs _ _ _ _ _ stInv_init (by simp), lexAll_reached hs _ _ _ _ _ stInv_init⟩


/-- CR/CRLF folding leaves the run unchanged (proved by the folding walk) -/
def EolInv (cfg : Cfg) : Prop :=
  ∀ st x ts e, RunsTo cfg st x ts e ↔ RunsTo cfg st (foldEol x) ts e

theorem foldEol_bom (r : List Nat) : foldEol (0xFEFF :: r) = 0xFEFF :: foldEol r := by
  rw [foldEol.eq_def]; simp

theorem foldEol_head_bom {a : List Nat} (h : (foldEol a).head? = some 0xFEFF) : ∃ r, a = 0xFEFF :: r := by
  rw [foldEol.eq_def] at h
  split at h <;> simp_all

theorem LexRun.det {cfg : Cfg} {src ts e ts' e'} (h : LexRun cfg src ts e) (h' : LexRun cfg src ts' e') :
    ts = ts' ∧ e = e' := by
  by_cases hb : src.head? = some 0xFEFF
  · obtain ⟨rest, rfl⟩ : ∃ rest, src = 0xFEFF :: rest := by
      cases src with
      | nil => simp at hb
      | cons c r => exact ⟨r, by simp at hb; rw [hb]⟩
    exact RunsTo.det h h'
  · rw [LexRun_noBom hb] at h h'
    exact RunsTo.det h h'

/-- from equal runs to equal `lex` results (ranges erased), for texts whose end offset fits `u32` -/
theorem lex_eq_of_runs {cfg : Cfg} (hs : cfg.up.Sane) {a b : List Nat}
    (h : ∀ ts e, LexRun cfg a ts e ↔ LexRun cfg b ts e) (mode : Mode) (start : Nat)
    (ha : start + utf8Len a ≤ u32Max) (hb : start + utf8Len b ≤ u32Max) :
    eraseRanges (lex cfg mode start a) = eraseRanges (lex cfg mode start b) := by
  obtain ⟨fa, ra⟩ := lexCore_regular hs start a
  obtain ⟨fb, rb⟩ := lexCore_regular hs start b
  have hA := lexCore_run cfg _ start a fa
  have hB := lexCore_run cfg _ start b fb
  obtain ⟨ht, he⟩ := LexRun.det ((h _ _).1 hA) hB
  have oa : ¬ (lexCore cfg (a.length + 1) start a).reachedB > u32Max := by omega
  have ob : ¬ (lexCore cfg (b.length + 1) start b).reachedB > u32Max := by omega
  unfold lex lexRaw
  rw [lexRawFuel_eq, lexRawFuel_eq]
  simp only [oa, ob, ↓reduceIte]
  simp only [eraseOut] at ht he
  generalize lexCore cfg (a.length + 1) start a = A at *
  generalize lexCore cfg (b.length + 1) start b = B at *
  have hsk := softKw_erased mode ht
  rw [he]
  by_cases hp : eraseEnd B.fin = .err .panic
  · simp [hp, eraseRanges]
  · simp [hp, eraseRanges, eraseOut, hsk, he]

end PV.C08
