import PV.C08.Lemmas
/-
  PV.C08.Fold — the CR/CRLF folding walk: every function of the lexer model gives the same answer (tokens,
  state, error kind) on a text and on its universal-newline normal form `foldEol`, and the remaining inputs stay
  aligned.  Result: `eolInv : EolInv cfg`.
-/
namespace PV.C08
open PV.Lexer

/-! ## the CR/CRLF folding walk: every function of the model gives the same answer on `foldEol inp` -/

@[simp] theorem foldEol_nil : foldEol [] = [] := by simp [foldEol]

theorem foldEol_cons_ne {c : Nat} (h : c ≠ 13) (r : List Nat) : foldEol (c :: r) = c :: foldEol r := by
  rw [foldEol.eq_def]
  split <;> simp_all

@[simp] theorem foldEol_crlf (r : List Nat) : foldEol (13 :: 10 :: r) = 10 :: foldEol r := by
  simp [foldEol]

theorem foldEol_cr {r : List Nat} (h : r.head? ≠ some 10) : foldEol (13 :: r) = 10 :: foldEol r := by
  rw [foldEol.eq_def]
  split <;> simp_all

@[simp] theorem foldEol_lf (r : List Nat) : foldEol (10 :: r) = 10 :: foldEol r := foldEol_cons_ne (by decide) r

/-- a line break at the head stays a line break (LF) at the head -/
theorem foldEol_break_head {d : Nat} (hd : isLineBreak d = true) (r : List Nat) :
    ∃ r', foldEol (d :: r) = 10 :: r' := by
  rcases isLineBreak_cases hd with rfl | rfl
  · exact ⟨_, foldEol_lf r⟩
  · rw [foldEol.eq_def]; split <;> simp_all

/-- a character other than LF / CR at the head of the folded text is at the head of the text -/
theorem foldEol_eq_cons {k : Nat} (h10 : k ≠ 10) (h13 : k ≠ 13) (l x : List Nat) :
    foldEol l = k :: x ↔ ∃ y, l = k :: y ∧ x = foldEol y := by
  constructor
  · intro h
    rw [foldEol.eq_def] at h
    split at h <;> simp_all
  · rintro ⟨y, rfl, rfl⟩
    exact foldEol_cons_ne h13 y

theorem foldEol_eq_nil {l : List Nat} : foldEol l = [] ↔ l = [] := by
  constructor
  · intro h; rw [foldEol.eq_def] at h; split at h <;> simp_all
  · rintro rfl; simp

/-- the head of the folded text: the head of the text with CR read as LF -/
theorem foldEol_head (l : List Nat) : (foldEol l).head? = l.head?.map (fun c => if c = 13 then 10 else c) := by
  rw [foldEol.eq_def]; split <;> simp_all

theorem foldEol_head_eq {k : Nat} (h10 : k ≠ 10) (h13 : k ≠ 13) (l : List Nat) :
    (foldEol l).head? = some k ↔ l.head? = some k := by
  rw [foldEol_head]
  cases l with
  | nil => simp
  | cons c r =>
    simp only [List.head?_cons, Option.map_some, Option.some.injEq]
    by_cases hc : c = 13 <;> simp [hc] <;> omega

theorem foldEol_append_noBreak {x : List Nat} (hx : NoBreak x) (r : List Nat) :
    foldEol (x ++ r) = x ++ foldEol r := by
  induction x with
  | nil => simp
  | cons c x ih =>
    have hc : c ≠ 13 := by
      intro h; have := hx c (by simp); simp [h, isLineBreak] at this
    rw [List.cons_append, foldEol_cons_ne hc, ih (fun d hd => hx d (by simp [hd]))]
    simp

theorem isDigitOf_10 (r : Nat) : isDigitOf r 10 = false := by
  unfold isDigitOf; split <;> simp [isDigit]
theorem isDigitOf_13 (r : Nat) : isDigitOf r 13 = false := by
  unfold isDigitOf; split <;> simp [isDigit]

/-- `radix_run` stops in front of a line break, whichever -/
theorem radixRun_fold (radix : Nat) (l : List Nat) : radixRun radix (foldEol l) = radixRun radix l := by
  induction l with
  | nil => simp
  | cons c cs ih =>
    by_cases hc : c = 13
    · subst hc
      obtain ⟨r', hr⟩ := foldEol_break_head (d := 13) (by decide) cs
      rw [hr]; simp [radixRun, isDigitOf_10, isDigitOf_13]
    · rw [foldEol_cons_ne hc]
      unfold radixRun
      rw [ih]
      by_cases hd : isDigitOf radix c = true
      · simp [hd]
      · simp only [hd, Bool.false_eq_true, ↓reduceIte]
        by_cases h95 : c = 95
        · simp only [h95, ↓reduceIte]
          cases cs with
          | nil => simp
          | cons d ds =>
            by_cases hd13 : d = 13
            · subst hd13
              obtain ⟨r', hr⟩ := foldEol_break_head (d := 13) (by decide) ds
              rw [hr]; simp [isDigitOf_10, isDigitOf_13]
            · rw [foldEol_cons_ne hd13]
        · simp [h95]


theorem isDigitOf_break {d : Nat} (hd : isLineBreak d = true) (r : Nat) : isDigitOf r d = false := by
  rcases isLineBreak_cases hd with rfl | rfl
  · exact isDigitOf_10 r
  · exact isDigitOf_13 r

/-! ### numbers: the number lexer does not look past a line break and does not tell line breaks apart.
    Inputs are written `x ++ d :: r` with `d` a line break; the normal form is `x ++ [10]`. -/

theorem radixRun_brk (radix : Nat) (x : List Nat) {d : Nat} (hd : isLineBreak d = true) (r : List Nat) :
    radixRun radix (x ++ d :: r) = radixRun radix (x ++ [10]) ∧ (radixRun radix (x ++ [10])).2 ≤ x.length := by
  induction x with
  | nil =>
    have h95 : d ≠ 95 := by rcases isLineBreak_cases hd with rfl | rfl <;> decide
    simp [radixRun, isDigitOf_break hd, isDigitOf_10, h95]
  | cons c x ih =>
    obtain ⟨ih1, ih2⟩ := ih
    simp only [List.cons_append]
    unfold radixRun
    rw [ih1]
    by_cases hc : isDigitOf radix c = true
    · simp [hc]; omega
    · simp only [hc, Bool.false_eq_true, ↓reduceIte]
      by_cases h95 : c = 95
      · simp only [h95, ↓reduceIte]
        cases x with
        | nil => simp [isDigitOf_break hd, isDigitOf_10]
        | cons e x' =>
          simp only [List.cons_append] at ih2 ⊢
          refine ⟨trivial, ?_⟩
          split <;> simp_all <;> omega
      · simp [h95]


theorem isDigit_break {d : Nat} (hd : isLineBreak d = true) : isDigit d = false := by
  rcases isLineBreak_cases hd with rfl | rfl <;> decide

theorem atExponent_brk (x : List Nat) {d : Nat} (hd : isLineBreak d = true) (r : List Nat) :
    atExponent (x ++ d :: r) = atExponent (x ++ [10]) := by
  rcases isLineBreak_cases hd with rfl | rfl <;>
    rcases x with _ | ⟨e, _ | ⟨s, _ | ⟨t, x'⟩⟩⟩ <;>
    rcases r with _ | ⟨a, _ | ⟨b, r⟩⟩ <;> simp [atExponent, isDigit]

theorem head?_brk_ne (x : List Nat) {d : Nat} (hd : isLineBreak d = true) (r : List Nat) {k : Nat}
    (hk : k ≠ 10) (hk' : k ≠ 13) : ((x ++ d :: r).head? = some k) = ((x ++ [10]).head? = some k) := by
  cases x with
  | nil => rcases isLineBreak_cases hd with rfl | rfl <;> simp <;> omega
  | cons c x => simp

theorem head?_brk_dec (x : List Nat) {d : Nat} (hd : isLineBreak d = true) (r : List Nat) {k : Nat}
    (hk : k ≠ 10) (hk' : k ≠ 13) :
    decide ((x ++ d :: r).head? = some k) = decide ((x ++ [10]).head? = some k) := by
  simp only [head?_brk_ne x hd r hk hk']

theorem fracPart_brk (v : List Nat) (n : Nat) (x : List Nat) {d : Nat} (hd : isLineBreak d = true) (r : List Nat) :
    fracPart v n (x ++ d :: r) = fracPart v n (x ++ [10]) ∧
    (∀ v' n', fracPart v n (x ++ [10]) = .ok (v', n') → n' ≤ n + x.length) := by
  cases x with
  | nil =>
    have : d ≠ 46 := by rcases isLineBreak_cases hd with rfl | rfl <;> decide
    simp only [List.nil_append]
    unfold fracPart
    constructor
    · split <;> simp_all
    · intro v' n' h; simp at h; omega
  | cons c x =>
    simp only [List.cons_append]
    unfold fracPart
    by_cases hc : c = 46
    · subst hc
      obtain ⟨r1, r2⟩ := radixRun_brk 10 x hd r
      simp only [r1, head?_brk_ne x hd r (show (95:Nat) ≠ 10 by decide) (by decide)]
      refine ⟨trivial, ?_⟩
      intro v' n' h
      split at h <;> simp at h
      obtain ⟨_, rfl⟩ := h
      simp; omega
    · constructor
      · split <;> simp_all
      · intro v' n' h
        split at h
        · simp_all
        · simp at h; omega


theorem expPart_brk (v : List Nat) (n : Nat) (x : List Nat) {d : Nat} (hd : isLineBreak d = true) (r : List Nat) :
    expPart v n (x ++ d :: r) = expPart v n (x ++ [10]) ∧
    (∀ v' n', expPart v n (x ++ [10]) = .ok (v', n') → n' ≤ n + x.length) := by
  have hdE : ¬ (d = 101 ∨ d = 69) := by rcases isLineBreak_cases hd with rfl | rfl <;> decide
  have hdS : ¬ (d = 45 ∨ d = 43) := by rcases isLineBreak_cases hd with rfl | rfl <;> decide
  have h95 := fun y => head?_brk_ne y hd r (show (95:Nat) ≠ 10 by decide) (by decide)
  cases x with
  | nil =>
    simp only [List.nil_append]
    unfold expPart
    simp [hdE]
  | cons c x =>
    simp only [List.cons_append]
    unfold expPart
    by_cases hc : (c = 101 ∨ c = 69)
    · simp only [Bool.or_eq_true, decide_eq_true_eq, hc, ↓reduceIte, h95 x]
      by_cases hu : (x ++ [10]).head? = some 95
      · simp [hu]
      · simp only [hu, ↓reduceIte]
        cases x with
        | nil =>
          simp only [List.nil_append]
          obtain ⟨r1, r2⟩ := radixRun_brk 10 [] hd r
          simp only [List.nil_append, List.length_nil, Nat.le_zero_eq] at r1 r2
          simp [hdS, r1, r2]
        | cons s x' =>
          simp only [List.cons_append]
          by_cases hs : (s = 45 ∨ s = 43)
          · obtain ⟨r1, r2⟩ := radixRun_brk 10 x' hd r
            simp only [Bool.or_eq_true, decide_eq_true_eq, hs, ↓reduceIte, h95 x', r1]
            refine ⟨trivial, ?_⟩
            intro v' n' h
            split at h <;> simp at h
            obtain ⟨_, rfl⟩ := h
            simp; omega
          · obtain ⟨r1, r2⟩ := radixRun_brk 10 (s :: x') hd r
            simp only [List.cons_append] at r1 r2
            simp only [Bool.or_eq_true, decide_eq_true_eq, hs, ↓reduceIte, r1]
            refine ⟨trivial, ?_⟩
            intro v' n' h
            simp at h
            obtain ⟨_, rfl⟩ := h
            simp at r2 ⊢; omega
    · simp [hc]


theorem drop_brk {x : List Nat} {n : Nat} (h : n ≤ x.length) (t : List Nat) :
    (x ++ t).drop n = x.drop n ++ t := List.drop_append_of_le_length h

theorem isJ_break {d : Nat} (hd : isLineBreak d = true) : isJ d = false := by
  rcases isLineBreak_cases hd with rfl | rfl <;> decide

/-- the character after a number: `j` / `J` or not -/
theorem jTail_brk (x : List Nat) {d : Nat} (hd : isLineBreak d = true) (r : List Nat) {α} (f g : α) :
    (match x ++ d :: r with | c :: _ => if isJ c then f else g | [] => g) =
    (match x ++ [10] with | c :: _ => if isJ c then f else g | [] => g) ∧
    ((match x ++ [10] with | c :: _ => isJ c | [] => false) = true → 1 ≤ x.length) := by
  cases x with
  | nil =>
    have := isJ_break hd
    have h10 : isJ 10 = false := by decide
    simp [this, h10]
  | cons c x => simp

theorem floatTail_brk (x : List Nat) {d : Nat} (hd : isLineBreak d = true) (r : List Nat) (v1 : List Nat)
    (n1 : Nat) (h1 : n1 ≤ x.length) :
    floatTail (x ++ d :: r) v1 n1 = floatTail (x ++ [10]) v1 n1 ∧
    (∀ tok n, floatTail (x ++ [10]) v1 n1 = .ok (tok, n) → n ≤ x.length) := by
  unfold floatTail
  rw [drop_brk h1, drop_brk h1]
  obtain ⟨f1, f2⟩ := fracPart_brk v1 n1 (x.drop n1) hd r
  rw [f1]
  cases hf : fracPart v1 n1 (x.drop n1 ++ [10]) with
  | error e => simp
  | ok p =>
    obtain ⟨v2, n2⟩ := p
    have hn2 : n2 ≤ x.length := by have := f2 v2 n2 hf; simp at this; omega
    simp only []
    rw [drop_brk hn2, drop_brk hn2]
    obtain ⟨e1, e2⟩ := expPart_brk v2 n2 (x.drop n2) hd r
    rw [e1]
    cases he : expPart v2 n2 (x.drop n2 ++ [10]) with
    | error e => simp
    | ok p =>
      obtain ⟨v3, n3⟩ := p
      have hn3 : n3 ≤ x.length := by have := e2 v3 n3 he; simp at this; omega
      simp only []
      rw [drop_brk hn3, drop_brk hn3]
      by_cases hok : floatTextOk v3 = true
      · simp only [hok, Bool.not_true, Bool.false_eq_true, ↓reduceIte]
        obtain ⟨j1, j2⟩ := jTail_brk (x.drop n3) hd r (Except.ok (Tok.complex v3, n3 + 1) : Sub) (Except.ok (Tok.float v3, n3))
        refine ⟨j1, ?_⟩
        intro tok n h
        cases hx : x.drop n3 with
        | nil => simp [hx, isJ] at h; omega
        | cons c x' =>
          have hlen : 1 ≤ (x.drop n3).length := by simp [hx]
          simp at hlen
          simp [hx] at h
          split at h <;> simp at h <;> omega
      · simp [hok]


theorem intTok_n {z : Bool} {ds : List Nat} {n : Nat} {tok : Tok} {m : Nat} (h : intTok z ds n = .ok (tok, m)) :
    m = n := by
  unfold intTok at h
  split at h
  · simp at h
  · split at h <;> simp at h; exact h.2.symm

theorem intTail_brk (x : List Nat) {d : Nat} (hd : isLineBreak d = true) (r : List Nat) (z : Bool) (v1 : List Nat)
    (n1 : Nat) (h1 : n1 ≤ x.length) :
    intTail (x ++ d :: r) z v1 n1 = intTail (x ++ [10]) z v1 n1 ∧
    (∀ tok n, intTail (x ++ [10]) z v1 n1 = .ok (tok, n) → n ≤ x.length) := by
  unfold intTail
  rw [drop_brk h1, drop_brk h1]
  cases hx : x.drop n1 with
  | nil =>
    have h10 : isJ 10 = false := by decide
    simp only [List.nil_append, isJ_break hd, h10, Bool.false_eq_true, ↓reduceIte]
    refine ⟨trivial, ?_⟩
    intro tok n h
    have := intTok_n h; omega
  | cons c x' =>
    have hlen : 1 ≤ (x.drop n1).length := by simp [hx]
    simp at hlen
    simp only [List.cons_append]
    refine ⟨trivial, ?_⟩
    intro tok n h
    split at h
    · split at h <;> simp at h; omega
    · have := intTok_n h; omega

theorem lexNormalNumber_brk (x : List Nat) {d : Nat} (hd : isLineBreak d = true) (r : List Nat) :
    lexNormalNumber (x ++ d :: r) = lexNormalNumber (x ++ [10]) ∧
    (∀ tok n, lexNormalNumber (x ++ [10]) = .ok (tok, n) → n ≤ x.length) := by
  unfold lexNormalNumber
  obtain ⟨r1, r2⟩ := radixRun_brk 10 x hd r
  simp only [r1]
  rw [drop_brk r2, drop_brk r2]
  rw [head?_brk_dec _ hd r (show (46:Nat) ≠ 10 by decide) (by decide), atExponent_brk _ hd r,
    head?_brk_dec x hd r (show (48:Nat) ≠ 10 by decide) (by decide)]
  split
  · exact floatTail_brk x hd r _ _ r2
  · exact intTail_brk x hd r _ _ _ r2

theorem lexNumberRadix_brk (radix : Nat) (x : List Nat) {d : Nat} (hd : isLineBreak d = true) (r : List Nat) :
    lexNumberRadix radix (x ++ d :: r) = lexNumberRadix radix (x ++ [10]) ∧
    (∀ tok n, lexNumberRadix radix (x ++ [10]) = .ok (tok, n) → n ≤ 2 + x.length) := by
  unfold lexNumberRadix
  obtain ⟨r1, r2⟩ := radixRun_brk radix x hd r
  simp only [r1]
  refine ⟨trivial, ?_⟩
  intro tok n h
  split at h <;> simp at h
  omega

theorem lexNumber_second {c s : Nat} (t : List Nat) (h1 : ¬ (s = 120 ∨ s = 88)) (h2 : ¬ (s = 111 ∨ s = 79))
    (h3 : ¬ (s = 98 ∨ s = 66)) : lexNumber (c :: s :: t) = lexNormalNumber (c :: s :: t) := by
  unfold lexNumber
  split
  · rename_i x rest heq
    simp at heq
    obtain ⟨rfl, rfl, rfl⟩ := heq
    simp [h1, h2, h3]
  · rfl

theorem lexNumber_first {c : Nat} (t : List Nat) (h : c ≠ 48) : lexNumber (c :: t) = lexNormalNumber (c :: t) := by
  unfold lexNumber
  split
  · rename_i x rest heq
    simp at heq; omega
  · rfl

theorem lexNumber_brk (x : List Nat) {d : Nat} (hd : isLineBreak d = true) (r : List Nat) :
    lexNumber (x ++ d :: r) = lexNumber (x ++ [10]) ∧
    (∀ tok n, lexNumber (x ++ [10]) = .ok (tok, n) → n ≤ x.length) := by
  have hN := lexNormalNumber_brk x hd r
  have hdd : ¬ (d = 120 ∨ d = 88) ∧ ¬ (d = 111 ∨ d = 79) ∧ ¬ (d = 98 ∨ d = 66) := by
    rcases isLineBreak_cases hd with rfl | rfl <;> decide
  rcases x with _ | ⟨c, _ | ⟨c2, x'⟩⟩
  · have : d ≠ 48 := by rcases isLineBreak_cases hd with rfl | rfl <;> decide
    simp only [List.nil_append] at hN ⊢
    rw [lexNumber_first r this, lexNumber_first [] (show (10:Nat) ≠ 48 by decide)]; exact hN
  · simp only [List.cons_append, List.nil_append] at hN ⊢
    rw [lexNumber_second r hdd.1 hdd.2.1 hdd.2.2,
      lexNumber_second [] (by decide) (by decide) (by decide)]; exact hN
  · simp only [List.cons_append] at hN ⊢
    by_cases hc : c = 48
    · subst hc
      unfold lexNumber
      simp only []
      split
      · have := lexNumberRadix_brk 16 x' hd r; simp at this ⊢; exact ⟨this.1, fun t n h => by have := this.2 t n h; omega⟩
      · split
        · have := lexNumberRadix_brk 8 x' hd r; simp at this ⊢; exact ⟨this.1, fun t n h => by have := this.2 t n h; omega⟩
        · split
          · have := lexNumberRadix_brk 2 x' hd r; simp at this ⊢; exact ⟨this.1, fun t n h => by have := this.2 t n h; omega⟩
          · exact hN
    · rw [lexNumber_first _ hc, lexNumber_first _ hc]; exact hN



/-! ### alignment of the remaining inputs -/

/-- after consuming `n` characters of `inp` and `n'` of `foldEol inp` the remaining inputs correspond -/
def Aligned (inp : List Nat) (n n' : Nat) : Prop := foldEol (inp.drop n) = (foldEol inp).drop n'

theorem aligned_of_noBreak {inp : List Nat} {n : Nat} (h : NoBreak (inp.take n)) : Aligned inp n n := by
  unfold Aligned
  conv => rhs; rw [← List.take_append_drop n inp, foldEol_append_noBreak h]
  by_cases hn : n ≤ inp.length
  · rw [List.drop_append_of_le_length (by simp [hn])]
    simp [List.length_take, hn]
  · have hlen : inp.length ≤ n := by omega
    simp [List.drop_eq_nil_of_le hlen, List.take_of_length_le hlen]

theorem noBreak_take_of_le {x t : List Nat} (hx : NoBreak x) {n : Nat} (h : n ≤ x.length) :
    NoBreak ((x ++ t).take n) := by
  rw [List.take_append_of_le_length h]
  intro c hc
  exact hx c (List.mem_of_mem_take hc)

/-- every text is free of line breaks or has a first one -/
theorem break_split (inp : List Nat) :
    NoBreak inp ∨ ∃ x d r, inp = x ++ d :: r ∧ NoBreak x ∧ isLineBreak d = true := by
  induction inp with
  | nil => left; intro c hc; simp at hc
  | cons c cs ih =>
    by_cases hc : isLineBreak c = true
    · right; exact ⟨[], c, cs, rfl, by intro c hc; simp at hc, hc⟩
    · rcases ih with h | ⟨x, d, r, rfl, hx, hd⟩
      · left; intro e he
        rcases List.mem_cons.1 he with rfl | he
        · simpa using hc
        · exact h e he
      · right
        refine ⟨c :: x, d, r, rfl, ?_, hd⟩
        intro e he
        rcases List.mem_cons.1 he with rfl | he
        · simpa using hc
        · exact hx e he

theorem foldEol_noBreak {inp : List Nat} (h : NoBreak inp) : foldEol inp = inp := by
  have := foldEol_append_noBreak h []
  simpa using this

/-- numbers: same token, same length, and the number contains no line break -/
theorem lexNumber_fold (inp : List Nat) :
    lexNumber (foldEol inp) = lexNumber inp ∧
    (∀ tok n, lexNumber inp = .ok (tok, n) → NoBreak (inp.take n)) := by
  rcases break_split inp with h | ⟨x, d, r, rfl, hx, hd⟩
  · rw [foldEol_noBreak h]
    exact ⟨rfl, fun _ n _ c hc => h c (List.mem_of_mem_take hc)⟩
  · obtain ⟨r', hr'⟩ := foldEol_break_head hd r
    rw [foldEol_append_noBreak hx, hr']
    obtain ⟨a1, a2⟩ := lexNumber_brk x hd r
    obtain ⟨b1, _⟩ := lexNumber_brk x (d := 10) (by decide) r'
    rw [b1, a1]
    refine ⟨rfl, ?_⟩
    intro tok n h
    exact noBreak_take_of_le hx (a2 tok n h)

end PV.C08
