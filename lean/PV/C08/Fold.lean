import PV.C08.Lemmas
/-
  PV.C08.Fold — the CR/CRLF folding walk: every function of the lexer model gives the same answer (tokens,
  state, error kind) on a text and on its universal-newline normal form `foldEol`, and the remaining inputs stay
  aligned.  Result: `eolInv : EolInv cfg`.
-/
namespace PV.C08
open PV.Lexer

/-! ## the CR/CRLF folding walk: every function of the model gives the same answer on `foldEol inp` -/

@[simp] theorem foldEol_nil : foldEol [] = [] := by simp [foldEol]

theorem foldEol_cons_ne {c : Nat} (h : c ≠ 13) (r : List Nat) : foldEol (c :: r) = c :: foldEol r := by
  rw [foldEol.eq_def]
  split <;> simp_all

@[simp] theorem foldEol_crlf (r : List Nat) : foldEol (13 :: 10 :: r) = 10 :: foldEol r := by
  simp [foldEol]

theorem foldEol_cr {r : List Nat} (h : r.head? ≠ some 10) : foldEol (13 :: r) = 10 :: foldEol r := by
  rw [foldEol.eq_def]
  split <;> simp_all

@[simp] theorem foldEol_lf (r : List Nat) : foldEol (10 :: r) = 10 :: foldEol r := foldEol_cons_ne (by decide) r

/-- a line break at the head stays a line break (LF) at the head -/
theorem foldEol_break_head {d : Nat} (hd : isLineBreak d = true) (r : List Nat) :
    ∃ r', foldEol (d :: r) = 10 :: r' := by
  rcases isLineBreak_cases hd with rfl | rfl
  · exact ⟨_, foldEol_lf r⟩
  · rw [foldEol.eq_def]; split <;> simp_all

/-- a character other than LF / CR at the head of the folded text is at the head of the text -/
theorem foldEol_eq_cons {k : Nat} (h10 : k ≠ 10) (h13 : k ≠ 13) (l x : List Nat) :
    foldEol l = k :: x ↔ ∃ y, l = k :: y ∧ x = foldEol y := by
  constructor
  · intro h
    rw [foldEol.eq_def] at h
    split at h <;> simp_all
  · rintro ⟨y, rfl, rfl⟩
    exact foldEol_cons_ne h13 y

theorem foldEol_eq_nil {l : List Nat} : foldEol l = [] ↔ l = [] := by
  constructor
  · intro h; rw [foldEol.eq_def] at h; split at h <;> simp_all
  · rintro rfl; simp

/-- the head of the folded text: the head of the text with CR read as LF -/
theorem foldEol_head (l : List Nat) : (foldEol l).head? = l.head?.map (fun c => if c = 13 then 10 else c) := by
  rw [foldEol.eq_def]; split <;> simp_all

theorem foldEol_head_eq {k : Nat} (h10 : k ≠ 10) (h13 : k ≠ 13) (l : List Nat) :
    (foldEol l).head? = some k ↔ l.head? = some k := by
  rw [foldEol_head]
  cases l with
  | nil => simp
  | cons c r =>
    simp only [List.head?_cons, Option.map_some, Option.some.injEq]
    by_cases hc : c = 13 <;> simp [hc] <;> omega

theorem foldEol_append_noBreak {x : List Nat} (hx : NoBreak x) (r : List Nat) :
    foldEol (x ++ r) = x ++ foldEol r := by
  induction x with
  | nil => simp
  | cons c x ih =>
    have hc : c ≠ 13 := by
      intro h; have := hx c (by simp); simp [h, isLineBreak] at this
    rw [List.cons_append, foldEol_cons_ne hc, ih (fun d hd => hx d (by simp [hd]))]
    simp

theorem isDigitOf_10 (r : Nat) : isDigitOf r 10 = false := by
  unfold isDigitOf; split <;> simp [isDigit]
theorem isDigitOf_13 (r : Nat) : isDigitOf r 13 = false := by
  unfold isDigitOf; split <;> simp [isDigit]

/-- `radix_run` stops in front of a line break, whichever -/
theorem radixRun_fold (radix : Nat) (l : List Nat) : radixRun radix (foldEol l) = radixRun radix l := by
  induction l with
  | nil => simp
  | cons c cs ih =>
    by_cases hc : c = 13
    · subst hc
      obtain ⟨r', hr⟩ := foldEol_break_head (d := 13) (by decide) cs
      rw [hr]; simp [radixRun, isDigitOf_10, isDigitOf_13]
    · rw [foldEol_cons_ne hc]
      unfold radixRun
      rw [ih]
      by_cases hd : isDigitOf radix c = true
      · simp [hd]
      · simp only [hd, Bool.false_eq_true, ↓reduceIte]
        by_cases h95 : c = 95
        · simp only [h95, ↓reduceIte]
          cases cs with
          | nil => simp
          | cons d ds =>
            by_cases hd13 : d = 13
            · subst hd13
              obtain ⟨r', hr⟩ := foldEol_break_head (d := 13) (by decide) ds
              rw [hr]; simp [isDigitOf_10, isDigitOf_13]
            · rw [foldEol_cons_ne hd13]
        · simp [h95]


theorem isDigitOf_break {d : Nat} (hd : isLineBreak d = true) (r : Nat) : isDigitOf r d = false := by
  rcases isLineBreak_cases hd with rfl | rfl
  · exact isDigitOf_10 r
  · exact isDigitOf_13 r

/-! ### numbers: the number lexer does not look past a line break and does not tell line breaks apart.
    Inputs are written `x ++ d :: r` with `d` a line break; the normal form is `x ++ [10]`. -/

theorem radixRun_brk (radix : Nat) (x : List Nat) {d : Nat} (hd : isLineBreak d = true) (r : List Nat) :
    radixRun radix (x ++ d :: r) = radixRun radix (x ++ [10]) ∧ (radixRun radix (x ++ [10])).2 ≤ x.length := by
  induction x with
  | nil =>
    have h95 : d ≠ 95 := by rcases isLineBreak_cases hd with rfl | rfl <;> decide
    simp [radixRun, isDigitOf_break hd, isDigitOf_10, h95]
  | cons c x ih =>
    obtain ⟨ih1, ih2⟩ := ih
    simp only [List.cons_append]
    unfold radixRun
    rw [ih1]
    by_cases hc : isDigitOf radix c = true
    · simp [hc]; omega
    · simp only [hc, Bool.false_eq_true, ↓reduceIte]
      by_cases h95 : c = 95
      · simp only [h95, ↓reduceIte]
        cases x with
        | nil => simp [isDigitOf_break hd, isDigitOf_10]
        | cons e x' =>
          simp only [List.cons_append] at ih2 ⊢
          refine ⟨trivial, ?_⟩
          split <;> simp_all <;> omega
      · simp [h95]


theorem isDigit_break {d : Nat} (hd : isLineBreak d = true) : isDigit d = false := by
  rcases isLineBreak_cases hd with rfl | rfl <;> decide

theorem atExponent_brk (x : List Nat) {d : Nat} (hd : isLineBreak d = true) (r : List Nat) :
    atExponent (x ++ d :: r) = atExponent (x ++ [10]) := by
  rcases isLineBreak_cases hd with rfl | rfl <;>
    rcases x with _ | ⟨e, _ | ⟨s, _ | ⟨t, x'⟩⟩⟩ <;>
    rcases r with _ | ⟨a, _ | ⟨b, r⟩⟩ <;> simp [atExponent, isDigit]

theorem head?_brk_ne (x : List Nat) {d : Nat} (hd : isLineBreak d = true) (r : List Nat) {k : Nat}
    (hk : k ≠ 10) (hk' : k ≠ 13) : ((x ++ d :: r).head? = some k) = ((x ++ [10]).head? = some k) := by
  cases x with
  | nil => rcases isLineBreak_cases hd with rfl | rfl <;> simp <;> omega
  | cons c x => simp

theorem head?_brk_dec (x : List Nat) {d : Nat} (hd : isLineBreak d = true) (r : List Nat) {k : Nat}
    (hk : k ≠ 10) (hk' : k ≠ 13) :
    decide ((x ++ d :: r).head? = some k) = decide ((x ++ [10]).head? = some k) := by
  simp only [head?_brk_ne x hd r hk hk']

theorem fracPart_brk (v : List Nat) (n : Nat) (x : List Nat) {d : Nat} (hd : isLineBreak d = true) (r : List Nat) :
    fracPart v n (x ++ d :: r) = fracPart v n (x ++ [10]) ∧
    (∀ v' n', fracPart v n (x ++ [10]) = .ok (v', n') → n' ≤ n + x.length) := by
  cases x with
  | nil =>
    have : d ≠ 46 := by rcases isLineBreak_cases hd with rfl | rfl <;> decide
    simp only [List.nil_append]
    unfold fracPart
    constructor
    · split <;> simp_all
    · intro v' n' h; simp at h; omega
  | cons c x =>
    simp only [List.cons_append]
    unfold fracPart
    by_cases hc : c = 46
    · subst hc
      obtain ⟨r1, r2⟩ := radixRun_brk 10 x hd r
      simp only [r1, head?_brk_ne x hd r (show (95:Nat) ≠ 10 by decide) (by decide)]
      refine ⟨trivial, ?_⟩
      intro v' n' h
      split at h <;> simp at h
      obtain ⟨_, rfl⟩ := h
      simp; omega
    · constructor
      · split <;> simp_all
      · intro v' n' h
        split at h
        · simp_all
        · simp at h; omega


theorem expPartBody_brk (v : List Nat) (n : Nat) (x : List Nat) {d : Nat} (hd : isLineBreak d = true) (r : List Nat) :
    expPartBody v n (x ++ d :: r) = expPartBody v n (x ++ [10]) ∧
    (∀ v' n', expPartBody v n (x ++ [10]) = .ok (v', n') → n' ≤ n + x.length) := by
  have hdE : ¬ (d = 101 ∨ d = 69) := by rcases isLineBreak_cases hd with rfl | rfl <;> decide
  have hdS : ¬ (d = 45 ∨ d = 43) := by rcases isLineBreak_cases hd with rfl | rfl <;> decide
  have h95 := fun y => head?_brk_ne y hd r (show (95:Nat) ≠ 10 by decide) (by decide)
  cases x with
  | nil =>
    simp only [List.nil_append]
    unfold expPartBody
    simp [hdE]
  | cons c x =>
    simp only [List.cons_append]
    unfold expPartBody
    by_cases hc : (c = 101 ∨ c = 69)
    · simp only [Bool.or_eq_true, decide_eq_true_eq, hc, ↓reduceIte, h95 x]
      by_cases hu : (x ++ [10]).head? = some 95
      · simp [hu]
      · simp only [hu, ↓reduceIte]
        cases x with
        | nil =>
          simp only [List.nil_append]
          obtain ⟨r1, r2⟩ := radixRun_brk 10 [] hd r
          simp only [List.nil_append, List.length_nil, Nat.le_zero_eq] at r1 r2
          simp [hdS, r1, r2]
        | cons s x' =>
          simp only [List.cons_append]
          by_cases hs : (s = 45 ∨ s = 43)
          · obtain ⟨r1, r2⟩ := radixRun_brk 10 x' hd r
            simp only [Bool.or_eq_true, decide_eq_true_eq, hs, ↓reduceIte, h95 x', r1]
            refine ⟨trivial, ?_⟩
            intro v' n' h
            split at h <;> simp at h
            obtain ⟨_, rfl⟩ := h
            simp; omega
          · obtain ⟨r1, r2⟩ := radixRun_brk 10 (s :: x') hd r
            simp only [List.cons_append] at r1 r2
            simp only [Bool.or_eq_true, decide_eq_true_eq, hs, ↓reduceIte, r1]
            refine ⟨trivial, ?_⟩
            intro v' n' h
            simp at h
            obtain ⟨_, rfl⟩ := h
            simp at r2 ⊢; omega
    · simp [hc]


theorem expPart_brk (v : List Nat) (n : Nat) (x : List Nat) {d : Nat} (hd : isLineBreak d = true) (r : List Nat) :
    expPart v n (x ++ d :: r) = expPart v n (x ++ [10]) ∧
    (∀ v' n', expPart v n (x ++ [10]) = .ok (v', n') → n' ≤ n + x.length) := by
  obtain ⟨e1, e2⟩ := expPartBody_brk v n x hd r
  unfold expPart
  rw [atExponent_brk x hd r, e1]
  refine ⟨rfl, ?_⟩
  intro v' n' h
  split at h
  · exact e2 v' n' h
  · simp at h; omega

theorem drop_brk {x : List Nat} {n : Nat} (h : n ≤ x.length) (t : List Nat) :
    (x ++ t).drop n = x.drop n ++ t := List.drop_append_of_le_length h

theorem isJ_break {d : Nat} (hd : isLineBreak d = true) : isJ d = false := by
  rcases isLineBreak_cases hd with rfl | rfl <;> decide

/-- the character after a number: `j` / `J` or not -/
theorem jTail_brk (x : List Nat) {d : Nat} (hd : isLineBreak d = true) (r : List Nat) {α} (f g : α) :
    (match x ++ d :: r with | c :: _ => if isJ c then f else g | [] => g) =
    (match x ++ [10] with | c :: _ => if isJ c then f else g | [] => g) ∧
    ((match x ++ [10] with | c :: _ => isJ c | [] => false) = true → 1 ≤ x.length) := by
  cases x with
  | nil =>
    have := isJ_break hd
    have h10 : isJ 10 = false := by decide
    simp [this, h10]
  | cons c x => simp

theorem floatTail_brk (x : List Nat) {d : Nat} (hd : isLineBreak d = true) (r : List Nat) (v1 : List Nat)
    (n1 : Nat) (h1 : n1 ≤ x.length) :
    floatTail (x ++ d :: r) v1 n1 = floatTail (x ++ [10]) v1 n1 ∧
    (∀ tok n, floatTail (x ++ [10]) v1 n1 = .ok (tok, n) → n ≤ x.length) := by
  unfold floatTail
  rw [drop_brk h1, drop_brk h1]
  obtain ⟨f1, f2⟩ := fracPart_brk v1 n1 (x.drop n1) hd r
  rw [f1]
  cases hf : fracPart v1 n1 (x.drop n1 ++ [10]) with
  | error e => simp
  | ok p =>
    obtain ⟨v2, n2⟩ := p
    have hn2 : n2 ≤ x.length := by have := f2 v2 n2 hf; simp at this; omega
    simp only []
    rw [drop_brk hn2, drop_brk hn2]
    obtain ⟨e1, e2⟩ := expPart_brk v2 n2 (x.drop n2) hd r
    rw [e1]
    cases he : expPart v2 n2 (x.drop n2 ++ [10]) with
    | error e => simp
    | ok p =>
      obtain ⟨v3, n3⟩ := p
      have hn3 : n3 ≤ x.length := by have := e2 v3 n3 he; simp at this; omega
      simp only []
      rw [drop_brk hn3, drop_brk hn3]
      by_cases hok : floatTextOk v3 = true
      · simp only [hok, Bool.not_true, Bool.false_eq_true, ↓reduceIte]
        obtain ⟨j1, j2⟩ := jTail_brk (x.drop n3) hd r (Except.ok (Tok.complex v3, n3 + 1) : Sub) (Except.ok (Tok.float v3, n3))
        refine ⟨j1, ?_⟩
        intro tok n h
        cases hx : x.drop n3 with
        | nil => simp [hx, isJ] at h; omega
        | cons c x' =>
          have hlen : 1 ≤ (x.drop n3).length := by simp [hx]
          simp at hlen
          simp [hx] at h
          split at h <;> simp at h <;> omega
      · simp [hok]


theorem intTok_n {z : Bool} {ds : List Nat} {n : Nat} {tok : Tok} {m : Nat} (h : intTok z ds n = .ok (tok, m)) :
    m = n := by
  unfold intTok at h
  split at h
  · simp at h
  · split at h <;> simp at h; exact h.2.symm

theorem intTail_brk (x : List Nat) {d : Nat} (hd : isLineBreak d = true) (r : List Nat) (z : Bool) (v1 : List Nat)
    (n1 : Nat) (h1 : n1 ≤ x.length) :
    intTail (x ++ d :: r) z v1 n1 = intTail (x ++ [10]) z v1 n1 ∧
    (∀ tok n, intTail (x ++ [10]) z v1 n1 = .ok (tok, n) → n ≤ x.length) := by
  unfold intTail
  rw [drop_brk h1, drop_brk h1]
  cases hx : x.drop n1 with
  | nil =>
    have h10 : isJ 10 = false := by decide
    simp only [List.nil_append, isJ_break hd, h10, Bool.false_eq_true, ↓reduceIte]
    refine ⟨trivial, ?_⟩
    intro tok n h
    have := intTok_n h; omega
  | cons c x' =>
    have hlen : 1 ≤ (x.drop n1).length := by simp [hx]
    simp at hlen
    simp only [List.cons_append]
    refine ⟨trivial, ?_⟩
    intro tok n h
    split at h
    · split at h <;> simp at h; omega
    · have := intTok_n h; omega

theorem lexNormalNumber_brk (x : List Nat) {d : Nat} (hd : isLineBreak d = true) (r : List Nat) :
    lexNormalNumber (x ++ d :: r) = lexNormalNumber (x ++ [10]) ∧
    (∀ tok n, lexNormalNumber (x ++ [10]) = .ok (tok, n) → n ≤ x.length) := by
  unfold lexNormalNumber
  obtain ⟨r1, r2⟩ := radixRun_brk 10 x hd r
  simp only [r1]
  rw [drop_brk r2, drop_brk r2]
  rw [head?_brk_dec _ hd r (show (46:Nat) ≠ 10 by decide) (by decide), atExponent_brk _ hd r,
    head?_brk_dec x hd r (show (48:Nat) ≠ 10 by decide) (by decide)]
  split
  · exact floatTail_brk x hd r _ _ r2
  · exact intTail_brk x hd r _ _ _ r2

theorem lexNumberRadix_brk (radix : Nat) (x : List Nat) {d : Nat} (hd : isLineBreak d = true) (r : List Nat) :
    lexNumberRadix radix (x ++ d :: r) = lexNumberRadix radix (x ++ [10]) ∧
    (∀ tok n, lexNumberRadix radix (x ++ [10]) = .ok (tok, n) → n ≤ 2 + x.length) := by
  unfold lexNumberRadix
  obtain ⟨r1, r2⟩ := radixRun_brk radix x hd r
  simp only [r1]
  refine ⟨trivial, ?_⟩
  intro tok n h
  split at h <;> simp at h
  omega

theorem lexNumber_second {c s : Nat} (t : List Nat) (h1 : ¬ (s = 120 ∨ s = 88)) (h2 : ¬ (s = 111 ∨ s = 79))
    (h3 : ¬ (s = 98 ∨ s = 66)) : lexNumber (c :: s :: t) = lexNormalNumber (c :: s :: t) := by
  unfold lexNumber
  split
  · rename_i x rest heq
    simp at heq
    obtain ⟨rfl, rfl, rfl⟩ := heq
    simp [h1, h2, h3]
  · rfl

theorem lexNumber_first {c : Nat} (t : List Nat) (h : c ≠ 48) : lexNumber (c :: t) = lexNormalNumber (c :: t) := by
  unfold lexNumber
  split
  · rename_i x rest heq
    simp at heq; omega
  · rfl

theorem lexNumber_brk (x : List Nat) {d : Nat} (hd : isLineBreak d = true) (r : List Nat) :
    lexNumber (x ++ d :: r) = lexNumber (x ++ [10]) ∧
    (∀ tok n, lexNumber (x ++ [10]) = .ok (tok, n) → n ≤ x.length) := by
  have hN := lexNormalNumber_brk x hd r
  have hdd : ¬ (d = 120 ∨ d = 88) ∧ ¬ (d = 111 ∨ d = 79) ∧ ¬ (d = 98 ∨ d = 66) := by
    rcases isLineBreak_cases hd with rfl | rfl <;> decide
  rcases x with _ | ⟨c, _ | ⟨c2, x'⟩⟩
  · have : d ≠ 48 := by rcases isLineBreak_cases hd with rfl | rfl <;> decide
    simp only [List.nil_append] at hN ⊢
    rw [lexNumber_first r this, lexNumber_first [] (show (10:Nat) ≠ 48 by decide)]; exact hN
  · simp only [List.cons_append, List.nil_append] at hN ⊢
    rw [lexNumber_second r hdd.1 hdd.2.1 hdd.2.2,
      lexNumber_second [] (by decide) (by decide) (by decide)]; exact hN
  · simp only [List.cons_append] at hN ⊢
    by_cases hc : c = 48
    · subst hc
      unfold lexNumber
      simp only []
      split
      · have := lexNumberRadix_brk 16 x' hd r; simp at this ⊢; exact ⟨this.1, fun t n h => by have := this.2 t n h; omega⟩
      · split
        · have := lexNumberRadix_brk 8 x' hd r; simp at this ⊢; exact ⟨this.1, fun t n h => by have := this.2 t n h; omega⟩
        · split
          · have := lexNumberRadix_brk 2 x' hd r; simp at this ⊢; exact ⟨this.1, fun t n h => by have := this.2 t n h; omega⟩
          · exact hN
    · rw [lexNumber_first _ hc, lexNumber_first _ hc]; exact hN



/-! ### alignment of the remaining inputs -/

/-- after consuming `n` characters of `inp` and `n'` of `foldEol inp` the remaining inputs correspond -/
def Aligned (inp : List Nat) (n n' : Nat) : Prop := foldEol (inp.drop n) = (foldEol inp).drop n'

theorem aligned_of_noBreak {inp : List Nat} {n : Nat} (h : NoBreak (inp.take n)) : Aligned inp n n := by
  unfold Aligned
  conv => rhs; rw [← List.take_append_drop n inp, foldEol_append_noBreak h]
  by_cases hn : n ≤ inp.length
  · rw [List.drop_append_of_le_length (by simp [hn])]
    simp [List.length_take, hn]
  · have hlen : inp.length ≤ n := by omega
    simp [List.drop_eq_nil_of_le hlen, List.take_of_length_le hlen]

theorem noBreak_take_of_le {x t : List Nat} (hx : NoBreak x) {n : Nat} (h : n ≤ x.length) :
    NoBreak ((x ++ t).take n) := by
  rw [List.take_append_of_le_length h]
  intro c hc
  exact hx c (List.mem_of_mem_take hc)

/-- every text is free of line breaks or has a first one -/
theorem break_split (inp : List Nat) :
    NoBreak inp ∨ ∃ x d r, inp = x ++ d :: r ∧ NoBreak x ∧ isLineBreak d = true := by
  induction inp with
  | nil => left; intro c hc; simp at hc
  | cons c cs ih =>
    by_cases hc : isLineBreak c = true
    · right; exact ⟨[], c, cs, rfl, by intro c hc; simp at hc, hc⟩
    · rcases ih with h | ⟨x, d, r, rfl, hx, hd⟩
      · left; intro e he
        rcases List.mem_cons.1 he with rfl | he
        · simpa using hc
        · exact h e he
      · right
        refine ⟨c :: x, d, r, rfl, ?_, hd⟩
        intro e he
        rcases List.mem_cons.1 he with rfl | he
        · simpa using hc
        · exact hx e he

theorem foldEol_noBreak {inp : List Nat} (h : NoBreak inp) : foldEol inp = inp := by
  have := foldEol_append_noBreak h []
  simpa using this

/-- numbers: same token, same length, and the number contains no line break -/
theorem lexNumber_fold (inp : List Nat) :
    lexNumber (foldEol inp) = lexNumber inp ∧
    (∀ tok n, lexNumber inp = .ok (tok, n) → NoBreak (inp.take n)) := by
  rcases break_split inp with h | ⟨x, d, r, rfl, hx, hd⟩
  · rw [foldEol_noBreak h]
    exact ⟨rfl, fun _ n _ c hc => h c (List.mem_of_mem_take hc)⟩
  · obtain ⟨r', hr'⟩ := foldEol_break_head hd r
    rw [foldEol_append_noBreak hx, hr']
    obtain ⟨a1, a2⟩ := lexNumber_brk x hd r
    obtain ⟨b1, _⟩ := lexNumber_brk x (d := 10) (by decide) r'
    rw [b1, a1]
    refine ⟨rfl, ?_⟩
    intro tok n h
    exact noBreak_take_of_le hx (a2 tok n h)


/-! ### operators -/

theorem lexOp_dot (ft : List Nat) (h : ∀ x, ft ≠ 46 :: 46 :: x) : lexOp (46 :: ft) = some (.Dot, 1) := by
  simp [lexOp, h]

set_option maxHeartbeats 1000000 in
theorem lexOp_none (a : Nat) (t : List Nat)
    (h1 : a ≠ 61) (h2 : a ≠ 43) (h3 : a ≠ 42) (h4 : a ≠ 47) (h5 : a ≠ 37) (h6 : a ≠ 124) (h7 : a ≠ 94)
    (h8 : a ≠ 38) (h9 : a ≠ 45) (h10 : a ≠ 64) (h11 : a ≠ 126) (h12 : a ≠ 58) (h13 : a ≠ 59) (h14 : a ≠ 60)
    (h15 : a ≠ 62) (h16 : a ≠ 44) (h17 : a ≠ 46) (h33 : ∀ x, a :: t ≠ 33 :: 61 :: x) : lexOp (a :: t) = none := by
  simp [lexOp, *]

theorem lexOp_fold_dot (tail : List Nat) (hx : ∀ t, tail ≠ 46 :: 46 :: t) :
    lexOp (foldEol (46 :: tail)) = lexOp (46 :: tail) := by
  rw [foldEol_cons_ne (by decide), lexOp_dot _ hx, lexOp_dot]
  intro x hx'
  rw [foldEol_eq_cons (by decide) (by decide)] at hx'
  obtain ⟨y, rfl, hy⟩ := hx'
  have := hy.symm
  rw [foldEol_eq_cons (by decide) (by decide)] at this
  obtain ⟨z, rfl, _⟩ := this
  exact hx z rfl

theorem lexOp_fold_none (l : List Nat)
    (h1 : ∀ t, l ≠ 61 :: t) (h2 : ∀ t, l ≠ 43 :: t) (h3 : ∀ t, l ≠ 42 :: t) (h4 : ∀ t, l ≠ 47 :: t)
    (h5 : ∀ t, l ≠ 37 :: t) (h6 : ∀ t, l ≠ 124 :: t) (h7 : ∀ t, l ≠ 94 :: t) (h8 : ∀ t, l ≠ 38 :: t)
    (h9 : ∀ t, l ≠ 45 :: t) (h10 : ∀ t, l ≠ 64 :: t) (h11 : ∀ t, l ≠ 33 :: 61 :: t) (h12 : ∀ t, l ≠ 126 :: t)
    (h13 : ∀ t, l ≠ 58 :: t) (h14 : ∀ t, l ≠ 59 :: t) (h15 : ∀ t, l ≠ 60 :: t) (h16 : ∀ t, l ≠ 62 :: t)
    (h17 : ∀ t, l ≠ 44 :: t) (h18 : ∀ t, l ≠ 46 :: t) : lexOp (foldEol l) = none := by
  cases l with
  | nil => simp [lexOp]
  | cons a t =>
    have e := fun (k : Nat) (h : ∀ t', a :: t ≠ k :: t') => (fun (hk : a = k) => h t (by rw [hk]) : a ≠ k)
    by_cases ha : a = 13
    · subst ha
      obtain ⟨r', hr⟩ := foldEol_break_head (d := 13) (by decide) t
      rw [hr, lexOp_10]
    · rw [foldEol_cons_ne ha]
      refine lexOp_none a _ (e _ h1) (e _ h2) (e _ h3) (e _ h4) (e _ h5) (e _ h6) (e _ h7) (e _ h8) (e _ h9)
        (e _ h10) (e _ h12) (e _ h13) (e _ h14) (e _ h15) (e _ h16) (e _ h17) (e _ h18) ?_
      intro x hx
      simp only [List.cons.injEq] at hx
      obtain ⟨rfl, hx⟩ := hx
      rw [foldEol_eq_cons (by decide) (by decide)] at hx
      obtain ⟨y, rfl, _⟩ := hx
      exact h11 y rfl


set_option maxHeartbeats 2000000 in
/-- operators do not look at which line break follows -/
theorem lexOp_fold (l : List Nat) : lexOp (foldEol l) = lexOp l := by
  fun_cases lexOp l
  case case41 tail hx =>
    exact (lexOp_fold_dot tail (fun t h => hx t h)).trans (lexOp_dot tail (fun t h => hx t h))
  case case42 =>
    rename_i a40 a39 a38 a37 a36 a35 a34 a33 a32 a31 a30 a29 a28 a27 a26 a25 a24 a23 a22 a21 a20 a19 a18 a17 a16 a15 a14 a13 a12 a11 a10 a9 a8 a7 a6 a5 a4 a3 a2 a1 a0
    exact lexOp_fold_none l (fun t h => a39 t h) (fun t h => a37 t h) (fun t h => a33 t h) (fun t h => a29 t h)
      (fun t h => a27 t h) (fun t h => a25 t h) (fun t h => a23 t h) (fun t h => a21 t h) (fun t h => a18 t h)
      (fun t h => a16 t h) (fun t h => a15 t h) (fun t h => a14 t h) (fun t h => a12 t h) (fun t h => a11 t h)
      (fun t h => a7 t h) (fun t h => a3 t h) (fun t h => a2 t h) (fun t h => a0 t h)
  all_goals simp_all [foldEol_cons_ne, lexOp, foldEol_eq_cons]


set_option maxHeartbeats 1000000 in
/-- an operator token contains no line break -/
theorem lexOp_noBreak {l : List Nat} {o : Op} {n : Nat} (h : lexOp l = some (o, n)) : NoBreak (l.take n) := by
  revert h
  fun_cases lexOp l <;> intro h <;> simp at h
  all_goals (obtain ⟨_, rfl⟩ := h; intro c hc; simp at hc; (try rcases hc with rfl | rfl | rfl) <;> (try rcases hc with rfl | rfl) <;> (try subst hc) <;> decide)

/-! ### names -/

theorem scanFold_fold {p : Nat → Bool} (h10 : p 10 = false) (h13 : p 13 = false) (l : List Nat) :
    scanFold p (foldEol l) = scanFold p l ∧ NoBreak (l.take (scanFold p l).2) := by
  induction l with
  | nil => simp [scanFold, NoBreak]
  | cons c cs ih =>
    by_cases hc : c = 13
    · subst hc
      obtain ⟨r', hr⟩ := foldEol_break_head (d := 13) (by decide) cs
      rw [hr]
      have : scanFold p (13 :: cs) = ([], 0) := by
        rw [scanFold.eq_def]; split <;> simp_all
      rw [this]
      simp [scanFold, h10, NoBreak]
    · rw [foldEol_cons_ne hc]
      have e1 : ∀ t, scanFold p (c :: t) = if p c then (((if c = 13 then 10 else c) :: (scanFold p t).1), (scanFold p t).2 + 1) else ([], 0) := by
        intro t; rw [scanFold.eq_def]; split <;> simp_all
      rw [e1, e1, ih.1]
      refine ⟨rfl, ?_⟩
      by_cases hp : p c = true
      · simp only [hp, ↓reduceIte, List.take_succ_cons]
        intro d hd
        rcases List.mem_cons.1 hd with rfl | hd
        · by_cases h : isLineBreak d = true
          · rcases isLineBreak_cases h with rfl | rfl <;> simp_all
          · simpa using h
        · exact ih.2 d hd
      · simp [hp, NoBreak]


/-! ### strings -/

theorem aligned_shift {l r : List Nat} {k k' : Nat} (h1 : l.drop k = r) (h2 : (foldEol l).drop k' = foldEol r)
    {n n' : Nat} (h : Aligned r n n') : Aligned l (n + k) (n' + k') := by
  unfold Aligned at *
  rw [Nat.add_comm n k, ← List.drop_drop, h1, Nat.add_comm n' k', ← List.drop_drop, h2, h]

def StrSim (l : List Nat) :
    Except (ErrKind × Nat) (List Nat × Nat) → Except (ErrKind × Nat) (List Nat × Nat) → Prop
  | .ok (v, n), .ok (v', n') => v = v' ∧ Aligned l n n'
  | .error (k, _), .error (k', _) => k = k'
  | _, _ => False

theorem StrSim.bump {l r : List Nat} {k k' : Nat} (h1 : l.drop k = r) (h2 : (foldEol l).drop k' = foldEol r)
    (pre : List Nat) {a b} (h : StrSim r a b) : StrSim l (bump k pre a) (bump k' pre b) := by
  cases a with
  | error ea => cases b with
    | error eb => obtain ⟨k1, o1⟩ := ea; obtain ⟨k2, o2⟩ := eb; simpa [StrSim, PV.Lexer.bump] using h
    | ok pb => obtain ⟨k1, o1⟩ := ea; obtain ⟨v2, n2⟩ := pb; simp [StrSim] at h
  | ok pa => cases b with
    | error eb => obtain ⟨v1, n1⟩ := pa; obtain ⟨k2, o2⟩ := eb; simp [StrSim] at h
    | ok pb =>
      obtain ⟨v1, n1⟩ := pa; obtain ⟨v2, n2⟩ := pb
      simp only [StrSim, PV.Lexer.bump] at h ⊢
      exact ⟨by rw [h.1], aligned_shift h1 h2 h.2⟩

theorem strLoop_bs {q : Nat} {tr : Bool} {c : Nat} (hc : c ≠ 13) (r : List Nat) :
    strLoop q tr (92 :: c :: r) = bump 2 [92, c] (strLoop q tr r) := by
  simp [strLoop, hc]

theorem strLoop_lf (q : Nat) (tr : Bool) (r : List Nat) :
    strLoop q tr (10 :: r) = if tr then bump 1 [10] (strLoop q tr r) else .error (.otherEol, 1) := by
  simp [strLoop]

theorem strLoop_plain {q : Nat} {tr : Bool} {c : Nat} (h92 : c ≠ 92) (h13 : c ≠ 13) (h10 : c ≠ 10) (hq : c ≠ q)
    (r : List Nat) : strLoop q tr (c :: r) = bump 1 [c] (strLoop q tr r) := by
  rw [strLoop.eq_def]
  split <;> simp_all

theorem strLoop_close1 {q : Nat} (h92 : q ≠ 92) (h13 : q ≠ 13) (h10 : q ≠ 10) (r : List Nat) :
    strLoop q false (q :: r) = .ok ([], 1) := by
  rw [strLoop.eq_def]
  split <;> simp_all

theorem strLoop_close3 {q : Nat} (h92 : q ≠ 92) (h13 : q ≠ 13) (h10 : q ≠ 10) (t : List Nat) :
    strLoop q true (q :: q :: q :: t) = .ok ([], 3) := by
  rw [strLoop.eq_def]
  split <;> simp_all
  obtain ⟨rfl, rfl⟩ := ‹_ ∧ _›
  simp

theorem strLoop_quote {q : Nat} (h92 : q ≠ 92) (h13 : q ≠ 13) (h10 : q ≠ 10) (r : List Nat)
    (hr : ∀ t, r ≠ q :: q :: t) : strLoop q true (q :: r) = bump 1 [q] (strLoop q true r) := by
  rcases r with _ | ⟨a, _ | ⟨b, t⟩⟩
  · simp [strLoop, h92, h13, h10]
  · simp [strLoop, h92, h13, h10]
  · have h : ¬ (a = q ∧ b = q) := by
      rintro ⟨rfl, rfl⟩; exact hr t rfl
    rw [strLoop.eq_def]
    simp [h92, h13, h10, h]

theorem isQuote_ne {q : Nat} (hq : isQuote q = true) : q ≠ 92 ∧ q ≠ 13 ∧ q ≠ 10 := by
  have : q = 34 ∨ q = 39 := by simpa [isQuote] using hq
  rcases this with rfl | rfl <;> decide

theorem quote_noBreak {q : Nat} (hq : isQuote q = true) : isLineBreak q = false := by
  have : q = 34 ∨ q = 39 := by simpa [isQuote] using hq
  rcases this with rfl | rfl <;> decide

/-- the string body loop: CR and CRLF are captured as LF; same value, same error kind -/
theorem strLoop_fold (q : Nat) (tr : Bool) (hq : isQuote q = true) (l : List Nat) :
    StrSim l (strLoop q tr l) (strLoop q tr (foldEol l)) := by
  obtain ⟨hq92, hq13, hq10⟩ := isQuote_ne hq
  fun_induction strLoop q tr l
  case case1 => simp [strLoop, StrSim]
  case case2 => simp [foldEol_cons_ne, strLoop, StrSim]
  case case3 r ih =>
    rw [foldEol_cons_ne (by decide), foldEol_crlf, strLoop_bs (by decide)]
    exact StrSim.bump rfl (by rw [foldEol_cons_ne (by decide), foldEol_crlf]; rfl) _ ih
  case case4 r hx ih =>
    have hr : r.head? ≠ some 10 := by
      intro h; cases r with
      | nil => simp at h
      | cons d t => simp at h; exact hx t (by rw [h])
    rw [foldEol_cons_ne (by decide), foldEol_cr hr, strLoop_bs (by decide)]
    exact StrSim.bump rfl (by rw [foldEol_cons_ne (by decide), foldEol_cr hr]; rfl) _ ih
  case case5 c r _ hc ih =>
    have hc' : c ≠ 13 := fun h => hc h
    rw [foldEol_cons_ne (by decide), foldEol_cons_ne hc', strLoop_bs hc']
    exact StrSim.bump rfl (by rw [foldEol_cons_ne (by decide), foldEol_cons_ne hc']; rfl) _ ih
  case case6 r htr ih =>
    subst htr
    rw [foldEol_crlf, strLoop_lf]; simp only [↓reduceIte]
    exact StrSim.bump rfl (by rw [foldEol_crlf]; rfl) _ ih
  case case7 r htr =>
    rw [foldEol_crlf, strLoop_lf]; simp [htr, StrSim]
  case case8 r hx htr ih =>
    have hr : r.head? ≠ some 10 := by
      intro h; cases r with
      | nil => simp at h
      | cons d t => simp at h; exact hx t (by rw [h])
    subst htr
    rw [foldEol_cr hr, strLoop_lf]; simp only [↓reduceIte]
    exact StrSim.bump rfl (by rw [foldEol_cr hr]; rfl) _ ih
  case case9 r hx htr =>
    have hr : r.head? ≠ some 10 := by
      intro h; cases r with
      | nil => simp at h
      | cons d t => simp at h; exact hx t (by rw [h])
    rw [foldEol_cr hr, strLoop_lf]; simp [htr, StrSim]
  case case10 r htr ih =>
    subst htr
    rw [foldEol_lf, strLoop_lf]; simp only [↓reduceIte]
    exact StrSim.bump rfl (by rw [foldEol_lf]; rfl) _ ih
  case case11 r htr =>
    rw [foldEol_lf, strLoop_lf]; simp [htr, StrSim]
  case case12 htr a b tail hab _ _ _ _ _ _ _ =>
    subst htr
    have ha : a = q := by simp at hab; exact hab.1
    have hb : b = q := by simp at hab; exact hab.2
    rw [ha, hb]
    rw [foldEol_cons_ne hq13, foldEol_cons_ne hq13, foldEol_cons_ne hq13, strLoop_close3 hq92 hq13 hq10]
    refine ⟨rfl, aligned_of_noBreak ?_⟩
    intro c hc
    have hcq : c = q := by simpa using hc
    rw [hcq]; exact quote_noBreak hq
  case case13 htr a b tail hab _ _ _ _ _ _ _ ih =>
    subst htr
    have hne : ∀ t, foldEol (a :: b :: tail) ≠ q :: q :: t := by
      intro t h
      rw [foldEol_eq_cons hq10 hq13] at h
      obtain ⟨y, hy, h2⟩ := h
      have h2' := h2.symm
      rw [foldEol_eq_cons hq10 hq13] at h2'
      obtain ⟨z, hz, _⟩ := h2'
      simp at hy
      obtain ⟨rfl, rfl⟩ := hy
      simp at hz
      obtain ⟨rfl, _⟩ := hz
      simp at hab
    rw [foldEol_cons_ne hq13, strLoop_quote hq92 hq13 hq10 _ hne]
    exact StrSim.bump rfl (by rw [foldEol_cons_ne hq13]; rfl) _ ih
  case case14 r htr hshort _ _ _ _ _ _ _ ih =>
    subst htr
    have hne : ∀ t, foldEol r ≠ q :: q :: t := by
      intro t h
      rw [foldEol_eq_cons hq10 hq13] at h
      obtain ⟨y, rfl, h2⟩ := h
      have h2' := h2.symm
      rw [foldEol_eq_cons hq10 hq13] at h2'
      obtain ⟨z, rfl, _⟩ := h2'
      exact hshort _ _ _ rfl
    rw [foldEol_cons_ne hq13, strLoop_quote hq92 hq13 hq10 _ hne]
    exact StrSim.bump rfl (by rw [foldEol_cons_ne hq13]; rfl) _ ih
  case case15 r htr _ _ _ _ _ _ _ =>
    have : tr = false := by simpa using htr
    subst this
    rw [foldEol_cons_ne hq13, strLoop_close1 hq92 hq13 hq10]
    refine ⟨rfl, aligned_of_noBreak ?_⟩
    intro c hc
    have hcq : c = q := by simpa using hc
    rw [hcq]; exact quote_noBreak hq
  case case16 c r h1 _ _ h4 _ h13 h10 hcq ih =>
    have hc13 : c ≠ 13 := fun h => h13 h
    have hc10 : c ≠ 10 := fun h => h10 h
    have hc92 : c ≠ 92 := by
      intro h
      cases r with
      | nil => exact h1 h rfl
      | cons d t => exact h4 d t h rfl
    rw [foldEol_cons_ne hc13, strLoop_plain hc92 hc13 hc10 hcq]
    exact StrSim.bump rfl (by rw [foldEol_cons_ne hc13]; rfl) _ ih


/-- a sub-lexer on the text and on the folded text: same token and aligned rests, or errors of the same kind -/
def SubSim (inp : List Nat) : Sub → Sub → Prop
  | .ok (t, n), .ok (t', n') => t = t' ∧ Aligned inp n n'
  | .error e, .error e' => e.kind = e'.kind
  | _, _ => False

theorem isTripleOpen_fold {q : Nat} (hq : isQuote q = true) (r : List Nat) :
    isTripleOpen q (foldEol r) = isTripleOpen q r := by
  obtain ⟨_, hq13, hq10⟩ := isQuote_ne hq
  by_cases h : ∃ t, r = q :: q :: t
  · obtain ⟨t, rfl⟩ := h
    simp [foldEol_cons_ne hq13, isTripleOpen]
  · have h1 : isTripleOpen q r = false := by
      rcases r with _ | ⟨a, _ | ⟨b, t⟩⟩ <;> simp [isTripleOpen]
      intro ha hb; subst ha; subst hb; exact h ⟨t, rfl⟩
    have h2 : isTripleOpen q (foldEol r) = false := by
      cases hfr : foldEol r with
      | nil => simp [isTripleOpen]
      | cons a t =>
        cases t with
        | nil => simp [isTripleOpen]
        | cons b t' =>
          simp only [isTripleOpen, Bool.and_eq_false_iff, decide_eq_false_iff_not]
          by_cases ha : a = q
          · right
            intro hb
            subst ha; subst hb
            rw [foldEol_eq_cons hq10 hq13] at hfr
            obtain ⟨y, rfl, h2⟩ := hfr
            have h2' := h2.symm
            rw [foldEol_eq_cons hq10 hq13] at h2'
            obtain ⟨z, rfl, _⟩ := h2'
            exact h ⟨z, rfl⟩
          · left; exact ha
    rw [h1, h2]

theorem lexString_fold (kind : StringKind) (inp : List Nat) (hp : NoBreak (inp.take kind.prefixLen))
    (hq : ∀ q r, inp.drop kind.prefixLen = q :: r → isQuote q = true) :
    SubSim inp (lexString kind inp) (lexString kind (foldEol inp)) := by
  have hal := aligned_of_noBreak hp
  unfold Aligned at hal
  unfold lexString
  rw [← hal]
  cases hd : inp.drop kind.prefixLen with
  | nil => simp [SubSim, panicErr]
  | cons q r =>
    have hqq := hq q r hd
    obtain ⟨_, hq13, hq10⟩ := isQuote_ne hqq
    rw [foldEol_cons_ne hq13]
    simp only [isTripleOpen_fold hqq]
    by_cases ht : isTripleOpen q r = true
    · simp only [ht, ↓reduceIte]
      obtain ⟨r2, rfl⟩ : ∃ r2, r = q :: q :: r2 := by
        rcases r with _ | ⟨a, _ | ⟨b, t⟩⟩ <;> simp [isTripleOpen] at ht
        obtain ⟨rfl, rfl⟩ := ht; exact ⟨t, rfl⟩
      rw [foldEol_cons_ne hq13, foldEol_cons_ne hq13]
      simp only [List.drop_succ_cons, List.drop_zero]
      have hs := strLoop_fold q true hqq r2
      have h1 : inp.drop (kind.prefixLen + 3) = r2 := by
        rw [← List.drop_drop, hd]; rfl
      have h2 : (foldEol inp).drop (kind.prefixLen + 3) = foldEol r2 := by
        rw [← List.drop_drop, ← hal, hd, foldEol_cons_ne hq13, foldEol_cons_ne hq13, foldEol_cons_ne hq13]; rfl
      cases ha : strLoop q true r2 with
      | error ea =>
        cases hb : strLoop q true (foldEol r2) with
        | error eb => obtain ⟨k1, o1⟩ := ea; obtain ⟨k2, o2⟩ := eb; simpa [ha, hb, StrSim, SubSim] using hs
        | ok pb => obtain ⟨k1, o1⟩ := ea; obtain ⟨v2, n2⟩ := pb; simp [ha, hb, StrSim] at hs
      | ok pa =>
        cases hb : strLoop q true (foldEol r2) with
        | error eb => obtain ⟨v1, n1⟩ := pa; obtain ⟨k2, o2⟩ := eb; simp [ha, hb, StrSim] at hs
        | ok pb =>
          obtain ⟨v1, n1⟩ := pa; obtain ⟨v2, n2⟩ := pb
          simp only [ha, hb, StrSim] at hs
          simp only [SubSim]
          refine ⟨by rw [hs.1], ?_⟩
          have := aligned_shift h1 h2 hs.2
          simpa [Nat.add_comm, Nat.add_left_comm, Nat.add_assoc] using this
    · simp only [ht, Bool.false_eq_true, ↓reduceIte]
      have hs := strLoop_fold q false hqq r
      have h1 : inp.drop (kind.prefixLen + 1) = r := by
        rw [← List.drop_drop, hd]; rfl
      have h2 : (foldEol inp).drop (kind.prefixLen + 1) = foldEol r := by
        rw [← List.drop_drop, ← hal, hd, foldEol_cons_ne hq13]; rfl
      cases ha : strLoop q false r with
      | error ea =>
        cases hb : strLoop q false (foldEol r) with
        | error eb => obtain ⟨k1, o1⟩ := ea; obtain ⟨k2, o2⟩ := eb; simpa [ha, hb, StrSim, SubSim] using hs
        | ok pb => obtain ⟨k1, o1⟩ := ea; obtain ⟨v2, n2⟩ := pb; simp [ha, hb, StrSim] at hs
      | ok pa =>
        cases hb : strLoop q false (foldEol r) with
        | error eb => obtain ⟨v1, n1⟩ := pa; obtain ⟨k2, o2⟩ := eb; simp [ha, hb, StrSim] at hs
        | ok pb =>
          obtain ⟨v1, n1⟩ := pa; obtain ⟨v2, n2⟩ := pb
          simp only [ha, hb, StrSim] at hs
          simp only [SubSim]
          refine ⟨by rw [hs.1], ?_⟩
          have := aligned_shift h1 h2 hs.2
          simpa [Nat.add_comm, Nat.add_left_comm, Nat.add_assoc] using this


theorem isIdCont_break {up : UParams} (hs : up.Sane) {d : Nat} (hd : isLineBreak d = true) : isIdCont up d = false := by
  rcases isLineBreak_cases hd with rfl | rfl
  · simp [isIdCont, isAsciiLetter, isDigit, hs.lf]
  · simp [isIdCont, isAsciiLetter, isDigit, hs.cr]

theorem lexName_snd (up : UParams) (inp : List Nat) : (lexName up inp).2 = (scanFold (isIdCont up) inp).2 := by
  unfold lexName
  simp only []
  cases Kw.ofName (scanFold (isIdCont up) inp).1 <;> rfl

theorem lexName_fold {up : UParams} (hs : up.Sane) (inp : List Nat) :
    SubSim inp (.ok (lexName up inp)) (.ok (lexName up (foldEol inp))) := by
  obtain ⟨h1, h2⟩ := scanFold_fold (p := isIdCont up) (isIdCont_break hs (by decide)) (isIdCont_break hs (by decide)) inp
  have e : lexName up (foldEol inp) = lexName up inp := by unfold lexName; rw [h1]
  rw [e]
  have hn := lexName_snd up inp
  cases hl : lexName up inp with
  | mk tok n =>
    rw [hl] at hn
    simp only [SubSim, true_and]
    simp only [] at hn
    refine aligned_of_noBreak ?_
    rw [hn]; exact h2

theorem ofChar_noBreak {c : Nat} {k : StringKind} (h : StringKind.ofChar c = some k) : isLineBreak c = false := by
  by_cases hc : isLineBreak c = true
  · rcases isLineBreak_cases hc with rfl | rfl <;> simp [StringKind.ofChar] at h
  · simpa using hc

theorem ofChars_noBreak {c d : Nat} {k : StringKind} (h : StringKind.ofChars c d = some k) :
    isLineBreak c = false ∧ isLineBreak d = false := by
  constructor
  · by_cases hc : isLineBreak c = true
    · rcases isLineBreak_cases hc with rfl | rfl <;> simp [StringKind.ofChars] at h
    · simpa using hc
  · by_cases hc : isLineBreak d = true
    · rcases isLineBreak_cases hc with rfl | rfl <;> simp [StringKind.ofChars] at h
    · simpa using hc


theorem SubSim.refl_noBreak {inp : List Nat} {t : Tok} {n : Nat} (h : NoBreak (inp.take n)) :
    SubSim inp (.ok (t, n)) (.ok (t, n)) := ⟨rfl, aligned_of_noBreak h⟩

theorem isQuote_break {d : Nat} (hd : isLineBreak d = true) : isQuote d = false := by
  rcases isLineBreak_cases hd with rfl | rfl <;> decide

theorem ofChars_break {c d : Nat} (hd : isLineBreak d = true) : StringKind.ofChars c d = none := by
  rcases isLineBreak_cases hd with rfl | rfl <;> simp [StringKind.ofChars]

/-- the head of the folded text is a quote iff the head of the text is -/
theorem headQuote_fold (l : List Nat) :
    (match foldEol l with | q :: _ => isQuote q | [] => false) = (match l with | q :: _ => isQuote q | [] => false) := by
  cases l with
  | nil => simp
  | cons d t =>
    by_cases hd : d = 13
    · subst hd
      obtain ⟨r', hr⟩ := foldEol_break_head (d := 13) (by decide) t
      rw [hr]; simp [isQuote]
    · rw [foldEol_cons_ne hd]

theorem lexIdentifier_fold {up : UParams} (hs : up.Sane) (c : Nat) (cs : List Nat) (hc : isLineBreak c = false) :
    SubSim (c :: cs) (lexIdentifier up (c :: cs)) (lexIdentifier up (foldEol (c :: cs))) := by
  have hc13 : c ≠ 13 := by intro h; subst h; simp [isLineBreak] at hc
  have hN := lexName_fold hs (c :: cs)
  rw [foldEol_cons_ne hc13] at hN ⊢
  cases cs with
  | nil => simpa [lexIdentifier] using hN
  | cons q rest =>
    by_cases hq13 : q = 13
    · -- the second character is a CR: no string prefix either way
      subst hq13
      obtain ⟨r', hr⟩ := foldEol_break_head (d := 13) (by decide) rest
      rw [hr] at hN ⊢
      have e1 : lexIdentifier up (c :: 13 :: rest) = .ok (lexName up (c :: 13 :: rest)) := by
        unfold lexIdentifier
        simp only [show isQuote 13 = false by decide, Bool.false_eq_true, ↓reduceIte]
        cases rest with
        | nil => rfl
        | cons q2 t => simp only [ofChars_break (c := c) (d := 13) (by decide)]; split <;> rfl
      have e2 : lexIdentifier up (c :: 10 :: r') = .ok (lexName up (c :: 10 :: r')) := by
        unfold lexIdentifier
        simp only [show isQuote 10 = false by decide, Bool.false_eq_true, ↓reduceIte]
        cases r' with
        | nil => rfl
        | cons q2 t => simp only [ofChars_break (c := c) (d := 10) (by decide)]; split <;> rfl
      rw [e1, e2]; exact hN
    · rw [foldEol_cons_ne hq13] at hN ⊢
      unfold lexIdentifier
      by_cases hq : isQuote q = true
      · simp only [hq, ↓reduceIte]
        cases hk : StringKind.ofChar c with
        | none => exact hN
        | some kind =>
          have hpl := ofChar_prefixLen hk
          have := lexString_fold kind (c :: q :: rest)
            (by rw [hpl]; intro d hd; simp at hd; subst hd; exact hc)
            (by rw [hpl]; intro q' r' h; simp at h; rw [← h.1]; exact hq)
          rw [foldEol_cons_ne hc13, foldEol_cons_ne hq13] at this
          exact this
      · simp only [hq, Bool.false_eq_true, ↓reduceIte]
        have hh := headQuote_fold rest
        cases rest with
        | nil => simpa using hN
        | cons q2 t =>
          simp only [] at hh
          by_cases hq2 : isQuote q2 = true
          · have hq2' : q2 ≠ 13 := by intro h; subst h; simp [isQuote] at hq2
            rw [foldEol_cons_ne hq2'] at hN ⊢
            simp only [hq2, ↓reduceIte]
            cases hk : StringKind.ofChars c q with
            | none => exact hN
            | some kind =>
              have hpl := ofChars_prefixLen hk
              obtain ⟨b1, b2⟩ := ofChars_noBreak hk
              have := lexString_fold kind (c :: q :: q2 :: t)
                (by rw [hpl]; intro d hd; simp at hd; rcases hd with rfl | rfl <;> assumption)
                (by rw [hpl]; intro q' r' h; simp at h; rw [← h.1]; exact hq2)
              rw [foldEol_cons_ne hc13, foldEol_cons_ne hq13, foldEol_cons_ne hq2'] at this
              exact this
          · -- the third character is no quote, folded or not
            have hf : (match foldEol (q2 :: t) with | q :: _ => isQuote q | [] => false) = false := by
              rw [hh]; simpa using hq2
            cases hfr : foldEol (q2 :: t) with
            | nil => rw [hfr] at hN; simp only [hq2]; exact hN
            | cons q3 t3 =>
              rw [hfr] at hN hf
              simp only [] at hf
              simp only [hq2, hf, Bool.false_eq_true, ↓reduceIte]
              exact hN


/-- a step on the text and on the folded text -/
def StepSim (inp : List Nat) : Except ErrRel StepOut → Except ErrRel StepOut → Prop
  | .ok o, .ok o' =>
    o.toks.map (·.tok) = o'.toks.map (·.tok) ∧ o.st = o'.st ∧ o.done = o'.done ∧ Aligned inp o.consumed o'.consumed
  | .error e, .error e' => e.kind = e'.kind
  | _, _ => False

theorem ofSub_sim {inp : List Nat} (st : LexState) {a b : Sub} (h : SubSim inp a b) :
    StepSim inp (ofSub st a) (ofSub st b) := by
  cases a with
  | error ea => cases b with
    | error eb => simpa [SubSim, StepSim, ofSub] using h
    | ok pb => obtain ⟨t, n⟩ := pb; simp [SubSim] at h
  | ok pa => cases b with
    | error eb => obtain ⟨t, n⟩ := pa; simp [SubSim] at h
    | ok pb =>
      obtain ⟨t1, n1⟩ := pa; obtain ⟨t2, n2⟩ := pb
      simp only [SubSim] at h
      simp [StepSim, ofSub, one, h.1, h.2]

theorem spanLen_fold {p : Nat → Bool} (h10 : p 10 = false) (h13 : p 13 = false) (l : List Nat) :
    spanLen p (foldEol l) = spanLen p l ∧ NoBreak (l.take (spanLen p l)) := by
  induction l with
  | nil => simp [spanLen, NoBreak]
  | cons c cs ih =>
    by_cases hc : c = 13
    · subst hc
      obtain ⟨r', hr⟩ := foldEol_break_head (d := 13) (by decide) cs
      rw [hr]; simp [spanLen, h10, h13, NoBreak]
    · rw [foldEol_cons_ne hc]
      simp only [spanLen, ih.1]
      refine ⟨trivial, ?_⟩
      by_cases hp : p c = true
      · simp only [hp, ↓reduceIte, List.take_succ_cons]
        intro d hd
        rcases List.mem_cons.1 hd with rfl | hd
        · by_cases h : isLineBreak d = true
          · rcases isLineBreak_cases h with rfl | rfl <;> simp_all
          · simpa using h
        · exact ih.2 d hd
      · simp [hp, NoBreak]

theorem headIsDigit_fold (l : List Nat) : headIsDigit (foldEol l) = headIsDigit l := by
  cases l with
  | nil => simp
  | cons d t =>
    by_cases hd : d = 13
    · subst hd
      obtain ⟨r', hr⟩ := foldEol_break_head (d := 13) (by decide) t
      rw [hr]; simp [headIsDigit, isDigit]
    · rw [foldEol_cons_ne hd]; rfl

/-- a text that starts with a line break: one line end, then the rest -/
theorem eol_split {d : Nat} (hd : isLineBreak d = true) (t : List Nat) :
    ∃ e post, d :: t = e ++ post ∧ IsEol e ∧ NoFuse e post ∧ foldEol (d :: t) = 10 :: foldEol post := by
  rcases isLineBreak_cases hd with rfl | rfl
  · exact ⟨[10], t, rfl, .lf, (fun h => by cases h), foldEol_lf t⟩
  · cases t with
    | nil => exact ⟨[13], [], rfl, .cr, (fun _ => by simp), by simp [foldEol]⟩
    | cons a t' =>
      by_cases ha : a = 10
      · subst ha; exact ⟨[13, 10], t', rfl, .crlf, (fun h => by cases h), foldEol_crlf t'⟩
      · exact ⟨[13], a :: t', rfl, .cr, (fun _ => by simpa using ha), foldEol_cr (by simpa using ha)⟩


theorem noBreak_single {c : Nat} (hc : isLineBreak c = false) (cs : List Nat) : NoBreak ((c :: cs).take 1) := by
  intro d hd; simp at hd; subst hd; exact hc

theorem StepSim.one {inp : List Nat} (tok : Tok) {n : Nat} (st : LexState) (h : NoBreak (inp.take n)) :
    StepSim inp (.ok (one tok n st)) (.ok (one tok n st)) := by
  simp [StepSim, PV.Lexer.one, aligned_of_noBreak h]

theorem StepSim.skip {inp : List Nat} {n : Nat} (st : LexState) (h : NoBreak (inp.take n)) :
    StepSim inp (.ok (skip n st)) (.ok (skip n st)) := by
  simp [StepSim, PV.Lexer.skip, aligned_of_noBreak h]

/-- `consume_character` on a character that is not a line break -/
theorem consumeCharacter_fold {cfg : Cfg} (hf : cfg.fullLexer = false) (st : LexState) {c : Nat}
    (hc : isLineBreak c = false) (cs : List Nat) :
    StepSim (c :: cs) (consumeCharacter cfg st c cs) (consumeCharacter cfg st c (foldEol cs)) := by
  have hc13 : c ≠ 13 := by intro h; subst h; simp [isLineBreak] at hc
  have hfold : foldEol (c :: cs) = c :: foldEol cs := foldEol_cons_ne hc13 cs
  unfold consumeCharacter
  by_cases h1 : isDigit c = true
  · simp only [h1, ↓reduceIte]
    obtain ⟨n1, n2⟩ := lexNumber_fold (c :: cs)
    rw [hfold] at n1
    rw [n1]
    cases hN : lexNumber (c :: cs) with
    | error e => simp [StepSim, ofSub]
    | ok p => obtain ⟨t, n⟩ := p; exact ofSub_sim st (SubSim.refl_noBreak (n2 t n hN))
  simp only [h1, Bool.false_eq_true, ↓reduceIte]
  by_cases h2 : c = 35
  · subst h2
    simp only [↓reduceIte, hf, Bool.false_eq_true]
    obtain ⟨s1, s2⟩ := spanLen_fold (p := fun c => !isLineBreak c) (by decide) (by decide) (35 :: cs)
    rw [hfold] at s1
    unfold commentLen
    rw [s1]
    exact StepSim.skip st s2
  simp only [h2, ↓reduceIte]
  by_cases h3 : isQuote c = true
  · simp only [h3, ↓reduceIte]
    have := lexString_fold .string (c :: cs) (by simp [StringKind.prefixLen, NoBreak])
      (by intro q r h; simp [StringKind.prefixLen] at h; rw [← h.1]; exact h3)
    rw [hfold] at this
    exact ofSub_sim st this
  simp only [h3, Bool.false_eq_true, ↓reduceIte]
  by_cases h4 : c = 33
  · subst h4
    simp only [↓reduceIte]
    by_cases h61 : ∃ t, cs = 61 :: t
    · obtain ⟨t, rfl⟩ := h61
      rw [foldEol_cons_ne (by decide)]
      exact StepSim.one _ st (by intro d hd; simp at hd; rcases hd with rfl | rfl <;> decide)
    · split
      · rename_i t; exact absurd ⟨t, rfl⟩ h61
      · split
        · rename_i t heq
          rw [foldEol_eq_cons (by decide) (by decide)] at heq
          obtain ⟨y, rfl, _⟩ := heq
          exact absurd ⟨y, rfl⟩ h61
        · simp [StepSim]
  simp only [h4, ↓reduceIte]
  rw [headIsDigit_fold]
  by_cases h5 : (c = 46 && headIsDigit cs) = true
  · simp only [h5, ↓reduceIte]
    obtain ⟨n1, n2⟩ := lexNumber_fold (c :: cs)
    rw [hfold] at n1
    rw [n1]
    cases hN : lexNumber (c :: cs) with
    | error e => simp [StepSim, ofSub]
    | ok p => obtain ⟨t, n⟩ := p; exact ofSub_sim st (SubSim.refl_noBreak (n2 t n hN))
  simp only [h5, Bool.false_eq_true, ↓reduceIte]
  have hop := lexOp_fold (c :: cs)
  rw [hfold] at hop
  rw [hop]
  cases hO : lexOp (c :: cs) with
  | some p =>
    obtain ⟨o, n⟩ := p
    exact StepSim.one _ st (lexOp_noBreak hO)
  | none =>
    simp only []
    cases hob : openBracket c with
    | some o => exact StepSim.one _ _ (noBreak_single hc cs)
    | none =>
      simp only []
      cases hcb : closeBracket c with
      | some o =>
        simp only []
        by_cases hn : st.nesting = 0
        · simp [hn, StepSim]
        · simp only [hn, ↓reduceIte]; exact StepSim.one _ _ (noBreak_single hc cs)
      | none =>
        simp only [hc, Bool.false_eq_true, ↓reduceIte]
        by_cases h6 : isBlank c = true
        · simp only [h6, ↓reduceIte]
          obtain ⟨s1, s2⟩ := spanLen_fold (p := isBlank) (by decide) (by decide) (c :: cs)
          rw [hfold] at s1
          rw [s1]
          exact StepSim.skip st s2
        simp only [h6, Bool.false_eq_true, ↓reduceIte]
        by_cases h7 : c = 92
        · subst h7
          simp only [↓reduceIte]
          cases cs with
          | nil => simp [StepSim]
          | cons d t =>
            by_cases hd : isLineBreak d = true
            · obtain ⟨e, post, hsplit, he, hn, hfd⟩ := eol_split hd t
              rw [hfd]
              have n1 := nextChar_eol he hn
              rw [← hsplit] at n1
              have n2 : nextChar (10 :: foldEol post) = some (10, 1, foldEol post) := by simp [nextChar]
              simp only [hd, ↓reduceIte, n1, n2, show isLineBreak 10 = true by decide]
              by_cases hp : post = []
              · subst hp; simp [StepSim]
              · have hp' : post.isEmpty = false := by cases post <;> simp_all
                have hp'' : (foldEol post).isEmpty = false := by
                  cases hfp : foldEol post with
                  | nil => exact absurd (foldEol_eq_nil.1 hfp) hp
                  | cons _ _ => rfl
                simp only [hp', hp'', Bool.false_eq_true, ↓reduceIte]
                simp only [StepSim, PV.Lexer.skip, true_and]
                unfold Aligned
                rw [hsplit, foldEol_cons_ne (by decide), ← hsplit, hfd]
                have : (92 :: (e ++ post)).drop (1 + e.length) = post := by rw [Nat.add_comm]; simp
                rw [hsplit, this]
                simp
            · have hd13 : d ≠ 13 := by intro h; subst h; simp [isLineBreak] at hd
              rw [foldEol_cons_ne hd13]
              simp [hd, StepSim]
        simp only [h7, ↓reduceIte]
        by_cases h8 : cfg.up.emoji c = true
        · simp only [h8, ↓reduceIte]; exact StepSim.one _ st (noBreak_single hc cs)
        · simp [h8, StepSim]


theorem isIdStart_break {up : UParams} (hup : UpOk up) {d : Nat} (hd : isLineBreak d = true) : isIdStart up d = false := by
  have hx := hup.layoutChars d (Or.inr (Or.inl hd))
  rcases isLineBreak_cases hd with rfl | rfl <;> simp [isIdStart, isAsciiLetter, hx]

/-- `consume_normal` -/
theorem consumeNormal_fold {cfg : Cfg} (hup : UpOk cfg.up) (hf : cfg.fullLexer = false) (st : LexState)
    (inp : List Nat) : StepSim inp (consumeNormal cfg st inp) (consumeNormal cfg st (foldEol inp)) := by
  cases inp with
  | nil =>
    simp only [foldEol_nil, consumeNormal]
    cases consumeEof st with
    | error e => simp [StepSim]
    | ok o => simp [StepSim, Aligned]
  | cons c cs =>
    by_cases hc : isLineBreak c = true
    · obtain ⟨e, post, hsplit, he, hn, hfd⟩ := eol_split hc cs
      have hid := isIdStart_break hup hc
      have hid10 : isIdStart cfg.up 10 = false := isIdStart_break hup (by decide)
      rw [hfd]
      simp only [consumeNormal, hid, hid10, Bool.false_eq_true, ↓reduceIte]
      have h10 : consumeCharacter cfg st 10 (foldEol post) = _ :=
        consumeCharacter_eol hf st (e := [10]) (post := foldEol post) (c := 10) (cs := foldEol post) .lf
          (fun h => by cases h) rfl
      rw [consumeCharacter_eol hf st he hn hsplit.symm, h10]
      have hal : Aligned (c :: cs) e.length 1 := by
        unfold Aligned
        rw [hfd, hsplit]; simp
      by_cases hnest : st.nesting = 0
      · simp [hnest, StepSim, one, hal]
      · simp [hnest, StepSim, skip, hal]
    · have hc' : isLineBreak c = false := by simpa using hc
      have hc13 : c ≠ 13 := by intro h; subst h; simp [isLineBreak] at hc'
      rw [foldEol_cons_ne hc13]
      simp only [consumeNormal]
      by_cases hid : isIdStart cfg.up c = true
      · simp only [hid, ↓reduceIte]
        have := lexIdentifier_fold hup.sane c cs hc'
        rw [foldEol_cons_ne hc13] at this
        exact ofSub_sim st this
      · simp only [hid, Bool.false_eq_true, ↓reduceIte]
        exact consumeCharacter_fold hf st hc' cs


/-! ### `eat_indentation` -/

def EatSim (l : List Nat) : Except ErrRel EatOut → Except ErrRel EatOut → Prop
  | .ok o, .ok o' => o.spaces = o'.spaces ∧ o.tabs = o'.tabs ∧ o.atBol = o'.atBol ∧ Aligned l o.pos o'.pos
  | .error e, .error e' => e.kind = e'.kind
  | _, _ => False

theorem EatSim.shift {l r : List Nat} {k k' : Nat} (h1 : l.drop k = r) (h2 : (foldEol l).drop k' = foldEol r)
    {a b} (h : EatSim r a b) : EatSim l (eatShift k a) (eatShift k' b) := by
  cases a with
  | error ea => cases b with
    | error eb => simpa [EatSim, eatShift, ErrRel.shift] using h
    | ok ob => simp [EatSim] at h
  | ok oa => cases b with
    | error eb => simp [EatSim] at h
    | ok ob =>
      simp only [EatSim, eatShift] at h ⊢
      exact ⟨h.1, h.2.1, h.2.2.1, aligned_shift h1 h2 h.2.2.2⟩

theorem eatIndent_at (l : List Nat) (p s t : Nat) :
    eatIndent false l 0 p s t = eatShift p (eatIndent false l 0 0 s t) := by
  have := eatIndent_shift p l 0 0 s t
  simpa using this

theorem eatIndent_fold : ∀ (n : Nat) (l : List Nat), l.length ≤ n → ∀ (s t : Nat),
    EatSim l (eatIndent false l 0 0 s t) (eatIndent false (foldEol l) 0 0 s t) := by
  intro n
  induction n with
  | zero =>
    intro l hl s t
    have : l = [] := List.eq_nil_of_length_eq_zero (by omega)
    subst this
    simp [eatIndent, EatSim, Aligned]
  | succ n ih =>
    intro l hl s t
    cases l with
    | nil => simp [eatIndent, EatSim, Aligned]
    | cons c cs =>
      have hcs : cs.length ≤ n := by simp at hl; omega
      by_cases hbrk : isLineBreak c = true
      · obtain ⟨e, post, hsplit, he, hn, hfd⟩ := eol_split hbrk cs
        rw [hfd, hsplit]
        have e1 := eatIndent_eol he hn 0 s t
        have e2 := eatIndent_eol (e := [10]) (post := foldEol post) .lf (fun h => by cases h) 0 s t
        simp only [Nat.zero_add, List.singleton_append, List.length_singleton] at e1 e2
        rw [e1, e2, eatIndent_at post e.length, eatIndent_at (foldEol post) 1]
        have hpl : post.length ≤ n := by
          have := congrArg List.length hsplit
          simp at this
          have : 1 ≤ e.length := by cases he <;> simp
          omega
        exact EatSim.shift (l := e ++ post) (r := post) (k := e.length) (k' := 1) (by simp)
          (by rw [← hsplit, hfd]; rfl) (ih post hpl 0 0)
      · have hc' : isLineBreak c = false := by simpa using hbrk
        have hc13 : c ≠ 13 := by intro h; subst h; simp [isLineBreak] at hc'
        have hc10 : c ≠ 10 := by intro h; subst h; simp [isLineBreak] at hc'
        have hfold : foldEol (c :: cs) = c :: foldEol cs := foldEol_cons_ne hc13 cs
        rw [hfold]
        have hshift1 : ∀ {a b}, EatSim cs a b → EatSim (c :: cs) (eatShift 1 a) (eatShift 1 b) :=
          fun h => EatSim.shift rfl (by rw [hfold]; rfl) h
        by_cases h32 : c = 32
        · subst h32
          simp only [eatIndent, Nat.zero_add]
          rw [eatIndent_at, eatIndent_at (foldEol cs)]
          exact hshift1 (ih cs hcs _ _)
        by_cases h9 : c = 9
        · subst h9
          simp only [eatIndent, Nat.zero_add]
          by_cases hs : s ≠ 0
          · simp [hs, EatSim]
          · simp only [hs, ↓reduceIte]
            rw [eatIndent_at, eatIndent_at (foldEol cs)]
            exact hshift1 (ih cs hcs _ _)
        by_cases h12 : c = 12
        · subst h12
          simp only [eatIndent, Nat.zero_add]
          rw [eatIndent_at, eatIndent_at (foldEol cs)]
          exact hshift1 (ih cs hcs _ _)
        by_cases h35 : c = 35
        · subst h35
          obtain ⟨s1, s2⟩ := spanLen_fold (p := fun c => !isLineBreak c) (by decide) (by decide) cs
          simp only [eatIndent, addTok_false, Nat.zero_add, s1]
          generalize hm : spanLen (fun c => !isLineBreak c) cs = m at s1 s2
          have hm1 : m ≤ cs.length := by rw [← hm]; exact spanLen_le _ cs
          have hm2 : m ≤ (foldEol cs).length := by rw [← s1]; exact spanLen_le _ _
          rw [eatIndent_skip cs m 1 0 0 hm1, eatIndent_skip (foldEol cs) m 1 0 0 hm2]
          have hal := aligned_of_noBreak s2
          unfold Aligned at hal
          rw [← hal, eatIndent_at (cs.drop m) (1 + m), eatIndent_at (foldEol (cs.drop m)) (1 + m)]
          refine EatSim.shift (l := 35 :: cs) (r := cs.drop m) (k := 1 + m) (k' := 1 + m)
            (by rw [Nat.add_comm]; simp) ?_ (ih _ (by simp; omega) 0 0)
          rw [hfold, Nat.add_comm, ← List.drop_drop]
          simp [hal]
        · have : eatIndent false (c :: cs) 0 0 s t = .ok ⟨[], 0, s, t, false⟩ := by
            rw [eatIndent.eq_def]; split <;> simp_all
          rw [this]
          have : eatIndent false (c :: foldEol cs) 0 0 s t = .ok ⟨[], 0, s, t, false⟩ := by
            rw [eatIndent.eq_def]; split <;> simp_all
          rw [this]
          simp [EatSim, Aligned, hfold]


def HiSim (inp : List Nat) :
    Except ErrRel (List RelTok × Nat × LexState) → Except ErrRel (List RelTok × Nat × LexState) → Prop
  | .ok (toks, p, st), .ok (toks', p', st') => toks.map (·.tok) = toks'.map (·.tok) ∧ st = st' ∧ Aligned inp p p'
  | .error e, .error e' => e.kind = e'.kind
  | _, _ => False

theorem dedentLoop_zero (level : IndentLevel) (p : Nat) (stack : List IndentLevel) :
    dedentLoop level p stack = errShift p (dedentLoop level 0 stack) := by
  have := dedentLoop_shift p level 0 stack
  simpa using this

theorem handleIndentations_fold {cfg : Cfg} (hf : cfg.fullLexer = false) (st : LexState) (inp : List Nat) :
    HiSim inp (handleIndentations cfg st inp) (handleIndentations cfg st (foldEol inp)) := by
  have hE := eatIndent_fold inp.length inp (Nat.le_refl _) 0 0
  unfold handleIndentations
  rw [hf]
  cases ha : eatIndent false inp 0 0 0 0 with
  | error ea =>
    cases hb : eatIndent false (foldEol inp) 0 0 0 0 with
    | error eb => simpa [ha, hb, EatSim, HiSim] using hE
    | ok ob => simp [ha, hb, EatSim] at hE
  | ok oa =>
    cases hb : eatIndent false (foldEol inp) 0 0 0 0 with
    | error eb => simp [ha, hb, EatSim] at hE
    | ok ob =>
      simp only [ha, hb, EatSim] at hE
      obtain ⟨hs, ht, hbol, hal⟩ := hE
      have ta := eatIndent_toks _ _ _ _ _ _ ha
      have tb := eatIndent_toks _ _ _ _ _ _ hb
      have ba := eatIndent_bound _ _ _ _ _ _ ha (by simp)
      have bb := eatIndent_bound _ _ _ _ _ _ hb (by simp)
      simp only []
      by_cases hn : st.nesting ≠ 0
      · simp [hn, HiSim, ta, tb, hbol, hal]
      · simp only [hn, ↓reduceIte]
        cases hst : st.indents with
        | nil => simp [HiSim, panicErr]
        | cons cur rest =>
          simp only []
          rw [← hs, ← ht]
          cases hcmp : compareStrict ⟨oa.tabs, oa.spaces⟩ cur with
          | none => simp [HiSim]
          | some ord =>
            cases ord with
            | eq => simp [HiSim, ta, tb, hbol, hal]
            | gt =>
              have bb' : oa.spaces + oa.tabs ≤ ob.pos := by rw [hs, ht]; exact bb
              simp [HiSim, ta, tb, hbol, hal, ba, bb']
            | lt =>
              simp only []
              rw [dedentLoop_zero _ oa.pos, dedentLoop_zero _ ob.pos]
              cases dedentLoop ⟨oa.tabs, oa.spaces⟩ 0 (cur :: rest) with
              | error e => simp [errShift, HiSim, ErrRel.shift]
              | ok r => simp [errShift, HiSim, ta, tb, hbol, hal]


/-- one step of the lexer on the text and on its folded form -/
theorem step_fold {cfg : Cfg} (hup : UpOk cfg.up) (hf : cfg.fullLexer = false) (st : LexState) (inp : List Nat) :
    StepSim inp (step cfg st inp) (step cfg st (foldEol inp)) := by
  unfold step
  by_cases hb : st.atBol = true
  · simp only [hb, ↓reduceIte]
    have hH := handleIndentations_fold hf st inp
    cases ha : handleIndentations cfg st inp with
    | error ea =>
      cases hb' : handleIndentations cfg st (foldEol inp) with
      | error eb => simpa [ha, hb', HiSim, StepSim] using hH
      | ok rb => obtain ⟨t2, p2, s2⟩ := rb; simp [ha, hb', HiSim] at hH
    | ok ra =>
      obtain ⟨t1, p1, s1⟩ := ra
      cases hb' : handleIndentations cfg st (foldEol inp) with
      | error eb => simp [ha, hb', HiSim] at hH
      | ok rb =>
        obtain ⟨t2, p2, s2⟩ := rb
        simp only [ha, hb', HiSim] at hH
        obtain ⟨htk, hst, hal⟩ := hH
        subst hst
        simp only []
        have hal' := hal
        unfold Aligned at hal'
        rw [← hal']
        have hC := consumeNormal_fold hup hf s1 (inp.drop p1)
        cases hca : consumeNormal cfg s1 (inp.drop p1) with
        | error ea =>
          cases hcb : consumeNormal cfg s1 (foldEol (inp.drop p1)) with
          | error eb => simpa [hca, hcb, StepSim, ErrRel.shift] using hC
          | ok ob => simp [hca, hcb, StepSim] at hC
        | ok oa =>
          cases hcb : consumeNormal cfg s1 (foldEol (inp.drop p1)) with
          | error eb => simp [hca, hcb, StepSim] at hC
          | ok ob =>
            simp only [hca, hcb, StepSim] at hC
            obtain ⟨c1, c2, c3, c4⟩ := hC
            simp only [StepSim, List.map_append, List.map_map]
            refine ⟨?_, c2, c3, ?_⟩
            · have e1 : ((fun x : RelTok => x.tok) ∘ fun x => x.shift p1) = fun x : RelTok => x.tok := by
                funext x; simp [RelTok.shift]
              have e2 : ((fun x : RelTok => x.tok) ∘ fun x => x.shift p2) = fun x : RelTok => x.tok := by
                funext x; simp [RelTok.shift]
              rw [e1, e2, htk, c1]
            · have := aligned_shift (l := inp) (r := inp.drop p1) (k := p1) (k' := p2) rfl hal'.symm c4
              simpa [Nat.add_comm] using this
  · simp only [hb, Bool.false_eq_true, ↓reduceIte]
    exact consumeNormal_fold hup hf st inp

/-- **CR / CRLF folding does not change the run**: the lexer's run on a text and on its universal-newline
    normal form emit the same tokens and end the same way -/
theorem eolInv {cfg : Cfg} (hup : UpOk cfg.up) (hf : cfg.fullLexer = false) : EolInv cfg := by
  intro st x ts e
  constructor
  · intro h
    induction h with
    | @err st inp er h1 =>
      have hS := step_fold hup hf st inp
      rw [h1] at hS
      cases hb : step cfg st (foldEol inp) with
      | ok o => simp [hb, StepSim] at hS
      | error eb =>
        simp only [hb, StepSim] at hS
        rw [hS]; exact RunsTo.err hb
    | @done st inp o h1 hd =>
      have hS := step_fold hup hf st inp
      rw [h1] at hS
      cases hb : step cfg st (foldEol inp) with
      | error eb => simp [hb, StepSim] at hS
      | ok o' =>
        simp only [hb, StepSim] at hS
        rw [hS.1]; exact RunsTo.done hb (by rw [← hS.2.2.1]; exact hd)
    | @more st inp o ts' e' h1 hd _ ih =>
      have hS := step_fold hup hf st inp
      rw [h1] at hS
      cases hb : step cfg st (foldEol inp) with
      | error eb => simp [hb, StepSim] at hS
      | ok o' =>
        simp only [hb, StepSim] at hS
        obtain ⟨s1, s2, s3, s4⟩ := hS
        rw [s1]
        refine RunsTo.more hb (by rw [← s3]; exact hd) ?_
        unfold Aligned at s4
        rw [← s4, ← s2]; exact ih
  · intro h
    generalize hy : foldEol x = y at h
    induction h generalizing x with
    | @err st2 inp er h1 =>
      subst hy
      have hS := step_fold hup hf st2 x
      rw [h1] at hS
      cases ha : step cfg st2 x with
      | ok o => simp [ha, StepSim] at hS
      | error ea =>
        simp only [ha, StepSim] at hS
        rw [← hS]; exact RunsTo.err ha
    | @done st2 inp o h1 hd =>
      subst hy
      have hS := step_fold hup hf st2 x
      rw [h1] at hS
      cases ha : step cfg st2 x with
      | error ea => simp [ha, StepSim] at hS
      | ok o' =>
        simp only [ha, StepSim] at hS
        rw [← hS.1]; exact RunsTo.done ha (by rw [hS.2.2.1]; exact hd)
    | @more st2 inp o ts' e' h1 hd _ ih =>
      subst hy
      have hS := step_fold hup hf st2 x
      rw [h1] at hS
      cases ha : step cfg st2 x with
      | error ea => simp [ha, StepSim] at hS
      | ok o' =>
        simp only [ha, StepSim] at hS
        obtain ⟨s1, s2, s3, s4⟩ := hS
        rw [← s1]
        refine RunsTo.more ha (by rw [s3]; exact hd) ?_
        unfold Aligned at s4
        rw [s2]
        exact ih (x.drop o'.consumed) s4

end PV.C08
