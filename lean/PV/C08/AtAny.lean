import PV.C08.AnyLocal
import PV.C08.ThmTok
/-
  PV.C08.AtAny — the rules behind a token, with hypotheses on the ORIGINAL text only, at EVERY place: in front of a
  token (`x+y` → `x +y`, `f(a)` → `f(⏎a)`), in front of a layout character, at the end of the text.

  `runs_any_extend` / `at_any_extend`: if the lexer, run on `pre ++ post` (ANY `post`), is at a step boundary behind
  `pre`, then it is so on `pre ++ d' :: r'` for every layout character `d'` and every `r'` (same state, same tokens),
  unless `pre` ends with a CR and `d'` is LF, `pre` ends with a blank and `d'` is a blank, or the place is behind a
  comment and `d'` is not a line break.  Proof: `step_any_local` for every step of the run.

  `LayoutStep''` / `LayoutEq''`: the four rules behind a token with these side conditions instead of `At` for the
  rewritten text, `post` arbitrary — every preceding token kind (name, keyword, number, operator, bracket, string) and
  every following one.  `LayoutStep''.toLayoutStep`, `LayoutStep'.toLayoutStep''` (the rules of AtTok.lean are
  instances), and the main theorems for `LayoutEq''`.
-/
namespace PV.C08
open PV.Lexer

/-- **The run up to a place behind a token does not depend on the text behind it, as long as that starts with a layout
    character.**  `inp = s ++ post` for any `post`. -/
theorem runs_any_extend {cfg : Cfg} (hup : UpOk cfg.up) (hl : UpLay cfg.up) (hf : cfg.fullLexer = false)
    {st0 : LexState} {inp : List Nat} {ts : List Tok} {n : Nat} {st : LexState} (h : Runs cfg st0 inp ts n st) :
    ∀ {s post r' : List Nat} {d' : Nat}, inp = s ++ post → n = s.length → StInv st0 → Lay d' →
      (s.getLast? = some 13 → d' ≠ 10) → (∀ c, s.getLast? = some c → isBlank c = true → isBlank d' = false) →
      (BehindCommentR cfg st0 inp n → isLineBreak d' = true) →
      Runs cfg st0 (s ++ d' :: r') ts s.length st := by
  induction h with
  | nil st inp =>
    intro s post r' d' _ hn _ _ _ _ _
    have : s = [] := List.eq_nil_of_length_eq_zero hn.symm
    subst this; exact Runs.nil _ _
  | @cons st0 inp o ts n st ho hdone hrest ih =>
    intro s post r' d' hinp hn hi hd' hcr hbl hcm
    have hok := step_ok hup.sane hi ho
    have hpos := hok.2.1 hdone
    have hcs : o.consumed ≤ s.length := by omega
    have ho1 : step cfg st0 (s ++ post) = .ok o := by rw [← hinp]; exact ho
    have hsne : s ≠ [] := by intro h0; subst h0; simp at hcs; omega
    have ho2 : step cfg st0 (s ++ d' :: r') = .ok o := by
      refine step_any_local hup hl hf ho1 hdone hcs hd' r' (fun e => ⟨hcr, hbl, ?_⟩)
      intro hb h35
      apply hcm
      obtain ⟨t, rfl⟩ : ∃ t, s = 35 :: t := by
        cases s with
        | nil => exact absurd rfl hsne
        | cons x t => simp at h35; exact ⟨t, by rw [h35]⟩
      refine ⟨0, st0, [], Runs.nil _ _, by omega, hb, by rw [hinp]; rfl, ?_⟩
      have hstep := step_comment hup hf hb (t ++ post)
      rw [List.cons_append] at ho1
      rw [ho1] at hstep
      have hlen : o.consumed = commentLen (35 :: (t ++ post)) := by
        have := congrArg (fun x => match x with | Except.ok o => o.consumed | _ => 0) hstep
        simpa [skip] using this
      have hn0 : n = 0 := by omega
      rw [hinp, hn0, Nat.add_zero, Nat.sub_zero, List.drop_zero, hlen]
      intro x hx
      have := spanLen_take_all (fun c => !isLineBreak c) (35 :: (t ++ post)) x (by simpa [commentLen] using hx)
      simpa using this
    have hs2 : s = s.take o.consumed ++ s.drop o.consumed := (List.take_append_drop _ _).symm
    have hd1 : inp.drop o.consumed = s.drop o.consumed ++ post := by
      rw [hinp]; exact List.drop_append_of_le_length hcs
    have hlast : ∀ c, (s.drop o.consumed).getLast? = some c → s.getLast? = some c := by
      intro c hc
      rw [hs2, List.getLast?_append, hc]; rfl
    have hruns := ih (s := s.drop o.consumed) (post := post) (r' := r') (d' := d') hd1 (by simp; omega)
      hok.2.2.2.1 hd' (fun h13 => hcr (hlast _ h13)) (fun c hc => hbl c (hlast c hc))
      (by
        rintro ⟨a, sa, tsa, hra, h1, h2, h3, h4⟩
        apply hcm
        refine ⟨o.consumed + a, sa, _, Runs.cons ho hdone hra, by omega, h2, ?_, ?_⟩
        · rw [← List.drop_drop]; exact h3
        · rw [← List.drop_drop]
          have : o.consumed + n - (o.consumed + a) = n - a := by omega
          rw [this]; exact h4)
    have hd2 : (s ++ d' :: r').drop o.consumed = s.drop o.consumed ++ d' :: r' :=
      List.drop_append_of_le_length hcs
    have := Runs.cons ho2 hdone (by rw [hd2]; exact hruns)
    have hlen : s.length = o.consumed + (s.drop o.consumed).length := by simp; omega
    rw [hlen]; exact this

/-- **`At` for the text with a layout character (and anything behind it) put at a place behind a token** — whatever
    stood there: a token, layout, or the end of the text -/
theorem at_any_extend {cfg : Cfg} (hup : UpOk cfg.up) (hl : UpLay cfg.up) (hf : cfg.fullLexer = false)
    {pre post r' : List Nat} {d' : Nat} {st : LexState} {ts : List Tok}
    (h : At cfg (pre ++ post) pre.length st ts) (hd' : Lay d')
    (hcr : pre.getLast? = some 13 → d' ≠ 10)
    (hbl : ∀ c, pre.getLast? = some c → isBlank c = true → isBlank d' = false)
    (hcm : BehindComment cfg (pre ++ post) pre.length → isLineBreak d' = true) :
    At cfg (pre ++ d' :: r') pre.length st ts := by
  refine ⟨?_, runs_any_extend hup hl hf h.2 rfl rfl stInv_init hd' hcr hbl
    (fun hb => hcm ((behindComment_iff h.1 _).2 hb))⟩
  cases pre with
  | nil =>
    rcases hd' with rfl | rfl | rfl | rfl | rfl | rfl | rfl <;> simp
  | cons a p => simpa using h.1

/-! ## the rules behind a token: hypotheses on the original text only, any `post` -/

/-- One layout-only rewrite `a ↦ b`, hypotheses on the ORIGINAL text only, at every place.

    `eol`, `bom` and the three rules at the start of a line are those of `LayoutStep`.  The four rules behind a token are
    those of `LayoutStep` with the hypothesis `At … (rewritten text) …` REPLACED by:
      * `blanks`: `pre` does not end with a blank (insert at the front of a run of blanks), not behind a comment;
      * `commentAfter`, `backslashJoin`: not behind a comment;
      * `bracketBreak`: an LF is not put behind a CR.
    `post` is arbitrary (a token, layout, the end of the text), and so is the token in front of the place. -/
inductive LayoutStep'' (cfg : Cfg) : List Nat → List Nat → Prop
  | eol {a b} : foldEol a = foldEol b → LayoutStep'' cfg a b
  | bom {a} : a.head? ≠ some 0xFEFF → LayoutStep'' cfg a (0xFEFF :: a)
  | blankLine {pre post w c e st ts} :
      At cfg (pre ++ post) pre.length st ts →
      st.atBol = true → BolBlank w → (c = [] ∨ IsComment c) → IsEol e → NoFuse e post →
      (pre.getLast? = some 13 → (w ++ c ++ e).head? ≠ some 10) →
      LayoutStep'' cfg (pre ++ post) (pre ++ (w ++ c ++ e ++ post))
  | blankTail {pre w c st ts} :
      At cfg pre pre.length st ts →
      st.atBol = true → BolBlank w → (c = [] ∨ IsComment c) →
      LayoutStep'' cfg pre (pre ++ (w ++ c))
  | formFeed {pre post w st ts} :
      At cfg (pre ++ post) pre.length st ts →
      st.atBol = true → BolBlank w →
      LayoutStep'' cfg (pre ++ post) (pre ++ (w ++ 12 :: post))
  /-- blanks behind a token: between tokens, or in front of a line end / the end of the text (trailing whitespace) -/
  | blanks {pre post w st ts} :
      At cfg (pre ++ post) pre.length st ts →
      st.atBol = false → AllBlank w →
      (∀ c, pre.getLast? = some c → isBlank c = false) → ¬ BehindComment cfg (pre ++ post) pre.length →
      LayoutStep'' cfg (pre ++ post) (pre ++ (w ++ post))
  /-- a comment after code (in front of a line end or the end of the text) -/
  | commentAfter {pre post c st ts} :
      At cfg (pre ++ post) pre.length st ts →
      st.atBol = false → IsComment c → (post = [] ∨ ∃ d r, post = d :: r ∧ isLineBreak d = true) →
      ¬ BehindComment cfg (pre ++ post) pre.length →
      LayoutStep'' cfg (pre ++ post) (pre ++ (c ++ post))
  /-- explicit line joining: backslash + line end behind a token, not at the end of the text -/
  | backslashJoin {pre post e st ts} :
      At cfg (pre ++ post) pre.length st ts →
      st.atBol = false → IsEol e → NoFuse e post → post ≠ [] → ¬ BehindComment cfg (pre ++ post) pre.length →
      LayoutStep'' cfg (pre ++ post) (pre ++ (92 :: e ++ post))
  /-- a line break behind a token inside brackets -/
  | bracketBreak {pre post e st ts} :
      At cfg (pre ++ post) pre.length st ts →
      st.atBol = false → 0 < st.nesting → IsEol e → NoFuse e post →
      (pre.getLast? = some 13 → e.head? ≠ some 10) →
      LayoutStep'' cfg (pre ++ post) (pre ++ (e ++ post))

/-- layout equivalence generated by `LayoutStep''` -/
inductive LayoutEq'' (cfg : Cfg) : List Nat → List Nat → Prop
  | refl (a) : LayoutEq'' cfg a a
  | step {a b} : LayoutStep'' cfg a b → LayoutEq'' cfg a b
  | symm {a b} : LayoutEq'' cfg a b → LayoutEq'' cfg b a
  | trans {a b c} : LayoutEq'' cfg a b → LayoutEq'' cfg b c → LayoutEq'' cfg a c

/-- **Every `LayoutStep''` is a `LayoutStep`**: `At` for the rewritten text is derived. -/
theorem LayoutStep''.toLayoutStep {cfg : Cfg} (hup : UpOk cfg.up) (hl : UpLay cfg.up) (hf : cfg.fullLexer = false)
    {a b : List Nat} (h : LayoutStep'' cfg a b) : LayoutStep cfg a b := by
  cases h with
  | eol h => exact .eol h
  | bom h => exact .bom h
  | blankLine ha hb hw hc he hn hfuse => exact .blankLine ha hb hw hc he hn hfuse
  | blankTail ha hb hw hc => exact .blankTail ha hb hw hc
  | formFeed ha hb hw => exact .formFeed ha hb hw
  | blanks ha hb hw hlast hcm =>
    rename_i pre post w st ts
    refine .blanks ha ?_ hb hw
    cases w with
    | nil => simpa using ha
    | cons x w' =>
      have hx : isBlank x = true := hw x (by simp)
      have := at_any_extend hup hl hf ha (lay_of_blank hx) (r' := w' ++ post)
        (fun _ => by rcases isBlank_cases hx with rfl | rfl | rfl <;> decide)
        (fun c hc hcb => by rw [hlast c hc] at hcb; cases hcb)
        (fun hbc => absurd hbc hcm)
      simpa using this
  | commentAfter ha hb hc hp hcm =>
    rename_i pre post c st ts
    refine .commentAfter ha ?_ hb hc hp
    obtain ⟨t, rfl, _⟩ := hc
    have := at_any_extend hup hl hf ha (d' := 35) (by decide) (r' := t ++ post)
      (fun _ => by decide) (fun _ _ _ => by decide) (fun hbc => absurd hbc hcm)
    simpa using this
  | backslashJoin ha hb he hn hp hcm =>
    rename_i pre post e st ts
    refine .backslashJoin ha ?_ hb he hn hp
    have := at_any_extend hup hl hf ha (d' := 92) (by decide) (r' := e ++ post)
      (fun _ => by decide) (fun _ _ _ => by decide) (fun hbc => absurd hbc hcm)
    simpa using this
  | bracketBreak ha hb hnest he hn hfuse =>
    rename_i pre post e st ts
    refine .bracketBreak ha ?_ hb hnest he hn
    obtain ⟨x, et, rfl, hx⟩ := eol_cons he
    have := at_any_extend hup hl hf ha (lay_of_break hx) (r' := et ++ post)
      (fun h13 => by simpa using hfuse h13)
      (fun _ _ _ => by rcases isLineBreak_cases hx with rfl | rfl <;> decide)
      (fun _ => hx)
    simpa using this

theorem LayoutEq''.toLayoutEq {cfg : Cfg} (hup : UpOk cfg.up) (hl : UpLay cfg.up) (hf : cfg.fullLexer = false)
    {a b : List Nat} (h : LayoutEq'' cfg a b) : LayoutEq cfg a b := by
  induction h with
  | refl a => exact .refl a
  | step h => exact .step (h.toLayoutStep hup hl hf)
  | symm _ ih => exact .symm ih
  | trans _ _ ih1 ih2 => exact .trans ih1 ih2

/-- the rules of `LayoutStep'` (in front of a layout character) are instances -/
theorem LayoutStep'.toLayoutStep'' {cfg : Cfg} {a b : List Nat} (h : LayoutStep' cfg a b) : LayoutStep'' cfg a b := by
  cases h with
  | eol h => exact .eol h
  | bom h => exact .bom h
  | blankLine ha hb hw hc he hn hfuse => exact .blankLine ha hb hw hc he hn hfuse
  | blankTail ha hb hw hc => exact .blankTail ha hb hw hc
  | formFeed ha hb hw => exact .formFeed ha hb hw
  | blanks ha hb hw _ hlast hcm => exact .blanks ha hb hw hlast hcm
  | commentAfter ha hb hc hd hcm => exact .commentAfter ha hb hc (Or.inr ⟨_, _, rfl, hd⟩) hcm
  | backslashJoin ha hb he hn _ hcm => exact .backslashJoin ha hb he hn (by simp) hcm
  | bracketBreak ha hb hnest he hn _ hfuse => exact .bracketBreak ha hb hnest he hn hfuse

theorem LayoutEq'.toLayoutEq'' {cfg : Cfg} {a b : List Nat} (h : LayoutEq' cfg a b) : LayoutEq'' cfg a b := by
  induction h with
  | refl a => exact .refl a
  | step h => exact .step h.toLayoutStep''
  | symm _ ih => exact .symm ih
  | trans _ _ ih1 ih2 => exact .trans ih1 ih2

/-! ## the main theorems -/

/-- **Layout never changes the token stream** (`LayoutEq''`: hypotheses on the original texts only, every place) -/
theorem lex_layout_invariant_any {cfg : Cfg} (hup : UpOk cfg.up) (hl : UpLay cfg.up) (hf : cfg.fullLexer = false)
    {a b : List Nat} (h : LayoutEq'' cfg a b) (mode : Mode) (start : Nat)
    (ha : start + utf8Len a ≤ u32Max) (hb : start + utf8Len b ≤ u32Max) :
    eraseRanges (lex cfg mode start a) = eraseRanges (lex cfg mode start b) :=
  lex_layout_invariant hup hf (h.toLayoutEq hup hl hf) mode start ha hb

theorem lex_layout_invariant_runs_any {cfg : Cfg} (hup : UpOk cfg.up) (hl : UpLay cfg.up) (hf : cfg.fullLexer = false)
    {a b : List Nat} (h : LayoutEq'' cfg a b) : ∀ ts e, LexRun cfg a ts e ↔ LexRun cfg b ts e :=
  lex_layout_invariant_runs hup hf (h.toLayoutEq hup hl hf)

/-- **Layout never changes the tree** (on the models; `LayoutEq''`) -/
theorem layout_tree_invariant_any (conv : Tok → Option PV.Prog.PTok) {cfg : Cfg} (hup : UpOk cfg.up)
    (hl : UpLay cfg.up) (hf : cfg.fullLexer = false) {a b : List Nat} (h : LayoutEq'' cfg a b) (pmode : PV.Prog.Mode)
    (mode : Mode) (start : Nat) (ha : start + utf8Len a ≤ u32Max) (hb : start + utf8Len b ≤ u32Max) :
    parseText conv cfg pmode mode start a = parseText conv cfg pmode mode start b :=
  layout_tree_invariant conv hup hf (h.toLayoutEq hup hl hf) pmode mode start ha hb

/-! ## worked derivations: only the run on the ORIGINAL text is given -/

theorem noHash_of_all {pre : List Nat} (h : ∀ c ∈ pre, c ≠ 35) :
    ∀ a, a < pre.length → (pre.drop a).head? = some 35 → ¬ NoBreak (pre.drop a) := by
  intro a _ h35
  exfalso
  cases hp : pre.drop a with
  | nil => rw [hp] at h35; cases h35
  | cons x t =>
    rw [hp] at h35
    have hx : x = 35 := by simpa using h35
    exact h x (List.mem_of_mem_drop (by rw [hp]; simp)) hx

/-- `x+y`  ~  `x␠+y`  ~  `x␠+␠y`: blanks between tokens, behind a name and behind an operator -/
theorem layoutEq_any_blanks_example : LayoutEq'' asciiCfg [120, 43, 121] [120, 32, 43, 32, 121] := by
  have h1 : step asciiCfg .init [120, 43, 121] = .ok ⟨[⟨.name [120], 0, 1⟩], 1, ⟨false, 0, [⟨0, 0⟩]⟩, false⟩ := by rfl
  have g1 : step asciiCfg .init [120, 32, 43, 121] = .ok ⟨[⟨.name [120], 0, 1⟩], 1, ⟨false, 0, [⟨0, 0⟩]⟩, false⟩ := by rfl
  have g2 : step asciiCfg ⟨false, 0, [⟨0, 0⟩]⟩ [32, 43, 121] = .ok ⟨[], 1, ⟨false, 0, [⟨0, 0⟩]⟩, false⟩ := by rfl
  have g3 : step asciiCfg ⟨false, 0, [⟨0, 0⟩]⟩ [43, 121] = .ok ⟨[⟨.op .Plus, 0, 1⟩], 1, ⟨false, 0, [⟨0, 0⟩]⟩, false⟩ := by rfl
  refine .trans (.step (LayoutStep''.blanks (pre := [120]) (post := [43, 121]) (w := [32])
    (st := ⟨false, 0, [⟨0, 0⟩]⟩) (ts := [.name [120]]) ⟨by decide, Runs.cons h1 rfl (Runs.nil _ _)⟩ rfl
    (by intro c hc; simp at hc; subst hc; decide) (by intro c hc; simp at hc; subst hc; decide)
    (not_behindComment_of_noHash (pre := [120]) (post := [43, 121]) (noHash_of_all (by decide)))))
    (.step (LayoutStep''.blanks (pre := [120, 32, 43]) (post := [121]) (w := [32])
    (st := ⟨false, 0, [⟨0, 0⟩]⟩) (ts := [.name [120], .op .Plus])
    ⟨by decide, Runs.cons g1 rfl (Runs.cons g2 rfl (Runs.cons g3 rfl (Runs.nil _ _)))⟩ rfl
    (by intro c hc; simp at hc; subst hc; decide) (by intro c hc; simp at hc; subst hc; decide)
    (not_behindComment_of_noHash (pre := [120, 32, 43]) (post := [121]) (noHash_of_all (by decide)))))

/-- `f(a)`  ~  `f(⏎a)`  ~  `f(⏎a\⏎)`: a line break behind the opening bracket, directly in front of a token; a backslash
    join behind the name `a`, directly in front of the closing bracket -/
theorem layoutEq_any_bracket_example : LayoutEq'' asciiCfg [102, 40, 97, 41] [102, 40, 10, 97, 92, 10, 41] := by
  have h1 : step asciiCfg .init [102, 40, 97, 41] = .ok ⟨[⟨.name [102], 0, 1⟩], 1, ⟨false, 0, [⟨0, 0⟩]⟩, false⟩ := by rfl
  have h2 : step asciiCfg ⟨false, 0, [⟨0, 0⟩]⟩ [40, 97, 41] = .ok ⟨[⟨.op .Lpar, 0, 1⟩], 1, ⟨false, 1, [⟨0, 0⟩]⟩, false⟩ := by rfl
  have g1 : step asciiCfg .init [102, 40, 10, 97, 41] = .ok ⟨[⟨.name [102], 0, 1⟩], 1, ⟨false, 0, [⟨0, 0⟩]⟩, false⟩ := by rfl
  have g2 : step asciiCfg ⟨false, 0, [⟨0, 0⟩]⟩ [40, 10, 97, 41] = .ok ⟨[⟨.op .Lpar, 0, 1⟩], 1, ⟨false, 1, [⟨0, 0⟩]⟩, false⟩ := by rfl
  have g3 : step asciiCfg ⟨false, 1, [⟨0, 0⟩]⟩ [10, 97, 41] = .ok ⟨[], 1, ⟨false, 1, [⟨0, 0⟩]⟩, false⟩ := by rfl
  have g4 : step asciiCfg ⟨false, 1, [⟨0, 0⟩]⟩ [97, 41] = .ok ⟨[⟨.name [97], 0, 1⟩], 1, ⟨false, 1, [⟨0, 0⟩]⟩, false⟩ := by rfl
  refine .trans (.step (LayoutStep''.bracketBreak (pre := [102, 40]) (post := [97, 41]) (e := [10])
    (st := ⟨false, 1, [⟨0, 0⟩]⟩) (ts := [.name [102], .op .Lpar])
    ⟨by decide, Runs.cons h1 rfl (Runs.cons h2 rfl (Runs.nil _ _))⟩ rfl (by decide) .lf (by intro h; cases h)
    (by intro h; simp at h)))
    (.step (LayoutStep''.backslashJoin (pre := [102, 40, 10, 97]) (post := [41]) (e := [10])
    (st := ⟨false, 1, [⟨0, 0⟩]⟩) (ts := [.name [102], .op .Lpar, .name [97]])
    ⟨by decide, Runs.cons g1 rfl (Runs.cons g2 rfl (Runs.cons g3 rfl (Runs.cons g4 rfl (Runs.nil _ _))))⟩ rfl .lf
    (by intro h; cases h) (by simp)
    (not_behindComment_of_noHash (pre := [102, 40, 10, 97]) (post := [41]) (noHash_of_all (by decide)))))

/-- `x=1`  ~  `x=1␠#c`: trailing blanks and a comment behind a NUMBER at the very end of the text -/
theorem layoutEq_any_eof_example : LayoutEq'' asciiCfg [120, 61, 49] [120, 61, 49, 32, 35, 99] := by
  have h1 : step asciiCfg .init [120, 61, 49] = .ok ⟨[⟨.name [120], 0, 1⟩], 1, ⟨false, 0, [⟨0, 0⟩]⟩, false⟩ := by rfl
  have h2 : step asciiCfg ⟨false, 0, [⟨0, 0⟩]⟩ [61, 49] = .ok ⟨[⟨.op .Equal, 0, 1⟩], 1, ⟨false, 0, [⟨0, 0⟩]⟩, false⟩ := by rfl
  have h3 : step asciiCfg ⟨false, 0, [⟨0, 0⟩]⟩ [49] = .ok ⟨[⟨.int 1, 0, 1⟩], 1, ⟨false, 0, [⟨0, 0⟩]⟩, false⟩ := by rfl
  have g1 : step asciiCfg .init [120, 61, 49, 32] = .ok ⟨[⟨.name [120], 0, 1⟩], 1, ⟨false, 0, [⟨0, 0⟩]⟩, false⟩ := by rfl
  have g2 : step asciiCfg ⟨false, 0, [⟨0, 0⟩]⟩ [61, 49, 32] = .ok ⟨[⟨.op .Equal, 0, 1⟩], 1, ⟨false, 0, [⟨0, 0⟩]⟩, false⟩ := by rfl
  have g3 : step asciiCfg ⟨false, 0, [⟨0, 0⟩]⟩ [49, 32] = .ok ⟨[⟨.int 1, 0, 1⟩], 1, ⟨false, 0, [⟨0, 0⟩]⟩, false⟩ := by rfl
  have g4 : step asciiCfg ⟨false, 0, [⟨0, 0⟩]⟩ [32] = .ok ⟨[], 1, ⟨false, 0, [⟨0, 0⟩]⟩, false⟩ := by rfl
  have a1 : At asciiCfg ([120, 61, 49] ++ []) 3 ⟨false, 0, [⟨0, 0⟩]⟩ [.name [120], .op .Equal, .int 1] :=
    ⟨by decide, Runs.cons h1 rfl (Runs.cons h2 rfl (Runs.cons h3 rfl (Runs.nil _ _)))⟩
  have a2 : At asciiCfg ([120, 61, 49, 32] ++ []) 4 ⟨false, 0, [⟨0, 0⟩]⟩ [.name [120], .op .Equal, .int 1] :=
    ⟨by decide, Runs.cons g1 rfl (Runs.cons g2 rfl (Runs.cons g3 rfl (Runs.cons g4 rfl (Runs.nil _ _))))⟩
  refine .trans (.step (LayoutStep''.blanks (pre := [120, 61, 49]) (post := []) (w := [32]) a1 rfl
    (by intro c hc; simp at hc; subst hc; decide) (by intro c hc; simp at hc; subst hc; decide)
    (not_behindComment_of_noHash (pre := [120, 61, 49]) (post := []) (noHash_of_all (by decide)))))
    (.step (LayoutStep''.commentAfter (pre := [120, 61, 49, 32]) (post := []) (c := [35, 99]) a2 rfl
    ⟨[99], rfl, by intro c hc; simp at hc; subst hc; decide⟩ (Or.inl rfl)
    (not_behindComment_of_noHash (pre := [120, 61, 49, 32]) (post := []) (noHash_of_all (by decide)))))

/-- … and the theorems apply -/
example : eraseRanges (lex asciiCfg .module 0 [120, 43, 121]) =
    eraseRanges (lex asciiCfg .module 0 [120, 32, 43, 32, 121]) :=
  lex_layout_invariant_any asciiUp_ok asciiUp_lay rfl layoutEq_any_blanks_example .module 0 (by decide) (by decide)

example : eraseRanges (lex asciiCfg .module 0 [102, 40, 97, 41]) =
    eraseRanges (lex asciiCfg .module 0 [102, 40, 10, 97, 92, 10, 41]) :=
  lex_layout_invariant_any asciiUp_ok asciiUp_lay rfl layoutEq_any_bracket_example .module 0 (by decide) (by decide)

example : eraseRanges (lex asciiCfg .module 0 [120, 61, 49]) =
    eraseRanges (lex asciiCfg .module 0 [120, 61, 49, 32, 35, 99]) :=
  lex_layout_invariant_any asciiUp_ok asciiUp_lay rfl layoutEq_any_eof_example .module 0 (by decide) (by decide)

end PV.C08
