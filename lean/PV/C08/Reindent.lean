import PV.C08.Lemmas
/-
  PV.C08.Reindent — consistent re-indentation (other width, tabs for spaces) does not change the token stream.

  Part 1 (this file, no look-ahead reasoning): the indentation STACK level.
    * `SimLevel`, `Increasing`, `SimStack`, `SimSt`: when two indentation stacks / lexer states are similar;
    * `dedentLoop_sim`: the pop-to-level loop of `handle_indentations` under similar stacks and similar new levels;
    * `handleIndentations_sim`, `step_sim_bol`: the whole indentation step (push / pop-to-level / error) and the lexer
      step at the beginning of a line, on two texts that differ only in the leading run of blanks;
    * `step_sim_mid`: steps not at the beginning of a line do not look at the indentation stack.
-/
namespace PV.C08
open PV.Lexer


/-- the new level stands in the same `compare_strict` relation (`<`, `=`, `>`, or "inconsistent" = `none`) to
    every level on the two stacks -/
def SimLevel (lv lv' : IndentLevel) : List IndentLevel → List IndentLevel → Prop
  | [], [] => True
  | c :: s, c' :: s' => compareStrict lv c = compareStrict lv' c' ∧ SimLevel lv lv' s s'
  | _, _ => False

/-- a reachable indentation stack (top first): every level is strictly above the one below it, the bottom is
    the base level `(0,0)` -/
def Increasing : List IndentLevel → Prop
  | [] => False
  | [b] => b = ⟨0, 0⟩
  | l :: c :: s => compareStrict l c = some .gt ∧ Increasing (c :: s)

/-- similar indentation stacks: both reachable, same number of open blocks -/
def SimStack (s s' : List IndentLevel) : Prop := Increasing s ∧ Increasing s' ∧ s.length = s'.length

theorem SimLevel.length {lv lv' : IndentLevel} : ∀ {s s' : List IndentLevel}, SimLevel lv lv' s s' → s.length = s'.length
  | [], [], _ => rfl
  | _ :: s, _ :: s', h => by simp [SimLevel.length (s := s) (s' := s') h.2]
  | [], _ :: _, h => by simp [SimLevel] at h
  | _ :: _, [], h => by simp [SimLevel] at h

theorem SimLevel.drop {lv lv' : IndentLevel} (k : Nat) : ∀ {s s' : List IndentLevel}, SimLevel lv lv' s s' →
    SimLevel lv lv' (s.drop k) (s'.drop k) := by
  induction k with
  | zero => intro s s' h; simpa using h
  | succ k ih =>
    intro s s' h
    match s, s', h with
    | [], [], h => simpa using h
    | _ :: s, _ :: s', h => simpa using ih h.2
    | [], _ :: _, h => simp [SimLevel] at h
    | _ :: _, [], h => simp [SimLevel] at h

theorem Increasing.tail {l c : IndentLevel} {s : List IndentLevel} (h : Increasing (l :: c :: s)) : Increasing (c :: s) := h.2

theorem Increasing.drop : ∀ (k : Nat) {s : List IndentLevel}, Increasing s → k < s.length → Increasing (s.drop k)
  | 0, s, h, _ => by simpa using h
  | k + 1, [], h, _ => by simp [Increasing] at h
  | k + 1, [b], h, hk => by simp at hk
  | k + 1, l :: c :: s, h, hk => by
    simp only [List.drop_succ_cons]
    exact Increasing.drop k h.2 (by simpa using hk)

theorem Increasing.ne_nil {s : List IndentLevel} (h : Increasing s) : s ≠ [] := by
  intro h'; subst h'; exact h

/-- outcome of the pop-to-level loop, positions erased -/
def DedentSim (s s' : List IndentLevel) :
    Except ErrRel (Nat × List IndentLevel) → Except ErrRel (Nat × List IndentLevel) → Prop
  | .ok (n, t), .ok (n', t') => n = n' ∧ t = s.drop n ∧ t' = s'.drop n ∧ n < s.length
  | .error e, .error e' => e.kind = e'.kind
  | _, _ => False

/-- **pop-to-level under similar stacks**: the `Ordering::Less` loop of `handle_indentations` pops the same number of
    levels from both stacks, or fails with the same kind of error (`TabError` when a comparison is inconsistent,
    `IndentationError` when the level is not on the stack) -/
theorem dedentLoop_sim {lv lv' : IndentLevel} (pos pos' : Nat) : ∀ {s s' : List IndentLevel}, SimLevel lv lv' s s' →
    DedentSim s s' (dedentLoop lv pos s) (dedentLoop lv' pos' s')
  | [], [], _ => by simp [dedentLoop, DedentSim, panicErr]
  | [], _ :: _, h => by simp [SimLevel] at h
  | _ :: _, [], h => by simp [SimLevel] at h
  | c :: s, c' :: s', h => by
    obtain ⟨hc, hs⟩ := h
    have ih := dedentLoop_sim pos pos' hs
    have hl := hs.length
    unfold dedentLoop
    rw [← hc]
    cases hcmp : compareStrict lv c with
    | none => simp [DedentSim]
    | some ord =>
      cases ord with
      | eq => simp [DedentSim]
      | gt => simp [DedentSim]
      | lt =>
        match s, s', hl, ih with
        | [], [], _, _ => simp [DedentSim, panicErr]
        | [], _ :: _, hl, _ => simp at hl
        | _ :: _, [], hl, _ => simp at hl
        | a :: s, a' :: s', _, ih =>
          simp only []
          cases h1 : dedentLoop lv pos (a :: s) with
          | error e =>
            cases h2 : dedentLoop lv' pos' (a' :: s') with
            | error e' => rw [h1, h2] at ih; simpa [DedentSim] using ih
            | ok r' => rw [h1, h2] at ih; simp [DedentSim] at ih
          | ok r =>
            cases h2 : dedentLoop lv' pos' (a' :: s') with
            | error e' => rw [h1, h2] at ih; simp [DedentSim] at ih
            | ok r' =>
              rw [h1, h2] at ih
              obtain ⟨n, t⟩ := r
              obtain ⟨n', t'⟩ := r'
              simp only [DedentSim] at ih ⊢
              obtain ⟨rfl, rfl, rfl, hn⟩ := ih
              refine ⟨rfl, by simp, by simp, by simp at hn ⊢; omega⟩
theorem gt_ne_zero {l c : IndentLevel} (h : compareStrict l c = some .gt) : l ≠ ⟨0, 0⟩ := by
  intro hl; subst hl
  unfold compareStrict at h
  cases hc : compare (0:Nat) c.tabs with
  | lt => simp [hc] at h
  | eq =>
    simp [hc] at h
    have := Nat.compare_eq_gt.mp h
    omega
  | gt => have := Nat.compare_eq_gt.mp hc; omega

theorem compareStrict_zero (c : IndentLevel) :
    compareStrict ⟨0, 0⟩ c = if c = ⟨0, 0⟩ then some .eq else some .lt := by
  obtain ⟨t, s⟩ := c
  unfold compareStrict
  by_cases ht : t = 0
  · subst ht
    by_cases hs : s = 0
    · subst hs; simp
    · have : compare 0 s = .lt := Nat.compare_eq_lt.mpr (by omega)
      simp [this, hs]
  · have : compare 0 t = .lt := Nat.compare_eq_lt.mpr (by omega)
    simp [this, ht]

/-- against similar stacks the base level compares alike (it is below every open block and equal to the bottom) -/
theorem simLevel_zero : ∀ {s s' : List IndentLevel}, Increasing s → Increasing s' → s.length = s'.length →
    SimLevel ⟨0, 0⟩ ⟨0, 0⟩ s s'
  | [], _, h, _, _ => by simp [Increasing] at h
  | _, [], _, h, _ => by simp [Increasing] at h
  | [b], [b'], h, h', _ => by
    simp only [Increasing] at h h'; subst h; subst h'; simp [SimLevel]
  | [b], _ :: _ :: _, _, _, hl => by simp at hl
  | _ :: _ :: _, [b'], _, _, hl => by simp at hl
  | l :: c :: s, l' :: c' :: s', h, h', hl => by
    refine ⟨?_, simLevel_zero h.2 h'.2 (by simpa using hl)⟩
    rw [compareStrict_zero, compareStrict_zero, if_neg (gt_ne_zero h.1), if_neg (gt_ne_zero h'.1)]


def setInd (k : List IndentLevel) (o : StepOut) : StepOut := { o with st := { o.st with indents := k } }

theorem ofSub_indents (a : Bool) (n : Nat) (i k : List IndentLevel) (r : Sub) :
    ofSub ⟨a, n, k⟩ r = (ofSub ⟨a, n, i⟩ r).map (setInd k) := by
  cases r with
  | error e => rfl
  | ok v => obtain ⟨tok, n⟩ := v; rfl

theorem map_ite {α β ε} (f : α → β) (c : Prop) [Decidable c] (x y : Except ε α) :
    Except.map f (if c then x else y) = if c then Except.map f x else Except.map f y := by
  split <;> rfl

theorem consumeCharacter_indents (cfg : Cfg) (st : LexState) (c : Nat) (cs : List Nat) (k : List IndentLevel) :
    consumeCharacter cfg { st with indents := k } c cs = (consumeCharacter cfg st c cs).map (setInd k) := by
  obtain ⟨a, n, i⟩ := st
  unfold consumeCharacter
  dsimp only
  by_cases h1 : isDigit c = true
  · rw [if_pos h1, if_pos h1]; exact ofSub_indents a n i k _
  rw [if_neg h1, if_neg h1]
  by_cases h2 : c = 35
  · rw [if_pos h2, if_pos h2]; split <;> rfl
  rw [if_neg h2, if_neg h2]
  by_cases h3 : isQuote c = true
  · rw [if_pos h3, if_pos h3]; exact ofSub_indents a n i k _
  rw [if_neg h3, if_neg h3]
  by_cases h4 : c = 33
  · rw [if_pos h4, if_pos h4]; split <;> rfl
  rw [if_neg h4, if_neg h4]
  by_cases h5 : (c = 46 && headIsDigit cs) = true
  · rw [if_pos h5, if_pos h5]; exact ofSub_indents a n i k _
  rw [if_neg h5, if_neg h5]
  cases lexOp (c :: cs) with
  | some v => rfl
  | none =>
  dsimp only
  cases openBracket c with
  | some v => rfl
  | none =>
  dsimp only
  cases closeBracket c with
  | some v => dsimp only; split <;> rfl
  | none =>
  dsimp only
  by_cases h6 : isLineBreak c = true
  · rw [if_pos h6, if_pos h6]
    cases nextChar (c :: cs) with
    | none => rfl
    | some v =>
      dsimp only
      split
      · rfl
      · split <;> rfl
  rw [if_neg h6, if_neg h6]
  by_cases h7 : isBlank c = true
  · rw [if_pos h7, if_pos h7]; rfl
  rw [if_neg h7, if_neg h7]
  by_cases h8 : c = 92
  · rw [if_pos h8, if_pos h8]
    cases cs with
    | nil => rfl
    | cons d t =>
      dsimp only
      split
      · cases nextChar (d :: t) with
        | none => rfl
        | some v => dsimp only; split <;> rfl
      · rfl
  rw [if_neg h8, if_neg h8]
  split <;> rfl


/-! ## similar states, the indentation step -/

/-- similar lexer states: same position in the line, same bracket depth, similar indentation stacks -/
structure SimSt (st st' : LexState) : Prop where
  atBol : st.atBol = st'.atBol
  nesting : st.nesting = st'.nesting
  stack : SimStack st.indents st'.indents

theorem SimSt.refl {st : LexState} (h : Increasing st.indents) : SimSt st st := ⟨rfl, rfl, h, h, rfl⟩

theorem simSt_init : SimSt LexState.init LexState.init := SimSt.refl (by simp [LexState.init, Increasing])

/-- the first character of a line's content, where `eat_indentation` stops: not a blank, not a line break, not `#` -/
def Sig (c : Nat) : Prop := c ≠ 32 ∧ c ≠ 9 ∧ c ≠ 35 ∧ c ≠ 12 ∧ c ≠ 13 ∧ c ≠ 10

instance (c : Nat) : Decidable (Sig c) := by unfold Sig; exact inferInstance

theorem eatIndent_sig {c : Nat} (h : Sig c) (r : List Nat) (pos s t : Nat) :
    eatIndent false (c :: r) 0 pos s t = .ok ⟨[], pos, s, t, false⟩ := by
  obtain ⟨h1, h2, h3, h4, h5, h6⟩ := h
  unfold eatIndent
  split <;> simp_all

/-- text in front of a line's indentation that `eat_indentation` sees through (blank and comment-only lines,
    form feeds: `eatIndent_blankLine`, `eatIndent_formFeed`) -/
def Transparent (bl : List Nat) : Prop :=
  ∀ z, eatIndent false (bl ++ z) 0 0 0 0 = eatIndent false z 0 bl.length 0 0

theorem transparent_nil : Transparent [] := fun z => by simp

/-- `eat_indentation` on transparent text, a run of blanks of measure `(s, t)`, and the line's content -/
theorem eatIndent_line {bl w : List Nat} {s t c : Nat} (hbl : Transparent bl) (hw : measure 0 0 w = some (s, t))
    (hc : Sig c) (r : List Nat) :
    eatIndent false (bl ++ (w ++ c :: r)) 0 0 0 0 = .ok ⟨[], bl.length + w.length, s, t, false⟩ := by
  rw [hbl, eatIndent_measure w (c :: r) bl.length 0 0 s t hw, eatIndent_sig hc]

theorem measure_bound (w : List Nat) : ∀ (s t s' t' : Nat), measure s t w = some (s', t') →
    s' + t' ≤ s + t + w.length := by
  induction w with
  | nil => intro s t s' t' h; simp [measure] at h; omega
  | cons c w ih =>
    intro s t s' t' h
    unfold measure at h
    split at h
    · simp at *
    · rename_i heq; simp at heq; obtain ⟨rfl, rfl⟩ := heq; have := ih _ _ _ _ h; simp; omega
    · rename_i heq; simp at heq; obtain ⟨rfl, rfl⟩ := heq
      split at h
      · simp at h
      · have := ih _ _ _ _ h; simp; omega
    · rename_i heq; simp at heq; obtain ⟨rfl, rfl⟩ := heq; have := ih _ _ _ _ h; simp; omega
    · simp at h

/-- outcome of `handle_indentations` on the two texts, positions erased -/
def HiRel (L L' : Nat) (ab : Bool) :
    Except ErrRel (List RelTok × Nat × LexState) → Except ErrRel (List RelTok × Nat × LexState) → Prop
  | .ok (tk, p, s1), .ok (tk', p', s1') =>
    tk.map (·.tok) = tk'.map (·.tok) ∧ p = L ∧ p' = L' ∧ SimSt s1 s1' ∧ s1.atBol = ab
  | .error e, .error e' => e.kind = e'.kind
  | _, _ => False

theorem Increasing.cons_ne {s : List IndentLevel} (h : Increasing s) : ∃ cur rest, s = cur :: rest := by
  cases s with
  | nil => exact absurd h (by simp [Increasing])
  | cons c r => exact ⟨c, r, rfl⟩

/-- **The indentation step under similar stacks and similar new levels** (`handle_indentations`: nothing / push +
    INDENT / pop-to-level + DEDENTs / `TabError` / `IndentationError`), given what `eat_indentation` measured on the
    two texts: levels `(t, s)` / `(t', s')` that are similar w.r.t. the two stacks.  The two steps emit the same tokens,
    fail with the same kind of error, and leave similar states. -/
theorem handleIndentations_sim_core {cfg : Cfg} (hf : cfg.fullLexer = false) {st st' : LexState} (hst : SimSt st st')
    {inp inp' : List Nat} {L L' s t s' t' : Nat} {ab : Bool}
    (hE : eatIndent false inp 0 0 0 0 = .ok ⟨[], L, s, t, ab⟩)
    (hE' : eatIndent false inp' 0 0 0 0 = .ok ⟨[], L', s', t', ab⟩)
    (hm : s + t ≤ L) (hm' : s' + t' ≤ L')
    (hlv : st.nesting = 0 → SimLevel ⟨t, s⟩ ⟨t', s'⟩ st.indents st'.indents) :
    HiRel L L' ab (handleIndentations cfg st inp) (handleIndentations cfg st' inp') := by
  obtain ⟨hb, hn, hI, hI', hlen⟩ := hst
  unfold handleIndentations
  rw [hf, hE, hE']
  by_cases hn0 : st.nesting = 0
  · have hn0' : st'.nesting = 0 := by omega
    have hlv := hlv hn0
    obtain ⟨cur, rest, hs⟩ := hI.cons_ne
    obtain ⟨cur', rest', hs'⟩ := hI'.cons_ne
    rw [hs, hs'] at hlv
    simp only [hn0, hn0', ne_eq, not_true_eq_false, ↓reduceIte, hs, hs', ← hlv.1]
    cases hcmp : compareStrict ⟨t, s⟩ cur with
    | none => simp [HiRel]
    | some ord =>
      cases ord with
      | eq =>
        unfold HiRel; dsimp only
        exact ⟨rfl, rfl, rfl, ⟨rfl, rfl, by rw [hs] at hI hlen; rw [hs'] at hI' hlen; exact ⟨hI, hI', hlen⟩⟩, rfl⟩
      | gt =>
        simp only [hm, hm', ↓reduceIte]
        unfold HiRel; dsimp only
        refine ⟨by simp, rfl, rfl, ⟨rfl, rfl, ?_, ?_, ?_⟩, rfl⟩
        · rw [hs] at hI; exact ⟨hcmp, hI⟩
        · rw [hs'] at hI'; exact ⟨by rw [← hlv.1]; exact hcmp, hI'⟩
        · simpa [hs, hs'] using hlen
      | lt =>
        have hd := dedentLoop_sim L L' (s := cur :: rest) (s' := cur' :: rest') hlv
        cases h1 : dedentLoop ⟨t, s⟩ L (cur :: rest) with
        | error e =>
          cases h2 : dedentLoop ⟨t', s'⟩ L' (cur' :: rest') with
          | error e' => rw [h1, h2] at hd; exact hd
          | ok v => rw [h1, h2] at hd; exact absurd hd (by simp [DedentSim])
        | ok v =>
          cases h2 : dedentLoop ⟨t', s'⟩ L' (cur' :: rest') with
          | error e' => rw [h1, h2] at hd; exact absurd hd (by simp [DedentSim])
          | ok v' =>
            rw [h1, h2] at hd
            obtain ⟨n, k⟩ := v
            obtain ⟨n', k'⟩ := v'
            obtain ⟨rfl, rfl, rfl, hlt⟩ := hd
            rw [hs] at hI hlen; rw [hs'] at hI' hlen
            unfold HiRel; dsimp only
            refine ⟨by simp, rfl, rfl, ⟨rfl, rfl, hI.drop n hlt, hI'.drop n (by omega), ?_⟩, rfl⟩
            simp only [List.length_drop]; omega
  · have hn0' : st'.nesting ≠ 0 := by omega
    simp only [hn0, hn0', ne_eq, not_false_eq_true, ↓reduceIte]
    unfold HiRel; dsimp only
    exact ⟨rfl, rfl, rfl, ⟨rfl, hn, hI, hI', hlen⟩, rfl⟩

/-- the same for two texts with the same transparent prefix and the same content `c :: r` (`c` significant) that
    differ in the run of blanks `w` / `w'` in front of it -/
theorem handleIndentations_sim {cfg : Cfg} (hf : cfg.fullLexer = false) {st st' : LexState} (hst : SimSt st st')
    {bl w w' : List Nat} {s t s' t' c : Nat} (hbl : Transparent bl)
    (hw : measure 0 0 w = some (s, t)) (hw' : measure 0 0 w' = some (s', t')) (hc : Sig c) (r : List Nat)
    (hlv : st.nesting = 0 → SimLevel ⟨t, s⟩ ⟨t', s'⟩ st.indents st'.indents) :
    HiRel (bl.length + w.length) (bl.length + w'.length) false
      (handleIndentations cfg st (bl ++ (w ++ c :: r))) (handleIndentations cfg st' (bl ++ (w' ++ c :: r))) := by
  have hm := measure_bound w 0 0 s t hw
  have hm' := measure_bound w' 0 0 s' t' hw'
  exact handleIndentations_sim_core hf hst (eatIndent_line hbl hw hc r) (eatIndent_line hbl hw' hc r)
    (by omega) (by omega) hlv

/-! ## the lexer step under similar states -/

theorem consumeNormal_indents (cfg : Cfg) (st : LexState) (c : Nat) (cs : List Nat) (k : List IndentLevel) :
    consumeNormal cfg { st with indents := k } (c :: cs) = (consumeNormal cfg st (c :: cs)).map (setInd k) := by
  unfold consumeNormal
  dsimp only
  split
  · obtain ⟨a, n, i⟩ := st; exact ofSub_indents a n i k _
  · exact consumeCharacter_indents cfg st c cs k

/-- a step on non-empty input keeps the indentation stack when it is not at the beginning of a line -/
theorem consumeNormal_keeps {cfg : Cfg} {st : LexState} {c : Nat} {cs : List Nat} {o : StepOut}
    (h : consumeNormal cfg st (c :: cs) = .ok o) : o.st.indents = st.indents := by
  have := consumeNormal_indents cfg st c cs st.indents
  rw [show ({ st with indents := st.indents } : LexState) = st from rfl, h] at this
  simp only [Except.map, Except.ok.injEq] at this
  rw [this]; rfl

/-- outcome of one step on the two texts, positions erased: same tokens, same kind of error, similar states, and the
    same number `j` of characters consumed behind the two indentation prefixes of lengths `L`, `L'` -/
def StepRel (L L' : Nat) : Except ErrRel StepOut → Except ErrRel StepOut → Prop
  | .ok o, .ok o' =>
    o.toks.map (·.tok) = o'.toks.map (·.tok) ∧ o.done = o'.done ∧ SimSt o.st o'.st ∧
      ∃ j, o.consumed = L + j ∧ o'.consumed = L' + j
  | .error e, .error e' => e.kind = e'.kind
  | _, _ => False

theorem simSt_eq {st st' : LexState} (h : SimSt st st') : st' = { st with indents := st'.indents } := by
  obtain ⟨a, n, i⟩ := st
  obtain ⟨a', n', i'⟩ := st'
  obtain ⟨h1, h2, _⟩ := h
  simp at h1 h2
  simp [h1, h2]

/-- consuming the same non-empty input from similar states (not at the beginning of a line) -/
theorem consumeNormal_sim {cfg : Cfg} {st st' : LexState} (hst : SimSt st st') (c : Nat) (cs : List Nat) :
    StepRel 0 0 (consumeNormal cfg st (c :: cs)) (consumeNormal cfg st' (c :: cs)) := by
  have e := consumeNormal_indents cfg st c cs st'.indents
  rw [← simSt_eq hst] at e
  rw [e]
  cases h : consumeNormal cfg st (c :: cs) with
  | error e => simp [Except.map, StepRel]
  | ok o =>
    have hk := consumeNormal_keeps h
    unfold StepRel; dsimp only [Except.map, setInd]
    refine ⟨rfl, rfl, ⟨rfl, rfl, ?_⟩, o.consumed, by simp, by simp⟩
    dsimp only
    rw [hk]; exact hst.stack

/-- **a step not at the beginning of a line** does not look at the indentation stack: from similar states, on the
    same non-empty input, the two steps agree -/
theorem step_sim_mid {cfg : Cfg} {st st' : LexState} (hst : SimSt st st') (hb : st.atBol = false)
    (c : Nat) (cs : List Nat) :
    StepRel 0 0 (step cfg st (c :: cs)) (step cfg st' (c :: cs)) := by
  have hb' : st'.atBol = false := by rw [← hst.atBol]; exact hb
  unfold step
  simp only [hb, hb', Bool.false_eq_true, ↓reduceIte]
  exact consumeNormal_sim hst c cs

theorem drop_prefix2 (bl w x : List Nat) : (bl ++ (w ++ x)).drop (bl.length + w.length) = x := by
  rw [← List.append_assoc, ← List.length_append, List.drop_left]

/-- **The lexer step at the beginning of a line, on two texts that differ only in the run of blanks in front of the
    line's content**: same tokens (INDENT / DEDENTs and the first token of the line), same kind of error, similar
    states, the same number of characters consumed behind the indentation. -/
theorem step_sim_bol {cfg : Cfg} (hf : cfg.fullLexer = false) {st st' : LexState} (hst : SimSt st st')
    (hb : st.atBol = true) {bl w w' : List Nat} {s t s' t' c : Nat} (hbl : Transparent bl)
    (hw : measure 0 0 w = some (s, t)) (hw' : measure 0 0 w' = some (s', t')) (hc : Sig c) (r : List Nat)
    (hlv : st.nesting = 0 → SimLevel ⟨t, s⟩ ⟨t', s'⟩ st.indents st'.indents) :
    StepRel (bl.length + w.length) (bl.length + w'.length)
      (step cfg st (bl ++ (w ++ c :: r))) (step cfg st' (bl ++ (w' ++ c :: r))) := by
  have hb' : st'.atBol = true := by rw [← hst.atBol]; exact hb
  have hh := handleIndentations_sim hf hst hbl hw hw' hc r hlv
  unfold step
  simp only [hb, hb', ↓reduceIte]
  cases h1 : handleIndentations cfg st (bl ++ (w ++ c :: r)) with
  | error e =>
    cases h2 : handleIndentations cfg st' (bl ++ (w' ++ c :: r)) with
    | error e' => rw [h1, h2] at hh; exact hh
    | ok v => rw [h1, h2] at hh; exact absurd hh (by simp [HiRel])
  | ok v =>
    cases h2 : handleIndentations cfg st' (bl ++ (w' ++ c :: r)) with
    | error e' => rw [h1, h2] at hh; exact absurd hh (by simp [HiRel])
    | ok v' =>
      rw [h1, h2] at hh
      obtain ⟨tk, p, s1⟩ := v
      obtain ⟨tk', p', s1'⟩ := v'
      obtain ⟨htk, rfl, rfl, hs1, _⟩ := hh
      dsimp only
      rw [drop_prefix2, drop_prefix2]
      have hc := consumeNormal_sim (cfg := cfg) hs1 c r
      cases h3 : consumeNormal cfg s1 (c :: r) with
      | error e =>
        cases h4 : consumeNormal cfg s1' (c :: r) with
        | error e' => rw [h3, h4] at hc; simpa [StepRel, ErrRel.shift] using hc
        | ok o' => rw [h3, h4] at hc; exact absurd hc (by simp [StepRel])
      | ok o =>
        cases h4 : consumeNormal cfg s1' (c :: r) with
        | error e' => rw [h3, h4] at hc; exact absurd hc (by simp [StepRel])
        | ok o' =>
          rw [h3, h4] at hc
          obtain ⟨ht, hd, hs, j, hj, hj'⟩ := hc
          unfold StepRel; dsimp only
          refine ⟨?_, hd, hs, j, by omega, by omega⟩
          simp only [List.map_append, List.map_map, htk]
          congr 1

/-! ## the stack after the indentation step, as a function of the measured level -/

/-- the indentation stack after a line whose indentation measures `lv`: unchanged / pushed / popped to the level -/
def nextStack (lv : IndentLevel) (stk : List IndentLevel) : List IndentLevel :=
  match stk with
  | [] => stk
  | cur :: _ =>
    match compareStrict lv cur with
    | some .gt => lv :: stk
    | some .lt =>
      (match dedentLoop lv 0 stk with
       | .ok (_, s) => s
       | .error _ => stk)
    | _ => stk

theorem dedentLoop_pos (lv : IndentLevel) (pos : Nat) (stk : List IndentLevel) {n : Nat} {s : List IndentLevel}
    (h : dedentLoop lv pos stk = .ok (n, s)) : dedentLoop lv 0 stk = .ok (n, s) := by
  have := dedentLoop_shift pos lv 0 stk
  rw [Nat.zero_add, h] at this
  cases h0 : dedentLoop lv 0 stk with
  | error e => rw [h0] at this; simp [errShift] at this
  | ok v => rw [h0] at this; simp only [errShift] at this; rw [this]

theorem handleIndentations_stack {cfg : Cfg} (hf : cfg.fullLexer = false) {st : LexState} {inp : List Nat}
    {L s t : Nat} {ab : Bool} (hE : eatIndent false inp 0 0 0 0 = .ok ⟨[], L, s, t, ab⟩) (hn0 : st.nesting = 0)
    {tk : List RelTok} {p : Nat} {s1 : LexState} (h : handleIndentations cfg st inp = .ok (tk, p, s1)) :
    p = L ∧ s1.indents = nextStack ⟨t, s⟩ st.indents := by
  unfold handleIndentations at h
  rw [hf, hE] at h
  simp only [hn0, ne_eq, not_true_eq_false, ↓reduceIte] at h
  unfold nextStack
  cases hs : st.indents with
  | nil => rw [hs] at h; simp at h
  | cons cur rest =>
    rw [hs] at h
    dsimp only at h ⊢
    cases hc : compareStrict ⟨t, s⟩ cur with
    | none => rw [hc] at h; simp at h
    | some ord =>
      rw [hc] at h
      cases ord with
      | eq => simp at h; exact ⟨h.2.1.symm, by rw [← h.2.2]⟩
      | gt =>
        dsimp only at h
        split at h
        · simp at h; exact ⟨h.2.1.symm, by rw [← h.2.2]⟩
        · simp at h
      | lt =>
        dsimp only at h ⊢
        cases hd : dedentLoop ⟨t, s⟩ L (cur :: rest) with
        | error e => rw [hd] at h; simp at h
        | ok v =>
          obtain ⟨n, k⟩ := v
          rw [hd] at h
          simp at h
          exact ⟨h.2.1.symm, by rw [dedentLoop_pos _ _ _ hd, ← h.2.2]⟩

/-- the stack after the step at the beginning of a line (outside brackets) on `bl ++ w ++ c :: r` -/
theorem step_bol_stack {cfg : Cfg} (hf : cfg.fullLexer = false) {st : LexState} (hb : st.atBol = true)
    (hn0 : st.nesting = 0) {bl w : List Nat} {s t c : Nat} (hbl : Transparent bl)
    (hw : measure 0 0 w = some (s, t)) (hc : Sig c) (r : List Nat) {o : StepOut}
    (h : step cfg st (bl ++ (w ++ c :: r)) = .ok o) : o.st.indents = nextStack ⟨t, s⟩ st.indents := by
  unfold step at h
  simp only [hb, ↓reduceIte] at h
  cases h1 : handleIndentations cfg st (bl ++ (w ++ c :: r)) with
  | error e => rw [h1] at h; simp at h
  | ok v =>
    obtain ⟨tk, p, s1⟩ := v
    rw [h1] at h
    dsimp only at h
    obtain ⟨rfl, hs1⟩ := handleIndentations_stack hf (eatIndent_line hbl hw hc r) hn0 h1
    rw [drop_prefix2] at h
    cases h2 : consumeNormal cfg s1 (c :: r) with
    | error e => rw [h2] at h; simp at h
    | ok o2 =>
      rw [h2] at h
      simp only [Except.ok.injEq] at h
      rw [← h]
      dsimp only
      rw [consumeNormal_keeps h2, hs1]

/-! ## runs under a step relation -/

/-- if the first steps on two inputs are related and the runs behind related first steps agree, the runs agree -/
theorem runsTo_of_stepRel {cfg : Cfg} {st st' : LexState} {x x' : List Nat} {L L' : Nat}
    (h : StepRel L L' (step cfg st x) (step cfg st' x'))
    (hnext : ∀ o o', step cfg st x = .ok o → step cfg st' x' = .ok o' → o.done = false →
      ∀ ts e, RunsTo cfg o.st (x.drop o.consumed) ts e ↔ RunsTo cfg o'.st (x'.drop o'.consumed) ts e)
    (ts : List Tok) (e : EndK) : RunsTo cfg st x ts e ↔ RunsTo cfg st' x' ts e := by
  cases h1 : step cfg st x with
  | error er =>
    cases h2 : step cfg st' x' with
    | ok o' => rw [h1, h2] at h; exact absurd h (by simp [StepRel])
    | error er' =>
      rw [h1, h2] at h
      have hk : er.kind = er'.kind := h
      constructor
      · intro r; cases r with
        | err g => rw [h1] at g; cases g; rw [hk]; exact RunsTo.err h2
        | done g _ => rw [h1] at g; cases g
        | more g _ _ => rw [h1] at g; cases g
      · intro r; cases r with
        | err g => rw [h2] at g; cases g; rw [← hk]; exact RunsTo.err h1
        | done g _ => rw [h2] at g; cases g
        | more g _ _ => rw [h2] at g; cases g
  | ok o =>
    cases h2 : step cfg st' x' with
    | error er' => rw [h1, h2] at h; exact absurd h (by simp [StepRel])
    | ok o' =>
      rw [h1, h2] at h
      obtain ⟨htk, hdn, _, _⟩ := h
      have hn := hnext o o' h1 h2
      constructor
      · intro r; cases r with
        | err g => rw [h1] at g; cases g
        | done g gd => rw [h1] at g; cases g; rw [htk]; exact RunsTo.done h2 (by rw [← hdn]; exact gd)
        | more g gd g3 =>
          rw [h1] at g; cases g; rw [htk]
          exact RunsTo.more h2 (by rw [← hdn]; exact gd) ((hn gd _ _).1 g3)
      · intro r; cases r with
        | err g => rw [h2] at g; cases g
        | done g gd => rw [h2] at g; cases g; rw [← htk]; exact RunsTo.done h1 (by rw [hdn]; exact gd)
        | more g gd g3 =>
          rw [h2] at g; cases g; rw [← htk]
          have gd' : o.done = false := by rw [hdn]; exact gd
          exact RunsTo.more h1 gd' ((hn gd' _ _).2 g3)

/-! ## end of input, and runs that never come back to the beginning of a line -/

theorem flushIndents_count : ∀ (s : List IndentLevel), (flushIndents s).1 = s.length - 1
  | [] => rfl
  | [_] => rfl
  | _ :: c :: r => by
    have := flushIndents_count (c :: r)
    simp only [flushIndents, this, List.length_cons]; omega

theorem flushIndents_snd_increasing : ∀ {s : List IndentLevel}, Increasing s → (flushIndents s).2 = [⟨0, 0⟩]
  | [], h => by simp [Increasing] at h
  | [b], h => by simp only [Increasing] at h; subst h; rfl
  | _ :: c :: r, h => by
    have := flushIndents_snd_increasing (s := c :: r) h.2
    simpa [flushIndents] using this

/-- the end-of-input step from similar states: NEWLINE if needed, one DEDENT per open block -/
theorem consumeEof_sim {st st' : LexState} (hst : SimSt st st') : StepRel 0 0 (consumeEof st) (consumeEof st') := by
  obtain ⟨hb, hn, hI, hI', hlen⟩ := hst
  unfold consumeEof
  by_cases h0 : st.nesting > 0
  · have h0' : st'.nesting > 0 := by omega
    simp [h0, h0', StepRel]
  · have h0' : ¬ st'.nesting > 0 := by omega
    simp only [h0, h0', ↓reduceIte]
    unfold StepRel; dsimp only
    refine ⟨?_, rfl, ⟨rfl, hn, ?_⟩, 0, rfl, rfl⟩
    · rw [flushIndents_count, flushIndents_count, hlen, hb]
    · dsimp only
      rw [flushIndents_snd_increasing hI, flushIndents_snd_increasing hI']
      exact ⟨by simp [Increasing], by simp [Increasing], rfl⟩

/-- a step not at the beginning of a line, on the same input (possibly the end of input), from similar states -/
theorem step_sim_mid' {cfg : Cfg} {st st' : LexState} (hst : SimSt st st') (hb : st.atBol = false) (x : List Nat) :
    StepRel 0 0 (step cfg st x) (step cfg st' x) := by
  cases x with
  | cons c cs => exact step_sim_mid hst hb c cs
  | nil =>
    have hb' : st'.atBol = false := by rw [← hst.atBol]; exact hb
    unfold step
    simp only [hb, hb', Bool.false_eq_true, ↓reduceIte, consumeNormal]
    exact consumeEof_sim hst

/-- the run from here never takes a step at the beginning of a line (it stays inside the current logical line
    until the end of input or the first error) -/
inductive NoBol (cfg : Cfg) : LexState → List Nat → Prop
  | err {st inp e} : st.atBol = false → step cfg st inp = .error e → NoBol cfg st inp
  | done {st inp o} : st.atBol = false → step cfg st inp = .ok o → o.done = true → NoBol cfg st inp
  | more {st inp o} : st.atBol = false → step cfg st inp = .ok o → o.done = false →
      NoBol cfg o.st (inp.drop o.consumed) → NoBol cfg st inp

theorem stepRel_zero_consumed {r r' : Except ErrRel StepOut} {o o' : StepOut} (h : StepRel 0 0 r r')
    (h1 : r = .ok o) (h2 : r' = .ok o') : o.consumed = o'.consumed ∧ SimSt o.st o'.st := by
  subst h1; subst h2
  obtain ⟨_, _, hs, j, hj, hj'⟩ := h
  exact ⟨by omega, hs⟩

/-- on the same input, runs that never come back to the beginning of a line agree from similar states -/
theorem noBol_sim {cfg : Cfg} {st : LexState} {x : List Nat} (h : NoBol cfg st x) :
    ∀ {st' : LexState}, SimSt st st' → ∀ ts e, RunsTo cfg st x ts e ↔ RunsTo cfg st' x ts e := by
  induction h with
  | err hb he =>
    intro st' hst ts e
    exact runsTo_of_stepRel (step_sim_mid' hst hb _) (fun o o' h1 _ _ => by rw [he] at h1; cases h1) ts e
  | done hb ho hd =>
    intro st' hst ts e
    exact runsTo_of_stepRel (step_sim_mid' hst hb _)
      (fun o o' h1 _ hd' => by rw [ho] at h1; cases h1; rw [hd] at hd'; cases hd') ts e
  | @more st0 inp0 o0 hb ho hd _ ih =>
    intro st' hst ts e
    have hrel := step_sim_mid' (cfg := cfg) hst hb inp0
    refine runsTo_of_stepRel hrel (fun o1 o1' h1 h2 _ => ?_) ts e
    rw [ho] at h1; cases h1
    obtain ⟨hc, hs⟩ := stepRel_zero_consumed hrel ho h2
    rw [← hc]
    exact ih hs

/-! ## one logical line -/

/-- the NEWLINE step: not at the beginning of a line, outside brackets, in front of a line end -/
theorem step_eol {cfg : Cfg} (hup : UpOk cfg.up) (hf : cfg.fullLexer = false) {st : LexState}
    (hb : st.atBol = false) (hn0 : st.nesting = 0) {e post : List Nat} (he : IsEol e) (hn : NoFuse e post) :
    step cfg st (e ++ post) = .ok ⟨[⟨.newline, 0, e.length⟩], e.length, { st with atBol := true }, false⟩ := by
  obtain ⟨c, r, hcr, hc⟩ := eol_cons he
  have hx := hup.layoutChars c (Or.inr (Or.inl hc))
  have hl : isAsciiLetter c = false := by rcases isLineBreak_cases hc with rfl | rfl <;> simp [isAsciiLetter]
  have h95 : c ≠ 95 := by rcases isLineBreak_cases hc with rfl | rfl <;> simp
  have hcs : e ++ post = c :: (r ++ post) := by simp [hcr]
  rw [hcs, step_consumeCharacter hb _ hx hl h95, consumeCharacter_eol hf st he hn hcs]
  simp [hn0, one]

/-- the steps of a logical line behind its first step: none of them is taken at the beginning of a line -/
inductive MidRuns (cfg : Cfg) : LexState → List Nat → List Tok → Nat → LexState → Prop
  | nil (st inp) : MidRuns cfg st inp [] 0 st
  | cons {st inp o ts n st'} : st.atBol = false → step cfg st inp = .ok o → o.done = false →
      MidRuns cfg o.st (inp.drop o.consumed) ts n st' →
      MidRuns cfg st inp (o.toks.map (·.tok) ++ ts) (o.consumed + n) st'

theorem MidRuns.toRuns {cfg st inp ts n st'} (h : MidRuns cfg st inp ts n st') : Runs cfg st inp ts n st' := by
  induction h with
  | nil => exact Runs.nil _ _
  | cons _ h1 h2 _ ih => exact Runs.cons h1 h2 ih


/-- consuming the same input (possibly the end of input) from similar states -/
theorem consumeNormal_sim' {cfg : Cfg} {st st' : LexState} (hst : SimSt st st') (x : List Nat) :
    StepRel 0 0 (consumeNormal cfg st x) (consumeNormal cfg st' x) := by
  cases x with
  | cons c cs => exact consumeNormal_sim hst c cs
  | nil => simp only [consumeNormal]; exact consumeEof_sim hst

/-- from related indentation steps to related lexer steps, when the same text follows the indentation -/
theorem step_of_hiRel {cfg : Cfg} {st st' : LexState} (hst : SimSt st st') (hb : st.atBol = true)
    {inp inp' x : List Nat} {L L' : Nat} {ab : Bool}
    (hh : HiRel L L' ab (handleIndentations cfg st inp) (handleIndentations cfg st' inp'))
    (hx : inp.drop L = x) (hx' : inp'.drop L' = x) :
    StepRel L L' (step cfg st inp) (step cfg st' inp') := by
  have hb' : st'.atBol = true := by rw [← hst.atBol]; exact hb
  unfold step
  simp only [hb, hb', ↓reduceIte]
  cases h1 : handleIndentations cfg st inp with
  | error e =>
    cases h2 : handleIndentations cfg st' inp' with
    | error e' => rw [h1, h2] at hh; exact hh
    | ok v => rw [h1, h2] at hh; exact absurd hh (by simp [HiRel])
  | ok v =>
    cases h2 : handleIndentations cfg st' inp' with
    | error e' => rw [h1, h2] at hh; exact absurd hh (by simp [HiRel])
    | ok v' =>
      rw [h1, h2] at hh
      obtain ⟨tk, p, s1⟩ := v
      obtain ⟨tk', p', s1'⟩ := v'
      obtain ⟨htk, rfl, rfl, hs1, _⟩ := hh
      dsimp only
      rw [hx, hx']
      have hc := consumeNormal_sim' (cfg := cfg) hs1 x
      cases h3 : consumeNormal cfg s1 x with
      | error e =>
        cases h4 : consumeNormal cfg s1' x with
        | error e' => rw [h3, h4] at hc; simpa [StepRel, ErrRel.shift] using hc
        | ok o' => rw [h3, h4] at hc; exact absurd hc (by simp [StepRel])
      | ok o =>
        cases h4 : consumeNormal cfg s1' x with
        | error e' => rw [h3, h4] at hc; exact absurd hc (by simp [StepRel])
        | ok o' =>
          rw [h3, h4] at hc
          obtain ⟨ht, hd, hs, j, hj, hj'⟩ := hc
          unfold StepRel; dsimp only
          refine ⟨?_, hd, hs, j, by omega, by omega⟩
          simp only [List.map_append, List.map_map, htk]
          congr 1

end PV.C08
