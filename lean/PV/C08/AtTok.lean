import PV.C08.LayLocal
import PV.C08.Whole
/-
  PV.C08.AtTok — the hypothesis "`At` for the rewritten text" of the rules BEHIND A TOKEN is derivable, under explicit
  side conditions, when the text behind the place starts with a layout character.

  `runs_tok_extend` / `at_tok_extend`: if the lexer, run on `pre ++ d :: r` (`d` a layout character: blank, tab, form
  feed, `#`, backslash, CR, LF), is at a step boundary behind `pre`, then it is so on `pre ++ d' :: r'` for every layout
  character `d'` and every `r'` (same state, same tokens), unless
    * `pre` ends with a CR and `d'` is LF (one CRLF),
    * `pre` ends with a blank and `d'` is a blank (one run of blanks),
    * the place is behind a comment (`BehindComment`: a step boundary in front of a `#` earlier in the same line) and
      `d'` is not a line break (`at_rewritten_not_derivable` is the witness for this one).
  Proof: no step of the run looks beyond the first layout character (`step_lay_local`).

  `LayoutStep'` / `LayoutEq'`: the layout rules with these side conditions INSTEAD of the `At` hypothesis about the
  rewritten text; `LayoutStep'.toLayoutStep`, and the main theorems restated for `LayoutEq'`.
-/
namespace PV.C08
open PV.Lexer

/-! ## behind a comment -/

/-- run level: some step boundary `a < n` of the run from `st0` on `inp`, not at the beginning of a line, is in front
    of a `#`, and there is no line break between it and `n` -/
def BehindCommentR (cfg : Cfg) (st0 : LexState) (inp : List Nat) (n : Nat) : Prop :=
  ∃ a st ts, Runs cfg st0 inp ts a st ∧ a < n ∧ st.atBol = false ∧ (inp.drop a).head? = some 35 ∧
    NoBreak ((inp.drop a).take (n - a))

/-- **the place `p` of `src` is behind a comment**: the lexer is at a step boundary in front of a `#` earlier in the
    same line (so the `#` does start a comment: it is not inside a string) -/
def BehindComment (cfg : Cfg) (src : List Nat) (p : Nat) : Prop :=
  ∃ a st ts, At cfg src a st ts ∧ a < p ∧ st.atBol = false ∧ (src.drop a).head? = some 35 ∧
    NoBreak ((src.drop a).take (p - a))

theorem behindComment_iff {cfg : Cfg} {src : List Nat} (h : src.head? ≠ some 0xFEFF) (p : Nat) :
    BehindComment cfg src p ↔ BehindCommentR cfg .init src p := by
  constructor
  · rintro ⟨a, st, ts, hat, h1, h2, h3, h4⟩; exact ⟨a, st, ts, hat.2, h1, h2, h3, h4⟩
  · rintro ⟨a, st, ts, hr, h1, h2, h3, h4⟩; exact ⟨a, st, ts, ⟨h, hr⟩, h1, h2, h3, h4⟩

/-- a sufficient condition on the text alone: no `#` in the last line of `pre` -/
theorem not_behindComment_of_noHash {cfg : Cfg} {pre post : List Nat}
    (h : ∀ a, a < pre.length → (pre.drop a).head? = some 35 → ¬ NoBreak (pre.drop a)) :
    ¬ BehindComment cfg (pre ++ post) pre.length := by
  rintro ⟨a, st, ts, _, h1, _, h3, h4⟩
  have hd : (pre ++ post).drop a = pre.drop a ++ post := List.drop_append_of_le_length (Nat.le_of_lt h1)
  rw [hd] at h3 h4
  have hne : pre.drop a ≠ [] := by
    intro h0; have := congrArg List.length h0; simp at this; omega
  refine h a h1 ?_ ?_
  · cases hp : pre.drop a with
    | nil => exact absurd hp hne
    | cons x t => rw [hp] at h3; simpa using h3
  · have : (pre.drop a ++ post).take (pre.length - a) = pre.drop a := by
      rw [List.take_append_of_le_length (by simp)]
      exact List.take_of_length_le (by simp)
    rwa [this] at h4

/-! ## the run up to a place behind a token -/

theorem spanLen_take_all (p : Nat → Bool) (l : List Nat) : ∀ x ∈ l.take (spanLen p l), p x = true := by
  induction l with
  | nil => intro x hx; simp [spanLen] at hx
  | cons c l ih =>
    by_cases hc : p c = true
    · simp only [spanLen, hc, ↓reduceIte, List.take_succ_cons]
      intro x hx
      rcases List.mem_cons.1 hx with rfl | hx
      · exact hc
      · exact ih x hx
    · intro x hx; simp [spanLen, hc] at hx

/-- a step, not at the beginning of a line, in front of a `#`: the comment arm -/
theorem step_comment {cfg : Cfg} (hup : UpOk cfg.up) (hf : cfg.fullLexer = false) {st : LexState}
    (hb : st.atBol = false) (t : List Nat) : step cfg st (35 :: t) = .ok (skip (commentLen (35 :: t)) st) := by
  rw [step_consumeCharacter hb _ (hup.layoutChars 35 (by simp)) (by simp [isAsciiLetter]) (by simp),
    consumeCharacter_comment hf]

/-- **The run up to a place in front of a layout character does not depend on that character or the text behind it.**
    If the lexer, run on `s ++ d :: r`, is at a step boundary behind `s`, then so it is on `s ++ d' :: r'` for all layout
    characters `d'` and all `r'` — in the same state, after the same tokens — unless `s` ends with a CR and `d'` is LF,
    `s` ends with a blank and `d'` is a blank, or the place is behind a comment and `d'` is not a line break. -/
theorem runs_tok_extend {cfg : Cfg} (hup : UpOk cfg.up) (hl : UpLay cfg.up) (hf : cfg.fullLexer = false)
    {st0 : LexState} {inp : List Nat} {ts : List Tok} {n : Nat} {st : LexState} (h : Runs cfg st0 inp ts n st) :
    ∀ {s r r' : List Nat} {d d' : Nat}, inp = s ++ d :: r → n = s.length → StInv st0 → Lay d → Lay d' →
      (s.getLast? = some 13 → d' ≠ 10) → (∀ c, s.getLast? = some c → isBlank c = true → isBlank d' = false) →
      (BehindCommentR cfg st0 inp n → isLineBreak d' = true) →
      Runs cfg st0 (s ++ d' :: r') ts s.length st := by
  induction h with
  | nil st inp =>
    intro s r r' d d' _ hn _ _ _ _ _ _
    have : s = [] := List.eq_nil_of_length_eq_zero hn.symm
    subst this; exact Runs.nil _ _
  | @cons st0 inp o ts n st ho hdone hrest ih =>
    intro s r r' d d' hinp hn hi hd hd' hcr hbl hcm
    have hok := step_ok hup.sane hi ho
    have hpos := hok.2.1 hdone
    have hcs : o.consumed ≤ s.length := by omega
    -- the step itself
    have ho1 : step cfg st0 (s ++ d :: r) = .ok o := by rw [← hinp]; exact ho
    have hsne : s ≠ [] := by intro h0; subst h0; simp at hcs; omega
    have ho2 : step cfg st0 (s ++ d' :: r') = .ok o := by
      refine step_lay_local hup hl hf hd ho1 hcs hd' r' (fun e => ⟨hcr, hbl, ?_⟩)
      intro hb h35
      apply hcm
      obtain ⟨t, rfl⟩ : ∃ t, s = 35 :: t := by
        cases s with
        | nil => exact absurd rfl hsne
        | cons x t => simp at h35; exact ⟨t, by rw [h35]⟩
      refine ⟨0, st0, [], Runs.nil _ _, by omega, hb, by rw [hinp]; rfl, ?_⟩
      have hstep := step_comment hup hf hb (t ++ d :: r)
      rw [List.cons_append] at ho1
      rw [ho1] at hstep
      have hlen : o.consumed = commentLen (35 :: (t ++ d :: r)) := by
        have := congrArg (fun x => match x with | Except.ok o => o.consumed | _ => 0) hstep
        simpa [skip] using this
      have hn0 : n = 0 := by omega
      rw [hinp, hn0, Nat.add_zero, Nat.sub_zero, List.drop_zero, hlen]
      intro x hx
      have := spanLen_take_all (fun c => !isLineBreak c) (35 :: (t ++ d :: r)) x (by simpa [commentLen] using hx)
      simpa using this
    -- the rest of the run
    have hs2 : s = s.take o.consumed ++ s.drop o.consumed := (List.take_append_drop _ _).symm
    have htl : (s.take o.consumed).length = o.consumed := by simp [List.length_take]; omega
    have hd1 : inp.drop o.consumed = s.drop o.consumed ++ d :: r := by
      rw [hinp]; exact List.drop_append_of_le_length hcs
    have hlast : ∀ c, (s.drop o.consumed).getLast? = some c → s.getLast? = some c := by
      intro c hc
      rw [hs2, List.getLast?_append, hc]; rfl
    have hruns := ih (s := s.drop o.consumed) (r := r) (r' := r') (d := d) (d' := d') hd1 (by simp; omega)
      hok.2.2.2.1 hd hd' (fun h13 => hcr (hlast _ h13)) (fun c hc => hbl c (hlast c hc))
      (by
        rintro ⟨a, sa, tsa, hra, h1, h2, h3, h4⟩
        apply hcm
        refine ⟨o.consumed + a, sa, _, Runs.cons ho hdone hra, by omega, h2, ?_, ?_⟩
        · rw [← List.drop_drop]; exact h3
        · rw [← List.drop_drop]
          have : o.consumed + n - (o.consumed + a) = n - a := by omega
          rw [this]; exact h4)
    have hd2 : (s ++ d' :: r').drop o.consumed = s.drop o.consumed ++ d' :: r' :=
      List.drop_append_of_le_length hcs
    have := Runs.cons ho2 hdone (by rw [hd2]; exact hruns)
    have hlen : s.length = o.consumed + (s.drop o.consumed).length := by simp; omega
    rw [hlen]; exact this

/-- **`At` for the text with a different layout character (and anything behind it) at a place behind a token** -/
theorem at_tok_extend {cfg : Cfg} (hup : UpOk cfg.up) (hl : UpLay cfg.up) (hf : cfg.fullLexer = false)
    {pre r r' : List Nat} {d d' : Nat} {st : LexState} {ts : List Tok}
    (h : At cfg (pre ++ d :: r) pre.length st ts) (hd : Lay d) (hd' : Lay d')
    (hcr : pre.getLast? = some 13 → d' ≠ 10)
    (hbl : ∀ c, pre.getLast? = some c → isBlank c = true → isBlank d' = false)
    (hcm : BehindComment cfg (pre ++ d :: r) pre.length → isLineBreak d' = true) :
    At cfg (pre ++ d' :: r') pre.length st ts := by
  refine ⟨?_, runs_tok_extend hup hl hf h.2 rfl rfl stInv_init hd hd' hcr hbl
    (fun hb => hcm ((behindComment_iff h.1 _).2 hb))⟩
  cases pre with
  | nil =>
    rcases hd' with rfl | rfl | rfl | rfl | rfl | rfl | rfl <;> simp
  | cons a p => simpa using h.1

/-! ## the rules behind a token, without the hypothesis about the rewritten text -/

/-- One layout-only rewrite `a ↦ b`, hypotheses on the ORIGINAL text only.

    `eol`, `bom` and the three rules at the start of a line are those of `LayoutStep`.  The four rules behind a token
    act in front of a layout character `d` (blank, tab, form feed, `#`, backslash, CR, LF — e.g. trailing blanks and
    comments in front of the line end, a backslash join or a bracket break in front of a blank) and carry, instead of
    `At` for the rewritten text, the side conditions under which it is derived (`at_tok_extend`):
      * `blanks`: `pre` does not end with a blank (insert at the front of a run of blanks), not behind a comment;
      * `commentAfter`, `backslashJoin`: not behind a comment;
      * `bracketBreak`: an LF is not put behind a CR.
    Not covered (still available through `LayoutStep`, with `At` for the rewritten text as a hypothesis): the same rules
    directly in front of a token or at the very end of the text. -/
inductive LayoutStep' (cfg : Cfg) : List Nat → List Nat → Prop
  | eol {a b} : foldEol a = foldEol b → LayoutStep' cfg a b
  | bom {a} : a.head? ≠ some 0xFEFF → LayoutStep' cfg a (0xFEFF :: a)
  | blankLine {pre post w c e st ts} :
      At cfg (pre ++ post) pre.length st ts →
      st.atBol = true → BolBlank w → (c = [] ∨ IsComment c) → IsEol e → NoFuse e post →
      (pre.getLast? = some 13 → (w ++ c ++ e).head? ≠ some 10) →
      LayoutStep' cfg (pre ++ post) (pre ++ (w ++ c ++ e ++ post))
  | blankTail {pre w c st ts} :
      At cfg pre pre.length st ts →
      st.atBol = true → BolBlank w → (c = [] ∨ IsComment c) →
      LayoutStep' cfg pre (pre ++ (w ++ c))
  | formFeed {pre post w st ts} :
      At cfg (pre ++ post) pre.length st ts →
      st.atBol = true → BolBlank w →
      LayoutStep' cfg (pre ++ post) (pre ++ (w ++ 12 :: post))
  /-- blanks behind a token, in front of a layout character (trailing whitespace, blanks in front of a comment or a
      backslash, more blanks in front of blanks) -/
  | blanks {pre r w st ts} {d : Nat} :
      At cfg (pre ++ d :: r) pre.length st ts →
      st.atBol = false → AllBlank w → Lay d →
      (∀ c, pre.getLast? = some c → isBlank c = false) → ¬ BehindComment cfg (pre ++ d :: r) pre.length →
      LayoutStep' cfg (pre ++ d :: r) (pre ++ (w ++ d :: r))
  /-- a comment after code, in front of a line end -/
  | commentAfter {pre r c st ts} {d : Nat} :
      At cfg (pre ++ d :: r) pre.length st ts →
      st.atBol = false → IsComment c → isLineBreak d = true → ¬ BehindComment cfg (pre ++ d :: r) pre.length →
      LayoutStep' cfg (pre ++ d :: r) (pre ++ (c ++ d :: r))
  /-- backslash + line end behind a token, in front of a layout character -/
  | backslashJoin {pre r e st ts} {d : Nat} :
      At cfg (pre ++ d :: r) pre.length st ts →
      st.atBol = false → IsEol e → NoFuse e (d :: r) → Lay d → ¬ BehindComment cfg (pre ++ d :: r) pre.length →
      LayoutStep' cfg (pre ++ d :: r) (pre ++ (92 :: e ++ d :: r))
  /-- a line break behind a token inside brackets, in front of a layout character; also behind a comment -/
  | bracketBreak {pre r e st ts} {d : Nat} :
      At cfg (pre ++ d :: r) pre.length st ts →
      st.atBol = false → 0 < st.nesting → IsEol e → NoFuse e (d :: r) → Lay d →
      (pre.getLast? = some 13 → e.head? ≠ some 10) →
      LayoutStep' cfg (pre ++ d :: r) (pre ++ (e ++ d :: r))

/-- layout equivalence generated by `LayoutStep'` -/
inductive LayoutEq' (cfg : Cfg) : List Nat → List Nat → Prop
  | refl (a) : LayoutEq' cfg a a
  | step {a b} : LayoutStep' cfg a b → LayoutEq' cfg a b
  | symm {a b} : LayoutEq' cfg a b → LayoutEq' cfg b a
  | trans {a b c} : LayoutEq' cfg a b → LayoutEq' cfg b c → LayoutEq' cfg a c

/-- **Every `LayoutStep'` is a `LayoutStep`**: `At` for the rewritten text is derived from the side conditions. -/
theorem LayoutStep'.toLayoutStep {cfg : Cfg} (hup : UpOk cfg.up) (hl : UpLay cfg.up) (hf : cfg.fullLexer = false)
    {a b : List Nat} (h : LayoutStep' cfg a b) : LayoutStep cfg a b := by
  cases h with
  | eol h => exact .eol h
  | bom h => exact .bom h
  | blankLine ha hb hw hc he hn hfuse => exact .blankLine ha hb hw hc he hn hfuse
  | blankTail ha hb hw hc => exact .blankTail ha hb hw hc
  | formFeed ha hb hw => exact .formFeed ha hb hw
  | blanks ha hb hw hd hlast hcm =>
    rename_i pre r w st ts d
    refine .blanks ha ?_ hb hw
    cases w with
    | nil => simpa using ha
    | cons x w' =>
      have hx : isBlank x = true := hw x (by simp)
      have := at_tok_extend hup hl hf ha hd (lay_of_blank hx) (r' := w' ++ d :: r)
        (fun _ => by rcases isBlank_cases hx with rfl | rfl | rfl <;> decide)
        (fun c hc hcb => by rw [hlast c hc] at hcb; cases hcb)
        (fun hbc => absurd hbc hcm)
      simpa using this
  | commentAfter ha hb hc hd hcm =>
    rename_i pre r c st ts d
    refine .commentAfter ha ?_ hb hc (Or.inr ⟨d, r, rfl, hd⟩)
    obtain ⟨t, rfl, _⟩ := hc
    have := at_tok_extend hup hl hf ha (lay_of_break hd) (d' := 35) (by decide) (r' := t ++ d :: r)
      (fun _ => by decide) (fun _ _ _ => by decide) (fun hbc => absurd hbc hcm)
    simpa using this
  | backslashJoin ha hb he hn hd hcm =>
    rename_i pre r e st ts d
    refine .backslashJoin ha ?_ hb he hn (by simp)
    have := at_tok_extend hup hl hf ha hd (d' := 92) (by decide) (r' := e ++ d :: r)
      (fun _ => by decide) (fun _ _ _ => by decide) (fun hbc => absurd hbc hcm)
    simpa using this
  | bracketBreak ha hb hnest he hn hd hfuse =>
    rename_i pre r e st ts d
    refine .bracketBreak ha ?_ hb hnest he hn
    obtain ⟨x, et, rfl, hx⟩ := eol_cons he
    have := at_tok_extend hup hl hf ha hd (lay_of_break hx) (r' := et ++ d :: r)
      (fun h13 => by simpa using hfuse h13)
      (fun _ _ _ => by rcases isLineBreak_cases hx with rfl | rfl <;> decide)
      (fun _ => hx)
    simpa using this

theorem LayoutEq'.toLayoutEq {cfg : Cfg} (hup : UpOk cfg.up) (hl : UpLay cfg.up) (hf : cfg.fullLexer = false)
    {a b : List Nat} (h : LayoutEq' cfg a b) : LayoutEq cfg a b := by
  induction h with
  | refl a => exact .refl a
  | step h => exact .step (h.toLayoutStep hup hl hf)
  | symm _ ih => exact .symm ih
  | trans _ _ ih1 ih2 => exact .trans ih1 ih2

/-! ## non-vacuity -/

/-- `At` behind `x` in `x⏎` gives `At` behind `x` in `x␠#c⏎y` -/
example : At localCfg ([120] ++ 32 :: [35, 99, 10, 121]) 1 ⟨false, 0, [⟨0, 0⟩]⟩ [.name [120]] := by
  have h1 : step localCfg .init [120, 10] = .ok ⟨[⟨.name [120], 0, 1⟩], 1, ⟨false, 0, [⟨0, 0⟩]⟩, false⟩ := by rfl
  have ha : At localCfg ([120] ++ 10 :: []) 1 ⟨false, 0, [⟨0, 0⟩]⟩ [.name [120]] :=
    ⟨by decide, Runs.cons h1 rfl (Runs.nil _ _)⟩
  refine at_tok_extend localUp_ok localUp_lay rfl (pre := [120]) ha (by decide) (d' := 32) (by decide)
    (by decide) (by intro c hc; simp at hc; subst hc; decide) (fun hb => absurd hb ?_)
  refine not_behindComment_of_noHash (pre := [120]) (post := [10]) ?_
  intro a ha h35
  have : a = 0 := by simp at ha; omega
  subst this; simp at h35

/-- a run that reaches a place `a > 0` starts with a step that consumes at most `a` characters -/
theorem runs_first_step {cfg : Cfg} {st0 : LexState} {inp : List Nat} {ts : List Tok} {a : Nat} {st : LexState}
    (h : Runs cfg st0 inp ts a st) (ha : 0 < a) : ∃ o, step cfg st0 inp = .ok o ∧ o.consumed ≤ a := by
  cases h with
  | nil => omega
  | cons h1 _ _ => exact ⟨_, h1, by omega⟩

/-- **`BehindComment` is about comments, not about the character `#`**: behind the string `"#"` (in `"#"⏎`) the place
    is not behind a comment — the `#` is at no step boundary -/
theorem not_behindComment_string : ¬ BehindComment localCfg ([34, 35, 34] ++ [10]) 3 := by
  rintro ⟨a, st, ts, hat, h1, _, h3, _⟩
  have s1 : step localCfg .init [34, 35, 34, 10] =
      .ok ⟨[⟨.string [35] .string false, 0, 3⟩], 3, ⟨false, 0, [⟨0, 0⟩]⟩, false⟩ := by rfl
  have ha1 : a = 1 := by
    rcases a with _ | _ | _ | a
    · simp at h3
    · rfl
    · simp at h3
    · omega
  subst ha1
  obtain ⟨o, ho, hle⟩ := runs_first_step hat.2 (by omega)
  simp only [List.cons_append, List.nil_append] at ho
  rw [s1] at ho; cases ho
  simp at hle

end PV.C08
