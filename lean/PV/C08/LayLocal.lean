import PV.C08.Local
/-
  PV.C08.LayLocal — look-ahead in front of a LAYOUT character (blank, tab, form feed, `#`, backslash, CR, LF).

  `step_lay_local`: a step that ends in front of a layout character `d` (`step cfg st (y ++ d :: r) = .ok o`,
  `o.consumed ≤ |y|`) gives the same result on `y ++ d' :: r'` for every layout character `d'` and every `r'` — the
  step does not look beyond the first layout character, and all layout characters end the same tokens — provided the
  step does not end EXACTLY in front of `d` (`o.consumed < |y|`), or `EndOk st y d'` holds:
    * `y` does not end with a CR that `d' = LF` would complete to one CRLF,
    * `y` does not end with a blank when `d'` is a blank (the blank arm would take `d'` as well),
    * the step is not the comment arm (`st.atBol = false`, `y = # …` without a line break) unless `d'` is a line
      break (a comment takes everything up to the line end).
  The three exceptions are real: `lay_side_conditions_needed`.

  This is the analogue of `step_brk_local` (Local.lean) for the seven layout characters; the number lexer lemmas are
  the `_brk` lemmas of Fold.lean with "line break" replaced by "layout character".

  Hypothesis on the Unicode parameters, besides `UpOk`: `UpLay` — no layout character is `XID_Continue` (true of the
  real tables and of the drivers' ASCII instantiation; `Sane` has it for CR and LF only).
-/
namespace PV.C08
open PV.Lexer

/-- the layout characters: space, tab, form feed, `#`, backslash, CR, LF -/
def Lay (d : Nat) : Prop := d = 32 ∨ d = 9 ∨ d = 12 ∨ d = 35 ∨ d = 92 ∨ d = 13 ∨ d = 10

instance (d : Nat) : Decidable (Lay d) := by unfold Lay; infer_instance

theorem lay_of_blank {d : Nat} (h : isBlank d = true) : Lay d := by
  rcases isBlank_cases h with rfl | rfl | rfl <;> decide

theorem lay_of_break {d : Nat} (h : isLineBreak d = true) : Lay d := by
  rcases isLineBreak_cases h with rfl | rfl <;> decide

/-- no layout character continues an identifier -/
def UpLay (up : UParams) : Prop := ∀ c, Lay c → up.xidContinue c = false

theorem localUp_lay : UpLay localUp := by
  intro c h
  rcases h with rfl | rfl | rfl | rfl | rfl | rfl | rfl <;> decide

/-! ## numbers -/

theorem isDigitOf_lay {d : Nat} (hd : Lay d) (r : Nat) : isDigitOf r d = false := by
  rcases hd with rfl | rfl | rfl | rfl | rfl | rfl | rfl <;> (unfold isDigitOf; split <;> simp [isDigit])

theorem isDigit_lay {d : Nat} (hd : Lay d) : isDigit d = false := by
  rcases hd with rfl | rfl | rfl | rfl | rfl | rfl | rfl <;> decide

theorem radixRun_lay (radix : Nat) (x : List Nat) {d : Nat} (hd : Lay d) (r : List Nat) :
    radixRun radix (x ++ d :: r) = radixRun radix (x ++ [10]) := by
  induction x with
  | nil =>
    have h95 : d ≠ 95 := by rcases hd with rfl | rfl | rfl | rfl | rfl | rfl | rfl <;> decide
    simp [radixRun, isDigitOf_lay hd, isDigitOf_10, h95]
  | cons c x ih =>
    simp only [List.cons_append]
    unfold radixRun
    rw [ih]
    by_cases hc : isDigitOf radix c = true
    · simp [hc]
    · simp only [hc, Bool.false_eq_true, ↓reduceIte]
      by_cases h95 : c = 95
      · simp only [h95, ↓reduceIte]
        cases x with
        | nil => simp [isDigitOf_lay hd, isDigitOf_10]
        | cons e x' => simp only [List.cons_append]
      · simp [h95]

theorem atExponent_lay (x : List Nat) {d : Nat} (hd : Lay d) (r : List Nat) :
    atExponent (x ++ d :: r) = atExponent (x ++ [10]) := by
  rcases hd with rfl | rfl | rfl | rfl | rfl | rfl | rfl <;>
    rcases x with _ | ⟨e, _ | ⟨s, _ | ⟨t, x'⟩⟩⟩ <;>
    rcases r with _ | ⟨a, _ | ⟨b, r⟩⟩ <;> simp [atExponent, isDigit]

theorem head?_lay_ne (x : List Nat) {d : Nat} (r : List Nat) {k : Nat}
    (hk : k ≠ 10) (hk' : k ≠ d) : ((x ++ d :: r).head? = some k) = ((x ++ [10]).head? = some k) := by
  cases x with
  | nil => simp; omega
  | cons c x => simp

theorem head?_lay_dec (x : List Nat) {d : Nat} (r : List Nat) {k : Nat}
    (hk : k ≠ 10) (hk' : k ≠ d) :
    decide ((x ++ d :: r).head? = some k) = decide ((x ++ [10]).head? = some k) := by
  simp only [head?_lay_ne x r hk hk']

theorem fracPart_lay (v : List Nat) (n : Nat) (x : List Nat) {d : Nat} (hd : Lay d) (r : List Nat) :
    fracPart v n (x ++ d :: r) = fracPart v n (x ++ [10]) := by
  have h95 : (95 : Nat) ≠ d := by rcases hd with rfl | rfl | rfl | rfl | rfl | rfl | rfl <;> decide
  cases x with
  | nil =>
    have : d ≠ 46 := by rcases hd with rfl | rfl | rfl | rfl | rfl | rfl | rfl <;> decide
    simp only [List.nil_append]
    unfold fracPart
    split <;> simp_all
  | cons c x =>
    simp only [List.cons_append]
    unfold fracPart
    by_cases hc : c = 46
    · subst hc
      simp only [radixRun_lay 10 x hd r, head?_lay_ne x r (show (95:Nat) ≠ 10 by decide) h95]
    · split <;> simp_all

theorem expPartBody_lay (v : List Nat) (n : Nat) (x : List Nat) {d : Nat} (hd : Lay d) (r : List Nat) :
    expPartBody v n (x ++ d :: r) = expPartBody v n (x ++ [10]) := by
  have hdE : ¬ (d = 101 ∨ d = 69) := by rcases hd with rfl | rfl | rfl | rfl | rfl | rfl | rfl <;> decide
  have hdS : ¬ (d = 45 ∨ d = 43) := by rcases hd with rfl | rfl | rfl | rfl | rfl | rfl | rfl <;> decide
  have hd95 : (95 : Nat) ≠ d := by rcases hd with rfl | rfl | rfl | rfl | rfl | rfl | rfl <;> decide
  have h95 := fun y => head?_lay_ne y r (show (95:Nat) ≠ 10 by decide) hd95
  cases x with
  | nil =>
    simp only [List.nil_append]
    unfold expPartBody
    simp [hdE]
  | cons c x =>
    simp only [List.cons_append]
    unfold expPartBody
    by_cases hc : (c = 101 ∨ c = 69)
    · simp only [Bool.or_eq_true, decide_eq_true_eq, hc, ↓reduceIte, h95 x]
      by_cases hu : (x ++ [10]).head? = some 95
      · simp [hu]
      · simp only [hu, ↓reduceIte]
        cases x with
        | nil =>
          simp only [List.nil_append]
          have r1 := radixRun_lay 10 [] hd r
          have r2 := (radixRun_brk 10 [] (d := 10) (by decide) []).2
          simp only [List.nil_append, List.length_nil, Nat.le_zero_eq] at r1 r2
          simp [hdS, r1, r2]
        | cons s x' =>
          simp only [List.cons_append]
          by_cases hs : (s = 45 ∨ s = 43)
          · simp only [hs, ↓reduceIte, h95 x', radixRun_lay 10 x' hd r]
          · have r1 := radixRun_lay 10 (s :: x') hd r
            simp only [List.cons_append] at r1
            simp only [hs, ↓reduceIte, r1]
    · simp [hc]

theorem expPart_lay (v : List Nat) (n : Nat) (x : List Nat) {d : Nat} (hd : Lay d) (r : List Nat) :
    expPart v n (x ++ d :: r) = expPart v n (x ++ [10]) := by
  unfold expPart
  rw [atExponent_lay x hd r, expPartBody_lay v n x hd r]

theorem isJ_lay {d : Nat} (hd : Lay d) : isJ d = false := by
  rcases hd with rfl | rfl | rfl | rfl | rfl | rfl | rfl <;> decide

theorem jTail_lay (x : List Nat) {d : Nat} (hd : Lay d) (r : List Nat) {α} (f g : α) :
    (match x ++ d :: r with | c :: _ => if isJ c then f else g | [] => g) =
    (match x ++ [10] with | c :: _ => if isJ c then f else g | [] => g) := by
  cases x with
  | nil =>
    have := isJ_lay hd
    have h10 : isJ 10 = false := by decide
    simp [this, h10]
  | cons c x => simp

theorem floatTail_lay (x : List Nat) {d : Nat} (hd : Lay d) (r : List Nat) (v1 : List Nat)
    (n1 : Nat) (h1 : n1 ≤ x.length) :
    floatTail (x ++ d :: r) v1 n1 = floatTail (x ++ [10]) v1 n1 := by
  unfold floatTail
  rw [drop_brk h1, drop_brk h1]
  obtain ⟨_, f2⟩ := fracPart_brk v1 n1 (x.drop n1) (d := 10) (by decide) []
  rw [fracPart_lay v1 n1 (x.drop n1) hd r]
  cases hf : fracPart v1 n1 (x.drop n1 ++ [10]) with
  | error e => simp
  | ok p =>
    obtain ⟨v2, n2⟩ := p
    have hn2 : n2 ≤ x.length := by have := f2 v2 n2 hf; simp at this; omega
    simp only []
    rw [drop_brk hn2, drop_brk hn2]
    obtain ⟨_, e2⟩ := expPart_brk v2 n2 (x.drop n2) (d := 10) (by decide) []
    rw [expPart_lay v2 n2 (x.drop n2) hd r]
    cases he : expPart v2 n2 (x.drop n2 ++ [10]) with
    | error e => simp
    | ok p =>
      obtain ⟨v3, n3⟩ := p
      have hn3 : n3 ≤ x.length := by have := e2 v3 n3 he; simp at this; omega
      simp only []
      rw [drop_brk hn3, drop_brk hn3]
      by_cases hok : floatTextOk v3 = true
      · simp only [hok, Bool.not_true, Bool.false_eq_true, ↓reduceIte]
        exact jTail_lay (x.drop n3) hd r (Except.ok (Tok.complex v3, n3 + 1) : Sub) (Except.ok (Tok.float v3, n3))
      · simp [hok]

theorem intTail_lay (x : List Nat) {d : Nat} (hd : Lay d) (r : List Nat) (z : Bool) (v1 : List Nat)
    (n1 : Nat) (h1 : n1 ≤ x.length) :
    intTail (x ++ d :: r) z v1 n1 = intTail (x ++ [10]) z v1 n1 := by
  unfold intTail
  rw [drop_brk h1, drop_brk h1]
  cases hx : x.drop n1 with
  | nil =>
    have h10 : isJ 10 = false := by decide
    simp only [List.nil_append, isJ_lay hd, h10, Bool.false_eq_true, ↓reduceIte]
  | cons c x' => simp only [List.cons_append]

theorem lexNormalNumber_lay (x : List Nat) {d : Nat} (hd : Lay d) (r : List Nat) :
    lexNormalNumber (x ++ d :: r) = lexNormalNumber (x ++ [10]) := by
  have h46 : (46 : Nat) ≠ d := by rcases hd with rfl | rfl | rfl | rfl | rfl | rfl | rfl <;> decide
  have h48 : (48 : Nat) ≠ d := by rcases hd with rfl | rfl | rfl | rfl | rfl | rfl | rfl <;> decide
  unfold lexNormalNumber
  have r2 := (radixRun_brk 10 x (d := 10) (by decide) []).2
  simp only [radixRun_lay 10 x hd r]
  rw [drop_brk r2, drop_brk r2]
  rw [head?_lay_dec _ r (show (46:Nat) ≠ 10 by decide) h46, atExponent_lay _ hd r,
    head?_lay_dec x r (show (48:Nat) ≠ 10 by decide) h48]
  split
  · exact floatTail_lay x hd r _ _ r2
  · exact intTail_lay x hd r _ _ _ r2

theorem lexNumberRadix_lay (radix : Nat) (x : List Nat) {d : Nat} (hd : Lay d) (r : List Nat) :
    lexNumberRadix radix (x ++ d :: r) = lexNumberRadix radix (x ++ [10]) := by
  unfold lexNumberRadix
  simp only [radixRun_lay radix x hd r]

/-- the number lexer does not look past a layout character and does not tell layout characters apart -/
theorem lexNumber_lay (x : List Nat) {d : Nat} (hd : Lay d) (r : List Nat) :
    lexNumber (x ++ d :: r) = lexNumber (x ++ [10]) := by
  have hN := lexNormalNumber_lay x hd r
  have hdd : ¬ (d = 120 ∨ d = 88) ∧ ¬ (d = 111 ∨ d = 79) ∧ ¬ (d = 98 ∨ d = 66) := by
    rcases hd with rfl | rfl | rfl | rfl | rfl | rfl | rfl <;> decide
  rcases x with _ | ⟨c, _ | ⟨c2, x'⟩⟩
  · have : d ≠ 48 := by rcases hd with rfl | rfl | rfl | rfl | rfl | rfl | rfl <;> decide
    simp only [List.nil_append] at hN ⊢
    rw [lexNumber_first r this, lexNumber_first [] (show (10:Nat) ≠ 48 by decide)]; exact hN
  · simp only [List.cons_append, List.nil_append] at hN ⊢
    rw [lexNumber_second r hdd.1 hdd.2.1 hdd.2.2,
      lexNumber_second [] (by decide) (by decide) (by decide)]; exact hN
  · simp only [List.cons_append] at hN ⊢
    by_cases hc : c = 48
    · subst hc
      unfold lexNumber
      simp only []
      split
      · exact lexNumberRadix_lay 16 x' hd r
      · split
        · exact lexNumberRadix_lay 8 x' hd r
        · split
          · exact lexNumberRadix_lay 2 x' hd r
          · exact hN
    · rw [lexNumber_first _ hc, lexNumber_first _ hc]; exact hN

/-- `1.` in front of a blank: the float `1.`, as in front of a line end; `1e` in front of `#`: the integer `1` -/
example : lexNumber ([49, 46] ++ 32 :: [120]) = .ok (.float [49, 46], 2) := by
  rw [lexNumber_lay [49, 46] (by decide) [120]]; rfl
example : lexNumber ([49, 101] ++ 35 :: [120]) = .ok (.int 1, 1) := by
  rw [lexNumber_lay [49, 101] (by decide) [120]]; rfl

theorem lexNumber_lay_local (x : List Nat) {d d' : Nat} (hd : Lay d) (hd' : Lay d') (r r' : List Nat) :
    lexNumber (x ++ d :: r) = lexNumber (x ++ d' :: r') := by
  rw [lexNumber_lay x hd r, lexNumber_lay x hd' r']

theorem headIsDigit_lay_local (y : List Nat) {d d' : Nat} (hd : Lay d) (hd' : Lay d') (r r' : List Nat) :
    headIsDigit (y ++ d :: r) = headIsDigit (y ++ d' :: r') := by
  cases y with
  | nil => simp [headIsDigit, isDigit_lay hd, isDigit_lay hd']
  | cons c y => rfl

/-! ## operators -/

/-- characters that never continue an operator -/
def OpInert (d : Nat) : Prop := d ≠ 61 ∧ d ≠ 62 ∧ d ≠ 42 ∧ d ≠ 47 ∧ d ≠ 60 ∧ d ≠ 46

theorem opInert_lay {d : Nat} (hd : Lay d) : OpInert d := by
  rcases hd with rfl | rfl | rfl | rfl | rfl | rfl | rfl <;> (unfold OpInert; decide)

set_option maxHeartbeats 1000000 in
theorem lexOp_second_some {c d : Nat} {r : List Nat} {o : Op} {n : Nat} (hd : OpInert d)
    (h : lexOp (c :: d :: r) = some (o, n)) {d' : Nat} (hd' : OpInert d') (r' : List Nat) :
    lexOp (c :: d' :: r') = some (o, n) := by
  obtain ⟨a1, a2, a3, a4, a5, a6⟩ := hd
  obtain ⟨b1, b2, b3, b4, b5, b6⟩ := hd'
  generalize hl : c :: d :: r = l at h
  revert h hl
  fun_cases lexOp l <;> intro hl h <;> simp at h
  all_goals (obtain ⟨rfl, rfl⟩ := h; simp at hl)
  all_goals first
    | (obtain ⟨rfl, rfl, _⟩ := hl; simp_all [lexOp]; done)
    | (obtain ⟨rfl, rfl⟩ := hl; simp_all [lexOp]; done)

set_option maxHeartbeats 1000000 in
theorem lexOp_third_some {c a d : Nat} {r : List Nat} {o : Op} {n : Nat} (h61 : d ≠ 61) (h46 : d ≠ 46)
    (h : lexOp (c :: a :: d :: r) = some (o, n)) {d' : Nat} (h61' : d' ≠ 61) (h46' : d' ≠ 46) (r' : List Nat) :
    lexOp (c :: a :: d' :: r') = some (o, n) := by
  generalize hl : c :: a :: d :: r = l at h
  revert h hl
  fun_cases lexOp l <;> intro hl h <;> simp at h
  all_goals (obtain ⟨rfl, rfl⟩ := h; simp at hl)
  all_goals first
    | (obtain ⟨rfl, rfl, rfl, rfl⟩ := hl; simp_all [lexOp]; done)
    | (obtain ⟨rfl, rfl, rfl⟩ := hl; simp_all [lexOp]; done)
    | (obtain ⟨rfl, rfl⟩ := hl; simp_all [lexOp]; done)

/-- operators: `c` is not `!` (the caller has its own arm for it) -/
theorem lexOp_lay_local {c : Nat} (h33 : c ≠ 33) (y : List Nat) {d d' : Nat} (hd : Lay d) (hd' : Lay d')
    (r r' : List Nat) : lexOp (c :: (y ++ d :: r)) = lexOp (c :: (y ++ d' :: r')) := by
  cases h : lexOp (c :: (y ++ d :: r)) with
  | none =>
    obtain ⟨h1, h2, h3, h4, h5, h6, h7, h8, h9, h10, h11, h12, h13, h14, h15, h16, h17⟩ := lexOp_none_head h rfl
    exact (lexOp_none c _ h1 h2 h3 h4 h5 h6 h7 h8 h9 h10 h11 h12 h13 h14 h15 h16 h17
      (fun x hx => h33 (by simpa using (List.cons.inj hx).1))).symm
  | some p =>
    obtain ⟨o, n⟩ := p
    symm
    have i := opInert_lay hd
    have i' := opInert_lay hd'
    rcases y with _ | ⟨a, _ | ⟨b, y⟩⟩
    · exact lexOp_second_some i h i' r'
    · exact lexOp_third_some i.1 i.2.2.2.2.2 h i'.1 i'.2.2.2.2.2 r'
    · simp only [List.cons_append] at h ⊢
      exact lexOp_three_some h _

/-! ## names -/

theorem scanFold_lay_local {p : Nat → Bool} (h13 : p 13 = false) (y : List Nat) {d d' : Nat}
    (hd : p d = false) (hd' : p d' = false) (r r' : List Nat) :
    scanFold p (y ++ d :: r) = scanFold p (y ++ d' :: r') := by
  have e : ∀ x t, p x = false → scanFold p (x :: t) = ([], 0) := by
    intro x t hx
    by_cases h : x = 13
    · subst h; exact scanFold_cr h13 t
    · rw [scanFold_cons_ne h]; simp [hx]
  induction y with
  | nil => simp [e _ _ hd, e _ _ hd']
  | cons c y ih =>
    by_cases hc : c = 13
    · subst hc; simp [scanFold_cr h13]
    · simp only [List.cons_append, scanFold_cons_ne hc, ih]

theorem isIdCont_lay {up : UParams} (hl : UpLay up) {d : Nat} (hd : Lay d) : isIdCont up d = false := by
  have := hl d hd
  rcases hd with rfl | rfl | rfl | rfl | rfl | rfl | rfl <;> simp [isIdCont, isAsciiLetter, isDigit, this]

theorem isIdStart_lay {up : UParams} (hup : UpOk up) {d : Nat} (hd : Lay d) : isIdStart up d = false := by
  have hx : up.xidStart d = false := by
    apply hup.layoutChars
    rcases hd with rfl | rfl | rfl | rfl | rfl | rfl | rfl <;> simp [isBlank, isLineBreak]
  rcases hd with rfl | rfl | rfl | rfl | rfl | rfl | rfl <;> simp [isIdStart, isAsciiLetter, hx]

theorem lexName_lay_local {up : UParams} (hl : UpLay up) (y : List Nat) {d d' : Nat} (hd : Lay d) (hd' : Lay d')
    (r r' : List Nat) : lexName up (y ++ d :: r) = lexName up (y ++ d' :: r') := by
  unfold lexName
  rw [scanFold_lay_local (isIdCont_lay hl (by decide)) y (isIdCont_lay hl hd) (isIdCont_lay hl hd') r r']

/-! ## strings, identifiers -/

theorem isQuote_lay {d : Nat} (hd : Lay d) : isQuote d = false := by
  rcases hd with rfl | rfl | rfl | rfl | rfl | rfl | rfl <;> decide

theorem ofChars_lay {c d : Nat} (hd : Lay d) : StringKind.ofChars c d = none := by
  rcases hd with rfl | rfl | rfl | rfl | rfl | rfl | rfl <;> simp [StringKind.ofChars]

theorem isTripleOpen_lay_local {q : Nat} (hq : isQuote q = true) (y : List Nat) {d d' : Nat} (hd : Lay d)
    (hd' : Lay d') (r r' : List Nat) : isTripleOpen q (y ++ d :: r) = isTripleOpen q (y ++ d' :: r') := by
  have hdq : d ≠ q := by
    intro h; subst h; have := isQuote_lay hd; simp [hq] at this
  have hdq' : d' ≠ q := by
    intro h; subst h; have := isQuote_lay hd'; simp [hq] at this
  rcases y with _ | ⟨a, _ | ⟨b, y⟩⟩
  · rcases r with _ | ⟨x, r⟩ <;> rcases r' with _ | ⟨x', r'⟩ <;> simp [isTripleOpen, hdq, hdq']
  · simp [isTripleOpen, hdq, hdq']
  · simp [isTripleOpen]

/-- a string literal that ends in front of a layout character does not depend on it or on what follows it -/
theorem lexString_lay_local (kind : StringKind) {p : List Nat} (hp : p.length = kind.prefixLen) {q : Nat}
    (hq : isQuote q = true) (y : List Nat) {d d' : Nat} (hd : Lay d) (hd' : Lay d') (r r' : List Nat) {tok : Tok}
    {n : Nat} (h : lexString kind (p ++ q :: (y ++ d :: r)) = .ok (tok, n)) (hn : n ≤ p.length + 1 + y.length) :
    lexString kind (p ++ q :: (y ++ d' :: r')) = .ok (tok, n) := by
  unfold lexString at h ⊢
  rw [← hp, List.drop_left] at h ⊢
  simp only [] at h ⊢
  rw [← isTripleOpen_lay_local hq y hd hd' r r']
  have hdq : d ≠ q := by
    intro h; subst h; have := isQuote_lay hd; simp [hq] at this
  by_cases ht : isTripleOpen q (y ++ d :: r) = true
  · simp only [ht, ↓reduceIte] at h ⊢
    obtain ⟨y3, rfl⟩ : ∃ y3, y = q :: q :: y3 := by
      rcases y with _ | ⟨a, _ | ⟨b, t⟩⟩
      · rcases r with _ | ⟨x, r⟩ <;> simp [isTripleOpen, hdq] at ht
      · simp [isTripleOpen, hdq] at ht
      · simp [isTripleOpen] at ht; obtain ⟨rfl, rfl⟩ := ht; exact ⟨t, rfl⟩
    simp only [List.cons_append, List.drop_succ_cons, List.drop_zero] at h ⊢
    cases hs : strLoop q true (y3 ++ d :: r) with
    | error e => obtain ⟨k, off⟩ := e; simp [hs] at h
    | ok pr =>
      obtain ⟨v, m⟩ := pr
      simp only [hs, Except.ok.injEq, Prod.mk.injEq] at h
      obtain ⟨rfl, rfl⟩ := h
      rw [strLoop_prefix hq true hs (by simp at hn; omega) (d' :: r')]
  · simp only [ht, Bool.false_eq_true, ↓reduceIte] at h ⊢
    cases hs : strLoop q false (y ++ d :: r) with
    | error e => obtain ⟨k, off⟩ := e; simp [hs] at h
    | ok pr =>
      obtain ⟨v, m⟩ := pr
      simp only [hs, Except.ok.injEq, Prod.mk.injEq] at h
      obtain ⟨rfl, rfl⟩ := h
      rw [strLoop_prefix hq false hs (by omega) (d' :: r')]

theorem lexIdentifier_lay2 (up : UParams) (c : Nat) {d : Nat} (hd : Lay d) (r : List Nat) :
    lexIdentifier up (c :: d :: r) = .ok (lexName up (c :: d :: r)) := by
  unfold lexIdentifier
  simp only [isQuote_lay hd, Bool.false_eq_true, ↓reduceIte]
  cases r with
  | nil => rfl
  | cons q2 t => simp only [ofChars_lay (c := c) hd]; split <;> rfl

/-- an identifier, keyword or prefixed string that ends in front of a layout character -/
theorem lexIdentifier_lay_local {up : UParams} (hl : UpLay up) (c : Nat) (y : List Nat) {d d' : Nat}
    (hd : Lay d) (hd' : Lay d') (r r' : List Nat) {tok : Tok} {n : Nat}
    (h : lexIdentifier up (c :: (y ++ d :: r)) = .ok (tok, n)) (hn : n ≤ 1 + y.length) :
    lexIdentifier up (c :: (y ++ d' :: r')) = .ok (tok, n) := by
  have hN := lexName_lay_local hl (c :: y) hd hd' r r'
  simp only [List.cons_append] at hN
  rcases y with _ | ⟨q, _ | ⟨q2, y⟩⟩
  · simp only [List.nil_append] at h hN ⊢
    rw [lexIdentifier_lay2 up c hd] at h
    rw [lexIdentifier_lay2 up c hd']
    rw [← hN]; exact h
  · simp only [List.cons_append, List.nil_append] at h hN ⊢
    unfold lexIdentifier at h ⊢
    by_cases hq : isQuote q = true
    · simp only [hq, ↓reduceIte] at h ⊢
      cases hk : StringKind.ofChar c with
      | none => simp only [hk] at h ⊢; rw [← hN]; exact h
      | some kind =>
        simp only [hk] at h ⊢
        exact lexString_lay_local kind (p := [c]) (by simp [ofChar_prefixLen hk]) hq [] hd hd' r r' h (by simp at hn ⊢; omega)
    · simp only [hq, isQuote_lay hd, isQuote_lay hd', Bool.false_eq_true, ↓reduceIte] at h ⊢
      rw [← hN]; exact h
  · simp only [List.cons_append] at h hN ⊢
    unfold lexIdentifier at h ⊢
    by_cases hq : isQuote q = true
    · simp only [hq, ↓reduceIte] at h ⊢
      cases hk : StringKind.ofChar c with
      | none => simp only [hk] at h ⊢; rw [← hN]; exact h
      | some kind =>
        simp only [hk] at h ⊢
        exact lexString_lay_local kind (p := [c]) (by simp [ofChar_prefixLen hk]) hq (q2 :: y) hd hd' r r' h
          (by simp at hn ⊢; omega)
    · simp only [hq, Bool.false_eq_true, ↓reduceIte] at h ⊢
      by_cases hq2 : isQuote q2 = true
      · simp only [hq2, ↓reduceIte] at h ⊢
        cases hk : StringKind.ofChars c q with
        | none => simp only [hk] at h ⊢; rw [← hN]; exact h
        | some kind =>
          simp only [hk] at h ⊢
          exact lexString_lay_local kind (p := [c, q]) (by simp [ofChars_prefixLen hk]) hq2 y hd hd' r r' h
            (by simp at hn ⊢; omega)
      · simp only [hq2, Bool.false_eq_true, ↓reduceIte] at h ⊢
        rw [← hN]; exact h

/-! ## `consume_character` -/

theorem spanLen_swap {p : Nat → Bool} (Y : List Nat) {d d' : Nat} (r r' : List Nat)
    (h : spanLen p (Y ++ d :: r) ≤ Y.length) (hd' : spanLen p (Y ++ d :: r) = Y.length → p d' = false) :
    spanLen p (Y ++ d' :: r') = spanLen p (Y ++ d :: r) := by
  induction Y with
  | nil =>
    simp only [List.nil_append, List.length_nil, Nat.le_zero_eq] at h hd' ⊢
    have hpd : p d = false := by
      cases hp : p d with
      | false => rfl
      | true => simp [spanLen, hp] at h
    simp [spanLen, hpd, hd' h]
  | cons c Y ih =>
    simp only [List.cons_append, spanLen, List.length_cons] at h hd' ⊢
    by_cases hc : p c = true
    · simp only [hc, ↓reduceIte] at h hd' ⊢
      rw [ih (by omega) (fun e => hd' (by omega))]
    · simp [hc]

/-- if the span reaches the end of `Y`, all of `Y` satisfies `p` -/
theorem spanLen_ge_all {p : Nat → Bool} (Y t : List Nat) (h : Y.length ≤ spanLen p (Y ++ t)) :
    ∀ x ∈ Y, p x = true := by
  induction Y with
  | nil => intro x hx; simp at hx
  | cons c Y ih =>
    simp only [List.cons_append, spanLen, List.length_cons] at h
    by_cases hc : p c = true
    · simp only [hc, ↓reduceIte] at h
      intro x hx
      rcases List.mem_cons.1 hx with rfl | hx
      · exact hc
      · exact ih (by omega) x hx
    · simp [hc] at h

/-- `next_char` in front of `y ++ d :: r`, when it takes at most `y` -/
theorem nextChar_lay_local (c : Nat) (y : List Nat) {d d' : Nat} (r r' : List Nat)
    {x n : Nat} {rest : List Nat} (h : nextChar (c :: (y ++ d :: r)) = some (x, n, rest)) (hn : n ≤ 1 + y.length)
    (hcr : n = 1 + y.length → (c :: y).getLast? = some 13 → d' ≠ 10) :
    ∃ rest', nextChar (c :: (y ++ d' :: r')) = some (x, n, rest') ∧ rest.isEmpty = false ∧ rest'.isEmpty = false := by
  by_cases hc : c = 13
  · subst hc
    rcases y with _ | ⟨a, y⟩
    · by_cases hd10 : d = 10
      · subst hd10; simp [nextChar] at h; simp at hn; omega
      · simp [nextChar, hd10] at h
        obtain ⟨rfl, rfl, rfl⟩ := h
        have := hcr (by simp) (by simp)
        simp [nextChar, this]
    · by_cases ha : a = 10
      · subst ha; simp [nextChar] at h ⊢; obtain ⟨rfl, rfl, rfl⟩ := h; simp
      · simp [nextChar, ha] at h ⊢; obtain ⟨rfl, rfl, rfl⟩ := h; simp
  · have e : ∀ t, nextChar (c :: t) = some (c, 1, t) := by
      intro t; rw [nextChar.eq_def]; split <;> simp_all
    rw [e] at h ⊢
    simp at h; obtain ⟨rfl, rfl, rfl⟩ := h; simp

/-- `consume_character` that ends in front of a layout character: the same on every other layout character, unless it
    ends exactly there and the other one would be taken as well (CR + LF, blank + blank, comment + anything but a line
    break) -/
theorem consumeCharacter_lay_local {cfg : Cfg} (hf : cfg.fullLexer = false) (st : LexState) (c : Nat) (y : List Nat)
    {d d' : Nat} (hd : Lay d) (hd' : Lay d') (r r' : List Nat) {o : StepOut}
    (h : consumeCharacter cfg st c (y ++ d :: r) = .ok o) (hc : o.consumed ≤ 1 + y.length)
    (hcr : o.consumed = 1 + y.length → (c :: y).getLast? = some 13 → d' ≠ 10)
    (hbl : o.consumed = 1 + y.length → (∀ x ∈ c :: y, isBlank x = true) → isBlank d' = false)
    (hcm : o.consumed = 1 + y.length → c = 35 → isLineBreak d' = true) :
    consumeCharacter cfg st c (y ++ d' :: r') = .ok o := by
  have hNum := lexNumber_lay_local (c :: y) hd hd' r r'
  simp only [List.cons_append] at hNum
  unfold consumeCharacter at h ⊢
  rw [← hNum, ← headIsDigit_lay_local y hd hd' r r']
  by_cases h1 : isDigit c = true
  · simpa only [h1, ↓reduceIte] using h
  simp only [h1, Bool.false_eq_true, ↓reduceIte] at h ⊢
  by_cases h2 : c = 35
  · simp only [h2, ↓reduceIte, commentLen, hf, Bool.false_eq_true] at h ⊢
    simp only [Except.ok.injEq] at h
    subst h
    simp only [skip] at hc hcm
    have := spanLen_swap (p := fun c => !isLineBreak c) (35 :: y) (d := d) (d' := d') r r'
      (by simpa [Nat.add_comm] using hc)
      (by intro e; have := hcm (by simpa [Nat.add_comm] using e) h2; simp [this])
    simp only [List.cons_append] at this
    rw [this]
  simp only [h2, ↓reduceIte] at h ⊢
  by_cases h3 : isQuote c = true
  · simp only [h3, ↓reduceIte] at h ⊢
    obtain ⟨tok, n, hs, rfl⟩ := ofSub_inv h
    have := lexString_lay_local .string (p := []) (by simp [StringKind.prefixLen]) h3 y hd hd' r r' (tok := tok) (n := n)
      (by simpa using hs) (by simpa [one] using hc)
    simp only [List.nil_append] at this
    rw [this]; rfl
  simp only [h3, Bool.false_eq_true, ↓reduceIte] at h ⊢
  by_cases h4 : c = 33
  · simp only [h4, ↓reduceIte] at h ⊢
    rcases y with _ | ⟨a, y⟩
    · have : d ≠ 61 := (opInert_lay hd).1
      split at h
      · rename_i heq; simp at heq; exact absurd heq.1 this
      · simp at h
    · simp only [List.cons_append] at h ⊢
      by_cases ha : a = 61
      · subst ha; exact h
      · split at h
        · rename_i heq; simp at heq; exact absurd heq.1 ha
        · simp at h
  simp only [h4, ↓reduceIte] at h ⊢
  by_cases h5 : (c = 46 && headIsDigit (y ++ d :: r)) = true
  · simpa only [h5, ↓reduceIte] using h
  simp only [h5, Bool.false_eq_true, ↓reduceIte] at h ⊢
  rw [← lexOp_lay_local h4 y hd hd' r r']
  cases hO : lexOp (c :: (y ++ d :: r)) with
  | some p => simpa only [hO] using h
  | none =>
    simp only [hO] at h ⊢
    cases hob : openBracket c with
    | some ob => simpa only [hob] using h
    | none =>
      simp only [hob] at h ⊢
      cases hcb : closeBracket c with
      | some cb => simpa only [hcb] using h
      | none =>
        simp only [hcb] at h ⊢
        by_cases h6 : isLineBreak c = true
        · simp only [h6, ↓reduceIte] at h ⊢
          cases hnc : nextChar (c :: (y ++ d :: r)) with
          | none => simp [hnc] at h
          | some q =>
            obtain ⟨x, n, rest⟩ := q
            have hn : o.consumed = n := by
              simp only [hnc] at h
              split at h
              · simp at h; subst h; simp [one]
              · simp only [hf, Bool.false_eq_true, ↓reduceIte] at h
                simp at h; subst h; simp [skip]
            obtain ⟨rest', hnc', _, _⟩ := nextChar_lay_local c y r r' hnc (by omega) (by intro e; exact hcr (by omega))
            simpa only [hnc, hnc'] using h
        simp only [h6, Bool.false_eq_true, ↓reduceIte] at h ⊢
        by_cases h7 : isBlank c = true
        · simp only [h7, ↓reduceIte] at h ⊢
          simp only [Except.ok.injEq] at h
          subst h
          simp only [skip] at hc hbl
          have := spanLen_swap (p := isBlank) (c :: y) (d := d) (d' := d') r r'
            (by simpa [Nat.add_comm] using hc)
            (by
              intro e
              have e' : spanLen isBlank (c :: (y ++ d :: r)) = 1 + y.length := by simpa [Nat.add_comm] using e
              exact hbl e' (spanLen_ge_all (p := isBlank) (c :: y) (d :: r) (by simp; omega)))
          simp only [List.cons_append] at this
          rw [this]
        simp only [h7, Bool.false_eq_true, ↓reduceIte] at h ⊢
        by_cases h8 : c = 92
        · simp only [h8, ↓reduceIte] at h ⊢
          rcases y with _ | ⟨a, y⟩
          · simp only [List.nil_append] at h ⊢
            by_cases hdb : isLineBreak d = true
            · simp only [hdb, ↓reduceIte] at h
              cases hnc : nextChar (d :: r) with
              | none => simp [hnc] at h
              | some q =>
                obtain ⟨x, n, rest⟩ := q
                have := (nextChar_ok hnc).1
                simp only [hnc] at h
                split at h
                · simp at h
                · simp at h; subst h; simp [skip] at hc; omega
            · simp [hdb] at h
          · simp only [List.cons_append] at h ⊢
            by_cases ha : isLineBreak a = true
            · simp only [ha, ↓reduceIte] at h ⊢
              cases hnc : nextChar (a :: (y ++ d :: r)) with
              | none => simp [hnc] at h
              | some q =>
                obtain ⟨x, n, rest⟩ := q
                simp only [hnc] at h
                split at h
                · simp at h
                · simp at h; subst h
                  simp only [skip, List.length_cons] at hc hcr
                  obtain ⟨rest', hnc', _, hr'⟩ := nextChar_lay_local a y r r' hnc (by omega)
                    (by intro e h13; exact hcr (by omega) (by simpa using h13))
                  simp [hnc', hr']
            · simp only [ha, Bool.false_eq_true, ↓reduceIte] at h ⊢
              exact h
        simp only [h8, ↓reduceIte] at h ⊢
        exact h

/-! ## `eat_indentation`, `handle_indentations`, the step -/

theorem spanLen_lt_local {p : Nat → Bool} (Y t t' : List Nat) (h : spanLen p (Y ++ t) < Y.length) :
    spanLen p (Y ++ t') = spanLen p (Y ++ t) := by
  induction Y with
  | nil => simp at h
  | cons c Y ih =>
    simp only [List.cons_append, spanLen, List.length_cons] at h ⊢
    by_cases hc : p c = true
    · simp only [hc, ↓reduceIte] at h ⊢
      rw [ih (by omega)]
    · simp [hc]

/-- `eat_indentation` that stops strictly inside `y` does not depend on what follows `y` -/
theorem eatIndent_prefix_local (t1 t2 : List Nat) :
    ∀ (n : Nat) (y : List Nat), y.length ≤ n → ∀ (pos s t : Nat) (o : EatOut),
    eatIndent false (y ++ t1) 0 pos s t = .ok o → o.pos < pos + y.length →
    eatIndent false (y ++ t2) 0 pos s t = .ok o := by
  intro n
  induction n with
  | zero =>
    intro y hy pos s t o h hp
    have : y = [] := List.eq_nil_of_length_eq_zero (by omega)
    subst this
    have := eatIndent_pos_le h
    simp at hp; omega
  | succ n ih =>
    intro y hy pos s t o h hp
    cases y with
    | nil => have := eatIndent_pos_le h; simp at hp; omega
    | cons c y =>
      have hy' : y.length ≤ n := by simp at hy; omega
      simp only [List.cons_append, List.length_cons] at h hp ⊢
      by_cases h32 : c = 32
      · subst h32
        simp only [eatIndent] at h ⊢
        exact ih y hy' _ _ _ o h (by omega)
      by_cases h9 : c = 9
      · subst h9
        simp only [eatIndent] at h ⊢
        by_cases hs : s ≠ 0
        · simp [hs] at h
        · simp only [hs, ↓reduceIte] at h ⊢
          exact ih y hy' _ _ _ o h (by omega)
      by_cases h12 : c = 12
      · subst h12
        simp only [eatIndent] at h ⊢
        exact ih y hy' _ _ _ o h (by omega)
      by_cases h35 : c = 35
      · subst h35
        simp only [eatIndent, addTok_false] at h ⊢
        generalize hmm : spanLen (fun c => !isLineBreak c) (y ++ t1) = m at h
        have hml : m ≤ (y ++ t1).length := by rw [← hmm]; exact spanLen_le _ _
        rw [eatIndent_skip _ m _ _ _ hml] at h
        have hpos := eatIndent_pos_le h
        have hmy : m < y.length := by omega
        have hm2 : spanLen (fun c => !isLineBreak c) (y ++ t2) = m := by
          rw [← hmm]; exact spanLen_lt_local y t1 t2 (by omega)
        rw [hm2, eatIndent_skip _ m _ _ _ (by simp; omega)]
        rw [drop_brk (Nat.le_of_lt hmy)] at h ⊢
        exact ih (y.drop m) (by simp; omega) _ _ _ o h (by simp; omega)
      by_cases h10 : c = 10
      · subst h10
        simp only [eatIndent, addTok_false] at h ⊢
        exact ih y hy' _ _ _ o h (by omega)
      by_cases h13 : c = 13
      · subst h13
        cases y with
        | nil =>
          exfalso
          simp only [List.nil_append] at h
          obtain ⟨e, post, hsplit, he, hn, _⟩ := eol_split (d := 13) (by decide) t1
          rw [hsplit, eatIndent_eol he hn] at h
          have := eatIndent_pos_le h
          have : 1 ≤ e.length := by cases he <;> simp
          simp at hp; omega
        | cons a y =>
          by_cases ha : a = 10
          · subst ha
            simp only [List.cons_append, eatIndent, addTok_false] at h ⊢
            exact ih y (by simp at hy'; omega) _ _ _ o h (by simp at hp; omega)
          · have e1 := eatIndent_eol (e := [13]) (post := a :: y ++ t1) .cr (fun _ => by simpa using ha) pos s t
            have e2 := eatIndent_eol (e := [13]) (post := a :: y ++ t2) .cr (fun _ => by simpa using ha) pos s t
            simp only [List.singleton_append, List.length_singleton] at e1 e2
            rw [e1] at h; rw [e2]
            exact ih (a :: y) hy' _ _ _ o h (by omega)
      · rw [eatIndent_stop _ _ _ _ h32 h9 h35 h12 h13 h10] at h ⊢
        exact h

/-- where `eat_indentation` stops with `at_begin_of_line` cleared: in front of a character that is not a layout
    character other than the backslash -/
theorem eatIndent_stops_lay {l : List Nat} {k pos s t : Nat} {o : EatOut} (h : eatIndent false l k pos s t = .ok o)
    (hb : o.atBol = false) :
    ∃ i c rest, o.pos = pos + i ∧ l.drop i = c :: rest ∧ (Lay c → c = 92) := by
  fun_induction eatIndent false l k pos s t generalizing o
  case case1 => simp at h; subst h; simp at hb
  case case11 c cs pos s t h32 h9 h35 h12 _ h13 h10 =>
    simp at h; subst h
    refine ⟨0, c, cs, rfl, rfl, ?_⟩
    intro hl
    rcases hl with rfl | rfl | rfl | rfl | rfl | rfl | rfl <;> simp_all
  case case4 => simp at h
  all_goals
    try simp only [addTok_false] at h
    rename_i ih
    obtain ⟨i, c, rest, h1, h2, h3⟩ := ih h hb
    first
      | exact ⟨i + 1, c, rest, by omega, by simpa using h2, h3⟩
      | exact ⟨i + 2, c, rest, by omega, by simpa using h2, h3⟩

/-- `handle_indentations` that stops strictly inside `y` -/
theorem handleIndentations_prefix_local {cfg : Cfg} (hf : cfg.fullLexer = false) (st : LexState) (y t1 t2 : List Nat)
    {toks : List RelTok} {p : Nat} {st1 : LexState}
    (h : handleIndentations cfg st (y ++ t1) = .ok (toks, p, st1)) (hp : p < y.length) :
    handleIndentations cfg st (y ++ t2) = .ok (toks, p, st1) := by
  obtain ⟨o, ho, rfl, _⟩ := handleIndentations_pos h
  rw [hf] at ho
  have ho' := eatIndent_prefix_local t1 t2 y.length y (Nat.le_refl _) 0 0 0 o ho (by omega)
  unfold handleIndentations at h ⊢
  rw [hf, ho] at h
  rw [hf, ho']
  exact h

theorem consumeNormal_cons_pos {cfg : Cfg} (hs : cfg.up.Sane) {st : LexState} {c : Nat} {cs : List Nat} {o : StepOut}
    (h : consumeNormal cfg st (c :: cs) = .ok o) : 1 ≤ o.consumed := by
  simp only [consumeNormal] at h
  split at h
  · rename_i hc; exact (ofSub_ok (lexIdentifier_ok cfg.up hs c cs hc) h).pos
  · exact (consumeCharacter_ok h).pos

/-- `consume_normal` that ends in front of a layout character -/
theorem consumeNormal_lay_local {cfg : Cfg} (hup : UpOk cfg.up) (hl : UpLay cfg.up) (hf : cfg.fullLexer = false)
    (st : LexState) (y : List Nat) {d d' : Nat} (hd : Lay d) (hd' : Lay d') (r r' : List Nat) {o : StepOut}
    (h : consumeNormal cfg st (y ++ d :: r) = .ok o) (hc : o.consumed ≤ y.length)
    (hcr : o.consumed = y.length → y.getLast? = some 13 → d' ≠ 10)
    (hbl : o.consumed = y.length → (∀ x ∈ y, isBlank x = true) → isBlank d' = false)
    (hcm : o.consumed = y.length → y.head? = some 35 → isLineBreak d' = true) :
    consumeNormal cfg st (y ++ d' :: r') = .ok o := by
  cases y with
  | nil =>
    have := consumeNormal_cons_pos hup.sane h
    simp at hc; omega
  | cons c y =>
    simp only [List.cons_append, consumeNormal] at h ⊢
    by_cases hid : isIdStart cfg.up c = true
    · simp only [hid, ↓reduceIte] at h ⊢
      obtain ⟨tok, n, hs, rfl⟩ := ofSub_inv h
      rw [lexIdentifier_lay_local hl c y hd hd' r r' hs (by simp [one] at hc; omega)]
      rfl
    · simp only [hid, Bool.false_eq_true, ↓reduceIte] at h ⊢
      simp only [List.length_cons] at hc hcr hbl hcm
      exact consumeCharacter_lay_local hf st c y hd hd' r r' h (by omega)
        (fun e => hcr (by omega)) (fun e => hbl (by omega)) (fun e hc35 => hcm (by omega) (by simp [hc35]))

/-- what a step that ends exactly in front of the layout character needs of the character put there instead -/
structure EndOk (atBol : Bool) (y : List Nat) (d' : Nat) : Prop where
  /-- a CR at the end of `y` would take an LF along -/
  cr : y.getLast? = some 13 → d' ≠ 10
  /-- a run of blanks would take a further blank along -/
  blank : ∀ c, y.getLast? = some c → isBlank c = true → isBlank d' = false
  /-- a comment takes everything up to the line end -/
  comment : atBol = false → y.head? = some 35 → isLineBreak d' = true

theorem getLast?_drop {y : List Nat} {p : Nat} (hp : p < y.length) : (y.drop p).getLast? = y.getLast? := by
  rw [List.getLast?_drop]; simp; omega

theorem allBlank_getLast {y : List Nat} (hne : y ≠ []) (h : ∀ x ∈ y, isBlank x = true) :
    ∃ c, y.getLast? = some c ∧ isBlank c = true := by
  refine ⟨y.getLast hne, List.getLast?_eq_some_getLast hne, h _ (List.getLast_mem hne)⟩

/-- **L1 for layout characters**: a step that ends in front of a layout character `d` gives the same result with any
    layout character `d'` there and anything behind it — unconditionally when it ends before the last character of `y`,
    under `EndOk` when it ends exactly in front of `d` -/
theorem step_lay_local {cfg : Cfg} (hup : UpOk cfg.up) (hl : UpLay cfg.up) (hf : cfg.fullLexer = false)
    {st : LexState} {y : List Nat} {d : Nat} (hd : Lay d) {r : List Nat} {o : StepOut}
    (h : step cfg st (y ++ d :: r) = .ok o) (hc : o.consumed ≤ y.length) {d' : Nat} (hd' : Lay d') (r' : List Nat)
    (hside : o.consumed = y.length → EndOk st.atBol y d') :
    step cfg st (y ++ d' :: r') = .ok o := by
  unfold step at h ⊢
  by_cases hb : st.atBol = true
  · simp only [hb, ↓reduceIte] at h ⊢
    cases hh : handleIndentations cfg st (y ++ d :: r) with
    | error e => simp [hh] at h
    | ok q =>
      obtain ⟨toks1, p, st1⟩ := q
      simp only [hh] at h
      cases hn : consumeNormal cfg st1 ((y ++ d :: r).drop p) with
      | error e => simp [hn] at h
      | ok o' =>
        simp only [hn, Except.ok.injEq] at h
        subst h
        simp only [] at hc hside
        obtain ⟨eo, heo, hpe, hbol, _⟩ := handleIndentations_pos hh
        rw [hf] at heo
        -- the indentation ends strictly inside `y`
        have hple : p ≤ y.length := by omega
        rw [drop_brk hple] at hn
        have hpos : 1 ≤ o'.consumed := by
          cases hy : y.drop p with
          | nil => rw [hy] at hn; exact consumeNormal_cons_pos hup.sane hn
          | cons a t => rw [hy] at hn; exact consumeNormal_cons_pos hup.sane hn
        have hp : p < y.length := by omega
        rw [handleIndentations_prefix_local hf st y (d :: r) (d' :: r') hh hp]
        simp only []
        rw [drop_brk hple]
        -- the first character `consume_normal` sees is not a blank, `#` or line break
        have hnb : eo.atBol = false := by
          cases hE : eo.atBol with
          | false => rfl
          | true =>
            exfalso
            obtain ⟨i, hi, hcase⟩ := eatIndent_stops heo
            rcases hcase with ⟨hnil, _⟩ | ⟨_, _, _, _, hfalse⟩
            · have := congrArg List.length hnil
              simp at this; omega
            · rw [hE] at hfalse; cases hfalse
        obtain ⟨i, c0, rest0, hi, hdrop, hc0⟩ := eatIndent_stops_lay heo hnb
        have hip : i = p := by omega
        subst hip
        rw [drop_brk hple] at hdrop
        have hhead : (y.drop i).head? = some c0 := by
          cases hy : y.drop i with
          | nil => have := congrArg List.length hy; simp at this; omega
          | cons a t => rw [hy] at hdrop; simp at hdrop; simp [hdrop.1]
        have hne : y.drop i ≠ [] := by intro h0; rw [h0] at hhead; cases hhead
        rw [consumeNormal_lay_local hup hl hf st1 (y.drop i) hd hd' r r' hn (by simp; omega)
          (by
            intro e h13
            have := (hside (by simp at e; omega)).cr
            rw [getLast?_drop hp] at h13
            exact this h13)
          (by
            intro e hall
            obtain ⟨c, hc1, hc2⟩ := allBlank_getLast hne hall
            rw [getLast?_drop hp] at hc1
            exact (hside (by simp at e; omega)).blank c hc1 hc2)
          (by
            intro e h35
            rw [hhead] at h35
            have : c0 = 35 := by simpa using h35
            have := hc0 (by rw [this]; decide)
            omega)]
  · have hb' : st.atBol = false := by simpa using hb
    simp only [hb, Bool.false_eq_true, ↓reduceIte] at h ⊢
    refine consumeNormal_lay_local hup hl hf st y hd hd' r r' h hc (fun e => (hside e).cr) ?_
      (fun e => (hside e).comment hb')
    intro e hall
    have hne : y ≠ [] := by
      intro h0; subst h0
      have := consumeNormal_cons_pos hup.sane h
      simp at e; omega
    obtain ⟨c, hc1, hc2⟩ := allBlank_getLast hne hall
    exact (hside e).blank c hc1 hc2

/-! ## non-vacuity, and the side conditions are needed -/

/-- the name `x` of `x␠=1`, seen from the start of the line (`y = x`, `d = ␠`): the same step on `x#c`, `x\⏎`, `x⏎y` -/
example : step localCfg .init ([120] ++ 35 :: [99]) = .ok ⟨[⟨.name [120], 0, 1⟩], 1, ⟨false, 0, [⟨0, 0⟩]⟩, false⟩ :=
  step_lay_local localUp_ok localUp_lay rfl (y := [120]) (d := 32) (by decide) (r := [61, 49]) (by rfl) (by decide)
    (d' := 35) (by decide) [99] (fun _ => ⟨by decide, by decide, by decide⟩)

/-- the float `1.` in front of a tab, then in front of a backslash -/
example : step localCfg ⟨false, 0, [⟨0, 0⟩]⟩ ([49, 46] ++ 92 :: [10, 50]) =
    .ok ⟨[⟨.float [49, 46], 0, 2⟩], 2, ⟨false, 0, [⟨0, 0⟩]⟩, false⟩ :=
  step_lay_local localUp_ok localUp_lay rfl (y := [49, 46]) (d := 9) (by decide) (r := []) (by rfl) (by decide)
    (d' := 92) (by decide) [10, 50] (fun _ => ⟨by decide, by decide, by decide⟩)

/-- a step that ends before the last character of `y` needs no side condition: the `<` of `<␠␠` (then `<␠#`) -/
example : step localCfg ⟨false, 0, [⟨0, 0⟩]⟩ ([60, 32] ++ 35 :: []) =
    .ok ⟨[⟨.op .Less, 0, 1⟩], 1, ⟨false, 0, [⟨0, 0⟩]⟩, false⟩ :=
  step_lay_local localUp_ok localUp_lay rfl (y := [60, 32]) (d := 32) (by decide) (r := []) (by rfl) (by decide)
    (d' := 35) (by decide) [] (fun h => by simp at h)

/-- **The three side conditions of `EndOk` are needed**: CR + LF inside brackets is one line end (the step takes two
    characters instead of one), blank + blank is one run of blanks, comment + blank is a longer comment. -/
theorem lay_side_conditions_needed :
    (step localCfg ⟨false, 1, [⟨0, 0⟩]⟩ ([13] ++ 32 :: []) = .ok ⟨[], 1, ⟨false, 1, [⟨0, 0⟩]⟩, false⟩ ∧
     step localCfg ⟨false, 1, [⟨0, 0⟩]⟩ ([13] ++ 10 :: []) = .ok ⟨[], 2, ⟨false, 1, [⟨0, 0⟩]⟩, false⟩) ∧
    (step localCfg ⟨false, 0, [⟨0, 0⟩]⟩ ([32] ++ 10 :: []) = .ok ⟨[], 1, ⟨false, 0, [⟨0, 0⟩]⟩, false⟩ ∧
     step localCfg ⟨false, 0, [⟨0, 0⟩]⟩ ([32] ++ 9 :: []) = .ok ⟨[], 2, ⟨false, 0, [⟨0, 0⟩]⟩, false⟩) ∧
    (step localCfg ⟨false, 0, [⟨0, 0⟩]⟩ ([35, 99] ++ 10 :: []) = .ok ⟨[], 2, ⟨false, 0, [⟨0, 0⟩]⟩, false⟩ ∧
     step localCfg ⟨false, 0, [⟨0, 0⟩]⟩ ([35, 99] ++ 32 :: []) = .ok ⟨[], 3, ⟨false, 0, [⟨0, 0⟩]⟩, false⟩) :=
  ⟨⟨rfl, rfl⟩, ⟨rfl, rfl⟩, ⟨rfl, rfl⟩⟩

end PV.C08
