import PV.C08.LayLocal
/-
  PV.C08.AnyLocal — look-ahead with an ARBITRARY follower on the original side.

  `step_any_local`: if `step cfg st (y ++ r) = .ok o` for ANY `r` (a token, a layout character, nothing: the end of the
  text), the step is not the end-of-file step and `o.consumed ≤ |y|`, then `step cfg st (y ++ d' :: r') = .ok o` for every
  layout character `d'` and every `r'` — under `EndOk st.atBol y d'` when the step ends exactly behind `y`.  "A token that
  ends in front of any character ends in front of a layout character."  Every arm of the model: numbers (`radixRun_any` …
  `lexNumber_any`: the result in front of a line end is the result in front of `r`, if that stayed inside `y`), operators
  (`lexOp_one_any`, `lexOp_two_any`), names (`scanFold_any`), string prefixes and strings, comments, blanks, line
  breaks, backslash, `eat_indentation` (`eatIndent_prefix_local`, LayLocal.lean).
-/
namespace PV.C08
open PV.Lexer

/-! ## numbers: a number that ends inside `x`, whatever follows `x`, ends there in front of a line end -/

theorem radixRun_zero {radix : Nat} {l : List Nat} (h : (radixRun radix l).2 = 0) : radixRun radix l = ([], 0) := by
  cases l with
  | nil => rfl
  | cons c cs =>
    unfold radixRun at h ⊢
    by_cases hc : isDigitOf radix c = true
    · simp [hc] at h
    · simp only [hc, Bool.false_eq_true, ↓reduceIte] at h ⊢
      by_cases h95 : c = 95
      · simp only [h95, ↓reduceIte] at h ⊢
        cases cs with
        | nil => rfl
        | cons d t =>
          simp only [] at h ⊢
          by_cases hd : isDigitOf radix d = true
          · simp [hd] at h
          · simp [hd]
      · simp [h95]

theorem radixRun_any (radix : Nat) (x r : List Nat) (h : (radixRun radix (x ++ r)).2 ≤ x.length) :
    radixRun radix (x ++ [10]) = radixRun radix (x ++ r) := by
  induction x with
  | nil =>
    simp only [List.nil_append, List.length_nil, Nat.le_zero_eq] at h ⊢
    rw [radixRun_zero h]
    simp [radixRun, isDigitOf_10]
  | cons c x ih =>
    simp only [List.cons_append, List.length_cons] at h ⊢
    unfold radixRun at h ⊢
    by_cases hc : isDigitOf radix c = true
    · simp only [hc, ↓reduceIte] at h ⊢
      rw [ih (by omega)]
    · simp only [hc, Bool.false_eq_true, ↓reduceIte] at h ⊢
      by_cases h95 : c = 95
      · simp only [h95, ↓reduceIte] at h ⊢
        cases x with
        | nil =>
          simp only [List.nil_append] at h ih ⊢
          cases r with
          | nil => simp [isDigitOf_10]
          | cons d t =>
            simp only [] at h ⊢
            by_cases hd : isDigitOf radix d = true
            · simp only [hd, ↓reduceIte] at h
              have := radixRun_pos radix d t hd
              simp at h; omega
            · simp [hd, isDigitOf_10]
        | cons e x' =>
          simp only [List.cons_append] at h ih ⊢
          by_cases he : isDigitOf radix e = true
          · simp only [he, ↓reduceIte] at h ⊢
            rw [ih (by simp at h ⊢; omega)]
          · simp [he]
      · simp [h95]

theorem fracPart_any (v : List Nat) (n : Nat) (x r : List Nat) {v' : List Nat} {n' : Nat}
    (h : fracPart v n (x ++ r) = .ok (v', n')) (hn : n' ≤ n + x.length) :
    fracPart v n (x ++ [10]) = .ok (v', n') := by
  cases x with
  | nil =>
    simp only [List.nil_append, List.length_nil, Nat.add_zero] at h hn ⊢
    have hb := fracPart_ok h
    have h46 : r.head? ≠ some 46 := by intro h46; have := hb.2.2 h46; omega
    have : fracPart v n r = .ok (v, n) := by
      unfold fracPart
      split
      · simp at h46
      · rfl
    rw [this] at h
    rw [← h]; rfl
  | cons c x =>
    simp only [List.cons_append, List.length_cons] at h hn ⊢
    by_cases hc : c = 46
    · subst hc
      unfold fracPart at h ⊢
      simp only [] at h ⊢
      cases x with
      | nil =>
        simp only [List.nil_append] at h ⊢
        by_cases h95 : r.head? = some 95
        · simp [h95] at h
        · simp only [h95, ↓reduceIte, Except.ok.injEq, Prod.mk.injEq] at h
          obtain ⟨rfl, rfl⟩ := h
          have hz : (radixRun 10 r).2 = 0 := by simp at hn; omega
          rw [radixRun_zero hz]
          simp [radixRun, isDigitOf_10]
      | cons e x' =>
        simp only [List.cons_append, List.head?_cons] at h ⊢
        by_cases h95 : e = 95
        · simp [h95] at h
        · have h95' : ¬ (some e = some 95) := by simpa using h95
          simp only [h95', ↓reduceIte, Except.ok.injEq, Prod.mk.injEq] at h ⊢
          obtain ⟨rfl, rfl⟩ := h
          have := radixRun_any 10 (e :: x') r (by simp at hn ⊢; omega)
          simp only [List.cons_append] at this
          rw [this]; exact ⟨rfl, rfl⟩
    · have e1 : ∀ t, fracPart v n (c :: t) = .ok (v, n) := by
        intro t; unfold fracPart; split
        · rename_i heq; simp at heq; exact absurd heq.1 hc
        · rfl
      rw [e1] at h; rw [e1]; exact h

theorem atExponent_cases {l : List Nat} (h : atExponent l = true) :
    ∃ e s t, l = e :: s :: t ∧ (e = 101 ∨ e = 69) ∧
      (isDigit s = true ∨ ((s = 43 ∨ s = 45) ∧ ∃ d t', t = d :: t' ∧ isDigit d = true)) := by
  rcases l with _ | ⟨e, _ | ⟨s, _ | ⟨d, t'⟩⟩⟩
  · simp [atExponent] at h
  · simp [atExponent] at h
  · simp [atExponent] at h
    exact ⟨e, s, [], rfl, h.1, Or.inl h.2⟩
  · simp [atExponent] at h
    refine ⟨e, s, d :: t', rfl, h.1, ?_⟩
    rcases h.2 with h2 | h2
    · exact Or.inr ⟨h2.1, d, t', rfl, h2.2⟩
    · exact Or.inl h2

theorem atExponent_digit {e s : Nat} (he : e = 101 ∨ e = 69) (hs : isDigit s = true) (t : List Nat) :
    atExponent (e :: s :: t) = true := by
  cases t <;> simp [atExponent, he, hs]

theorem atExponent_sign {e s d : Nat} (he : e = 101 ∨ e = 69) (hs : s = 43 ∨ s = 45) (hd : isDigit d = true)
    (t : List Nat) : atExponent (e :: s :: d :: t) = true := by
  simp [atExponent, he, hs, hd]

theorem digit_ne {s : Nat} (hs : isDigit s = true) : s ≠ 95 ∧ s ≠ 45 ∧ s ≠ 43 := by
  simp [isDigit] at hs; omega

theorem expPartBody_digit (v : List Nat) (n : Nat) {e s : Nat} (he : e = 101 ∨ e = 69) (hs : isDigit s = true)
    (t : List Nat) :
    expPartBody v n (e :: s :: t) =
      .ok (v ++ 101 :: (radixRun 10 (s :: t)).1, n + 1 + (radixRun 10 (s :: t)).2) := by
  obtain ⟨h95, h45, h43⟩ := digit_ne hs
  simp [expPartBody, he, h95, h45, h43]

theorem expPartBody_sign (v : List Nat) (n : Nat) {e s d : Nat} (he : e = 101 ∨ e = 69) (hs : s = 43 ∨ s = 45)
    (hd : isDigit d = true) (t : List Nat) :
    expPartBody v n (e :: s :: d :: t) =
      .ok (v ++ 101 :: s :: (radixRun 10 (d :: t)).1, n + 2 + (radixRun 10 (d :: t)).2) := by
  obtain ⟨h95, _, _⟩ := digit_ne hd
  have hs95 : s ≠ 95 := by omega
  have hs' : s = 45 ∨ s = 43 := by omega
  simp [expPartBody, he, h95, hs95, hs']

theorem atExponent_mono (x r : List Nat) (h : atExponent (x ++ r) = false) : atExponent (x ++ [10]) = false := by
  cases hA : atExponent (x ++ [10]) with
  | false => rfl
  | true =>
    exfalso
    obtain ⟨e, s, t, hl, he, hcase⟩ := atExponent_cases hA
    have h10 : isDigit 10 = false := by decide
    rcases x with _ | ⟨a, _ | ⟨b, x''⟩⟩
    · simp at hl
    · simp at hl; obtain ⟨rfl, rfl, rfl⟩ := hl
      rcases hcase with h1 | ⟨h1, _⟩
      · simp [h10] at h1
      · omega
    · simp only [List.cons_append, List.cons.injEq] at hl
      obtain ⟨rfl, rfl, rfl⟩ := hl
      rcases hcase with h1 | ⟨h1, d, t', ht, hd⟩
      · have := atExponent_digit he h1 (x'' ++ r)
        simp only [List.cons_append] at h
        rw [this] at h; cases h
      · rcases x'' with _ | ⟨c, x3⟩
        · simp at ht; obtain ⟨rfl, _⟩ := ht; simp [h10] at hd
        · simp at ht; obtain ⟨rfl, _⟩ := ht
          have := atExponent_sign he h1 hd (x3 ++ r)
          simp only [List.cons_append] at h
          rw [this] at h; cases h

theorem expPart_any (v : List Nat) (n : Nat) (x r : List Nat) {v' : List Nat} {n' : Nat}
    (h : expPart v n (x ++ r) = .ok (v', n')) (hn : n' ≤ n + x.length) :
    expPart v n (x ++ [10]) = .ok (v', n') := by
  unfold expPart at h ⊢
  by_cases hA : atExponent (x ++ r) = true
  · simp only [hA, ↓reduceIte] at h
    obtain ⟨e, s, t, hl, he, hcase⟩ := atExponent_cases hA
    rcases hcase with hs | ⟨hs, d, t', rfl, hd⟩
    · rw [hl, expPartBody_digit v n he hs] at h
      simp only [Except.ok.injEq, Prod.mk.injEq] at h
      obtain ⟨rfl, rfl⟩ := h
      have hk := radixRun_pos 10 s t hs
      rcases x with _ | ⟨a, _ | ⟨b, x''⟩⟩
      · simp at hn; omega
      · simp at hn; omega
      · simp only [List.cons_append, List.cons.injEq] at hl
        obtain ⟨rfl, rfl, rfl⟩ := hl
        simp only [List.cons_append]
        rw [atExponent_digit he hs, if_pos rfl, expPartBody_digit v n he hs]
        have := radixRun_any 10 (b :: x'') r (by simp at hn ⊢; omega)
        simp only [List.cons_append] at this
        rw [this]
    · rw [hl, expPartBody_sign v n he hs hd] at h
      simp only [Except.ok.injEq, Prod.mk.injEq] at h
      obtain ⟨rfl, rfl⟩ := h
      have hk := radixRun_pos 10 d t' hd
      rcases x with _ | ⟨a, _ | ⟨b, _ | ⟨c, x3⟩⟩⟩
      · simp at hn; omega
      · simp at hn; omega
      · simp at hn; omega
      · simp only [List.cons_append, List.cons.injEq] at hl
        obtain ⟨rfl, rfl, rfl, rfl⟩ := hl
        simp only [List.cons_append]
        rw [atExponent_sign he hs hd, if_pos rfl, expPartBody_sign v n he hs hd]
        have := radixRun_any 10 (c :: x3) r (by simp at hn ⊢; omega)
        simp only [List.cons_append] at this
        rw [this]
  · have hA' : atExponent (x ++ r) = false := by simpa using hA
    simp only [hA', Bool.false_eq_true, ↓reduceIte] at h
    rw [atExponent_mono x r hA']
    simpa using h


theorem floatTail_any (x r : List Nat) (v1 : List Nat) (n1 : Nat) (h1 : n1 ≤ x.length) {tok : Tok} {n : Nat}
    (h : floatTail (x ++ r) v1 n1 = .ok (tok, n)) (hn : n ≤ x.length) :
    floatTail (x ++ [10]) v1 n1 = .ok (tok, n) := by
  unfold floatTail at h ⊢
  rw [drop_brk h1] at h ⊢
  cases hf : fracPart v1 n1 (x.drop n1 ++ r) with
  | error e => simp [hf] at h
  | ok p =>
    obtain ⟨v2, n2⟩ := p
    simp only [hf] at h
    cases he : expPart v2 n2 ((x ++ r).drop n2) with
    | error e => simp [he] at h
    | ok q =>
      obtain ⟨v3, n3⟩ := q
      simp only [he] at h
      have hb2 := (expPart_ok he).1
      by_cases hok : floatTextOk v3 = true
      · simp only [hok, Bool.not_true, Bool.false_eq_true, ↓reduceIte] at h ⊢
        have hn3 : n3 ≤ n := by
          split at h
          · split at h <;> (simp at h; omega)
          · simp at h; omega
        have hn2 : n2 ≤ x.length := by omega
        rw [fracPart_any v1 n1 (x.drop n1) r hf (by simp; omega)]
        simp only []
        rw [drop_brk hn2] at he ⊢
        rw [expPart_any v2 n2 (x.drop n2) r he (by simp; omega)]
        simp only [hok, Bool.not_true, Bool.false_eq_true, ↓reduceIte]
        have hn3' : n3 ≤ x.length := by omega
        rw [drop_brk hn3'] at h ⊢
        cases hx : x.drop n3 with
        | nil =>
          have hl : x.length ≤ n3 := by
            have := congrArg List.length hx; simp at this; omega
          rw [hx] at h
          simp only [List.nil_append] at h ⊢
          have h10 : isJ 10 = false := by decide
          simp only [h10, Bool.false_eq_true, ↓reduceIte]
          split at h
          · split at h
            · simp at h; omega
            · exact h
          · exact h
        | cons c t => rw [hx] at h; simpa using h
      · simp [hok] at h

theorem intTail_any (x r : List Nat) (z : Bool) (v1 : List Nat) (n1 : Nat) (h1 : n1 ≤ x.length) {tok : Tok} {n : Nat}
    (h : intTail (x ++ r) z v1 n1 = .ok (tok, n)) (hn : n ≤ x.length) :
    intTail (x ++ [10]) z v1 n1 = .ok (tok, n) := by
  unfold intTail at h ⊢
  rw [drop_brk h1] at h ⊢
  cases hx : x.drop n1 with
  | nil =>
    have hl : x.length ≤ n1 := by
      have := congrArg List.length hx; simp at this; omega
    rw [hx] at h
    simp only [List.nil_append] at h ⊢
    have h10 : isJ 10 = false := by decide
    simp only [h10, Bool.false_eq_true, ↓reduceIte]
    split at h
    · split at h
      · split at h
        · simp at h; omega
        · simp at h
      · exact h
    · exact h
  | cons c t => rw [hx] at h; simpa using h

theorem floatTail_parts {inp v1 : List Nat} {n1 : Nat} {tok : Tok} {n : Nat} (h : floatTail inp v1 n1 = .ok (tok, n)) :
    ∃ v2 n2 v3 n3, fracPart v1 n1 (inp.drop n1) = .ok (v2, n2) ∧ expPart v2 n2 (inp.drop n2) = .ok (v3, n3) ∧
      n3 ≤ n ∧ n ≤ n3 + 1 := by
  unfold floatTail at h
  cases hf : fracPart v1 n1 (inp.drop n1) with
  | error e => simp [hf] at h
  | ok p =>
    obtain ⟨v2, n2⟩ := p
    simp only [hf] at h
    cases he : expPart v2 n2 (inp.drop n2) with
    | error e => simp [he] at h
    | ok q =>
      obtain ⟨v3, n3⟩ := q
      simp only [he] at h
      refine ⟨v2, n2, v3, n3, rfl, he, ?_⟩
      split at h
      · simp at h
      · split at h
        · split at h <;> (simp at h; omega)
        · simp at h; omega

theorem fracPart_nodot (v : List Nat) (n : Nat) {l : List Nat} (h : l.head? ≠ some 46) : fracPart v n l = .ok (v, n) := by
  unfold fracPart
  split
  · simp at h
  · rfl

theorem expPart_min {v : List Nat} {n : Nat} {l : List Nat} {v' : List Nat} {n' : Nat} (hA : atExponent l = true)
    (h : expPart v n l = .ok (v', n')) : n + 2 ≤ n' := by
  unfold expPart at h
  simp only [hA, ↓reduceIte] at h
  obtain ⟨e, s, t, rfl, he, hcase⟩ := atExponent_cases hA
  rcases hcase with hs | ⟨hs, d, t', rfl, hd⟩
  · rw [expPartBody_digit v n he hs] at h
    have := radixRun_pos 10 s t hs
    simp at h; omega
  · rw [expPartBody_sign v n he hs hd] at h
    simp at h; omega

theorem floatTail_ge {inp v1 : List Nat} {n1 : Nat} {tok : Tok} {n : Nat} (h : floatTail inp v1 n1 = .ok (tok, n)) :
    n1 ≤ n ∧ ((inp.drop n1).head? = some 46 → n1 + 1 ≤ n) ∧
    ((inp.drop n1).head? ≠ some 46 → atExponent (inp.drop n1) = true → n1 + 2 ≤ n) ∧
    ((inp.drop n1).head? ≠ some 46 → atExponent (inp.drop n1) = false → n ≤ n1 + 1) := by
  obtain ⟨v2, n2, v3, n3, hf, he, h3, h4⟩ := floatTail_parts h
  have b1 := fracPart_ok hf
  have b2 := expPart_ok he
  refine ⟨by omega, fun h46 => by have := b1.2.2 h46; omega, ?_, ?_⟩
  · intro h46 hA
    rw [fracPart_nodot v1 n1 h46] at hf
    simp at hf; obtain ⟨rfl, rfl⟩ := hf
    have := expPart_min hA he; omega
  · intro h46 hA
    rw [fracPart_nodot v1 n1 h46] at hf
    simp at hf; obtain ⟨rfl, rfl⟩ := hf
    unfold expPart at he
    simp [hA] at he; omega

theorem intTail_ge {inp : List Nat} {z : Bool} {v1 : List Nat} {n1 : Nat} {tok : Tok} {n : Nat}
    (h : intTail inp z v1 n1 = .ok (tok, n)) : n1 ≤ n := by
  unfold intTail at h
  split at h
  · split at h
    · split at h <;> (simp at h; try omega)
    · have := intTok_n h; omega
  · have := intTok_n h; omega

theorem lexNormalNumber_core (c : Nat) (x r ds : List Nat) (k : Nat) (z : Bool) (hk : k ≤ (c :: x).length)
    {tok : Tok} {n : Nat}
    (h : (if (((c :: (x ++ r)).drop k).head? = some 46 || atExponent ((c :: (x ++ r)).drop k)) = true
            then floatTail (c :: (x ++ r)) ds k else intTail (c :: (x ++ r)) z ds k) = .ok (tok, n))
    (hlen : n ≤ (c :: x).length) :
    (if (((c :: (x ++ [10])).drop k).head? = some 46 || atExponent ((c :: (x ++ [10])).drop k)) = true
            then floatTail (c :: (x ++ [10])) ds k else intTail (c :: (x ++ [10])) z ds k) = .ok (tok, n) := by
  have hd1 : (c :: (x ++ r)).drop k = (c :: x).drop k ++ r := by
    rw [← List.cons_append]; exact List.drop_append_of_le_length hk
  have hd2 : (c :: (x ++ [10])).drop k = (c :: x).drop k ++ [10] := by
    rw [← List.cons_append]; exact List.drop_append_of_le_length hk
  by_cases hC : (((c :: (x ++ r)).drop k).head? = some 46 || atExponent ((c :: (x ++ r)).drop k)) = true
  · rw [if_pos hC] at h
    have hnew := floatTail_any (c :: x) r ds k hk (by simpa using h) hlen
    simp only [List.cons_append] at hnew
    have hg := floatTail_ge h
    have hg' := floatTail_ge hnew
    have hC' : (((c :: (x ++ [10])).drop k).head? = some 46 || atExponent ((c :: (x ++ [10])).drop k)) = true := by
      rw [hd1] at hC hg
      rw [hd2] at hg' ⊢
      cases hx : (c :: x).drop k with
      | nil =>
        exfalso
        have hl : (c :: x).length ≤ k := by
          have := congrArg List.length hx; simp at this ⊢; omega
        rw [hx] at hC hg
        simp only [List.nil_append] at hC hg
        by_cases h46 : r.head? = some 46
        · have := hg.2.1 h46; omega
        · have hA : atExponent r = true := by simpa [h46] using hC
          have := hg.2.2.1 h46 hA; omega
      | cons a t =>
        rw [hx] at hC hg hg'
        simp only [List.cons_append, List.head?_cons] at hC hg hg' ⊢
        by_cases h46 : a = 46
        · simp [h46]
        · have h46' : ¬ (some a = some 46) := by simpa using h46
          have hA : atExponent (a :: (t ++ r)) = true := by simpa [h46] using hC
          have b1 := hg.2.2.1 h46' hA
          cases hA' : atExponent (a :: (t ++ [10])) with
          | true => simp
          | false => have := hg'.2.2.2 h46' hA'; omega
    rw [if_pos hC']
    exact hnew
  · rw [if_neg hC] at h
    have hC0 : ((c :: (x ++ r)).drop k).head? ≠ some 46 ∧ atExponent ((c :: (x ++ r)).drop k) = false := by
      simpa using hC
    have hC' : ¬ ((((c :: (x ++ [10])).drop k).head? = some 46 || atExponent ((c :: (x ++ [10])).drop k)) = true) := by
      rw [hd1] at hC0
      rw [hd2]
      have hA := atExponent_mono _ _ hC0.2
      cases hx : (c :: x).drop k with
      | nil => simp [atExponent]
      | cons a t =>
        rw [hx] at hC0 hA
        simp only [List.cons_append, List.head?_cons] at hC0 hA ⊢
        simp [hA]; exact fun h => hC0.1 (by rw [h])
    rw [if_neg hC']
    have := intTail_any (c :: x) r z ds k hk (by simpa using h) hlen
    simpa using this

theorem lexNormalNumber_any (c : Nat) (x r : List Nat) {tok : Tok} {n : Nat}
    (h : lexNormalNumber (c :: x ++ r) = .ok (tok, n)) (hn : n ≤ 1 + x.length) :
    lexNormalNumber (c :: x ++ [10]) = .ok (tok, n) := by
  unfold lexNormalNumber at h ⊢
  simp only [List.cons_append] at h ⊢
  have hk : (radixRun 10 (c :: (x ++ r))).2 ≤ (c :: x).length := by
    split at h
    · have := (floatTail_ge h).1; simp; omega
    · have := intTail_ge h; simp; omega
  have hR := radixRun_any 10 (c :: x) r (by simpa using hk)
  simp only [List.cons_append] at hR
  simp only [hR]
  have := lexNormalNumber_core c x r _ _ (decide ((c :: (x ++ r)).head? = some 48)) hk (by simpa using h)
    (by simp; omega)
  simpa using this

theorem lexNumberRadix_any (radix : Nat) (x r : List Nat) {tok : Tok} {n : Nat}
    (h : lexNumberRadix radix (x ++ r) = .ok (tok, n)) (hn : n ≤ 2 + x.length) :
    lexNumberRadix radix (x ++ [10]) = .ok (tok, n) := by
  unfold lexNumberRadix at h ⊢
  simp only [] at h ⊢
  have hk : (radixRun radix (x ++ r)).2 ≤ x.length := by
    split at h <;> simp at h; omega
  rw [radixRun_any radix x r hk]
  exact h

/-- **a number that ends inside `c :: x`, whatever follows, is the same number in front of a line end** -/
theorem lexNumber_any (c : Nat) (x r : List Nat) {tok : Tok} {n : Nat}
    (h : lexNumber (c :: x ++ r) = .ok (tok, n)) (hn : n ≤ 1 + x.length) :
    lexNumber (c :: x ++ [10]) = .ok (tok, n) := by
  have hN := fun h' => lexNormalNumber_any c x r (tok := tok) (n := n) h' hn
  by_cases hc : c = 48
  · subst hc
    cases x with
    | nil =>
      simp only [List.cons_append, List.nil_append] at h hN ⊢
      rw [lexNumber_second [] (by decide) (by decide) (by decide)]
      cases r with
      | nil => exact hN h
      | cons s t =>
        by_cases h1 : (s = 120 ∨ s = 88) ∨ (s = 111 ∨ s = 79) ∨ (s = 98 ∨ s = 66)
        · exfalso
          have hb : ∀ radix, lexNumberRadix radix t = .ok (tok, n) → False := by
            intro radix hr
            unfold lexNumberRadix at hr
            simp only [] at hr
            split at hr <;> simp at hr
            simp at hn; omega
          unfold lexNumber at h
          simp only [] at h
          split at h
          · exact hb _ h
          · split at h
            · exact hb _ h
            · split at h
              · exact hb _ h
              · rename_i n1 n2 n3; simp at n1 n2 n3; omega
        · have h1' : ¬ (s = 120 ∨ s = 88) ∧ ¬ (s = 111 ∨ s = 79) ∧ ¬ (s = 98 ∨ s = 66) := by
            simpa [not_or] using h1
          rw [lexNumber_second t h1'.1 h1'.2.1 h1'.2.2] at h
          exact hN h
    | cons s x' =>
      simp only [List.cons_append] at h hN ⊢
      unfold lexNumber at h ⊢
      simp only [] at h ⊢
      split
      · rename_i hs; rw [if_pos hs] at h
        exact lexNumberRadix_any 16 x' r h (by simp at hn; omega)
      · rename_i hs; rw [if_neg hs] at h
        split
        · rename_i hs2; rw [if_pos hs2] at h
          exact lexNumberRadix_any 8 x' r h (by simp at hn; omega)
        · rename_i hs2; rw [if_neg hs2] at h
          split
          · rename_i hs3; rw [if_pos hs3] at h
            exact lexNumberRadix_any 2 x' r h (by simp at hn; omega)
          · rename_i hs3; rw [if_neg hs3] at h
            exact hN h
  · simp only [List.cons_append] at h hN ⊢
    rw [lexNumber_first _ hc] at h ⊢
    exact hN h

/-- … and in front of every layout character -/
theorem lexNumber_any_lay (c : Nat) (x r : List Nat) {tok : Tok} {n : Nat}
    (h : lexNumber (c :: x ++ r) = .ok (tok, n)) (hn : n ≤ 1 + x.length) {d' : Nat} (hd' : Lay d') (r' : List Nat) :
    lexNumber (c :: x ++ d' :: r') = .ok (tok, n) := by
  rw [lexNumber_lay (c :: x) hd' r']; exact lexNumber_any c x r h hn

/-! ## operators -/

set_option maxHeartbeats 1000000 in
theorem lexOp_one_any {c : Nat} {r : List Nat} {o : Op} {n : Nat} (h : lexOp (c :: r) = some (o, n)) (hn : n ≤ 1)
    {d' : Nat} (hd' : OpInert d') (r' : List Nat) : lexOp (c :: d' :: r') = some (o, n) := by
  obtain ⟨b1, b2, b3, b4, b5, b6⟩ := hd'
  generalize hl : c :: r = l at h
  revert h hl
  fun_cases lexOp l <;> intro hl h <;> simp at h
  all_goals (obtain ⟨rfl, rfl⟩ := h; simp at hl)
  all_goals first
    | omega
    | (obtain ⟨rfl, _⟩ := hl; simp_all [lexOp]; done)
    | (subst hl; simp_all [lexOp]; done)

set_option maxHeartbeats 1000000 in
theorem lexOp_two_any {c a : Nat} {r : List Nat} {o : Op} {n : Nat} (h : lexOp (c :: a :: r) = some (o, n))
    (hn : n ≤ 2) {d' : Nat} (h61 : d' ≠ 61) (h46 : d' ≠ 46) (r' : List Nat) :
    lexOp (c :: a :: d' :: r') = some (o, n) := by
  generalize hl : c :: a :: r = l at h
  revert h hl
  fun_cases lexOp l <;> intro hl h <;> simp at h
  all_goals (obtain ⟨rfl, rfl⟩ := h; simp at hl)
  all_goals first
    | omega
    | (obtain ⟨rfl, rfl, _⟩ := hl; simp_all [lexOp]; done)
    | (obtain ⟨rfl, _⟩ := hl; simp_all [lexOp]; done)

/-- operators with an arbitrary follower: `c` is not `!` -/
theorem lexOp_any {c : Nat} (h33 : c ≠ 33) (y r : List Nat) {d' : Nat} (hd' : Lay d') (r' : List Nat)
    (hn : ∀ o n, lexOp (c :: (y ++ r)) = some (o, n) → n ≤ 1 + y.length) :
    lexOp (c :: (y ++ d' :: r')) = lexOp (c :: (y ++ r)) := by
  cases h : lexOp (c :: (y ++ r)) with
  | none =>
    obtain ⟨h1, h2, h3, h4, h5, h6, h7, h8, h9, h10, h11, h12, h13, h14, h15, h16, h17⟩ := lexOp_none_head h rfl
    exact lexOp_none c _ h1 h2 h3 h4 h5 h6 h7 h8 h9 h10 h11 h12 h13 h14 h15 h16 h17
      (fun x hx => h33 (by simpa using (List.cons.inj hx).1))
  | some p =>
    obtain ⟨o, n⟩ := p
    have hb := hn o n h
    have i' := opInert_lay hd'
    rcases y with _ | ⟨a, _ | ⟨b, y⟩⟩
    · exact lexOp_one_any h (by simpa using hb) i' r'
    · exact lexOp_two_any h (by simpa using hb) i'.1 i'.2.2.2.2.2 r'
    · simp only [List.cons_append] at h ⊢
      exact lexOp_three_some h _

/-! ## names -/

theorem scanFold_zero {p : Nat → Bool} {l : List Nat} (h : (scanFold p l).2 = 0) : scanFold p l = ([], 0) := by
  rw [scanFold.eq_def] at h ⊢
  split at h <;> first | rfl | (split <;> simp_all) | simp_all

theorem scanFold_any {p : Nat → Bool} (h13 : p 13 = false) (y r : List Nat) {d' : Nat} (hd' : p d' = false)
    (r' : List Nat) (h : (scanFold p (y ++ r)).2 ≤ y.length) :
    scanFold p (y ++ d' :: r') = scanFold p (y ++ r) := by
  have e : ∀ x t, p x = false → scanFold p (x :: t) = ([], 0) := by
    intro x t hx
    by_cases h : x = 13
    · subst h; exact scanFold_cr h13 t
    · rw [scanFold_cons_ne h]; simp [hx]
  induction y with
  | nil =>
    simp only [List.nil_append, List.length_nil, Nat.le_zero_eq] at h ⊢
    rw [scanFold_zero h, e _ _ hd']
  | cons c y ih =>
    by_cases hc : c = 13
    · subst hc; simp [scanFold_cr h13]
    · simp only [List.cons_append, scanFold_cons_ne hc, List.length_cons] at h ⊢
      by_cases hpc : p c = true
      · simp only [hpc, ↓reduceIte] at h ⊢
        rw [ih (by omega)]
      · simp [hpc]

theorem lexName_any {up : UParams} (hl : UpLay up) (y r : List Nat) {d' : Nat} (hd' : Lay d') (r' : List Nat)
    (h : (lexName up (y ++ r)).2 ≤ y.length) : lexName up (y ++ d' :: r') = lexName up (y ++ r) := by
  rw [lexName_snd] at h
  unfold lexName
  rw [scanFold_any (isIdCont_lay hl (by decide)) y r (isIdCont_lay hl hd') r' h]

/-! ## strings, identifiers -/

theorem lexString_min {kind : StringKind} {inp : List Nat} {tok : Tok} {n : Nat}
    (h : lexString kind inp = .ok (tok, n)) : kind.prefixLen + 2 ≤ n := by
  unfold lexString at h
  split at h
  · simp at h
  · split at h
    · split at h
      · rename_i v m hs; have := (strLoop_ok _ _ _ _ _ hs).1; simp at h; omega
      · simp at h
    · split at h
      · rename_i v m hs; have := (strLoop_ok _ _ _ _ _ hs).1; simp at h; omega
      · simp at h

/-- a string literal that ends inside `y`, whatever follows `y` -/
theorem lexString_any (kind : StringKind) {p : List Nat} (hp : p.length = kind.prefixLen) {q : Nat}
    (hq : isQuote q = true) (y r : List Nat) {d' : Nat} (hd' : Lay d') (r' : List Nat) {tok : Tok}
    {n : Nat} (h : lexString kind (p ++ q :: (y ++ r)) = .ok (tok, n)) (hn : n ≤ p.length + 1 + y.length) :
    lexString kind (p ++ q :: (y ++ d' :: r')) = .ok (tok, n) := by
  have hdq' : d' ≠ q := by
    intro h; subst h; have := isQuote_lay hd'; simp [hq] at this
  unfold lexString at h ⊢
  rw [← hp, List.drop_left] at h ⊢
  simp only [] at h ⊢
  by_cases ht : isTripleOpen q (y ++ r) = true
  · simp only [ht, ↓reduceIte] at h
    cases hs : strLoop q true ((y ++ r).drop 2) with
    | error e => obtain ⟨k, off⟩ := e; simp [hs] at h
    | ok pr =>
      obtain ⟨v, m⟩ := pr
      simp only [hs, Except.ok.injEq, Prod.mk.injEq] at h
      obtain ⟨rfl, rfl⟩ := h
      have h3 := strLoop_three hs
      rcases y with _ | ⟨a, _ | ⟨b, y3⟩⟩
      · simp at hn; omega
      · simp at hn; omega
      · have hab : a = q ∧ b = q := by simpa [isTripleOpen] using ht
        obtain ⟨ha, hb⟩ := hab
        have ht' : isTripleOpen q (a :: b :: y3 ++ d' :: r') = true := by simp [isTripleOpen, ha, hb]
        simp only [ht', ↓reduceIte]
        simp only [List.cons_append, List.drop_succ_cons, List.drop_zero] at hs ⊢
        rw [strLoop_prefix hq true hs (by simp at hn; omega) (d' :: r')]
  · simp only [ht, Bool.false_eq_true, ↓reduceIte] at h
    have ht' : isTripleOpen q (y ++ d' :: r') = false := by
      rcases y with _ | ⟨a, _ | ⟨b, y3⟩⟩
      · rcases r' with _ | ⟨x', r'⟩ <;> simp [isTripleOpen, hdq']
      · simp [isTripleOpen, hdq']
      · simpa [isTripleOpen] using ht
    simp only [ht', Bool.false_eq_true, ↓reduceIte]
    cases hs : strLoop q false (y ++ r) with
    | error e => obtain ⟨k, off⟩ := e; simp [hs] at h
    | ok pr =>
      obtain ⟨v, m⟩ := pr
      simp only [hs, Except.ok.injEq, Prod.mk.injEq] at h
      obtain ⟨rfl, rfl⟩ := h
      rw [strLoop_prefix hq false hs (by omega) (d' :: r')]

/-- an identifier, keyword or prefixed string that ends inside `c :: y`, whatever follows -/
theorem lexIdentifier_any {up : UParams} (hl : UpLay up) (c : Nat) (y r : List Nat) {d' : Nat}
    (hd' : Lay d') (r' : List Nat) {tok : Tok} {n : Nat}
    (h : lexIdentifier up (c :: (y ++ r)) = .ok (tok, n)) (hn : n ≤ 1 + y.length) :
    lexIdentifier up (c :: (y ++ d' :: r')) = .ok (tok, n) := by
  -- the name branch
  have hName : lexIdentifier up (c :: (y ++ r)) = .ok (lexName up (c :: (y ++ r))) →
      lexName up (c :: (y ++ d' :: r')) = (tok, n) := by
    intro e
    rw [e] at h
    have h' : lexName up (c :: (y ++ r)) = (tok, n) := by simpa using h
    have := lexName_any hl (c :: y) r hd' r' (by simp only [List.cons_append, h']; simp; omega)
    simp only [List.cons_append] at this
    rw [this, h']
  rcases y with _ | ⟨q, _ | ⟨q2, y⟩⟩
  · simp only [List.nil_append] at h hName ⊢
    rw [lexIdentifier_lay2 up c hd']
    refine congrArg Except.ok (hName ?_)
    unfold lexIdentifier at h ⊢
    cases r with
    | nil => rfl
    | cons q rest =>
      simp only [] at h ⊢
      by_cases hq : isQuote q = true
      · simp only [hq, ↓reduceIte] at h ⊢
        cases hk : StringKind.ofChar c with
        | none => rfl
        | some kind =>
          simp only [hk] at h
          have := lexString_min h
          have := ofChar_prefixLen hk
          simp at hn; omega
      · simp only [hq, Bool.false_eq_true, ↓reduceIte] at h ⊢
        cases rest with
        | nil => rfl
        | cons q2 t =>
          simp only [] at h ⊢
          by_cases hq2 : isQuote q2 = true
          · simp only [hq2, ↓reduceIte] at h ⊢
            cases hk : StringKind.ofChars c q with
            | none => rfl
            | some kind =>
              simp only [hk] at h
              have := lexString_min h
              simp at hn; omega
          · simp only [hq2, Bool.false_eq_true, ↓reduceIte]
  · simp only [List.cons_append, List.nil_append] at h hName ⊢
    unfold lexIdentifier at h ⊢
    simp only [] at h ⊢
    by_cases hq : isQuote q = true
    · simp only [hq, ↓reduceIte] at h hName ⊢
      cases hk : StringKind.ofChar c with
      | none => simp only [hk] at h ⊢; exact congrArg Except.ok (hName (by unfold lexIdentifier; simp [hq, hk]))
      | some kind =>
        simp only [hk] at h ⊢
        exact lexString_any kind (p := [c]) (by simp [ofChar_prefixLen hk]) hq [] r hd' r' h (by simp at hn ⊢; omega)
    · simp only [hq, isQuote_lay hd', Bool.false_eq_true, ↓reduceIte] at h ⊢
      refine congrArg Except.ok (hName ?_)
      unfold lexIdentifier
      simp only [hq, Bool.false_eq_true, ↓reduceIte]
      cases r with
      | nil => rfl
      | cons q2 t =>
        simp only [] at h ⊢
        by_cases hq2 : isQuote q2 = true
        · simp only [hq2, ↓reduceIte] at h ⊢
          cases hk : StringKind.ofChars c q with
          | none => rfl
          | some kind =>
            simp only [hk] at h
            have := lexString_min h
            have := ofChars_prefixLen hk
            simp at hn; omega
        · simp only [hq2, Bool.false_eq_true, ↓reduceIte]
  · simp only [List.cons_append] at h hName ⊢
    unfold lexIdentifier at h ⊢
    simp only [] at h ⊢
    by_cases hq : isQuote q = true
    · simp only [hq, ↓reduceIte] at h ⊢
      cases hk : StringKind.ofChar c with
      | none => simp only [hk] at h ⊢; exact congrArg Except.ok (hName (by unfold lexIdentifier; simp [hq, hk]))
      | some kind =>
        simp only [hk] at h ⊢
        exact lexString_any kind (p := [c]) (by simp [ofChar_prefixLen hk]) hq (q2 :: y) r hd' r' h
          (by simp at hn ⊢; omega)
    · simp only [hq, Bool.false_eq_true, ↓reduceIte] at h ⊢
      by_cases hq2 : isQuote q2 = true
      · simp only [hq2, ↓reduceIte] at h ⊢
        cases hk : StringKind.ofChars c q with
        | none =>
          simp only [hk] at h ⊢
          exact congrArg Except.ok (hName (by unfold lexIdentifier; simp [hq, hq2, hk]))
        | some kind =>
          simp only [hk] at h ⊢
          exact lexString_any kind (p := [c, q]) (by simp [ofChars_prefixLen hk]) hq2 y r hd' r' h
            (by simp at hn ⊢; omega)
      · simp only [hq2, Bool.false_eq_true, ↓reduceIte] at h ⊢
        exact congrArg Except.ok (hName (by unfold lexIdentifier; simp [hq, hq2]))


/-! ## `consume_character` -/

theorem spanLen_any {p : Nat → Bool} (Y t : List Nat) {d' : Nat} (r' : List Nat)
    (h : spanLen p (Y ++ t) ≤ Y.length) (hd' : spanLen p (Y ++ t) = Y.length → p d' = false) :
    spanLen p (Y ++ d' :: r') = spanLen p (Y ++ t) := by
  induction Y with
  | nil =>
    simp only [List.nil_append, List.length_nil, Nat.le_zero_eq] at h hd' ⊢
    simp [spanLen, hd' h, h]
  | cons c Y ih =>
    simp only [List.cons_append, spanLen, List.length_cons] at h hd' ⊢
    by_cases hc : p c = true
    · simp only [hc, ↓reduceIte] at h hd' ⊢
      rw [ih (by omega) (fun e => hd' (by omega))]
    · simp [hc]

theorem nextChar_any (c : Nat) (y r : List Nat) {d' : Nat} (r' : List Nat)
    {x n : Nat} {rest : List Nat} (h : nextChar (c :: (y ++ r)) = some (x, n, rest)) (hn : n ≤ 1 + y.length)
    (hcr : n = 1 + y.length → (c :: y).getLast? = some 13 → d' ≠ 10) :
    ∃ rest', nextChar (c :: (y ++ d' :: r')) = some (x, n, rest') ∧ rest'.isEmpty = false := by
  by_cases hc : c = 13
  · subst hc
    rcases y with _ | ⟨a, y⟩
    · have hd' := fun e => hcr e (by simp)
      rcases r with _ | ⟨b, r⟩
      · simp [nextChar] at h; obtain ⟨rfl, rfl, rfl⟩ := h
        have := hd' (by simp)
        simp [nextChar, this]
      · by_cases hb : b = 10
        · subst hb; simp [nextChar] at h; simp at hn; omega
        · simp [nextChar, hb] at h
          obtain ⟨rfl, rfl, rfl⟩ := h
          have := hd' (by simp)
          simp [nextChar, this]
    · by_cases ha : a = 10
      · subst ha; simp [nextChar] at h ⊢; obtain ⟨rfl, rfl, rfl⟩ := h; simp
      · simp [nextChar, ha] at h ⊢; obtain ⟨rfl, rfl, rfl⟩ := h; simp
  · have e : ∀ t, nextChar (c :: t) = some (c, 1, t) := by
      intro t; rw [nextChar.eq_def]; split <;> simp_all
    rw [e] at h ⊢
    simp at h; obtain ⟨rfl, rfl, rfl⟩ := h; simp

theorem lexNumber_dot_lf : lexNumber [46, 10] = .error ⟨.otherInvalidDecimal, 1, 1⟩ := by rfl

/-- `consume_character` that ends inside `c :: y`, whatever follows -/
theorem consumeCharacter_any {cfg : Cfg} (hf : cfg.fullLexer = false) (st : LexState) (c : Nat) (y r : List Nat)
    {d' : Nat} (hd' : Lay d') (r' : List Nat) {o : StepOut}
    (h : consumeCharacter cfg st c (y ++ r) = .ok o) (hc : o.consumed ≤ 1 + y.length)
    (hcr : o.consumed = 1 + y.length → (c :: y).getLast? = some 13 → d' ≠ 10)
    (hbl : o.consumed = 1 + y.length → (∀ x ∈ c :: y, isBlank x = true) → isBlank d' = false)
    (hcm : o.consumed = 1 + y.length → c = 35 → isLineBreak d' = true) :
    consumeCharacter cfg st c (y ++ d' :: r') = .ok o := by
  unfold consumeCharacter at h ⊢
  by_cases h1 : isDigit c = true
  · simp only [h1, ↓reduceIte] at h ⊢
    obtain ⟨tok, n, hs, rfl⟩ := ofSub_inv h
    have := lexNumber_any_lay c y r (by simpa using hs) (by simpa [one] using hc) hd' r'
    simp only [List.cons_append] at this
    rw [this]; rfl
  simp only [h1, Bool.false_eq_true, ↓reduceIte] at h ⊢
  by_cases h2 : c = 35
  · simp only [h2, ↓reduceIte, commentLen, hf, Bool.false_eq_true] at h ⊢
    simp only [Except.ok.injEq] at h
    subst h
    simp only [skip] at hc hcm
    have := spanLen_any (p := fun c => !isLineBreak c) (35 :: y) r (d' := d') r'
      (by simpa [Nat.add_comm] using hc)
      (by intro e; have := hcm (by simpa [Nat.add_comm] using e) h2; simp [this])
    simp only [List.cons_append] at this
    rw [this]
  simp only [h2, ↓reduceIte] at h ⊢
  by_cases h3 : isQuote c = true
  · simp only [h3, ↓reduceIte] at h ⊢
    obtain ⟨tok, n, hs, rfl⟩ := ofSub_inv h
    have := lexString_any .string (p := []) (by simp [StringKind.prefixLen]) h3 y r hd' r' (tok := tok) (n := n)
      (by simpa using hs) (by simpa [one] using hc)
    simp only [List.nil_append] at this
    rw [this]; rfl
  simp only [h3, Bool.false_eq_true, ↓reduceIte] at h ⊢
  by_cases h4 : c = 33
  · simp only [h4, ↓reduceIte] at h ⊢
    rcases y with _ | ⟨a, y⟩
    · simp only [List.nil_append] at h
      split at h
      · simp at h; subst h; simp [one] at hc
      · simp at h
    · simp only [List.cons_append] at h ⊢
      by_cases ha : a = 61
      · subst ha; exact h
      · split at h
        · rename_i heq; simp at heq; exact absurd heq.1 ha
        · simp at h
  simp only [h4, ↓reduceIte] at h ⊢
  by_cases h5 : (c = 46 && headIsDigit (y ++ r)) = true
  · simp only [h5, ↓reduceIte] at h
    obtain ⟨tok, n, hs, rfl⟩ := ofSub_inv h
    have h46 : c = 46 := by simp at h5; exact h5.1
    cases y with
    | nil =>
      exfalso
      have := lexNumber_any c [] r (by simpa using hs) (by simpa [one] using hc)
      rw [h46] at this
      simp only [List.nil_append, List.cons_append] at this
      rw [lexNumber_dot_lf] at this; cases this
    | cons a y =>
      have h5' : (c = 46 && headIsDigit (a :: y ++ d' :: r')) = true := by simpa [headIsDigit] using h5
      simp only [h5', ↓reduceIte]
      have := lexNumber_any_lay c (a :: y) r (by simpa using hs) (by simpa [one] using hc) hd' r'
      simp only [List.cons_append] at this ⊢
      rw [this]; rfl
  have h5' : ¬ ((c = 46 && headIsDigit (y ++ d' :: r')) = true) := by
    cases y with
    | nil => simp [headIsDigit, isDigit_lay hd']
    | cons a y => simpa [headIsDigit] using h5
  simp only [h5, h5', Bool.false_eq_true, ↓reduceIte] at h ⊢
  have hOp : lexOp (c :: (y ++ d' :: r')) = lexOp (c :: (y ++ r)) := by
    apply lexOp_any h4 y r hd' r'
    intro op n hO
    simp only [hO] at h
    simp at h; subst h; simpa [one] using hc
  rw [hOp]
  cases hO : lexOp (c :: (y ++ r)) with
  | some p => simpa only [hO] using h
  | none =>
    simp only [hO] at h ⊢
    cases hob : openBracket c with
    | some ob => simpa only [hob] using h
    | none =>
      simp only [hob] at h ⊢
      cases hcb : closeBracket c with
      | some cb => simpa only [hcb] using h
      | none =>
        simp only [hcb] at h ⊢
        by_cases h6 : isLineBreak c = true
        · simp only [h6, ↓reduceIte] at h ⊢
          cases hnc : nextChar (c :: (y ++ r)) with
          | none => simp [hnc] at h
          | some q =>
            obtain ⟨x, n, rest⟩ := q
            have hn : o.consumed = n := by
              simp only [hnc] at h
              split at h
              · simp at h; subst h; simp [one]
              · simp only [hf, Bool.false_eq_true, ↓reduceIte] at h
                simp at h; subst h; simp [skip]
            obtain ⟨rest', hnc', _⟩ := nextChar_any c y r r' hnc (by omega) (by intro e; exact hcr (by omega))
            simpa only [hnc, hnc'] using h
        simp only [h6, Bool.false_eq_true, ↓reduceIte] at h ⊢
        by_cases h7 : isBlank c = true
        · simp only [h7, ↓reduceIte] at h ⊢
          simp only [Except.ok.injEq] at h
          subst h
          simp only [skip] at hc hbl
          have := spanLen_any (p := isBlank) (c :: y) r (d' := d') r'
            (by simpa [Nat.add_comm] using hc)
            (by
              intro e
              have e' : spanLen isBlank (c :: (y ++ r)) = 1 + y.length := by simpa [Nat.add_comm] using e
              exact hbl e' (spanLen_ge_all (p := isBlank) (c :: y) r (by simp; omega)))
          simp only [List.cons_append] at this
          rw [this]
        simp only [h7, Bool.false_eq_true, ↓reduceIte] at h ⊢
        by_cases h8 : c = 92
        · simp only [h8, ↓reduceIte] at h ⊢
          rcases y with _ | ⟨a, y⟩
          · exfalso
            simp only [List.nil_append] at h
            cases r with
            | nil => simp at h
            | cons b t =>
              simp only [] at h
              by_cases hb : isLineBreak b = true
              · simp only [hb, ↓reduceIte] at h
                cases hnc : nextChar (b :: t) with
                | none => simp [hnc] at h
                | some q =>
                  obtain ⟨x, n, rest⟩ := q
                  have := (nextChar_ok hnc).1
                  simp only [hnc] at h
                  split at h
                  · simp at h
                  · simp at h; subst h; simp [skip] at hc; omega
              · simp [hb] at h
          · simp only [List.cons_append] at h ⊢
            by_cases ha : isLineBreak a = true
            · simp only [ha, ↓reduceIte] at h ⊢
              cases hnc : nextChar (a :: (y ++ r)) with
              | none => simp [hnc] at h
              | some q =>
                obtain ⟨x, n, rest⟩ := q
                simp only [hnc] at h
                split at h
                · simp at h
                · simp at h; subst h
                  simp only [skip, List.length_cons] at hc hcr
                  obtain ⟨rest', hnc', hr'⟩ := nextChar_any a y r r' hnc (by omega)
                    (by intro e h13; exact hcr (by omega) (by simpa using h13))
                  simp [hnc', hr']
            · simp only [ha, Bool.false_eq_true, ↓reduceIte] at h ⊢
              exact h
        simp only [h8, ↓reduceIte] at h ⊢
        exact h


/-! ## `consume_normal`, the step -/

theorem consumeEof_done {st : LexState} {o : StepOut} (h : consumeEof st = .ok o) : o.done = true := by
  unfold consumeEof at h
  split at h
  · simp at h
  · simp at h; subst h; rfl

/-- `consume_normal` (not the end-of-file step) that ends inside `y`, whatever follows -/
theorem consumeNormal_any {cfg : Cfg} (hup : UpOk cfg.up) (hl : UpLay cfg.up) (hf : cfg.fullLexer = false)
    (st : LexState) (y r : List Nat) {d' : Nat} (hd' : Lay d') (r' : List Nat) {o : StepOut}
    (h : consumeNormal cfg st (y ++ r) = .ok o) (hdone : o.done = false) (hc : o.consumed ≤ y.length)
    (hcr : o.consumed = y.length → y.getLast? = some 13 → d' ≠ 10)
    (hbl : o.consumed = y.length → (∀ x ∈ y, isBlank x = true) → isBlank d' = false)
    (hcm : o.consumed = y.length → y.head? = some 35 → isLineBreak d' = true) :
    consumeNormal cfg st (y ++ d' :: r') = .ok o := by
  cases y with
  | nil =>
    exfalso
    cases r with
    | nil =>
      simp only [List.append_nil, consumeNormal] at h
      have := consumeEof_done h
      rw [this] at hdone; cases hdone
    | cons a t =>
      have := consumeNormal_cons_pos hup.sane (c := a) (cs := t) (by simpa using h)
      simp at hc; omega
  | cons c y =>
    simp only [List.cons_append, consumeNormal] at h ⊢
    by_cases hid : isIdStart cfg.up c = true
    · simp only [hid, ↓reduceIte] at h ⊢
      obtain ⟨tok, n, hs, rfl⟩ := ofSub_inv h
      rw [lexIdentifier_any hl c y r hd' r' hs (by simp [one] at hc; omega)]
      rfl
    · simp only [hid, Bool.false_eq_true, ↓reduceIte] at h ⊢
      simp only [List.length_cons] at hc hcr hbl hcm
      exact consumeCharacter_any hf st c y r hd' r' h (by omega)
        (fun e => hcr (by omega)) (fun e => hbl (by omega)) (fun e hc35 => hcm (by omega) (by simp [hc35]))

/-- **L1 with an arbitrary follower**: a step (not the end-of-file step) that ends inside `y`, whatever follows `y` —
    a token, a layout character, nothing — gives the same result with a layout character `d'` and anything behind `y` —
    unconditionally when it ends before the last character of `y`, under `EndOk` when it ends exactly behind `y` -/
theorem step_any_local {cfg : Cfg} (hup : UpOk cfg.up) (hl : UpLay cfg.up) (hf : cfg.fullLexer = false)
    {st : LexState} {y r : List Nat} {o : StepOut}
    (h : step cfg st (y ++ r) = .ok o) (hdone : o.done = false) (hc : o.consumed ≤ y.length) {d' : Nat}
    (hd' : Lay d') (r' : List Nat) (hside : o.consumed = y.length → EndOk st.atBol y d') :
    step cfg st (y ++ d' :: r') = .ok o := by
  unfold step at h ⊢
  by_cases hb : st.atBol = true
  · simp only [hb, ↓reduceIte] at h ⊢
    cases hh : handleIndentations cfg st (y ++ r) with
    | error e => simp [hh] at h
    | ok q =>
      obtain ⟨toks1, p, st1⟩ := q
      simp only [hh] at h
      cases hn : consumeNormal cfg st1 ((y ++ r).drop p) with
      | error e => simp [hn] at h
      | ok o' =>
        simp only [hn, Except.ok.injEq] at h
        subst h
        simp only [] at hc hside hdone
        obtain ⟨eo, heo, hpe, hbol, _⟩ := handleIndentations_pos hh
        rw [hf] at heo
        have hple : p ≤ y.length := by omega
        rw [drop_brk hple] at hn
        have hpos : 1 ≤ o'.consumed := by
          cases hy : y.drop p ++ r with
          | nil =>
            rw [hy] at hn
            simp only [consumeNormal] at hn
            have := consumeEof_done hn
            rw [this] at hdone; cases hdone
          | cons a t => rw [hy] at hn; exact consumeNormal_cons_pos hup.sane hn
        have hp : p < y.length := by omega
        rw [handleIndentations_prefix_local hf st y r (d' :: r') hh hp]
        simp only []
        rw [drop_brk hple]
        have hnb : eo.atBol = false := by
          cases hE : eo.atBol with
          | false => rfl
          | true =>
            exfalso
            obtain ⟨i, hi, hcase⟩ := eatIndent_stops heo
            rcases hcase with ⟨hnil, _⟩ | ⟨_, _, _, _, hfalse⟩
            · have := congrArg List.length hnil
              simp at this; omega
            · rw [hE] at hfalse; cases hfalse
        obtain ⟨i, c0, rest0, hi, hdrop, hc0⟩ := eatIndent_stops_lay heo hnb
        have hip : i = p := by omega
        subst hip
        rw [drop_brk hple] at hdrop
        have hhead : (y.drop i).head? = some c0 := by
          cases hy : y.drop i with
          | nil => have := congrArg List.length hy; simp at this; omega
          | cons a t => rw [hy] at hdrop; simp at hdrop; simp [hdrop.1]
        have hne : y.drop i ≠ [] := by intro h0; rw [h0] at hhead; cases hhead
        rw [consumeNormal_any hup hl hf st1 (y.drop i) r hd' r' hn hdone (by simp; omega)
          (by
            intro e h13
            have := (hside (by simp at e; omega)).cr
            rw [getLast?_drop hp] at h13
            exact this h13)
          (by
            intro e hall
            obtain ⟨c, hc1, hc2⟩ := allBlank_getLast hne hall
            rw [getLast?_drop hp] at hc1
            exact (hside (by simp at e; omega)).blank c hc1 hc2)
          (by
            intro e h35
            rw [hhead] at h35
            have : c0 = 35 := by simpa using h35
            have := hc0 (by rw [this]; decide)
            omega)]
  · have hb' : st.atBol = false := by simpa using hb
    simp only [hb, Bool.false_eq_true, ↓reduceIte] at h ⊢
    refine consumeNormal_any hup hl hf st y r hd' r' h hdone hc (fun e => (hside e).cr) ?_
      (fun e => (hside e).comment hb')
    intro e hall
    have hne : y ≠ [] := by
      intro h0; subst h0
      cases r with
      | nil =>
        simp only [List.append_nil, consumeNormal] at h
        have := consumeEof_done h
        rw [this] at hdone; cases hdone
      | cons a t =>
        have := consumeNormal_cons_pos hup.sane (c := a) (cs := t) (by simpa using h)
        simp at e; omega
    obtain ⟨c, hc1, hc2⟩ := allBlank_getLast hne hall
    exact (hside e).blank c hc1 hc2

/-! ## non-vacuity -/

/-- the name `x` of `x+y`, seen from the start of the line: the same step on `x␠+y` -/
example : step localCfg .init ([120] ++ 32 :: [43, 121]) = .ok ⟨[⟨.name [120], 0, 1⟩], 1, ⟨false, 0, [⟨0, 0⟩]⟩, false⟩ :=
  step_any_local localUp_ok localUp_lay rfl (y := [120]) (r := [43, 121]) (by rfl) rfl (by decide)
    (d' := 32) (by decide) [43, 121] (fun _ => ⟨by decide, by decide, by decide⟩)

/-- the number `1` of `1if` / `1e` at the end of the text, then in front of a blank -/
example : step localCfg ⟨false, 0, [⟨0, 0⟩]⟩ ([49] ++ 32 :: [105, 102]) =
    .ok ⟨[⟨.int 1, 0, 1⟩], 1, ⟨false, 0, [⟨0, 0⟩]⟩, false⟩ :=
  step_any_local localUp_ok localUp_lay rfl (y := [49]) (r := [101]) (by rfl) rfl (by decide)
    (d' := 32) (by decide) [105, 102] (fun _ => ⟨by decide, by decide, by decide⟩)


end PV.C08
