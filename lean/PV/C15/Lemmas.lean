import PV.C15.Model
import PV.C15.Spec
namespace PV.C15
end PV.C15
