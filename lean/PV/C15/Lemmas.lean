import PV.C15.Model
import PV.C15.Spec
/-! C15 — helper lemmas (property theorems are in `Thm.lean`). -/
namespace PV.C15
open Spec

theorem indexLines_ne_nil (bs : List Nat) : indexLines bs ≠ [] := by
  fun_induction indexLines bs <;> simp_all

theorem indexLines_flatten (bs : List Nat) : (indexLines bs).flatten = bs := by
  fun_induction indexLines bs <;> simp_all

theorem splitLines_flatten_aux (bs : List Nat) : (splitLines bs).flatten = bs := by
  fun_induction splitLines bs <;> simp_all

theorem indexLines_length (bs : List Nat) : (indexLines bs).length = breaks bs + 1 := by
  fun_induction indexLines bs <;> simp_all [breaks] <;> omega

theorem startsFrom_length (o : Nat) (ls : List (List Nat)) : (startsFrom o ls).length = ls.length := by
  induction ls generalizing o <;> simp_all [startsFrom]

/-- key lemma: the byte loop computes the running starts of the reference lines -/
theorem lineStartsGo_spec (i : Nat) (bs : List Nat) :
    i :: lineStartsGo i bs = startsFrom i (indexLines bs) := by
  fun_induction indexLines bs generalizing i <;> simp_all [lineStartsGo, startsFrom]
  · rename_i rest _ _
    intro h; cases rest <;> simp_all
  · congr 1; omega

theorem head?_ne_of_forall {rest : List Nat} (h : ∀ r, ¬ rest = 10 :: r) : rest.head? ≠ some 10 := by
  cases rest <;> simp_all

theorem lineStarts_spec_aux (bs : List Nat) : lineStarts bs = startsFrom 0 (indexLines bs) :=
  lineStartsGo_spec 0 bs

theorem lineCount_aux (bs : List Nat) : lineCount bs = breaks bs + 1 := by
  rw [lineCount, lineStarts_spec_aux, startsFrom_length, indexLines_length]

/-- all entries produced by the loop lie strictly above the running index and increase strictly -/
theorem lineStartsGo_sorted (i : Nat) (bs : List Nat) :
    (∀ x ∈ lineStartsGo i bs, i < x) ∧ (lineStartsGo i bs).Pairwise (· < ·) := by
  induction bs generalizing i with
  | nil => simp [lineStartsGo]
  | cons b rest ih =>
    have ⟨h1, h2⟩ := ih (i + 1)
    unfold lineStartsGo
    split
    · exact ⟨fun x hx => by have := h1 x hx; omega, h2⟩
    · split
      · refine ⟨?_, ?_⟩
        · intro x hx
          simp only [List.mem_cons] at hx
          rcases hx with rfl | hx
          · omega
          · have := h1 x hx; omega
        · exact List.pairwise_cons.mpr ⟨fun x hx => h1 x hx, h2⟩
      · exact ⟨fun x hx => by have := h1 x hx; omega, h2⟩

theorem lineStarts_sorted (bs : List Nat) : (lineStarts bs).Pairwise (· < ·) := by
  have ⟨h1, h2⟩ := lineStartsGo_sorted 0 bs
  exact List.pairwise_cons.mpr ⟨fun x hx => h1 x hx, h2⟩

theorem binarySearch_cons_lt (y x : Nat) (ys : List Nat) (h : y < x) :
    binarySearch (y :: ys) x = ((binarySearch ys x).1, (binarySearch ys x).2 + 1) := by
  unfold binarySearch
  rw [List.findIdx?_cons]
  have : decide (x ≤ y) = false := by simp; omega
  simp only [this]
  cases hf : List.findIdx? (fun y => decide (x ≤ y)) ys <;> simp

theorem binarySearch_count (xs : List Nat) (x : Nat) (hs : xs.Pairwise (· < ·)) :
    xs.countP (· ≤ x) = (if (binarySearch xs x).1 then (binarySearch xs x).2 + 1 else (binarySearch xs x).2) := by
  induction xs with
  | nil => simp [binarySearch]
  | cons y ys ih =>
    have hs' := List.pairwise_cons.mp hs
    by_cases hxy : x ≤ y
    · have hz : ys.countP (· ≤ x) = 0 := by
        rw [List.countP_eq_zero]
        intro a ha
        have := hs'.1 a ha
        simp; omega
      have hb : binarySearch (y :: ys) x = (y == x, 0) := by
        unfold binarySearch
        rw [List.findIdx?_cons]
        simp [hxy]
      rw [hb, List.countP_cons, hz]
      by_cases hyx : y = x <;> simp [hyx]
      omega
    · have hlt : y < x := by omega
      rw [binarySearch_cons_lt y x ys hlt, List.countP_cons, ih hs'.2]
      have : decide (y ≤ x) = true := by simp; omega
      simp only [this]
      split <;> simp

/-- in a strictly increasing list the elements `≤ x` are exactly the first `countP (· ≤ x)` ones -/
theorem sorted_count_iff (xs : List Nat) (x : Nat) (hs : xs.Pairwise (· < ·)) (j : Nat) (hj : j < xs.length) :
    j < xs.countP (· ≤ x) ↔ xs[j] ≤ x := by
  induction xs generalizing j with
  | nil => simp at hj
  | cons y ys ih =>
    have hs' := List.pairwise_cons.mp hs
    rw [List.countP_cons]
    cases j with
    | zero =>
      simp only [List.getElem_cons_zero]
      by_cases hy : y ≤ x
      · simp [hy]
      · simp only [hy, decide_false, Bool.false_eq_true, ↓reduceIte, Nat.add_zero, iff_false, Nat.not_lt,
          Nat.le_zero_eq]
        rw [List.countP_eq_zero]
        intro a ha
        have := hs'.1 a ha
        simp; omega
    | succ j =>
      simp only [List.getElem_cons_succ]
      have hj' : j < ys.length := by simpa using hj
      have := ih hs'.2 j hj'
      by_cases hy : y ≤ x
      · simp only [hy, decide_true, ↓reduceIte]; omega
      · simp only [hy, decide_false, Bool.false_eq_true, ↓reduceIte, Nat.add_zero]
        have h1 : ¬ ys[j] ≤ x := by
          have := hs'.1 ys[j] (List.getElem_mem hj')
          omega
        have h2 : ys.countP (· ≤ x) = 0 := by
          rw [List.countP_eq_zero]
          intro a ha
          have := hs'.1 a ha
          simp; omega
        omega

theorem splitLines_eq_nil (t : List Nat) : splitLines t = [] ↔ t = [] := by
  fun_induction splitLines t <;> simp_all

theorem splitLines_cr (rest : List Nat) (h : rest.head? ≠ some 10) :
    splitLines (13 :: rest) = [13] :: splitLines rest := by
  cases rest with
  | nil => simp [splitLines]
  | cons c r =>
    have : c ≠ 10 := by simpa using h
    rw [splitLines]
    intro r' h'; simp_all

theorem splitLines_crlf (rest : List Nat) (h : rest.head? = some 10) :
    splitLines (13 :: rest) = (13 :: 10 :: []) :: splitLines rest.tail := by
  cases rest with
  | nil => simp at h
  | cons c r =>
    have : c = 10 := by simpa using h
    subst this
    simp [splitLines]

theorem splitLines_other (b : Nat) (rest : List Nat) (h1 : b ≠ 10) (h2 : b ≠ 13) :
    splitLines (b :: rest) = match splitLines rest with
      | [] => [[b]]
      | l :: ls => (b :: l) :: ls := by
  rw [splitLines] <;> first | rfl | simp_all

theorem findNewline_some (t : List Nat) (p l : Nat) (h : findNewline t = some (p, l)) :
    splitLines t = (t.take (p + l)) :: splitLines (t.drop (p + l)) := by
  induction t generalizing p l with
  | nil => simp [findNewline] at h
  | cons b rest ih =>
    unfold findNewline at h
    split at h
    · rename_i hb; subst hb
      simp at h; obtain ⟨rfl, rfl⟩ := h
      simp [splitLines]
    · split at h
      · rename_i hb; subst hb
        split at h
        · rename_i hh
          simp at h; obtain ⟨rfl, rfl⟩ := h
          rw [splitLines_crlf rest hh]
          cases rest with
          | nil => simp at hh
          | cons c r => simp at hh; subst hh; simp
        · rename_i hh
          simp at h; obtain ⟨rfl, rfl⟩ := h
          rw [splitLines_cr rest hh]
          simp
      · rename_i h1 h2
        split at h
        · rename_i p' l' hf
          simp at h; obtain ⟨rfl, rfl⟩ := h
          rw [splitLines_other b rest h1 h2, ih p' l' hf]
          have e : p' + 1 + l' = (p' + l') + 1 := by omega
          rw [e]
          simp
        · simp at h

theorem findNewline_none (t : List Nat) (hne : t ≠ []) (h : findNewline t = none) :
    splitLines t = [t] := by
  induction t with
  | nil => simp at hne
  | cons b rest ih =>
    unfold findNewline at h
    split at h
    · simp at h
    · split at h
      · split at h <;> simp at h
      · rename_i h1 h2
        split at h
        · simp at h
        · rename_i hf
          rw [splitLines_other b rest h1 h2]
          cases rest with
          | nil => simp [splitLines]
          | cons c r => rw [ih (by simp) hf]

def isNl (b : Nat) : Bool := b = 10 || b = 13

/-- Splitting distributes over a cut placed right after a line break (not inside a CR LF pair). -/
theorem splitLines_append (a b : List Nat)
    (hend : ∃ c, a.getLast? = some c ∧ isNl c = true)
    (hcrlf : ¬ (a.getLast? = some 13 ∧ b.head? = some 10)) :
    splitLines (a ++ b) = splitLines a ++ splitLines b := by
  fun_induction splitLines a
  · simp at hend
  · -- 10 :: rest
    rename_i rest ih
    simp only [List.cons_append, splitLines]
    cases rest with
    | nil => simp [splitLines]
    | cons c r =>
      simp only [List.getLast?_cons_cons] at hend hcrlf
      rw [ih hend hcrlf]
  · -- 13 :: 10 :: rest
    rename_i rest ih
    simp only [List.cons_append, splitLines]
    cases rest with
    | nil => simp [splitLines]
    | cons c r =>
      simp only [List.getLast?_cons_cons] at hend hcrlf
      rw [ih hend hcrlf]
  · -- 13 :: rest, rest not starting with 10
    rename_i rest hnot ih
    cases rest with
    | nil =>
      simp only [List.getLast?_singleton, true_and] at hcrlf
      simp only [List.cons_append, List.nil_append]
      rw [splitLines_cr b hcrlf]; simp [splitLines]
    | cons c r =>
      have hc : c ≠ 10 := by intro h; exact hnot r (by rw [h])
      simp only [List.getLast?_cons_cons] at hend hcrlf
      simp only [List.cons_append]
      rw [splitLines_cr (c :: (r ++ b)) (by simpa using hc)]
      rw [← List.cons_append, ih hend hcrlf]
  · -- other byte, splitLines rest = []
    rename_i bb rest _ _ _ hnil ih
    have h1 : bb ≠ 10 := by assumption
    have h2 : bb ≠ 13 := by assumption
    rw [splitLines_eq_nil] at hnil
    subst hnil
    simp [isNl] at hend
    omega
  · rename_i bb rest _ _ _ l ls hsp ih
    have h1 : bb ≠ 10 := by assumption
    have h2 : bb ≠ 13 := by assumption
    have hne : rest ≠ [] := by intro h; subst h; simp [splitLines] at hsp
    cases rest with
    | nil => exact absurd rfl hne
    | cons c r =>
      simp only [List.getLast?_cons_cons] at hend hcrlf
      simp only [List.cons_append]
      rw [splitLines_other bb _ h1 h2]
      rw [← List.cons_append, ih hend hcrlf, hsp]
      simp

/-- a run of non-break bytes followed by at most one terminator is a single line -/
theorem splitLines_single (body term : List Nat) (hb : ∀ x ∈ body, isNl x = false)
    (ht : term = [] ∨ term = [10] ∨ term = [13] ∨ term = [13, 10]) (hne : body ++ term ≠ []) :
    splitLines (body ++ term) = [body ++ term] := by
  induction body with
  | nil =>
    rcases ht with rfl | rfl | rfl | rfl <;> simp_all [splitLines]
  | cons x xs ih =>
    have hx : isNl x = false := hb x (by simp)
    simp [isNl] at hx
    have hxs : ∀ y ∈ xs, isNl y = false := fun y hy => hb y (by simp [hy])
    simp only [List.cons_append]
    rw [splitLines_other x _ hx.1 hx.2]
    by_cases hnil : xs ++ term = []
    · rw [hnil]; simp [splitLines]
    · rw [ih hxs hnil]

theorem trim_decomp (t : List Nat) :
    ∃ term, t = trimTrailing t ++ term ∧
      ((term = [] ∧ ∀ c, t.getLast? = some c → isNl c = false) ∨
       (term = [10] ∧ (trimTrailing t).getLast? ≠ some 13) ∨ term = [13] ∨ term = [13, 10]) := by
  have hrev : t = t.reverse.reverse := by simp
  unfold trimTrailing
  split
  · next r h =>
    refine ⟨[13, 10], ?_, by simp⟩
    rw [hrev, h]; simp
  · next r h hno =>
    refine ⟨[10], ?_, Or.inr (Or.inl ⟨rfl, ?_⟩)⟩
    · rw [hrev, hno]; simp
    · intro hl
      rw [List.getLast?_reverse] at hl
      cases r with
      | nil => simp at hl
      | cons c r' => simp at hl; subst hl; exact h r' rfl
  · next r h =>
    refine ⟨[13], ?_, by simp⟩
    rw [hrev, h]; simp
  · next h1 h2 h3 =>
    refine ⟨[], by simp, Or.inl ⟨rfl, ?_⟩⟩
    intro c hc
    rw [List.getLast?_eq_head?_reverse] at hc
    cases hr : t.reverse with
    | nil => rw [hr] at hc; simp at hc
    | cons d r =>
      rw [hr] at hc; simp at hc; subst hc
      simp only [isNl, Bool.or_eq_false_iff, decide_eq_false_iff_not]
      constructor
      · intro h10; subst h10
        cases r with
        | nil => exact h2 [] hr
        | cons e r' =>
          by_cases he : e = 13
          · subst he; exact h1 r' hr
          · exact h2 (e :: r') hr
      · intro h13; subst h13; exact h3 r hr

theorem rfind_decomp_rev (r : List Nat) :
    (rfindNewline r.reverse = none ∧ ∀ x ∈ r, isNl x = false) ∨
    (∃ a c body, r.reverse = a ++ c :: body ∧ isNl c = true ∧ (∀ x ∈ body, isNl x = false) ∧
      rfindNewline r.reverse = some a.length) := by
  induction r with
  | nil => left; simp [rfindNewline]
  | cons x r ih =>
    unfold rfindNewline
    rw [List.reverse_reverse, List.findIdx?_cons]
    by_cases hx : isNl x = true
    · right
      refine ⟨r.reverse, x, [], by simp, hx, by simp, ?_⟩
      have : (decide (x = 10 ∨ x = 13)) = true := by simpa [isNl] using hx
      simp [this]
    · have hx' : isNl x = false := by simpa using hx
      have : (decide (x = 10 ∨ x = 13)) = false := by simpa [isNl] using hx'
      simp only [this, Bool.false_eq_true, ↓reduceIte]
      unfold rfindNewline at ih
      rw [List.reverse_reverse] at ih
      rcases ih with ⟨hn, hall⟩ | ⟨a, c, body, hrr, hc, hbody, hr⟩
      · left
        constructor
        · cases hf : List.findIdx? (fun b => decide (b = 10 ∨ b = 13)) r with
          | none => simp
          | some i => rw [hf] at hn; simp at hn
        · intro y hy
          simp at hy
          rcases hy with rfl | hy
          · exact hx'
          · exact hall y hy
      · right
        refine ⟨a, c, body ++ [x], by simp [hrr], hc, ?_, ?_⟩
        · intro y hy
          simp at hy
          rcases hy with hy | rfl
          · exact hbody y hy
          · exact hx'
        · cases hf : List.findIdx? (fun b => decide (b = 10 ∨ b = 13)) r with
          | none => rw [hf] at hr; simp at hr
          | some i =>
            rw [hf] at hr
            have hl : r.length = a.length + 1 + body.length := by
              have := congrArg List.length hrr
              simp at this; omega
            simp at hr ⊢
            omega

theorem rfind_decomp (h : List Nat) :
    (rfindNewline h = none ∧ ∀ x ∈ h, isNl x = false) ∨
    (∃ a c body, h = a ++ c :: body ∧ isNl c = true ∧ (∀ x ∈ body, isNl x = false) ∧
      rfindNewline h = some a.length) := by
  have := rfind_decomp_rev h.reverse
  simpa using this

theorem binarySearch_true (xs : List Nat) (x i : Nat) (h : binarySearch xs x = (true, i)) :
    xs[i]? = some x := by
  unfold binarySearch at h
  split at h
  · simp at h; obtain ⟨h1, rfl⟩ := h; exact h1
  · simp at h

theorem charCount_ascii (bs : List Nat) (h : ∀ b ∈ bs, b < 128) : charCount bs = bs.length := by
  unfold charCount
  rw [List.countP_eq_length]
  intro b hb
  have := h b hb
  simp [isCont]; omega

theorem sourceLocation_row' (bs : List Nat) (off r c : Nat) (h : sourceLocation bs off = some (r, c)) :
    r = lineIndex bs off := by
  unfold sourceLocation at h
  unfold lineIndex
  simp only at h
  split at h
  · next row hb => simp at h; exact h.1.symm
  · next nextRow hb =>
    split at h
    · cases h
    · split at h
      · cases h
      · split at h
        · simp at h; exact h.1.symm
        · split at h
          · simp at h; exact h.1.symm
          · cases h

/-- the segment whose characters are counted: from the line start (after a BOM on the first line)
    up to the offset -/
def segment (bs : List Nat) (ls off : Nat) : List Nat :=
  let ls' := if ls = 0 ∧ bom.isPrefixOf bs = true ∧ 3 ≤ off then 3 else ls
  (bs.drop ls').take (off - ls')

theorem sourceLocation_column' (bs : List Nat) (off r c : Nat) (hoff : off ≤ bs.length)
    (h : sourceLocation bs off = some (r, c)) :
    ∃ ls, (lineStarts bs)[r]? = some ls ∧ c = charCount (segment bs ls off) := by
  unfold sourceLocation at h
  simp only at h
  split at h
  · next row hb =>
    simp at h; obtain ⟨rfl, rfl⟩ := h
    refine ⟨off, binarySearch_true _ _ _ hb, ?_⟩
    unfold segment
    simp only
    split
    · next hc => omega
    · simp [charCount]
  · next nextRow hb =>
    split at h
    · cases h
    · split at h
      · cases h
      · next ls hls =>
        split at h
        · next hascii =>
          simp at h; obtain ⟨rfl, rfl⟩ := h
          refine ⟨ls, hls, ?_⟩
          have hall : ∀ b ∈ bs, b < 128 := by
            simpa [isAsciiText] using hascii
          have hnb : bom.isPrefixOf bs = false := by
            cases bs with
            | nil => simp [bom]
            | cons b rest =>
              have := hall b (by simp)
              simp [bom, List.isPrefixOf]
              intro hb'; omega
          unfold segment
          simp only [hnb, Bool.false_eq_true, false_and, and_false, ↓reduceIte]
          rw [charCount_ascii]
          · simp; omega
          · intro b hb'
            exact hall b (List.mem_of_mem_drop (List.mem_of_mem_take hb'))
        · split at h
          · next s hs =>
            simp at h; obtain ⟨rfl, rfl⟩ := h
            refine ⟨ls, hls, ?_⟩
            unfold segment
            by_cases hb0 : ls = 0 ∧ bom.isPrefixOf bs = true
            · simp only [hb0, and_self, ↓reduceIte] at hs
              simp only [sliceChecked] at hs
              split at hs
              · next hcond =>
                injection hs with hs; subst hs
                have : 3 ≤ off := hcond.1
                simp [this, hb0.1, hb0.2]
              · cases hs
            · simp only [hb0, ↓reduceIte] at hs
              simp only [sliceChecked] at hs
              split at hs
              · next hcond =>
                injection hs with hs; subst hs
                have : ¬ (ls = 0 ∧ bom.isPrefixOf bs = true ∧ 3 ≤ off) := by
                  intro hh; exact hb0 ⟨hh.1, hh.2.1⟩
                simp only [this, ↓reduceIte]
              · cases hs
          · cases h

theorem next_empty (it : Iter) (h : it.text = []) : it.next = (none, it) := by
  simp [Iter.next, h]

theorem next_spec_aux (it : Iter) (hne : it.text ≠ []) :
    ∃ l rest, splitLines it.text = l :: rest ∧ splitLines rest.flatten = rest ∧
      it.next.1 = some ⟨l, it.offset⟩ ∧ it.next.2.text = rest.flatten ∧
      (rest ≠ [] → it.next.2.offset = it.offset + l.length) ∧
      it.next.2.offsetBack = it.offsetBack := by
  unfold Iter.next
  have hemp : it.text.isEmpty = false := by simpa using hne
  simp only [hemp, Bool.false_eq_true, ↓reduceIte]
  cases hf : findNewline it.text with
  | none =>
    refine ⟨it.text, [], findNewline_none _ hne hf, ?_⟩
    simp [splitLines]
  | some pl =>
    obtain ⟨p, l⟩ := pl
    have := findNewline_some _ p l hf
    refine ⟨_, _, this, ?_⟩
    simp [splitLines_flatten_aux]

theorem nextBack_empty (it : Iter) (h : it.text = []) : it.nextBack = (none, it) := by
  simp [Iter.nextBack, h]

theorem nextBack_spec_aux (it : Iter) (hne : it.text ≠ []) :
    ∃ init l, splitLines it.text = init ++ [l] ∧ splitLines init.flatten = init ∧
      it.nextBack.1 = some ⟨l, it.offsetBack - l.length⟩ ∧ it.nextBack.2.text = init.flatten ∧
      it.nextBack.2.offset = it.offset ∧
      (init ≠ [] → it.nextBack.2.offsetBack = it.offsetBack - l.length) := by
  unfold Iter.nextBack
  have hemp : it.text.isEmpty = false := by simpa using hne
  simp only [hemp, Bool.false_eq_true, ↓reduceIte]
  obtain ⟨term, ht, hterm⟩ := trim_decomp it.text
  have hforms : term = [] ∨ term = [10] ∨ term = [13] ∨ term = [13, 10] := by
    rcases hterm with ⟨h, _⟩ | ⟨h, _⟩ | h | h <;> simp [h]
  rcases rfind_decomp (trimTrailing it.text) with ⟨hnone, hall⟩ | ⟨a, c, body, hdec, hc, hbody, hsome⟩
  · -- the whole remaining text is one line
    rw [hnone]
    refine ⟨[], it.text, ?_, by simp [splitLines]⟩
    have := splitLines_single _ _ hall hforms (by rw [← ht]; exact hne)
    rw [← ht] at this
    simpa using this
  · rw [hsome]
    have htext : it.text = (a ++ [c]) ++ (body ++ term) := by
      rw [ht, hdec]; simp
    have htake : it.text.take (a.length + 1) = a ++ [c] := by
      have hl : a.length + 1 = (a ++ [c]).length := by simp
      rw [htext, hl, List.take_left']
      rfl
    have hdrop : it.text.drop (a.length + 1) = body ++ term := by
      have hl : a.length + 1 = (a ++ [c]).length := by simp
      rw [htext, hl, List.drop_left']
      rfl
    have hne2 : body ++ term ≠ [] := by
      intro h
      simp at h
      obtain ⟨rfl, rfl⟩ := h
      rcases hterm with ⟨_, hl⟩ | ⟨h, _⟩ | h | h
      · have := hl c (by rw [htext]; simp)
        rw [hc] at this; cases this
      · cases h
      · cases h
      · cases h
    have hsplit : splitLines it.text = splitLines (a ++ [c]) ++ [body ++ term] := by
      rw [htext, splitLines_append, splitLines_single _ _ hbody hforms hne2]
      · exact ⟨c, by simp, hc⟩
      · intro ⟨h13, h10⟩
        simp at h13
        subst h13
        cases body with
        | cons x xs =>
          simp at h10
          have := hbody x (by simp)
          rw [h10] at this; simp [isNl] at this
        | nil =>
          simp at h10
          rcases hterm with ⟨h, _⟩ | ⟨h, hl⟩ | h | h
          · rw [h] at h10; simp at h10
          · apply hl; rw [hdec]; simp
          · rw [h] at h10; simp at h10
          · rw [h] at h10; simp at h10
    refine ⟨splitLines (a ++ [c]), body ++ term, hsplit, ?_⟩
    simp [htake, hdrop, splitLines_flatten_aux]

def Line.toPair (l : Line) : List Nat × Nat := (l.text, l.offset)

def InvIter (it : Iter) (lines : List (List Nat)) (o : Nat) : Prop :=
  splitLines it.text = lines ∧ (lines ≠ [] → it.offset = o ∧ it.offsetBack = o + it.text.length)

theorem run_deque (ops : List Bool) (it : Iter) (lines : List (List Nat)) (o : Nat)
    (hinv : InvIter it lines o) :
    (it.run ops).map (fun p => (p.1, p.2.map Line.toPair)) = runDeque lines o ops := by
  induction ops generalizing it lines o with
  | nil => simp [Iter.run, runDeque]
  | cons op ops ih =>
    obtain ⟨hsp, hoff⟩ := hinv
    cases lines with
    | nil =>
      have htext : it.text = [] := (splitLines_eq_nil _).mp hsp
      have hn := next_empty it htext
      have hb := nextBack_empty it htext
      unfold Iter.run
      cases op
      · simp only [Bool.false_eq_true, ↓reduceIte, hb, List.map_cons, Option.map_none, runDeque]
        rw [ih it [] o ⟨hsp, by simp⟩]
      · simp only [↓reduceIte, hn, List.map_cons, Option.map_none, runDeque]
        rw [ih it [] o ⟨hsp, by simp⟩]
    | cons l ls =>
      have hne : it.text ≠ [] := by
        intro h; rw [h] at hsp; simp [splitLines] at hsp
      obtain ⟨ho, hob⟩ := hoff (by simp)
      have hflat : it.text = (l :: ls).flatten := by rw [← hsp, splitLines_flatten_aux]
      unfold Iter.run
      cases op
      · -- next_back
        obtain ⟨init, last, h1, h2, h3, h4, h5, h6⟩ := nextBack_spec_aux it hne
        rw [hsp] at h1
        have hlen : it.text.length = init.flatten.length + last.length := by
          rw [hflat, h1]; simp
        simp only [Bool.false_eq_true, ↓reduceIte, List.map_cons, runDeque]
        have hlast : (l :: ls).getLast?.getD [] = last := by rw [h1]; simp
        have hdl : (l :: ls).dropLast = init := by rw [h1]; simp
        rw [hlast, hdl, h3]
        congr 1
        · have hh : it.offsetBack - last.length = o + init.flatten.length := by omega
          simp only [Line.toPair, Option.map_some, hh]
        · apply ih
          refine ⟨by rw [h4, h2], ?_⟩
          intro hi
          refine ⟨by rw [h5, ho], ?_⟩
          rw [h6 hi, h4]; omega
      · -- next
        obtain ⟨l', rest, h1, h2, h3, h4, h5, h6⟩ := next_spec_aux it hne
        rw [hsp] at h1
        simp at h1; obtain ⟨rfl, rfl⟩ := h1
        simp only [↓reduceIte, List.map_cons, runDeque]
        rw [h3]
        congr 1
        · simp [Line.toPair, ho]
        · apply ih
          refine ⟨by rw [h4, h2], ?_⟩
          intro hi
          refine ⟨by rw [h5 hi, ho], ?_⟩
          rw [h6, h4, hob, hflat]; simp; omega

theorem asStr_spec' (body term : List Nat) (o : Nat) (hb : ∀ x ∈ body, isNl x = false)
    (ht : term = [] ∨ term = [10] ∨ term = [13] ∨ term = [13, 10]) :
    Line.asStr ⟨body ++ term, o⟩ = body := by
  have hlast : ∀ r x, body.reverse = x :: r → x ≠ 10 ∧ x ≠ 13 := by
    intro r x h
    have : x ∈ body := by
      have : x ∈ body.reverse := by rw [h]; simp
      simpa using this
    have := hb x this
    simpa [isNl] using this
  unfold Line.asStr
  rcases ht with rfl | rfl | rfl | rfl
  · simp only [List.append_nil]
    split
    · next r h => exact absurd rfl (hlast _ _ h).1
    · next r _ h => exact absurd rfl (hlast _ _ h).1
    · next r h => exact absurd rfl (hlast _ _ h).2
    · rfl
  · simp only [List.reverse_append, List.reverse_cons, List.reverse_nil, List.nil_append, List.singleton_append]
    split
    · next r h =>
      have h' : body.reverse = 13 :: r := by simpa using h
      exact absurd rfl (hlast _ _ h').2
    · next r _ h => simp
    · next r h => simp at h
    · next h1 h2 h3 => exact absurd rfl (h2 _)
  · simp only [List.reverse_append, List.reverse_cons, List.reverse_nil, List.nil_append, List.singleton_append]
    simp
  · simp only [List.reverse_append, List.reverse_cons, List.reverse_nil, List.nil_append, List.cons_append]
    simp

/-! ## lemmas for the public helpers added in the coverage round (TextSize sums, slicing, line queries, LineEnding) -/

theorem sumGo_spec (acc : Nat) (xs : List Nat) (hacc : acc ≤ u32Max) :
    Size.sumGo acc xs = if acc + xs.sum ≤ u32Max then some (acc + xs.sum) else none := by
  induction xs generalizing acc with
  | nil => simp [Size.sumGo, hacc]
  | cons x xs ih =>
    rw [List.sum_cons, ← Nat.add_assoc]
    simp only [Size.sumGo, Size.add]
    by_cases h : acc + x ≤ u32Max
    · simp only [h, ↓reduceIte]
      rw [ih _ h]
    · simp only [h, ↓reduceIte]
      rw [if_neg (by omega)]

theorem sliceChecked_some (bs : List Nat) (a b : Nat) (s : List Nat) (h : sliceChecked bs a b = some s) :
    a ≤ b ∧ b ≤ bs.length ∧ isBoundary bs a = true ∧ isBoundary bs b = true ∧
      s = (bs.drop a).take (b - a) := by
  unfold sliceChecked at h
  split at h
  · next hc => cases h; exact ⟨hc.1, hc.2.1, hc.2.2.1, hc.2.2.2, rfl⟩
  · cases h

theorem slice_getElem (bs : List Nat) (a b x : Nat) (hx : a ≤ x ∧ x < b) :
    ((bs.drop a).take (b - a))[x - a]? = bs[x]? := by
  rw [List.getElem?_take]
  rw [if_pos (by omega)]
  rw [List.getElem?_drop]
  congr 1; omega

/-- every reference line is a run of non-break bytes followed by at most one terminator -/
theorem splitLines_form (t : List Nat) : ∀ l ∈ splitLines t,
    ∃ body term, l = body ++ term ∧ (∀ x ∈ body, isNl x = false) ∧
      (term = [] ∨ term = [10] ∨ term = [13] ∨ term = [13, 10]) ∧ l ≠ [] := by
  fun_induction splitLines t
  · simp
  · rename_i rest ih
    intro l hl
    simp only [List.mem_cons] at hl
    rcases hl with rfl | hl
    · exact ⟨[], [10], by simp, by simp, by simp, by simp⟩
    · exact ih l hl
  · rename_i rest ih
    intro l hl
    simp only [List.mem_cons] at hl
    rcases hl with rfl | hl
    · exact ⟨[], [13, 10], by simp, by simp, by simp, by simp⟩
    · exact ih l hl
  · rename_i rest hnot ih
    intro l hl
    simp only [List.mem_cons] at hl
    rcases hl with rfl | hl
    · exact ⟨[], [13], by simp, by simp, by simp, by simp⟩
    · exact ih l hl
  · rename_i bb rest h1 h2 h3 hnil ih
    intro l hl
    simp only [List.mem_singleton] at hl
    subst hl
    refine ⟨[bb], [], by simp, ?_, by simp, by simp⟩
    intro x hx
    simp only [List.mem_singleton] at hx
    subst hx
    have e1 : x ≠ 10 := h1
    have e2 : x ≠ 13 := h3
    simp [isNl, e1, e2]
  · rename_i bb rest h1 h2 h3 l0 ls hsp ih
    intro l hl
    have e1 : bb ≠ 10 := by assumption
    have e2 : bb ≠ 13 := by assumption
    simp only [List.mem_cons] at hl
    rcases hl with rfl | hl
    · obtain ⟨body, term, hbt, hb, ht, _⟩ := ih l0 (by rw [hsp]; simp)
      refine ⟨bb :: body, term, by simp [hbt], ?_, ht, by simp⟩
      intro x hx
      simp only [List.mem_cons] at hx
      rcases hx with rfl | hx
      · simp [isNl, e1, e2]
      · exact hb x hx
    · exact ih l (by rw [hsp]; simp [hl])

theorem collectGo_run (fuel : Nat) (it : Iter) (lines : List (List Nat)) (o : Nat)
    (hinv : InvIter it lines o) (hf : lines.length < fuel) :
    (Iter.collect.go fuel it).map Line.toPair = List.zip lines (startsFrom o lines) := by
  induction fuel generalizing it lines o with
  | zero => omega
  | succ fuel ih =>
    obtain ⟨hsp, hoff⟩ := hinv
    cases lines with
    | nil =>
      have htext : it.text = [] := (splitLines_eq_nil _).mp hsp
      simp [Iter.collect.go, next_empty it htext, startsFrom]
    | cons l ls =>
      have hne : it.text ≠ [] := by
        intro h; rw [h] at hsp; simp [splitLines] at hsp
      obtain ⟨ho, hob⟩ := hoff (by simp)
      have hflat : it.text = (l :: ls).flatten := by rw [← hsp, splitLines_flatten_aux]
      obtain ⟨l', rest, h1, h2, h3, h4, h5, h6⟩ := next_spec_aux it hne
      rw [hsp] at h1
      simp at h1; obtain ⟨rfl, rfl⟩ := h1
      have hn : it.next = (some ⟨l, it.offset⟩, it.next.2) := by
        rw [← h3]
      unfold Iter.collect.go
      rw [hn]
      simp only [List.map_cons, startsFrom, List.zip_cons_cons]
      congr 1
      · simp [Line.toPair, ho]
      · apply ih
        · refine ⟨by rw [h4, h2], ?_⟩
          intro hi
          refine ⟨by rw [h5 hi, ho], ?_⟩
          rw [h6, h4, hob, hflat]; simp; omega
        · simp at hf; omega

theorem splitLines_length_le (t : List Nat) : (splitLines t).length ≤ t.length := by
  fun_induction splitLines t <;> simp_all <;> omega

theorem findNewlineE_len (t : List Nat) :
    findNewline t = (findNewlineE t).map (fun pe => (pe.1, pe.2.len)) := by
  induction t with
  | nil => simp [findNewline, findNewlineE]
  | cons b rest ih =>
    simp only [findNewline, findNewlineE]
    split
    · simp [LineEnding.len]
    · split
      · split <;> simp [LineEnding.len]
      · rw [ih]; cases findNewlineE rest <;> simp

theorem trailingGo_eq (fuel : Nat) (it : Iter) : trailingLines.go fuel it = Iter.collect.go fuel it := by
  induction fuel generalizing it with
  | zero => simp [trailingLines.go, Iter.collect.go]
  | succ f ih =>
    unfold trailingLines.go Iter.collect.go
    split <;> simp_all

end PV.C15
