/-
  C15 — reference definitions, written from the property text, not from the Rust control flow.
  A text is a list of UTF-8 bytes; a line break is LF, CR, or the pair CR LF (counted once).
-/
namespace PV.C15.Spec

/-- The lines of a text, each with its terminator; concatenating them gives the text back.
    `"a\n"` has the single line `"a\n"`; the empty text has no line. -/
def splitLines : List Nat → List (List Nat)
  | [] => []
  | 10 :: rest => [10] :: splitLines rest
  | 13 :: 10 :: rest => [13, 10] :: splitLines rest
  | 13 :: rest => [13] :: splitLines rest
  | b :: rest =>
    match splitLines rest with
    | [] => [[b]]
    | l :: ls => (b :: l) :: ls

/-- Number of line breaks (CR LF counted once). -/
def breaks : List Nat → Nat
  | [] => 0
  | 10 :: rest => 1 + breaks rest
  | 13 :: 10 :: rest => 1 + breaks rest
  | 13 :: rest => 1 + breaks rest
  | _ :: rest => breaks rest

/-- running start offsets of consecutive pieces -/
def startsFrom : Nat → List (List Nat) → List Nat
  | _, [] => []
  | o, l :: ls => o :: startsFrom (o + l.length) ls

def endsWithBreak (bs : List Nat) : Bool :=
  match bs.getLast? with
  | some b => b = 10 || b = 13
  | none => false

/-- The lines a *line index* distinguishes: the last line is the (possibly empty) text after the
    last break, so there are always `breaks + 1` of them. -/
def indexLines (bs : List Nat) : List (List Nat) :=
  if bs.isEmpty || endsWithBreak bs then splitLines bs ++ [[]] else splitLines bs

/-- A range read as the set of offsets it spans. -/
def mem (s e x : Nat) : Prop := s ≤ x ∧ x < e

end PV.C15.Spec
