/-
  C15 — reference definitions, written from the property text, not from the Rust control flow.
  A text is a list of UTF-8 bytes; a line break is LF, CR, or the pair CR LF (counted once).
-/
namespace PV.C15.Spec

/-- The lines of a text, each with its terminator; concatenating them gives the text back.
    `"a\n"` has the single line `"a\n"`; the empty text has no line. -/
def splitLines : List Nat → List (List Nat)
  | [] => []
  | 10 :: rest => [10] :: splitLines rest
  | 13 :: 10 :: rest => [13, 10] :: splitLines rest
  | 13 :: rest => [13] :: splitLines rest
  | b :: rest =>
    match splitLines rest with
    | [] => [[b]]
    | l :: ls => (b :: l) :: ls

/-- Number of line breaks (CR LF counted once). -/
def breaks : List Nat → Nat
  | [] => 0
  | 10 :: rest => 1 + breaks rest
  | 13 :: 10 :: rest => 1 + breaks rest
  | 13 :: rest => 1 + breaks rest
  | _ :: rest => breaks rest

/-- running start offsets of consecutive pieces -/
def startsFrom : Nat → List (List Nat) → List Nat
  | _, [] => []
  | o, l :: ls => o :: startsFrom (o + l.length) ls

/-- The lines a *line index* distinguishes: like `splitLines`, but the text after the last break is
    always a line of its own (possibly empty), so there are always `breaks + 1` of them. -/
def indexLines : List Nat → List (List Nat)
  | [] => [[]]
  | 10 :: rest => [10] :: indexLines rest
  | 13 :: 10 :: rest => [13, 10] :: indexLines rest
  | 13 :: rest => [13] :: indexLines rest
  | b :: rest =>
    match indexLines rest with
    | [] => [[b]]          -- unreachable: `indexLines` is never empty
    | l :: ls => (b :: l) :: ls

/-- zero-based row of an offset, given the line starts: the last line starting at or before it -/
def rowOf (starts : List Nat) (off : Nat) : Nat := starts.countP (· ≤ off) - 1

/-- The newline iterator read as a double-ended queue over the reference lines:
    `true` pops the first remaining line, `false` the last; offsets are those of the lines in the
    original text (which starts at offset `o`). -/
def runDeque : List (List Nat) → Nat → List Bool → List (Bool × Option (List Nat × Nat))
  | _, _, [] => []
  | [], o, op :: ops => (op, none) :: runDeque [] o ops
  | l :: ls, o, true :: ops => (true, some (l, o)) :: runDeque ls (o + l.length) ops
  | l :: ls, o, false :: ops =>
    let all := l :: ls
    let last := all.getLast?.getD []
    (false, some (last, o + all.dropLast.flatten.length)) :: runDeque all.dropLast o ops

/-- A range read as the set of offsets it spans. -/
def mem (s e x : Nat) : Prop := s ≤ x ∧ x < e

end PV.C15.Spec
