/-
  C15 — executable model of the position primitives in
    vendored/src/source_location/line_index.rs   (LineIndex)
    vendored/src/source_location/newlines.rs     (UniversalNewlineIterator, Line,
                                                  NewlineWithTrailingNewline)
    vendored/src/text_size/range.rs, size.rs     (TextRange / TextSize arithmetic)

  Text is its UTF-8 byte list (`List Nat`, every element < 256), because every
  one of these Rust functions works on `as_bytes()` and only counts characters
  through `chars().count()`, which on valid UTF-8 is the number of
  non-continuation bytes.

  Every Rust panic (`assert!`, slice out of range / off a char boundary,
  `expect`) is `none` here.  Core Lean only.
-/
namespace PV.C15

/-! ## bytes and characters -/

/-- `b` is a UTF-8 continuation byte (`0b10xx_xxxx`). -/
def isCont (b : Nat) : Bool := 128 ≤ b && b < 192

/-- `str::is_char_boundary(i)` on valid UTF-8: `i = 0`, `i = len`, or the byte at `i` is not a
    continuation byte. -/
def isBoundary (bs : List Nat) (i : Nat) : Bool :=
  if i = 0 then true
  else if i = bs.length then true
  else match bs[i]? with
    | some b => !isCont b
    | none => false

/-- `s.chars().count()` for valid UTF-8. -/
def charCount (bs : List Nat) : Nat := bs.countP (fun b => !isCont b)

def u32Max : Nat := 4294967295

/-! ## LineIndex -/

/-- Body of the `for (i, byte) in bytes.iter().enumerate()` loop of
    `LineIndex::from_source_text`; `i` is the index of the head of the list. -/
def lineStartsGo : Nat → List Nat → List Nat
  | _, [] => []
  | i, b :: rest =>
    if b = 13 ∧ rest.head? = some 10 then lineStartsGo (i + 1) rest      -- `\r` before `\n`: continue
    else if b = 10 ∨ b = 13 then (i + 1) :: lineStartsGo (i + 1) rest
    else lineStartsGo (i + 1) rest

/-- `LineIndex::from_source_text(text).line_starts()` -/
def lineStarts (bs : List Nat) : List Nat := 0 :: lineStartsGo 0 bs

/-- `IndexKind`: `true` = Ascii. -/
def isAsciiText (bs : List Nat) : Bool := bs.all (fun b => b < 128)

/-- Contract of `[T]::binary_search` on a strictly increasing slice:
    `Ok i` when `xs[i] = x`, otherwise `Err` of the insertion point
    (the number of elements `< x`).  Encoded as `(found, index)`. -/
def binarySearch (xs : List Nat) (x : Nat) : Bool × Nat :=
  match xs.findIdx? (fun y => x ≤ y) with
  | some i => (xs[i]? == some x, i)
  | none => (false, xs.length)

def bom : List Nat := [0xEF, 0xBB, 0xBF]

/-- `&content[TextRange::new(a, b)]`: panics when `a > b` (the `assert!` in `TextRange::new`),
    out of range or off a char boundary. -/
def sliceChecked (bs : List Nat) (a b : Nat) : Option (List Nat) :=
  if a ≤ b ∧ b ≤ bs.length ∧ isBoundary bs a ∧ isBoundary bs b then
    some ((bs.drop a).take (b - a))
  else none

/-- `LineIndex::source_location(offset, content)` → zero-indexed (row, column).
    The Rust doc says it panics when the offset is out of bounds; in fact an offset past the end is
    only rejected on the non-ASCII path (by the slice).  The model keeps that. -/
def sourceLocation (bs : List Nat) (offset : Nat) : Option (Nat × Nat) :=
  let starts := lineStarts bs
  match binarySearch starts offset with
  | (true, row) => some (row, 0)
  | (false, nextRow) =>
    if nextRow = 0 then none else          -- `next_row - 1` (cannot happen: starts[0] = 0)
    let row := nextRow - 1
    match starts[row]? with
    | none => none
    | some lineStart =>
      if isAsciiText bs then some (row, offset - lineStart)
      else
        let lineStart := if lineStart = 0 ∧ bom.isPrefixOf bs then 3 else lineStart
        match sliceChecked bs lineStart offset with
        | some s => some (row, charCount s)
        | none => none

/-- `LineIndex::line_index(offset)` → zero-indexed row. -/
def lineIndex (bs : List Nat) (offset : Nat) : Nat :=
  match binarySearch (lineStarts bs) offset with
  | (true, row) => row
  | (false, row) => row - 1

/-- `line_start(line)`, `line` given zero-indexed (`OneIndexed::to_zero_indexed_usize`).
    Indexing past the table panics. -/
def lineStart (bs : List Nat) (row : Nat) : Option Nat :=
  let starts := lineStarts bs
  if row = starts.length then some bs.length else starts[row]?

/-- `line_end(line)` -/
def lineEnd (bs : List Nat) (row : Nat) : Option Nat :=
  let starts := lineStarts bs
  if row + 1 ≥ starts.length then some bs.length else starts[row + 1]?

/-- `line_range(line)` → (start, end) -/
def lineRange (bs : List Nat) (row : Nat) : Option (Nat × Nat) :=
  let starts := lineStarts bs
  if starts.length = row then some (bs.length, bs.length)
  else
    match lineStart bs row, lineStart bs (row + 1) with      -- `line.saturating_add(1)`
    | some a, some b => if a ≤ b then some (a, b) else none
    | _, _ => none

/-- `SourceCode::line_text(line)` -/
def lineText (bs : List Nat) (row : Nat) : Option (List Nat) :=
  match lineRange bs row with
  | some (a, b) => sliceChecked bs a b
  | none => none

def lineCount (bs : List Nat) : Nat := (lineStarts bs).length

/-! ## UniversalNewlineIterator -/

/-- `find_newline`: position of the first `\n`/`\r` and the length of the line ending there. -/
def findNewline : List Nat → Option (Nat × Nat)
  | [] => none
  | b :: rest =>
    if b = 10 then some (0, 1)
    else if b = 13 then (if rest.head? = some 10 then some (0, 2) else some (0, 1))
    else match findNewline rest with
      | some (p, l) => some (p + 1, l)
      | none => none

/-- `memrchr2(b'\n', b'\r', haystack)` -/
def rfindNewline (bs : List Nat) : Option Nat :=
  match bs.reverse.findIdx? (fun b => b = 10 ∨ b = 13) with
  | some i => some (bs.length - 1 - i)
  | none => none

structure Line where
  text : List Nat
  offset : Nat
deriving Repr, DecidableEq

structure Iter where
  text : List Nat
  offset : Nat
  offsetBack : Nat
deriving Repr, DecidableEq

/-- `UniversalNewlineIterator::with_offset` (`offset + text.text_len()` must fit `u32`). -/
def Iter.withOffset (text : List Nat) (offset : Nat) : Iter :=
  { text, offset, offsetBack := offset + text.length }

/-- `Iterator::next` -/
def Iter.next (it : Iter) : Option Line × Iter :=
  if it.text.isEmpty then (none, it)
  else match findNewline it.text with
    | some (p, l) =>
      let text := it.text.take (p + l)
      (some { text, offset := it.offset },
       { it with text := it.text.drop (p + l), offset := it.offset + text.length })
    | none =>
      (some { text := it.text, offset := it.offset }, { it with text := [] })

/-- haystack of `next_back`: the text with one trailing line ending trimmed
    (`match bytes[len - 1] { b'\n' if len > 1 && bytes[len - 2] == b'\r' => ..len - 2, b'\n' | b'\r' => ..len - 1, _ => text }`,
    written on the reversed byte list). -/
def trimTrailing (t : List Nat) : List Nat :=
  match t.reverse with
  | 10 :: 13 :: r => r.reverse
  | 10 :: r => r.reverse
  | 13 :: r => r.reverse
  | _ => t

/-- `DoubleEndedIterator::next_back` -/
def Iter.nextBack (it : Iter) : Option Line × Iter :=
  if it.text.isEmpty then (none, it)
  else
    match rfindNewline (trimTrailing it.text) with
    | some lineEnd =>
      let line := it.text.drop (lineEnd + 1)
      let ob := it.offsetBack - line.length
      (some { text := line, offset := ob },
       { it with text := it.text.take (lineEnd + 1), offsetBack := ob })
    | none =>
      (some { text := it.text, offset := it.offsetBack - it.text.length }, { it with text := [] })

/-- `Line::as_str`: the text without its line ending. -/
def Line.asStr (l : Line) : List Nat :=
  match l.text.reverse with
  | 10 :: 13 :: _ => l.text.take (l.text.length - 2)
  | 10 :: _ => l.text.take (l.text.length - 1)
  | 13 :: _ => l.text.take (l.text.length - 1)
  | _ => l.text

/-- Drive the iterator with a list of operations (`true` = `next`, `false` = `next_back`). -/
def Iter.run : Iter → List Bool → List (Bool × Option Line)
  | _, [] => []
  | it, op :: ops =>
    let (r, it') := if op then it.next else it.nextBack
    (op, r) :: Iter.run it' ops

/-- `NewlineWithTrailingNewline::from(input)` collected to the end. -/
def trailingLines (t : List Nat) (offset : Nat) : List Line :=
  let rec go (fuel : Nat) (it : Iter) : List Line :=
    match fuel with
    | 0 => []
    | fuel + 1 =>
      match it.next with
      | (some l, it') => l :: go fuel it'
      | (none, _) => []
  let main := go (t.length + 1) (Iter.withOffset t offset)
  match t.getLast? with
  | some b => if b = 10 ∨ b = 13 then main ++ [{ text := [], offset := offset + t.length }] else main
  | none => main

/-! ## TextRange / TextSize (u32) -/

structure Range where
  start : Nat
  stop : Nat
deriving Repr, DecidableEq

/-- `TextRange::new` (asserts `start <= end`). -/
def Range.new? (s e : Nat) : Option Range := if s ≤ e then some ⟨s, e⟩ else none

/-- `TextRange::at(offset, len)`: `offset + len` in `u32` (debug builds panic on overflow;
    the harness is built with overflow checks). -/
def Range.at? (o l : Nat) : Option Range := if o + l ≤ u32Max then some ⟨o, o + l⟩ else none

def Range.empty (o : Nat) : Range := ⟨o, o⟩
def Range.upTo (e : Nat) : Range := ⟨0, e⟩
def Range.len (r : Range) : Nat := r.stop - r.start
def Range.isEmpty (r : Range) : Bool := r.start == r.stop
def Range.contains (r : Range) (o : Nat) : Bool := r.start ≤ o && o < r.stop
def Range.containsInclusive (r : Range) (o : Nat) : Bool := r.start ≤ o && o ≤ r.stop
def Range.containsRange (r o : Range) : Bool := r.start ≤ o.start && o.stop ≤ r.stop

def Range.intersect (r o : Range) : Option Range :=
  let s := max r.start o.start
  let e := min r.stop o.stop
  if e < s then none else some ⟨s, e⟩

def Range.cover (r o : Range) : Range := ⟨min r.start o.start, max r.stop o.stop⟩
def Range.coverOffset (r : Range) (o : Nat) : Range := r.cover (Range.empty o)

def Range.checkedAdd (r : Range) (o : Nat) : Option Range :=
  if r.start + o ≤ u32Max ∧ r.stop + o ≤ u32Max then some ⟨r.start + o, r.stop + o⟩ else none

def Range.checkedSub (r : Range) (o : Nat) : Option Range :=
  if o ≤ r.start ∧ o ≤ r.stop then some ⟨r.start - o, r.stop - o⟩ else none

/-- `TextRange::ordering`: -1 / 0 / 1 for Less / Equal / Greater -/
def Range.ordering (r o : Range) : Int :=
  if r.stop ≤ o.start then -1 else if o.stop ≤ r.start then 1 else 0

/-- `&text[range]` -/
def Range.index (bs : List Nat) (r : Range) : Option (List Nat) := sliceChecked bs r.start r.stop

/-! ## TextSize (`u32`) arithmetic: `size.rs`, `traits.rs`

The harness is built with overflow checks, so `self.raw + other.raw` / `self.raw - other.raw`
panic (`none`) outside `0..=u32::MAX`.  The `&TextSize` / `&TextRange` operator impls and
`AddAssign`/`SubAssign` forward to the by-value operator (`self $op *other`, `*self = *self + rhs`);
the driver answers each of those variants with the same value. -/

/-- `TextSize + TextSize` -/
def Size.add (a b : Nat) : Option Nat := if a + b ≤ u32Max then some (a + b) else none

/-- `TextSize - TextSize` -/
def Size.sub (a b : Nat) : Option Nat := if b ≤ a then some (a - b) else none

/-- `TextSize::checked_add`: `self.raw.checked_add(rhs.raw)`; `none` is `None`, not a panic. -/
def Size.checkedAdd (a b : Nat) : Option Nat := if a + b ≤ u32Max then some (a + b) else none

/-- `TextSize::checked_sub` -/
def Size.checkedSub (a b : Nat) : Option Nat := if b ≤ a then some (a - b) else none

/-- `TextSize::of(&str)` = `TextLen::text_len` = `len().try_into().unwrap()`: the byte length
    (texts longer than `u32::MAX` are outside every stream and outside `LineIndex::from_source_text`'s
    own assertion). -/
def Size.ofStr (bs : List Nat) : Nat := bs.length

/-- `TextSize::of(char)` = `char::len_utf8` of a scalar value -/
def Size.ofChar (c : Nat) : Nat :=
  if c < 0x80 then 1 else if c < 0x800 then 2 else if c < 0x10000 then 3 else 4

/-- `impl Sum for TextSize`: `iter.fold(0.into(), Add::add)` -/
def Size.sumGo : Nat → List Nat → Option Nat
  | acc, [] => some acc
  | acc, x :: xs =>
    match Size.add acc x with
    | some acc' => Size.sumGo acc' xs
    | none => none

def Size.sum (xs : List Nat) : Option Nat := Size.sumGo 0 xs

/-! ## TextRange: moving one end, operators, bounds, mutable slicing -/

/-- `TextRange::sub_start`: `TextRange::new(self.start() - amount, self.end())` -/
def Range.subStart (r : Range) (k : Nat) : Option Range :=
  match Size.sub r.start k with
  | some s => Range.new? s r.stop
  | none => none

/-- `TextRange::add_start`: `TextRange::new(self.start() + amount, self.end())` -/
def Range.addStart (r : Range) (k : Nat) : Option Range :=
  match Size.add r.start k with
  | some s => Range.new? s r.stop
  | none => none

/-- `TextRange::sub_end`: `TextRange::new(self.start(), self.end() - amount)` -/
def Range.subEnd (r : Range) (k : Nat) : Option Range :=
  match Size.sub r.stop k with
  | some e => Range.new? r.start e
  | none => none

/-- `TextRange::add_end`: `TextRange::new(self.start(), self.end() + amount)` -/
def Range.addEnd (r : Range) (k : Nat) : Option Range :=
  match Size.add r.stop k with
  | some e => Range.new? r.start e
  | none => none

/-- `TextRange + TextSize`: `self.checked_add(offset).expect("TextRange +offset overflowed")` -/
def Range.addOp (r : Range) (k : Nat) : Option Range := r.checkedAdd k

/-- `TextRange - TextSize`: `self.checked_sub(offset).expect("TextRange -offset overflowed")` -/
def Range.subOp (r : Range) (k : Nat) : Option Range := r.checkedSub k

/-- `std::ops::Bound<&TextSize>` -/
inductive Bound where
  | included (x : Nat)
  | excluded (x : Nat)
  | unbounded
deriving Repr, DecidableEq

/-- `RangeBounds::start_bound` -/
def Range.startBound (r : Range) : Bound := .included r.start

/-- `RangeBounds::end_bound` -/
def Range.endBound (r : Range) : Bound := .excluded r.stop

/-- the provided method `RangeBounds::contains` of std, which reads only the two bounds -/
def boundsContain (lo hi : Bound) (x : Nat) : Bool :=
  (match lo with
   | .included s => decide (s ≤ x)
   | .excluded s => decide (s < x)
   | .unbounded => true) &&
  (match hi with
   | .included e => decide (x ≤ e)
   | .excluded e => decide (x < e)
   | .unbounded => true)

def Range.boundsContains (r : Range) (x : Nat) : Bool := boundsContain r.startBound r.endBound x

/-- `u8::to_ascii_uppercase` (what the harness does to the slice it gets from `index_mut`) -/
def asciiUpper (b : Nat) : Nat := if 97 ≤ b ∧ b ≤ 122 then b - 32 else b

/-- `(&mut text[range]).make_ascii_uppercase()` through `IndexMut<TextRange>` (for `str` and for
    `String`: both are `&mut self[Range::<usize>::from(index)]`), then the whole text. -/
def Range.indexMutUpper (bs : List Nat) (r : Range) : Option (List Nat) :=
  match sliceChecked bs r.start r.stop with
  | some s => some (bs.take r.start ++ s.map asciiUpper ++ bs.drop r.stop)
  | none => none

/-! ## SourceCode / SourceFile slicing helpers (`source_location/mod.rs`) -/

/-- `SourceCode::up_to(offset)`: `&self.text[TextRange::up_to(offset)]` -/
def SourceCode.upTo (bs : List Nat) (o : Nat) : Option (List Nat) := (Range.upTo o).index bs

/-- `SourceCode::after(offset)`: `&self.text[usize::from(offset)..]` -/
def SourceCode.after (bs : List Nat) (o : Nat) : Option (List Nat) :=
  if o ≤ bs.length ∧ isBoundary bs o then some (bs.drop o) else none

/-- `SourceCode::slice(range)` / `SourceFile::slice(range)`: `&self.text[range]` -/
def SourceCode.slice (bs : List Nat) (r : Range) : Option (List Nat) := r.index bs

/-! ## Line queries (`newlines.rs`) -/

/-- `Line::start` -/
def Line.start (l : Line) : Nat := l.offset

/-- `Line::full_text_len`: `self.text.text_len()` -/
def Line.fullTextLen (l : Line) : Nat := Size.ofStr l.text

/-- `Line::full_end`: `self.offset + self.full_text_len()` -/
def Line.fullEnd (l : Line) : Option Nat := Size.add l.offset l.fullTextLen

/-- `Line::end`: `self.offset + self.as_str().text_len()` -/
def Line.end' (l : Line) : Option Nat := Size.add l.offset (Size.ofStr l.asStr)

/-- `Line::full_range`: `TextRange::at(self.offset, self.text.text_len())` -/
def Line.fullRange (l : Line) : Option Range := Range.at? l.offset (Size.ofStr l.text)

/-- `Line::range`: `TextRange::new(self.start(), self.end())` -/
def Line.range (l : Line) : Option Range :=
  match l.end' with
  | some e => Range.new? l.start e
  | none => none

/-- `impl PartialEq<&str> for Line` / `impl PartialEq<Line> for &str`: compare `as_str()` -/
def Line.eqStr (l : Line) (s : List Nat) : Bool := l.asStr == s

/-- `UniversalNewlineIterator::with_offset` including its `offset + text.text_len()` overflow panic -/
def Iter.withOffset? (text : List Nat) (offset : Nat) : Option Iter :=
  match Size.add offset (Size.ofStr text) with
  | some _ => some (Iter.withOffset text offset)
  | none => none

/-- `Iterator::last` is overridden: `self.next_back()` -/
def Iter.last (it : Iter) : Option Line := it.nextBack.1

/-- `StrExt::universal_newlines` = `UniversalNewlineIterator::from(self)` = `with_offset(self, 0)` -/
def universalNewlines (t : List Nat) : Iter := Iter.withOffset t 0

/-- `Iterator::collect` through `next` (at most one line per byte) -/
def Iter.collect (it : Iter) : List Line :=
  let rec go (fuel : Nat) (it : Iter) : List Line :=
    match fuel with
    | 0 => []
    | fuel + 1 =>
      match it.next with
      | (some l, it') => l :: go fuel it'
      | (none, _) => []
  go (it.text.length + 1) it

/-- `NewlineWithTrailingNewline::from(input)` = `with_offset(input, TextSize::default())` -/
def trailingLinesFrom (t : List Nat) : List Line := trailingLines t 0

/-- `LineEnding` -/
inductive LineEnding where
  | lf
  | cr
  | crlf
deriving Repr, DecidableEq

/-- `LineEnding::as_str` -/
def LineEnding.asStr : LineEnding → List Nat
  | .lf => [10]
  | .crlf => [13, 10]
  | .cr => [13]

/-- `LineEnding::len` -/
def LineEnding.len : LineEnding → Nat
  | .lf => 1
  | .cr => 1
  | .crlf => 2

/-- `LineEnding::text_len` -/
def LineEnding.textLen : LineEnding → Nat
  | .lf => 1
  | .cr => 1
  | .crlf => 2

/-- `find_newline` with the `LineEnding` it returns (`findNewline` above keeps only its `len()`). -/
def findNewlineE : List Nat → Option (Nat × LineEnding)
  | [] => none
  | b :: rest =>
    if b = 10 then some (0, .lf)
    else if b = 13 then (if rest.head? = some 10 then some (0, .crlf) else some (0, .cr))
    else match findNewlineE rest with
      | some (p, e) => some (p + 1, e)
      | none => none

/-! ## OneIndexed (`NonZeroU32`), represented by its value `get()` -/

/-- `OneIndexed::new` -/
def OneIndexed.new? (v : Nat) : Option Nat := if v = 0 then none else some v

/-- `OneIndexed::from_zero_indexed`: `Self::ONE.saturating_add(value)` -/
def OneIndexed.fromZeroIndexed (v : Nat) : Nat := min (1 + v) u32Max

/-- `OneIndexed::try_from_zero_indexed(value: usize)`: `none` is `Err(value)` -/
def OneIndexed.tryFromZeroIndexed (v : Nat) : Option Nat :=
  if v ≤ u32Max then some (min (1 + v) u32Max) else none

/-- `OneIndexed::to_zero_indexed` (`to_zero_indexed_usize` is the same value as `usize`) -/
def OneIndexed.toZeroIndexed (x : Nat) : Nat := x - 1

/-- `OneIndexed::to_usize` / `get` -/
def OneIndexed.toUsize (x : Nat) : Nat := x

/-- `OneIndexed::saturating_add`: `NonZeroU32::new(self.get().saturating_add(rhs))`, `None => MAX` -/
def OneIndexed.saturatingAdd (x rhs : Nat) : Nat :=
  let v := min (x + rhs) u32Max
  if v = 0 then u32Max else v

/-- `OneIndexed::saturating_sub`: `NonZeroU32::new(self.get().saturating_sub(rhs))`, `None => MIN` -/
def OneIndexed.saturatingSub (x rhs : Nat) : Nat :=
  let v := x - rhs
  if v = 0 then 1 else v

/-- `SourceLocation::default()`: row and column `OneIndexed::MIN` -/
def SourceLocation.default : Nat × Nat := (1, 1)

end PV.C15
