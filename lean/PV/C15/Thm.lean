import PV.C15.Model
import PV.C15.Spec
import PV.C15.Lemmas
/-
  C15 — property theorems.  Helper lemmas live in `PV/C15/Lemmas.lean`; this file only holds
  the statements a reader should compare with the property text.
-/
namespace PV.C15
open Spec

/-! ### Range algebra agrees with reading a range as the set `{x | start ≤ x < stop}` -/

theorem contains_iff_mem (r : Range) (x : Nat) : r.contains x = true ↔ mem r.start r.stop x := by
  simp [Range.contains, mem]

theorem containsRange_iff_subset (r o : Range) (ho : o.start < o.stop) :
    r.containsRange o = true ↔ ∀ x, mem o.start o.stop x → mem r.start r.stop x := by
  simp only [Range.containsRange, mem, Bool.and_eq_true, decide_eq_true_eq]
  constructor
  · intro h x hx; omega
  · intro h
    have h1 := h o.start ⟨Nat.le_refl _, ho⟩
    have h2 := h (o.stop - 1) ⟨by omega, by omega⟩
    omega

theorem intersect_set (r o i : Range) (h : r.intersect o = some i) (x : Nat) :
    mem i.start i.stop x ↔ (mem r.start r.stop x ∧ mem o.start o.stop x) := by
  unfold Range.intersect at h
  simp only at h
  split at h
  · cases h
  · cases h; simp only [mem]; omega

theorem intersect_none (r o : Range) (hr : r.start ≤ r.stop) (ho : o.start ≤ o.stop)
    (h : r.intersect o = none) (x : Nat) :
    ¬ (mem r.start r.stop x ∧ mem o.start o.stop x) := by
  unfold Range.intersect at h
  simp only at h
  split at h
  · simp only [mem]; omega
  · cases h

/-- `cover` is the convex hull: it contains both ranges and is the smallest such range. -/
theorem cover_hull (r o : Range) :
    (r.cover o).containsRange r = true ∧ (r.cover o).containsRange o = true ∧
    ∀ c : Range, c.containsRange r = true → c.containsRange o = true →
      c.containsRange (r.cover o) = true := by
  simp [Range.cover, Range.containsRange]
  grind

theorem checkedAdd_shift (r s : Range) (k : Nat) (h : r.checkedAdd k = some s) (x : Nat) :
    mem s.start s.stop (x + k) ↔ mem r.start r.stop x := by
  unfold Range.checkedAdd at h
  split at h
  · cases h; simp only [mem]; omega
  · cases h

theorem checkedSub_shift (r s : Range) (k : Nat) (h : r.checkedSub k = some s) (x : Nat) :
    mem s.start s.stop x ↔ mem r.start r.stop (x + k) := by
  unfold Range.checkedSub at h
  split at h
  · cases h; simp only [mem]; omega
  · cases h

/-- `ordering` is Less/Greater exactly when the two sets are separated in that direction. -/
theorem ordering_spec (r o : Range) (hr : r.start < r.stop) (ho : o.start < o.stop) :
    (r.ordering o = -1 ↔ ∀ x y, mem r.start r.stop x → mem o.start o.stop y → x < y) ∧
    (r.ordering o = 1 ↔ ∀ x y, mem r.start r.stop x → mem o.start o.stop y → y < x) := by
  unfold Range.ordering mem
  constructor
  · constructor
    · intro h x y hx hy
      split at h
      · omega
      · split at h <;> simp at h
    · intro h
      have := h (r.stop - 1) o.start ⟨by omega, by omega⟩ ⟨by omega, by omega⟩
      rw [if_pos (by omega)]
  · constructor
    · intro h x y hx hy
      split at h
      · simp at h
      · split at h
        · omega
        · simp at h
    · intro h
      have := h r.start (o.stop - 1) ⟨by omega, by omega⟩ ⟨by omega, by omega⟩
      rw [if_neg (by omega), if_pos (by omega)]

example : (Range.mk 2 5).intersect (Range.mk 4 9) = some (Range.mk 4 5) := by decide
example : (Range.mk 2 5).ordering (Range.mk 5 9) = -1 := by decide

end PV.C15
