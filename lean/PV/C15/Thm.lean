import PV.C15.Model
import PV.C15.Spec
import PV.C15.Lemmas
/-
  C15 — property theorems.  Helper lemmas live in `PV/C15/Lemmas.lean`; this file only holds
  the statements a reader should compare with the property text.
-/
namespace PV.C15
open Spec

/-! ### The reference line split really is a partition of the text -/

theorem splitLines_flatten (bs : List Nat) : (splitLines bs).flatten = bs := splitLines_flatten_aux bs

theorem indexLines_partition (bs : List Nat) : (indexLines bs).flatten = bs := indexLines_flatten bs

/-! ### LineIndex -/

/-- `LineIndex::from_source_text`: the table of line starts is the running sum of the lengths of the
    reference lines (CR, LF and CR LF each ending a line once), for texts of every length. -/
theorem lineStarts_spec (bs : List Nat) : lineStarts bs = startsFrom 0 (indexLines bs) :=
  lineStarts_spec_aux bs

/-- the number of lines equals the number of line breaks plus one -/
theorem lineCount_eq_breaks_succ (bs : List Nat) : lineCount bs = breaks bs + 1 := lineCount_aux bs

theorem lineIndex_spec (bs : List Nat) (off : Nat) :
    lineIndex bs off = rowOf (lineStarts bs) off := by
  unfold lineIndex rowOf
  rw [binarySearch_count _ _ (lineStarts_sorted bs)]
  cases h : binarySearch (lineStarts bs) off with
  | mk f i => cases f <;> simp

/-- meaning of `rowOf` on the line-start table: the row's line starts at or before the offset and
    every later line starts after it — "the line whose span contains the offset". -/
theorem rowOf_contains (bs : List Nat) (off : Nat) :
    let starts := lineStarts bs
    let r := rowOf starts off
    r < starts.length ∧ (∀ s, starts[r]? = some s → s ≤ off) ∧
    (∀ r' s', r < r' → starts[r']? = some s' → off < s') := by
  intro starts r
  have hs := lineStarts_sorted bs
  have h0 : 0 < starts.countP (· ≤ off) := by
    have := (sorted_count_iff starts off hs 0 (by simp [starts, lineStarts])).mpr (by simp [starts, lineStarts])
    exact this
  have hle : starts.countP (· ≤ off) ≤ starts.length := List.countP_le_length
  refine ⟨by simp only [r, rowOf]; omega, ?_, ?_⟩
  · intro s hsome
    have hr : r < starts.length := by simp only [r, rowOf]; omega
    have := (sorted_count_iff starts off hs r hr).mp (by simp only [r, rowOf]; omega)
    rw [List.getElem?_eq_getElem hr] at hsome
    cases hsome; exact this
  · intro r' s' hlt hsome
    have hr' : r' < starts.length := by
      rcases Nat.lt_or_ge r' starts.length with h | h
      · exact h
      · rw [List.getElem?_eq_none h] at hsome; cases hsome
    have hiff := sorted_count_iff starts off hs r' hr'
    have hnot : ¬ r' < starts.countP (· ≤ off) := by simp only [r, rowOf] at hlt; omega
    rw [List.getElem?_eq_getElem hr'] at hsome
    cases hsome
    have : ¬ starts[r'] ≤ off := fun h => hnot (hiff.mpr h)
    omega

/-- `source_location` reports the same row as `line_index` -/
theorem sourceLocation_row (bs : List Nat) (off r c : Nat) (h : sourceLocation bs off = some (r, c)) :
    r = rowOf (lineStarts bs) off := by
  rw [← lineIndex_spec]; exact sourceLocation_row' bs off r c h

/-- the column is the number of characters between the start of that row (a BOM at the start of the
    file skipped) and the offset -/
theorem sourceLocation_column (bs : List Nat) (off r c : Nat) (hoff : off ≤ bs.length)
    (h : sourceLocation bs off = some (r, c)) :
    ∃ ls, (lineStarts bs)[r]? = some ls ∧ c = charCount (segment bs ls off) :=
  sourceLocation_column' bs off r c hoff h

example : sourceLocation [0xEF, 0xBB, 0xBF, 0xC3, 0xA9, 13, 10, 97] 5 = some (0, 1) := by decide
example : lineStarts [97, 13, 10, 98, 13, 99] = [0, 3, 5] := by decide

/-! ### UniversalNewlineIterator -/

/-- `next` yields the first reference line and leaves exactly the remaining lines -/
theorem next_spec (it : Iter) (hne : it.text ≠ []) :
    ∃ l rest, splitLines it.text = l :: rest ∧ splitLines rest.flatten = rest ∧
      it.next.1 = some ⟨l, it.offset⟩ ∧ it.next.2.text = rest.flatten ∧
      (rest ≠ [] → it.next.2.offset = it.offset + l.length) ∧
      it.next.2.offsetBack = it.offsetBack := next_spec_aux it hne

/-- `next_back` yields the last reference line and leaves exactly the preceding lines -/
theorem nextBack_spec (it : Iter) (hne : it.text ≠ []) :
    ∃ init l, splitLines it.text = init ++ [l] ∧ splitLines init.flatten = init ∧
      it.nextBack.1 = some ⟨l, it.offsetBack - l.length⟩ ∧ it.nextBack.2.text = init.flatten ∧
      it.nextBack.2.offset = it.offset ∧
      (init ≠ [] → it.nextBack.2.offsetBack = it.offsetBack - l.length) := nextBack_spec_aux it hne

/-- For EVERY interleaving of `next` / `next_back` calls (including calls after exhaustion) the
    iterator behaves as a double-ended queue over the reference lines with their true offsets. -/
theorem iter_any_interleaving (t : List Nat) (k : Nat) (ops : List Bool) :
    ((Iter.withOffset t k).run ops).map (fun p => (p.1, p.2.map Line.toPair))
      = runDeque (splitLines t) k ops :=
  run_deque ops _ _ _ ⟨rfl, fun _ => ⟨rfl, rfl⟩⟩

/-- `Line::as_str` removes exactly the terminator -/
theorem asStr_spec (body term : List Nat) (o : Nat) (hb : ∀ x ∈ body, isNl x = false)
    (ht : term = [] ∨ term = [10] ∨ term = [13] ∨ term = [13, 10]) :
    Line.asStr ⟨body ++ term, o⟩ = body := asStr_spec' body term o hb ht

example : ((Iter.withOffset [97, 13, 10, 98] 7).run [false, true, true]).map
    (fun p => (p.1, p.2.map Line.toPair)) =
    [(false, some ([98], 10)), (true, some ([97, 13, 10], 7)), (true, none)] := by decide

/-! ### Range algebra agrees with reading a range as the set `{x | start ≤ x < stop}` -/

theorem contains_iff_mem (r : Range) (x : Nat) : r.contains x = true ↔ mem r.start r.stop x := by
  simp [Range.contains, mem]

theorem containsRange_iff_subset (r o : Range) (ho : o.start < o.stop) :
    r.containsRange o = true ↔ ∀ x, mem o.start o.stop x → mem r.start r.stop x := by
  simp only [Range.containsRange, mem, Bool.and_eq_true, decide_eq_true_eq]
  constructor
  · intro h x hx; omega
  · intro h
    have h1 := h o.start ⟨Nat.le_refl _, ho⟩
    have h2 := h (o.stop - 1) ⟨by omega, by omega⟩
    omega

theorem intersect_set (r o i : Range) (h : r.intersect o = some i) (x : Nat) :
    mem i.start i.stop x ↔ (mem r.start r.stop x ∧ mem o.start o.stop x) := by
  unfold Range.intersect at h
  simp only at h
  split at h
  · cases h
  · cases h; simp only [mem]; omega

theorem intersect_none (r o : Range) (hr : r.start ≤ r.stop) (ho : o.start ≤ o.stop)
    (h : r.intersect o = none) (x : Nat) :
    ¬ (mem r.start r.stop x ∧ mem o.start o.stop x) := by
  unfold Range.intersect at h
  simp only at h
  split at h
  · simp only [mem]; omega
  · cases h

/-- `cover` is the convex hull: it contains both ranges and is the smallest such range. -/
theorem cover_hull (r o : Range) :
    (r.cover o).containsRange r = true ∧ (r.cover o).containsRange o = true ∧
    ∀ c : Range, c.containsRange r = true → c.containsRange o = true →
      c.containsRange (r.cover o) = true := by
  simp [Range.cover, Range.containsRange]
  grind

theorem checkedAdd_shift (r s : Range) (k : Nat) (h : r.checkedAdd k = some s) (x : Nat) :
    mem s.start s.stop (x + k) ↔ mem r.start r.stop x := by
  unfold Range.checkedAdd at h
  split at h
  · cases h; simp only [mem]; omega
  · cases h

theorem checkedSub_shift (r s : Range) (k : Nat) (h : r.checkedSub k = some s) (x : Nat) :
    mem s.start s.stop x ↔ mem r.start r.stop (x + k) := by
  unfold Range.checkedSub at h
  split at h
  · cases h; simp only [mem]; omega
  · cases h

/-- `ordering` is Less/Greater exactly when the two sets are separated in that direction. -/
theorem ordering_spec (r o : Range) (hr : r.start < r.stop) (ho : o.start < o.stop) :
    (r.ordering o = -1 ↔ ∀ x y, mem r.start r.stop x → mem o.start o.stop y → x < y) ∧
    (r.ordering o = 1 ↔ ∀ x y, mem r.start r.stop x → mem o.start o.stop y → y < x) := by
  unfold Range.ordering mem
  constructor
  · constructor
    · intro h x y hx hy
      split at h
      · omega
      · split at h <;> simp at h
    · intro h
      have := h (r.stop - 1) o.start ⟨by omega, by omega⟩ ⟨by omega, by omega⟩
      rw [if_pos (by omega)]
  · constructor
    · intro h x y hx hy
      split at h
      · simp at h
      · split at h
        · omega
        · simp at h
    · intro h
      have := h r.start (o.stop - 1) ⟨by omega, by omega⟩ ⟨by omega, by omega⟩
      rw [if_neg (by omega), if_pos (by omega)]

example : (Range.mk 2 5).intersect (Range.mk 4 9) = some (Range.mk 4 5) := by decide
example : (Range.mk 2 5).ordering (Range.mk 5 9) = -1 := by decide

/-! ## The remaining public helpers of the five files (coverage round): see design/C15.md -/

/-! ### Moving one end of a range, the `+`/`-` operators, bounds -/

/-- `add_start` removes the offsets below `start + k`; it panics exactly when the `u32` addition
    overflows or the new start passes the end. -/
theorem addStart_spec (r : Range) (k : Nat) :
    (∀ s, r.addStart k = some s → s.stop = r.stop ∧
      ∀ x, mem s.start s.stop x ↔ (mem r.start r.stop x ∧ r.start + k ≤ x)) ∧
    (r.addStart k = none ↔ (u32Max < r.start + k ∨ r.stop < r.start + k)) := by
  simp only [Range.addStart, Size.add, Range.new?, mem]
  constructor
  · intro s h
    split at h
    · next a ha =>
      split at ha
      · cases ha
        split at h
        · cases h; simp only [true_and]; intro x; omega
        · cases h
      · cases ha
    · cases h
  · by_cases h1 : r.start + k ≤ u32Max
    · by_cases h2 : r.start + k ≤ r.stop
      · simp [h1, h2] <;> omega
      · simp [h1, h2] <;> omega
    · simp [h1] <;> omega

/-- `sub_start` adds the `k` offsets below the start; it panics exactly when `start - k` is negative
    (or, for an ill-formed range, still above the end). -/
theorem subStart_spec (r : Range) (k : Nat) :
    (∀ s, r.subStart k = some s → s.stop = r.stop ∧ s.start + k = r.start ∧
      ∀ x, mem s.start s.stop x ↔ (r.start ≤ x + k ∧ x < r.stop)) ∧
    (r.subStart k = none ↔ (r.start < k ∨ r.stop < r.start - k)) := by
  simp only [Range.subStart, Size.sub, Range.new?, mem]
  constructor
  · intro s h
    split at h
    · next a ha =>
      split at ha
      · cases ha
        split at h
        · cases h; simp only [true_and]; refine ⟨by omega, ?_⟩; intro x; omega
        · cases h
      · cases ha
    · cases h
  · by_cases h1 : k ≤ r.start
    · by_cases h2 : r.start - k ≤ r.stop
      · simp [h1, h2] <;> omega
      · simp [h1, h2] <;> omega
    · simp [h1] <;> omega

/-- `add_end` adds the `k` offsets from the old end on; it panics exactly on `u32` overflow. -/
theorem addEnd_spec (r : Range) (k : Nat) :
    (∀ s, r.addEnd k = some s → s.start = r.start ∧
      ∀ x, mem s.start s.stop x ↔ (r.start ≤ x ∧ x < r.stop + k)) ∧
    (r.addEnd k = none ↔ (u32Max < r.stop + k ∨ r.stop + k < r.start)) := by
  simp only [Range.addEnd, Size.add, Range.new?, mem]
  constructor
  · intro s h
    split at h
    · next a ha =>
      split at ha
      · cases ha
        split at h
        · cases h; exact ⟨rfl, fun x => by simp only <;> omega⟩
        · cases h
      · cases ha
    · cases h
  · by_cases h1 : r.stop + k ≤ u32Max
    · by_cases h2 : r.start ≤ r.stop + k
      · simp [h1, h2] <;> omega
      · simp [h1, h2] <;> omega
    · simp [h1] <;> omega

/-- `sub_end` removes the last `k` offsets; it panics exactly when `end - k` is negative or below
    the start. -/
theorem subEnd_spec (r : Range) (k : Nat) :
    (∀ s, r.subEnd k = some s → s.start = r.start ∧
      ∀ x, mem s.start s.stop x ↔ (r.start ≤ x ∧ x + k < r.stop)) ∧
    (r.subEnd k = none ↔ (r.stop < k ∨ r.stop - k < r.start)) := by
  simp only [Range.subEnd, Size.sub, Range.new?, mem]
  constructor
  · intro s h
    split at h
    · next a ha =>
      split at ha
      · cases ha
        split at h
        · cases h; exact ⟨rfl, fun x => by simp only <;> omega⟩
        · cases h
      · cases ha
    · cases h
  · by_cases h1 : k ≤ r.stop
    · by_cases h2 : r.start ≤ r.stop - k
      · simp [h1, h2] <;> omega
      · simp [h1, h2] <;> omega
    · simp [h1] <;> omega

/-- `range + k` shifts the set up by `k`, panicking exactly when an end leaves `u32`;
    `range - k` shifts it down, panicking exactly when an end would become negative. -/
theorem shiftOps_spec (r : Range) (k : Nat) :
    (∀ s, r.addOp k = some s → ∀ x, mem s.start s.stop (x + k) ↔ mem r.start r.stop x) ∧
    (r.addOp k = none ↔ (u32Max < r.start + k ∨ u32Max < r.stop + k)) ∧
    (∀ s, r.subOp k = some s → ∀ x, mem s.start s.stop x ↔ mem r.start r.stop (x + k)) ∧
    (r.subOp k = none ↔ (r.start < k ∨ r.stop < k)) := by
  refine ⟨fun s h x => checkedAdd_shift r s k h x, ?_, fun s h x => checkedSub_shift r s k h x, ?_⟩
  · simp only [Range.addOp, Range.checkedAdd]
    split <;> simp <;> omega
  · simp only [Range.subOp, Range.checkedSub]
    split <;> simp <;> omega

/-- `RangeBounds` (`start_bound` included, `end_bound` excluded) describes the same set. -/
theorem boundsContains_iff_mem (r : Range) (x : Nat) :
    r.boundsContains x = true ↔ mem r.start r.stop x := by
  simp [Range.boundsContains, boundsContain, Range.startBound, Range.endBound, mem]

/-- `cover_offset`: the smallest range that contains the range and (inclusively) the offset. -/
theorem coverOffset_hull (r : Range) (o : Nat) :
    (r.coverOffset o).containsRange r = true ∧ (r.coverOffset o).containsInclusive o = true ∧
    ∀ c : Range, c.containsRange r = true → c.containsInclusive o = true →
      c.containsRange (r.coverOffset o) = true := by
  simp [Range.coverOffset, Range.cover, Range.empty, Range.containsRange, Range.containsInclusive]
  grind

/-- constructors: `at(o, l)` spans `o ≤ x < o + l` (panics exactly on `u32` overflow),
    `up_to(e)` spans `x < e`, `empty(o)` spans nothing. -/
theorem constructors_spec (o l : Nat) :
    (∀ s, Range.at? o l = some s → ∀ x, mem s.start s.stop x ↔ (o ≤ x ∧ x < o + l)) ∧
    (Range.at? o l = none ↔ u32Max < o + l) ∧
    (∀ x, mem (Range.upTo o).start (Range.upTo o).stop x ↔ x < o) ∧
    (∀ x, ¬ mem (Range.empty o).start (Range.empty o).stop x) := by
  simp only [Range.at?, Range.upTo, Range.empty, mem]
  refine ⟨?_, ?_, ?_, ?_⟩
  · intro s h; split at h
    · cases h; intro x; simp only <;> omega
    · cases h
  · split <;> simp <;> omega
  · intro x; omega
  · intro x; omega

example : (Range.mk 5 10).addStart 3 = some ⟨8, 10⟩ ∧ (Range.mk 5 10).addStart 6 = none := by decide
example : (Range.mk 5 10).subStart 2 = some ⟨3, 10⟩ ∧ (Range.mk 5 10).subStart 6 = none := by decide
example : (Range.mk 5 10).addEnd 2 = some ⟨5, 12⟩ ∧ (Range.mk 5 4294967295).addEnd 1 = none := by decide
example : (Range.mk 5 10).subEnd 2 = some ⟨5, 8⟩ ∧ (Range.mk 5 10).subEnd 6 = none := by decide
example : (Range.mk 4294967290 4294967295).addOp 1 = none ∧ (Range.mk 1 3).subOp 1 = some ⟨0, 2⟩ := by decide

/-! ### Slicing -/

/-- `&text[range]` (`Index<TextRange>` for `str`/`String`, `SourceCode::slice`, `SourceFile::slice`):
    the result holds exactly the bytes at the offsets of the range's set, in order; it panics
    exactly when the range is reversed, reaches past the text, or an end is inside a character. -/
theorem index_spec (bs : List Nat) (r : Range) :
    (∀ s, r.index bs = some s → s.length = r.stop - r.start ∧
      ∀ x, mem r.start r.stop x → s[x - r.start]? = bs[x]?) ∧
    (r.index bs = none ↔ ¬ (r.start ≤ r.stop ∧ r.stop ≤ bs.length ∧
      isBoundary bs r.start = true ∧ isBoundary bs r.stop = true)) := by
  constructor
  · intro s h
    obtain ⟨h1, h2, _, _, rfl⟩ := sliceChecked_some bs _ _ s h
    refine ⟨by simp; omega, ?_⟩
    intro x hx
    exact slice_getElem bs r.start r.stop x hx
  · simp only [Range.index, sliceChecked]
    split <;> simp_all

/-- `&mut text[range]` (`IndexMut<TextRange>`): a mutation through the returned slice touches exactly
    the bytes at the offsets of the range's set; same panics as `Index`. -/
theorem indexMut_spec (bs : List Nat) (r : Range) :
    (∀ t, r.indexMutUpper bs = some t → t.length = bs.length ∧
      ∀ x, t[x]? = if r.start ≤ x ∧ x < r.stop then (bs[x]?).map asciiUpper else bs[x]?) ∧
    (r.indexMutUpper bs = none ↔ r.index bs = none) := by
  constructor
  · intro t h
    simp only [Range.indexMutUpper] at h
    split at h
    · next s hs =>
      cases h
      obtain ⟨h1, h2, _, _, rfl⟩ := sliceChecked_some bs _ _ s hs
      refine ⟨by simp; omega, ?_⟩
      intro x
      by_cases hx1 : x < r.start
      · rw [if_neg (by omega)]
        rw [List.append_assoc, List.getElem?_append_left (by simp; omega)]
        simp [hx1]
      · by_cases hx2 : x < r.stop
        · rw [if_pos (by omega)]
          rw [List.getElem?_append_left (by simp; omega)]
          rw [List.getElem?_append_right (by simp; omega)]
          simp only [List.length_take, List.getElem?_map]
          have hm : min r.start bs.length = r.start := by omega
          rw [hm, slice_getElem bs r.start r.stop x ⟨by omega, hx2⟩]
        · rw [if_neg (by omega)]
          rw [List.getElem?_append_right (by simp; omega)]
          simp only [List.length_append, List.length_take, List.length_map, List.length_drop,
            List.getElem?_drop]
          congr 1; omega
    · cases h
  · simp only [Range.indexMutUpper, Range.index]
    split <;> simp_all

/-- `SourceCode::up_to` and `SourceCode::after` cut the text at the offset: the two pieces
    concatenate to the text; both panic exactly when the offset is past the end or inside a character. -/
theorem upTo_after_partition (bs : List Nat) (o : Nat) :
    (o ≤ bs.length ∧ isBoundary bs o = true →
      SourceCode.upTo bs o = some (bs.take o) ∧ SourceCode.after bs o = some (bs.drop o)) ∧
    (¬ (o ≤ bs.length ∧ isBoundary bs o = true) →
      SourceCode.upTo bs o = none ∧ SourceCode.after bs o = none) := by
  have h0 : isBoundary bs 0 = true := by simp [isBoundary]
  constructor
  · intro h
    refine ⟨?_, if_pos h⟩
    show sliceChecked bs 0 o = _
    unfold sliceChecked
    rw [if_pos ⟨Nat.zero_le _, h.1, h0, h.2⟩]; simp
  · intro h
    refine ⟨?_, if_neg h⟩
    show sliceChecked bs 0 o = _
    unfold sliceChecked
    rw [if_neg]; intro hc; exact h ⟨hc.2.1, hc.2.2.2⟩

example : (Range.mk 1 3).index [97, 0xC3, 0xA9, 98] = some [0xC3, 0xA9] := by decide
example : (Range.mk 1 2).index [97, 0xC3, 0xA9, 98] = none := by decide
example : (Range.mk 1 3).indexMutUpper [97, 98, 99, 100] = some [97, 66, 67, 100] := by decide
example : SourceCode.upTo [97, 0xC3, 0xA9] 2 = none ∧ SourceCode.after [97, 0xC3, 0xA9] 1 = some [0xC3, 0xA9] := by
  decide

/-! ### TextSize sums, line endings, line queries -/

/-- `impl Sum for TextSize`: the sum of the sizes, panicking exactly when it leaves `u32`. -/
theorem sum_spec (xs : List Nat) :
    Size.sum xs = if xs.sum ≤ u32Max then some xs.sum else none := by
  have := sumGo_spec 0 xs (by simp [u32Max])
  simpa [Size.sum] using this

example : Size.sum [1, 2, 4294967292] = some 4294967295 := by decide

example : Size.sum [1, 2, 4294967293] = none := by decide

/-- `find_newline`: position and kind of the first line break: the bytes before it contain no
    break, the terminator text follows, and a CR is reported as `CrLf` exactly when a LF follows. -/
theorem lineEnding_spec (t : List Nat) :
    (∀ p e, findNewlineE t = some (p, e) →
      (∀ x ∈ t.take p, isNl x = false) ∧ (t.drop p).take e.len = e.asStr ∧
      (e = .cr → (t.drop (p + 1)).head? ≠ some 10) ∧
      e.textLen = e.asStr.length ∧ e.len = e.asStr.length) ∧
    (findNewlineE t = none ↔ ∀ x ∈ t, isNl x = false) := by
  induction t with
  | nil => simp [findNewlineE]
  | cons b rest ih =>
    obtain ⟨ih1, ih2⟩ := ih
    by_cases hb10 : b = 10
    · subst hb10
      simp [findNewlineE, isNl, LineEnding.asStr, LineEnding.len, LineEnding.textLen]
    · by_cases hb13 : b = 13
      · subst hb13
        by_cases hh : rest.head? = some 10
        · cases rest with
          | nil => simp at hh
          | cons c r =>
            have : c = 10 := by simpa using hh
            subst this
            simp [findNewlineE, isNl, LineEnding.asStr, LineEnding.len, LineEnding.textLen]
        · have hh' : ¬ rest[0]? = some 10 := by rwa [← List.head?_eq_getElem?]
          simp [findNewlineE, hh, hh', isNl, LineEnding.asStr, LineEnding.len, LineEnding.textLen]
      · have hbn : isNl b = false := by simp [isNl, hb10, hb13]
        cases hr : findNewlineE rest with
        | none =>
          simp only [findNewlineE, hb10, hb13, hr, ↓reduceIte]
          constructor
          · intro p e h; cases h
          simp only [true_iff]
          intro x hx
          simp only [List.mem_cons] at hx
          rcases hx with rfl | hx
          · exact hbn
          · exact ih2.mp hr x hx
        | some pe =>
          obtain ⟨p', e'⟩ := pe
          simp only [findNewlineE, hb10, hb13, hr, ↓reduceIte]
          obtain ⟨g1, g2, g3, g4⟩ := ih1 p' e' hr
          constructor
          · intro p e h
            simp only [Option.some.injEq, Prod.mk.injEq] at h
            obtain ⟨rfl, rfl⟩ := h
            refine ⟨?_, by simpa using g2, by simpa [Nat.add_assoc] using g3, g4⟩
            intro x hx
            simp only [List.take_succ_cons, List.mem_cons] at hx
            rcases hx with rfl | hx
            · exact hbn
            · exact g1 x hx
          · simp only [reduceCtorEq, false_iff]
            intro hall
            have := ih2.mpr (fun x hx => hall x (by simp [hx]))
            rw [hr] at this; cases this

example : findNewlineE [97, 13, 10, 98] = some (1, .crlf) := by decide

example : findNewlineE [97, 13, 98, 10] = some (1, .cr) := by decide

/-- the queries of one line (terminator `term`, `body` without line breaks) starting at `o`:
    `end` stops before the terminator, `full_end` after it, `range`/`full_range` are the
    corresponding sets; nothing panics while the line fits into `u32`. -/
theorem line_queries_spec (body term : List Nat) (o : Nat) (hb : ∀ x ∈ body, isNl x = false)
    (ht : term = [] ∨ term = [10] ∨ term = [13] ∨ term = [13, 10])
    (hfit : o + body.length + term.length ≤ u32Max) :
    let l : Line := ⟨body ++ term, o⟩
    l.start = o ∧ l.end' = some (o + body.length) ∧
    l.fullEnd = some (o + body.length + term.length) ∧
    l.fullTextLen = body.length + term.length ∧
    l.range = some ⟨o, o + body.length⟩ ∧
    l.fullRange = some ⟨o, o + body.length + term.length⟩ ∧
    l.eqStr body = true := by
  intro l
  have has : l.asStr = body := asStr_spec' body term o hb ht
  simp only [Line.start, Line.end', Line.fullEnd, Line.fullTextLen, Line.range, Line.fullRange,
    Line.eqStr, has, Size.ofStr, Size.add, Range.at?, Range.new?, l, List.length_append]
  have h1 : o + body.length ≤ u32Max := by omega
  have h2 : o + (body.length + term.length) ≤ u32Max := by omega
  simp [h1, h2, Nat.add_assoc]

/-- a line query panics exactly when the `u32` addition overflows -/
theorem line_queries_overflow (l : Line) :
    (l.fullEnd = none ↔ u32Max < l.offset + l.text.length) ∧
    (l.fullRange = none ↔ u32Max < l.offset + l.text.length) ∧
    (l.end' = none ↔ u32Max < l.offset + l.asStr.length) ∧
    (l.range = none ↔ u32Max < l.offset + l.asStr.length) := by
  simp only [Line.fullEnd, Line.fullRange, Line.end', Line.range, Line.fullTextLen, Line.start,
    Size.ofStr, Size.add, Range.at?, Range.new?]
  refine ⟨?_, ?_, ?_, ?_⟩
  · by_cases h : l.offset + l.text.length ≤ u32Max <;> simp [h] <;> omega
  · by_cases h : l.offset + l.text.length ≤ u32Max <;> simp [h] <;> omega
  · by_cases h : l.offset + l.asStr.length ≤ u32Max <;> simp [h] <;> omega
  · by_cases h : l.offset + l.asStr.length ≤ u32Max <;> simp [h] <;> omega

/-- "the lines carry correct offsets": consumed from the front, the iterator yields exactly the
    reference lines, each at the running sum of the lengths of the lines before it … -/
theorem line_offsets_spec (t : List Nat) (o : Nat) :
    ((Iter.withOffset t o).collect).map Line.toPair
      = List.zip (splitLines t) (startsFrom o (splitLines t)) := by
  apply collectGo_run _ _ _ _ ⟨rfl, fun _ => ⟨rfl, rfl⟩⟩
  have := splitLines_length_le t
  simp [Iter.withOffset]; omega

/-- … and each of those lines is `body ++ terminator` (so `line_queries_spec` applies to it). -/
theorem line_form (t : List Nat) : ∀ l ∈ splitLines t,
    ∃ body term, l = body ++ term ∧ (∀ x ∈ body, isNl x = false) ∧
      (term = [] ∨ term = [10] ∨ term = [13] ∨ term = [13, 10]) ∧ l ≠ [] := splitLines_form t

example : ((Iter.withOffset [97, 13, 10, 98] 7).collect).map
    (fun l => (l.offset, l.end', l.fullEnd)) = [(7, some 8, some 10), (10, some 11, some 11)] := by decide

/-- `Iterator::last` (overridden as `next_back`) is the last reference line at its true offset -/
theorem last_spec (t : List Nat) (o : Nat) (hne : t ≠ []) :
    ∃ init l, splitLines t = init ++ [l] ∧
      (Iter.withOffset t o).last = some ⟨l, o + init.flatten.length⟩ := by
  obtain ⟨init, l, h1, _, h3, _⟩ := nextBack_spec_aux (Iter.withOffset t o) hne
  refine ⟨init, l, h1, ?_⟩
  have hflat : t = (init ++ [l]).flatten := by
    have := splitLines_flatten_aux t
    rw [show (Iter.withOffset t o).text = t from rfl] at h1
    rw [h1] at this; exact this.symm
  have hlen : t.length = init.flatten.length + l.length := by
    conv => lhs; rw [hflat]
    simp
  rw [Iter.last, h3]
  simp only [Iter.withOffset]
  congr 2; omega

example : (Iter.withOffset [97, 10, 98, 13] 5).last = some ⟨[98, 13], 7⟩ := by decide

/-! ### OneIndexed -/

/-- conversions between zero- and one-based numbers: `from_zero_indexed` adds one (saturating at
    `u32::MAX`), `to_zero_indexed` takes it away again, `new` rejects exactly zero, and every result
    is a valid one-based number. -/
theorem oneIndexed_conversions (v : Nat) (hv : v ≤ u32Max) :
    (v < u32Max → OneIndexed.toZeroIndexed (OneIndexed.fromZeroIndexed v) = v) ∧
    OneIndexed.fromZeroIndexed v = min (v + 1) u32Max ∧
    (1 ≤ OneIndexed.fromZeroIndexed v ∧ OneIndexed.fromZeroIndexed v ≤ u32Max) ∧
    OneIndexed.tryFromZeroIndexed v = some (OneIndexed.fromZeroIndexed v) ∧
    (OneIndexed.new? v = none ↔ v = 0) ∧ (∀ x, OneIndexed.new? v = some x → x = v) ∧
    (1 ≤ v → OneIndexed.fromZeroIndexed (OneIndexed.toZeroIndexed v) = v) := by
  simp only [OneIndexed.toZeroIndexed, OneIndexed.fromZeroIndexed, OneIndexed.tryFromZeroIndexed,
    OneIndexed.new?, u32Max] at *
  refine ⟨by omega, by omega, by omega, by simp [hv], ?_, ?_, by omega⟩
  · split <;> simp_all
  · intro x h; split at h <;> simp_all

/-- `try_from_zero_indexed` rejects exactly the values that do not fit `u32` -/
theorem oneIndexed_tryFrom_none (v : Nat) :
    OneIndexed.tryFromZeroIndexed v = none ↔ u32Max < v := by
  simp only [OneIndexed.tryFromZeroIndexed]; split <;> simp <;> omega

/-- saturating arithmetic on one-based numbers stays inside `1 ..= u32::MAX` -/
theorem oneIndexed_saturating (x rhs : Nat) (hx : 1 ≤ x ∧ x ≤ u32Max) :
    OneIndexed.saturatingAdd x rhs = min (x + rhs) u32Max ∧
    OneIndexed.saturatingSub x rhs = max 1 (x - rhs) := by
  simp only [OneIndexed.saturatingAdd, OneIndexed.saturatingSub, u32Max] at *
  constructor
  · by_cases h : min (x + rhs) 4294967295 = 0 <;> simp [h] <;> omega
  · by_cases h : x - rhs = 0 <;> simp [h] <;> omega

example : OneIndexed.saturatingSub 3 5 = 1 := by decide

example : OneIndexed.saturatingAdd 4294967290 9 = 4294967295 := by decide

example : OneIndexed.toZeroIndexed (OneIndexed.fromZeroIndexed 41) = 41 := by decide

/-- the trailing-empty-line variant (`NewlineWithTrailingNewline::{from, with_offset}`): the
    reference lines at their offsets, plus one empty line at the end of the text exactly when the
    text ends with a line break. -/
theorem trailingLines_spec (t : List Nat) (o : Nat) :
    (trailingLines t o).map Line.toPair =
      List.zip (splitLines t) (startsFrom o (splitLines t)) ++
        (match t.getLast? with
         | some b => if isNl b = true then [([], o + t.length)] else []
         | none => []) := by
  have h := line_offsets_spec t o
  simp only [Iter.collect, Iter.withOffset] at h
  simp only [trailingLines, trailingGo_eq, Iter.withOffset]
  cases hl : t.getLast? with
  | none => simp [h]
  | some b =>
    by_cases hb : b = 10 ∨ b = 13
    · have : isNl b = true := by simpa [isNl] using hb
      simp [hb, this, h, Line.toPair]
    · have : isNl b = false := by simpa [isNl] using hb
      simp [hb, this, h]

example : (trailingLinesFrom [97, 10]).map Line.toPair = [([97, 10], 0), ([], 2)] := by decide

end PV.C15
