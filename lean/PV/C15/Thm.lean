import PV.C15.Model
import PV.C15.Spec
import PV.C15.Lemmas
/-
  C15 — property theorems.  Helper lemmas live in `PV/C15/Lemmas.lean`; this file only holds
  the statements a reader should compare with the property text.
-/
namespace PV.C15
open Spec

/-! ### The reference line split really is a partition of the text -/

theorem splitLines_flatten (bs : List Nat) : (splitLines bs).flatten = bs := splitLines_flatten_aux bs

theorem indexLines_partition (bs : List Nat) : (indexLines bs).flatten = bs := indexLines_flatten bs

/-! ### LineIndex -/

/-- `LineIndex::from_source_text`: the table of line starts is the running sum of the lengths of the
    reference lines (CR, LF and CR LF each ending a line once), for texts of every length. -/
theorem lineStarts_spec (bs : List Nat) : lineStarts bs = startsFrom 0 (indexLines bs) :=
  lineStarts_spec_aux bs

/-- the number of lines equals the number of line breaks plus one -/
theorem lineCount_eq_breaks_succ (bs : List Nat) : lineCount bs = breaks bs + 1 := lineCount_aux bs

theorem lineIndex_spec (bs : List Nat) (off : Nat) :
    lineIndex bs off = rowOf (lineStarts bs) off := by
  unfold lineIndex rowOf
  rw [binarySearch_count _ _ (lineStarts_sorted bs)]
  cases h : binarySearch (lineStarts bs) off with
  | mk f i => cases f <;> simp

/-- meaning of `rowOf` on the line-start table: the row's line starts at or before the offset and
    every later line starts after it — "the line whose span contains the offset". -/
theorem rowOf_contains (bs : List Nat) (off : Nat) :
    let starts := lineStarts bs
    let r := rowOf starts off
    r < starts.length ∧ (∀ s, starts[r]? = some s → s ≤ off) ∧
    (∀ r' s', r < r' → starts[r']? = some s' → off < s') := by
  intro starts r
  have hs := lineStarts_sorted bs
  have h0 : 0 < starts.countP (· ≤ off) := by
    have := (sorted_count_iff starts off hs 0 (by simp [starts, lineStarts])).mpr (by simp [starts, lineStarts])
    exact this
  have hle : starts.countP (· ≤ off) ≤ starts.length := List.countP_le_length
  refine ⟨by simp only [r, rowOf]; omega, ?_, ?_⟩
  · intro s hsome
    have hr : r < starts.length := by simp only [r, rowOf]; omega
    have := (sorted_count_iff starts off hs r hr).mp (by simp only [r, rowOf]; omega)
    rw [List.getElem?_eq_getElem hr] at hsome
    cases hsome; exact this
  · intro r' s' hlt hsome
    have hr' : r' < starts.length := by
      rcases Nat.lt_or_ge r' starts.length with h | h
      · exact h
      · rw [List.getElem?_eq_none h] at hsome; cases hsome
    have hiff := sorted_count_iff starts off hs r' hr'
    have hnot : ¬ r' < starts.countP (· ≤ off) := by simp only [r, rowOf] at hlt; omega
    rw [List.getElem?_eq_getElem hr'] at hsome
    cases hsome
    have : ¬ starts[r'] ≤ off := fun h => hnot (hiff.mpr h)
    omega

/-- `source_location` reports the same row as `line_index` -/
theorem sourceLocation_row (bs : List Nat) (off r c : Nat) (h : sourceLocation bs off = some (r, c)) :
    r = rowOf (lineStarts bs) off := by
  rw [← lineIndex_spec]; exact sourceLocation_row' bs off r c h

/-- the column is the number of characters between the start of that row (a BOM at the start of the
    file skipped) and the offset -/
theorem sourceLocation_column (bs : List Nat) (off r c : Nat) (hoff : off ≤ bs.length)
    (h : sourceLocation bs off = some (r, c)) :
    ∃ ls, (lineStarts bs)[r]? = some ls ∧ c = charCount (segment bs ls off) :=
  sourceLocation_column' bs off r c hoff h

example : sourceLocation [0xEF, 0xBB, 0xBF, 0xC3, 0xA9, 13, 10, 97] 5 = some (0, 1) := by decide
example : lineStarts [97, 13, 10, 98, 13, 99] = [0, 3, 5] := by decide

/-! ### UniversalNewlineIterator -/

/-- `next` yields the first reference line and leaves exactly the remaining lines -/
theorem next_spec (it : Iter) (hne : it.text ≠ []) :
    ∃ l rest, splitLines it.text = l :: rest ∧ splitLines rest.flatten = rest ∧
      it.next.1 = some ⟨l, it.offset⟩ ∧ it.next.2.text = rest.flatten ∧
      (rest ≠ [] → it.next.2.offset = it.offset + l.length) ∧
      it.next.2.offsetBack = it.offsetBack := next_spec_aux it hne

/-- `next_back` yields the last reference line and leaves exactly the preceding lines -/
theorem nextBack_spec (it : Iter) (hne : it.text ≠ []) :
    ∃ init l, splitLines it.text = init ++ [l] ∧ splitLines init.flatten = init ∧
      it.nextBack.1 = some ⟨l, it.offsetBack - l.length⟩ ∧ it.nextBack.2.text = init.flatten ∧
      it.nextBack.2.offset = it.offset ∧
      (init ≠ [] → it.nextBack.2.offsetBack = it.offsetBack - l.length) := nextBack_spec_aux it hne

/-- For EVERY interleaving of `next` / `next_back` calls (including calls after exhaustion) the
    iterator behaves as a double-ended queue over the reference lines with their true offsets. -/
theorem iter_any_interleaving (t : List Nat) (k : Nat) (ops : List Bool) :
    ((Iter.withOffset t k).run ops).map (fun p => (p.1, p.2.map Line.toPair))
      = runDeque (splitLines t) k ops :=
  run_deque ops _ _ _ ⟨rfl, fun _ => ⟨rfl, rfl⟩⟩

/-- `Line::as_str` removes exactly the terminator -/
theorem asStr_spec (body term : List Nat) (o : Nat) (hb : ∀ x ∈ body, isNl x = false)
    (ht : term = [] ∨ term = [10] ∨ term = [13] ∨ term = [13, 10]) :
    Line.asStr ⟨body ++ term, o⟩ = body := asStr_spec' body term o hb ht

example : ((Iter.withOffset [97, 13, 10, 98] 7).run [false, true, true]).map
    (fun p => (p.1, p.2.map Line.toPair)) =
    [(false, some ([98], 10)), (true, some ([97, 13, 10], 7)), (true, none)] := by decide

/-! ### Range algebra agrees with reading a range as the set `{x | start ≤ x < stop}` -/

theorem contains_iff_mem (r : Range) (x : Nat) : r.contains x = true ↔ mem r.start r.stop x := by
  simp [Range.contains, mem]

theorem containsRange_iff_subset (r o : Range) (ho : o.start < o.stop) :
    r.containsRange o = true ↔ ∀ x, mem o.start o.stop x → mem r.start r.stop x := by
  simp only [Range.containsRange, mem, Bool.and_eq_true, decide_eq_true_eq]
  constructor
  · intro h x hx; omega
  · intro h
    have h1 := h o.start ⟨Nat.le_refl _, ho⟩
    have h2 := h (o.stop - 1) ⟨by omega, by omega⟩
    omega

theorem intersect_set (r o i : Range) (h : r.intersect o = some i) (x : Nat) :
    mem i.start i.stop x ↔ (mem r.start r.stop x ∧ mem o.start o.stop x) := by
  unfold Range.intersect at h
  simp only at h
  split at h
  · cases h
  · cases h; simp only [mem]; omega

theorem intersect_none (r o : Range) (hr : r.start ≤ r.stop) (ho : o.start ≤ o.stop)
    (h : r.intersect o = none) (x : Nat) :
    ¬ (mem r.start r.stop x ∧ mem o.start o.stop x) := by
  unfold Range.intersect at h
  simp only at h
  split at h
  · simp only [mem]; omega
  · cases h

/-- `cover` is the convex hull: it contains both ranges and is the smallest such range. -/
theorem cover_hull (r o : Range) :
    (r.cover o).containsRange r = true ∧ (r.cover o).containsRange o = true ∧
    ∀ c : Range, c.containsRange r = true → c.containsRange o = true →
      c.containsRange (r.cover o) = true := by
  simp [Range.cover, Range.containsRange]
  grind

theorem checkedAdd_shift (r s : Range) (k : Nat) (h : r.checkedAdd k = some s) (x : Nat) :
    mem s.start s.stop (x + k) ↔ mem r.start r.stop x := by
  unfold Range.checkedAdd at h
  split at h
  · cases h; simp only [mem]; omega
  · cases h

theorem checkedSub_shift (r s : Range) (k : Nat) (h : r.checkedSub k = some s) (x : Nat) :
    mem s.start s.stop x ↔ mem r.start r.stop (x + k) := by
  unfold Range.checkedSub at h
  split at h
  · cases h; simp only [mem]; omega
  · cases h

/-- `ordering` is Less/Greater exactly when the two sets are separated in that direction. -/
theorem ordering_spec (r o : Range) (hr : r.start < r.stop) (ho : o.start < o.stop) :
    (r.ordering o = -1 ↔ ∀ x y, mem r.start r.stop x → mem o.start o.stop y → x < y) ∧
    (r.ordering o = 1 ↔ ∀ x y, mem r.start r.stop x → mem o.start o.stop y → y < x) := by
  unfold Range.ordering mem
  constructor
  · constructor
    · intro h x y hx hy
      split at h
      · omega
      · split at h <;> simp at h
    · intro h
      have := h (r.stop - 1) o.start ⟨by omega, by omega⟩ ⟨by omega, by omega⟩
      rw [if_pos (by omega)]
  · constructor
    · intro h x y hx hy
      split at h
      · simp at h
      · split at h
        · omega
        · simp at h
    · intro h
      have := h r.start (o.stop - 1) ⟨by omega, by omega⟩ ⟨by omega, by omega⟩
      rw [if_neg (by omega), if_pos (by omega)]

example : (Range.mk 2 5).intersect (Range.mk 4 9) = some (Range.mk 4 5) := by decide
example : (Range.mk 2 5).ordering (Range.mk 5 9) = -1 := by decide

end PV.C15
