import PV.Prog.Parse
import PV.C11.Model
import PV.C11.Fragment
/-
  PV.Prog.Render — a printer for whole programs in canonical layout, and the FRAGMENT of programs for which the
  round trip `parseProgram (render m) = some m` is proved (`PV.Prog.render_parse_partial`).

  Layout: one statement per logical line; every suite is a block (`:` NEWLINE INDENT statements DEDENT); `else` /
  `except` / `finally` clauses as blocks; no `elif` (an `If` whose `orelse` is one `If` is printed `else:` + nested
  block, which the parser maps back to the same tree); decorators one per line.

  Expressions are printed by the model of `ast/src/unparse.rs` (`PV.C11.unparse`, token level) at the precedence
  level of the grammar position they stand in:

    * level 1 (`Test`): conditions, values, annotations, defaults, bases, decorators, guards, context expressions, the
      elements of assignment / return / `for … in` lists — so a tuple or a named expression in such a position is
      written in parentheses and a `yield` as the parenthesised atom `(yield …)`;
    * level 6 (`Expression`): `del` targets, `for` targets, `with … as` targets;
    * a `Starred` element (`*a = b`, `return *a`, `for *a in b`, `del *a`) is `*` followed by its operand at level 6.

  With-items are always printed in the parenthesised form `with (a as b, c):` — the one form the grammar maps back to
  the same item list for every list (a single unparenthesised tuple item would be read as several items).
  Patterns: sequences in brackets, `as` / `|` patterns parenthesised where a closed pattern is required.

  Core Lean only.
-/
namespace PV.Prog
open PV.Expr PV.C11

/-! ## expressions -/

/-- tokens of an expression rendered at precedence level `lvl` -/
def rx (lvl : Nat) (e : Expr) : List Tok := toks (unparse (fun _ => true) e lvl)

/-- tokens of an expression in the rendering of `format!("{}", e)` (PV.C11.Model) -/
def renderExpr (e : Expr) : List Tok := toks (unparse (fun _ => true) e 1)

/-- items separated by `sep`, no trailing separator -/
def sepBy (sep : Tok) : List (List Tok) → List Tok
  | [] => []
  | [x] => x
  | x :: y :: r => x ++ sep :: sepBy sep (y :: r)

def tComma : Tok := .op .comma
def tColon : Tok := .op .colon
def tAssign : Tok := .op .assign

/-- spelling of an augmented-assignment operator (inverse of `augOf`) -/
def augText : BinOp → List Nat
  | .add => [43, 61] | .sub => [45, 61] | .mult => [42, 61] | .matMult => [64, 61] | .div => [47, 61]
  | .mod => [37, 61] | .bitAnd => [38, 61] | .bitOr => [124, 61] | .bitXor => [94, 61]
  | .lShift => [60, 60, 61] | .rShift => [62, 62, 61] | .pow => [42, 42, 61] | .floorDiv => [47, 47, 61]

/-- the token `+=`, `-=`, … -/
def tAug (o : BinOp) : Tok := .op (.other (augText o))

/-- `":" X` -/
def optColon : Option Expr → List Tok
  | none => []
  | some e => tColon :: rx 1 e

/-- `"=" X` -/
def optAssign : Option Expr → List Tok
  | none => []
  | some e => tAssign :: rx 1 e

/-! ## names -/

/-- a dotted name (`a.b.c`, stored as one identifier with dots) as NAME and `.` tokens -/
def dottedGo (cur : Ident) : List Nat → List Tok
  | [] => [.name cur]
  | c :: r => if c = 46 then .name cur :: .op .dot :: dottedGo [] r else dottedGo (cur ++ [c]) r

def dottedToks (nm : Ident) : List Tok := dottedGo [] nm

/-- `("as" Identifier)?` -/
def asToks : Option Ident → List Tok
  | none => []
  | some n => [HK.tok .as, .name n]

/-- `import` alias: dotted name -/
def renderAliasDotted (a : Alias) : List Tok := dottedToks a.name ++ asToks a.asname

/-- `from … import` alias: one identifier -/
def renderAliasPlain (a : Alias) : List Tok := .name a.name :: asToks a.asname

/-- the names of `from … import`: `*`, or aliases (no parentheses) -/
def renderFromNames : List Alias → List Tok
  | [⟨[42], none⟩] => [.op .star]
  | names => sepBy tComma (names.map renderAliasPlain)

/-- the dots of a relative import: `...` tokens as the lexer cuts them (maximal munch), then `.` tokens -/
def levelToks (lvl : Nat) : List Tok :=
  List.replicate (lvl / 3) (.op .ellipsis) ++ List.replicate (lvl % 3) (.op .dot)

def renderNames (ns : List Ident) : List Tok := sepBy tComma (ns.map fun n => [Tok.name n])

/-! ## type parameters, decorators, parameters, call arguments -/

def renderTypeParam : TypeParam → List Tok
  | .typeVar n b => .name n :: optColon b
  | .typeVarTuple n => [.op .star, .name n]
  | .paramSpec n => [.op .dstar, .name n]

/-- `TypeParamList?` -/
def renderTypeParams : List TypeParam → List Tok
  | [] => []
  | tps => .op .lsqb :: (sepBy tComma (tps.map renderTypeParam) ++ [.op .rsqb])

/-- `Decorator*`: one per line -/
def renderDecorators : List Expr → List Tok
  | [] => []
  | d :: ds => .op .at :: (rx 1 d ++ tNewline :: renderDecorators ds)

/-- `NAME (":" annotation)?` -/
def renderArg (a : Arg) : List Tok := .name a.name :: optColon a.annotation

/-- `NAME (":" annotation)? ("=" default)?` -/
def renderParam (p : ArgWithDefault) : List Tok := renderArg p.arg ++ optAssign p.default

/-- the comma-separated items of a parameter list: positional-only parameters, `/`, parameters, `*args` or the bare
    `*` (written iff keyword-only parameters follow), keyword-only parameters, `**kwargs` -/
def paramItems (a : Arguments) : List (List Tok) :=
  a.posonly.map renderParam ++ (if a.posonly.isEmpty then [] else [[Tok.op .slash]]) ++ a.args.map renderParam ++
  (match a.vararg with
   | some v => [.op .star :: renderArg v]
   | none => if a.kwonly.isEmpty then [] else [[Tok.op .star]]) ++
  a.kwonly.map renderParam ++
  (match a.kwarg with
   | some k => [.op .dstar :: renderArg k]
   | none => [])

/-- `"(" ParameterList? ")"` -/
def renderParameters (a : Arguments) : List Tok := .op .lpar :: (sepBy tComma (paramItems a) ++ [.op .rpar])

/-- `ArgumentList` of a class definition, as the unparser writes the arguments of a call -/
def renderCallArgs (as : List Expr) (ks : List Keyword) : List Tok :=
  toks (unparseSeq (fun _ => true) as 1 true) ++ toks (unparseKeywords (fun _ => true) ks as.isEmpty)

/-- `("(" ArgumentList ")")?` of a class definition: nothing when there are no arguments -/
def renderClassArgs (as : List Expr) (ks : List Keyword) : List Tok :=
  if as.isEmpty && ks.isEmpty then [] else .op .lpar :: (renderCallArgs as ks ++ [.op .rpar])

/-! ## with items -/

/-- `Test ("as" Expression)?` -/
def renderWithItem (it : WithItem) : List Tok :=
  rx 1 it.contextExpr ++
    (match it.optionalVars with
     | some v => HK.tok .as :: rx 6 v
     | none => [])

/-- `"(" items ")"` -/
def renderWithItems (items : List WithItem) : List Tok :=
  .op .lpar :: (sepBy tComma (items.map renderWithItem) ++ [.op .rpar])

/-! ## patterns -/

/-- `MatchName ("." Identifier)*` -/
def attrToks : Expr → List Tok
  | .name n => [.name n]
  | .attribute v a => attrToks v ++ [.op .dot, .name a]
  | _ => []

/-- a signed number: `ConstantAtom` or `"-" ConstantAtom`; also the other constants (one token) -/
def numToks : Expr → List Tok
  | .const c => [constTok c]
  | .unaryOp .uSub (.const c) => [.op .minus, constTok c]
  | _ => []

/-- the expression of a `MatchValue`, a mapping key or a class name -/
def patExprToks : Expr → List Tok
  | .binOp l .add (.const c) => numToks l ++ [.op .plus, constTok c]
  | .binOp l .sub (.const c) => numToks l ++ [.op .minus, constTok c]
  | .attribute v a => attrToks (.attribute v a)
  | .name n => [.name n]
  | e => numToks e

def parenIf (b : Bool) (ts : List Tok) : List Tok := if b then .op .lpar :: (ts ++ [.op .rpar]) else ts

/-- capture name / wildcard -/
def patNameTok : Option Ident → Tok
  | none => .name [95]
  | some n => .name n

/-- `key ":" pattern` -/
def mapItemToks (k : Expr) (p : List Tok) : List Tok := patExprToks k ++ tColon :: p

/-- `name "=" pattern` -/
def kwItemToks (k : Ident) (p : List Tok) : List Tok := .name k :: tAssign :: p

/-- `**rest` of a mapping pattern, as one more item -/
def restItem : Option Ident → List (List Tok)
  | none => []
  | some n => [[.op .dstar, .name n]]

mutual
/-- a pattern at grammar level `lvl`: 0 = `Pattern` (an `as` pattern may stand bare), 1 = `OrPattern` (alternatives
    may stand bare), 2 = `ClosedPattern` -/
def renderPat : Pattern → Nat → List Tok
  | .matchValue e, _ => patExprToks e
  | .matchSingleton c, _ => [constTok c]
  | .matchSequence ps, _ => .op .lsqb :: (sepBy tComma (renderPatList ps 0) ++ [.op .rsqb])
  | .matchMapping ks ps rest, _ =>
    .op .lbrace :: (sepBy tComma (List.zipWith mapItemToks ks (renderPatList ps 0) ++ restItem rest) ++ [.op .rbrace])
  | .matchClass cls ps ka kp, _ =>
    patExprToks cls ++ .op .lpar ::
      (sepBy tComma (renderPatList ps 0 ++ List.zipWith kwItemToks ka (renderPatList kp 0)) ++ [.op .rpar])
  | .matchStar n, _ => [.op .star, patNameTok n]
  | .matchAs none n, _ => [patNameTok n]
  | .matchAs (some q) n, lvl => parenIf (decide (1 ≤ lvl)) (renderPat q 1 ++ [HK.tok .as, patNameTok n])
  | .matchOr ps, lvl => parenIf (decide (2 ≤ lvl)) (sepBy (.op .bar) (renderPatList ps 2))
/-- every pattern of a list at level `lvl` -/
def renderPatList : List Pattern → Nat → List (List Tok)
  | [], _ => []
  | p :: ps, lvl => renderPat p lvl :: renderPatList ps lvl
end

/-! ## statements -/

/-- `":" NEWLINE INDENT block DEDENT` -/
def suiteToks (block : List Tok) : List Tok := tColon :: tNewline :: tIndent :: (block ++ [tDedent])

/-- `("else" suite)?` -/
def elseToks (o : List Stmt) (block : List Tok) : List Tok :=
  if o.isEmpty then [] else .kw .else :: suiteToks block

/-- `("finally" suite)?` -/
def finallyToks (o : List Stmt) (block : List Tok) : List Tok :=
  if o.isEmpty then [] else HK.tok .finally :: suiteToks block

/-- `"except" "*"? (Test ("as" NAME)?)?` -/
def exceptHead (star : Bool) (ty : Option Expr) (nm : Option Ident) : List Tok :=
  HK.tok .except :: ((if star then [Tok.op .star] else []) ++
    (match ty with
     | some e => rx 1 e ++ asToks nm
     | none => []))

/-- `("if" NamedExpressionTest)?` -/
def guardToks : Option Expr → List Tok
  | none => []
  | some g => .kw .if :: rx 1 g

/-- `async` prefix -/
def asyncToks (a : Bool) : List Tok := if a then [.kw .async] else []

/-- the target of an annotated assignment: a name that is not `simple` was written in parentheses -/
def annTargetToks (t : Expr) (simple : Bool) : List Tok :=
  if isName t && !simple then .op .lpar :: (rx 1 t ++ [.op .rpar]) else rx 1 t

/-- `name (":" "=" …)* "="` of every target -/
def assignTargets : List Expr → List Tok
  | [] => []
  | t :: ts => rx 1 t ++ tAssign :: assignTargets ts

def forToks (a : Bool) (t i : Expr) (body : List Tok) (o : List Stmt) (oblock : List Tok) : List Tok :=
  asyncToks a ++ .kw .for :: (rx 6 t ++ .kw .in :: (rx 1 i ++ (suiteToks body ++ elseToks o oblock)))

def withToks (a : Bool) (items : List WithItem) (body : List Tok) : List Tok :=
  asyncToks a ++ HK.tok .with :: (renderWithItems items ++ suiteToks body)

def defToks (a : Bool) (n : Ident) (args : Arguments) (body : List Tok) (decos : List Expr) (returns : Option Expr)
    (tps : List TypeParam) : List Tok :=
  renderDecorators decos ++ (asyncToks a ++ HK.tok .def :: .name n :: (renderTypeParams tps ++ (renderParameters args ++
    ((match returns with
      | some r => tArrow :: rx 1 r
      | none => []) ++ suiteToks body))))

mutual
def renderStmt : Stmt → List Tok
  | .pass => [HK.tok .pass, tNewline]
  | .break => [HK.tok .break, tNewline]
  | .continue => [HK.tok .continue, tNewline]
  | .expr e => renderExpr e ++ [tNewline]
  | .return none => [HK.tok .return, tNewline]
  | .return (some e) => HK.tok .return :: (renderExpr e ++ [tNewline])
  | .delete ts => HK.tok .del :: (sepBy tComma (ts.map (rx 6)) ++ [tNewline])
  | .assign ts v => assignTargets ts ++ (rx 1 v ++ [tNewline])
  | .augAssign t o v => rx 1 t ++ tAug o :: (rx 1 v ++ [tNewline])
  | .annAssign t a v s => annTargetToks t s ++ tColon :: (rx 1 a ++ (optAssign v ++ [tNewline]))
  | .assert t m =>
    HK.tok .assert :: (rx 1 t ++
      ((match m with
        | some x => tComma :: rx 1 x
        | none => []) ++ [tNewline]))
  | .raise none _ => [HK.tok .raise, tNewline]
  | .raise (some e) c =>
    HK.tok .raise :: (rx 1 e ++
      ((match c with
        | some x => .kw .from :: rx 1 x
        | none => []) ++ [tNewline]))
  | .global ns => HK.tok .global :: (renderNames ns ++ [tNewline])
  | .nonlocal ns => HK.tok .nonlocal :: (renderNames ns ++ [tNewline])
  | .import names => HK.tok .import :: (sepBy tComma (names.map renderAliasDotted) ++ [tNewline])
  | .importFrom m names lvl =>
    .kw .from :: (levelToks (lvl.getD 0) ++
      ((match m with
        | some nm => dottedToks nm
        | none => []) ++ HK.tok .import :: (renderFromNames names ++ [tNewline])))
  | .typeAlias n tps v => HK.tok .type :: (rx 1 n ++ (renderTypeParams tps ++ tAssign :: (rx 1 v ++ [tNewline])))
  | .if t b o => .kw .if :: (renderExpr t ++ (suiteToks (renderBlock b) ++ elseToks o (renderBlock o)))
  | .while t b o => HK.tok .while :: (renderExpr t ++ (suiteToks (renderBlock b) ++ elseToks o (renderBlock o)))
  | .for t i b o => forToks false t i (renderBlock b) o (renderBlock o)
  | .asyncFor t i b o => forToks true t i (renderBlock b) o (renderBlock o)
  | .try b hs o f =>
    HK.tok .try :: (suiteToks (renderBlock b) ++ (renderHandlers hs false ++
      (elseToks o (renderBlock o) ++ finallyToks f (renderBlock f))))
  | .tryStar b hs o f =>
    HK.tok .try :: (suiteToks (renderBlock b) ++ (renderHandlers hs true ++
      (elseToks o (renderBlock o) ++ finallyToks f (renderBlock f))))
  | .with items b => withToks false items (renderBlock b)
  | .asyncWith items b => withToks true items (renderBlock b)
  | .functionDef n a b d r tp => defToks false n a (renderBlock b) d r tp
  | .asyncFunctionDef n a b d r tp => defToks true n a (renderBlock b) d r tp
  | .classDef n bases kws b d tp =>
    renderDecorators d ++ HK.tok .class :: .name n :: (renderTypeParams tp ++ (renderClassArgs bases kws ++
      suiteToks (renderBlock b)))
  | .match subj cases =>
    HK.tok .match :: (renderExpr subj ++ tColon :: tNewline :: tIndent :: (renderCases cases ++ [tDedent]))
def renderBlock : List Stmt → List Tok
  | [] => []
  | s :: ss => renderStmt s ++ renderBlock ss
def renderHandlers : List ExceptHandler → Bool → List Tok
  | [], _ => []
  | .mk ty nm b :: hs, star => exceptHead star ty nm ++ (suiteToks (renderBlock b) ++ renderHandlers hs star)
def renderCases : List MatchCase → List Tok
  | [] => []
  | .mk p g b :: cs => HK.tok .case :: (renderPat p 0 ++ (guardToks g ++ (suiteToks (renderBlock b) ++ renderCases cs)))
end

/-! ## the fragment -/

/-- an optional expression in an element position (`"=" TestList` of an annotated assignment) -/
def fxOptE : Option Expr → Bool
  | none => true
  | some e => fx .elem e

def fxTParams : List TypeParam → Bool
  | [] => true
  | .typeVar _ b :: r => fxOpt b && fxTParams r
  | _ :: r => fxTParams r

def fxArg (a : Arg) : Bool := fxOpt a.annotation

def fxParamsT : List ArgWithDefault → Bool
  | [] => true
  | p :: r => fxOpt p.arg.annotation && fxOpt p.default && fxParamsT r

/-- a parameter list of the fragment: expressions of the fragment, and the checks the parser makes when it builds
    the node (`validate_pos_params`, `validate_arguments`) -/
def fxArguments (a : Arguments) : Bool :=
  fxParamsT a.posonly && fxParamsT a.args && fxParamsT a.kwonly &&
    (match a.vararg with | some v => fxOptE v.annotation | none => true) &&
    (match a.kwarg with | some k => fxOpt k.annotation | none => true) &&
    validPos (a.posonly ++ a.args) && validNames a

def fxWithItems : List WithItem → Bool
  | [] => true
  | it :: r => fx .plain it.contextExpr && fxOpt it.optionalVars && fxWithItems r

/-- `ConstantAtom` -/
def isNumConst : Expr → Bool
  | .const (.int _) | .const (.float _) | .const (.imag _) => true
  | _ => false

/-- `ConstantExpr`: a number or `-` number -/
def isSignedNum : Expr → Bool
  | .unaryOp .uSub c => isNumConst c
  | e => isNumConst e

/-- `ConstantExpr | AddOpExpr` -/
def isConstExpr : Expr → Bool
  | .binOp l .add r | .binOp l .sub r => isSignedNum l && isNumConst r
  | e => isSignedNum e

/-- `MatchName ("." Identifier)*` -/
def isAttrChain : Expr → Bool
  | .name _ => true
  | .attribute v _ => isAttrChain v
  | _ => false

/-- a string or bytes literal (one token) -/
def isStrLit : Expr → Bool
  | .const (.str _ _) | .const (.bytes _) => true
  | _ => false

/-- the expression of a `MatchValue` pattern -/
def patValueOk (e : Expr) : Bool := isConstExpr e || isStrLit e || (isAttrChain e && !isName e)

/-- a `MappingKey` -/
def mapKeyOk : Expr → Bool
  | .const .none | .const (.bool _) => true
  | e => patValueOk e

/-- a name that is not `_` -/
def notWild : Option Ident → Bool
  | some n => n != [95]
  | none => true

mutual
def inFragPat : Pattern → Bool
  | .matchValue e => patValueOk e
  | .matchSingleton c => (match c with | .none | .bool _ => true | _ => false)
  | .matchSequence ps => inFragPats ps
  | .matchMapping ks ps _ => ks.all mapKeyOk && decide (ks.length = ps.length) && inFragPats ps
  | .matchClass cls ps ka kp => isAttrChain cls && decide (ka.length = kp.length) && inFragPats ps && inFragPats kp
  | .matchStar n => notWild n
  | .matchAs none n => notWild n
  | .matchAs (some q) n => n.isSome && notWild n && inFragPat q
  | .matchOr ps => decide (2 ≤ ps.length) && inFragPats ps
def inFragPats : List Pattern → Bool
  | [] => true
  | p :: ps => inFragPat p && inFragPats ps
end

/-- `from … import` names -/
def fromNamesOk (m : Option Ident) (names : List Alias) (lvl : Option Nat) : Bool :=
  !names.isEmpty && (match lvl with | some l => m.isSome || decide (1 ≤ l) | none => false)

mutual
def inFragS : Stmt → Bool
  | .pass => true
  | .break => true
  | .continue => true
  | .expr e => fx .elem e
  | .return none => true
  | .return (some e) => fx .elem e
  | .delete ts => !ts.isEmpty && fxList .elem ts
  | .assign ts v => !ts.isEmpty && fxList .elem ts && fx .elem v
  | .augAssign t _ v => fx .elem t && fx .elem v
  | .annAssign t a v s => fx .plain t && fx .plain a && fxOptE v && (!s || isName t)
  | .assert t m => fx .plain t && fxOpt m
  | .raise none none => true
  | .raise none (some _) => false
  | .raise (some e) c => fx .plain e && fxOpt c
  | .global ns => !ns.isEmpty
  | .nonlocal ns => !ns.isEmpty
  | .import names => !names.isEmpty
  | .importFrom m names lvl => fromNamesOk m names lvl
  | .typeAlias n tps v => isName n && fxTParams tps && fx .plain v
  | .if t b o => fx .plain t && !b.isEmpty && inFragB b && inFragB o
  | .while t b o => fx .plain t && !b.isEmpty && inFragB b && inFragB o
  | .for t i b o => fx .elem t && fx .elem i && !b.isEmpty && inFragB b && inFragB o
  | .asyncFor t i b o => fx .elem t && fx .elem i && !b.isEmpty && inFragB b && inFragB o
  | .try b hs o f =>
    !b.isEmpty && inFragB b && inFragHs hs false && inFragB o && inFragB f &&
      (if hs.isEmpty then o.isEmpty && !f.isEmpty else true)
  | .tryStar b hs o f => !b.isEmpty && inFragB b && !hs.isEmpty && inFragHs hs true && inFragB o && inFragB f
  | .with items b => !items.isEmpty && fxWithItems items && !b.isEmpty && inFragB b
  | .asyncWith items b => !items.isEmpty && fxWithItems items && !b.isEmpty && inFragB b
  | .functionDef _ a b d r tp =>
    fxArguments a && !b.isEmpty && inFragB b && fxList .plain d && fxOpt r && fxTParams tp
  | .asyncFunctionDef _ a b d r tp =>
    fxArguments a && !b.isEmpty && inFragB b && fxList .plain d && fxOpt r && fxTParams tp
  | .classDef _ bases kws b d tp =>
    fxList .elem bases && fxKeywords kws && kwFresh [] kws && !b.isEmpty && inFragB b && fxList .plain d && fxTParams tp
  | .match subj cases => fx .elem subj && !cases.isEmpty && inFragCs cases
def inFragB : List Stmt → Bool
  | [] => true
  | s :: ss => inFragS s && inFragB ss
/-- handlers: non-empty bodies; a name needs a type; the handlers of `try*` all have a type -/
def inFragHs : List ExceptHandler → Bool → Bool
  | [], _ => true
  | .mk ty nm b :: hs, star =>
    fxOpt ty && (ty.isSome || (nm.isNone && !star)) && !b.isEmpty && inFragB b && inFragHs hs star
def inFragCs : List MatchCase → Bool
  | [] => true
  | .mk p g b :: cs => inFragPat p && fxOpt g && !b.isEmpty && inFragB b && inFragCs cs
end

/-- back from the single token type to the parser's alphabet -/
def PTok.ofTok (t : Tok) : PTok :=
  if t = tNewline then .newline else if t = tIndent then .indent else if t = tDedent then .dedent else .e t

theorem PTok.toTok_ofTok (t : Tok) : (PTok.ofTok t).toTok = t := by
  unfold PTok.ofTok
  split
  · rename_i h; simp [PTok.toTok, h]
  · split
    · rename_i h; simp [PTok.toTok, h]
    · split
      · rename_i h; simp [PTok.toTok, h]
      · rfl

/-- **the printer** (canonical layout) -/
def render : Mod → List PTok
  | .module ss => (renderBlock ss).map PTok.ofTok
  | .interactive ss => (renderBlock ss).map PTok.ofTok
  | .expression e => (renderExpr e ++ [tNewline]).map PTok.ofTok

/-- the fragment of the proved round trip -/
def inFragM : Mod → Bool
  | .module ss => inFragB ss
  | .interactive ss => inFragB ss
  | .expression e => fx .elem e

/-- **the fragment of the proved round trip, as a proposition**: all 28 statement kinds, all 8 pattern kinds,
    parameters, with-items, type parameters and decorators over C11's extended expression fragment `InFragmentX`
    (`fx`), with the side conditions every parser-built tree has (see design/PROG.md) -/
def InFragmentP (m : Mod) : Prop := inFragM m = true

instance (m : Mod) : Decidable (InFragmentP m) := inferInstanceAs (Decidable (_ = true))

/-- the mode a tree belongs to -/
def modeOf : Mod → Mode
  | .module _ => .module
  | .interactive _ => .interactive
  | .expression _ => .expression

end PV.Prog
