import PV.Prog.Parse
import PV.C11.Model
import PV.C11.Fragment
/-
  PV.Prog.Render — a statement printer in canonical layout (one statement per line, one INDENT / DEDENT pair per
  block, `else:` blocks but no `elif`) for the FRAGMENT of programs for which the round trip
  `parseProgram (render m) = some m` is proved (`PV.Prog.render_parse_partial`):

    Pass, Break, Continue, Expr e, Return (with and without value), If / While with non-empty bodies and optional
    `else` blocks — nested arbitrarily — over the expression fragment `PV.Expr.InFragment` of C11; Module,
    Interactive and Expression mode.

  Expressions are rendered as the model of `ast/src/unparse.rs` renders them (`PV.C11.unparse`, token level).
  Core Lean only.
-/
namespace PV.Prog
open PV.Expr PV.C11

/-- tokens of an expression in the rendering of `format!("{}", e)` (PV.C11.Model) -/
def renderExpr (e : Expr) : List Tok := toks (unparse (fun _ => true) e 1)

mutual
def renderStmt : Stmt → List Tok
  | .pass => [HK.tok .pass, tNewline]
  | .break => [HK.tok .break, tNewline]
  | .continue => [HK.tok .continue, tNewline]
  | .expr e => renderExpr e ++ [tNewline]
  | .return none => [HK.tok .return, tNewline]
  | .return (some e) => HK.tok .return :: (renderExpr e ++ [tNewline])
  | .if t b o => .kw .if :: (renderExpr t ++ (.op .colon :: tNewline :: tIndent :: (renderBlock b ++ (tDedent :: renderElse o))))
  | .while t b o => HK.tok .while :: (renderExpr t ++ (.op .colon :: tNewline :: tIndent :: (renderBlock b ++ (tDedent :: renderElse o))))
  | _ => []
def renderBlock : List Stmt → List Tok
  | [] => []
  | s :: ss => renderStmt s ++ renderBlock ss
def renderElse : List Stmt → List Tok
  | [] => []
  | s :: ss => .kw .else :: .op .colon :: tNewline :: tIndent :: (renderStmt s ++ (renderBlock ss ++ [tDedent]))
end

mutual
def inFragS : Stmt → Bool
  | .pass => true
  | .break => true
  | .continue => true
  | .expr e => inFrag e
  | .return none => true
  | .return (some e) => inFrag e
  | .if t b o => inFrag t && !b.isEmpty && inFragB b && inFragB o
  | .while t b o => inFrag t && !b.isEmpty && inFragB b && inFragB o
  | _ => false
def inFragB : List Stmt → Bool
  | [] => true
  | s :: ss => inFragS s && inFragB ss
end

/-- back from the single token type to the parser's alphabet -/
def PTok.ofTok (t : Tok) : PTok :=
  if t = tNewline then .newline else if t = tIndent then .indent else if t = tDedent then .dedent else .e t

theorem PTok.toTok_ofTok (t : Tok) : (PTok.ofTok t).toTok = t := by
  unfold PTok.ofTok
  split
  · rename_i h; simp [PTok.toTok, h]
  · split
    · rename_i h; simp [PTok.toTok, h]
    · split
      · rename_i h; simp [PTok.toTok, h]
      · rfl

/-- **the printer** (canonical layout) -/
def render : Mod → List PTok
  | .module ss => (renderBlock ss).map PTok.ofTok
  | .interactive ss => (renderBlock ss).map PTok.ofTok
  | .expression e => (renderExpr e ++ [tNewline]).map PTok.ofTok

/-- the fragment of the proved round trip -/
def inFragM : Mod → Bool
  | .module ss => inFragB ss
  | .interactive ss => inFragB ss
  | .expression e => inFrag e

/-- the mode a tree belongs to -/
def modeOf : Mod → Mode
  | .module _ => .module
  | .interactive _ => .interactive
  | .expression _ => .expression

end PV.Prog
