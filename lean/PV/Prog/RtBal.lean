import PV.Prog.RtBase
/-
  PV.Prog.RtBal — the token rendering of EVERY expression is bracket-balanced, in the form the bracket scanner of
  `with ( … ) :` (`afterClose`, PV.Prog.Parse) needs: at any depth ≥ 1 the scanner skips `rx lvl e` entirely
  (`afterClose_rx`).  No fragment hypothesis: every arm of `PV.C11.unparse` opens and closes its own brackets,
  a `FormattedValue` renders to raw text (no token) and a `JoinedStr` to ONE f-string token.

  Working form: `afterClose (d + 1) (toks os ++ rest) = afterClose (d + 1) rest` for all `d`, `rest` — a rewrite rule
  that `simp` applies from left to right through a rendering in `cons`/`++` normal form; one mutual structural
  induction (`bal_unparse` …) along the recursion of `unparse`.
-/
set_option linter.unusedSimpArgs false
namespace PV.Prog
open PV.Expr PV.C11

/-- `ts` is balanced: the bracket scanner skips it at every depth ≥ 1 -/
def Bal (ts : List Tok) : Prop := ∀ d, 1 ≤ d → ∀ rest, afterClose d (ts ++ rest) = afterClose d rest

/-- the tokens of an output are balanced -/
def BalO (os : List Out) : Prop := Bal (toks os)

theorem bal_iff (ts : List Tok) :
    Bal ts ↔ ∀ d rest, afterClose (d + 1) (ts ++ rest) = afterClose (d + 1) rest := by
  constructor
  · intro h d rest; exact h (d + 1) (by omega) rest
  · intro h d hd rest
    obtain ⟨d', rfl⟩ : ∃ d', d = d' + 1 := ⟨d - 1, by omega⟩
    exact h d' rest

theorem Bal.nil : Bal [] := fun _ _ _ => rfl

theorem Bal.append {a b : List Tok} (ha : Bal a) (hb : Bal b) : Bal (a ++ b) := by
  intro d hd rest; rw [List.append_assoc, ha d hd, hb d hd]

def isBracket (o : Op) : Bool :=
  o = .lpar ∨ o = .lsqb ∨ o = .lbrace ∨ o = .rpar ∨ o = .rsqb ∨ o = .rbrace

@[simp] theorem afterClose_lpar (d : Nat) (r : List Tok) : afterClose d (.op .lpar :: r) = afterClose (d + 1) r := by
  simp [afterClose]
@[simp] theorem afterClose_lsqb (d : Nat) (r : List Tok) : afterClose d (.op .lsqb :: r) = afterClose (d + 1) r := by
  simp [afterClose]
@[simp] theorem afterClose_lbrace (d : Nat) (r : List Tok) : afterClose d (.op .lbrace :: r) = afterClose (d + 1) r := by
  simp [afterClose]
@[simp] theorem afterClose_rpar (d : Nat) (r : List Tok) : afterClose (d + 1 + 1) (.op .rpar :: r) = afterClose (d + 1) r := by
  simp [afterClose]
@[simp] theorem afterClose_rsqb (d : Nat) (r : List Tok) : afterClose (d + 1 + 1) (.op .rsqb :: r) = afterClose (d + 1) r := by
  simp [afterClose]
@[simp] theorem afterClose_rbrace (d : Nat) (r : List Tok) : afterClose (d + 1 + 1) (.op .rbrace :: r) = afterClose (d + 1) r := by
  simp [afterClose]

theorem afterClose_op {o : Op} (h : isBracket o = false) (d : Nat) (r : List Tok) :
    afterClose d (.op o :: r) = afterClose d r := by
  simp [isBracket] at h
  simp [afterClose, h]

/-- a token that is not a bracket -/
theorem Bal.op {o : Op} (h : isBracket o = false) : Bal [.op o] := by
  intro d _ rest; exact afterClose_op h d rest

/-- `open a close` for any opening and any closing bracket (the scanner does not match kinds) -/
theorem Bal.wrap {a : List Tok} {o c : Op} (ho : o = .lpar ∨ o = .lsqb ∨ o = .lbrace)
    (hc : c = .rpar ∨ c = .rsqb ∨ c = .rbrace) (ha : Bal a) : Bal (.op o :: (a ++ [.op c])) := by
  intro d hd rest
  obtain ⟨d', rfl⟩ : ∃ d', d = d' + 1 := ⟨d - 1, by omega⟩
  have := ha (d' + 1 + 1) (by omega) (.op c :: rest)
  rcases ho with rfl | rfl | rfl <;> rcases hc with rfl | rfl | rfl <;> simpa using this

@[simp] theorem afterClose_name (d : Nat) (x : Ident) (r : List Tok) : afterClose d (.name x :: r) = afterClose d r := by
  simp [afterClose]
@[simp] theorem afterClose_kw (d : Nat) (k : Kw) (r : List Tok) : afterClose d (.kw k :: r) = afterClose d r := by
  simp [afterClose]
@[simp] theorem afterClose_fstr (d : Nat) (q : Nat) (a b : Bool) (s : List Nat) (r : List Tok) :
    afterClose d (.fstr q a b s :: r) = afterClose d r := by
  simp [afterClose]
@[simp] theorem afterClose_constTok (d : Nat) (c : Const) (r : List Tok) : afterClose d (constTok c :: r) = afterClose d r := by
  cases c <;> try (simp [constTok, afterClose]; done)
  case bool b => cases b <;> simp [constTok, afterClose]
@[simp] theorem afterClose_binOpTok (d : Nat) (o : BinOp) (r : List Tok) :
    afterClose d (.op (binOpTok o) :: r) = afterClose d r := by
  cases o <;> simp [binOpTok, afterClose]
@[simp] theorem afterClose_unaryOpOuts (d : Nat) (o : UnaryOp) (r : List Tok) :
    afterClose d (toks (unaryOpOuts o) ++ r) = afterClose d r := by
  cases o <;> simp [unaryOpOuts, afterClose, op, kw]
@[simp] theorem afterClose_cmpOpOuts (d : Nat) (o : CmpOp) (r : List Tok) :
    afterClose d (toks (cmpOpOuts o) ++ r) = afterClose d r := by
  cases o <;> simp [cmpOpOuts, afterClose, op, kw]
@[simp] theorem afterClose_delim (d : Nat) (first : Bool) (r : List Tok) :
    afterClose d (toks (delim first) ++ r) = afterClose d r := by
  cases first <;> simp [delim, afterClose, op]
@[simp] theorem toks_raw (s : List Nat) (r : List Out) : toks (.raw s :: r) = toks r := rfl


theorem afterClose_groupIf (g : Bool) (body : List Out)
    (h : ∀ d rest, afterClose (d + 1) (toks body ++ rest) = afterClose (d + 1) rest) (d : Nat) (rest : List Tok) :
    afterClose (d + 1) (toks (groupIf g body) ++ rest) = afterClose (d + 1) rest := by
  cases g <;> simp [groupIf, h, op]

theorem afterClose_call (p : Nat → Bool) (fn : Expr) (args : List Expr) (ks : List Keyword)
    (hf : ∀ lvl d rest, afterClose (d + 1) (toks (unparse p fn lvl) ++ rest) = afterClose (d + 1) rest)
    (ha : ∀ lvl first d rest, afterClose (d + 1) (toks (unparseSeq p args lvl first) ++ rest) = afterClose (d + 1) rest)
    (hk : ∀ first d rest, afterClose (d + 1) (toks (unparseKeywords p ks first) ++ rest) = afterClose (d + 1) rest)
    (lvl d : Nat) (rest : List Tok) :
    afterClose (d + 1) (toks (unparse p (.call fn args ks) lvl) ++ rest) = afterClose (d + 1) rest := by
  by_cases h : ∃ e gs, args = [.genExp e gs] ∧ ks = []
  · obtain ⟨e, gs, rfl, rfl⟩ := h
    have := ha 1 true d rest
    simp [unparseSeq, unparse, op, Prec.TEST] at this
    simpa [toks_call_gen, hf] using this
  · rw [toks_call p fn args ks lvl (by intro e gs hh; exact h ⟨e, gs, hh⟩)]
    simp [hf, ha, hk]

mutual
theorem bal_unparse (p : Nat → Bool) : (e : Expr) → ∀ lvl d rest,
    afterClose (d + 1) (toks (unparse p e lvl) ++ rest) = afterClose (d + 1) rest
  | .boolOp o values, lvl, d, rest => by
    simp only [unparse]
    exact afterClose_groupIf _ _ (fun d rest => bal_bool p values _ _ _ d rest) d rest
  | .namedExpr target value, lvl, d, rest => by
    simp only [unparse]
    refine afterClose_groupIf _ _ (fun d rest => ?_) d rest
    simp [bal_unparse p target, bal_unparse p value, op, afterClose]
  | .binOp l o r, lvl, d, rest => by
    simp only [unparse]
    refine afterClose_groupIf _ _ (fun d rest => ?_) d rest
    simp [bal_unparse p l, bal_unparse p r, op]
  | .unaryOp o x, lvl, d, rest => by
    simp only [unparse]
    refine afterClose_groupIf _ _ (fun d rest => ?_) d rest
    simp [bal_unparse p x]
  | .lambda posonly args vararg kwonly kwarg body, lvl, d, rest => by
    simp only [unparse]
    refine afterClose_groupIf _ _ (fun d rest => ?_) d rest
    cases vararg <;> cases kwarg <;> simp only [] <;> (repeat' split) <;>
      simp [bal_unparse p body, bal_pos p posonly, bal_pos p args, bal_kwonly p kwonly, op, kw, afterClose]
  | .ifExp t b o, lvl, d, rest => by
    simp only [unparse]
    refine afterClose_groupIf _ _ (fun d rest => ?_) d rest
    simp [bal_unparse p t, bal_unparse p b, bal_unparse p o, kw]
  | .dict items, lvl, d, rest => by simp [unparse, op, bal_items p items]
  | .set es, lvl, d, rest => by simp [unparse, op, bal_seq p es]
  | .listComp e gs, lvl, d, rest => by simp [unparse, op, bal_unparse p e, bal_comp p gs]
  | .setComp e gs, lvl, d, rest => by simp [unparse, op, bal_unparse p e, bal_comp p gs]
  | .dictComp k v gs, lvl, d, rest => by
    simp [unparse, op, bal_unparse p k, bal_unparse p v, bal_comp p gs, afterClose]
  | .genExp e gs, lvl, d, rest => by simp [unparse, op, bal_unparse p e, bal_comp p gs]
  | .await v, lvl, d, rest => by
    simp only [unparse]
    refine afterClose_groupIf _ _ (fun d rest => ?_) d rest
    simp [bal_unparse p v, kw]
  | .yield (some v), lvl, d, rest => by simp [unparse, op, kw, bal_unparse p v]
  | .yield none, lvl, d, rest => by simp [unparse, op, kw]
  | .yieldFrom v, lvl, d, rest => by simp [unparse, op, kw, bal_unparse p v]
  | .compare l ops cs, lvl, d, rest => by
    simp only [unparse]
    refine afterClose_groupIf _ _ (fun d rest => ?_) d rest
    simp [bal_unparse p l, bal_cmps p cs]
  | .call fn args ks, lvl, d, rest =>
    afterClose_call p fn args ks (bal_unparse p fn) (bal_seq p args) (bal_kws p ks) lvl d rest
  | .formattedValue v c s, lvl, d, rest => by simp [unparse]
  | .joinedStr vs, lvl, d, rest => by simp [unparse, fstrTok]
  | .const c, lvl, d, rest => by simp [unparse]
  | .attribute v a, lvl, d, rest => by
    simp [unparse, bal_unparse p v]
    split <;> simp [afterClose, op]
  | .subscript v s, lvl, d, rest => by simp [unparse, op, bal_unparse p v, bal_unparse p s]
  | .starred v, lvl, d, rest => by simp [unparse, op, bal_unparse p v, afterClose]
  | .name x, lvl, d, rest => by simp [unparse]
  | .list es, lvl, d, rest => by simp [unparse, op, bal_seq p es]
  | .tuple es, lvl, d, rest => by
    simp only [unparse]
    split
    · simp [op]
    · refine afterClose_groupIf _ _ (fun d rest => ?_) d rest
      simp [bal_seq p es]
      split <;> simp [afterClose, op]
  | .slice lo hi st, lvl, d, rest => by
    cases st <;> simp [unparse, op, bal_opt p lo, bal_opt p hi, afterClose]
    case some s => simp [bal_unparse p s]
theorem bal_bool (p : Nat → Bool) : (vs : List Expr) → ∀ k lvl first d rest,
    afterClose (d + 1) (toks (unparseBool p vs k lvl first) ++ rest) = afterClose (d + 1) rest
  | [], k, lvl, first, d, rest => by simp [unparseBool]
  | v :: vs, k, lvl, first, d, rest => by
    cases first <;> simp [unparseBool, bal_unparse p v, bal_bool p vs, kw]
theorem bal_seq (p : Nat → Bool) : (xs : List Expr) → ∀ lvl first d rest,
    afterClose (d + 1) (toks (unparseSeq p xs lvl first) ++ rest) = afterClose (d + 1) rest
  | [], lvl, first, d, rest => by simp [unparseSeq]
  | x :: xs, lvl, first, d, rest => by simp [unparseSeq, bal_unparse p x, bal_seq p xs]
theorem bal_opt (p : Nat → Bool) : (o : Option Expr) → ∀ lvl d rest,
    afterClose (d + 1) (toks (unparseOpt p o lvl) ++ rest) = afterClose (d + 1) rest
  | none, lvl, d, rest => by simp [unparseOpt]
  | some e, lvl, d, rest => by simp [unparseOpt, bal_unparse p e]
theorem bal_items (p : Nat → Bool) : (is : List DictItem) → ∀ first d rest,
    afterClose (d + 1) (toks (unparseDictItems p is first) ++ rest) = afterClose (d + 1) rest
  | [], first, d, rest => by simp [unparseDictItems]
  | .mk (some k) v :: is, first, d, rest => by
    simp [unparseDictItems, bal_unparse p k, bal_unparse p v, bal_items p is, op, afterClose]
  | .mk none v :: is, first, d, rest => by
    simp [unparseDictItems, bal_unparse p v, bal_items p is, op, afterClose]
theorem bal_cmps (p : Nat → Bool) : (cs : List Expr) → ∀ os d rest,
    afterClose (d + 1) (toks (unparseCmps p os cs) ++ rest) = afterClose (d + 1) rest
  | [], os, d, rest => by cases os <;> simp [unparseCmps]
  | c :: cs, [], d, rest => by simp [unparseCmps]
  | c :: cs, o :: os, d, rest => by simp [unparseCmps, bal_unparse p c, bal_cmps p cs]
theorem bal_kws (p : Nat → Bool) : (ks : List Keyword) → ∀ first d rest,
    afterClose (d + 1) (toks (unparseKeywords p ks first) ++ rest) = afterClose (d + 1) rest
  | [], first, d, rest => by simp [unparseKeywords]
  | .mk (some a) v :: ks, first, d, rest => by
    simp [unparseKeywords, bal_unparse p v, bal_kws p ks, op, afterClose]
  | .mk none v :: ks, first, d, rest => by
    simp [unparseKeywords, bal_unparse p v, bal_kws p ks, op, afterClose]
theorem bal_param (p : Nat → Bool) : (a : Param) → ∀ d rest,
    afterClose (d + 1) (toks (unparseParam p a) ++ rest) = afterClose (d + 1) rest
  | .mk n none, d, rest => by simp [unparseParam]
  | .mk n (some v), d, rest => by simp [unparseParam, bal_unparse p v, op, afterClose]
theorem bal_pos (p : Nat → Bool) : (as : List Param) → ∀ i npos first d rest,
    afterClose (d + 1) (toks (unparsePosParams p as i npos first) ++ rest) = afterClose (d + 1) rest
  | [], i, npos, first, d, rest => by simp [unparsePosParams]
  | a :: as, i, npos, first, d, rest => by
    simp only [unparsePosParams]
    split <;> simp [bal_param p a, bal_pos p as, afterClose, op]
theorem bal_kwonly (p : Nat → Bool) : (as : List Param) → ∀ first d rest,
    afterClose (d + 1) (toks (unparseKwonly p as first) ++ rest) = afterClose (d + 1) rest
  | [], first, d, rest => by simp [unparseKwonly]
  | a :: as, first, d, rest => by simp [unparseKwonly, bal_param p a, bal_kwonly p as]
theorem bal_comp (p : Nat → Bool) : (gs : List Comp) → ∀ d rest,
    afterClose (d + 1) (toks (unparseComp p gs) ++ rest) = afterClose (d + 1) rest
  | [], d, rest => by simp [unparseComp]
  | .mk t it ifs isAsync :: gs, d, rest => by
    -- the target is written by `unparseTarget` (PV.C11.Model): a non-empty tuple bare, anything else by `unparse`
    have ht : ∀ d rest, afterClose (d + 1) (toks (unparseTarget p t) ++ rest) = afterClose (d + 1) rest := by
      intro d rest
      have h0 := bal_unparse p t Prec.EXPR d rest
      cases t with
      | tuple es =>
        have hs := bal_seq p es
        cases es with
        | nil => simpa [unparseTarget] using h0
        | cons x xs =>
          simp [unparseTarget, hs]
          split <;> simp [afterClose, op]
      | _ => simpa [unparseTarget] using h0
    rw [unparseComp_cons]
    cases isAsync <;>
      simp [ht, bal_unparse p it, bal_ifs p ifs, bal_comp p gs, kw]
theorem bal_ifs (p : Nat → Bool) : (cs : List Expr) → ∀ d rest,
    afterClose (d + 1) (toks (unparseIfs p cs) ++ rest) = afterClose (d + 1) rest
  | [], d, rest => by simp [unparseIfs]
  | c :: cs, d, rest => by simp [unparseIfs, bal_unparse p c, bal_ifs p cs, kw]
end


/-- every rendering is balanced -/
theorem balO_unparse (p : Nat → Bool) (e : Expr) (lvl : Nat) : BalO (unparse p e lvl) :=
  (bal_iff _).2 (bal_unparse p e lvl)

theorem bal_rx (lvl : Nat) (e : Expr) : Bal (rx lvl e) := balO_unparse P0 e lvl

/-- the rendering of an expression is balanced: the bracket scanner of `with ( … ) :` skips it -/
theorem afterClose_rx (e : Expr) (lvl d : Nat) (hd : 1 ≤ d) (rest : List Tok) :
    afterClose d (rx lvl e ++ rest) = afterClose d rest := by
  obtain ⟨d', rfl⟩ : ∃ d', d = d' + 1 := ⟨d - 1, by omega⟩
  exact bal_unparse P0 e lvl d' rest

/-- `f([{a: (), **b}], k=(x for x in y))[1:2]` followed by `) :` -/
example :
    afterClose 1 (rx 1 (.subscript
        (.call (.name [102])
          [.list [.dict [.mk (some (.name [97])) (.tuple []), .mk none (.name [98])]]]
          [.mk (some [107]) (.genExp (.name [120]) [.mk (.name [120]) (.name [121]) [] false])])
        (.slice (some (.const (.int 1))) (some (.const (.int 2))) none)) ++ [.op .rpar, .op .colon]) =
      some [.op .colon] := by decide

end PV.Prog
