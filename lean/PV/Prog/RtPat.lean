import PV.Prog.RtBase
/-
  PV.Prog.RtPat — the round trip of the PATTERN printer (`renderPat`) through the reference pattern parser
  (`parsePatterns` and the mutual block `parsePattern` … `parseMapItems` of PV.Prog.Parse): a pattern of the fragment
  (`inFragPat`), printed at level 0 after `case` and followed by `:` or `if`, is read back by `Patterns`.
-/
set_option linter.unusedSimpArgs false
namespace PV.Prog
open PV.Expr PV.C11

/-! ## value expressions -/

theorem attrChain_toks (e : Expr) (h : isAttrChain e = true) :
    ∃ n0 sfx, attrToks e = .name n0 :: sfx ∧ (∀ r2, sfx ≠ .op .assign :: r2) ∧
      ∀ d rest, attrChain (.name n0) d (sfx ++ rest) = attrChain e (d || !isName e) rest := by
  fun_induction isAttrChain e with
  | case1 n => exact ⟨n, [], rfl, by simp, fun d rest => by simp [isName]⟩
  | case2 v a ih =>
    obtain ⟨n0, sfx, h1, h3, h2⟩ := ih h
    refine ⟨n0, sfx ++ [.op .dot, .name a], by simp [attrToks, h1], ?_, fun d rest => ?_⟩
    · cases sfx with
      | nil => simp
      | cons t r => intro r2 hh; exact h3 r (by simp at hh; rw [hh.1])
    · rw [List.append_assoc, h2]
      simp [attrChain, isName]
  | case3 e h1 h2 => simp at h

theorem attrChain_stop (e : Expr) (d : Bool) (c : Tok) (rest : List Tok) (hc : c ≠ .op .dot) :
    attrChain e d (c :: rest) = some (e, d, c :: rest) := by
  rw [attrChain.eq_3]
  · intro n r h; cases h; exact hc rfl
  · intro r h; cases h; exact hc rfl

/-- a dotted name followed by a token that is not a dot -/
theorem attrChain_rt (e : Expr) (h : isAttrChain e = true) (c : Tok) (hc : c ≠ .op .dot) (rest : List Tok) :
    ∃ n0 sfx, attrToks e = .name n0 :: sfx ∧ (∀ r2, sfx ≠ .op .assign :: r2) ∧
      attrChain (.name n0) false (sfx ++ c :: rest) = some (e, !isName e, c :: rest) := by
  obtain ⟨n0, sfx, h1, h3, h2⟩ := attrChain_toks e h
  exact ⟨n0, sfx, h1, h3, by rw [h2, attrChain_stop _ _ _ _ hc]; simp⟩

theorem patExprToks_attr (e : Expr) (h : isAttrChain e = true) : patExprToks e = attrToks e := by
  cases e <;> simp [isAttrChain] at h <;> simp [patExprToks, attrToks]


theorem numConst_inv {e : Expr} (h : isNumConst e = true) :
    ∃ k, e = .const k ∧ constAtom (constTok k) = some (.const k) ∧ constTok k ≠ .op .minus := by
  unfold isNumConst at h
  split at h
  · exact ⟨_, rfl, rfl, by simp [constTok]⟩
  · exact ⟨_, rfl, rfl, by simp [constTok]⟩
  · exact ⟨_, rfl, rfl, by simp [constTok]⟩
  · cases h

theorem addTail_stop (l : Expr) (c : Tok) (rest : List Tok) (hp : c ≠ .op .plus) (hm : c ≠ .op .minus) :
    addTail l (c :: rest) = some (l, c :: rest) := by
  rw [addTail.eq_5]
  · intro t r h; cases h; exact hp rfl
  · intro t r h; cases h; exact hm rfl
  · intro h; cases h; exact hp rfl
  · intro h; cases h; exact hm rfl

theorem signedNum_rt {l : Expr} (h : isSignedNum l = true) (r : List Tok) :
    parseConstExpr (numToks l ++ r) = addTail l r := by
  unfold isSignedNum at h
  split at h
  · obtain ⟨k, rfl, hk, _⟩ := numConst_inv h
    simp [numToks, parseConstExpr, hk]
  · obtain ⟨k, rfl, hk, hm⟩ := numConst_inv h
    simp only [numToks, List.cons_append, List.nil_append]
    rw [parseConstExpr.eq_2]
    · simp [hk]
    · intro t r' hh; exact absurd hh hm

theorem signedNum_toks {l : Expr} (h : isSignedNum l = true) : patExprToks l = numToks l := by
  unfold isSignedNum at h
  split at h
  · obtain ⟨k, rfl, _, _⟩ := numConst_inv h; rfl
  · obtain ⟨k, rfl, _, _⟩ := numConst_inv h; rfl

/-- `ConstantExpr | AddOpExpr` followed by a token that is neither `+` nor `-` -/
theorem constExpr_rt {e : Expr} (h : isConstExpr e = true) (c : Tok) (hp : c ≠ .op .plus) (hm : c ≠ .op .minus)
    (rest : List Tok) : parseConstExpr (patExprToks e ++ c :: rest) = some (e, c :: rest) := by
  unfold isConstExpr at h
  split at h
  · simp only [Bool.and_eq_true] at h
    obtain ⟨k, rfl, hk, _⟩ := numConst_inv h.2
    simp only [patExprToks, List.append_assoc, List.cons_append, List.nil_append]
    rw [signedNum_rt h.1]
    simp [addTail, hk]
  · simp only [Bool.and_eq_true] at h
    obtain ⟨k, rfl, hk, _⟩ := numConst_inv h.2
    simp only [patExprToks, List.append_assoc, List.cons_append, List.nil_append]
    rw [signedNum_rt h.1]
    simp [addTail, hk]
  · rw [signedNum_toks h, signedNum_rt h, addTail_stop _ _ _ hp hm]

/-! ## the token after a pattern -/

/-- the tokens that can follow a closed pattern: `,` `)` `]` `}` `|` `as` `:` `if` -/
def PatNext (c : Tok) : Prop :=
  c = .op .comma ∨ c = .op .rpar ∨ c = .op .rsqb ∨ c = .op .rbrace ∨ c = .op .bar ∨ c = HK.tok .as ∨
    c = .op .colon ∨ c = .kw .if

/-- what the parser functions look at in the token after a value -/
structure NextOk (c : Tok) : Prop where
  notDot : c ≠ .op .dot
  notLpar : c ≠ .op .lpar
  notPlus : c ≠ .op .plus
  notMinus : c ≠ .op .minus
  notAssign : c ≠ .op .assign
  notStr : isStringTok c = false

theorem PatNext.ok {c : Tok} (h : PatNext c) : NextOk c := by
  rcases h with rfl | rfl | rfl | rfl | rfl | rfl | rfl | rfl <;>
    exact ⟨by simp [HK.tok], by simp [HK.tok], by simp [HK.tok], by simp [HK.tok], by simp [HK.tok], rfl⟩

theorem nextOk_colon : NextOk (.op .colon) := PatNext.ok (by simp [PatNext])

theorem noStr_cons {c : Tok} (h : isStringTok c = false) (rest : List Tok) : NoStr (c :: rest) := by
  intro t r hh; cases hh; exact h

/-! ## first tokens -/

/-- FIRST of a number -/
def numHead : Tok → Bool
  | .int _ | .float _ | .imag _ | .op .minus => true
  | _ => false

theorem parseClosed_num {t : Tok} (h : numHead t = true) (f : Nat) (r : List Tok) {e : Expr} {r' : List Tok}
    (hp : parseConstExpr (t :: r) = some (e, r')) : parseClosed (f + 1) (t :: r) = some (.matchValue e, r') := by
  unfold numHead at h
  split at h
  case h_5 => cases h
  all_goals simp [parseClosed, hp]

theorem parseMapKey_num {t : Tok} (h : numHead t = true) (f : Nat) (r : List Tok) :
    parseMapKey (f + 1) (t :: r) = parseConstExpr (t :: r) := by
  unfold numHead at h
  split at h
  case h_5 => cases h
  all_goals simp [parseMapKey]

theorem signedNum_head {l : Expr} (h : isSignedNum l = true) : ∃ t r, numToks l = t :: r ∧ numHead t = true := by
  unfold isSignedNum at h
  split at h
  · obtain ⟨k, rfl, _, _⟩ := numConst_inv h; exact ⟨_, _, rfl, rfl⟩
  · unfold isNumConst at h
    split at h <;> first | exact ⟨_, _, rfl, rfl⟩ | cases h

theorem constExpr_head {e : Expr} (h : isConstExpr e = true) : ∃ t r, patExprToks e = t :: r ∧ numHead t = true := by
  unfold isConstExpr at h
  split at h
  · simp only [Bool.and_eq_true] at h
    obtain ⟨k, rfl, _, _⟩ := numConst_inv h.2
    obtain ⟨t, r, h1, h2⟩ := signedNum_head h.1
    exact ⟨t, _, by simp only [patExprToks, h1, List.cons_append]; rfl, h2⟩
  · simp only [Bool.and_eq_true] at h
    obtain ⟨k, rfl, _, _⟩ := numConst_inv h.2
    obtain ⟨t, r, h1, h2⟩ := signedNum_head h.1
    exact ⟨t, _, by simp only [patExprToks, h1, List.cons_append]; rfl, h2⟩
  · obtain ⟨t, r, h1, h2⟩ := signedNum_head h
    exact ⟨t, r, by rw [signedNum_toks h, h1], h2⟩


/-! ## first tokens of patterns -/

/-- FIRST of `Pattern`, on the first token -/
def patStart : Tok → Bool
  | .name _ | .int _ | .float _ | .imag _ | .str _ _ | .bytes _ | .fstr _ _ _ _ => true
  | .kw .true | .kw .false | .kw .none => true
  | .op .minus | .op .star | .op .lpar | .op .lsqb | .op .lbrace => true
  | _ => false

theorem startsPattern_cons (t : Tok) (r : List Tok) : startsPattern (t :: r) = patStart t := by
  unfold startsPattern
  split <;> simp_all [patStart]

/-- the rendering starts with a token of FIRST(`Pattern`) and does not begin `NAME =` -/
def HeadOk (ts : List Tok) : Prop := ∃ t r, ts = t :: r ∧ patStart t = true ∧ ∀ r2, r ≠ .op .assign :: r2

theorem HeadOk.append {ts : List Tok} (h : HeadOk ts) (more : List Tok) (hm : ∀ r2, more ≠ .op .assign :: r2) :
    HeadOk (ts ++ more) := by
  obtain ⟨t, r, rfl, h1, h2⟩ := h
  refine ⟨t, r ++ more, rfl, h1, ?_⟩
  cases r with
  | nil => simpa using hm
  | cons t2 r2 => intro r3 hh; exact h2 r2 (by simp at hh; rw [hh.1])

theorem HeadOk.paren {ts : List Tok} (h : HeadOk ts) (more : List Tok) : HeadOk (.op .lpar :: (ts ++ more)) := by
  obtain ⟨t, r, rfl, h1, h2⟩ := h
  refine ⟨_, _, rfl, rfl, ?_⟩
  intro r2 hh
  simp at hh
  rw [hh.1] at h1
  simp [patStart] at h1

theorem HeadOk.single {t : Tok} (h : patStart t = true) : HeadOk [t] := ⟨t, [], rfl, h, by simp⟩

theorem numHead_patStart {t : Tok} (h : numHead t = true) : patStart t = true := by
  unfold numHead at h
  split at h
  case h_5 => cases h
  all_goals rfl

theorem signedNum_headOk {l : Expr} (h : isSignedNum l = true) : HeadOk (numToks l) := by
  unfold isSignedNum at h
  split at h
  · obtain ⟨k, rfl, _, _⟩ := numConst_inv h
    refine ⟨_, _, rfl, rfl, ?_⟩
    unfold isNumConst at h
    split at h <;> simp_all [constTok]
  · unfold isNumConst at h
    split at h
    case h_4 => cases h
    all_goals exact HeadOk.single rfl

theorem constExpr_headOk {e : Expr} (h : isConstExpr e = true) : HeadOk (patExprToks e) := by
  unfold isConstExpr at h
  split at h
  · simp only [Bool.and_eq_true] at h
    obtain ⟨k, rfl, _, _⟩ := numConst_inv h.2
    exact (signedNum_headOk h.1).append _ (by simp)
  · simp only [Bool.and_eq_true] at h
    obtain ⟨k, rfl, _, _⟩ := numConst_inv h.2
    exact (signedNum_headOk h.1).append _ (by simp)
  · rw [signedNum_toks h]; exact signedNum_headOk h

theorem attr_headOk {e : Expr} (h : isAttrChain e = true) : HeadOk (patExprToks e) := by
  obtain ⟨n0, sfx, h1, h3, _⟩ := attrChain_toks e h
  rw [patExprToks_attr e h, h1]
  exact ⟨_, _, rfl, rfl, h3⟩

theorem patValue_headOk {e : Expr} (h : patValueOk e = true) : HeadOk (patExprToks e) := by
  simp only [patValueOk, Bool.or_eq_true, Bool.and_eq_true] at h
  rcases h with (h | h) | h
  · exact constExpr_headOk h
  · unfold isStrLit at h
    split at h
    · exact HeadOk.single rfl
    · exact HeadOk.single rfl
    · cases h
  · exact attr_headOk h.1

theorem mapKey_headOk {e : Expr} (h : mapKeyOk e = true) : HeadOk (patExprToks e) := by
  unfold mapKeyOk at h
  split at h
  · exact HeadOk.single rfl
  · rename_i b; cases b <;> exact HeadOk.single rfl
  · exact patValue_headOk h

/-! ## values, mapping keys -/

theorem parseStrings_str (s : List Nat) (u : Bool) (rest : List Tok) (h : NoStr rest) (f : Nat) :
    parseStrings (f + 1) (.str s u :: rest) = some (.const (.str s u), rest) := by
  obtain ⟨h1, h2⟩ := h.takeWhile
  cases u <;> simp [parseStrings, List.takeWhile, List.dropWhile, isStringTok, h1, h2]

theorem parseStrings_bytes (b : List Nat) (rest : List Tok) (h : NoStr rest) (f : Nat) :
    parseStrings (f + 1) (.bytes b :: rest) = some (.const (.bytes b), rest) := by
  obtain ⟨h1, h2⟩ := h.takeWhile
  simp [parseStrings, List.takeWhile, List.dropWhile, isStringTok, h1, h2]

/-- a value pattern followed by a token that cannot continue it -/
theorem closed_value {e : Expr} (h : patValueOk e = true) {c : Tok} (hc : NextOk c) (rest : List Tok) (f : Nat) :
    parseClosed (f + 2) (patExprToks e ++ c :: rest) = some (.matchValue e, c :: rest) := by
  simp only [patValueOk, Bool.or_eq_true, Bool.and_eq_true] at h
  rcases h with (h | h) | h
  · obtain ⟨t, r, h1, h2⟩ := constExpr_head h
    have h3 := constExpr_rt h c hc.notPlus hc.notMinus rest
    rw [h1] at h3 ⊢
    exact parseClosed_num h2 _ _ h3
  · have hn := noStr_cons hc.notStr rest
    unfold isStrLit at h
    split at h
    · simp [patExprToks, numToks, constTok, parseClosed, parseStrings_str _ _ _ hn]
    · simp [patExprToks, numToks, constTok, parseClosed, parseStrings_bytes _ _ hn]
    · cases h
  · obtain ⟨n0, sfx, h1, _, h2⟩ := attrChain_rt e h.1 c hc.notDot rest
    rw [patExprToks_attr e h.1, h1, List.cons_append, parseClosed.eq_9, h2]
    have h3 : (!isName e) = true := h.2
    rw [h3]
    split
    · rename_i heq; simp at heq; exact absurd heq.2.2.1 hc.notLpar
    · rename_i heq; simp at heq; obtain ⟨rfl, rfl⟩ := heq; rfl
    · rename_i heq; simp at heq
    · rename_i heq; simp at heq

/-- a mapping key followed by a token that cannot continue it -/
theorem mapKey_rt {e : Expr} (h : mapKeyOk e = true) {c : Tok} (hc : NextOk c) (rest : List Tok) (f : Nat) :
    parseMapKey (f + 2) (patExprToks e ++ c :: rest) = some (e, c :: rest) := by
  unfold mapKeyOk at h
  split at h
  · rfl
  · rename_i b; cases b <;> rfl
  · simp only [patValueOk, Bool.or_eq_true, Bool.and_eq_true] at h
    rcases h with (h | h) | h
    · obtain ⟨t, r, h1, h2⟩ := constExpr_head h
      have h3 := constExpr_rt h c hc.notPlus hc.notMinus rest
      rw [h1] at h3 ⊢
      rw [List.cons_append, parseMapKey_num h2]
      exact h3
    · have hn := noStr_cons hc.notStr rest
      unfold isStrLit at h
      split at h
      · simp [patExprToks, numToks, constTok, parseMapKey, parseStrings_str _ _ _ hn]
      · simp [patExprToks, numToks, constTok, parseMapKey, parseStrings_bytes _ _ hn]
      · cases h
    · obtain ⟨n0, sfx, h1, _, h2⟩ := attrChain_rt e h.1 c hc.notDot rest
      rw [patExprToks_attr e h.1, h1, List.cons_append, parseMapKey.eq_8, h2]
      have h3 : (!isName e) = true := h.2
      rw [h3]

/-! ## between the levels -/

/-- a closed pattern not followed by `|` is an or-pattern -/
theorem or_of_closed {ts : List Tok} {p : Pattern} {c : Tok} {rest : List Tok}
    (h : EvT (fun f => parseClosed f ts) (p, c :: rest)) (hc : c ≠ .op .bar) :
    EvT (fun f => parseOrPattern f ts) (p, c :: rest) := by
  obtain ⟨n, hn⟩ := h
  refine ⟨n + 1, fun f hf => ?_⟩
  obtain ⟨f1, rfl⟩ : ∃ f1, f = f1 + 1 := ⟨f - 1, by omega⟩
  have h1 := hn f1 (by omega)
  simp only [] at h1 ⊢
  rw [parseOrPattern.eq_2, h1]
  split
  · rename_i heq; simp only [Option.some.injEq, Prod.mk.injEq, List.cons.injEq] at heq; exact absurd heq.2.1 hc
  · rfl

/-- an or-pattern not followed by `as` is a pattern -/
theorem pat_of_or {ts : List Tok} {p : Pattern} {c : Tok} {rest : List Tok}
    (h : EvT (fun f => parseOrPattern f ts) (p, c :: rest)) (hc : tk c ≠ .hk .as) :
    EvT (fun f => parsePattern f ts) (p, c :: rest) := by
  obtain ⟨n, hn⟩ := h
  refine ⟨n + 1, fun f hf => ?_⟩
  obtain ⟨f1, rfl⟩ : ∃ f1, f = f1 + 1 := ⟨f - 1, by omega⟩
  have h1 := hn f1 (by omega)
  simp only [] at h1 ⊢
  rw [parsePattern.eq_2, h1]
  simp [hc]

/-- one pattern in parentheses is that pattern -/
theorem closed_of_paren {ts : List Tok} {p : Pattern} {rest : List Tok} (hh : HeadOk ts)
    (h : EvT (fun f => parsePattern f (ts ++ .op .rpar :: rest)) (p, .op .rpar :: rest)) :
    EvT (fun f => parseClosed f (.op .lpar :: (ts ++ .op .rpar :: rest))) (p, rest) := by
  obtain ⟨n, hn⟩ := h
  obtain ⟨t, r, rfl, ht, _⟩ := hh
  refine ⟨n + 2, fun f hf => ?_⟩
  obtain ⟨f1, rfl⟩ : ∃ f1, f = f1 + 2 := ⟨f - 2, by omega⟩
  have h1 := hn f1 (by omega)
  simp only [] at h1 ⊢
  rw [parseClosed.eq_11, parsePatternList.eq_2, h1]
  intro r1 hr
  simp only [List.cons_append, List.cons.injEq] at hr
  rw [hr.1] at ht
  simp [patStart] at ht

/-! ## the token after a pattern, by level -/

theorem tk_as : tk (HK.tok .as) = .hk .as := tk_tok .as

theorem PatNext.rpar : PatNext (.op .rpar) := by simp [PatNext]
theorem PatNext.rsqb : PatNext (.op .rsqb) := by simp [PatNext]
theorem PatNext.rbrace : PatNext (.op .rbrace) := by simp [PatNext]
theorem PatNext.comma : PatNext (.op .comma) := by simp [PatNext]
theorem PatNext.bar : PatNext (.op .bar) := by simp [PatNext]
theorem PatNext.as : PatNext (HK.tok .as) := by simp [PatNext]

/-- the round trip of one pattern at the three levels, with the facts about its first tokens -/
structure RT (p : Pattern) : Prop where
  head : ∀ lvl, HeadOk (renderPat p lvl)
  closed : ∀ c rest, PatNext c → EvT (fun f => parseClosed f (renderPat p 2 ++ c :: rest)) (p, c :: rest)
  orp : ∀ c rest, PatNext c → c ≠ .op .bar →
    EvT (fun f => parseOrPattern f (renderPat p 1 ++ c :: rest)) (p, c :: rest)
  pat : ∀ c rest, PatNext c → c ≠ .op .bar → tk c ≠ .hk .as →
    EvT (fun f => parsePattern f (renderPat p 0 ++ c :: rest)) (p, c :: rest)

/-- a pattern that is printed alike at every level -/
theorem RT.ofClosed {p : Pattern} (hl : ∀ lvl, renderPat p lvl = renderPat p 2) (hh : HeadOk (renderPat p 2))
    (h : ∀ c rest, PatNext c → EvT (fun f => parseClosed f (renderPat p 2 ++ c :: rest)) (p, c :: rest)) : RT p where
  head := fun lvl => by rw [hl]; exact hh
  closed := h
  orp := fun c rest hc hb => by rw [hl]; exact or_of_closed (h c rest hc) hb
  pat := fun c rest hc hb ha => by rw [hl]; exact pat_of_or (or_of_closed (h c rest hc) hb) ha

/-! ## one item of a list -/

/-- the last pattern of a `OneOrMore<Pattern>` without trailing comma -/
theorem pl_last {p : Pattern} (hp : RT p) {c : Tok} (hc : PatNext c) (hb : c ≠ .op .bar) (ha : tk c ≠ .hk .as)
    (hcm : c ≠ .op .comma) (rest : List Tok) :
    EvT (fun f => parsePatternList f (renderPat p 0 ++ c :: rest)) (([p], false), c :: rest) := by
  obtain ⟨n, hn⟩ := hp.pat c rest hc hb ha
  refine ⟨n + 1, fun f hf => ?_⟩
  obtain ⟨f1, rfl⟩ : ∃ f1, f = f1 + 1 := ⟨f - 1, by omega⟩
  have h1 := hn f1 (by omega)
  simp only [] at h1 ⊢
  rw [parsePatternList.eq_2, h1]
  split
  · rename_i heq; simp only [Option.some.injEq, Prod.mk.injEq, List.cons.injEq] at heq; exact absurd heq.2.1 hcm
  · rename_i heq; simp only [Option.some.injEq, Prod.mk.injEq] at heq; obtain ⟨rfl, rfl⟩ := heq; rfl
  · rename_i heq; simp at heq

/-- a pattern, a comma, more patterns -/
theorem pl_step {p : Pattern} (hp : RT p) {X : List Tok} (hX : startsPattern X = true) {ps : List Pattern}
    {tc : Bool} {r' : List Tok} (h : EvT (fun f => parsePatternList f X) ((ps, tc), r')) :
    EvT (fun f => parsePatternList f (renderPat p 0 ++ .op .comma :: X)) ((p :: ps, tc), r') := by
  obtain ⟨n, hn⟩ := hp.pat (.op .comma) X PatNext.comma (by simp) (by decide)
  obtain ⟨m, hm⟩ := h
  refine ⟨max n m + 1, fun f hf => ?_⟩
  obtain ⟨f1, rfl⟩ : ∃ f1, f = f1 + 1 := ⟨f - 1, by omega⟩
  have h1 := hn f1 (by omega)
  have h2 := hm f1 (by omega)
  simp only [] at h1 h2 ⊢
  rw [parsePatternList.eq_2, h1]
  simp [hX, h2]

theorem or_last {p : Pattern} (hp : RT p) {c : Tok} (hc : PatNext c) (hb : c ≠ .op .bar) (rest : List Tok) :
    EvT (fun f => parseOrPatRest f (renderPat p 2 ++ c :: rest)) ([p], c :: rest) := by
  obtain ⟨n, hn⟩ := hp.closed c rest hc
  refine ⟨n + 1, fun f hf => ?_⟩
  obtain ⟨f1, rfl⟩ : ∃ f1, f = f1 + 1 := ⟨f - 1, by omega⟩
  have h1 := hn f1 (by omega)
  simp only [] at h1 ⊢
  rw [parseOrPatRest.eq_2, h1]
  split
  · rename_i heq; simp only [Option.some.injEq, Prod.mk.injEq, List.cons.injEq] at heq; exact absurd heq.2.1 hb
  · rename_i heq; simp only [Option.some.injEq, Prod.mk.injEq] at heq; obtain ⟨rfl, rfl⟩ := heq; rfl
  · rename_i heq; simp at heq

theorem or_step {p : Pattern} (hp : RT p) {X : List Tok} {ps : List Pattern} {r' : List Tok}
    (h : EvT (fun f => parseOrPatRest f X) (ps, r')) :
    EvT (fun f => parseOrPatRest f (renderPat p 2 ++ .op .bar :: X)) (p :: ps, r') := by
  obtain ⟨n, hn⟩ := hp.closed (.op .bar) X PatNext.bar
  obtain ⟨m, hm⟩ := h
  refine ⟨max n m + 1, fun f hf => ?_⟩
  obtain ⟨f1, rfl⟩ : ∃ f1, f = f1 + 1 := ⟨f - 1, by omega⟩
  have h1 := hn f1 (by omega)
  have h2 := hm f1 (by omega)
  simp only [] at h1 h2 ⊢
  rw [parseOrPatRest.eq_2, h1]
  simp [h2]

/-- the first alternative of an or-pattern -/
theorem or_first {p : Pattern} (hp : RT p) {X : List Tok} {ps : List Pattern} {r' : List Tok}
    (h : EvT (fun f => parseOrPatRest f X) (ps, r')) :
    EvT (fun f => parseOrPattern f (renderPat p 2 ++ .op .bar :: X)) (.matchOr (p :: ps), r') := by
  obtain ⟨n, hn⟩ := hp.closed (.op .bar) X PatNext.bar
  obtain ⟨m, hm⟩ := h
  refine ⟨max n m + 1, fun f hf => ?_⟩
  obtain ⟨f1, rfl⟩ : ∃ f1, f = f1 + 1 := ⟨f - 1, by omega⟩
  have h1 := hn f1 (by omega)
  have h2 := hm f1 (by omega)
  simp only [] at h1 h2 ⊢
  rw [parseOrPattern.eq_2, h1]
  simp [h2]

/-- the rendering of a pattern followed by `,` or `)` does not look like a keyword item -/
theorem notKw_of_headOk {ts : List Tok} (h : HeadOk ts) {c : Tok} (hc : c ≠ .op .assign) (rest : List Tok) :
    ∀ (n : Ident) (r : List Tok), ts ++ c :: rest = .name n :: .op .assign :: r → False := by
  obtain ⟨t, r, rfl, _, h2⟩ := h
  intro n r' hh
  cases r with
  | nil => simp at hh; exact hc hh.2.1
  | cons t2 r2 => simp at hh; exact h2 r2 (by rw [hh.2.1])

theorem pos_last {p : Pattern} (hp : RT p) (ps0 : List Pattern) (rest : List Tok) :
    EvT (fun f => parseClassItems f (renderPat p 0 ++ .op .rpar :: rest) ps0 [] []) ((ps0 ++ [p], [], []), rest) := by
  obtain ⟨n, hn⟩ := hp.pat (.op .rpar) rest PatNext.rpar (by simp) (by decide)
  refine ⟨n + 1, fun f hf => ?_⟩
  obtain ⟨f1, rfl⟩ : ∃ f1, f = f1 + 1 := ⟨f - 1, by omega⟩
  have h1 := hn f1 (by omega)
  simp only [] at h1 ⊢
  rw [parseClassItems.eq_3 _ _ _ _ _ (notKw_of_headOk (hp.head 0) (by simp) rest), h1]
  simp

theorem pos_step {p : Pattern} (hp : RT p) (ps0 : List Pattern) {X : List Tok} (hX : ∀ r, X ≠ .op .rpar :: r)
    {R : (List Pattern × List Ident × List Pattern) × List Tok}
    (h : EvT (fun f => parseClassItems f X (ps0 ++ [p]) [] []) R) :
    EvT (fun f => parseClassItems f (renderPat p 0 ++ .op .comma :: X) ps0 [] []) R := by
  obtain ⟨n, hn⟩ := hp.pat (.op .comma) X PatNext.comma (by simp) (by decide)
  obtain ⟨m, hm⟩ := h
  refine ⟨max n m + 1, fun f hf => ?_⟩
  obtain ⟨f1, rfl⟩ : ∃ f1, f = f1 + 1 := ⟨f - 1, by omega⟩
  have h1 := hn f1 (by omega)
  have h2 := hm f1 (by omega)
  simp only [] at h1 h2 ⊢
  rw [parseClassItems.eq_3 _ _ _ _ _ (notKw_of_headOk (hp.head 0) (by simp) X), h1]
  simp only [List.isEmpty_nil, Bool.not_true, Bool.false_eq_true, ↓reduceIte]
  exact h2

theorem kw_last {p : Pattern} (hp : RT p) (k : Ident) (ps0 : List Pattern) (ka0 : List Ident) (kp0 : List Pattern)
    (rest : List Tok) :
    EvT (fun f => parseClassItems f (kwItemToks k (renderPat p 0) ++ .op .rpar :: rest) ps0 ka0 kp0)
      ((ps0, ka0 ++ [k], kp0 ++ [p]), rest) := by
  obtain ⟨n, hn⟩ := hp.pat (.op .rpar) rest PatNext.rpar (by simp) (by decide)
  refine ⟨n + 1, fun f hf => ?_⟩
  obtain ⟨f1, rfl⟩ : ∃ f1, f = f1 + 1 := ⟨f - 1, by omega⟩
  have h1 := hn f1 (by omega)
  simp only [] at h1 ⊢
  simp only [kwItemToks, tAssign, List.cons_append]
  rw [parseClassItems.eq_2, h1]

theorem kw_step {p : Pattern} (hp : RT p) (k : Ident) (ps0 : List Pattern) (ka0 : List Ident) (kp0 : List Pattern)
    {X : List Tok} (hX : ∀ r, X ≠ .op .rpar :: r) {R : (List Pattern × List Ident × List Pattern) × List Tok}
    (h : EvT (fun f => parseClassItems f X ps0 (ka0 ++ [k]) (kp0 ++ [p])) R) :
    EvT (fun f => parseClassItems f (kwItemToks k (renderPat p 0) ++ .op .comma :: X) ps0 ka0 kp0) R := by
  obtain ⟨n, hn⟩ := hp.pat (.op .comma) X PatNext.comma (by simp) (by decide)
  obtain ⟨m, hm⟩ := h
  refine ⟨max n m + 1, fun f hf => ?_⟩
  obtain ⟨f1, rfl⟩ : ∃ f1, f = f1 + 1 := ⟨f - 1, by omega⟩
  have h1 := hn f1 (by omega)
  have h2 := hm f1 (by omega)
  simp only [] at h1 h2 ⊢
  simp only [kwItemToks, tAssign, List.cons_append]
  rw [parseClassItems.eq_2, h1]
  split
  · rename_i heq; simp only [Option.some.injEq, Prod.mk.injEq, List.cons.injEq] at heq
    exact absurd heq.2.2 (hX _)
  · rename_i heq; simp only [Option.some.injEq, Prod.mk.injEq, List.cons.injEq] at heq
    obtain ⟨rfl, _, rfl⟩ := heq; exact h2
  · rename_i heq; simp at heq
  · rename_i h3 h4 h5; exact absurd rfl (h4 _ _)

/-- `**rest` closes a mapping pattern -/
theorem map_rest (n : Ident) (ks0 : List Expr) (ps0 : List Pattern) (rest : List Tok) :
    EvT (fun f => parseMapItems f (.op .dstar :: .name n :: .op .rbrace :: rest) ks0 ps0)
      (.matchMapping ks0 ps0 (some n), rest) :=
  ⟨1, fun f hf => by
    obtain ⟨f1, rfl⟩ : ∃ f1, f = f1 + 1 := ⟨f - 1, by omega⟩
    simp [parseMapItems]⟩

/-- a `key: pattern` item does not start with `**` -/
theorem mapItem_notRest {k : Expr} (hk : mapKeyOk k = true) (more : List Tok) :
    ∀ tail, patExprToks k ++ more = .op .dstar :: tail → False := by
  obtain ⟨t, r, h1, h2, _⟩ := mapKey_headOk hk
  intro tail hh
  rw [h1] at hh
  simp only [List.cons_append, List.cons.injEq] at hh
  rw [hh.1] at h2
  simp [patStart] at h2

theorem map_last {k : Expr} (hk : mapKeyOk k = true) {p : Pattern} (hp : RT p) (ks0 : List Expr) (ps0 : List Pattern)
    (rest : List Tok) :
    EvT (fun f => parseMapItems f (mapItemToks k (renderPat p 0) ++ .op .rbrace :: rest) ks0 ps0)
      (.matchMapping (ks0 ++ [k]) (ps0 ++ [p]) none, rest) := by
  obtain ⟨n, hn⟩ := hp.pat (.op .rbrace) rest PatNext.rbrace (by simp) (by decide)
  refine ⟨n + 3, fun f hf => ?_⟩
  obtain ⟨f1, rfl⟩ : ∃ f1, f = f1 + 3 := ⟨f - 3, by omega⟩
  have h1 := hn (f1 + 2) (by omega)
  simp only [] at h1 ⊢
  simp only [mapItemToks, tColon, List.append_assoc, List.cons_append]
  have hnr := mapItem_notRest hk (.op .colon :: (renderPat p 0 ++ .op .rbrace :: rest))
  rw [parseMapItems.eq_5 _ _ _ _ (fun n r hh => hnr _ hh) (fun n r hh => hnr _ hh) hnr,
    mapKey_rt hk nextOk_colon]
  simp only [h1]

theorem map_step {k : Expr} (hk : mapKeyOk k = true) {p : Pattern} (hp : RT p) (ks0 : List Expr) (ps0 : List Pattern)
    {X : List Tok} (hX : ∀ r, X ≠ .op .rbrace :: r) {R : Pattern × List Tok}
    (h : EvT (fun f => parseMapItems f X (ks0 ++ [k]) (ps0 ++ [p])) R) :
    EvT (fun f => parseMapItems f (mapItemToks k (renderPat p 0) ++ .op .comma :: X) ks0 ps0) R := by
  obtain ⟨n, hn⟩ := hp.pat (.op .comma) X PatNext.comma (by simp) (by decide)
  obtain ⟨m, hm⟩ := h
  refine ⟨max n m + 3, fun f hf => ?_⟩
  obtain ⟨f1, rfl⟩ : ∃ f1, f = f1 + 3 := ⟨f - 3, by omega⟩
  have h1 := hn (f1 + 2) (by omega)
  have h2 := hm (f1 + 2) (by omega)
  simp only [] at h1 h2 ⊢
  simp only [mapItemToks, tColon, List.append_assoc, List.cons_append]
  have hnr := mapItem_notRest hk (.op .colon :: (renderPat p 0 ++ .op .comma :: X))
  rw [parseMapItems.eq_5 _ _ _ _ (fun n r hh => hnr _ hh) (fun n r hh => hnr _ hh) hnr,
    mapKey_rt hk nextOk_colon]
  simp only [h1]
  exact h2

/-! ## lists of items -/

theorem sepBy_cons2 (sep : Tok) (x y : List Tok) (l : List (List Tok)) :
    sepBy sep (x :: y :: l) = x ++ sep :: sepBy sep (y :: l) := rfl

theorem renderPatList_cons (p : Pattern) (ps : List Pattern) (lvl : Nat) :
    renderPatList (p :: ps) lvl = renderPat p lvl :: renderPatList ps lvl := by
  rw [renderPatList]

theorem renderPatList_nil (lvl : Nat) : renderPatList [] lvl = [] := by
  rw [renderPatList]

/-- the first token of a non-empty separated list is the first token of its first item -/
theorem sepBy_hd {x : List Tok} (hx : ∃ t r, x = t :: r ∧ patStart t = true) (sep : Tok) (l : List (List Tok))
    (more : List Tok) : ∃ t r, sepBy sep (x :: l) ++ more = t :: r ∧ patStart t = true := by
  obtain ⟨t, r, rfl, ht⟩ := hx
  cases l with
  | nil => exact ⟨t, _, rfl, ht⟩
  | cons y l => exact ⟨t, _, rfl, ht⟩

theorem HeadOk.hd {x : List Tok} (h : HeadOk x) : ∃ t r, x = t :: r ∧ patStart t = true := by
  obtain ⟨t, r, h1, h2, _⟩ := h
  exact ⟨t, r, h1, h2⟩

theorem hd_ne {X : List Tok} (h : ∃ t r, X = t :: r ∧ patStart t = true) {c : Tok} (hc : patStart c = false) :
    ∀ r, X ≠ c :: r := by
  obtain ⟨t, r, rfl, ht⟩ := h
  intro r' hh
  simp only [List.cons.injEq] at hh
  rw [hh.1, hc] at ht
  cases ht

theorem hd_starts {X : List Tok} (h : ∃ t r, X = t :: r ∧ patStart t = true) : startsPattern X = true := by
  obtain ⟨t, r, rfl, ht⟩ := h
  rw [startsPattern_cons, ht]

/-- every pattern of the list round trips -/
def RTs (ps : List Pattern) : Prop := ∀ p ∈ ps, RT p

theorem RTs.head {p : Pattern} {ps : List Pattern} (h : RTs (p :: ps)) : RT p := h p (List.mem_cons_self ..)
theorem RTs.tail {p : Pattern} {ps : List Pattern} (h : RTs (p :: ps)) : RTs ps :=
  fun q hq => h q (List.mem_cons_of_mem _ hq)

/-- `OneOrMore<Pattern>` without trailing comma, before a closing bracket, `:` or `if` -/
theorem patList_rt : (ps : List Pattern) → ps ≠ [] → RTs ps → ∀ {c : Tok}, PatNext c → c ≠ .op .bar →
    tk c ≠ .hk .as → c ≠ .op .comma → ∀ rest,
    EvT (fun f => parsePatternList f (sepBy tComma (renderPatList ps 0) ++ c :: rest)) ((ps, false), c :: rest)
  | [], h, _, _, _, _, _, _, _ => absurd rfl h
  | [p], _, hps, c, hc, hb, ha, hcm, rest => by
    simp only [renderPatList_cons, renderPatList_nil, sepBy]
    exact pl_last hps.head hc hb ha hcm rest
  | p :: q :: ps, _, hps, c, hc, hb, ha, hcm, rest => by
    have ih := patList_rt (q :: ps) (by simp) hps.tail hc hb ha hcm rest
    simp only [renderPatList_cons] at ih ⊢
    rw [sepBy_cons2, List.append_assoc, List.cons_append]
    exact pl_step hps.head (hd_starts (sepBy_hd (hps.tail.head.head 0).hd _ _ _)) ih

/-- the alternatives after the first one -/
theorem orRest_rt : (ps : List Pattern) → ps ≠ [] → RTs ps → ∀ {c : Tok}, PatNext c → c ≠ .op .bar → ∀ rest,
    EvT (fun f => parseOrPatRest f (sepBy (.op .bar) (renderPatList ps 2) ++ c :: rest)) (ps, c :: rest)
  | [], h, _, _, _, _, _ => absurd rfl h
  | [p], _, hps, c, hc, hb, rest => by
    simp only [renderPatList_cons, renderPatList_nil, sepBy]
    exact or_last hps.head hc hb rest
  | p :: q :: ps, _, hps, c, hc, hb, rest => by
    have ih := orRest_rt (q :: ps) (by simp) hps.tail hc hb rest
    simp only [renderPatList_cons] at ih ⊢
    rw [sepBy_cons2, List.append_assoc, List.cons_append]
    exact or_step hps.head ih

theorem kwItem_hd (k : Ident) (p : List Tok) : ∃ t r, kwItemToks k p = t :: r ∧ patStart t = true :=
  ⟨_, _, rfl, rfl⟩

/-- the keyword patterns of a class pattern -/
theorem kwItems_rt : (ka : List Ident) → (kp : List Pattern) → ka.length = kp.length → ka ≠ [] → RTs kp →
    ∀ ps0 ka0 kp0 rest,
    EvT (fun f => parseClassItems f
        (sepBy tComma (List.zipWith kwItemToks ka (renderPatList kp 0)) ++ .op .rpar :: rest) ps0 ka0 kp0)
      ((ps0, ka0 ++ ka, kp0 ++ kp), rest)
  | [], _, _, h, _, _, _, _, _ => absurd rfl h
  | _ :: _, [], hl, _, _, _, _, _, _ => by simp at hl
  | [k], [p], _, _, hkp, ps0, ka0, kp0, rest => by
    simp only [renderPatList_cons, renderPatList_nil, List.zipWith, sepBy]
    exact kw_last hkp.head k ps0 ka0 kp0 rest
  | [_], _ :: _ :: _, hl, _, _, _, _, _, _ => by simp at hl
  | _ :: _ :: _, [_], hl, _, _, _, _, _, _ => by simp at hl
  | k :: k2 :: ka, p :: p2 :: kp, hl, _, hkp, ps0, ka0, kp0, rest => by
    have ih := kwItems_rt (k2 :: ka) (p2 :: kp) (by simpa using hl) (by simp) hkp.tail ps0 (ka0 ++ [k]) (kp0 ++ [p]) rest
    simp only [renderPatList_cons] at ih ⊢
    simp only [List.zipWith_cons_cons, List.append_assoc, List.cons_append, List.nil_append] at ih ⊢
    rw [sepBy_cons2, List.append_assoc, List.cons_append]
    exact kw_step hkp.head k ps0 ka0 kp0 (hd_ne (sepBy_hd (kwItem_hd _ _) _ _ _) rfl) ih

/-- the arguments of a class pattern: positional patterns, then keyword patterns -/
theorem posItems_rt : (ps : List Pattern) → RTs ps → (ka : List Ident) → (kp : List Pattern) →
    ka.length = kp.length → RTs kp → (ps ≠ [] ∨ ka ≠ []) → ∀ ps0 rest,
    EvT (fun f => parseClassItems f
        (sepBy tComma (renderPatList ps 0 ++ List.zipWith kwItemToks ka (renderPatList kp 0)) ++ .op .rpar :: rest)
        ps0 [] [])
      ((ps0 ++ ps, ka, kp), rest)
  | [], _, ka, kp, hl, hkp, hne, ps0, rest => by
    have h := kwItems_rt ka kp hl (by simpa using hne) hkp ps0 [] [] rest
    simpa only [renderPatList_nil, List.nil_append, List.append_nil] using h
  | [p], hps, [], [], _, _, _, ps0, rest => by
    simp only [renderPatList_cons, renderPatList_nil, List.zipWith, List.append_nil, sepBy]
    exact pos_last hps.head ps0 rest
  | [_], _, [], _ :: _, hl, _, _, _, _ => by simp at hl
  | [_], _, _ :: _, [], hl, _, _, _, _ => by simp at hl
  | [p], hps, k :: ka, p2 :: kp, hl, hkp, _, ps0, rest => by
    have ih := posItems_rt [] hps.tail (k :: ka) (p2 :: kp) hl hkp (Or.inr (by simp)) (ps0 ++ [p]) rest
    simp only [renderPatList_cons, renderPatList_nil, List.zipWith_cons_cons, List.nil_append, List.cons_append,
      List.append_nil] at ih ⊢
    rw [sepBy_cons2, List.append_assoc, List.cons_append]
    exact pos_step hps.head ps0 (hd_ne (sepBy_hd (kwItem_hd _ _) _ _ _) rfl) ih
  | p :: q :: ps, hps, ka, kp, hl, hkp, _, ps0, rest => by
    have ih := posItems_rt (q :: ps) hps.tail ka kp hl hkp (Or.inl (by simp)) (ps0 ++ [p]) rest
    simp only [renderPatList_cons, List.cons_append, List.append_assoc, List.nil_append] at ih ⊢
    rw [sepBy_cons2, List.append_assoc, List.cons_append]
    exact pos_step hps.head ps0 (hd_ne (sepBy_hd (hps.tail.head.head 0).hd _ _ _) rfl) ih

theorem mapItem_hd {k : Expr} (hk : mapKeyOk k = true) (p : List Tok) :
    ∃ t r, mapItemToks k p = t :: r ∧ patStart t = true := by
  obtain ⟨t, r, h1, h2, _⟩ := mapKey_headOk hk
  exact ⟨t, r ++ tColon :: p, by simp [mapItemToks, h1], h2⟩

/-- the items of a mapping pattern -/
theorem mapItems_rt : (ks : List Expr) → (ps : List Pattern) → ks.length = ps.length → ks.all mapKeyOk = true →
    RTs ps → (ro : Option Ident) → (ks ≠ [] ∨ ro.isSome = true) → ∀ ks0 ps0 rest,
    EvT (fun f => parseMapItems f
        (sepBy tComma (List.zipWith mapItemToks ks (renderPatList ps 0) ++ restItem ro) ++ .op .rbrace :: rest)
        ks0 ps0)
      (.matchMapping (ks0 ++ ks) (ps0 ++ ps) ro, rest)
  | [], _ :: _, hl, _, _, _, _, _, _, _ => by simp at hl
  | _ :: _, [], hl, _, _, _, _, _, _, _ => by simp at hl
  | [], [], _, _, _, none, hne, _, _, _ => by simp at hne
  | [], [], _, _, _, some n, _, ks0, ps0, rest => by
    simp only [renderPatList_nil, List.zipWith, restItem, List.nil_append, sepBy, List.cons_append,
      List.append_nil]
    exact map_rest n ks0 ps0 rest
  | [_], _ :: _ :: _, hl, _, _, _, _, _, _, _ => by simp at hl
  | _ :: _ :: _, [_], hl, _, _, _, _, _, _, _ => by simp at hl
  | [k], [p], _, hk, hps, none, _, ks0, ps0, rest => by
    simp only [renderPatList_cons, renderPatList_nil, List.zipWith, restItem, List.append_nil, sepBy]
    exact map_last (by simpa using hk) hps.head ks0 ps0 rest
  | [k], [p], _, hk, hps, some n, _, ks0, ps0, rest => by
    have ih := mapItems_rt [] [] rfl rfl hps.tail (some n) (Or.inr rfl) (ks0 ++ [k]) (ps0 ++ [p]) rest
    simp only [renderPatList_cons, renderPatList_nil, List.zipWith, restItem, List.nil_append, List.cons_append,
      List.append_nil, List.append_assoc, sepBy] at ih ⊢
    exact map_step (by simpa using hk) hps.head ks0 ps0 (by simp) ih
  | k :: k2 :: ks, p :: p2 :: ps, hl, hk, hps, ro, _, ks0, ps0, rest => by
    simp only [List.all_cons, Bool.and_eq_true] at hk
    have ih := mapItems_rt (k2 :: ks) (p2 :: ps) (by simpa using hl) (by simp [hk.2]) hps.tail ro
      (Or.inl (by simp)) (ks0 ++ [k]) (ps0 ++ [p]) rest
    simp only [renderPatList_cons, List.zipWith_cons_cons, List.cons_append, List.append_assoc,
      List.nil_append] at ih ⊢
    rw [sepBy_cons2, List.append_assoc, List.cons_append]
    exact map_step hk.1 hps.head ks0 ps0 (hd_ne (sepBy_hd (mapItem_hd hk.2.1 _) _ _ _) rfl) ih

/-! ## the eight kinds of pattern -/

theorem rt_value {e : Expr} (h : patValueOk e = true) : RT (.matchValue e) :=
  RT.ofClosed (fun lvl => by simp only [renderPat]) (by simp only [renderPat]; exact patValue_headOk h)
    (fun c rest hc => ⟨2, fun f hf => by
      obtain ⟨f1, rfl⟩ : ∃ f1, f = f1 + 2 := ⟨f - 2, by omega⟩
      simp only [renderPat]
      exact closed_value h hc.ok rest f1⟩)

theorem rt_singleton {k : Const} (h : k = .none ∨ ∃ b, k = .bool b) : RT (.matchSingleton k) :=
  RT.ofClosed (fun lvl => by simp only [renderPat])
    (by
      simp only [renderPat]
      rcases h with rfl | ⟨b, rfl⟩
      · exact HeadOk.single rfl
      · cases b <;> exact HeadOk.single rfl)
    (fun c rest hc => ⟨1, fun f hf => by
      obtain ⟨f1, rfl⟩ : ∃ f1, f = f1 + 1 := ⟨f - 1, by omega⟩
      simp only [renderPat]
      rcases h with rfl | ⟨b, rfl⟩
      · rfl
      · cases b <;> rfl⟩)

theorem patName_tok {n : Option Ident} (h : notWild n = true) : ∃ m, patNameTok n = .name m ∧ patName m = n := by
  cases n with
  | none => exact ⟨[95], rfl, rfl⟩
  | some m =>
    refine ⟨m, rfl, ?_⟩
    simp only [notWild, bne_iff_ne, ne_eq] at h
    simp [patName, h]

theorem rt_star {n : Option Ident} (h : notWild n = true) : RT (.matchStar n) := by
  obtain ⟨m, h1, h2⟩ := patName_tok h
  refine RT.ofClosed (fun lvl => by simp only [renderPat]) ?_ ?_
  · simp only [renderPat]
    exact ⟨_, _, rfl, rfl, by simp [h1]⟩
  · intro c rest hc
    refine ⟨1, fun f hf => ?_⟩
    obtain ⟨f1, rfl⟩ : ∃ f1, f = f1 + 1 := ⟨f - 1, by omega⟩
    simp only [renderPat, h1, List.cons_append, List.nil_append]
    rw [parseClosed.eq_8, h2]

theorem rt_capture {n : Option Ident} (h : notWild n = true) : RT (.matchAs none n) := by
  obtain ⟨m, h1, h2⟩ := patName_tok h
  refine RT.ofClosed (fun lvl => by simp only [renderPat]) ?_ ?_
  · simp only [renderPat, h1]
    exact HeadOk.single rfl
  · intro c rest hc
    refine ⟨1, fun f hf => ?_⟩
    obtain ⟨f1, rfl⟩ : ∃ f1, f = f1 + 1 := ⟨f - 1, by omega⟩
    simp only [renderPat, h1, List.cons_append, List.nil_append]
    rw [parseClosed.eq_9, attrChain_stop _ _ _ _ hc.ok.notDot, h2]
    split
    · rename_i heq; simp at heq; exact absurd heq.2.2.1 hc.ok.notLpar
    · rename_i heq; simp at heq
    · rename_i heq; simp at heq; obtain ⟨_, rfl⟩ := heq; rfl
    · rename_i heq; simp at heq

theorem rt_seq {ps : List Pattern} (hps : RTs ps) : RT (.matchSequence ps) := by
  refine RT.ofClosed (fun lvl => by simp only [renderPat]) ?_ ?_
  · simp only [renderPat]
    refine ⟨_, _, rfl, rfl, ?_⟩
    cases ps with
    | nil => simp [renderPatList_nil, sepBy]
    | cons p ps => rw [renderPatList_cons]; exact hd_ne (sepBy_hd (hps.head.head 0).hd _ _ _) rfl
  · intro c rest hc
    cases ps with
    | nil =>
      refine ⟨1, fun f hf => ?_⟩
      obtain ⟨f1, rfl⟩ : ∃ f1, f = f1 + 1 := ⟨f - 1, by omega⟩
      simp only [renderPat, renderPatList_nil, sepBy, List.nil_append, List.cons_append]
      rw [parseClosed.eq_12]
    | cons p ps =>
      obtain ⟨n, hn⟩ := patList_rt (p :: ps) (by simp) hps PatNext.rsqb (by simp) (by decide) (by simp) (c :: rest)
      refine ⟨n + 1, fun f hf => ?_⟩
      obtain ⟨f1, rfl⟩ : ∃ f1, f = f1 + 1 := ⟨f - 1, by omega⟩
      have h1 := hn f1 (by omega)
      simp only [] at h1 ⊢
      simp only [renderPat, List.cons_append, List.append_assoc, List.nil_append]
      rw [parseClosed.eq_13 _ _ (hd_ne (by rw [renderPatList_cons]; exact sepBy_hd (hps.head.head 0).hd _ _ _) rfl), h1]

theorem rt_map {ks : List Expr} {ps : List Pattern} (hl : ks.length = ps.length) (hk : ks.all mapKeyOk = true)
    (hps : RTs ps) (ro : Option Ident) : RT (.matchMapping ks ps ro) := by
  refine RT.ofClosed (fun lvl => by simp only [renderPat]) ?_ ?_
  · simp only [renderPat]
    refine ⟨_, _, rfl, rfl, ?_⟩
    cases ks with
    | nil =>
      cases ps with
      | nil => cases ro <;> simp [renderPatList_nil, restItem, sepBy]
      | cons p ps => simp at hl
    | cons k ks =>
      cases ps with
      | nil => simp at hl
      | cons p ps =>
        simp only [List.all_cons, Bool.and_eq_true] at hk
        rw [renderPatList_cons, List.zipWith_cons_cons, List.cons_append]
        exact hd_ne (sepBy_hd (mapItem_hd hk.1 _) _ _ _) rfl
  · intro c rest hc
    by_cases hne : ks ≠ [] ∨ ro.isSome = true
    · obtain ⟨n, hn⟩ := mapItems_rt ks ps hl hk hps ro hne [] [] (c :: rest)
      refine ⟨n + 1, fun f hf => ?_⟩
      obtain ⟨f1, rfl⟩ : ∃ f1, f = f1 + 1 := ⟨f - 1, by omega⟩
      have h1 := hn f1 (by omega)
      simp only [List.nil_append] at h1 ⊢
      simp only [renderPat, List.cons_append, List.append_assoc, List.nil_append]
      rw [parseClosed.eq_15, h1]
      rcases hne with hne | hne
      · cases ks with
        | nil => exact absurd rfl hne
        | cons k ks =>
          cases ps with
          | nil => simp at hl
          | cons p ps =>
            simp only [List.all_cons, Bool.and_eq_true] at hk
            rw [renderPatList_cons, List.zipWith_cons_cons, List.cons_append]
            exact fun r => hd_ne (sepBy_hd (mapItem_hd hk.1 _) _ _ _) rfl r
      · cases ro with
        | none => simp at hne
        | some m =>
          cases ks with
          | nil =>
            cases ps with
            | nil => simp [renderPatList_nil, restItem, sepBy]
            | cons p ps => simp at hl
          | cons k ks =>
            cases ps with
            | nil => simp at hl
            | cons p ps =>
              simp only [List.all_cons, Bool.and_eq_true] at hk
              rw [renderPatList_cons, List.zipWith_cons_cons, List.cons_append]
              exact fun r => hd_ne (sepBy_hd (mapItem_hd hk.1 _) _ _ _) rfl r
    · have h1 : ks = [] := by
        cases ks with
        | nil => rfl
        | cons k ks => exact absurd (Or.inl (by simp)) hne
      have h2 : ro = none := by
        cases ro with
        | none => rfl
        | some m => exact absurd (Or.inr rfl) hne
      subst h1 h2
      have h3 : ps = [] := by
        cases ps with
        | nil => rfl
        | cons p ps => simp at hl
      subst h3
      refine ⟨1, fun f hf => ?_⟩
      obtain ⟨f1, rfl⟩ : ∃ f1, f = f1 + 1 := ⟨f - 1, by omega⟩
      simp only [renderPat, renderPatList_nil, List.zipWith, restItem, sepBy, List.nil_append, List.cons_append]
      rw [parseClosed.eq_14]

/-- the first item of the arguments of a class pattern starts with a token of FIRST(`Pattern`) -/
theorem classItems_hd {ps : List Pattern} (hps : RTs ps) {ka : List Ident} {kp : List Pattern}
    (hl : ka.length = kp.length) (hne : ps ≠ [] ∨ ka ≠ []) (more : List Tok) :
    ∃ t r, sepBy tComma (renderPatList ps 0 ++ List.zipWith kwItemToks ka (renderPatList kp 0)) ++ more = t :: r ∧
      patStart t = true := by
  cases ps with
  | cons p ps =>
    rw [renderPatList_cons, List.cons_append]
    exact sepBy_hd (hps.head.head 0).hd _ _ _
  | nil =>
    cases ka with
    | nil => simp at hne
    | cons k ka =>
      cases kp with
      | nil => simp at hl
      | cons p kp =>
        rw [renderPatList_nil, renderPatList_cons, List.nil_append, List.zipWith_cons_cons]
        exact sepBy_hd (kwItem_hd _ _) _ _ _

theorem rt_class {cls : Expr} (hcls : isAttrChain cls = true) {ps : List Pattern} (hps : RTs ps) {ka : List Ident}
    {kp : List Pattern} (hl : ka.length = kp.length) (hkp : RTs kp) : RT (.matchClass cls ps ka kp) := by
  refine RT.ofClosed (fun lvl => by simp only [renderPat]) ?_ ?_
  · simp only [renderPat]
    exact (attr_headOk hcls).append _ (by simp)
  · intro c rest hc
    obtain ⟨n0, sfx, h1, _, h2⟩ := attrChain_rt cls hcls (.op .lpar) (by simp)
      (sepBy tComma (renderPatList ps 0 ++ List.zipWith kwItemToks ka (renderPatList kp 0)) ++ .op .rpar :: c :: rest)
    by_cases hne : ps ≠ [] ∨ ka ≠ []
    · obtain ⟨n, hn⟩ := posItems_rt ps hps ka kp hl hkp hne [] (c :: rest)
      refine ⟨n + 2, fun f hf => ?_⟩
      obtain ⟨f1, rfl⟩ : ∃ f1, f = f1 + 2 := ⟨f - 2, by omega⟩
      have h3 := hn f1 (by omega)
      simp only [List.nil_append] at h3 ⊢
      simp only [renderPat, patExprToks_attr cls hcls, h1, List.cons_append, List.append_assoc, List.nil_append]
      rw [parseClosed.eq_9, h2]
      simp only []
      rw [parseClassArgs.eq_3 _ _ _ (fun r => hd_ne (classItems_hd hps hl hne _) rfl r), h3]
    · have e1 : ps = [] := by
        cases ps with
        | nil => rfl
        | cons p ps => exact absurd (Or.inl (by simp)) hne
      have e2 : ka = [] := by
        cases ka with
        | nil => rfl
        | cons k ka => exact absurd (Or.inr (by simp)) hne
      subst e1 e2
      have e3 : kp = [] := by
        cases kp with
        | nil => rfl
        | cons p kp => simp at hl
      subst e3
      refine ⟨2, fun f hf => ?_⟩
      obtain ⟨f1, rfl⟩ : ∃ f1, f = f1 + 2 := ⟨f - 2, by omega⟩
      simp only [renderPatList_nil, List.zipWith, List.nil_append, sepBy] at h2
      simp only [renderPat, patExprToks_attr cls hcls, h1, renderPatList_nil, List.zipWith, sepBy, List.cons_append,
        List.append_assoc, List.nil_append]
      rw [parseClosed.eq_9, h2]
      simp only []
      rw [parseClassArgs.eq_2]

/-- a pattern that is printed in parentheses where a closed pattern is required -/
theorem paren_closed {p : Pattern} {body : List Tok} (hb : HeadOk body)
    (hpat : ∀ c rest, PatNext c → c ≠ .op .bar → tk c ≠ .hk .as →
      EvT (fun f => parsePattern f (body ++ c :: rest)) (p, c :: rest)) (c : Tok) (rest : List Tok) :
    EvT (fun f => parseClosed f (.op .lpar :: (body ++ [.op .rpar]) ++ c :: rest)) (p, c :: rest) := by
  have h := closed_of_paren hb (hpat (.op .rpar) (c :: rest) PatNext.rpar (by simp) (by decide))
  simpa only [List.cons_append, List.append_assoc, List.nil_append] using h

theorem rt_as {q : Pattern} (hq : RT q) {m : Ident} (hm : m ≠ [95]) : RT (.matchAs (some q) (some m)) := by
  have hb : HeadOk (renderPat q 1 ++ [HK.tok .as, patNameTok (some m)]) := (hq.head 1).append _ (by simp [HK.tok])
  have hpat : ∀ c rest, PatNext c → c ≠ .op .bar → tk c ≠ .hk .as →
      EvT (fun f => parsePattern f ((renderPat q 1 ++ [HK.tok .as, patNameTok (some m)]) ++ c :: rest))
        (.matchAs (some q) (some m), c :: rest) := by
    intro c rest _ _ _
    obtain ⟨n, hn⟩ := hq.orp (HK.tok .as) (.name m :: c :: rest) PatNext.as (by simp [HK.tok])
    refine ⟨n + 1, fun f hf => ?_⟩
    obtain ⟨f1, rfl⟩ : ∃ f1, f = f1 + 1 := ⟨f - 1, by omega⟩
    have h1 := hn f1 (by omega)
    simp only [] at h1 ⊢
    simp only [patNameTok, List.append_assoc, List.cons_append, List.nil_append]
    rw [parsePattern.eq_2, h1]
    simp [tk_as, hm]
  have e0 : renderPat (.matchAs (some q) (some m)) 0 = renderPat q 1 ++ [HK.tok .as, patNameTok (some m)] := by
    simp [renderPat, parenIf]
  have e1 : renderPat (.matchAs (some q) (some m)) 1 =
      .op .lpar :: ((renderPat q 1 ++ [HK.tok .as, patNameTok (some m)]) ++ [.op .rpar]) := by
    simp [renderPat, parenIf]
  have e2 : renderPat (.matchAs (some q) (some m)) 2 =
      .op .lpar :: ((renderPat q 1 ++ [HK.tok .as, patNameTok (some m)]) ++ [.op .rpar]) := by
    simp [renderPat, parenIf]
  refine ⟨fun lvl => ?_, fun c rest hc => ?_, fun c rest hc hbar => ?_, fun c rest hc hbar has => ?_⟩
  · by_cases hl : 1 ≤ lvl
    · have : renderPat (.matchAs (some q) (some m)) lvl =
          .op .lpar :: ((renderPat q 1 ++ [HK.tok .as, patNameTok (some m)]) ++ [.op .rpar]) := by
        simp [renderPat, parenIf, hl]
      rw [this]; exact hb.paren _
    · have : lvl = 0 := by omega
      subst this
      rw [e0]; exact hb
  · rw [e2]; exact paren_closed hb hpat c rest
  · rw [e1]; exact or_of_closed (paren_closed hb hpat c rest) hbar
  · rw [e0]; exact hpat c rest hc hbar has

theorem rt_or {p q : Pattern} {ps : List Pattern} (hps : RTs (p :: q :: ps)) : RT (.matchOr (p :: q :: ps)) := by
  have hb : HeadOk (sepBy (.op .bar) (renderPatList (p :: q :: ps) 2)) := by
    simp only [renderPatList_cons, sepBy_cons2]
    exact (hps.head.head 2).append _ (by simp)
  have hor : ∀ c rest, PatNext c → c ≠ .op .bar →
      EvT (fun f => parseOrPattern f (sepBy (.op .bar) (renderPatList (p :: q :: ps) 2) ++ c :: rest))
        (.matchOr (p :: q :: ps), c :: rest) := by
    intro c rest hc hbar
    have h := or_first hps.head (orRest_rt (q :: ps) (by simp) hps.tail hc hbar rest)
    simpa only [renderPatList_cons, sepBy_cons2, List.append_assoc, List.cons_append] using h
  have hpat : ∀ c rest, PatNext c → c ≠ .op .bar → tk c ≠ .hk .as →
      EvT (fun f => parsePattern f (sepBy (.op .bar) (renderPatList (p :: q :: ps) 2) ++ c :: rest))
        (.matchOr (p :: q :: ps), c :: rest) :=
    fun c rest hc hbar has => pat_of_or (hor c rest hc hbar) has
  have e0 : ∀ lvl, lvl < 2 →
      renderPat (.matchOr (p :: q :: ps)) lvl = sepBy (.op .bar) (renderPatList (p :: q :: ps) 2) := by
    intro lvl hl
    have : ¬ 2 ≤ lvl := by omega
    simp [renderPat, parenIf, this]
  have e2 : ∀ lvl, 2 ≤ lvl → renderPat (.matchOr (p :: q :: ps)) lvl =
      .op .lpar :: (sepBy (.op .bar) (renderPatList (p :: q :: ps) 2) ++ [.op .rpar]) := by
    intro lvl hl
    simp [renderPat, parenIf, hl]
  refine ⟨fun lvl => ?_, fun c rest hc => ?_, fun c rest hc hbar => ?_, fun c rest hc hbar has => ?_⟩
  · by_cases hl : 2 ≤ lvl
    · rw [e2 lvl hl]; exact hb.paren _
    · rw [e0 lvl (by omega)]; exact hb
  · rw [e2 2 (by omega)]; exact paren_closed hb hpat c rest
  · rw [e0 1 (by omega)]; exact hor c rest hc hbar
  · rw [e0 0 (by omega)]; exact hpat c rest hc hbar has

/-! ## the induction over patterns -/

mutual
theorem rtPat : (p : Pattern) → inFragPat p = true → RT p
  | .matchValue e, h => rt_value (by simpa only [inFragPat] using h)
  | .matchSingleton k, h => by
    refine rt_singleton ?_
    simp only [inFragPat] at h
    split at h
    · exact Or.inl rfl
    · exact Or.inr ⟨_, rfl⟩
    · cases h
  | .matchSequence ps, h => rt_seq (rtPats ps (by simpa only [inFragPat] using h))
  | .matchMapping ks ps ro, h => by
    simp only [inFragPat, Bool.and_eq_true, decide_eq_true_eq] at h
    exact rt_map h.1.2 h.1.1 (rtPats ps h.2) ro
  | .matchClass cls ps ka kp, h => by
    simp only [inFragPat, Bool.and_eq_true, decide_eq_true_eq] at h
    exact rt_class h.1.1.1 (rtPats ps h.1.2) h.1.1.2 (rtPats kp h.2)
  | .matchStar n, h => rt_star (by simpa only [inFragPat] using h)
  | .matchAs none n, h => rt_capture (by simpa only [inFragPat] using h)
  | .matchAs (some q) n, h => by
    simp only [inFragPat, Bool.and_eq_true] at h
    cases n with
    | none => simp at h
    | some m =>
      have hm : m ≠ [95] := by simpa [notWild] using h.1.2
      exact rt_as (rtPat q h.2) hm
  | .matchOr ps, h => by
    simp only [inFragPat, Bool.and_eq_true, decide_eq_true_eq] at h
    have hps := rtPats ps h.2
    match ps, h.1, hps with
    | p :: q :: ps, _, hps => exact rt_or hps
theorem rtPats : (ps : List Pattern) → inFragPats ps = true → RTs ps
  | [], _ => fun p hp => by simp at hp
  | p :: ps, h => by
    simp only [inFragPats, Bool.and_eq_true] at h
    have h1 := rtPat p h.1
    have h2 := rtPats ps h.2
    intro x hx
    rcases List.mem_cons.mp hx with rfl | hx'
    · exact h1
    · exact h2 x hx'
end

/-! ## `Patterns` -/

/-- a pattern of the fragment, printed at level 0 after `case` and followed by `:` or `if`, is read back by `Patterns` -/
theorem rt_patterns (p : Pattern) (h : inFragPat p = true) (c : Tok) (hc : c = .op .colon ∨ c = .kw .if)
    (rest : List Tok) :
    EvT (fun f => parsePatterns f (renderPat p 0 ++ c :: rest)) (p, c :: rest) := by
  have hp := rtPat p h
  have hn : PatNext c ∧ c ≠ .op .bar ∧ tk c ≠ .hk .as ∧ c ≠ .op .comma := by
    rcases hc with rfl | rfl
    · exact ⟨by simp [PatNext], by simp, by decide, by simp⟩
    · exact ⟨by simp [PatNext], by simp, by decide, by simp⟩
  obtain ⟨n, hn'⟩ := pl_last hp hn.1 hn.2.1 hn.2.2.1 hn.2.2.2 rest
  refine ⟨n, fun f hf => ?_⟩
  have h1 := hn' f hf
  simp only [] at h1 ⊢
  simp only [parsePatterns, h1]

/-- non-vacuity: `m.P(a, [*r, -1 + 2j], y=n.K | None as z, z={"k": _, True: *_, **kw})` -/
def samplePat : Pattern :=
  .matchClass (.attribute (.name [109]) [80])
    [.matchAs none (some [97]),
     .matchSequence [.matchStar (some [114]), .matchValue (.binOp (.unaryOp .uSub (.const (.int 1))) .add (.const (.imag 2)))]]
    [[121], [122]]
    [.matchAs (some (.matchOr [.matchValue (.attribute (.name [110]) [75]), .matchSingleton .none])) (some [122]),
     .matchMapping [.const (.str [107] false), .const (.bool true)] [.matchAs none none, .matchStar none] (some [107, 119])]

example : inFragPat samplePat = true := by decide
example : parsePatterns 60 (renderPat samplePat 0 ++ [.op .colon]) = some (samplePat, [.op .colon]) := by rfl
example : EvT (fun f => parsePatterns f (renderPat samplePat 0 ++ [.op .colon])) (samplePat, [.op .colon]) :=
  rt_patterns samplePat (by decide) _ (Or.inl rfl) []
end PV.Prog
