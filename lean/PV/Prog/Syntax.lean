import PV.Expr.Syntax
/-
  PV.Prog — the STATEMENT level of the grammar (`parser/src/python.lalrpop`).

  * `Stmt`, `ExceptHandler`, `MatchCase`, `Pattern`, `WithItem`, `Alias`, `TypeParam`, `Arg`,
    `ArgWithDefault`, `Arguments`, `Mod`: abstract syntax as `rustpython_ast` stores it, WITHOUT ranges,
    WITHOUT load/store/del tags and without the fields the parser never fills (`type_comment`,
    `type_ignores`) — the same erasure convention as `PV.Expr`.  One constructor per variant of the Rust
    enums (`FunctionDef`/`AsyncFunctionDef`, `For`/`AsyncFor`, `With`/`AsyncWith`, `Try`/`TryStar` are
    separate constructors, as in `ast::Stmt`).
  * `PTok`: what the LALRPOP parser is fed — expression tokens (`PV.Expr.Tok`, hard keywords are
    `Kw.other <spelling>`, the soft keywords `match` / `case` / `type` are `Kw.other` when
    `soft_keywords.rs` left them keywords and `Tok.name` when it turned them into identifiers, operators
    outside expressions are `Op.other <spelling>`) plus the three layout tokens.
  * `STok`: a token with its source span; `eraseSpans` forgets the spans.

  Core Lean only.
-/
namespace PV.Prog
open PV.Expr

/-! ## tokens -/

/-- the parser's input alphabet -/
inductive PTok where
  | e (t : Tok)
  | newline
  | indent
  | dedent
deriving DecidableEq, Repr, Inhabited

/-- `Tok::Newline` embedded into `PV.Expr.Tok` (an "other operator" no expression production mentions) -/
def tNewline : Tok := .op (.other [10])
/-- `Tok::Indent` -/
def tIndent : Tok := .op (.other [1])
/-- `Tok::Dedent` -/
def tDedent : Tok := .op (.other [2])

/-- The statement parser and the expression parser of `PV.C11` work on one token type: layout tokens
    become `Op.other` tokens with spellings no operator has. -/
def PTok.toTok : PTok → Tok
  | .e t => t
  | .newline => tNewline
  | .indent => tIndent
  | .dedent => tDedent

/-- a token with its byte span in the source -/
structure STok where
  tok : PTok
  start : Nat
  stop : Nat
deriving DecidableEq, Repr

/-- forget the spans -/
def eraseSpans (ts : List STok) : List PTok := ts.map (·.tok)

/-! ## abstract syntax -/

/-- `ast::Arg { arg, annotation }` -/
structure Arg where
  name : Ident
  annotation : Option Expr

/-- `ast::ArgWithDefault { def, default }` -/
structure ArgWithDefault where
  arg : Arg
  default : Option Expr

/-- `ast::Arguments { posonlyargs, args, vararg, kwonlyargs, kwarg }` -/
structure Arguments where
  posonly : List ArgWithDefault := []
  args : List ArgWithDefault := []
  vararg : Option Arg := none
  kwonly : List ArgWithDefault := []
  kwarg : Option Arg := none

/-- `ast::Alias { name, asname }` -/
structure Alias where
  name : Ident
  asname : Option Ident

/-- `ast::WithItem { context_expr, optional_vars }` -/
structure WithItem where
  contextExpr : Expr
  optionalVars : Option Expr

/-- `ast::TypeParam` -/
inductive TypeParam where
  | typeVar (name : Ident) (bound : Option Expr)
  | paramSpec (name : Ident)
  | typeVarTuple (name : Ident)

/-- `ast::Pattern` -/
inductive Pattern where
  | matchValue (value : Expr)
  | matchSingleton (value : Const)
  | matchSequence (patterns : List Pattern)
  /-- `keys` and `patterns` always have equal length in parser output; kept apart as in Rust -/
  | matchMapping (keys : List Expr) (patterns : List Pattern) (rest : Option Ident)
  | matchClass (cls : Expr) (patterns : List Pattern) (kwdAttrs : List Ident) (kwdPatterns : List Pattern)
  | matchStar (name : Option Ident)
  | matchAs (pattern : Option Pattern) (name : Option Ident)
  | matchOr (patterns : List Pattern)

instance : Inhabited Pattern := ⟨.matchStar none⟩

mutual
/-- `ast::Stmt`, one constructor per variant -/
inductive Stmt where
  | functionDef (name : Ident) (args : Arguments) (body : List Stmt) (decorators : List Expr)
      (returns : Option Expr) (typeParams : List TypeParam)
  | asyncFunctionDef (name : Ident) (args : Arguments) (body : List Stmt) (decorators : List Expr)
      (returns : Option Expr) (typeParams : List TypeParam)
  | classDef (name : Ident) (bases : List Expr) (keywords : List Keyword) (body : List Stmt)
      (decorators : List Expr) (typeParams : List TypeParam)
  | return (value : Option Expr)
  | delete (targets : List Expr)
  | assign (targets : List Expr) (value : Expr)
  | typeAlias (name : Expr) (typeParams : List TypeParam) (value : Expr)
  | augAssign (target : Expr) (op : BinOp) (value : Expr)
  | annAssign (target annotation : Expr) (value : Option Expr) (simple : Bool)
  | for (target iter : Expr) (body orelse : List Stmt)
  | asyncFor (target iter : Expr) (body orelse : List Stmt)
  | while (test : Expr) (body orelse : List Stmt)
  | if (test : Expr) (body orelse : List Stmt)
  | with (items : List WithItem) (body : List Stmt)
  | asyncWith (items : List WithItem) (body : List Stmt)
  | match (subject : Expr) (cases : List MatchCase)
  | raise (exc cause : Option Expr)
  | try (body : List Stmt) (handlers : List ExceptHandler) (orelse finalbody : List Stmt)
  | tryStar (body : List Stmt) (handlers : List ExceptHandler) (orelse finalbody : List Stmt)
  | assert (test : Expr) (msg : Option Expr)
  | import (names : List Alias)
  | importFrom (module : Option Ident) (names : List Alias) (level : Option Nat)
  | global (names : List Ident)
  | nonlocal (names : List Ident)
  | expr (value : Expr)
  | pass
  | break
  | continue
/-- `ast::ExceptHandler::ExceptHandler { type_, name, body }` -/
inductive ExceptHandler where
  | mk (type : Option Expr) (name : Option Ident) (body : List Stmt)
/-- `ast::MatchCase { pattern, guard, body }` -/
inductive MatchCase where
  | mk (pattern : Pattern) (guard : Option Expr) (body : List Stmt)
end

instance : Inhabited Stmt := ⟨.pass⟩

/-- `ast::Mod` as the three `Top` productions build it (`type_ignores` is always empty) -/
inductive Mod where
  | module (body : List Stmt)
  | interactive (body : List Stmt)
  | expression (body : Expr)

/-- `Mode` of `parser.rs` (which start marker is put in front of the tokens) -/
inductive Mode where
  | module | interactive | expression
deriving DecidableEq, Repr

end PV.Prog
