import PV.Prog.Lemmas
import PV.Prog.Render
import PV.C11.Thm
/-
  PV.Prog.RenderLemmas — the round trip through the statement printer, statement by statement
  (expression positions: `PV.C11.parse_unparse_partial_at`).
-/
set_option linter.unusedSimpArgs false
namespace PV.Prog
open PV.Expr PV.C11

/-- `p` answers `some r` for every sufficiently large fuel -/
def EvT {β : Type} (p : Nat → Option β) (r : β) : Prop := ∃ n, ∀ f, n ≤ f → p f = some r

theorem renderExpr_head (e : Expr) (h : inFrag e = true) : ∃ t r, renderExpr e = t :: r ∧ goodHead 1 t = true :=
  firstTok _ e h 1

theorem stop1_newline (rest : List Tok) : Stop 1 (tNewline :: rest) := by
  intro t r h; cases h; rfl

/-- a fragment expression, followed by NEWLINE or `:`, is read back by `Test` -/
theorem evT_parseTest (e : Expr) (h : inFrag e = true) (rest : List Tok) (hs : Stop 1 rest) :
    EvT (fun f => parseTest f (renderExpr e ++ rest)) (e, rest) := by
  obtain ⟨n, hn⟩ := parse_unparse_partial_at (fun _ => true) e h 1 rest (Nat.le_refl 1) (by decide) hs
  exact ⟨n, fun f hf => by have := hn f hf; rw [parseAt_1] at this; exact this⟩

theorem goodHead_not_star {t : Tok} (h : goodHead 1 t = true) : t ≠ .op .star := by
  intro e; subst e; simp [goodHead] at h

theorem goodHead_not_stmtHead {t : Tok} (h : goodHead 1 t = true) : stmtHead t = false := by
  unfold goodHead at h
  split at h <;> simp_all [stmtHead]

theorem parseTestOrStar_of_head {t : Tok} (ht : t ≠ .op .star) (r : List Tok) (f : Nat) :
    parseTestOrStar (f + 1) (t :: r) = parseTest f (t :: r) := by
  rw [parseTestOrStar.eq_3]
  intro r' h
  cases h
  exact ht rfl

/-- … and by the statement-level `TestList` as ONE element without trailing comma -/
theorem evT_commaList (e : Expr) (h : inFrag e = true) (rest : List Tok) :
    EvT (fun f => parseCommaList .testOrStar f (renderExpr e ++ tNewline :: rest)) (([e], false), tNewline :: rest) := by
  obtain ⟨n, hn⟩ := evT_parseTest e h (tNewline :: rest) (stop1_newline rest)
  obtain ⟨t, r, hr, hg⟩ := renderExpr_head e h
  refine ⟨n + 2, fun f hf => ?_⟩
  obtain ⟨f1, rfl⟩ : ∃ f1, f = f1 + 2 := ⟨f - 2, by omega⟩
  have h1 := hn f1 (by omega)
  simp only [] at h1
  rw [hr, List.cons_append] at h1 ⊢
  unfold parseCommaList
  simp only [parseElem, parseTestOrStar_of_head (goodHead_not_star hg), h1]
  simp [tNewline]

theorem evT_namedTest (e : Expr) (h : inFrag e = true) (rest : List Tok) :
    EvT (fun f => parseNamedTest f (renderExpr e ++ .op .colon :: rest)) (e, .op .colon :: rest) := by
  obtain ⟨n, hn⟩ := evT_parseTest e h (.op .colon :: rest) (stop1_colon rest)
  refine ⟨n + 1, fun f hf => ?_⟩
  obtain ⟨f1, rfl⟩ : ∃ f1, f = f1 + 1 := ⟨f - 1, by omega⟩
  have h1 := hn f1 (by omega)
  simp only [] at h1 ⊢
  rw [parseNamedTest.eq_3, h1]
  intro n' r' hh
  -- `:=` does not occur in the rendering, and the token after it is `:`
  have hw := noWalrus (fun _ => true) e h 1
  have : Tok.op .walrus ∈ renderExpr e ++ .op .colon :: rest → Tok.op .walrus ∈ renderExpr e ∨ Tok.op .walrus ∈ Tok.op .colon :: rest := by
    intro hm; exact List.mem_append.mp hm
  obtain ⟨t, r, hr, _⟩ := renderExpr_head e h
  rw [hr, List.cons_append] at hh
  simp only [List.cons.injEq] at hh
  obtain ⟨_, h2⟩ := hh
  cases r with
  | nil => simp at h2
  | cons x xs =>
    simp only [List.cons_append, List.cons.injEq] at h2
    have : Tok.op .walrus ∈ toks (unparse (fun _ => true) e 1) := by
      show Tok.op .walrus ∈ renderExpr e
      rw [hr, h2.1]; simp
    exact hw this


/-- what `parseBlock` and `parseProgramBody` do for one statement -/
def parseFirst (f : Nat) (ts : List Tok) : PR (List Stmt) :=
  if startsCompound ts then
    (match parseCompound f ts with
     | some (s, r) => some ([s], r)
     | none => none)
  else parseSimpleLine f ts

/-- the input does not go on with `else` / `elif` -/
def ElseFree : List Tok → Prop
  | [] => True
  | t :: _ => t ≠ .kw .else ∧ tk t ≠ .hk .elif ∧ tk t ≠ .newline

theorem startsExpr_of_goodHead {t : Tok} (h : goodHead 1 t = true) (r : List Tok) : startsExpr (t :: r) = true := by
  unfold goodHead at h
  split at h <;> simp_all [startsExpr]

/-! simple statements -/

theorem evT_pass (rest : List Tok) : EvT (fun f => parseFirst f (renderStmt .pass ++ rest)) ([.pass], rest) := by
  refine ⟨3, fun f hf => ?_⟩
  obtain ⟨f1, rfl⟩ : ∃ f1, f = f1 + 3 := ⟨f - 3, by omega⟩
  simp [renderStmt, parseFirst, startsCompound, parseSimpleLine, parseSmall, tk, HK.tok, HK.text, hardKw, tNewline]

theorem evT_break (rest : List Tok) : EvT (fun f => parseFirst f (renderStmt .break ++ rest)) ([.break], rest) := by
  refine ⟨3, fun f hf => ?_⟩
  obtain ⟨f1, rfl⟩ : ∃ f1, f = f1 + 3 := ⟨f - 3, by omega⟩
  simp [renderStmt, parseFirst, startsCompound, parseSimpleLine, parseSmall, tk, HK.tok, HK.text, hardKw, tNewline]

theorem evT_continue (rest : List Tok) : EvT (fun f => parseFirst f (renderStmt .continue ++ rest)) ([.continue], rest) := by
  refine ⟨3, fun f hf => ?_⟩
  obtain ⟨f1, rfl⟩ : ∃ f1, f = f1 + 3 := ⟨f - 3, by omega⟩
  simp [renderStmt, parseFirst, startsCompound, parseSimpleLine, parseSmall, tk, HK.tok, HK.text, hardKw, tNewline]

theorem evT_return_none (rest : List Tok) :
    EvT (fun f => parseFirst f (renderStmt (.return none) ++ rest)) ([.return none], rest) := by
  refine ⟨3, fun f hf => ?_⟩
  obtain ⟨f1, rfl⟩ : ∃ f1, f = f1 + 3 := ⟨f - 3, by omega⟩
  simp [renderStmt, parseFirst, startsCompound, parseSimpleLine, parseSmall, tk, HK.tok, HK.text, hardKw, tNewline, startsExpr]

theorem tk_tok (k : HK) : tk k.tok = .hk k := by cases k <;> rfl

theorem tok_ne_yield (k : HK) : k.tok ≠ .kw .yield := by cases k <;> simp [HK.tok]
theorem tok_ne_from (k : HK) : k.tok ≠ .kw .from := by cases k <;> simp [HK.tok]

theorem parseSmall_hk (k : HK) (f : Nat) (r : List Tok) :
    parseSmall (f + 1) (k.tok :: r) = parseSmall (f + 1) (k.tok :: r) := rfl

theorem evT_return_some (e : Expr) (h : inFrag e = true) (rest : List Tok) :
    EvT (fun f => parseFirst f (renderStmt (.return (some e)) ++ rest)) ([.return (some e)], rest) := by
  obtain ⟨n, hn⟩ := evT_commaList e h rest
  obtain ⟨t, r, hr, hg⟩ := renderExpr_head e h
  refine ⟨n + 3, fun f hf => ?_⟩
  obtain ⟨f1, rfl⟩ : ∃ f1, f = f1 + 3 := ⟨f - 3, by omega⟩
  have h1 := hn (f1 + 1) (by omega)
  have hse : startsExpr (renderExpr e ++ tNewline :: rest) = true := by
    rw [hr, List.cons_append]; exact startsExpr_of_goodHead hg _
  simp only [] at h1
  simp only [renderStmt, List.cons_append, List.append_assoc, List.nil_append, parseFirst]
  have hS : parseSmall (f1 + 2) (HK.tok .return :: (renderExpr e ++ tNewline :: rest)) =
      some (.return (some e), tNewline :: rest) := by
    unfold parseSmall
    split
    · rename_i hh; simp at hh
    · rename_i hh; simp at hh
    · rename_i hh; simp only [List.cons.injEq] at hh; exact absurd hh.1 (tok_ne_yield _)
    · rename_i hh; simp only [List.cons.injEq] at hh; exact absurd hh.1 (tok_ne_from _)
    · rename_i f' t' r' _ _ hf' hh
      simp only [List.cons.injEq] at hh
      obtain ⟨rfl, rfl⟩ := hh
      have : f' = f1 + 1 := by omega
      subst this
      simp [tk_tok, hse, parseTestListS, h1, genericList]
  have hL : parseSimpleLine (f1 + 3) (HK.tok .return :: (renderExpr e ++ tNewline :: rest)) =
      some ([.return (some e)], rest) := by
    rw [parseSimpleLine, hS]
    simp [tk_tNewline]
  have hc : startsCompound (HK.tok .return :: (renderExpr e ++ tNewline :: rest)) = false := by
    simp only [startsCompound, HK.tok]
    rfl
  simp [hc, hL]

theorem evT_expr (e : Expr) (h : inFrag e = true) (rest : List Tok) :
    EvT (fun f => parseFirst f (renderStmt (.expr e) ++ rest)) ([.expr e], rest) := by
  obtain ⟨n, hn⟩ := evT_commaList e h rest
  obtain ⟨t, r, hr, hg⟩ := renderExpr_head e h
  refine ⟨n + 3, fun f hf => ?_⟩
  obtain ⟨f1, rfl⟩ : ∃ f1, f = f1 + 3 := ⟨f - 3, by omega⟩
  have h1 := hn f1 (by omega)
  simp only [] at h1
  obtain ⟨d1, d2, d3, d4⟩ := dispatch_of_not_stmtHead (goodHead_not_stmtHead hg) (r ++ tNewline :: rest)
  simp only [renderStmt, List.append_assoc, List.cons_append, List.nil_append, parseFirst]
  rw [hr, List.cons_append] at h1 ⊢
  have hE : parseExprStmt (f1 + 1) (t :: (r ++ tNewline :: rest)) = some (.expr e, tNewline :: rest) := by
    unfold parseExprStmt
    simp only [tNewline] at h1 ⊢
    simp [h1, genericList, tk]
  have hS : parseSmall (f1 + 2) (t :: (r ++ tNewline :: rest)) = some (.expr e, tNewline :: rest) := by
    unfold parseSmall
    split <;> simp_all
  have hL : parseSimpleLine (f1 + 3) (t :: (r ++ tNewline :: rest)) = some ([.expr e], rest) := by
    rw [parseSimpleLine, hS]
    simp [tk_tNewline]
  simp [d2, hL]

/-! blocks and compound statements -/

theorem tk_tIndent : tk tIndent = .indent := by decide
theorem tk_tDedent : tk tDedent = .dedent := by decide

theorem parseSuite_block (f : Nat) (ts : List Tok) :
    parseSuite (f + 1) (tNewline :: tIndent :: ts) = parseBlock f ts := by
  rw [parseSuite]
  simp [tk_tNewline, tk_tIndent]

theorem parseBlock_unfold (f : Nat) (ts : List Tok) :
    parseBlock (f + 1) ts =
      (match parseFirst f ts with
       | some (ss, t :: r) =>
         if tk t = .dedent then some (ss, r)
         else
           (match parseBlock f (t :: r) with
            | some (more, r2) => some (ss ++ more, r2)
            | none => none)
       | _ => none) := by
  rw [parseBlock]
  rfl

theorem parseElifs_none (f : Nat) (ts : List Tok) (h : ElseFree ts ∨ ∃ r, ts = .kw .else :: r) :
    parseElifs (f + 1) ts = some ([], ts) := by
  cases ts with
  | nil => simp [parseElifs]
  | cons t r =>
    have : tk t ≠ .hk .elif := by
      rcases h with h | ⟨r', h⟩
      · exact h.2.1
      · simp only [List.cons.injEq] at h; rw [h.1]; decide
    simp [parseElifs, this]

theorem parseElse_none (f : Nat) (ts : List Tok) (h : ElseFree ts) : parseElse (f + 1) ts = some (none, ts) := by
  cases ts with
  | nil => simp [parseElse]
  | cons t r =>
    have ht : t ≠ .kw .else := h.1
    rw [parseElse.eq_4]
    · intro r' hh; simp only [List.cons.injEq] at hh; exact ht hh.1
    · intro r' hh; simp only [List.cons.injEq] at hh; exact ht hh.1

/-- first token of a rendered statement -/
def HeadOk (t : Tok) : Prop := t ≠ .kw .else ∧ tk t ≠ .hk .elif ∧ tk t ≠ .newline ∧ tk t ≠ .dedent

theorem headOk_tok {k : HK} (h : k ≠ .elif) : HeadOk k.tok := by
  refine ⟨by cases k <;> simp [HK.tok], ?_, ?_, ?_⟩ <;> rw [tk_tok] <;> simp [h]

theorem headOk_of_goodHead {t : Tok} (h : goodHead 1 t = true) : HeadOk t := by
  have hp := (dispatch_of_not_stmtHead (goodHead_not_stmtHead h) []).1
  refine ⟨?_, by rw [hp]; simp, by rw [hp]; simp, by rw [hp]; simp⟩
  intro e; subst e; simp [goodHead] at h

theorem renderStmt_head : (s : Stmt) → inFragS s = true → ∃ t r, renderStmt s = t :: r ∧ HeadOk t
  | .pass, _ => ⟨_, _, rfl, headOk_tok (by decide)⟩
  | .break, _ => ⟨_, _, rfl, headOk_tok (by decide)⟩
  | .continue, _ => ⟨_, _, rfl, headOk_tok (by decide)⟩
  | .return none, _ => ⟨_, _, rfl, headOk_tok (by decide)⟩
  | .return (some _), _ => ⟨_, _, rfl, headOk_tok (by decide)⟩
  | .if _ _ _, _ => ⟨_, _, rfl, by refine ⟨by simp, by decide, by decide, by decide⟩⟩
  | .while _ _ _, _ => ⟨_, _, rfl, headOk_tok (by decide)⟩
  | .expr e, h => by
    have h' : inFrag e = true := by simpa [inFragS] using h
    obtain ⟨t, r, hr, hg⟩ := renderExpr_head e h'
    exact ⟨t, r ++ [tNewline], by simp [renderStmt, hr], headOk_of_goodHead hg⟩
  | .functionDef .., h | .asyncFunctionDef .., h | .classDef .., h | .delete .., h | .assign .., h
  | .typeAlias .., h | .augAssign .., h | .annAssign .., h | .for .., h | .asyncFor .., h | .with .., h
  | .asyncWith .., h | .match .., h | .raise .., h | .try .., h | .tryStar .., h | .assert .., h
  | .import .., h | .importFrom .., h | .global .., h | .nonlocal .., h => by simp [inFragS] at h

theorem elseFree_of_headOk {t : Tok} {r : List Tok} (h : HeadOk t) : ElseFree (t :: r) := ⟨h.1, h.2.1, h.2.2.1⟩

theorem elseFree_dedent (r : List Tok) : ElseFree (tDedent :: r) :=
  ⟨by simp [tDedent], by rw [tk_tDedent]; simp, by rw [tk_tDedent]; simp⟩

/-- one rendered statement is read back by `parseFirst` -/
def StmtRT (s : Stmt) : Prop :=
  ∀ rest, ElseFree rest → EvT (fun f => parseFirst f (renderStmt s ++ rest)) ([s], rest)

/-- a rendered non-empty block followed by DEDENT is read back by `parseBlock` -/
def BlockRT (ss : List Stmt) : Prop :=
  ss ≠ [] → ∀ rest, EvT (fun f => parseBlock f (renderBlock ss ++ tDedent :: rest)) (ss, rest)

theorem blockRT_cons (s : Stmt) (ss : List Stmt) (hf : inFragB ss = true) (hs : StmtRT s) (hb : BlockRT ss) :
    BlockRT (s :: ss) := by
  intro _ rest
  cases ss with
  | nil =>
    obtain ⟨n, hn⟩ := hs (tDedent :: rest) (elseFree_dedent rest)
    refine ⟨n + 1, fun f hf => ?_⟩
    obtain ⟨f1, rfl⟩ : ∃ f1, f = f1 + 1 := ⟨f - 1, by omega⟩
    have h1 := hn f1 (by omega)
    simp only [renderBlock, List.append_nil] at h1 ⊢
    rw [parseBlock_unfold, h1]
    simp [tk_tDedent]
  | cons s2 ss' =>
    have hf2 : inFragS s2 = true := by
      simp only [inFragB, Bool.and_eq_true] at hf; exact hf.1
    obtain ⟨t2, r2, hr2, hh2⟩ := renderStmt_head s2 hf2
    have hrb : renderBlock (s2 :: ss') ++ tDedent :: rest = t2 :: (r2 ++ (renderBlock ss' ++ tDedent :: rest)) := by
      simp [renderBlock, hr2]
    obtain ⟨n, hn⟩ := hs (renderBlock (s2 :: ss') ++ tDedent :: rest) (by rw [hrb]; exact elseFree_of_headOk hh2)
    obtain ⟨m, hm⟩ := hb (by simp) rest
    refine ⟨max n m + 1, fun f hf => ?_⟩
    obtain ⟨f1, rfl⟩ : ∃ f1, f = f1 + 1 := ⟨f - 1, by omega⟩
    have h1 := hn f1 (by omega)
    have h2 := hm f1 (by omega)
    simp only [] at h1 h2 ⊢
    have : renderBlock (s :: s2 :: ss') ++ tDedent :: rest = renderStmt s ++ (renderBlock (s2 :: ss') ++ tDedent :: rest) := by
      simp [renderBlock]
    rw [this, parseBlock_unfold, h1]
    rw [hrb] at h2 ⊢
    simp [hh2.2.2.2, h2]

/-- the optional `else` block as `parseElse` returns it -/
def elseOpt (o : List Stmt) : Option (List Stmt) := if o.isEmpty then none else some o

theorem elseOpt_getD (o : List Stmt) : (elseOpt o).getD [] = o := by
  cases o <;> simp [elseOpt]

theorem evT_else (o : List Stmt) (ho : BlockRT o) (rest : List Tok) (hr : ElseFree rest) :
    EvT (fun f => parseElse f (renderElse o ++ rest)) (elseOpt o, rest) := by
  cases o with
  | nil =>
    refine ⟨1, fun f hf => ?_⟩
    obtain ⟨f1, rfl⟩ : ∃ f1, f = f1 + 1 := ⟨f - 1, by omega⟩
    simp only [renderElse, List.nil_append, elseOpt, List.isEmpty_nil, if_true]
    exact parseElse_none f1 rest hr
  | cons s ss =>
    obtain ⟨n, hn⟩ := ho (by simp) rest
    refine ⟨n + 2, fun f hf => ?_⟩
    obtain ⟨f1, rfl⟩ : ∃ f1, f = f1 + 2 := ⟨f - 2, by omega⟩
    have h1 := hn f1 (by omega)
    simp only [renderBlock, List.append_assoc] at h1
    simp only [renderElse, List.cons_append, List.append_assoc, List.nil_append, elseOpt]
    rw [parseElse, parseSuite_block, h1]
    simp

theorem stmtRT_if (t : Expr) (b o : List Stmt) (ht : inFrag t = true) (hbne : b ≠ []) (hb : BlockRT b) (ho : BlockRT o) :
    StmtRT (.if t b o) := by
  intro rest hrest
  obtain ⟨n1, hn1⟩ := evT_namedTest t ht (tNewline :: tIndent :: (renderBlock b ++ (tDedent :: (renderElse o ++ rest))))
  obtain ⟨n2, hn2⟩ := hb hbne (renderElse o ++ rest)
  obtain ⟨n3, hn3⟩ := evT_else o ho rest hrest
  refine ⟨max n1 (max n2 n3) + 3, fun f hf => ?_⟩
  obtain ⟨f1, rfl⟩ : ∃ f1, f = f1 + 3 := ⟨f - 3, by omega⟩
  have h1 := hn1 (f1 + 2) (by omega)
  have h2 := hn2 (f1 + 1) (by omega)
  have h3 := hn3 (f1 + 2) (by omega)
  simp only [] at h1 h2 h3
  have hel : ElseFree (renderElse o ++ rest) ∨ ∃ r, renderElse o ++ rest = .kw .else :: r := by
    cases o with
    | nil => exact Or.inl (by simpa [renderElse] using hrest)
    | cons s ss =>
      exact Or.inr ⟨.op .colon :: tNewline :: tIndent :: (renderStmt s ++ (renderBlock ss ++ [tDedent])) ++ rest,
        by simp [renderElse]⟩
  simp only [renderStmt, List.cons_append, List.append_assoc, parseFirst, startsCompound, if_true]
  rw [parseCompound, h1]
  simp only []
  rw [parseSuite_block, h2]
  simp only []
  rw [parseElifs_none _ _ hel]
  simp only []
  rw [h3]
  simp [ifAssemble, elifFold, elseOpt_getD]

theorem parseCompound_while (f : Nat) (r : List Tok) :
    parseCompound (f + 1) (HK.tok .while :: r) =
      (match parseNamedTest f r with
       | some (test, .op .colon :: r1) =>
         (match parseSuite f r1 with
          | some (body, r2) =>
            (match parseElse f r2 with
             | some (oe, r3) => some (.while test body (oe.getD []), r3)
             | none => none)
          | none => none)
       | _ => none) := by
  unfold parseCompound
  split
  all_goals (try (rename_i hh; simp [HK.tok] at hh; done))
  all_goals (try (rename_i hh _; simp [HK.tok] at hh; done))
  rename_i f' t' r' _ _ _ _ _ _ hf' hh
  simp only [List.cons.injEq] at hh
  obtain ⟨rfl, rfl⟩ := hh
  simp only [Nat.succ_eq_add_one, Nat.add_right_cancel_iff] at hf'
  subst hf'
  rw [tk_tok]
  rfl

theorem stmtRT_while (t : Expr) (b o : List Stmt) (ht : inFrag t = true) (hbne : b ≠ []) (hb : BlockRT b)
    (ho : BlockRT o) : StmtRT (.while t b o) := by
  intro rest hrest
  obtain ⟨n1, hn1⟩ := evT_namedTest t ht (tNewline :: tIndent :: (renderBlock b ++ (tDedent :: (renderElse o ++ rest))))
  obtain ⟨n2, hn2⟩ := hb hbne (renderElse o ++ rest)
  obtain ⟨n3, hn3⟩ := evT_else o ho rest hrest
  refine ⟨max n1 (max n2 n3) + 3, fun f hf => ?_⟩
  obtain ⟨f1, rfl⟩ : ∃ f1, f = f1 + 3 := ⟨f - 3, by omega⟩
  have h1 := hn1 (f1 + 2) (by omega)
  have h2 := hn2 (f1 + 1) (by omega)
  have h3 := hn3 (f1 + 2) (by omega)
  simp only [] at h1 h2 h3
  have hc : startsCompound (HK.tok .while :: (renderExpr t ++ (.op .colon :: tNewline :: tIndent ::
      (renderBlock b ++ (tDedent :: (renderElse o ++ rest)))))) = true := by
    simp only [startsCompound, HK.tok]; rfl
  simp only [renderStmt, List.cons_append, List.append_assoc, parseFirst, hc, if_true]
  rw [parseCompound_while, h1]
  simp only []
  rw [parseSuite_block, h2]
  simp only []
  rw [h3]
  simp [elseOpt_getD]

mutual
theorem rtStmt : (s : Stmt) → inFragS s = true → StmtRT s
  | .pass, _ => fun rest _ => evT_pass rest
  | .break, _ => fun rest _ => evT_break rest
  | .continue, _ => fun rest _ => evT_continue rest
  | .return none, _ => fun rest _ => evT_return_none rest
  | .return (some e), h => fun rest _ => evT_return_some e (by simpa [inFragS] using h) rest
  | .expr e, h => fun rest _ => evT_expr e (by simpa [inFragS] using h) rest
  | .if t b o, h => by
    simp only [inFragS, Bool.and_eq_true, Bool.not_eq_true', List.isEmpty_eq_false_iff] at h
    exact stmtRT_if t b o h.1.1.1 h.1.1.2 (rtBlock b h.1.2) (rtBlock o h.2)
  | .while t b o, h => by
    simp only [inFragS, Bool.and_eq_true, Bool.not_eq_true', List.isEmpty_eq_false_iff] at h
    exact stmtRT_while t b o h.1.1.1 h.1.1.2 (rtBlock b h.1.2) (rtBlock o h.2)
  | .functionDef .., h | .asyncFunctionDef .., h | .classDef .., h | .delete .., h | .assign .., h
  | .typeAlias .., h | .augAssign .., h | .annAssign .., h | .for .., h | .asyncFor .., h | .with .., h
  | .asyncWith .., h | .match .., h | .raise .., h | .try .., h | .tryStar .., h | .assert .., h
  | .import .., h | .importFrom .., h | .global .., h | .nonlocal .., h => by simp [inFragS] at h
theorem rtBlock : (ss : List Stmt) → inFragB ss = true → BlockRT ss
  | [], _ => fun hne => absurd rfl hne
  | s :: ss, h => by
    simp only [inFragB, Bool.and_eq_true] at h
    exact blockRT_cons s ss h.2 (rtStmt s h.1) (rtBlock ss h.2)
end

theorem parseProgramBody_unfold (f : Nat) (t : Tok) (r : List Tok) (ht : tk t ≠ .newline) :
    parseProgramBody (f + 1) (t :: r) =
      (match parseFirst f (t :: r) with
       | some (ss, r1) =>
         (match parseProgramBody f r1 with
          | some more => some (ss ++ more)
          | none => none)
       | none => none) := by
  rw [parseProgramBody]
  simp only [ht, if_false, parseFirst]
  by_cases hc : startsCompound (t :: r) = true
  · simp only [hc, if_true]
    cases parseCompound f (t :: r) with
    | none => rfl
    | some x => obtain ⟨s, r1⟩ := x; rfl
  · simp only [hc]
    rfl

theorem elseFree_renderBlock (ss : List Stmt) (h : inFragB ss = true) : ElseFree (renderBlock ss) := by
  cases ss with
  | nil => simp [renderBlock, ElseFree]
  | cons s ss' =>
    simp only [inFragB, Bool.and_eq_true] at h
    obtain ⟨t, r, hr, hh⟩ := renderStmt_head s h.1
    simp only [renderBlock, hr, List.cons_append]
    exact elseFree_of_headOk hh

/-- a rendered program is read back -/
theorem progRT : (ss : List Stmt) → inFragB ss = true → EvT (fun f => parseProgramBody f (renderBlock ss)) ss
  | [], _ => ⟨1, fun f hf => by
      obtain ⟨f1, rfl⟩ : ∃ f1, f = f1 + 1 := ⟨f - 1, by omega⟩
      simp [renderBlock, parseProgramBody]⟩
  | s :: ss, h => by
    simp only [inFragB, Bool.and_eq_true] at h
    obtain ⟨n, hn⟩ := rtStmt s h.1 (renderBlock ss) (elseFree_renderBlock ss h.2)
    obtain ⟨m, hm⟩ := progRT ss h.2
    obtain ⟨t, r, hr, hh⟩ := renderStmt_head s h.1
    refine ⟨max n m + 1, fun f hf => ?_⟩
    obtain ⟨f1, rfl⟩ : ∃ f1, f = f1 + 1 := ⟨f - 1, by omega⟩
    have h1 := hn f1 (by omega)
    have h2 := hm f1 (by omega)
    simp only [] at h1 h2 ⊢
    simp only [renderBlock] at h1 ⊢
    rw [hr, List.cons_append] at h1 ⊢
    rw [parseProgramBody_unfold _ _ _ hh.2.2.1, h1]
    simp [h2]

theorem map_toTok_ofTok (ts : List Tok) : (ts.map PTok.ofTok).map PTok.toTok = ts := by
  induction ts with
  | nil => rfl
  | cons t r ih => simp [PTok.toTok_ofTok, ih]

end PV.Prog
