import PV.Prog.RtSimple
import PV.Prog.RtParams
import PV.Prog.RtBal
import PV.Prog.RtPat
/-
  PV.Prog.RenderLemmas — the round trip through the statement printer: blocks, suites, `else` / `finally` clauses, the
  compound statements, and the mutual induction over statements / blocks / handlers / cases (`rtStmt`, `rtBlock`,
  `rtHandlers`, `rtCases`), programs (`progRT`).
  Expression positions: PV.Prog.RtBase (on `PV.C11.goodX`); simple statements: RtSimple; parameter lists: RtParams;
  patterns: RtPat; bracket balance of renderings (the scanner of `with ( … ) :`): RtBal.
-/
set_option linter.unusedSimpArgs false
namespace PV.Prog
open PV.Expr PV.C11

/-! ## what may follow a statement -/

/-- the input does not go on with a clause keyword of a compound statement -/
def ElseFree : List Tok → Prop
  | [] => True
  | t :: _ => t ≠ .kw .else ∧ tk t ≠ .hk .elif ∧ tk t ≠ .hk .except ∧ tk t ≠ .hk .finally

/-- first token of a rendered statement -/
def StmtHeadOk (t : Tok) : Prop :=
  t ≠ .kw .else ∧ tk t ≠ .hk .elif ∧ tk t ≠ .hk .except ∧ tk t ≠ .hk .finally ∧ tk t ≠ .newline ∧ tk t ≠ .dedent

theorem stmtHeadOk_tok {k : HK} (h : k ≠ .elif ∧ k ≠ .except ∧ k ≠ .finally) : StmtHeadOk k.tok := by
  refine ⟨by cases k <;> simp [HK.tok], ?_, ?_, ?_, ?_, ?_⟩ <;> rw [tk_tok] <;> simp [h]

theorem stmtHeadOk_of_plain {t : Tok} (h : tk t = .plain) (he : t ≠ .kw .else) : StmtHeadOk t :=
  ⟨he, by rw [h]; simp, by rw [h]; simp, by rw [h]; simp, by rw [h]; simp, by rw [h]; simp⟩

theorem elseFree_of_headOk {t : Tok} {r : List Tok} (h : StmtHeadOk t) : ElseFree (t :: r) := ⟨h.1, h.2.1, h.2.2.1, h.2.2.2.1⟩

theorem elseFree_dedent (r : List Tok) : ElseFree (tDedent :: r) :=
  ⟨by simp [tDedent], by rw [tk_tDedent]; simp, by rw [tk_tDedent]; simp, by rw [tk_tDedent]; simp⟩

theorem elseFree_hk {k : HK} (h : k ≠ .elif ∧ k ≠ .except ∧ k ≠ .finally) (r : List Tok) : ElseFree (k.tok :: r) :=
  elseFree_of_headOk (stmtHeadOk_tok h)

/-- one rendered statement is read back by `parseFirst` -/
def StmtRT (s : Stmt) : Prop :=
  ∀ rest, ElseFree rest → EvT (fun f => parseFirst f (renderStmt s ++ rest)) ([s], rest)

/-- a rendered non-empty block followed by DEDENT is read back by `parseBlock` -/
def BlockRT (ss : List Stmt) : Prop :=
  ss ≠ [] → ∀ rest, EvT (fun f => parseBlock f (renderBlock ss ++ tDedent :: rest)) (ss, rest)

theorem stmtRT_of_small {s : Stmt} {body : List Tok} (hr : renderStmt s = body ++ [tNewline]) (h : SmallRT s body) :
    StmtRT s := by
  intro rest _
  rw [hr, List.append_assoc]
  exact first_of_small h rest

/-! ## suites, `else`, `finally` -/

theorem parseSuite_block (f : Nat) (ts : List Tok) :
    parseSuite (f + 1) (tNewline :: tIndent :: ts) = parseBlock f ts := by
  rw [parseSuite]
  simp [tk_tNewline, tk_tIndent]

theorem parseBlock_unfold (f : Nat) (ts : List Tok) :
    parseBlock (f + 1) ts =
      (match parseFirst f ts with
       | some (ss, t :: r) =>
         if tk t = .dedent then some (ss, r)
         else
           (match parseBlock f (t :: r) with
            | some (more, r2) => some (ss ++ more, r2)
            | none => none)
       | _ => none) := by
  rw [parseBlock]
  rfl

/-- a suite after its `:` -/
theorem suiteRT {b : List Stmt} (hb : BlockRT b) (hne : b ≠ []) (rest : List Tok) :
    EvT (fun f => parseSuite f (tNewline :: tIndent :: (renderBlock b ++ tDedent :: rest))) (b, rest) := by
  obtain ⟨n, hn⟩ := hb hne rest
  refine ⟨n + 1, fun f hf => ?_⟩
  obtain ⟨f1, rfl⟩ : ∃ f1, f = f1 + 1 := ⟨f - 1, by omega⟩
  have h1 := hn f1 (by omega)
  simp only [] at h1 ⊢
  rw [parseSuite_block, h1]

theorem suiteToks_append (block rest : List Tok) :
    suiteToks block ++ rest = tColon :: tNewline :: tIndent :: (block ++ tDedent :: rest) := by
  simp [suiteToks]

/-- the optional block as `parseElse` / `parseFinally` return it -/
def blockOpt (o : List Stmt) : Option (List Stmt) := if o.isEmpty then none else some o

theorem blockOpt_getD (o : List Stmt) : (blockOpt o).getD [] = o := by
  cases o <;> simp [blockOpt]

/-- the input does not go on with `else` -/
def NotElse (ts : List Tok) : Prop := ∀ r, ts ≠ .kw .else :: r

/-- the input does not go on with `finally` -/
def NotFinally : List Tok → Prop
  | [] => True
  | t :: _ => tk t ≠ .hk .finally

/-- the input does not go on with `except` -/
def NotExcept : List Tok → Prop
  | [] => True
  | t :: _ => tk t ≠ .hk .except

theorem ElseFree.notElse {ts : List Tok} (h : ElseFree ts) : NotElse ts := by
  intro r hh; subst hh; exact h.1 rfl

theorem ElseFree.notFinally {ts : List Tok} (h : ElseFree ts) : NotFinally ts := by
  cases ts with
  | nil => trivial
  | cons t r => exact h.2.2.2

theorem ElseFree.notExcept {ts : List Tok} (h : ElseFree ts) : NotExcept ts := by
  cases ts with
  | nil => trivial
  | cons t r => exact h.2.2.1

theorem parseElse_none (f : Nat) (ts : List Tok) (h : NotElse ts) : parseElse (f + 1) ts = some (none, ts) := by
  cases ts with
  | nil => simp [parseElse]
  | cons t r =>
    have ht : t ≠ .kw .else := fun e => h r (by rw [e])
    rw [parseElse.eq_4]
    · intro r' hh; simp only [List.cons.injEq] at hh; exact ht hh.1
    · intro r' hh; simp only [List.cons.injEq] at hh; exact ht hh.1

theorem evT_else (o : List Stmt) (ho : BlockRT o) (rest : List Tok) (hr : NotElse rest) :
    EvT (fun f => parseElse f (elseToks o (renderBlock o) ++ rest)) (blockOpt o, rest) := by
  cases o with
  | nil =>
    refine ⟨1, fun f hf => ?_⟩
    obtain ⟨f1, rfl⟩ : ∃ f1, f = f1 + 1 := ⟨f - 1, by omega⟩
    simp only [elseToks, List.isEmpty_nil, if_true, List.nil_append, blockOpt]
    exact parseElse_none f1 rest hr
  | cons s ss =>
    obtain ⟨n, hn⟩ := suiteRT ho (by simp) rest
    refine ⟨n + 1, fun f hf => ?_⟩
    obtain ⟨f1, rfl⟩ : ∃ f1, f = f1 + 1 := ⟨f - 1, by omega⟩
    have h1 := hn f1 (by omega)
    simp only [] at h1 ⊢
    simp only [elseToks, List.isEmpty_cons, Bool.false_eq_true, if_false, List.cons_append, suiteToks_append, tColon, blockOpt]
    rw [parseElse, h1]

theorem parseFinally_none (f : Nat) (ts : List Tok) (h : NotFinally ts) : parseFinally (f + 1) ts = some (none, ts) := by
  cases ts with
  | nil => simp [parseFinally]
  | cons t r =>
    have ht : tk t ≠ .hk .finally := h
    simp [parseFinally, ht]

theorem evT_finally (o : List Stmt) (ho : BlockRT o) (rest : List Tok) (hr : NotFinally rest) :
    EvT (fun f => parseFinally f (finallyToks o (renderBlock o) ++ rest)) (blockOpt o, rest) := by
  cases o with
  | nil =>
    refine ⟨1, fun f hf => ?_⟩
    obtain ⟨f1, rfl⟩ : ∃ f1, f = f1 + 1 := ⟨f - 1, by omega⟩
    simp only [finallyToks, List.isEmpty_nil, if_true, List.nil_append, blockOpt]
    exact parseFinally_none f1 rest hr
  | cons s ss =>
    obtain ⟨n, hn⟩ := suiteRT ho (by simp) rest
    refine ⟨n + 1, fun f hf => ?_⟩
    obtain ⟨f1, rfl⟩ : ∃ f1, f = f1 + 1 := ⟨f - 1, by omega⟩
    have h1 := hn f1 (by omega)
    simp only [] at h1 ⊢
    simp only [finallyToks, List.isEmpty_cons, Bool.false_eq_true, if_false, List.cons_append, suiteToks_append, tColon, blockOpt]
    rw [parseFinally]
    simp only [tk_tok, if_true, h1]

/-- what follows a suite that may be followed by `else` -/
theorem elseFree_elseToks (o : List Stmt) (blk rest : List Tok) (h : ElseFree rest) :
    ElseFree (elseToks o blk ++ rest) ∨ ∃ r, elseToks o blk ++ rest = .kw .else :: r := by
  cases o with
  | nil => exact Or.inl (by simpa [elseToks] using h)
  | cons s ss => exact Or.inr ⟨suiteToks blk ++ rest, by simp [elseToks]⟩

/-! ## the dispatch of `CompoundStatement` on a statement keyword -/

macro "compound_hk" : tactic => `(tactic| (
  unfold parseCompound
  split
  all_goals (try (rename_i hh; simp [HK.tok] at hh; done))
  all_goals (try (rename_i hh _; simp [HK.tok] at hh; done))
  rename_i f' t' r' _ _ _ _ _ _ hf' hh
  simp only [List.cons.injEq] at hh
  obtain ⟨hh1, hh2⟩ := hh
  subst hh1
  subst hh2
  simp only [Nat.succ_eq_add_one, Nat.add_right_cancel_iff] at hf'
  subst hf'
  rw [tk_tok]
  all_goals rfl))

theorem parseCompound_while (f : Nat) (r : List Tok) :
    parseCompound (f + 1) (HK.tok .while :: r) =
      (match parseNamedTest f r with
       | some (test, .op .colon :: r1) =>
         (match parseSuite f r1 with
          | some (body, r2) =>
            (match parseElse f r2 with
             | some (oe, r3) => some (.while test body (oe.getD []), r3)
             | none => none)
          | none => none)
       | _ => none) := by compound_hk

theorem parseCompound_with (f : Nat) (r : List Tok) :
    parseCompound (f + 1) (HK.tok .with :: r) = parseWith f false r := by compound_hk

theorem parseCompound_def (f : Nat) (r : List Tok) :
    parseCompound (f + 1) (HK.tok .def :: r) = parseDef f false [] r := by compound_hk

theorem parseCompound_class (f : Nat) (r : List Tok) :
    parseCompound (f + 1) (HK.tok .class :: r) = parseClass f [] r := by compound_hk

theorem parseCompound_try (f : Nat) (r : List Tok) :
    parseCompound (f + 1) (HK.tok .try :: r) =
      (match r with
       | .op .colon :: r1 =>
         (match parseSuite f r1 with
          | some (body, t2 :: r2) =>
            (match tk t2 with
             | .hk .finally =>
               (match r2 with
                | .op .colon :: r3 =>
                  (match parseSuite f r3 with
                   | some (fb, r4) => some (.try body [] [] fb, r4)
                   | none => none)
                | _ => none)
             | .hk .except =>
               let star : Bool := match r2 with | .op .star :: _ => true | _ => false
               (match parseHandlers f star (t2 :: r2) with
                | some (hs, r3) =>
                  (match parseElse f r3 with
                   | some (oe, r4) =>
                     (match parseFinally f r4 with
                      | some (fb, r5) =>
                        if star then some (.tryStar body hs (oe.getD []) (fb.getD []), r5)
                        else some (.try body hs (oe.getD []) (fb.getD []), r5)
                      | none => none)
                   | none => none)
                | none => none)
             | _ => none)
          | _ => none)
       | _ => none) := by compound_hk

theorem parseCompound_match (f : Nat) (r : List Tok) :
    parseCompound (f + 1) (HK.tok .match :: r) =
      (match parseCommaList .starOrNamed f r with
       | some ((es, tc), .op .colon :: t1 :: t2 :: r1) =>
         if tk t1 = .newline ∧ tk t2 = .indent then
           (match parseCases f r1 with
            | some (cs, r2) => some (.match (genericList (es, tc)) cs, r2)
            | none => none)
         else none
       | _ => none) := by compound_hk

theorem startsCompound_hk_true {k : HK} (hk : k = .while ∨ k = .try ∨ k = .with ∨ k = .def ∨ k = .class ∨ k = .match)
    (r : List Tok) : startsCompound (k.tok :: r) = true := by
  rcases hk with rfl | rfl | rfl | rfl | rfl | rfl <;> rfl

/-- a compound statement read by `parseCompound` is read by `parseFirst` -/
theorem first_of_compound {s : Stmt} {ts rest : List Tok} (hc : startsCompound ts = true)
    (h : EvT (fun f => parseCompound f ts) (s, rest)) : EvT (fun f => parseFirst f ts) ([s], rest) := by
  obtain ⟨n, hn⟩ := h
  refine ⟨n, fun f hf => ?_⟩
  have h1 := hn f hf
  simp only [] at h1 ⊢
  simp [parseFirst, hc, h1]

/-! ## if, while, for -/

theorem parseElifs_none (f : Nat) (ts : List Tok) (h : ElseFree ts ∨ ∃ r, ts = .kw .else :: r) :
    parseElifs (f + 1) ts = some ([], ts) := by
  cases ts with
  | nil => simp [parseElifs]
  | cons t r =>
    have : tk t ≠ .hk .elif := by
      rcases h with h | ⟨r', h⟩
      · exact h.2.1
      · simp only [List.cons.injEq] at h; rw [h.1]; decide
    simp [parseElifs, this]

/-- `test ":" suite ("else" suite)?` after the keyword, as `if` and `while` read it -/
theorem headerRT {t : Expr} {b o : List Stmt} (ht : GoodP P0 t) (hbne : b ≠ []) (hb : BlockRT b) (ho : BlockRT o)
    (rest : List Tok) (hrest : ElseFree rest) :
    ∃ n, ∀ f, n ≤ f →
      parseNamedTest f (renderExpr t ++ (suiteToks (renderBlock b) ++ (elseToks o (renderBlock o) ++ rest))) =
        some (t, .op .colon :: tNewline :: tIndent :: (renderBlock b ++ tDedent :: (elseToks o (renderBlock o) ++ rest))) ∧
      parseSuite f (tNewline :: tIndent :: (renderBlock b ++ tDedent :: (elseToks o (renderBlock o) ++ rest))) =
        some (b, elseToks o (renderBlock o) ++ rest) ∧
      parseElse f (elseToks o (renderBlock o) ++ rest) = some (blockOpt o, rest) := by
  obtain ⟨n1, hn1⟩ := evT_namedTest ht endTok_colon (by decide) (by decide)
    (tNewline :: tIndent :: (renderBlock b ++ tDedent :: (elseToks o (renderBlock o) ++ rest)))
  obtain ⟨n2, hn2⟩ := suiteRT hb hbne (elseToks o (renderBlock o) ++ rest)
  obtain ⟨n3, hn3⟩ := evT_else o ho rest hrest.notElse
  refine ⟨max n1 (max n2 n3), fun f hf => ⟨?_, hn2 f (by omega), hn3 f (by omega)⟩⟩
  have h1 := hn1 f (by omega)
  simp only [] at h1
  simp only [renderExpr_eq, suiteToks_append, tColon]
  exact h1

theorem stmtRT_if {t : Expr} {b o : List Stmt} (ht : GoodP P0 t) (hbne : b ≠ []) (hb : BlockRT b) (ho : BlockRT o) :
    StmtRT (.if t b o) := by
  intro rest hrest
  refine first_of_compound (by simp [renderStmt, startsCompound]) ?_
  obtain ⟨n, hn⟩ := headerRT ht hbne hb ho rest hrest
  refine ⟨n + 2, fun f hf => ?_⟩
  obtain ⟨f1, rfl⟩ : ∃ f1, f = f1 + 2 := ⟨f - 2, by omega⟩
  obtain ⟨h1, h2, h3⟩ := hn (f1 + 1) (by omega)
  simp only [renderStmt, List.cons_append, List.append_assoc]
  rw [parseCompound, h1]
  simp only [h2]
  rw [parseElifs_none _ _ (elseFree_elseToks o _ rest hrest)]
  simp only [h3]
  simp [ifAssemble, elifFold, blockOpt_getD]

theorem stmtRT_while {t : Expr} {b o : List Stmt} (ht : GoodP P0 t) (hbne : b ≠ []) (hb : BlockRT b) (ho : BlockRT o) :
    StmtRT (.while t b o) := by
  intro rest hrest
  refine first_of_compound (by simp only [renderStmt, List.cons_append]; exact startsCompound_hk_true (by simp) _) ?_
  obtain ⟨n, hn⟩ := headerRT ht hbne hb ho rest hrest
  refine ⟨n + 1, fun f hf => ?_⟩
  obtain ⟨f1, rfl⟩ : ∃ f1, f = f1 + 1 := ⟨f - 1, by omega⟩
  obtain ⟨h1, h2, h3⟩ := hn f1 (by omega)
  simp only [renderStmt, List.cons_append, List.append_assoc]
  rw [parseCompound_while, h1]
  simp only [h2, h3, blockOpt_getD]

theorem parseTargetList_one {f : Nat} {ts : List Tok} {t : Expr} {rest : List Tok}
    (h : parseExprOrStar f ts = some (t, .kw .in :: rest)) : parseTargetList (f + 1) ts = some (t, .kw .in :: rest) := by
  rw [parseTargetList, h]

theorem parseFor_rt {a : Bool} {t i : Expr} {b o : List Stmt} (ht : ElemOK P0 t) (hi : ElemOK P0 i) (hbne : b ≠ [])
    (hb : BlockRT b) (ho : BlockRT o) (rest : List Tok) (hrest : ElseFree rest) :
    EvT (fun f => parseFor f a (rx 6 t ++ .kw .in :: (rx 1 i ++ (suiteToks (renderBlock b) ++ elseToks o (renderBlock o))) ++ rest))
      (if a then .asyncFor t i b o else .for t i b o, rest) := by
  obtain ⟨n1, hn1⟩ := evT_exprOrStar ht contTok_in_6
    (rx 1 i ++ (tColon :: tNewline :: tIndent :: (renderBlock b ++ tDedent :: (elseToks o (renderBlock o) ++ rest))))
  obtain ⟨n2, hn2⟩ := evT_testListS hi endTok_colon (by decide)
    (tNewline :: tIndent :: (renderBlock b ++ tDedent :: (elseToks o (renderBlock o) ++ rest)))
  obtain ⟨n3, hn3⟩ := suiteRT hb hbne (elseToks o (renderBlock o) ++ rest)
  obtain ⟨n4, hn4⟩ := evT_else o ho rest hrest.notElse
  refine ⟨max (max n1 n2) (max n3 n4) + 2, fun f hf => ?_⟩
  obtain ⟨f1, rfl⟩ : ∃ f1, f = f1 + 2 := ⟨f - 2, by omega⟩
  have h1 := hn1 f1 (by omega)
  have h2 := hn2 (f1 + 1) (by omega)
  have h3 := hn3 (f1 + 1) (by omega)
  have h4 := hn4 (f1 + 1) (by omega)
  simp only [] at h1 h2 h3 h4 ⊢
  simp only [List.append_assoc, List.cons_append, suiteToks_append, tColon] at h1 h2 ⊢
  rw [parseFor, parseTargetList_one h1]
  simp only [h2, h3, h4, blockOpt_getD]
  cases a <;> rfl

theorem stmtRT_for {t i : Expr} {b o : List Stmt} (ht : ElemOK P0 t) (hi : ElemOK P0 i) (hbne : b ≠ [])
    (hb : BlockRT b) (ho : BlockRT o) : StmtRT (.for t i b o) := by
  intro rest hrest
  refine first_of_compound (by simp [renderStmt, forToks, asyncToks, startsCompound]) ?_
  obtain ⟨n, hn⟩ := parseFor_rt (a := false) ht hi hbne hb ho rest hrest
  refine ⟨n + 1, fun f hf => ?_⟩
  obtain ⟨f1, rfl⟩ : ∃ f1, f = f1 + 1 := ⟨f - 1, by omega⟩
  have h1 := hn f1 (by omega)
  simp only [] at h1 ⊢
  simp only [renderStmt, forToks, asyncToks, Bool.false_eq_true, if_false, List.nil_append, List.cons_append]
  rw [parseCompound]
  simpa using h1

theorem stmtRT_asyncFor {t i : Expr} {b o : List Stmt} (ht : ElemOK P0 t) (hi : ElemOK P0 i) (hbne : b ≠ [])
    (hb : BlockRT b) (ho : BlockRT o) : StmtRT (.asyncFor t i b o) := by
  intro rest hrest
  refine first_of_compound (by simp [renderStmt, forToks, asyncToks, startsCompound]) ?_
  obtain ⟨n, hn⟩ := parseFor_rt (a := true) ht hi hbne hb ho rest hrest
  refine ⟨n + 1, fun f hf => ?_⟩
  obtain ⟨f1, rfl⟩ : ∃ f1, f = f1 + 1 := ⟨f - 1, by omega⟩
  have h1 := hn f1 (by omega)
  simp only [] at h1 ⊢
  simp only [renderStmt, forToks, asyncToks, if_true, List.cons_append, List.nil_append]
  rw [parseCompound]
  simpa using h1

/-! ## try -/

/-- the side conditions of one handler -/
def handlerOk (star : Bool) (ty : Option Expr) (nm : Option Ident) : Prop :=
  GoodOpt P0 ty ∧ (ty.isSome = true ∨ (nm = none ∧ star = false))

/-- the part of `parseExceptHeader` after the optional `*` -/
def exceptTail (f : Nat) (ts1 : List Tok) : PR (Option Expr × Option Ident) :=
  match parseTest f ts1 with
  | some (e, .op .colon :: r) => some ((some e, none), r)
  | some (e, t :: .name n :: .op .colon :: r) => if tk t = .hk .as then some ((some e, some n), r) else none
  | _ => none

theorem parseExceptHeader_nostar (f : Nat) (ts : List Tok) (h : ∀ r, ts ≠ .op .colon :: r) :
    parseExceptHeader (f + 1) false ts = exceptTail f ts := by
  unfold parseExceptHeader
  split
  · omega
  · rename_i heq _; exact absurd rfl (h _)
  · rename_i heq _
    simp only [Nat.succ_eq_add_one, Nat.add_right_cancel_iff] at heq
    subst heq
    rfl

theorem parseExceptHeader_star (f : Nat) (r : List Tok) :
    parseExceptHeader (f + 1) true (.op .star :: r) = exceptTail f r := by
  unfold parseExceptHeader
  split
  · omega
  · rename_i heq _; simp at heq
  · rename_i heq _
    simp only [Nat.succ_eq_add_one, Nat.add_right_cancel_iff] at heq
    subst heq
    rfl

theorem exceptTailRT {e : Expr} (he : GoodP P0 e) (nm : Option Ident) (R : List Tok) :
    EvT (fun f => exceptTail f (rx 1 e ++ (asToks nm ++ .op .colon :: R))) ((some e, nm), R) := by
  cases nm with
  | none =>
    obtain ⟨n, hn⟩ := evT_test he endTok_colon R
    refine ⟨n, fun f hf => ?_⟩
    have h1 := hn f hf
    simp only [] at h1 ⊢
    simp only [asToks, List.nil_append, exceptTail, h1]
  | some n0 =>
    obtain ⟨n, hn⟩ := evT_test he (endTok_hk .as) (.name n0 :: .op .colon :: R)
    refine ⟨n, fun f hf => ?_⟩
    have h1 := hn f hf
    simp only [] at h1 ⊢
    simp only [asToks, List.cons_append, List.nil_append, exceptTail, h1]
    have := tk_tok .as
    simp only [HK.tok] at this ⊢
    simp [this]

/-- `"*"? (Test ("as" NAME)?)? ":"` after `except` -/
theorem exceptHeaderRT {star : Bool} {ty : Option Expr} {nm : Option Ident} (h : handlerOk star ty nm) (R : List Tok) :
    ∃ tl, exceptHead star ty nm = HK.tok .except :: tl ∧ (star = false → ∀ r, tl ++ .op .colon :: R ≠ .op .star :: r) ∧
      (star = true → ∃ r, tl = .op .star :: r) ∧
      EvT (fun f => parseExceptHeader f star (tl ++ .op .colon :: R)) ((ty, nm), R) := by
  cases ty with
  | none =>
    obtain ⟨rfl, rfl⟩ : nm = none ∧ star = false := by simpa using h.2
    refine ⟨[], by simp [exceptHead], fun _ r hh => by simp at hh, fun hh => by simp at hh, 1, fun f hf => ?_⟩
    obtain ⟨f1, rfl⟩ : ∃ f1, f = f1 + 1 := ⟨f - 1, by omega⟩
    simp [parseExceptHeader]
  | some e =>
    have he : GoodP P0 e := h.1
    obtain ⟨t0, tr, ht0, hg⟩ := goodP_head he 1 (Nat.le_refl _)
    have hns : t0 ≠ .op .star := by intro e'; subst e'; simp [goodHead] at hg
    have hnc : t0 ≠ .op .colon := by intro e'; subst e'; simp [goodHead] at hg
    obtain ⟨n, hn⟩ := exceptTailRT he nm R
    cases star with
    | false =>
      refine ⟨rx 1 e ++ asToks nm, by simp [exceptHead], ?_, fun hh => by simp at hh, n + 1, fun f hf => ?_⟩
      · intro _ r hh
        simp only [ht0, List.cons_append, List.cons.injEq] at hh
        exact hns hh.1
      · obtain ⟨f1, rfl⟩ : ∃ f1, f = f1 + 1 := ⟨f - 1, by omega⟩
        have h1 := hn f1 (by omega)
        simp only [List.append_assoc] at h1 ⊢
        rw [parseExceptHeader_nostar, h1]
        intro r hh
        simp only [ht0, List.cons_append, List.cons.injEq] at hh
        exact hnc hh.1
    | true =>
      refine ⟨.op .star :: (rx 1 e ++ asToks nm), by simp [exceptHead], fun hh => by simp at hh, fun _ => ⟨_, rfl⟩,
        n + 1, fun f hf => ?_⟩
      obtain ⟨f1, rfl⟩ : ∃ f1, f = f1 + 1 := ⟨f - 1, by omega⟩
      have h1 := hn f1 (by omega)
      simp only [List.append_assoc, List.cons_append] at h1 ⊢
      rw [parseExceptHeader_star, h1]

/-- every handler of the list: header side conditions, non-empty body whose block round trips -/
def HandlersOk (hs : List ExceptHandler) (star : Bool) : Prop :=
  ∀ ty nm b, ExceptHandler.mk ty nm b ∈ hs → handlerOk star ty nm ∧ b ≠ [] ∧ BlockRT b

theorem renderHandlers_head (h : ExceptHandler) (hs : List ExceptHandler) (star : Bool) (rest : List Tok) :
    ∃ r, renderHandlers (h :: hs) star ++ rest = HK.tok .except :: r := by
  cases h with
  | mk ty nm b => exact ⟨_, by simp only [renderHandlers, exceptHead, List.cons_append]; rfl⟩

theorem handlersRT {star : Bool} : (hs : List ExceptHandler) → hs ≠ [] → HandlersOk hs star → ∀ rest, NotExcept rest →
    EvT (fun f => parseHandlers f star (renderHandlers hs star ++ rest)) (hs, rest)
  | [], h, _, _, _ => absurd rfl h
  | .mk ty nm b :: hs, _, hok, rest, hrest => by
    obtain ⟨hh, hbne, hb⟩ := hok ty nm b (by simp)
    obtain ⟨tl, htl, _, _, n1, hn1⟩ := exceptHeaderRT hh
      (tNewline :: tIndent :: (renderBlock b ++ tDedent :: (renderHandlers hs star ++ rest)))
    obtain ⟨n2, hn2⟩ := suiteRT hb hbne (renderHandlers hs star ++ rest)
    have hform : renderHandlers (.mk ty nm b :: hs) star ++ rest =
        HK.tok .except :: (tl ++ .op .colon :: tNewline :: tIndent ::
          (renderBlock b ++ tDedent :: (renderHandlers hs star ++ rest))) := by
      simp [renderHandlers, htl, suiteToks_append, tColon]
    cases hs with
    | nil =>
      refine ⟨max n1 n2 + 1, fun f hf => ?_⟩
      obtain ⟨f1, rfl⟩ : ∃ f1, f = f1 + 1 := ⟨f - 1, by omega⟩
      have h1 := hn1 f1 (by omega)
      have h2 := hn2 f1 (by omega)
      simp only [renderHandlers, List.nil_append] at h1 h2 hform ⊢
      rw [hform, parseHandlers]
      simp only [tk_tok, if_true, h1, h2]
      cases rest with
      | nil => rfl
      | cons t2 r2 =>
        have : tk t2 ≠ .hk .except := hrest
        simp [this]
    | cons h2 hs' =>
      obtain ⟨n3, hn3⟩ := handlersRT (h2 :: hs') (by simp)
        (fun ty' nm' b' hm => hok ty' nm' b' (List.mem_cons_of_mem _ hm)) rest hrest
      obtain ⟨r', hr'⟩ := renderHandlers_head h2 hs' star rest
      refine ⟨max (max n1 n2) n3 + 1, fun f hf => ?_⟩
      obtain ⟨f1, rfl⟩ : ∃ f1, f = f1 + 1 := ⟨f - 1, by omega⟩
      have h1 := hn1 f1 (by omega)
      have h2 := hn2 f1 (by omega)
      have h3 := hn3 f1 (by omega)
      simp only [] at h1 h2 h3 ⊢
      rw [hform, parseHandlers]
      simp only [tk_tok, if_true, h1, h2]
      rw [hr'] at h3 ⊢
      simp only [tk_tok, if_true, h3]

/-- what follows the handlers -/
theorem notExcept_tail (o f : List Stmt) (ob fb rest : List Tok) (h : ElseFree rest) :
    NotExcept (elseToks o ob ++ (finallyToks f fb ++ rest)) := by
  cases o with
  | cons s ss => simp [elseToks, NotExcept, tk]
  | nil =>
    cases f with
    | cons s ss => simp [elseToks, finallyToks, NotExcept, tk_tok]
    | nil => simpa [elseToks, finallyToks] using h.notExcept

theorem notElse_finally (f : List Stmt) (fb rest : List Tok) (h : ElseFree rest) : NotElse (finallyToks f fb ++ rest) := by
  cases f with
  | cons s ss => intro r hh; simp [finallyToks, HK.tok] at hh
  | nil => simpa [finallyToks] using h.notElse

/-- `try` with handlers (`star`: `try*`) -/
theorem tryRT {star : Bool} {b : List Stmt} {hs : List ExceptHandler} {o fb : List Stmt} (hbne : b ≠ []) (hb : BlockRT b)
    (hne : hs ≠ []) (hok : HandlersOk hs star) (ho : BlockRT o) (hfb : BlockRT fb) (rest : List Tok)
    (hrest : ElseFree rest) :
    EvT (fun f => parseCompound f (HK.tok .try :: (suiteToks (renderBlock b) ++ (renderHandlers hs star ++
        (elseToks o (renderBlock o) ++ finallyToks fb (renderBlock fb)))) ++ rest))
      (if star then .tryStar b hs o fb else .try b hs o fb, rest) := by
  obtain ⟨n1, hn1⟩ := suiteRT hb hbne
    (renderHandlers hs star ++ (elseToks o (renderBlock o) ++ (finallyToks fb (renderBlock fb) ++ rest)))
  obtain ⟨n2, hn2⟩ := handlersRT hs hne hok (elseToks o (renderBlock o) ++ (finallyToks fb (renderBlock fb) ++ rest))
    (notExcept_tail o fb _ _ rest hrest)
  obtain ⟨n3, hn3⟩ := evT_else o ho (finallyToks fb (renderBlock fb) ++ rest) (notElse_finally fb _ rest hrest)
  obtain ⟨n4, hn4⟩ := evT_finally fb hfb rest hrest.notFinally
  cases hs with
  | nil => exact absurd rfl hne
  | cons h0 hs' =>
    cases h0 with
    | mk ty nm hb0 =>
      obtain ⟨hh, _, _⟩ := hok ty nm hb0 (by simp)
      obtain ⟨tl, htl, hns, hst, _⟩ := exceptHeaderRT hh
        (tNewline :: tIndent :: (renderBlock hb0 ++ tDedent :: (renderHandlers hs' star ++
          (elseToks o (renderBlock o) ++ (finallyToks fb (renderBlock fb) ++ rest)))))
      have hform : renderHandlers (.mk ty nm hb0 :: hs') star ++
          (elseToks o (renderBlock o) ++ (finallyToks fb (renderBlock fb) ++ rest)) =
          HK.tok .except :: (tl ++ .op .colon :: tNewline :: tIndent :: (renderBlock hb0 ++ tDedent ::
            (renderHandlers hs' star ++ (elseToks o (renderBlock o) ++ (finallyToks fb (renderBlock fb) ++ rest))))) := by
        simp [renderHandlers, htl, suiteToks_append, tColon]
      refine ⟨max (max n1 n2) (max n3 n4) + 1, fun f hf => ?_⟩
      obtain ⟨f1, rfl⟩ : ∃ f1, f = f1 + 1 := ⟨f - 1, by omega⟩
      have h1 := hn1 f1 (by omega)
      have h2 := hn2 f1 (by omega)
      have h3 := hn3 f1 (by omega)
      have h4 := hn4 f1 (by omega)
      simp only [] at h1 h2 h3 h4 ⊢
      simp only [List.cons_append, List.append_assoc, suiteToks_append, tColon]
      rw [parseCompound_try]
      simp only [h1]
      rw [hform] at h2 ⊢
      simp only [tk_tok]
      have hstar : (match tl ++ .op .colon :: tNewline :: tIndent :: (renderBlock hb0 ++ tDedent ::
            (renderHandlers hs' star ++ (elseToks o (renderBlock o) ++ (finallyToks fb (renderBlock fb) ++ rest)))) with
          | .op .star :: _ => true | _ => false) = star := by
        cases star with
        | true =>
          obtain ⟨r, hr⟩ := hst rfl
          rw [hr]; rfl
        | false =>
          split
          · rename_i heq; exact absurd heq (hns rfl _)
          · rfl
      simp only [hstar, h2, h3, h4, blockOpt_getD]
      cases star <;> rfl

theorem stmtRT_try_handlers {b : List Stmt} {hs : List ExceptHandler} {o fb : List Stmt} (hbne : b ≠ []) (hb : BlockRT b)
    (hne : hs ≠ []) (hok : HandlersOk hs false) (ho : BlockRT o) (hfb : BlockRT fb) : StmtRT (.try b hs o fb) := by
  intro rest hrest
  refine first_of_compound (by simp only [renderStmt, List.cons_append]; exact startsCompound_hk_true (by simp) _) ?_
  simpa [renderStmt] using tryRT (star := false) hbne hb hne hok ho hfb rest hrest

theorem stmtRT_tryStar {b : List Stmt} {hs : List ExceptHandler} {o fb : List Stmt} (hbne : b ≠ []) (hb : BlockRT b)
    (hne : hs ≠ []) (hok : HandlersOk hs true) (ho : BlockRT o) (hfb : BlockRT fb) : StmtRT (.tryStar b hs o fb) := by
  intro rest hrest
  refine first_of_compound (by simp only [renderStmt, List.cons_append]; exact startsCompound_hk_true (by simp) _) ?_
  simpa [renderStmt] using tryRT (star := true) hbne hb hne hok ho hfb rest hrest

/-- `try: … finally: …` -/
theorem stmtRT_try_finally {b fb : List Stmt} (hbne : b ≠ []) (hb : BlockRT b) (hfne : fb ≠ []) (hfb : BlockRT fb) :
    StmtRT (.try b [] [] fb) := by
  intro rest hrest
  refine first_of_compound (by simp only [renderStmt, List.cons_append]; exact startsCompound_hk_true (by simp) _) ?_
  obtain ⟨n1, hn1⟩ := suiteRT hb hbne (finallyToks fb (renderBlock fb) ++ rest)
  obtain ⟨n2, hn2⟩ := suiteRT hfb hfne rest
  cases fb with
  | nil => exact absurd rfl hfne
  | cons s ss =>
    refine ⟨max n1 n2 + 1, fun f hf => ?_⟩
    obtain ⟨f1, rfl⟩ : ∃ f1, f = f1 + 1 := ⟨f - 1, by omega⟩
    have h1 := hn1 f1 (by omega)
    have h2 := hn2 f1 (by omega)
    simp only [] at h1 h2 ⊢
    simp only [renderStmt, renderHandlers, elseToks, List.isEmpty_nil, if_true, List.nil_append, List.cons_append,
      List.append_assoc, suiteToks_append, tColon, finallyToks, List.isEmpty_cons, Bool.false_eq_true, if_false] at h1 ⊢
    rw [parseCompound_try]
    simp only [h1, tk_tok, h2]

/-! ## with -/

/-- the items as the element reader returns them: expression, "is not a `Test`" flag, `as` target -/
def withEls (items : List WithItem) : List WElem := items.map fun it => (it.contextExpr, false, it.optionalVars)

def WithItemsOk (items : List WithItem) : Prop :=
  ∀ it ∈ items, GoodP P0 it.contextExpr ∧ GoodOpt P0 it.optionalVars

theorem bal_kwOther (s : List Nat) : Bal [Tok.kw (.other s)] := by
  intro d hd rest
  simp [afterClose]

theorem withItem_bal (it : WithItem) : Bal (renderWithItem it) := by
  cases it with
  | mk e v =>
    cases v with
    | none => simpa [renderWithItem] using bal_rx 1 e
    | some v =>
      simp only [renderWithItem]
      exact (bal_rx 1 e).append (Bal.append (bal_kwOther _) (bal_rx 6 v))

theorem withItems_bal : (items : List WithItem) → Bal (sepBy tComma (items.map renderWithItem))
  | [] => Bal.nil
  | [it] => by simpa [sepBy] using withItem_bal it
  | it :: it2 :: r => by
    simp only [List.map, sepBy_cons2]
    exact (withItem_bal it).append (Bal.append (Bal.op (o := .comma) rfl) (withItems_bal (it2 :: r)))

theorem startsSpecial_rx {e : Expr} (he : GoodP P0 e) {c : Tok} (hcw : c ≠ .op .walrus) (hca : c ≠ .op .assign)
    (R : List Tok) : startsSpecial (rx 1 e ++ c :: R) = false := by
  obtain ⟨t, tr, ht, hg⟩ := goodP_head he 1 (Nat.le_refl _)
  have hw := ((he.plain.nobind 1 (Nat.le_refl _)).append (he.plain.ne_nil 1 (Nat.le_refl _)) hcw hca R).walrus
  rw [rx_eq] at ht ⊢
  rw [ht] at hw ⊢
  unfold startsSpecial
  split
  · rename_i heq; simp only [List.cons_append, List.cons.injEq] at heq; obtain ⟨rfl, _⟩ := heq; simp [goodHead] at hg
  · rename_i heq; exact absurd heq (hw _ _)
  · rfl

/-- `("as" Expression)?` of an element between the parentheses -/
def asPartOf (f : Nat) (r : List Tok) : Option (Option Expr × List Tok) :=
  match r with
  | t :: r' =>
    if tk t = .hk .as then
      (match parseBin 0 f r' with
       | some (v, r2) => some (some v, r2)
       | none => none)
    else some (none, t :: r')
  | [] => some (none, [])

/-- after one element: `,` `)` / `,` more / `)` -/
def elemsCont (f : Nat) (el : WElem) (r1 : List Tok) : PR (List WElem × Bool) :=
  match r1 with
  | .op .comma :: .op .rpar :: r2 => some (([el], true), r2)
  | .op .comma :: r2 =>
    (match parseWithParenElems f r2 with
     | some ((els, tc), r3) => some ((el :: els, tc), r3)
     | none => none)
  | .op .rpar :: r2 => some (([el], false), r2)
  | _ => none

theorem parseWithParenElems_succ (f : Nat) (ts : List Tok) :
    parseWithParenElems (f + 1) ts =
      (match parseStarOrNamed f ts with
       | none => none
       | some (e, r) =>
         match asPartOf f r with
         | none => none
         | some (v, r1) => elemsCont f (e, startsSpecial ts, v) r1) := by
  rw [parseWithParenElems]
  rfl

/-- what may follow an element between the parentheses -/
def elemNext (c : Tok) : Prop := c = .op .comma ∨ c = .op .rpar

theorem elemNext.end {c : Tok} (h : elemNext c) : EndTok c := by
  rcases h with rfl | rfl
  · exact endTok_comma
  · exact endTok_rpar

/-- one element `Test ("as" Expression)?` and the token after it -/
theorem withElemRT {it : WithItem} (hc : GoodP P0 it.contextExpr) (hv : GoodOpt P0 it.optionalVars) {c : Tok}
    (hcn : elemNext c) (R : List Tok) :
    ∃ n, ∀ f, n ≤ f → ∃ r, parseStarOrNamed f (renderWithItem it ++ c :: R) = some (it.contextExpr, r) ∧
      atCompFor r = false ∧ startsSpecial (renderWithItem it ++ c :: R) = false ∧
      asPartOf f r = some (it.optionalVars, c :: R) := by
  have hcw : c ≠ .op .walrus := by rcases hcn with rfl | rfl <;> decide
  have hca : c ≠ .op .assign := by rcases hcn with rfl | rfl <;> decide
  have htk : tk c ≠ .hk .as := by rcases hcn with rfl | rfl <;> decide
  have hcf : ∀ X, atCompFor (c :: X) = false := by rcases hcn with rfl | rfl <;> intro X <;> rfl
  cases it with
  | mk e v =>
    cases v with
    | none =>
      obtain ⟨n, hn⟩ := evT_starOrNamed (.plain hc) hcn.end hcw hca R
      refine ⟨n, fun f hf => ⟨c :: R, ?_, hcf _, ?_, ?_⟩⟩
      · simpa [renderWithItem] using hn f hf
      · simpa [renderWithItem] using startsSpecial_rx hc hcw hca R
      · simp [asPartOf, htk]
    | some v =>
      have hv' : GoodP P0 v := hv
      obtain ⟨n, hn⟩ := evT_starOrNamed (.plain hc) (endTok_hk .as) (by simp [HK.tok]) (by simp [HK.tok])
        (rx 6 v ++ c :: R)
      obtain ⟨m, hm⟩ := evT_bin0 hv' (hcn.end 6) R
      refine ⟨max n m, fun f hf => ⟨HK.tok .as :: (rx 6 v ++ c :: R), ?_, rfl, ?_, ?_⟩⟩
      · simpa [renderWithItem] using hn f (by omega)
      · simpa [renderWithItem] using startsSpecial_rx hc (c := HK.tok .as) (by simp [HK.tok]) (by simp [HK.tok]) (rx 6 v ++ c :: R)
      · have := hm f (by omega)
        simp only [] at this
        simp [asPartOf, tk_tok, this]

theorem renderWithItem_head (it : WithItem) (hc : GoodP P0 it.contextExpr) (X : List Tok) :
    ∃ t r, renderWithItem it ++ X = t :: r ∧ t ≠ .op .rpar ∧ t ≠ .kw .yield := by
  obtain ⟨t, tr, ht, hg⟩ := goodP_head hc 1 (Nat.le_refl _)
  refine ⟨t, _, by simp only [renderWithItem, ht, List.cons_append, List.append_assoc]; rfl, ?_, ?_⟩ <;>
    (intro e; subst e; simp [goodHead] at hg)

theorem withElemsRT : (items : List WithItem) → items ≠ [] → WithItemsOk items → ∀ rest,
    EvT (fun f => parseWithParenElems f (sepBy tComma (items.map renderWithItem) ++ .op .rpar :: rest))
      ((withEls items, false), rest)
  | [], h, _, _ => absurd rfl h
  | [it], _, hok, rest => by
    obtain ⟨hc, hv⟩ := hok it (by simp)
    obtain ⟨n, hn⟩ := withElemRT hc hv (c := .op .rpar) (Or.inr rfl) rest
    refine ⟨n + 1, fun f hf => ?_⟩
    obtain ⟨f1, rfl⟩ : ∃ f1, f = f1 + 1 := ⟨f - 1, by omega⟩
    obtain ⟨r, h1, _, h3, h4⟩ := hn f1 (by omega)
    simp only [List.map, sepBy_one]
    rw [parseWithParenElems_succ, h1]
    simp only [h4, h3, withEls, List.map, elemsCont]
  | it :: it2 :: r, _, hok, rest => by
    obtain ⟨hc, hv⟩ := hok it (by simp)
    obtain ⟨n, hn⟩ := withElemRT hc hv (c := .op .comma) (Or.inl rfl)
      (sepBy tComma ((it2 :: r).map renderWithItem) ++ .op .rpar :: rest)
    obtain ⟨m, hm⟩ := withElemsRT (it2 :: r) (by simp) (fun x hx => hok x (List.mem_cons_of_mem _ hx)) rest
    have hhead : ∃ t tr, sepBy tComma ((it2 :: r).map renderWithItem) ++ .op .rpar :: rest = t :: tr ∧ t ≠ .op .rpar := by
      obtain ⟨hc2, _⟩ := hok it2 (by simp)
      cases r with
      | nil =>
        obtain ⟨t, tr, h, h1, _⟩ := renderWithItem_head it2 hc2 (.op .rpar :: rest)
        exact ⟨t, tr, by simpa [sepBy] using h, h1⟩
      | cons it3 r' =>
        obtain ⟨t, tr, h, h1, _⟩ := renderWithItem_head it2 hc2
          (tComma :: (sepBy tComma ((it3 :: r').map renderWithItem) ++ .op .rpar :: rest))
        exact ⟨t, tr, by simpa [sepBy_cons2] using h, h1⟩
    obtain ⟨t, tr, htr, hne⟩ := hhead
    refine ⟨max n m + 1, fun f hf => ?_⟩
    obtain ⟨f1, rfl⟩ : ∃ f1, f = f1 + 1 := ⟨f - 1, by omega⟩
    obtain ⟨r0, h1, _, h3, h4⟩ := hn f1 (by omega)
    have h5 := hm f1 (by omega)
    simp only [] at h5 ⊢
    simp only [List.map, sepBy_cons2, List.append_assoc, List.cons_append, tComma] at h1 h3 h4 h5 htr ⊢
    rw [parseWithParenElems_succ, h1]
    simp only [h4, h3]
    rw [htr] at h5 ⊢
    rw [elemsCont.eq_2]
    · simp only [h5, withEls, List.map]
    · intro r2 hh; simp only [List.cons.injEq, true_and] at hh; exact hne hh.1

theorem withEls_any_special (items : List WithItem) : (withEls items).any (fun el => el.2.1) = false := by
  induction items with
  | nil => rfl
  | cons it r ih => simpa [withEls] using ih

theorem withEls_all_plain (items : List WithItem) : (withEls items).all (fun el => !el.2.1) = true := by
  induction items with
  | nil => rfl
  | cons it r ih => simpa [withEls] using ih

theorem withEls_map_as (items : List WithItem) :
    (withEls items).map (fun el => (⟨el.1, el.2.2⟩ : WithItem)) = items := by
  induction items with
  | nil => rfl
  | cons it r ih => cases it; simpa [withEls] using ih

theorem withEls_map_none (items : List WithItem) (h : (withEls items).any (fun el => el.2.2.isSome) = false) :
    (withEls items).map (fun el => (⟨el.1, none⟩ : WithItem)) = items := by
  induction items with
  | nil => rfl
  | cons it r ih =>
    cases it with
    | mk e v =>
      simp only [withEls, List.map, List.any_cons, Bool.or_eq_false_iff] at h ⊢
      cases v with
      | some x => simp at h
      | none =>
        have := ih (by simpa [withEls] using h.2)
        simp only [withEls] at this
        rw [this]

/-- the alternative of `WithItems` the printed form belongs to gives the items back -/
theorem withParenItems_els (items : List WithItem) : withParenItems (withEls items) false = some items := by
  unfold withParenItems
  by_cases h : (withEls items).any (fun el => el.2.2.isSome) = true
  · simp only [h, if_true, withEls_any_special, Bool.false_eq_true, if_false, withEls_map_as]
  · simp only [Bool.not_eq_true] at h
    simp only [h, Bool.false_eq_true, if_false, withEls_all_plain, if_true, withEls_map_none items h]

/-- `with ( items ) :` — the header -/
theorem withItemsRT {items : List WithItem} (hne : items ≠ []) (hok : WithItemsOk items) (rest : List Tok) :
    EvT (fun f => parseWithItems f (renderWithItems items ++ .op .colon :: rest)) (items, .op .colon :: rest) := by
  obtain ⟨n, hn⟩ := withElemsRT items hne hok (.op .colon :: rest)
  cases items with
  | nil => exact absurd rfl hne
  | cons it r =>
    obtain ⟨hc, hv⟩ := hok it (by simp)
    have hhead : ∃ t tr c R, sepBy tComma ((it :: r).map renderWithItem) ++ .op .rpar :: .op .colon :: rest = t :: tr ∧
        t ≠ .op .rpar ∧ t ≠ .kw .yield ∧
        sepBy tComma ((it :: r).map renderWithItem) ++ .op .rpar :: .op .colon :: rest = renderWithItem it ++ c :: R ∧
        elemNext c := by
      cases r with
      | nil =>
        obtain ⟨t, tr, h, h1, h2⟩ := renderWithItem_head it hc (.op .rpar :: .op .colon :: rest)
        exact ⟨t, tr, .op .rpar, .op .colon :: rest, by simpa [sepBy] using h, h1, h2, by simp [sepBy], Or.inr rfl⟩
      | cons it2 r' =>
        obtain ⟨t, tr, h, h1, h2⟩ := renderWithItem_head it hc
          (tComma :: (sepBy tComma ((it2 :: r').map renderWithItem) ++ .op .rpar :: .op .colon :: rest))
        exact ⟨t, tr, .op .comma, sepBy tComma ((it2 :: r').map renderWithItem) ++ .op .rpar :: .op .colon :: rest,
          by simpa [sepBy_cons2] using h, h1, h2, by simp [sepBy_cons2, tComma], Or.inl rfl⟩
    obtain ⟨t, tr, c, R, htr, hnr, hny, hform, hcn⟩ := hhead
    obtain ⟨m, hm⟩ := withElemRT hc hv hcn R
    refine ⟨max n m + 2, fun f hf => ?_⟩
    obtain ⟨f1, rfl⟩ : ∃ f1, f = f1 + 2 := ⟨f - 2, by omega⟩
    have h1 := hn f1 (by omega)
    obtain ⟨r0, h2, h3, _, _⟩ := hm f1 (by omega)
    simp only [] at h1 ⊢
    simp only [renderWithItems, List.cons_append, List.append_assoc, List.nil_append]
    rw [parseWithItems]
    have hac : afterClose 1 (sepBy tComma ((it :: r).map renderWithItem) ++ .op .rpar :: .op .colon :: rest) =
        some (.op .colon :: rest) := by
      rw [withItems_bal (it :: r) 1 (Nat.le_refl _)]
      simp [afterClose]
    rw [hac]
    simp only []
    rw [← hform] at h2
    rw [htr] at h1 h2 ⊢
    rw [parseWithParen.eq_4]
    · simp only [h2, h3, Bool.false_eq_true, if_false, h1, withParenItems_els]
    · intro r' hh; simp only [List.cons.injEq] at hh; exact hnr hh.1
    · intro r' hh; simp only [List.cons.injEq] at hh; exact hny hh.1

theorem parseWith_rt {a : Bool} {items : List WithItem} {b : List Stmt} (hne : items ≠ []) (hok : WithItemsOk items)
    (hbne : b ≠ []) (hb : BlockRT b) (rest : List Tok) :
    EvT (fun f => parseWith f a (renderWithItems items ++ suiteToks (renderBlock b) ++ rest))
      (if a then .asyncWith items b else .with items b, rest) := by
  obtain ⟨n1, hn1⟩ := withItemsRT hne hok (tNewline :: tIndent :: (renderBlock b ++ tDedent :: rest))
  obtain ⟨n2, hn2⟩ := suiteRT hb hbne rest
  refine ⟨max n1 n2 + 1, fun f hf => ?_⟩
  obtain ⟨f1, rfl⟩ : ∃ f1, f = f1 + 1 := ⟨f - 1, by omega⟩
  have h1 := hn1 f1 (by omega)
  have h2 := hn2 f1 (by omega)
  simp only [] at h1 h2 ⊢
  simp only [List.append_assoc, suiteToks_append, tColon]
  rw [parseWith, h1]
  simp only [h2]
  cases a <;> rfl

theorem stmtRT_with {items : List WithItem} {b : List Stmt} (hne : items ≠ []) (hok : WithItemsOk items)
    (hbne : b ≠ []) (hb : BlockRT b) : StmtRT (.with items b) := by
  intro rest _
  refine first_of_compound (by simp only [renderStmt, withToks, asyncToks, Bool.false_eq_true, if_false,
    List.nil_append, List.cons_append]; exact startsCompound_hk_true (by simp) _) ?_
  obtain ⟨n, hn⟩ := parseWith_rt (a := false) hne hok hbne hb rest
  refine ⟨n + 1, fun f hf => ?_⟩
  obtain ⟨f1, rfl⟩ : ∃ f1, f = f1 + 1 := ⟨f - 1, by omega⟩
  have h1 := hn f1 (by omega)
  simp only [] at h1 ⊢
  simp only [renderStmt, withToks, asyncToks, Bool.false_eq_true, if_false, List.nil_append, List.cons_append,
    List.append_assoc] at h1 ⊢
  rw [parseCompound_with]
  simpa using h1

theorem stmtRT_asyncWith {items : List WithItem} {b : List Stmt} (hne : items ≠ []) (hok : WithItemsOk items)
    (hbne : b ≠ []) (hb : BlockRT b) : StmtRT (.asyncWith items b) := by
  intro rest _
  refine first_of_compound (by simp [renderStmt, withToks, asyncToks, startsCompound]) ?_
  obtain ⟨n, hn⟩ := parseWith_rt (a := true) hne hok hbne hb rest
  refine ⟨n + 1, fun f hf => ?_⟩
  obtain ⟨f1, rfl⟩ : ∃ f1, f = f1 + 1 := ⟨f - 1, by omega⟩
  have h1 := hn f1 (by omega)
  simp only [] at h1 ⊢
  simp only [renderStmt, withToks, asyncToks, if_true, List.cons_append, List.nil_append, List.append_assoc] at h1 ⊢
  rw [parseCompound.eq_6]
  · simp only [tk_tok]
    simpa using h1
  · intro hh; simp [HK.tok] at hh

/-! ## decorators, def, class -/

theorem decoratorsRT : (ds : List Expr) → (∀ d ∈ ds, GoodP P0 d) → ∀ X, (∀ r, X ≠ .op .at :: r) →
    EvT (fun f => parseDecorators f (renderDecorators ds ++ X)) (ds, X)
  | [], _, X, hX => ⟨1, fun f hf => by
      obtain ⟨f1, rfl⟩ : ∃ f1, f = f1 + 1 := ⟨f - 1, by omega⟩
      simp only [renderDecorators, List.nil_append]
      rw [parseDecorators.eq_3]
      intro r hh; exact hX r hh⟩
  | d :: ds, hd, X, hX => by
    obtain ⟨n, hn⟩ := evT_namedTest (hd d (by simp)) endTok_newline (by decide) (by decide) (renderDecorators ds ++ X)
    obtain ⟨m, hm⟩ := decoratorsRT ds (fun x hx => hd x (List.mem_cons_of_mem _ hx)) X hX
    refine ⟨max n m + 1, fun f hf => ?_⟩
    obtain ⟨f1, rfl⟩ : ∃ f1, f = f1 + 1 := ⟨f - 1, by omega⟩
    have h1 := hn f1 (by omega)
    have h2 := hm f1 (by omega)
    simp only [] at h1 h2 ⊢
    simp only [renderDecorators, List.cons_append, List.append_assoc]
    rw [parseDecorators, h1]
    simp only [tk_tNewline, if_true, h2]

theorem tk_tArrow : tk tArrow = .arrow := by decide

/-- `("->" Test)?` in front of the `:` -/
def retOf (f : Nat) (r2 : List Tok) : PR (Option Expr) :=
  match r2 with
  | t :: r3 =>
    if tk t = .arrow then
      (match parseTest f r3 with
       | some (e, r4) => some (some e, r4)
       | none => none)
    else some (none, t :: r3)
  | [] => some (none, [])

theorem parseDef_succ (f : Nat) (a : Bool) (decos : List Expr) (n : Ident) (r : List Tok) :
    parseDef (f + 1) a decos (.name n :: r) =
      (match parseTypeParamsOpt f r with
       | some (tps, .op .lpar :: r1) =>
         (match parseParameters f r1 with
          | some (args, r2) =>
            (match retOf f r2 with
             | some (returns, .op .colon :: r5) =>
               (match parseSuite f r5 with
                | some (body, r6) =>
                  if a then some (.asyncFunctionDef n args body decos returns tps, r6)
                  else some (.functionDef n args body decos returns tps, r6)
                | none => none)
             | _ => none)
          | none => none)
       | _ => none) := by
  rw [parseDef]
  rfl

def retToks : Option Expr → List Tok
  | some r => tArrow :: rx 1 r
  | none => []

theorem retRT (returns : Option Expr) (h : GoodOpt P0 returns) (R : List Tok) :
    EvT (fun f => retOf f (retToks returns ++ .op .colon :: R)) (returns, .op .colon :: R) := by
  cases returns with
  | none => exact ⟨0, fun f _ => by simp [retToks, retOf, tk]⟩
  | some e =>
    have he : GoodP P0 e := h
    obtain ⟨n, hn⟩ := evT_test he endTok_colon R
    refine ⟨n, fun f hf => ?_⟩
    have h1 := hn f hf
    simp only [] at h1 ⊢
    simp only [retToks, List.cons_append, retOf, tk_tArrow, if_true, h1]

theorem defToks_eq (a : Bool) (n : Ident) (args : Arguments) (body : List Tok) (decos : List Expr)
    (returns : Option Expr) (tps : List TypeParam) (rest : List Tok) :
    defToks a n args body decos returns tps ++ rest =
      renderDecorators decos ++ (asyncToks a ++ HK.tok .def :: .name n :: (renderTypeParams tps ++ .op .lpar ::
        (sepBy tComma (paramItems args) ++ .op .rpar :: (retToks returns ++ .op .colon :: tNewline :: tIndent ::
          (body ++ tDedent :: rest))))) := by
  cases returns <;>
    simp [defToks, renderParameters, retToks, suiteToks_append, tColon, List.append_assoc]

theorem parseDef_rt {a : Bool} {n : Ident} {args : Arguments} {b : List Stmt} {returns : Option Expr}
    {tps : List TypeParam} (decos : List Expr) (hargs : fxArguments args = true) (hret : GoodOpt P0 returns)
    (htps : fxTParams tps = true) (hbne : b ≠ []) (hb : BlockRT b) (rest : List Tok) :
    EvT (fun f => parseDef f a decos (.name n :: (renderTypeParams tps ++ .op .lpar ::
        (sepBy tComma (paramItems args) ++ .op .rpar :: (retToks returns ++ .op .colon :: tNewline :: tIndent ::
          (renderBlock b ++ tDedent :: rest))))))
      (if a then .asyncFunctionDef n args b decos returns tps else .functionDef n args b decos returns tps, rest) := by
  obtain ⟨n1, hn1⟩ := typeParamsOptRT tps htps (c := .op .lpar) (by decide)
    (sepBy tComma (paramItems args) ++ .op .rpar :: (retToks returns ++ .op .colon :: tNewline :: tIndent ::
      (renderBlock b ++ tDedent :: rest)))
  obtain ⟨n2, hn2⟩ := rt_parameters args hargs
    (retToks returns ++ .op .colon :: tNewline :: tIndent :: (renderBlock b ++ tDedent :: rest))
  obtain ⟨n3, hn3⟩ := retRT returns hret (tNewline :: tIndent :: (renderBlock b ++ tDedent :: rest))
  obtain ⟨n4, hn4⟩ := suiteRT hb hbne rest
  refine ⟨max (max n1 n2) (max n3 n4) + 1, fun f hf => ?_⟩
  obtain ⟨f1, rfl⟩ : ∃ f1, f = f1 + 1 := ⟨f - 1, by omega⟩
  have h1 := hn1 f1 (by omega)
  have h2 := hn2 f1 (by omega)
  have h3 := hn3 f1 (by omega)
  have h4 := hn4 f1 (by omega)
  simp only [] at h1 h2 h3 h4 ⊢
  rw [parseDef_succ]
  simp only [h1, h2, h3, h4]
  cases a <;> rfl

theorem stmtRT_def (a : Bool) {n : Ident} {args : Arguments} {b : List Stmt} {decos : List Expr} {returns : Option Expr}
    {tps : List TypeParam} (hargs : fxArguments args = true) (hdec : ∀ d ∈ decos, GoodP P0 d)
    (hret : GoodOpt P0 returns) (htps : fxTParams tps = true) (hbne : b ≠ []) (hb : BlockRT b) (s : Stmt)
    (hs : s = if a then .asyncFunctionDef n args b decos returns tps else .functionDef n args b decos returns tps)
    (hr : renderStmt s = defToks a n args (renderBlock b) decos returns tps) : StmtRT s := by
  intro rest _
  rw [hr, defToks_eq]
  obtain ⟨n1, hn1⟩ := parseDef_rt (a := a) (n := n) decos hargs hret htps hbne hb rest
  cases decos with
  | nil =>
    simp only [renderDecorators, List.nil_append]
    cases a with
    | false =>
      refine first_of_compound (by simp only [asyncToks, Bool.false_eq_true, if_false, List.nil_append];
                                   exact startsCompound_hk_true (by simp) _) ?_
      refine ⟨n1 + 1, fun f hf => ?_⟩
      obtain ⟨f1, rfl⟩ : ∃ f1, f = f1 + 1 := ⟨f - 1, by omega⟩
      have h1 := hn1 f1 (by omega)
      simp only [] at h1 ⊢
      simp only [asyncToks, Bool.false_eq_true, if_false, List.nil_append]
      rw [parseCompound_def, h1, hs]
    | true =>
      refine first_of_compound (by simp [asyncToks, startsCompound]) ?_
      refine ⟨n1 + 1, fun f hf => ?_⟩
      obtain ⟨f1, rfl⟩ : ∃ f1, f = f1 + 1 := ⟨f - 1, by omega⟩
      have h1 := hn1 f1 (by omega)
      simp only [] at h1 ⊢
      simp only [asyncToks, if_true, List.cons_append, List.nil_append]
      rw [parseCompound.eq_6]
      · simp only [tk_tok, h1, hs]
      · intro hh; simp [HK.tok] at hh
  | cons d ds =>
    obtain ⟨n2, hn2⟩ := decoratorsRT (d :: ds) hdec
      (asyncToks a ++ HK.tok .def :: .name n :: (renderTypeParams tps ++ .op .lpar ::
        (sepBy tComma (paramItems args) ++ .op .rpar :: (retToks returns ++ .op .colon :: tNewline :: tIndent ::
          (renderBlock b ++ tDedent :: rest)))))
      (by intro r hh; cases a <;> simp [asyncToks, HK.tok] at hh)
    refine first_of_compound (by simp [renderDecorators, startsCompound]) ?_
    refine ⟨max n1 n2 + 1, fun f hf => ?_⟩
    obtain ⟨f1, rfl⟩ : ∃ f1, f = f1 + 1 := ⟨f - 1, by omega⟩
    have h1 := hn1 f1 (by omega)
    have h2 := hn2 f1 (by omega)
    simp only [] at h1 h2 ⊢
    simp only [renderDecorators, List.cons_append, List.append_assoc] at h2 ⊢
    rw [parseCompound, h2]
    cases a with
    | false =>
      simp only [asyncToks, Bool.false_eq_true, if_false, List.nil_append] at h1 ⊢
      simp only [HK.tok] at h1 ⊢
      have := tk_tok .def
      simp only [HK.tok] at this
      simp only [this, h1, hs]
      rfl
    | true =>
      simp only [asyncToks, if_true, List.cons_append, List.nil_append] at h1 ⊢
      simp only [tk_tok, if_true, h1, hs]

/-- `("(" ArgumentList ")")?` of a class definition -/
def classArgsOf (f : Nat) (r1 : List Tok) : PR (List Expr × List Keyword) :=
  match r1 with
  | .op .lpar :: r2 => parseArgs f r2 [] [] false
  | _ => some (([], []), r1)

theorem parseClass_succ (f : Nat) (decos : List Expr) (n : Ident) (r : List Tok) :
    parseClass (f + 1) decos (.name n :: r) =
      (match parseTypeParamsOpt f r with
       | some (tps, r1) =>
         (match classArgsOf f r1 with
          | some ((bases, kws), .op .colon :: r3) =>
            (match parseSuite f r3 with
             | some (body, r4) => some (.classDef n bases kws body decos tps, r4)
             | none => none)
          | _ => none)
       | none => none) := by
  rw [parseClass]
  rfl

theorem classArgsRT {bases : List Expr} {kws : List Keyword} (hb : ∀ x ∈ bases, ElemOK P0 x) (hk : GoodKws P0 kws)
    (hfr : kwFresh [] kws = true) (R : List Tok) :
    EvT (fun f => classArgsOf f (renderClassArgs bases kws ++ .op .colon :: R)) ((bases, kws), .op .colon :: R) := by
  by_cases he : (bases.isEmpty && kws.isEmpty) = true
  · simp only [Bool.and_eq_true, List.isEmpty_iff] at he
    obtain ⟨rfl, rfl⟩ := he
    exact ⟨0, fun f _ => by simp [renderClassArgs, classArgsOf]⟩
  · obtain ⟨n, hn⟩ := callArgsRT P0 bases kws hb hk hfr (.op .colon :: R)
    refine ⟨n, fun f hf => ?_⟩
    have h1 := hn f hf
    simp only [renderClassArgs, he, Bool.false_eq_true, if_false, List.cons_append, List.append_assoc, renderCallArgs,
      classArgsOf, List.nil_append]
    exact h1

theorem parseClass_rt {n : Ident} {bases : List Expr} {kws : List Keyword} {b : List Stmt} {tps : List TypeParam}
    (decos : List Expr) (hbs : ∀ x ∈ bases, ElemOK P0 x) (hk : GoodKws P0 kws) (hfr : kwFresh [] kws = true)
    (htps : fxTParams tps = true) (hbne : b ≠ []) (hb : BlockRT b) (rest : List Tok) :
    EvT (fun f => parseClass f decos (.name n :: (renderTypeParams tps ++ (renderClassArgs bases kws ++
        suiteToks (renderBlock b))) ++ rest)) (.classDef n bases kws b decos tps, rest) := by
  have hc : ∃ c X, renderClassArgs bases kws ++ .op .colon :: tNewline :: tIndent :: (renderBlock b ++ tDedent :: rest) = c :: X ∧
      c ≠ .op .lsqb := by
    by_cases he : (bases.isEmpty && kws.isEmpty) = true
    · exact ⟨.op .colon, tNewline :: tIndent :: (renderBlock b ++ tDedent :: rest), by simp [renderClassArgs, he], by decide⟩
    · exact ⟨.op .lpar, renderCallArgs bases kws ++ .op .rpar :: .op .colon :: tNewline :: tIndent ::
        (renderBlock b ++ tDedent :: rest), by simp [renderClassArgs, he], by decide⟩
  obtain ⟨c, X, hcX, hcl⟩ := hc
  obtain ⟨n1, hn1⟩ := typeParamsOptRT tps htps hcl X
  obtain ⟨n2, hn2⟩ := classArgsRT hbs hk hfr (tNewline :: tIndent :: (renderBlock b ++ tDedent :: rest))
  obtain ⟨n3, hn3⟩ := suiteRT hb hbne rest
  refine ⟨max n1 (max n2 n3) + 1, fun f hf => ?_⟩
  obtain ⟨f1, rfl⟩ : ∃ f1, f = f1 + 1 := ⟨f - 1, by omega⟩
  have h1 := hn1 f1 (by omega)
  have h2 := hn2 f1 (by omega)
  have h3 := hn3 f1 (by omega)
  simp only [] at h1 h2 h3 ⊢
  simp only [List.cons_append, List.append_assoc, suiteToks_append, tColon]
  rw [parseClass_succ, hcX, h1, ← hcX]
  simp only [h2, h3]

theorem stmtRT_class {n : Ident} {bases : List Expr} {kws : List Keyword} {b : List Stmt} {decos : List Expr}
    {tps : List TypeParam} (hbs : ∀ x ∈ bases, ElemOK P0 x) (hk : GoodKws P0 kws) (hfr : kwFresh [] kws = true)
    (hdec : ∀ d ∈ decos, GoodP P0 d) (htps : fxTParams tps = true) (hbne : b ≠ []) (hb : BlockRT b) :
    StmtRT (.classDef n bases kws b decos tps) := by
  intro rest _
  obtain ⟨n1, hn1⟩ := parseClass_rt (n := n) decos hbs hk hfr htps hbne hb rest
  simp only [renderStmt, List.append_assoc, List.cons_append]
  cases decos with
  | nil =>
    simp only [renderDecorators, List.nil_append]
    refine first_of_compound (startsCompound_hk_true (by simp) _) ?_
    refine ⟨n1 + 1, fun f hf => ?_⟩
    obtain ⟨f1, rfl⟩ : ∃ f1, f = f1 + 1 := ⟨f - 1, by omega⟩
    have h1 := hn1 f1 (by omega)
    simp only [List.cons_append, List.append_assoc] at h1 ⊢
    rw [parseCompound_class, h1]
  | cons d ds =>
    obtain ⟨n2, hn2⟩ := decoratorsRT (d :: ds) hdec
      (HK.tok .class :: .name n :: (renderTypeParams tps ++ (renderClassArgs bases kws ++
        (suiteToks (renderBlock b) ++ rest))))
      (by intro r hh; simp [HK.tok] at hh)
    refine first_of_compound (by simp [renderDecorators, startsCompound]) ?_
    refine ⟨max n1 n2 + 1, fun f hf => ?_⟩
    obtain ⟨f1, rfl⟩ : ∃ f1, f = f1 + 1 := ⟨f - 1, by omega⟩
    have h1 := hn1 f1 (by omega)
    have h2 := hn2 f1 (by omega)
    simp only [] at h1 h2 ⊢
    simp only [renderDecorators, List.cons_append, List.append_assoc] at h1 h2 ⊢
    rw [parseCompound, h2]
    simp only [HK.tok] at h1 ⊢
    have := tk_tok .class
    simp only [HK.tok] at this
    simp only [this, h1]

/-! ## match -/

/-- every case: pattern of the fragment, guard, non-empty body whose block round trips -/
def CasesOk (cs : List MatchCase) : Prop :=
  ∀ p g b, MatchCase.mk p g b ∈ cs → inFragPat p = true ∧ GoodOpt P0 g ∧ b ≠ [] ∧ BlockRT b

/-- `("if" NamedExpressionTest)?` in front of the `:` -/
def guardOf (f : Nat) (r1 : List Tok) : PR (Option Expr) :=
  match r1 with
  | .kw .if :: r2 =>
    (match parseNamedTest f r2 with
     | some (g, r3) => some (some g, r3)
     | none => none)
  | _ => some (none, r1)

theorem parseCases_succ (f : Nat) (t : Tok) (r : List Tok) (ht : tk t = .hk .case) :
    parseCases (f + 1) (t :: r) =
      (match parsePatterns f r with
       | some (p, r1) =>
         (match guardOf f r1 with
          | some (g, .op .colon :: r4) =>
            (match parseSuite f r4 with
             | some (body, t5 :: r5) =>
               if tk t5 = .dedent then some ([.mk p g body], r5)
               else
                 (match parseCases f (t5 :: r5) with
                  | some (cs, r6) => some (.mk p g body :: cs, r6)
                  | none => none)
             | _ => none)
          | _ => none)
       | none => none) := by
  rw [parseCases]
  simp only [ht, if_true]
  rfl

theorem guardRT (g : Option Expr) (hg : GoodOpt P0 g) (R : List Tok) :
    EvT (fun f => guardOf f (guardToks g ++ .op .colon :: R)) (g, .op .colon :: R) := by
  cases g with
  | none => exact ⟨0, fun f _ => by simp [guardToks, guardOf]⟩
  | some e =>
    have he : GoodP P0 e := hg
    obtain ⟨n, hn⟩ := evT_namedTest he endTok_colon (by decide) (by decide) R
    refine ⟨n, fun f hf => ?_⟩
    have h1 := hn f hf
    simp only [] at h1 ⊢
    simp only [guardToks, List.cons_append, guardOf, h1]

theorem casesRT : (cs : List MatchCase) → cs ≠ [] → CasesOk cs → ∀ rest,
    EvT (fun f => parseCases f (renderCases cs ++ tDedent :: rest)) (cs, rest)
  | [], h, _, _ => absurd rfl h
  | .mk p g b :: cs, _, hok, rest => by
    obtain ⟨hp, hg, hbne, hb⟩ := hok p g b (by simp)
    have hc : ∃ c X, guardToks g ++ .op .colon :: tNewline :: tIndent ::
        (renderBlock b ++ tDedent :: (renderCases cs ++ tDedent :: rest)) = c :: X ∧ (c = .op .colon ∨ c = .kw .if) := by
      cases g with
      | none => exact ⟨_, _, rfl, Or.inl rfl⟩
      | some e => exact ⟨_, _, rfl, Or.inr rfl⟩
    obtain ⟨c, X, hcX, hcc⟩ := hc
    obtain ⟨n1, hn1⟩ := rt_patterns p hp c hcc X
    obtain ⟨n2, hn2⟩ := guardRT g hg (tNewline :: tIndent :: (renderBlock b ++ tDedent :: (renderCases cs ++ tDedent :: rest)))
    obtain ⟨n3, hn3⟩ := suiteRT hb hbne (renderCases cs ++ tDedent :: rest)
    cases cs with
    | nil =>
      refine ⟨max n1 (max n2 n3) + 1, fun f hf => ?_⟩
      obtain ⟨f1, rfl⟩ : ∃ f1, f = f1 + 1 := ⟨f - 1, by omega⟩
      have h1 := hn1 f1 (by omega)
      have h2 := hn2 f1 (by omega)
      have h3 := hn3 f1 (by omega)
      simp only [] at h1 h2 h3 ⊢
      simp only [renderCases, List.cons_append, List.append_assoc, suiteToks_append, tColon, List.nil_append] at h2 h3 hcX ⊢
      rw [parseCases_succ _ _ _ (tk_tok .case), hcX, h1, ← hcX]
      simp only [h2, h3, tk_tDedent, if_true]
    | cons c2 cs' =>
      obtain ⟨n4, hn4⟩ := casesRT (c2 :: cs') (by simp) (fun p' g' b' hm => hok p' g' b' (List.mem_cons_of_mem _ hm)) rest
      have hhead : ∃ Y, renderCases (c2 :: cs') ++ tDedent :: rest = HK.tok .case :: Y := by
        cases c2; exact ⟨_, by simp only [renderCases, List.cons_append]; rfl⟩
      obtain ⟨Y, hY⟩ := hhead
      refine ⟨max (max n1 n2) (max n3 n4) + 1, fun f hf => ?_⟩
      obtain ⟨f1, rfl⟩ : ∃ f1, f = f1 + 1 := ⟨f - 1, by omega⟩
      have h1 := hn1 f1 (by omega)
      have h2 := hn2 f1 (by omega)
      have h3 := hn3 f1 (by omega)
      have h4 := hn4 f1 (by omega)
      simp only [] at h1 h2 h3 h4 ⊢
      have hform : renderCases (.mk p g b :: c2 :: cs') ++ tDedent :: rest =
          HK.tok .case :: (renderPat p 0 ++ (guardToks g ++ .op .colon :: tNewline :: tIndent ::
            (renderBlock b ++ tDedent :: (renderCases (c2 :: cs') ++ tDedent :: rest)))) := by
        simp [renderCases, suiteToks_append, tColon]
      rw [hform, parseCases_succ _ _ _ (tk_tok .case), hcX, h1, ← hcX]
      simp only [h2, h3]
      rw [hY] at h4 ⊢
      simp only [tk_tok, h4]
      simp

theorem stmtRT_match {subj : Expr} {cs : List MatchCase} (hs : ElemOK P0 subj) (hne : cs ≠ []) (hok : CasesOk cs) :
    StmtRT (.match subj cs) := by
  intro rest _
  refine first_of_compound (by simp only [renderStmt, List.cons_append]; exact startsCompound_hk_true (by simp) _) ?_
  obtain ⟨n1, hn1⟩ := evT_subject1 hs endTok_colon (by decide) (by decide) (by decide)
    (tNewline :: tIndent :: (renderCases cs ++ tDedent :: rest))
  obtain ⟨n2, hn2⟩ := casesRT cs hne hok rest
  refine ⟨max n1 n2 + 1, fun f hf => ?_⟩
  obtain ⟨f1, rfl⟩ : ∃ f1, f = f1 + 1 := ⟨f - 1, by omega⟩
  have h1 := hn1 f1 (by omega)
  have h2 := hn2 f1 (by omega)
  simp only [] at h1 h2 ⊢
  simp only [renderStmt, renderExpr_eq, List.cons_append, List.append_assoc, tColon, List.nil_append]
  rw [parseCompound_match, h1]
  simp only [tk_tNewline, tk_tIndent, and_self, if_true, h2, genericList]

/-! ## first tokens of rendered statements -/

theorem stmtHeadOk_kw {k : Kw} (hk : k = .if ∨ k = .for ∨ k = .async ∨ k = .from) : StmtHeadOk (.kw k) := by
  rcases hk with rfl | rfl | rfl | rfl <;> exact ⟨by simp, by decide, by decide, by decide, by decide, by decide⟩

theorem stmtHeadOk_at : StmtHeadOk (.op .at) := ⟨by simp, by decide, by decide, by decide, by decide, by decide⟩
theorem stmtHeadOk_lpar : StmtHeadOk (.op .lpar) := ⟨by simp, by decide, by decide, by decide, by decide, by decide⟩

theorem stmtHeadOk_elem {x : Expr} (hx : ElemOK P0 x) (X : List Tok) :
    ∃ t r, rx 1 x ++ X = t :: r ∧ StmtHeadOk t := by
  obtain ⟨t, tr, ht, hg⟩ := elemOK_head hx 1 (Nat.le_refl _)
  obtain ⟨_, _, _, htk, _, _, _⟩ := elem_dispatch hx 1 (Nat.le_refl _)
  have hs := stmtHead_of_elemTok hg
  refine ⟨t, tr ++ X, by rw [ht]; rfl, stmtHeadOk_of_plain (dispatch_of_not_stmtHead hs []).1 ?_⟩
  rcases hg with hg | rfl
  · intro e; subst e; simp [goodHead] at hg
  · simp

theorem renderDecorators_head (d : Expr) (ds : List Expr) (X : List Tok) :
    ∃ r, renderDecorators (d :: ds) ++ X = .op .at :: r := ⟨_, rfl⟩

theorem defToks_head (a : Bool) (n : Ident) (args : Arguments) (body : List Tok) (decos : List Expr)
    (returns : Option Expr) (tps : List TypeParam) :
    ∃ t r, defToks a n args body decos returns tps = t :: r ∧ StmtHeadOk t := by
  cases decos with
  | cons d ds => exact ⟨.op .at, _, rfl, stmtHeadOk_at⟩
  | nil =>
    cases a with
    | false => exact ⟨HK.tok .def, _, rfl, stmtHeadOk_tok (by decide)⟩
    | true => exact ⟨.kw .async, _, rfl, stmtHeadOk_kw (by simp)⟩

theorem renderStmt_head : (s : Stmt) → inFragS s = true → ∃ t r, renderStmt s = t :: r ∧ StmtHeadOk t
  | .pass, _ => ⟨_, _, rfl, stmtHeadOk_tok (by decide)⟩
  | .break, _ => ⟨_, _, rfl, stmtHeadOk_tok (by decide)⟩
  | .continue, _ => ⟨_, _, rfl, stmtHeadOk_tok (by decide)⟩
  | .return none, _ => ⟨_, _, rfl, stmtHeadOk_tok (by decide)⟩
  | .return (some _), _ => ⟨_, _, rfl, stmtHeadOk_tok (by decide)⟩
  | .delete _, _ => ⟨_, _, rfl, stmtHeadOk_tok (by decide)⟩
  | .assert _ _, _ => ⟨_, _, rfl, stmtHeadOk_tok (by decide)⟩
  | .raise none _, _ => ⟨_, _, rfl, stmtHeadOk_tok (by decide)⟩
  | .raise (some _) _, _ => ⟨_, _, rfl, stmtHeadOk_tok (by decide)⟩
  | .global _, _ => ⟨_, _, rfl, stmtHeadOk_tok (by decide)⟩
  | .nonlocal _, _ => ⟨_, _, rfl, stmtHeadOk_tok (by decide)⟩
  | .import _, _ => ⟨_, _, rfl, stmtHeadOk_tok (by decide)⟩
  | .importFrom _ _ _, _ => ⟨_, _, rfl, stmtHeadOk_kw (by simp)⟩
  | .typeAlias _ _ _, _ => ⟨_, _, rfl, stmtHeadOk_tok (by decide)⟩
  | .if _ _ _, _ => ⟨_, _, rfl, stmtHeadOk_kw (by simp)⟩
  | .while _ _ _, _ => ⟨_, _, rfl, stmtHeadOk_tok (by decide)⟩
  | .for _ _ _ _, _ => ⟨_, _, rfl, stmtHeadOk_kw (by simp)⟩
  | .asyncFor _ _ _ _, _ => ⟨_, _, rfl, stmtHeadOk_kw (by simp)⟩
  | .try _ _ _ _, _ => ⟨_, _, rfl, stmtHeadOk_tok (by decide)⟩
  | .tryStar _ _ _ _, _ => ⟨_, _, rfl, stmtHeadOk_tok (by decide)⟩
  | .with _ _, _ => ⟨_, _, rfl, stmtHeadOk_tok (by decide)⟩
  | .asyncWith _ _, _ => ⟨_, _, rfl, stmtHeadOk_kw (by simp)⟩
  | .match _ _, _ => ⟨_, _, rfl, stmtHeadOk_tok (by decide)⟩
  | .functionDef n a b d r tp, _ => defToks_head false n a _ d r tp
  | .asyncFunctionDef n a b d r tp, _ => defToks_head true n a _ d r tp
  | .classDef n bases kws b d tp, _ => by
    cases d with
    | cons d ds => exact ⟨.op .at, _, rfl, stmtHeadOk_at⟩
    | nil => exact ⟨HK.tok .class, _, rfl, stmtHeadOk_tok (by decide)⟩
  | .expr e, h => by
    have h' : fx .elem e = true := by simpa [inFragS] using h
    simpa [renderStmt, renderExpr_eq] using stmtHeadOk_elem (elemOK_of_fx h') [tNewline]
  | .assign ts v, h => by
    simp only [inFragS, Bool.and_eq_true, Bool.not_eq_true', List.isEmpty_eq_false_iff] at h
    cases ts with
    | nil => exact absurd rfl h.1.1
    | cons t ts' =>
      have ht : fx .elem t = true := by
        have := h.1.2; simp only [fxList, Bool.and_eq_true] at this; exact this.1
      simpa [renderStmt, assignTargets] using
        stmtHeadOk_elem (elemOK_of_fx ht) (tAssign :: (assignTargets ts' ++ (rx 1 v ++ [tNewline])))
  | .augAssign t o v, h => by
    simp only [inFragS, Bool.and_eq_true] at h
    simpa [renderStmt] using stmtHeadOk_elem (elemOK_of_fx h.1) (tAug o :: (rx 1 v ++ [tNewline]))
  | .annAssign t a v s, h => by
    simp only [inFragS, Bool.and_eq_true] at h
    by_cases hp : (isName t && !s) = true
    · exact ⟨.op .lpar, _, by rw [renderStmt, annTargetToks, if_pos hp]; rfl, stmtHeadOk_lpar⟩
    · have := stmtHeadOk_elem (.plain (goodP_of_fx h.1.1.1)) (tColon :: (rx 1 a ++ (optAssign v ++ [tNewline])))
      simpa [renderStmt, annTargetToks, hp] using this

/-! ## blocks -/

theorem blockRT_cons (s : Stmt) (ss : List Stmt) (hf : inFragB ss = true) (hs : StmtRT s) (hb : BlockRT ss) :
    BlockRT (s :: ss) := by
  intro _ rest
  cases ss with
  | nil =>
    obtain ⟨n, hn⟩ := hs (tDedent :: rest) (elseFree_dedent rest)
    refine ⟨n + 1, fun f hf => ?_⟩
    obtain ⟨f1, rfl⟩ : ∃ f1, f = f1 + 1 := ⟨f - 1, by omega⟩
    have h1 := hn f1 (by omega)
    simp only [renderBlock, List.append_nil] at h1 ⊢
    rw [parseBlock_unfold, h1]
    simp [tk_tDedent]
  | cons s2 ss' =>
    have hf2 : inFragS s2 = true := by
      simp only [inFragB, Bool.and_eq_true] at hf; exact hf.1
    obtain ⟨t2, r2, hr2, hh2⟩ := renderStmt_head s2 hf2
    have hrb : renderBlock (s2 :: ss') ++ tDedent :: rest = t2 :: (r2 ++ (renderBlock ss' ++ tDedent :: rest)) := by
      simp [renderBlock, hr2]
    obtain ⟨n, hn⟩ := hs (renderBlock (s2 :: ss') ++ tDedent :: rest) (by rw [hrb]; exact elseFree_of_headOk hh2)
    obtain ⟨m, hm⟩ := hb (by simp) rest
    refine ⟨max n m + 1, fun f hf => ?_⟩
    obtain ⟨f1, rfl⟩ : ∃ f1, f = f1 + 1 := ⟨f - 1, by omega⟩
    have h1 := hn f1 (by omega)
    have h2 := hm f1 (by omega)
    simp only [] at h1 h2 ⊢
    have : renderBlock (s :: s2 :: ss') ++ tDedent :: rest = renderStmt s ++ (renderBlock (s2 :: ss') ++ tDedent :: rest) := by
      simp [renderBlock]
    rw [this, parseBlock_unfold, h1]
    rw [hrb] at h2 ⊢
    simp [hh2.2.2.2.2.2, h2]

/-! ## the induction -/

theorem goodPs_of_fx : (es : List Expr) → fxList .plain es = true → ∀ x ∈ es, GoodP P0 x
  | [], _ => by simp
  | e :: es, h => by
    simp only [fxList, Bool.and_eq_true] at h
    intro x hx
    rcases List.mem_cons.mp hx with rfl | hx'
    · exact goodP_of_fx h.1
    · exact goodPs_of_fx es h.2 x hx'

theorem withItemsOk_of_fx : (items : List WithItem) → fxWithItems items = true → WithItemsOk items
  | [], _ => by intro it h; cases h
  | it :: r, h => by
    simp only [fxWithItems, Bool.and_eq_true] at h
    intro x hx
    rcases List.mem_cons.mp hx with rfl | hx'
    · exact ⟨goodP_of_fx h.1.1, goodOpt_of_fx h.1.2⟩
    · exact withItemsOk_of_fx r h.2 x hx'

theorem elemOpt_of_fx {v : Option Expr} (h : fxOptE v = true) : ∀ x, v = some x → ElemOK P0 x := by
  intro x hx; subst hx; exact elemOK_of_fx (by simpa [fxOptE] using h)

theorem goodOpt_some {v : Option Expr} (h : fxOpt v = true) : ∀ x, v = some x → GoodP P0 x := by
  intro x hx; subst hx; exact goodP_of_fx (by simpa [fxOpt] using h)

mutual
theorem rtStmt : (s : Stmt) → inFragS s = true → StmtRT s
  | .pass, _ => stmtRT_of_small rfl small_pass
  | .break, _ => stmtRT_of_small rfl small_break
  | .continue, _ => stmtRT_of_small rfl small_continue
  | .return none, _ => stmtRT_of_small rfl small_return_none
  | .return (some e), h =>
    stmtRT_of_small (by simp [renderStmt, renderExpr_eq]) (small_return_some (elemOK_of_fx (by simpa [inFragS] using h)))
  | .expr e, h => stmtRT_of_small (by simp [renderStmt, renderExpr_eq]) (small_expr (elemOK_of_fx (by simpa [inFragS] using h)))
  | .delete ts, h => by
    simp only [inFragS, Bool.and_eq_true, Bool.not_eq_true', List.isEmpty_eq_false_iff] at h
    exact stmtRT_of_small (by simp [renderStmt]) (small_delete h.1 (elemsOK_of_fx ts h.2))
  | .assign ts v, h => by
    simp only [inFragS, Bool.and_eq_true, Bool.not_eq_true', List.isEmpty_eq_false_iff] at h
    exact stmtRT_of_small (by simp [renderStmt]) (small_assign h.1.1 (elemsOK_of_fx ts h.1.2) (elemOK_of_fx h.2))
  | .augAssign t o v, h => by
    simp only [inFragS, Bool.and_eq_true] at h
    exact stmtRT_of_small (by simp [renderStmt]) (small_augAssign o (elemOK_of_fx h.1) (elemOK_of_fx h.2))
  | .annAssign t a v s, h => by
    simp only [inFragS, Bool.and_eq_true, Bool.or_eq_true, Bool.not_eq_true'] at h
    refine stmtRT_of_small (by simp [renderStmt]) (small_annAssign (goodP_of_fx h.1.1.1) (goodP_of_fx h.1.1.2)
      (elemOpt_of_fx h.1.2) ?_)
    intro hs
    rcases h.2 with h2 | h2
    · rw [hs] at h2; cases h2
    · exact h2
  | .assert t m, h => by
    simp only [inFragS, Bool.and_eq_true] at h
    exact stmtRT_of_small (by cases m <;> simp [renderStmt, optToks]) (small_assert (goodP_of_fx h.1) (goodOpt_some h.2))
  | .raise none none, _ => stmtRT_of_small rfl small_raise_none
  | .raise none (some _), h => by simp [inFragS] at h
  | .raise (some e) c, h => by
    simp only [inFragS, Bool.and_eq_true] at h
    exact stmtRT_of_small (by cases c <;> simp [renderStmt, optToks]) (small_raise (goodP_of_fx h.1) (goodOpt_some h.2))
  | .global ns, h => by
    simp only [inFragS, Bool.not_eq_true', List.isEmpty_eq_false_iff] at h
    exact stmtRT_of_small (by simp [renderStmt]) (small_global h)
  | .nonlocal ns, h => by
    simp only [inFragS, Bool.not_eq_true', List.isEmpty_eq_false_iff] at h
    exact stmtRT_of_small (by simp [renderStmt]) (small_nonlocal h)
  | .import names, h => by
    simp only [inFragS, Bool.not_eq_true', List.isEmpty_eq_false_iff] at h
    exact stmtRT_of_small (by simp [renderStmt]) (small_import h)
  | .importFrom m names none, h => by simp [inFragS, fromNamesOk] at h
  | .importFrom m names (some lvl), h => by
    simp only [inFragS, fromNamesOk, Bool.and_eq_true, Bool.not_eq_true', List.isEmpty_eq_false_iff, Bool.or_eq_true,
      decide_eq_true_eq] at h
    exact stmtRT_of_small (by cases m <;> simp [renderStmt, modToks]) (small_importFrom h.1 h.2)
  | .typeAlias n tps v, h => by
    simp only [inFragS, Bool.and_eq_true] at h
    cases n with
    | name id => exact stmtRT_of_small (by simp [renderStmt]) (small_typeAlias h.1.2 (goodP_of_fx h.2))
    | _ => simp [isName] at h
  | .if t b o, h => by
    simp only [inFragS, Bool.and_eq_true, Bool.not_eq_true', List.isEmpty_eq_false_iff] at h
    exact stmtRT_if (goodP_of_fx h.1.1.1) h.1.1.2 (rtBlock b h.1.2) (rtBlock o h.2)
  | .while t b o, h => by
    simp only [inFragS, Bool.and_eq_true, Bool.not_eq_true', List.isEmpty_eq_false_iff] at h
    exact stmtRT_while (goodP_of_fx h.1.1.1) h.1.1.2 (rtBlock b h.1.2) (rtBlock o h.2)
  | .for t i b o, h => by
    simp only [inFragS, Bool.and_eq_true, Bool.not_eq_true', List.isEmpty_eq_false_iff] at h
    exact stmtRT_for (elemOK_of_fx h.1.1.1.1) (elemOK_of_fx h.1.1.1.2) h.1.1.2 (rtBlock b h.1.2) (rtBlock o h.2)
  | .asyncFor t i b o, h => by
    simp only [inFragS, Bool.and_eq_true, Bool.not_eq_true', List.isEmpty_eq_false_iff] at h
    exact stmtRT_asyncFor (elemOK_of_fx h.1.1.1.1) (elemOK_of_fx h.1.1.1.2) h.1.1.2 (rtBlock b h.1.2) (rtBlock o h.2)
  | .try b hs o f, h => by
    simp only [inFragS, Bool.and_eq_true, Bool.not_eq_true', List.isEmpty_eq_false_iff] at h
    obtain ⟨⟨⟨⟨⟨hbne, hb⟩, hhs⟩, ho⟩, hf⟩, hcond⟩ := h
    cases hs with
    | nil =>
      simp only [List.isEmpty_nil, if_true, Bool.and_eq_true, List.isEmpty_iff, Bool.not_eq_true',
        List.isEmpty_eq_false_iff] at hcond
      obtain ⟨rfl, hfne⟩ := hcond
      exact stmtRT_try_finally hbne (rtBlock b hb) hfne (rtBlock f hf)
    | cons h0 hs' =>
      exact stmtRT_try_handlers hbne (rtBlock b hb) (by simp) (rtHandlers (h0 :: hs') false hhs) (rtBlock o ho)
        (rtBlock f hf)
  | .tryStar b hs o f, h => by
    simp only [inFragS, Bool.and_eq_true, Bool.not_eq_true', List.isEmpty_eq_false_iff] at h
    obtain ⟨⟨⟨⟨⟨hbne, hb⟩, hne⟩, hhs⟩, ho⟩, hf⟩ := h
    exact stmtRT_tryStar hbne (rtBlock b hb) hne (rtHandlers hs true hhs) (rtBlock o ho) (rtBlock f hf)
  | .with items b, h => by
    simp only [inFragS, Bool.and_eq_true, Bool.not_eq_true', List.isEmpty_eq_false_iff] at h
    exact stmtRT_with h.1.1.1 (withItemsOk_of_fx items h.1.1.2) h.1.2 (rtBlock b h.2)
  | .asyncWith items b, h => by
    simp only [inFragS, Bool.and_eq_true, Bool.not_eq_true', List.isEmpty_eq_false_iff] at h
    exact stmtRT_asyncWith h.1.1.1 (withItemsOk_of_fx items h.1.1.2) h.1.2 (rtBlock b h.2)
  | .functionDef n a b d r tp, h => by
    simp only [inFragS, Bool.and_eq_true, Bool.not_eq_true', List.isEmpty_eq_false_iff] at h
    obtain ⟨⟨⟨⟨⟨ha, hbne⟩, hb⟩, hd⟩, hr⟩, htp⟩ := h
    exact stmtRT_def false ha (goodPs_of_fx d hd) (goodOpt_of_fx hr) htp hbne (rtBlock b hb) _ rfl rfl
  | .asyncFunctionDef n a b d r tp, h => by
    simp only [inFragS, Bool.and_eq_true, Bool.not_eq_true', List.isEmpty_eq_false_iff] at h
    obtain ⟨⟨⟨⟨⟨ha, hbne⟩, hb⟩, hd⟩, hr⟩, htp⟩ := h
    exact stmtRT_def true ha (goodPs_of_fx d hd) (goodOpt_of_fx hr) htp hbne (rtBlock b hb) _ rfl rfl
  | .classDef n bases kws b d tp, h => by
    simp only [inFragS, Bool.and_eq_true, Bool.not_eq_true', List.isEmpty_eq_false_iff] at h
    obtain ⟨⟨⟨⟨⟨⟨hbs, hk⟩, hfr⟩, hbne⟩, hb⟩, hd⟩, htp⟩ := h
    exact stmtRT_class (elemsOK_of_fx bases hbs) (goodKws_of_fx kws hk) hfr (goodPs_of_fx d hd) htp hbne (rtBlock b hb)
  | .match subj cases, h => by
    simp only [inFragS, Bool.and_eq_true, Bool.not_eq_true', List.isEmpty_eq_false_iff] at h
    exact stmtRT_match (elemOK_of_fx h.1.1) h.1.2 (rtCases cases h.2)
theorem rtBlock : (ss : List Stmt) → inFragB ss = true → BlockRT ss
  | [], _ => fun hne => absurd rfl hne
  | s :: ss, h => by
    simp only [inFragB, Bool.and_eq_true] at h
    exact blockRT_cons s ss h.2 (rtStmt s h.1) (rtBlock ss h.2)
theorem rtHandlers : (hs : List ExceptHandler) → (star : Bool) → inFragHs hs star = true → HandlersOk hs star
  | [], _, _ => by intro ty nm b hm; cases hm
  | .mk ty nm b :: hs, star, h => by
    simp only [inFragHs, Bool.and_eq_true, Bool.not_eq_true', List.isEmpty_eq_false_iff, Bool.or_eq_true] at h
    obtain ⟨⟨⟨⟨hty, hcond⟩, hbne⟩, hb⟩, hrest⟩ := h
    intro ty' nm' b' hm
    rcases List.mem_cons.mp hm with heq | hm'
    · cases heq
      refine ⟨⟨goodOpt_of_fx hty, ?_⟩, hbne, rtBlock b hb⟩
      rcases hcond with hc | hc
      · exact Or.inl hc
      · exact Or.inr ⟨by simpa using hc.1, hc.2⟩
    · exact rtHandlers hs star hrest ty' nm' b' hm'
theorem rtCases : (cs : List MatchCase) → inFragCs cs = true → CasesOk cs
  | [], _ => by intro p g b hm; cases hm
  | .mk p g b :: cs, h => by
    simp only [inFragCs, Bool.and_eq_true, Bool.not_eq_true', List.isEmpty_eq_false_iff] at h
    obtain ⟨⟨⟨⟨hp, hg⟩, hbne⟩, hb⟩, hrest⟩ := h
    intro p' g' b' hm
    rcases List.mem_cons.mp hm with heq | hm'
    · cases heq
      exact ⟨hp, goodOpt_of_fx hg, hbne, rtBlock b hb⟩
    · exact rtCases cs hrest p' g' b' hm'
end

/-! ## programs -/

theorem parseProgramBody_unfold (f : Nat) (t : Tok) (r : List Tok) (ht : tk t ≠ .newline) :
    parseProgramBody (f + 1) (t :: r) =
      (match parseFirst f (t :: r) with
       | some (ss, r1) =>
         (match parseProgramBody f r1 with
          | some more => some (ss ++ more)
          | none => none)
       | none => none) := by
  rw [parseProgramBody]
  simp only [ht, if_false, parseFirst]
  by_cases hc : startsCompound (t :: r) = true
  · simp only [hc, if_true]
    cases parseCompound f (t :: r) with
    | none => rfl
    | some x => obtain ⟨s, r1⟩ := x; rfl
  · simp only [hc]
    rfl

theorem elseFree_renderBlock (ss : List Stmt) (h : inFragB ss = true) : ElseFree (renderBlock ss) := by
  cases ss with
  | nil => simp [renderBlock, ElseFree]
  | cons s ss' =>
    simp only [inFragB, Bool.and_eq_true] at h
    obtain ⟨t, r, hr, hh⟩ := renderStmt_head s h.1
    simp only [renderBlock, hr, List.cons_append]
    exact elseFree_of_headOk hh

/-- a rendered program is read back -/
theorem progRT : (ss : List Stmt) → inFragB ss = true → EvT (fun f => parseProgramBody f (renderBlock ss)) ss
  | [], _ => ⟨1, fun f hf => by
      obtain ⟨f1, rfl⟩ : ∃ f1, f = f1 + 1 := ⟨f - 1, by omega⟩
      simp [renderBlock, parseProgramBody]⟩
  | s :: ss, h => by
    simp only [inFragB, Bool.and_eq_true] at h
    obtain ⟨n, hn⟩ := rtStmt s h.1 (renderBlock ss) (elseFree_renderBlock ss h.2)
    obtain ⟨m, hm⟩ := progRT ss h.2
    obtain ⟨t, r, hr, hh⟩ := renderStmt_head s h.1
    refine ⟨max n m + 1, fun f hf => ?_⟩
    obtain ⟨f1, rfl⟩ : ∃ f1, f = f1 + 1 := ⟨f - 1, by omega⟩
    have h1 := hn f1 (by omega)
    have h2 := hm f1 (by omega)
    simp only [] at h1 h2 ⊢
    simp only [renderBlock] at h1 ⊢
    rw [hr, List.cons_append] at h1 ⊢
    rw [parseProgramBody_unfold _ _ _ hh.2.2.2.2.1, h1]
    simp [h2]

theorem map_toTok_ofTok (ts : List Tok) : (ts.map PTok.ofTok).map PTok.toTok = ts := by
  induction ts with
  | nil => rfl
  | cons t r ih => simp [PTok.toTok_ofTok, ih]

end PV.Prog
