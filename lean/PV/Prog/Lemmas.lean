import PV.Prog.Spec
import PV.Prog.Mono
import PV.Prog.SufC11
import PV.Prog.LastNlC11
import PV.C11.Lemmas
/-
  PV.Prog.Lemmas — helper lemmas for `PV.Prog.Thm`.
-/
set_option linter.unusedSimpArgs false
namespace PV.Prog
open PV.Expr PV.C11

/-! ## fuel -/

theorem parseTopT_mono (mode : Mode) (f : Nat) (ts : List Tok) (h : (parseTopT mode f ts).isSome = true) :
    parseTopT mode (f + 1) ts = parseTopT mode f ts := by
  have hb := (progMono f).parseProgramBody ts
  have hc := (progMono f).parseCommaList .testOrStar ts
  cases mode <;> simp only [parseTopT, parseTestListS] at h ⊢
  · cases hp : parseProgramBody f ts with
    | none => simp [hp] at h
    | some b => rw [hb (by simp [hp]), hp]
  · cases hp : parseProgramBody f ts with
    | none => simp [hp] at h
    | some b => rw [hb (by simp [hp]), hp]
  · cases hp : parseCommaList .testOrStar f ts with
    | none => simp [hp] at h
    | some b => rw [hc (by simp [hp]), hp]

theorem parseTopT_mono_le (mode : Mode) (ts : List Tok) (m : Mod) {f f' : Nat} (hle : f ≤ f')
    (h : parseTopT mode f ts = some m) : parseTopT mode f' ts = some m := by
  induction hle with
  | refl => exact h
  | step _ ih => rw [parseTopT_mono _ _ _ (by simp [ih]), ih]

/-! ## elif chains -/

theorem elifFold_append (xs : List (Expr × List Stmt)) (c : Expr × List Stmt) (last : List Stmt) :
    elifFold (xs ++ [c]) last = [.if c.1 c.2 (elifFold xs last)] := by
  induction xs generalizing last with
  | nil => simp [elifFold]
  | cons x xs ih => obtain ⟨t, b⟩ := x; simp [elifFold, ih]

theorem elifFold_reverse (cs : List (Expr × List Stmt)) (els : List Stmt) :
    elifFold cs.reverse els = ifMeaning cs els := by
  induction cs with
  | nil => simp [elifFold, ifMeaning]
  | cons c cs ih => obtain ⟨t, b⟩ := c; simp [elifFold_append, ih, ifMeaning]

/-- the `IfStatement` action (a fold over the reversed `elif` list) builds the right-nested chain -/
theorem ifAssemble_spec (test : Expr) (body : List Stmt) (s2 : List (Expr × List Stmt)) (s3 : Option (List Stmt)) :
    [ifAssemble test body s2 s3] = ifMeaning ((test, body) :: s2) (s3.getD []) := by
  simp [ifAssemble, ifMeaning, elifFold_reverse]

/-! ## import dots -/

theorem importDots_spec (ts : List Tok) :
    importDots ts = (dotChars ts, (ts.takeWhile isDotTok).length, ts.dropWhile isDotTok) := by
  fun_induction importDots ts with
  | case1 r lvl n r' h ih =>
    rw [h] at ih
    simp only [Prod.mk.injEq] at ih
    obtain ⟨h1, h2, h3⟩ := ih
    subst h1 h2 h3
    simp [dotChars, isDotTok, dotLen, List.takeWhile_cons, List.dropWhile_cons]
    omega
  | case2 r lvl n r' h ih =>
    rw [h] at ih
    simp only [Prod.mk.injEq] at ih
    obtain ⟨h1, h2, h3⟩ := ih
    subst h1 h2 h3
    simp [dotChars, isDotTok, dotLen, List.takeWhile_cons, List.dropWhile_cons]
    omega
  | case3 ts h1 h2 =>
    cases ts with
    | nil => simp [dotChars]
    | cons t r =>
      have : isDotTok t = false := by
        unfold isDotTok
        split
        · exact absurd rfl (h1 r)
        · exact absurd rfl (h2 r)
        · rfl
      simp [dotChars, List.takeWhile_cons, List.dropWhile_cons, this]

/-! ## bare names -/

theorem stop1_colon (r : List Tok) : Stop 1 (.op .colon :: r) := by
  intro t r' h
  cases h
  rfl

/-- a bare NAME followed by `:` is read as the target `Name`, for every sufficiently large fuel -/
theorem commaList_bare_name (id : Ident) (r : List Tok) :
    ∃ n, ∀ f, n ≤ f → parseCommaList .testOrStar f (.name id :: .op .colon :: r) =
      some (([.name id], false), .op .colon :: r) := by
  obtain ⟨n, hn⟩ := rt_name (fun _ => true) id 1 (.op .colon :: r) (Nat.le_refl 1) (by decide) (stop1_colon r)
  refine ⟨n + 2, fun f hf => ?_⟩
  obtain ⟨f1, rfl⟩ : ∃ f1, f = f1 + 2 := ⟨f - 2, by omega⟩
  have h1 : parseTest f1 (.name id :: .op .colon :: r) = some (.name id, .op .colon :: r) := by
    have := hn f1 (by omega)
    simpa [parseAt, unparse, toks] using this
  simp [parseCommaList, parseElem, parseTestOrStar, h1]

/-! ## comma lists: suffix, final NEWLINE -/

theorem parseElem_suf (ek : EK) (f : Nat) (ts : List Tok) (v : Expr) (r : List Tok)
    (h : parseElem ek f ts = some (v, r)) : r <:+ ts := by
  cases ek <;> simp only [parseElem] at h
  · exact (c11Suf f).parseTestOrStar ts v r h
  · exact (c11Suf f).parseExprOrStar ts v r h
  · exact (c11Suf f).parseStarOrNamed ts v r h
  · exact (c11Suf f).parseTest ts v r h

theorem parseElem_lastNL (ek : EK) (f : Nat) (ts : List Tok) (v : Expr) (r : List Tok)
    (h : parseElem ek f ts = some (v, r)) (hl : LastNL ts) : LastNL r := by
  cases ek <;> simp only [parseElem] at h
  · exact (c11LastNL f).parseTestOrStar ts v r h hl
  · exact (c11LastNL f).parseExprOrStar ts v r h hl
  · exact (c11LastNL f).parseStarOrNamed ts v r h hl
  · exact (c11LastNL f).parseTest ts v r h hl

/-- the rest of a comma list is a suffix of the input -/
theorem parseCommaList_suf (ek : EK) : ∀ (f : Nat) (ts : List Tok) (l : List Expr × Bool) (r : List Tok),
    parseCommaList ek f ts = some (l, r) → r <:+ ts := by
  intro f
  induction f with
  | zero => intro ts l r h; simp [parseCommaList] at h
  | succ f ih =>
    intro ts l r h
    rw [parseCommaList] at h
    repeat' (first | split_any | (simp only [] at h))
    all_goals (try (simp_all; done))
    all_goals (simp only [Option.some.injEq, Prod.mk.injEq] at h)
    · rename_i _ e r0 he _ _ es tc r1 hr
      obtain ⟨_, rfl⟩ := h
      exact List.IsSuffix.trans (ih _ _ _ hr) (suf_of_cons (parseElem_suf _ _ _ _ _ he))
    · rename_i _ e r0 he _
      obtain ⟨_, rfl⟩ := h
      exact suf_of_cons (parseElem_suf _ _ _ _ _ he)
    · rename_i _ e r0 _ he
      obtain ⟨_, rfl⟩ := h
      exact parseElem_suf _ _ _ _ _ he

/-- a comma list never consumes the final NEWLINE of its input -/
theorem parseCommaList_lastNL (ek : EK) : ∀ (f : Nat) (ts : List Tok) (l : List Expr × Bool) (r : List Tok),
    parseCommaList ek f ts = some (l, r) → LastNL ts → LastNL r := by
  intro f
  induction f with
  | zero => intro ts l r h; simp [parseCommaList] at h
  | succ f ih =>
    intro ts l r h hl
    rw [parseCommaList] at h
    repeat' (first | split_any | (simp only [] at h))
    all_goals (try (simp_all; done))
    all_goals (simp only [Option.some.injEq, Prod.mk.injEq] at h)
    · rename_i _ e r0 he _ _ es tc r1 hr
      obtain ⟨_, rfl⟩ := h
      have := parseElem_lastNL _ _ _ _ _ he hl
      rw [lastNL_op _ _ (by simp)] at this
      exact ih _ _ _ hr this
    · rename_i _ e r0 he _
      obtain ⟨_, rfl⟩ := h
      have := parseElem_lastNL _ _ _ _ _ he hl
      rwa [lastNL_op _ _ (by simp)] at this
    · rename_i _ e r0 _ he
      obtain ⟨_, rfl⟩ := h
      exact parseElem_lastNL _ _ _ _ _ he hl

/-! ## first tokens -/

theorem parseTestOrStar_none_of_stmtHead {t : Tok} (ht : stmtHead t = true) (r : List Tok) :
    ∀ f, parseTestOrStar f (t :: r) = none := by
  have hatom : ∀ f, parseAtom f (t :: r) = none := by
    intro f
    cases f with
    | zero => simp [parseAtom]
    | succ f => unfold stmtHead at ht; split at ht <;> simp_all [parseAtom]
  have hT : ∀ f, parseTest f (t :: r) = none := by
    apply parseTest_none_of_atom_none hatom
    all_goals (unfold stmtHead at ht; split at ht <;> simp_all [unaryOpAt])
  intro f
  cases f with
  | zero => simp [parseTestOrStar]
  | succ f =>
    unfold stmtHead at ht
    split at ht <;> simp_all [parseTestOrStar]

theorem parseCommaList_none_of_stmtHead {t : Tok} (ht : stmtHead t = true) (r : List Tok) (f : Nat) :
    parseCommaList .testOrStar f (t :: r) = none := by
  cases f with
  | zero => simp [parseCommaList]
  | succ f => simp [parseCommaList, parseElem, parseTestOrStar_none_of_stmtHead ht r f]

/-- what the statement dispatch sees of a token that can start an expression -/
theorem dispatch_of_not_stmtHead {t : Tok} (ht : stmtHead t = false) (r : List Tok) :
    tk t = .plain ∧ startsCompound (t :: r) = false ∧ t ≠ .kw .yield ∧ t ≠ .kw .from := by
  unfold stmtHead at ht
  split at ht <;> simp_all [tk, startsCompound]

/-! ## which statements are expression statements -/

macro "not_expr" h:ident : tactic => `(tactic|
  (repeat' (first | split_any | (simp only [] at $h:ident))
   all_goals (try (simp_all [isExprStmt, ifAssemble]; done))
   all_goals (try (simp only [Option.some.injEq, Prod.mk.injEq] at $h:ident; rw [← ($h).1]; rfl))))

theorem parseFor_not_expr (f : Nat) (a : Bool) (ts : List Tok) (s : Stmt) (r : List Tok)
    (h : parseFor f a ts = some (s, r)) : isExprStmt s = false := by
  cases f with
  | zero => simp [parseFor] at h
  | succ f => unfold parseFor at h; not_expr h

theorem parseWith_not_expr (f : Nat) (a : Bool) (ts : List Tok) (s : Stmt) (r : List Tok)
    (h : parseWith f a ts = some (s, r)) : isExprStmt s = false := by
  cases f with
  | zero => simp [parseWith] at h
  | succ f => unfold parseWith at h; not_expr h

theorem parseDef_not_expr (f : Nat) (a : Bool) (d : List Expr) (ts : List Tok) (s : Stmt) (r : List Tok)
    (h : parseDef f a d ts = some (s, r)) : isExprStmt s = false := by
  cases f with
  | zero => simp [parseDef] at h
  | succ f => unfold parseDef at h; not_expr h

theorem parseClass_not_expr (f : Nat) (d : List Expr) (ts : List Tok) (s : Stmt) (r : List Tok)
    (h : parseClass f d ts = some (s, r)) : isExprStmt s = false := by
  cases f with
  | zero => simp [parseClass] at h
  | succ f => unfold parseClass at h; not_expr h

/-- a compound statement is never an expression statement -/
theorem parseCompound_not_expr (f : Nat) (ts : List Tok) (s : Stmt) (r : List Tok)
    (h : parseCompound f ts = some (s, r)) : isExprStmt s = false := by
  cases f with
  | zero => simp [parseCompound] at h
  | succ f =>
    unfold parseCompound at h
    repeat' (first | split_any | (simp only [] at h))
    all_goals (try (simp at h; done))
    all_goals (try (simp only [Option.some.injEq, Prod.mk.injEq] at h; rw [← h.1]; rfl))
    all_goals first
      | exact parseFor_not_expr _ _ _ _ _ h
      | exact parseWith_not_expr _ _ _ _ _ h
      | exact parseDef_not_expr _ _ _ _ _ _ h
      | exact parseClass_not_expr _ _ _ _ _ h

theorem parseImportFrom_not_expr (f : Nat) (ts : List Tok) (s : Stmt) (r : List Tok)
    (h : parseImportFrom f ts = some (s, r)) : isExprStmt s = false := by
  cases f with
  | zero => simp [parseImportFrom] at h
  | succ f =>
    unfold parseImportFrom at h
    repeat' (first | split_any | (simp only [] at h))
    all_goals (try (simp at h; done))
    all_goals (try (simp only [Option.some.injEq, Prod.mk.injEq] at h; rw [← h.1]; rfl))

/-- an expression statement that does not start with `yield` was read by `ExpressionStatement` -/
theorem parseSmall_expr (f : Nat) (t : Tok) (r : List Tok) (s : Stmt) (rest : List Tok)
    (h : parseSmall f (t :: r) = some (s, rest)) (hs : isExprStmt s = true) (hy : t ≠ .kw .yield) :
    ∃ f', f = f' + 1 ∧ parseExprStmt f' (t :: r) = some (s, rest) := by
  cases f with
  | zero => simp [parseSmall] at h
  | succ f =>
    refine ⟨f, rfl, ?_⟩
    unfold parseSmall at h
    repeat' (first | split_any | (simp only [] at h))
    all_goals (try (simp at h; done))
    all_goals (try (simp_all; done))
    all_goals (try (simp only [Option.some.injEq, Prod.mk.injEq] at h; rw [← h.1] at hs; simp [isExprStmt] at hs; done))
    all_goals (try (have := parseImportFrom_not_expr _ _ _ _ h; simp [this] at hs; done))

/-- an `ExpressionStatement` that is an expression statement: a `TestList` not followed by `=`, `:` or an
    augmented-assignment operator -/
theorem parseExprStmt_expr (f : Nat) (ts : List Tok) (s : Stmt) (rest : List Tok)
    (h : parseExprStmt f ts = some (s, rest)) (hs : isExprStmt s = true) :
    ∃ f' l, f = f' + 1 ∧ parseCommaList .testOrStar f' ts = some (l, rest) ∧ s = .expr (genericList l) := by
  cases f with
  | zero => simp [parseExprStmt] at h
  | succ f =>
    unfold parseExprStmt at h
    simp only [assignOf] at h
    repeat' (first | split_any | (simp only [] at h))
    all_goals (try (simp at h; done))
    all_goals (try (simp_all; done))
    all_goals (try (simp only [Option.some.injEq, Prod.mk.injEq] at h; rw [← h.1] at hs; simp [isExprStmt] at hs; done))
    all_goals (
      simp only [Option.some.injEq, Prod.mk.injEq] at h
      obtain ⟨h1, h2⟩ := h
      subst h1 h2
      first
        | (rename_i heq; simp only [Option.some.injEq] at heq; rw [← heq] at hs; simp [isExprStmt] at hs; done)
        | exact ⟨f, _, rfl, by assumption, rfl⟩)

theorem parseSimpleLine_ne_nil (f : Nat) (ts : List Tok) (ss : List Stmt) (r : List Tok)
    (h : parseSimpleLine f ts = some (ss, r)) : ss ≠ [] := by
  cases f with
  | zero => simp [parseSimpleLine] at h
  | succ f =>
    unfold parseSimpleLine at h
    repeat' (first | split_any | (simp only [] at h))
    all_goals (try (simp at h; done))
    all_goals (simp only [Option.some.injEq, Prod.mk.injEq] at h; rw [← h.1]; simp)

/-- a logical line that holds exactly one statement -/
theorem parseSimpleLine_single (f : Nat) (ts : List Tok) (s : Stmt) (r : List Tok)
    (h : parseSimpleLine f ts = some ([s], r)) :
    ∃ f' t rest, f = f' + 1 ∧ parseSmall f' ts = some (s, t :: rest) ∧ (tk t = .newline ∨ tk t = .semi) := by
  cases f with
  | zero => simp [parseSimpleLine] at h
  | succ f =>
    unfold parseSimpleLine at h
    repeat' (first | split_any | (simp only [] at h))
    all_goals (try (simp at h; done))
    all_goals (simp only [Option.some.injEq, Prod.mk.injEq, List.cons.injEq, and_true] at h)
    · obtain ⟨rfl, rfl⟩ := h
      exact ⟨f, _, _, rfl, by assumption, Or.inl (by assumption)⟩
    · obtain ⟨rfl, rfl⟩ := h
      exact ⟨f, _, _, rfl, by assumption, Or.inr (by assumption)⟩
    · rename_i hm
      have := parseSimpleLine_ne_nil _ _ _ _ hm
      simp_all

/-! ## one-expression lines -/

theorem tk_tNewline : tk tNewline = .newline := by decide

theorem suffix_concat_head {body r : List Tok} {x t : Tok} {r' : List Tok}
    (hs : r <:+ body ++ [x]) (hr : r = t :: r') (ht : t ∉ body) : r = [x] := by
  induction body with
  | nil =>
    simp only [List.nil_append] at hs
    rcases List.suffix_cons_iff.mp hs with h | h
    · exact h
    · subst hr; simp at h
  | cons b bs ih =>
    rw [List.cons_append] at hs
    rcases List.suffix_cons_iff.mp hs with h | h
    · subst hr
      simp only [List.cons.injEq] at h
      exact absurd (h.1 ▸ List.mem_cons_self) ht
    · exact ih h (fun hm => ht (List.mem_cons_of_mem _ hm))

theorem lastNL_concat (body : List Tok) : LastNL (body ++ [tNewline]) := by
  simp [LastNL]

/-- after the expression of an expression line the parser stands exactly in front of the final NEWLINE -/
theorem rest_is_newline {body : List Tok} (hd : ExprLine body) {f : Nat} {l : List Expr × Bool} {t : Tok}
    {rest : List Tok} (h : parseCommaList .testOrStar f (body ++ [tNewline]) = some (l, t :: rest))
    (ht : tk t = .newline ∨ tk t = .semi) : t :: rest = [tNewline] := by
  have hs := parseCommaList_suf _ _ _ _ _ h
  refine suffix_concat_head hs rfl ?_
  intro hm
  have := hd.noNlSemi t hm
  rcases ht with ht | ht
  · exact this.1 ht
  · exact this.2 ht

end PV.Prog
